/- Every instruction that satisfies its rule preserves the invariant and never faults (C02). -/
import Nlmodel.Proofs.Lemmas.VerifierInv
namespace Nl
namespace Verifier

theorem succOK_spec {c : Cert} {t o h : Nat} (hs : succOK c t o h = true) :
    ∃ h', c.get t = some (o, h') ∧ h' ≤ h := by
  unfold succOK at hs
  split at hs
  · rename_i o' h' hg
    simp only [Bool.and_eq_true, beq_iff_eq, decide_eq_true_eq] at hs
    obtain ⟨h1, h2⟩ := hs
    subst h1
    exact ⟨h', hg, h2⟩
  · simp at hs

def Good (bc : Bytecode) (c : Cert) (r : Step) : Prop :=
  match r with
  | .next s' => ∃ o' h', Inv bc c s' o' h'
  | .halt _ _ => True
  | .error _ _ => True
  | .fault _ => False

variable {bc : Bytecode} {c : Cert}

/-- an instruction that stays in the same activation: new stack, ip, memory, last, globals, out -/
theorem mkInv (s : VM) (o h : Nat) (inv : Inv bc c s o h) (st' : Array Value) (ip' h' : Nat)
    (g' : Array Value) (m' : Mem) (last' : Value) (out' : List Text)
    (hg : c.get ip' = some (o, h'))
    (hsize : s.bp + nlocals (fnTable bc.consts) o + h' ≤ st'.size)
    (hmem : ∀ v ∈ st', ValOK c (fnTable bc.consts) v)
    (hglob : ∀ v ∈ g', ValOK c (fnTable bc.consts) v)
    (hm : HeapOK c (fnTable bc.consts) m'.heap) (hl : ValOK c (fnTable bc.consts) last') :
    Inv bc c { s with stack := st', ip := ip', globals := g', mem := m', last := last', out := out' } o h' :=
  ⟨hg, hsize, inv.frames, hmem, hglob, inv.cvalsOK, inv.cvalsSize, hm, hl⟩

theorem stack_push_ok (s : VM) (o h : Nat) (inv : Inv bc c s o h) (x : Value) (hx : ValOK c (fnTable bc.consts) x) :
    ∀ v ∈ s.stack.push x, ValOK c (fnTable bc.consts) v := by
  intro v hv
  rcases mem_push hv with h1 | h1
  · exact inv.stackOK v h1
  · subst h1; exact hx

/-- pushing one value (`True`, `False`, `Null`, `GetGlobal`) -/
theorem exec_push1 (s : VM) (o h pc' : Nat) (inv : Inv bc c s o h) (x : Value) (hx : ValOK c (fnTable bc.consts) x)
    (hs : succOK c pc' o (h + 1) = true) :
    Good bc c (.next { s with ip := pc', stack := s.stack.push x }) := by
  obtain ⟨h', hg, hle⟩ := succOK_spec hs
  have hsz := inv.height
  exact ⟨o, h', mkInv s o h inv _ pc' h' s.globals s.mem s.last s.out hg (by simp; omega) (stack_push_ok s o h inv x hx)
    inv.globalsOK inv.heapOK inv.lastOK⟩

theorem exec_simple (i : Instr) (s : VM) (o h pc' : Nat) (inv : Inv bc c s o h)
    (hr : checkInstr c (fnTable bc.consts) bc.consts.length pc' i o h = true)
    (hi : i = .true_ ∨ i = .false_ ∨ i = .null ∨ (∃ k, i = .getGlobal k)) :
    Good bc c (exec i pc' s) := by
  rcases hi with rfl | rfl | rfl | ⟨k, rfl⟩
  · exact exec_push1 s o h pc' inv _ trivial (by simpa [checkInstr] using hr)
  · exact exec_push1 s o h pc' inv _ trivial (by simpa [checkInstr] using hr)
  · exact exec_push1 s o h pc' inv _ trivial (by simpa [checkInstr] using hr)
  · have hx : ValOK c (fnTable bc.consts) (s.globals.getD k .null) := by
      unfold Array.getD
      split
      · exact inv.globalsOK _ (Array.getElem_mem _)
      · trivial
    exact exec_push1 s o h pc' inv _ hx (by simpa [checkInstr] using hr)


theorem exec_const (s : VM) (o h k pc' : Nat) (inv : Inv bc c s o h)
    (hr : checkInstr c (fnTable bc.consts) bc.consts.length pc' (.const k) o h = true) :
    Good bc c (exec (.const k) pc' s) := by
  simp only [checkInstr, Bool.and_eq_true, decide_eq_true_eq] at hr
  obtain ⟨hk, hs⟩ := hr
  obtain ⟨h', hg, hle⟩ := succOK_spec hs
  have hk' : k < s.cvals.size := by rw [inv.cvalsSize]; exact hk
  simp only [exec, Array.getElem?_eq_getElem hk']
  have hv := inv.cvalsOK _ (Array.getElem_mem hk')
  have hsz := inv.height
  generalize s.cvals[k] = cv at hv
  cases cv with
  | str a =>
    refine ⟨o, h', ⟨hg, ?_, inv.frames, ?_, inv.globalsOK, inv.cvalsOK, inv.cvalsSize, ?_, inv.lastOK⟩⟩
    · simp [Mem.allocStr]; omega
    · intro v hv'
      rcases mem_push hv' with h1 | h1
      · exact inv.stackOK v h1
      · subst h1; trivial
    · exact heapOK_alloc c _ _ _ inv.heapOK (by intro v hv; cases hv)
  | null | bool _ | int _ | fn _ _ | float _ | arr _ =>
    refine ⟨o, h', ⟨hg, ?_, inv.frames, ?_, inv.globalsOK, inv.cvalsOK, inv.cvalsSize, inv.heapOK, inv.lastOK⟩⟩
    · simp; omega
    · intro v hv'
      rcases mem_push hv' with h1 | h1
      · exact inv.stackOK v h1
      · subst h1; exact hv

theorem exec_pop (s : VM) (o h pc' : Nat) (inv : Inv bc c s o h)
    (hr : checkInstr c (fnTable bc.consts) bc.consts.length pc' .pop o h = true) :
    Good bc c (exec .pop pc' s) := by
  simp only [checkInstr, Bool.and_eq_true, decide_eq_true_eq] at hr
  obtain ⟨hh, hs⟩ := hr
  obtain ⟨h', hg, hle⟩ := succOK_spec hs
  have hsz := inv.height
  obtain ⟨v, hp, hvm⟩ := pop1_some s.stack (by omega)
  simp only [exec, hp]
  exact ⟨o, h', mkInv s o h inv _ pc' h' s.globals s.mem v s.out hg (by simp; omega)
    (fun w hw => inv.stackOK w (mem_pop hw)) inv.globalsOK inv.heapOK (inv.stackOK v hvm)⟩

theorem exec_jump (s : VM) (o h t pc' : Nat) (inv : Inv bc c s o h)
    (hr : checkInstr c (fnTable bc.consts) bc.consts.length pc' (.jump t) o h = true) :
    Good bc c (exec (.jump t) pc' s) := by
  simp only [checkInstr] at hr
  obtain ⟨h', hg, hle⟩ := succOK_spec hr
  have hsz := inv.height
  simp only [exec]
  exact ⟨o, h', mkInv s o h inv s.stack t h' s.globals s.mem s.last s.out hg (by omega) inv.stackOK inv.globalsOK inv.heapOK inv.lastOK⟩

theorem exec_jif (s : VM) (o h t pc' : Nat) (inv : Inv bc c s o h)
    (hr : checkInstr c (fnTable bc.consts) bc.consts.length pc' (.jumpIfFalse t) o h = true) :
    Good bc c (exec (.jumpIfFalse t) pc' s) := by
  simp only [checkInstr, Bool.and_eq_true, decide_eq_true_eq] at hr
  obtain ⟨⟨hh, hs1⟩, hs2⟩ := hr
  obtain ⟨h1, hg1, hle1⟩ := succOK_spec hs1
  obtain ⟨h2, hg2, hle2⟩ := succOK_spec hs2
  have hsz := inv.height
  obtain ⟨v, hp, hvm⟩ := pop1_some s.stack (by omega)
  simp only [exec, hp]
  cases v with
  | bool b =>
    cases b
    · exact ⟨o, h2, mkInv s o h inv _ t h2 s.globals s.mem s.last s.out hg2 (by simp; omega)
        (fun w hw => inv.stackOK w (mem_pop hw)) inv.globalsOK inv.heapOK inv.lastOK⟩
    · exact ⟨o, h1, mkInv s o h inv _ pc' h1 s.globals s.mem s.last s.out hg1 (by simp; omega)
        (fun w hw => inv.stackOK w (mem_pop hw)) inv.globalsOK inv.heapOK inv.lastOK⟩
  | null | int _ | fn _ _ | float _ | str _ | arr _ => trivial

theorem exec_bin (s : VM) (o h pc' : Nat) (op : BinOp) (inv : Inv bc c s o h)
    (hr : checkInstr c (fnTable bc.consts) bc.consts.length pc' (.bin op) o h = true) :
    Good bc c (exec (.bin op) pc' s) := by
  simp only [checkInstr, Bool.and_eq_true, decide_eq_true_eq] at hr
  obtain ⟨hh, hs⟩ := hr
  obtain ⟨h', hg, hle⟩ := succOK_spec hs
  have hsz := inv.height
  obtain ⟨r, hp1, hrm⟩ := pop1_some s.stack (by omega)
  obtain ⟨l, hp2, hlm⟩ := pop1_some s.stack.pop (by simp; omega)
  simp only [exec, hp1, hp2]
  cases hb : binop op l r s.mem with
  | error e => trivial
  | ok p =>
    obtain ⟨v, m⟩ := p
    obtain ⟨hv, hm⟩ := binop_ok c _ op l r s.mem m v inv.heapOK (inv.stackOK l (mem_pop hlm)) hb
    refine ⟨o, h', mkInv s o h inv _ pc' h' s.globals m s.last s.out hg (by simp; omega) ?_ inv.globalsOK hm inv.lastOK⟩
    intro w hw
    rcases mem_push hw with h1 | h1
    · exact inv.stackOK w (mem_pop (mem_pop h1))
    · subst h1; exact hv

theorem exec_not (s : VM) (o h pc' : Nat) (inv : Inv bc c s o h)
    (hr : checkInstr c (fnTable bc.consts) bc.consts.length pc' .not o h = true) :
    Good bc c (exec .not pc' s) := by
  simp only [checkInstr, Bool.and_eq_true, decide_eq_true_eq] at hr
  obtain ⟨hh, hs⟩ := hr
  obtain ⟨h', hg, hle⟩ := succOK_spec hs
  have hsz := inv.height
  obtain ⟨v, hp, hvm⟩ := pop1_some s.stack (by omega)
  simp only [exec, hp]
  cases v with
  | bool b =>
    refine ⟨o, h', mkInv s o h inv _ pc' h' s.globals s.mem s.last s.out hg (by simp; omega) ?_ inv.globalsOK inv.heapOK inv.lastOK⟩
    intro w hw
    rcases mem_push hw with h1 | h1
    · exact inv.stackOK w (mem_pop h1)
    · subst h1; trivial
  | null | int _ | fn _ _ | float _ | str _ | arr _ => trivial

theorem exec_negate (s : VM) (o h pc' : Nat) (inv : Inv bc c s o h)
    (hr : checkInstr c (fnTable bc.consts) bc.consts.length pc' .negate o h = true) :
    Good bc c (exec .negate pc' s) := by
  simp only [checkInstr, Bool.and_eq_true, decide_eq_true_eq] at hr
  obtain ⟨hh, hs⟩ := hr
  obtain ⟨h', hg, hle⟩ := succOK_spec hs
  have hsz := inv.height
  obtain ⟨v, hp, hvm⟩ := pop1_some s.stack (by omega)
  simp only [exec, hp]
  cases v with
  | int i =>
    simp only
    split
    · refine ⟨o, h', mkInv s o h inv _ pc' h' s.globals s.mem s.last s.out hg (by simp; omega) ?_ inv.globalsOK inv.heapOK inv.lastOK⟩
      intro w hw
      rcases mem_push hw with h1 | h1
      · exact inv.stackOK w (mem_pop h1)
      · subst h1; trivial
    · trivial
  | float a =>
    refine ⟨o, h', mkInv s o h inv _ pc' h' s.globals _ s.last s.out hg (by simp; omega) ?_ inv.globalsOK
      (heapOK_alloc c _ _ _ inv.heapOK (by intro v hv; cases hv)) inv.lastOK⟩
    intro w hw
    rcases mem_push hw with h1 | h1
    · exact inv.stackOK w (mem_pop h1)
    · subst h1; trivial
  | null | bool _ | fn _ _ | str _ | arr _ => trivial


theorem local_in_stack (s : VM) (o h k : Nat) (inv : Inv bc c s o h) (hk : k < nlocals (fnTable bc.consts) o) :
    s.bp + k < s.stack.size := by have := inv.height; omega

theorem exec_getLocal (s : VM) (o h k pc' : Nat) (inv : Inv bc c s o h)
    (hr : checkInstr c (fnTable bc.consts) bc.consts.length pc' (.getLocal k) o h = true) :
    Good bc c (exec (.getLocal k) pc' s) := by
  simp only [checkInstr, Bool.and_eq_true, decide_eq_true_eq] at hr
  obtain ⟨hk, hs⟩ := hr
  have hin := local_in_stack s o h k inv hk
  simp only [exec, Array.getElem?_eq_getElem hin]
  exact exec_push1 s o h pc' inv _ (inv.stackOK _ (Array.getElem_mem hin)) hs

theorem mem_setIfInBounds {st : Array Value} {i : Nat} {x v : Value} (h : v ∈ st.setIfInBounds i x) : v ∈ st ∨ v = x := by
  have : v ∈ (st.setIfInBounds i x).toList := Array.mem_toList_iff.mpr h
  rw [Array.toList_setIfInBounds] at this
  rcases List.mem_or_eq_of_mem_set this with h1 | h1
  · exact Or.inl (Array.mem_toList_iff.mp h1)
  · exact Or.inr h1

theorem exec_setLocal (s : VM) (o h k pc' : Nat) (inv : Inv bc c s o h)
    (hr : checkInstr c (fnTable bc.consts) bc.consts.length pc' (.setLocal k) o h = true) :
    Good bc c (exec (.setLocal k) pc' s) := by
  simp only [checkInstr, Bool.and_eq_true, decide_eq_true_eq] at hr
  obtain ⟨⟨hh, hk⟩, hs⟩ := hr
  obtain ⟨h', hg, hle⟩ := succOK_spec hs
  have hsz := inv.height
  obtain ⟨v, hp, hvm⟩ := pop1_some s.stack (by omega)
  have hin : s.bp + k < s.stack.pop.size := by simp; omega
  simp only [exec, hp, hin, ↓reduceIte]
  refine ⟨o, h', mkInv s o h inv _ pc' h' s.globals s.mem s.last s.out hg (by simp; omega) ?_ inv.globalsOK inv.heapOK inv.lastOK⟩
  intro w hw
  rcases mem_setIfInBounds hw with h1 | h1
  · exact inv.stackOK w (mem_pop h1)
  · subst h1; exact inv.stackOK _ hvm

theorem exec_setGlobal (s : VM) (o h k pc' : Nat) (inv : Inv bc c s o h)
    (hr : checkInstr c (fnTable bc.consts) bc.consts.length pc' (.setGlobal k) o h = true) :
    Good bc c (exec (.setGlobal k) pc' s) := by
  simp only [checkInstr, Bool.and_eq_true, decide_eq_true_eq] at hr
  obtain ⟨hh, hs⟩ := hr
  obtain ⟨h', hg, hle⟩ := succOK_spec hs
  have hsz := inv.height
  obtain ⟨v, hp, hvm⟩ := pop1_some s.stack (by omega)
  simp only [exec, hp]
  refine ⟨o, h', mkInv s o h inv _ pc' h' _ s.mem s.last s.out hg (by simp; omega)
    (fun w hw => inv.stackOK w (mem_pop hw)) ?_ inv.heapOK inv.lastOK⟩
  intro w hw
  rcases mem_setIfInBounds hw with h1 | h1
  · split at h1
    · rcases Array.mem_append.mp h1 with h2 | h2
      · exact inv.globalsOK w h2
      · have : w = Value.null := by
          have := Array.mem_replicate.mp h2
          exact this.2
        subst this; trivial
    · exact inv.globalsOK w h1
  · subst h1; exact inv.stackOK _ hvm

theorem exec_fused (s : VM) (o h pc' loc k : Nat) (op : BinOp) (inv : Inv bc c s o h)
    (hr : checkInstr c (fnTable bc.consts) bc.consts.length pc' (.fused op loc k) o h = true) :
    Good bc c (exec (.fused op loc k) pc' s) := by
  simp only [checkInstr, Bool.and_eq_true, decide_eq_true_eq] at hr
  obtain ⟨⟨hl, hk⟩, hs⟩ := hr
  obtain ⟨h', hg, hle⟩ := succOK_spec hs
  have hsz := inv.height
  have hin := local_in_stack s o h loc inv hl
  have hk' : k < s.cvals.size := by rw [inv.cvalsSize]; exact hk
  simp only [exec, Array.getElem?_eq_getElem hin, Array.getElem?_eq_getElem hk']
  cases hb : binop op s.stack[s.bp + loc] s.cvals[k] s.mem with
  | error e => trivial
  | ok p =>
    obtain ⟨v, m⟩ := p
    obtain ⟨hv, hm⟩ := binop_ok c _ op _ _ s.mem m v inv.heapOK (inv.stackOK _ (Array.getElem_mem hin)) hb
    refine ⟨o, h', mkInv s o h inv _ pc' h' s.globals m s.last s.out hg (by simp; omega) ?_ inv.globalsOK hm inv.lastOK⟩
    exact stack_push_ok s o h inv v hv

theorem exec_array (s : VM) (o h pc' n : Nat) (inv : Inv bc c s o h)
    (hr : checkInstr c (fnTable bc.consts) bc.consts.length pc' (.array n) o h = true) :
    Good bc c (exec (.array n) pc' s) := by
  simp only [checkInstr, Bool.and_eq_true, decide_eq_true_eq] at hr
  obtain ⟨hn, hs⟩ := hr
  obtain ⟨h', hg, hle⟩ := succOK_spec hs
  have hsz := inv.height
  obtain ⟨vs, rest, hp, hrs, hvs, hrest⟩ := popN_some s.stack n (by omega)
  simp only [exec, hp]
  refine ⟨o, h', mkInv s o h inv _ pc' h' s.globals _ s.last s.out hg (by simp [hrs]; omega) ?_ inv.globalsOK
    (heapOK_alloc c _ _ _ inv.heapOK (by intro v hv; exact inv.stackOK v (hvs v hv))) inv.lastOK⟩
  intro w hw
  rcases mem_push hw with h1 | h1
  · exact inv.stackOK w (hrest w h1)
  · subst h1; trivial

theorem exec_indexGet (s : VM) (o h pc' : Nat) (inv : Inv bc c s o h)
    (hr : checkInstr c (fnTable bc.consts) bc.consts.length pc' .indexGet o h = true) :
    Good bc c (exec .indexGet pc' s) := by
  simp only [checkInstr, Bool.and_eq_true, decide_eq_true_eq] at hr
  obtain ⟨hh, hs⟩ := hr
  obtain ⟨h', hg, hle⟩ := succOK_spec hs
  have hsz := inv.height
  obtain ⟨i, hp1, him⟩ := pop1_some s.stack (by omega)
  obtain ⟨l, hp2, hlm⟩ := pop1_some s.stack.pop (by simp; omega)
  simp only [exec, hp1, hp2]
  cases hb : indexGet l i s.mem with
  | error e => trivial
  | ok p =>
    obtain ⟨v, m⟩ := p
    obtain ⟨hv, hm⟩ := indexGet_ok c _ l i s.mem m v inv.heapOK hb
    refine ⟨o, h', mkInv s o h inv _ pc' h' s.globals m s.last s.out hg (by simp; omega) ?_ inv.globalsOK hm inv.lastOK⟩
    intro w hw
    rcases mem_push hw with h1 | h1
    · exact inv.stackOK w (mem_pop (mem_pop h1))
    · subst h1; exact hv

theorem exec_indexSet (s : VM) (o h pc' : Nat) (inv : Inv bc c s o h)
    (hr : checkInstr c (fnTable bc.consts) bc.consts.length pc' .indexSet o h = true) :
    Good bc c (exec .indexSet pc' s) := by
  simp only [checkInstr, Bool.and_eq_true, decide_eq_true_eq] at hr
  obtain ⟨hh, hs⟩ := hr
  obtain ⟨h', hg, hle⟩ := succOK_spec hs
  have hsz := inv.height
  obtain ⟨x, hp1, hxm⟩ := pop1_some s.stack (by omega)
  obtain ⟨i, hp2, him⟩ := pop1_some s.stack.pop (by simp; omega)
  obtain ⟨l, hp3, hlm⟩ := pop1_some s.stack.pop.pop (by simp; omega)
  simp only [exec, hp1, hp2, hp3]
  cases hb : indexSet l i x s.mem with
  | error e => trivial
  | ok p =>
    obtain ⟨v, m⟩ := p
    obtain ⟨hv, hm⟩ := indexSet_ok c _ l i x s.mem m v inv.heapOK (inv.stackOK x hxm) hb
    refine ⟨o, h', mkInv s o h inv _ pc' h' s.globals m s.last s.out hg (by simp; omega) ?_ inv.globalsOK hm inv.lastOK⟩
    intro w hw
    rcases mem_push hw with h1 | h1
    · exact inv.stackOK w (mem_pop (mem_pop (mem_pop h1)))
    · subst h1; exact hv

theorem exec_callBuiltin (s : VM) (o h pc' b n : Nat) (inv : Inv bc c s o h)
    (hr : checkInstr c (fnTable bc.consts) bc.consts.length pc' (.callBuiltin b n) o h = true) :
    Good bc c (exec (.callBuiltin b n) pc' s) := by
  simp only [checkInstr, Bool.and_eq_true, decide_eq_true_eq] at hr
  obtain ⟨⟨hb, hn⟩, hs⟩ := hr
  obtain ⟨h', hg, hle⟩ := succOK_spec hs
  have hsz := inv.height
  obtain ⟨vs, rest, hp, hrs, hvs, hrest⟩ := popN_some s.stack n (by omega)
  simp only [exec, hp]
  have : ∃ bi, Builtin.ofId b = some bi := by
    have : b = 0 ∨ b = 1 ∨ b = 2 ∨ b = 3 ∨ b = 4 ∨ b = 5 ∨ b = 6 := by omega
    rcases this with rfl | rfl | rfl | rfl | rfl | rfl | rfl <;> exact ⟨_, rfl⟩
  obtain ⟨bi, hbi⟩ := this
  simp only [hbi]
  cases hc : callBuiltin bi vs s.mem s.out with
  | error e => trivial
  | ok p =>
    obtain ⟨v, m, out⟩ := p
    obtain ⟨hv, hm⟩ := callBuiltin_ok c _ bi vs s.mem m s.out out v inv.heapOK (fun x hx => inv.stackOK x (hvs x hx)) hc
    refine ⟨o, h', mkInv s o h inv _ pc' h' s.globals m s.last out hg (by simp [hrs]; omega) ?_ inv.globalsOK hm inv.lastOK⟩
    intro w hw
    rcases mem_push hw with h1 | h1
    · exact inv.stackOK w (hrest w h1)
    · subst h1; exact hv


theorem exec_call (s : VM) (o h pc' argc : Nat) (inv : Inv bc c s o h)
    (hr : checkInstr c (fnTable bc.consts) bc.consts.length pc' (.call argc) o h = true) :
    Good bc c (exec (.call argc) pc' s) := by
  simp only [checkInstr, Bool.and_eq_true, decide_eq_true_eq] at hr
  obtain ⟨hh, hs⟩ := hr
  obtain ⟨h', hg, hle⟩ := succOK_spec hs
  have hsz := inv.height
  obtain ⟨v, hp, hvm⟩ := pop1_some s.stack (by omega)
  simp only [exec, hp]
  cases v with
  | fn fip nl =>
    simp only
    have hf : FnOK c (fnTable bc.consts) fip nl := inv.stackOK _ hvm
    obtain ⟨hne, hcert, hnl⟩ := hf
    split
    · trivial
    · split
      · trivial
      · rename_i hargs hlim
        have hps : s.stack.pop.size = s.stack.size - 1 := by simp
        have hnf : ¬ s.stack.pop.size < argc := by omega
        simp only [hnf, ↓reduceIte]
        refine ⟨fip, 0, ⟨hcert, ?_, ?_, ?_, inv.globalsOK, inv.cvalsOK, inv.cvalsSize, inv.heapOK, inv.lastOK⟩⟩
        · simp only [Array.size_append, Array.size_replicate, hnl]; omega
        · exact FramesOK.frame fip _ ⟨pc', s.bp⟩ s.frames o h' hne hg (by simp only; omega) inv.frames
        · intro w hw
          rcases Array.mem_append.mp hw with h1 | h1
          · exact inv.stackOK w (mem_pop h1)
          · have := (Array.mem_replicate.mp h1).2
            subst this; trivial
  | null | bool _ | int _ | float _ | str _ | arr _ => trivial

theorem framesOK_nonmain {fns : List (Nat × Nat)} {o bp : Nat} {frames : List Frame} (hf : FramesOK c fns o bp frames) (ho : o ≠ 0) :
    ∃ fr rest o' h', frames = fr :: rest ∧ c.get fr.ip = some (o', h') ∧ fr.bp + nlocals fns o' + h' ≤ bp + 1
      ∧ FramesOK c fns o' fr.bp rest := by
  cases hf with
  | main _ => exact absurd rfl ho
  | frame _ _ fr rest o' h' _ hg hle hrest => exact ⟨fr, rest, o', h', rfl, hg, hle, hrest⟩

theorem doReturn_good (s : VM) (o : Nat) (v : Value) (extra : List Value) (ho : o ≠ 0)
    (hframes : FramesOK c (fnTable bc.consts) o s.bp s.frames) (hbp : s.bp ≤ s.stack.size)
    (hstack : ∀ w ∈ s.stack, ValOK c (fnTable bc.consts) w) (hv : ValOK c (fnTable bc.consts) v)
    (hglob : ∀ w ∈ s.globals, ValOK c (fnTable bc.consts) w) (hcv : ∀ w ∈ s.cvals, ValOK c (fnTable bc.consts) w)
    (hcs : s.cvals.size = bc.consts.length) (hheap : HeapOK c (fnTable bc.consts) s.mem.heap)
    (hlast : ValOK c (fnTable bc.consts) s.last) :
    Good bc c (doReturn s v extra) := by
  obtain ⟨fr, rest, o', h', hfeq, hg, hle, hrest⟩ := framesOK_nonmain hframes ho
  unfold doReturn
  rw [hfeq]
  have : ¬ s.stack.size < s.bp := by omega
  simp only [this, ↓reduceIte]
  refine ⟨o', h', ⟨hg, ?_, hrest, ?_, hglob, hcv, hcs, ?_, hlast⟩⟩
  · simp only [Array.size_push, Array.size_extract]; omega
  · intro w hw
    rcases mem_push hw with h1 | h1
    · exact hstack w (mem_extract h1)
    · subst h1; exact hv
  · simp only
    split
    · exact hheap
    · exact heapOK_gcrun c _ _ _ hheap

theorem exec_retv (s : VM) (o h pc' : Nat) (inv : Inv bc c s o h)
    (hr : checkInstr c (fnTable bc.consts) bc.consts.length pc' .retv o h = true) :
    Good bc c (exec .retv pc' s) := by
  simp only [checkInstr, Bool.and_eq_true, decide_eq_true_eq] at hr
  obtain ⟨hh, ho⟩ := hr
  have hsz := inv.height
  obtain ⟨v, hp, hvm⟩ := pop1_some s.stack (by omega)
  simp only [exec, hp]
  exact doReturn_good _ o v _ ho inv.frames (by simp; omega) (fun w hw => inv.stackOK w (mem_pop hw))
    (inv.stackOK v hvm) inv.globalsOK inv.cvalsOK inv.cvalsSize inv.heapOK inv.lastOK

theorem exec_ret (s : VM) (o h pc' : Nat) (inv : Inv bc c s o h)
    (hr : checkInstr c (fnTable bc.consts) bc.consts.length pc' .ret o h = true) :
    Good bc c (exec .ret pc' s) := by
  simp only [checkInstr, decide_eq_true_eq] at hr
  have hsz := inv.height
  simp only [exec]
  exact doReturn_good _ o .null _ hr inv.frames (by simp; omega) inv.stackOK trivial
    inv.globalsOK inv.cvalsOK inv.cvalsSize inv.heapOK inv.lastOK

/-- every instruction that satisfies its rule keeps the machine sound -/
theorem exec_good (i : Instr) (s : VM) (o h : Nat) (inv : Inv bc c s o h)
    (hr : checkInstr c (fnTable bc.consts) bc.consts.length (s.ip + i.size) i o h = true) :
    Good bc c (exec i (s.ip + i.size) s) := by
  cases i with
  | const k => exact exec_const s o h k _ inv hr
  | pop => exact exec_pop s o h _ inv hr
  | true_ => exact exec_simple _ s o h _ inv hr (Or.inl rfl)
  | false_ => exact exec_simple _ s o h _ inv hr (Or.inr (Or.inl rfl))
  | null => exact exec_simple _ s o h _ inv hr (Or.inr (Or.inr (Or.inl rfl)))
  | getGlobal k => exact exec_simple _ s o h _ inv hr (Or.inr (Or.inr (Or.inr ⟨k, rfl⟩)))
  | bin op => exact exec_bin s o h _ op inv hr
  | not => exact exec_not s o h _ inv hr
  | negate => exact exec_negate s o h _ inv hr
  | jump t => exact exec_jump s o h t _ inv hr
  | jumpIfFalse t => exact exec_jif s o h t _ inv hr
  | ret => exact exec_ret s o h _ inv hr
  | retv => exact exec_retv s o h _ inv hr
  | call argc => exact exec_call s o h _ argc inv hr
  | callBuiltin b n => exact exec_callBuiltin s o h _ b n inv hr
  | getLocal k => exact exec_getLocal s o h k _ inv hr
  | setLocal k => exact exec_setLocal s o h k _ inv hr
  | setGlobal k => exact exec_setGlobal s o h k _ inv hr
  | fused op loc k => exact exec_fused s o h _ loc k op inv hr
  | array n => exact exec_array s o h _ n inv hr
  | indexGet => exact exec_indexGet s o h _ inv hr
  | indexSet => exact exec_indexSet s o h _ inv hr
  | halt => simp only [exec]; trivial


end Verifier
end Nl
