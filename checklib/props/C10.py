"""C10 — how the compiler chooses to implement an expression is unobservable."""
import re

from .. import core, diff, gen
from ..core import hx
from .common_diff import run_cases, generic_replay

PROOF_MODULE = "Nlmodel.Proofs.C10"
MORE_PROOF_MODULES = ["Nlmodel.Proofs.C10Transfer"]
PROOF_FILES = ["Nlmodel/Proofs/C10.lean", "Nlmodel/Model/Compiler.lean", "Nlmodel/Model/VM.lean", "Nlmodel/Model/Value.lean"]
THEOREM_FILE = PROOF_FILES[0]
LEVEL_TEXT = ("Lean theorems: each fused <Op>LocalConst instruction has exactly the effect of GetLocal; Const; <Op> with the operands in the same order; the compiler model fuses only `local op literal` or `literal op local` with a mirrored operator; mirroring is sound for an integer literal and ANY other operand (c op x = x op' c on all value types, including the error cases); adding a constant never disturbs existing constant-pool entries and returns the index of an equal constant. Tied to compiler.rs/vm.rs by (a) comparing the real eval with the definitional semantics on every program and each of its four variants (top-level code moved into a function, a literal replaced by a variable, mirrored comparisons, prepended literal statements), (b) metamorphic comparison of the variants on the implementation alone, and (c) byte-for-byte comparison of the real bytecode and constant pool with the compiler model as a diagnostic tier. Transfer to the machine: C01_same_meaning_same_behaviour (Proofs/C01): two texts that pass the stage-5 validation and have the same definitional answer get the same answer from eval for every large enough budget, however differently they were compiled.")
LEVEL_NOTE = ("Trusted: Lean kernel; the compiler model is tied to compiler.rs by correspondence (bytecode equality is a diagnostic: a harmless code-generation change shows up there only, recorded as model-drift in evidence). The transfer of spec-level equalities to the machine is a theorem wherever C01 is: C01_same_meaning_same_behaviour (validated stage-5 programs) and C01_same_meaning_same_behaviour_with_functions (every pair of texts in the syntactic stage-6 fragment - functions, calls, heap values: whatever differs in how the compiler implemented them - global or local variable, literal or variable operand, mirrored operand order, constant pools - eval gives both the same answer if the definitional semantics does, or one of them stops at the machine's stack limit).")
TECHNIQUE = "Lean 4 proof (fused-opcode equivalence, mirroring, constant pool) + metamorphic variants on the real interpreter"
RULE = ("generated closed programs x 4 variants (wrap top-level code in a function; replace an integer literal by a fresh variable; "
        "mirror `c op x` to `x op' c`; prepend statements mentioning the same and other literals), directed operator/operand-order "
        "matrix inside and outside functions; non-trivial = distinct (program, variant) pair compared")


def in_string(src, pos):
    """is position `pos` of the program text inside a string literal (escapes `\\"` and `\\\\` respected) or a comment?"""
    i, n = 0, len(src)
    while i < n and i <= pos:
        c = src[i]
        if c == '"':
            j = i + 1
            while j < n and src[j] != '"':
                j += 2 if src[j] == "\\" else 1
            if i < pos <= j:
                return True
            i = j + 1
        elif c == "/" and i + 1 < n and src[i + 1] == "/":
            j = src.find("\n", i)
            j = n if j < 0 else j
            if i <= pos < j:
                return True
            i = j
        else:
            i += 1
    return False


def closed_program(rng):
    """function-free program over globals; ends with an expression listing every variable"""
    g = gen.Gen(rng, size=rng.range(6, 30))
    g.function_def = lambda indent: indent + "0"
    lines = []
    while g.budget > 0:
        lines.append(g.stmt())
    names = sorted(n for n, t in g.scopes[0].vars.items() if t in (gen.INT, gen.FLOAT, gen.BOOL, gen.STR, gen.ARR, "counter"))
    return "\n".join(lines), names


def run(res, tier, rng, table_diffs=()):
    cases = []
    meta = []   # (label, original, variant)
    n = 400 if tier == "quick" else 8000
    for _ in range(n):
        body, names = closed_program(rng.fork())
        tail = "[" + ", ".join(names) + "]"
        orig = body + "\n" + tail
        cases.append(("closed", orig))
        # (1) move the top-level code into a function body: globals become locals
        wrapped = "functie hoofd() {\n" + body + "\n" + tail + "\n}\nhoofd()"
        cases.append(("wrapped", wrapped))
        meta.append(("wrap", orig, wrapped))
        # (2) replace one integer literal by a fresh variable holding it
        lits = [m for m in re.finditer(r"(?<![\w.\"])(\d+)(?![\w.\"])", orig)]
        lits = [m for m in lits if not in_string(orig, m.start())]
        if lits:
            m = rng.pick(lits)
            var = "lit_%s" % m.group(1)
            v2 = "stel %s = %s;\n" % (var, m.group(1)) + orig[:m.start()] + var + orig[m.end():]
            cases.append(("literal-as-variable", v2))
            meta.append(("litvar", orig, v2))
            w2 = "functie hoofd() {\n" + v2.rsplit("\n", 1)[0] + "\n" + tail + "\n}\nhoofd()"
            meta.append(("litvar-wrapped", orig, w2))
        # (4) prepend statements that mention the same and other literals (shifts/merges constant-pool entries)
        pre = "".join("%s;\n" % rng.pick(["0", "1", "7", "1.5", '"a"', '"hallo"', "42", "1000", "0.0", '""']) for _ in range(rng.range(1, 6)))
        v4 = pre + orig
        cases.append(("prepended", v4))
        meta.append(("prepend", orig, v4))
    # (3) mirrored operators, in and outside functions, for every operator and a value matrix
    vals = ["0", "1", "7", "(0 - 3)", "1152921504606846975", "1.5", '"a"', "ja", "[1]", "als nee { 1 }"]
    consts = ["0", "1", "7", "1152921504606846975"]
    mirror = {"<": ">", "<=": ">=", ">": "<", ">=": "<=", "==": "==", "!=": "!=", "+": "+", "*": "*"}
    for op, op2 in mirror.items():
        for c in consts:
            for v in vals:
                a = "functie f(n) { %s %s n } f(%s)" % (c, op, v)
                b = "functie f(n) { n %s %s } f(%s)" % (op2, c, v)
                cases.append(("mirror", a))
                cases.append(("mirror", b))
                meta.append(("mirror", a, b))
                a2 = "stel n = %s; %s %s n" % (v, c, op)
                b2 = "stel n = %s; n %s %s" % (v, op2, c)
                meta.append(("mirror-global", a2, b2))
                meta.append(("local-vs-global", a, a2))
    for op in ["-", "/", "%"]:
        for c in consts:
            for v in vals[:5]:
                a = "functie f(n) { %s %s n } f(%s)" % (c, op, v)
                b = "stel n = %s; %s %s n" % (v, c, op)
                k = "functie f(n) { stel k = %s; k %s n } f(%s)" % (c, op, v)
                cases.append(("order", a))
                meta.append(("local-vs-global", a, b))
                meta.append(("literal-vs-variable", a, k))
    # every operator, local on the LEFT of the literal (the directly fused shape), over SIGNED values incl. powers of two and
    # the range ends: in a function (fused instruction) vs at top level (generic instructions) vs the literal held in a variable
    big = 2 ** 59
    sargs = ["(0 - 1152921504606846975 - 1)", "(0 - %d)" % (big + 1), "(0 - 17)", "(0 - 9)", "(0 - 8)", "(0 - 3)", "(0 - 1)", "0", "3", "8", "1152921504606846975"]
    sconsts = ["1", "2", "3", "8", "16", str(big)]
    if tier == "quick":
        sargs = sargs[rng.below(2)::2] + ["(0 - 3)", "(0 - 8)"]
    for op in ["<", "<=", ">", ">=", "==", "!=", "+", "-", "*", "/", "%"]:
        for c in sconsts:
            for v in sargs:
                a = "functie f(n) { n %s %s } f(%s)" % (op, c, v)
                b = "stel n = %s; n %s %s" % (v, op, c)
                k = "functie f(n) { stel k = %s; n %s k } f(%s)" % (c, op, v)
                cases.append(("signed-fused", a))
                meta.append(("local-vs-global", a, b))
                meta.append(("literal-vs-variable", a, k))
    # equal literals elsewhere in the program
    for s in ['"abc"', "1.5", "7"]:
        a = 'stel a = %s; stel b = %s; a == b' % (s, s)
        cases.append(("equal-literals", a))
    cases.append(("equal-literals", 'stel a = "abc"; stel b = "abc"; a[0] = "x"; b'))
    cases.append(("equal-literals", 'stel i = 0; stel r = []; zolang i < 3 { i += 1; stel s = "ab"; s[0] = "x"; r = [r, s]; }; r'))
    cases.append(("equal-literals", 'functie f() { "lit" }; stel a = f(); a[0] = "X"; [a, f()]'))
    # a constant shared in the pool is found by VALUE AND TYPE: an integer literal whose payload bits equal a function
    # descriptor (entry << 16 | slots) of the same program, placed before/after/inside
    from . import C15
    for p in C15.collision_programs():
        cases.append(("pool-collision", p))
    run_cases(res, "C10", cases)
    reqs = []
    for _, a, b in meta:
        reqs.append("eval 300000 " + hx(a))
        reqs.append("eval 300000 " + hx(b))
    ans = core.impl(reqs)
    bad = 0
    for k, (label, a, b) in enumerate(meta):
        ra, rb = ans[2 * k], ans[2 * k + 1]
        res.seen("M" + label + b)
        res.count("meta-" + label)
        if ra == "BUDGET" or rb == "BUDGET":
            continue
        if ra != rb and bad < 4:
            bad += 1
            res.violation("two programs that differ only in how an expression is implemented (%s) give different outcomes" % label,
                          dict(kind="metamorphic-" + label, input=[a, b], impl=[ra, rb]))
    # diagnostic tier: real bytecode vs compiler model, byte for byte
    progs = [c[1] for c in cases[:: 3 if tier == "quick" else 1]]
    ib = core.impl(["compile " + hx(p) for p in progs])
    mb = core.model(["compile " + hx(p) for p in progs])
    drift = sum(1 for x, y in zip(ib, mb) if x != y)
    res.coverage["bytecode_compared"] = len(progs)
    res.coverage["bytecode_model_drift"] = drift
    if drift:
        ex = next((p, x, y) for p, x, y in zip(progs, ib, mb) if x != y)
        res.coverage["bytecode_drift_example"] = dict(input=ex[0][:500], impl=ex[1][:300], model=ex[2][:300])


replay = generic_replay("C10")
