/- C07 extras, X3 continued: redundant parentheses around operands and whole expression statements. -/
import Nlmodel.Proofs.Lemmas.C07ExtraAssign
namespace Nl
namespace C07X
open RT RTF

theorem parens_succ_append (n : Nat) (ts rest : List Token) :
    parens (n + 1) ts ++ rest = .lparen :: (parens n ts ++ .rparen :: rest) := by
  rw [parens, paren_append]

/-- what `printE` writes for a binary operator, in terms of `parens`: one pair where the DOCUMENTED table needs it -/
theorem printE_infix_parens (l : Expr) (op : Op) (r : Expr) :
    printE (.infix l op r) =
      parens (if level l < docLevel op then 1 else 0) (printE l) ++
        opToken op :: parens (if level r ≤ docLevel op then 1 else 0) (printE r) := by
  by_cases h1 : level l < docLevel op <;> by_cases h2 : level r ≤ docLevel op <;> simp [printE, h1, h2, parens]

/-- (X3, operand positions of binary operators) ANY number of additional pairs of parentheses around the left
    and/or the right operand (`nl`, `nr`: total number of pairs; 0 only where `printE` writes none) parses, in
    the context of the printed form, to the same result as the printed form -/
theorem X3_infix_operands (l : Expr) (op : Op) (r : Expr) (hop : isBin op) (hfl : isFunc l = false) (hl : WE l) (hr : WE r)
    (nl nr : Nat) (hnl : nl = 0 → ¬ level l < docLevel op) (hnr : nr = 0 → ¬ level r ≤ docLevel op)
    (p : Nat) (rest : List Token) (R : Expr × List Token) (hctx : RTF.Ctx (.infix l op r) p rest)
    (hR : ∃ f, parseLoop f p (.infix l op r) rest = .ok R) :
    ∃ f, parseExpr f p (parens nl (printE l) ++ opToken op :: (parens nr (printE r) ++ rest)) = .ok R := by
  obtain ⟨f1, h1⟩ := hR
  obtain ⟨hne, hp, hstop⟩ := hctx
  obtain ⟨o1, o2, o3, o4, o5, o6⟩ := op_facts op hop
  have hright : ∃ f, parseExpr f (docLevel op) (parens nr (printE r) ++ rest) = .ok (r, rest) := by
    cases nr with
    | zero =>
      have hb := hnr rfl
      exact gE r hr _ rest (r, rest) (ctx_bare r hr _ rest hne (by omega) o4 (stops_mono hstop (by omega))) ⟨1, loop_stop hstop⟩
    | succ n => exact (X3_parens_iff r hr n _ rest _).2 ⟨1, loop_stop hstop⟩
  obtain ⟨f2, h2⟩ := hright
  have hra : cur (parens nr (printE r) ++ rest) ≠ .assign := by
    cases nr with
    | zero => exact RTF.head_ne_assign r hr rest
    | succ n => rw [parens_succ_append]; simp [cur]
  have hloop : parseLoop (max f1 f2 + 1) p l (opToken op :: (parens nr (printE r) ++ rest)) = .ok R := by
    rw [loop_step _ p l op hop _ hp (by simp [hfl]) hra, expr_le (Nat.le_max_right f1 f2) h2]
    exact loop_le (Nat.le_max_left f1 f2) h1
  cases nl with
  | zero =>
    have hb := hnl rfl
    refine gE l hl p _ R (ctx_bare l hl p _ (by simp only [NoElse, cur]; intro h; have := o2; rw [h] at this; cases this)
      (by omega) (by omega) ?_) ⟨_, hloop⟩
    exact .inr (by simp only [cur, o1]; omega)
  | succ n => exact (X3_parens_iff l hl n p _ R).2 ⟨_, hloop⟩

/-- ... so: extra parentheses around operands give the SAME parse as the printed form (any context in which the
    printed form stands) -/
theorem X3_infix_operands_same (l : Expr) (op : Op) (r : Expr) (hop : isBin op) (hfl : isFunc l = false) (hl : WE l) (hr : WE r)
    (nl nr : Nat) (hnl : nl = 0 → ¬ level l < docLevel op) (hnr : nr = 0 → ¬ level r ≤ docLevel op)
    (p : Nat) (rest : List Token) (R : Expr × List Token) (hctx : RTF.Ctx (.infix l op r) p rest)
    (hR : ∃ f, parseLoop f p (.infix l op r) rest = .ok R) :
    ∃ f, parseExpr f p (parens nl (printE l) ++ opToken op :: (parens nr (printE r) ++ rest)) = .ok R ∧
         parseExpr f p (printE (.infix l op r) ++ rest) = .ok R := by
  obtain ⟨f1, h1⟩ := X3_infix_operands l op r hop hfl hl hr nl nr hnl hnr p rest R hctx hR
  obtain ⟨f2, h2⟩ := gE _ (.bin l op r hop hfl hl hr) p rest R hctx hR
  exact ⟨max f1 f2, expr_le (Nat.le_max_left _ _) h1, expr_le (Nat.le_max_right _ _) h2⟩

/-- operand of a prefix operator `!` / `-` -/
theorem X3_pre_operand (op : Op) (r : Expr) (hop : op = .not ∨ op = .sub) (hr : WE r) (n : Nat) (hn : n = 0 → isAtomic r = true)
    (p : Nat) (rest : List Token) (R : Expr × List Token) (hctx : RTF.Ctx (.pre op r) p rest)
    (hR : ∃ f, parseLoop f p (.pre op r) rest = .ok R) :
    ∃ f, parseExpr f p (opToken op :: (parens n (printE r) ++ rest)) = .ok R := by
  obtain ⟨f1, h1⟩ := hR
  have hs0 : Stops 0 rest := hctx.2
  have hopnd : ∀ q, q ≤ 6 → ∃ f, parseExpr f q (parens n (printE r) ++ rest) = .ok (r, rest) := by
    intro q hq
    have hsq : Stops q rest := stops_mono hs0 (Nat.zero_le _)
    cases n with
    | zero => exact gE r hr q rest (r, rest) (atomic_ctx r hr (hn rfl) q hq rest hctx.1) ⟨1, loop_stop hsq⟩
    | succ n => exact (X3_parens_iff r hr n q rest _).2 ⟨1, loop_stop hsq⟩
  rcases hop with rfl | rfl
  · obtain ⟨f2, h2⟩ := hopnd 0 (by omega)
    refine ⟨max f1 f2 + 2, expr_of_prefix (l := .pre .not r) (ts' := rest) ?_ (loop_le (by omega) h1)⟩
    simp only [opToken]
    rw [parsePrefix]
    simp only [cur, adv, Token.prec]
    rw [expr_le (Nat.le_max_right f1 f2) h2]
  · obtain ⟨f2, h2⟩ := hopnd 5 (by omega)
    refine ⟨max f1 f2 + 2, expr_of_prefix (l := .pre .sub r) (ts' := rest) ?_ (loop_le (by omega) h1)⟩
    simp only [opToken]
    rw [parsePrefix]
    simp only [cur, adv, Token.prec]
    rw [expr_le (Nat.le_max_right f1 f2) h2]

/-! ### whole expression statements -/

theorem cur_parens (e : Expr) (he : WE e) (n : Nat) (rest : List Token) : exprStart (cur (parens n (printE e) ++ rest)) = true := by
  cases n with
  | zero => exact cur_expr e he rest
  | succ n => rw [parens_succ_append]; rfl

/-- (X3, statements) `e;`, `(e);`, `((e));` ... are the same expression statement -/
theorem X3_stmt (e : Expr) (he : WE e) (n : Nat) (rest : List Token) :
    ∃ f, parseStatement f ((parens n (printE e) ++ [.semi]) ++ rest) = .ok (.expr e, rest) := by
  obtain ⟨f, h⟩ := X3_parens_top e he n (.semi :: rest) (.inl rfl) (fun _ => by simp [NoElse, cur])
  refine ⟨f + 1, ?_⟩
  have hts : (parens n (printE e) ++ [.semi]) ++ rest = parens n (printE e) ++ .semi :: rest := by simp
  rw [hts, stmt_of_expr (cur_parens e he n _) h]
  simp [skipOpt, cur, adv]

/-- the value of `stel` and `antwoord` -/
theorem X3_stmt_let (x : Text) (e : Expr) (he : WE e) (n : Nat) (rest : List Token) :
    ∃ f, parseStatement f (.kwDeclare :: .ident x :: .assign :: (parens n (printE e) ++ .semi :: rest)) = .ok (.letS x e, rest) := by
  obtain ⟨f, h⟩ := X3_parens_top e he n (.semi :: rest) (.inl rfl) (fun _ => by simp [NoElse, cur])
  refine ⟨f + 1, ?_⟩
  rw [parseStatement]
  simp only [cur, adv, skipTok, ↓reduceIte]
  rw [h]
  simp [skipOpt, cur, adv]

theorem X3_stmt_ret (e : Expr) (he : WE e) (n : Nat) (rest : List Token) :
    ∃ f, parseStatement f (.kwReturn :: (parens n (printE e) ++ .semi :: rest)) = .ok (.ret e, rest) := by
  obtain ⟨f, h⟩ := X3_parens_top e he n (.semi :: rest) (.inl rfl) (fun _ => by simp [NoElse, cur])
  refine ⟨f + 1, ?_⟩
  rw [parseStatement]
  simp only [cur, adv]
  rw [h]
  simp [skipOpt, cur, adv]

/-- (X3, program level, with the fuel `parse` supplies) an expression statement anywhere in a printed program may be
    wrapped in any number of pairs of parentheses: the same program tree -/
theorem X3_program (b1 b2 : Block) (h1 : WB b1) (h2 : WB b2) (e : Expr) (he : WE e) (n : Nat) :
    parseTokens (printStmts b1 ++ ((parens n (printE e) ++ [.semi]) ++ printStmts b2))
      = .ok (b1.append (.cons (.expr e) b2)) :=
  program_with_stmt b1 b2 h1 h2 _ _ (fun rest => by
    have hc := cur_parens e he n ([.semi] ++ rest)
    have hts : (parens n (printE e) ++ [.semi]) ++ rest = parens n (printE e) ++ ([.semi] ++ rest) := by simp
    refine ⟨?_, ?_, X3_stmt e he n rest⟩
    · rw [hts]; intro hx; rw [hx] at hc; simp [exprStart] at hc
    · rw [hts]; intro hx; rw [hx] at hc; simp [exprStart] at hc)

/-- non-vacuity: `((a + b)) * (c);` is `(a + b) * c;` -/
example : parseTokens [.lparen, .lparen, .ident ['a'], .plus, .ident ['b'], .rparen, .rparen, .star, .lparen, .ident ['c'], .rparen, .semi]
    = parseTokens (printProgram (.cons (.expr (.infix (.infix (.ident ['a']) .add (.ident ['b'])) .mul (.ident ['c']))) .nil)) := by rfl

end C07X
end Nl
