/- The resolver leaves the loop and function nesting counters as it found them (whole language). -/
import Nlmodel.Model.Resolve
namespace Nl
namespace RD

def Same (a b : RState) : Prop := b.loopDepth = a.loopDepth ∧ b.funcDepth = a.funcDepth

theorem Same.refl (a : RState) : Same a a := ⟨rfl, rfl⟩
theorem Same.trans {a b c : RState} (h1 : Same a b) (h2 : Same b c) : Same a c := ⟨h2.1.trans h1.1, h2.2.trans h1.2⟩

theorem define_same (st : RState) (n : Text) : Same st (st.define n).1 := by
  unfold RState.define
  split <;> exact ⟨rfl, rfl⟩

theorem enter_same (st : RState) : Same st st.enterScope := by
  unfold RState.enterScope; split <;> exact ⟨rfl, rfl⟩

theorem leave_same (st : RState) : Same st st.leaveScope := by
  unfold RState.leaveScope; split <;> exact ⟨rfl, rfl⟩

mutual
theorem dE : (x : Expr) → (st : RState) → (r : RExpr) → (st' : RState) → resolveE x st = .ok (r, st') → Same st st'
  | .bool _, st, r, st', h => by simp only [resolveE] at h; injection h with h; rw [← (Prod.mk.inj h).2]; exact .refl _
  | .float _, st, r, st', h => by simp only [resolveE] at h; injection h with h; rw [← (Prod.mk.inj h).2]; exact .refl _
  | .int _, st, r, st', h => by simp only [resolveE] at h; injection h with h; rw [← (Prod.mk.inj h).2]; exact .refl _
  | .str _, st, r, st', h => by simp only [resolveE] at h; injection h with h; rw [← (Prod.mk.inj h).2]; exact .refl _
  | .ident n, st, r, st', h => by
    simp only [resolveE] at h
    split at h
    · injection h with h; rw [← (Prod.mk.inj h).2]; exact .refl _
    · cases h
  | .pre op x, st, r, st', h => by
    simp only [resolveE] at h
    split at h
    · rename_i x' st1 hx
      have := dE x st x' st1 hx
      split at h
      · injection h with h; rw [← (Prod.mk.inj h).2]; exact this
      · injection h with h; rw [← (Prod.mk.inj h).2]; exact this
      · injection h with h; rw [← (Prod.mk.inj h).2]; exact this
      · cases h
    · cases h
  | .assign (.ident n) x, st, r, st', h => by
    simp only [resolveE] at h
    split at h
    · split at h
      · rename_i x' st1 hx
        injection h with h; rw [← (Prod.mk.inj h).2]; exact dE x st x' st1 hx
      · cases h
    · cases h
  | .assign (.index a i) x, st, r, st', h => by
    simp only [resolveE] at h
    split at h
    · rename_i a' st1 ha
      split at h
      · rename_i i' st2 hi
        split at h
        · rename_i x' st3 hx
          injection h with h; rw [← (Prod.mk.inj h).2]
          exact ((dE a st a' st1 ha).trans (dE i st1 i' st2 hi)).trans (dE x st2 x' st3 hx)
        · cases h
      · cases h
    · cases h
  | .assign (.bool _) x, st, r, st', h | .assign (.float _) x, st, r, st', h | .assign (.int _) x, st, r, st', h | .assign (.str _) x, st, r, st', h
  | .assign (.pre _ _) x, st, r, st', h | .assign (.assign _ _) x, st, r, st', h | .assign (.infix _ _ _) x, st, r, st', h
  | .assign (.ifE _ _ _) x, st, r, st', h | .assign (.whileE _ _) x, st, r, st', h | .assign (.func _ _ _) x, st, r, st', h
  | .assign (.call _ _) x, st, r, st', h | .assign (.arr _) x, st, r, st', h => by
    simp only [resolveE] at h; cases h
  | .infix l op x, st, r, st', h => by
    simp only [resolveE] at h
    split at h
    · rename_i l' st1 hl
      split at h
      · rename_i x' st2 hx
        split at h
        · injection h with h; rw [← (Prod.mk.inj h).2]; exact (dE l st l' st1 hl).trans (dE x st1 x' st2 hx)
        · cases h
      · cases h
    · cases h
  | .ifE c t e, st, r, st', h => by
    simp only [resolveE] at h
    split at h
    · rename_i c' st1 hc
      split at h
      · rename_i t' st2 ht
        split at h
        · rename_i e' st3 he
          injection h with h; rw [← (Prod.mk.inj h).2]
          exact ((dE c st c' st1 hc).trans (dB t st1 t' st2 ht)).trans (dO e st2 e' st3 he)
        · cases h
      · cases h
    · cases h
  | .whileE c b, st, r, st', h => by
    simp only [resolveE] at h
    split at h
    · rename_i c' st1 hc
      split at h
      · rename_i b' st2 hb
        injection h with h; rw [← (Prod.mk.inj h).2]
        have h1 := dE c _ c' st1 hc
        have h2 := dB b st1 b' st2 hb
        exact ⟨rfl, h2.2.trans h1.2⟩
      · cases h
    · cases h
  | .func name ps body, st, r, st', h => by
    simp only [resolveE] at h
    split at h
    · injection h with h; rw [← (Prod.mk.inj h).2]
      by_cases hn : name.isEmpty = true
      · simp only [hn, ↓reduceIte]; exact ⟨rfl, rfl⟩
      · simp only [hn, Bool.false_eq_true, ↓reduceIte]
        exact define_same st name
    · cases h
  | .call f as, st, r, st', h => by
    simp only [resolveE] at h
    split at h
    · rename_i as' st1 has
      have h1 := dEs as st as' st1 has
      split at h
      · injection h with h; rw [← (Prod.mk.inj h).2]; exact h1
      · split at h
        · rename_i f' st2 hf
          injection h with h; rw [← (Prod.mk.inj h).2]; exact h1.trans (dE f st1 f' st2 hf)
        · cases h
    · cases h
  | .arr vs, st, r, st', h => by
    simp only [resolveE] at h
    split at h
    · rename_i vs' st1 hvs
      injection h with h; rw [← (Prod.mk.inj h).2]; exact dEs vs st vs' st1 hvs
    · cases h
  | .index l i, st, r, st', h => by
    simp only [resolveE] at h
    split at h
    · rename_i l' st1 hl
      split at h
      · rename_i i' st2 hi
        injection h with h; rw [← (Prod.mk.inj h).2]; exact (dE l st l' st1 hl).trans (dE i st1 i' st2 hi)
      · cases h
    · cases h

theorem dEs : (x : Exprs) → (st : RState) → (r : RExprs) → (st' : RState) → resolveEs x st = .ok (r, st') → Same st st'
  | .nil, st, r, st', h => by simp only [resolveEs] at h; injection h with h; rw [← (Prod.mk.inj h).2]; exact .refl _
  | .cons x xs, st, r, st', h => by
    simp only [resolveEs] at h
    split at h
    · rename_i x' st1 hx
      split at h
      · rename_i xs' st2 hxs
        injection h with h; rw [← (Prod.mk.inj h).2]; exact (dE x st x' st1 hx).trans (dEs xs st1 xs' st2 hxs)
      · cases h
    · cases h

theorem dS : (x : Stmt) → (st : RState) → (r : RStmt) → (st' : RState) → resolveS x st = .ok (r, st') → Same st st'
  | .expr x, st, r, st', h => by
    simp only [resolveS] at h
    split at h
    · rename_i x' st1 hx; injection h with h; rw [← (Prod.mk.inj h).2]; exact dE x st x' st1 hx
    · cases h
  | .block b, st, r, st', h => by
    simp only [resolveS] at h
    split at h
    · rename_i b' st1 hb; injection h with h; rw [← (Prod.mk.inj h).2]; exact dB b st b' st1 hb
    · cases h
  | .letS n x, st, r, st', h => by
    simp only [resolveS] at h
    split at h
    · rename_i x' st2 hx
      injection h with h; rw [← (Prod.mk.inj h).2]
      exact (define_same st n).trans (dE x _ x' st2 hx)
    · cases h
  | .ret x, st, r, st', h => by
    simp only [resolveS] at h
    split at h
    · cases h
    · split at h
      · rename_i x' st1 hx; injection h with h; rw [← (Prod.mk.inj h).2]; exact dE x st x' st1 hx
      · cases h
  | .brk, st, r, st', h => by
    simp only [resolveS] at h
    split at h
    · cases h
    · injection h with h; rw [← (Prod.mk.inj h).2]; exact .refl _
  | .cont, st, r, st', h => by
    simp only [resolveS] at h
    split at h
    · cases h
    · injection h with h; rw [← (Prod.mk.inj h).2]; exact .refl _

theorem dB : (x : Block) → (st : RState) → (r : RBlock) → (st' : RState) → resolveB x st = .ok (r, st') → Same st st'
  | .nil, st, r, st', h => by simp only [resolveB] at h; injection h with h; rw [← (Prod.mk.inj h).2]; exact .refl _
  | .cons s b, st, r, st', h => by
    simp only [resolveB] at h
    split at h
    · rename_i s' st1 hs
      split at h
      · rename_i b' st2 hb
        injection h with h; rw [← (Prod.mk.inj h).2]
        exact (((enter_same st).trans (dS s _ s' st1 hs)).trans (dSs b st1 b' st2 hb)).trans (leave_same st2)
      · cases h
    · cases h

theorem dSs : (x : Block) → (st : RState) → (r : RBlock) → (st' : RState) → resolveSs x st = .ok (r, st') → Same st st'
  | .nil, st, r, st', h => by simp only [resolveSs] at h; injection h with h; rw [← (Prod.mk.inj h).2]; exact .refl _
  | .cons s b, st, r, st', h => by
    simp only [resolveSs] at h
    split at h
    · rename_i s' st1 hs
      split at h
      · rename_i b' st2 hb
        injection h with h; rw [← (Prod.mk.inj h).2]; exact (dS s st s' st1 hs).trans (dSs b st1 b' st2 hb)
      · cases h
    · cases h

theorem dO : (x : OptBlock) → (st : RState) → (r : ROptBlock) → (st' : RState) → resolveO x st = .ok (r, st') → Same st st'
  | .none, st, r, st', h => by simp only [resolveO] at h; injection h with h; rw [← (Prod.mk.inj h).2]; exact .refl _
  | .some b, st, r, st', h => by
    simp only [resolveO] at h
    split at h
    · rename_i b' st1 hb; injection h with h; rw [← (Prod.mk.inj h).2]; exact dB b st b' st1 hb
    · cases h
end

end RD
end Nl
