/- C09 with functions, the correspondence theorem: for every program of the stage-4 source fragment `SimF.SrcTop` that the
   resolver accepts, the name-based evaluator `NameEvalFn` on the SOURCE tree and the definitional evaluator `Spec.eval` on the
   RESOLVED tree give the same outcome, for every fuel.  Assembly of the induction on the fuel, whole programs, and the
   instantiation on the worked example. -/
import Nlmodel.Proofs.Lemmas.NameEvalFnSimE
import Nlmodel.Proofs.Lemmas.NameEvalFnSimS
import Nlmodel.Proofs.Lemmas.NameEvalFnSimB
import Nlmodel.Proofs.Lemmas.NameEvalFnSimCall
import Nlmodel.Proofs.Lemmas.NameEvalFnSimTop
import Nlmodel.Proofs.Lemmas.NameEvalFnStatic
import Nlmodel.Proofs.Lemmas.NameEvalFnTest
import Nlmodel.Proofs.Lemmas.NameEvalFnC09
namespace Nl
namespace NameEvalFn
open Spec SimF Sim
open NameEval (All2 findBid bids postS)

theorem qall : ∀ f, QAll f
  | 0 =>
    ⟨by unfold QE; intros; simp only [NameEvalFn.evalE, Spec.evalE]; exact .fuel,
     by unfold QEs; intros; simp only [NameEvalFn.evalEs, Spec.evalEs]; exact .fuel,
     by unfold QL; intros; simp only [NameEvalFn.evalLoop, Spec.evalLoop]; exact .fuel,
     by unfold QS; intros; simp only [NameEvalFn.evalS, Spec.evalS]; exact .fuel,
     by unfold QSs; intros; simp only [NameEvalFn.evalSs, Spec.evalB]; exact .fuel,
     by unfold QBs; intros; simp only [NameEvalFn.evalBVs, Spec.evalBV]; exact .fuel⟩
  | f + 1 =>
    have ih := qall f
    ⟨qe_succ f ih (qe_call f ih), qes_succ f ih, ql_succ f ih, qs_succ f ih, qss_succ f ih, qbs_succ f ih⟩

/-- (F3b) for every program of the stage-4 source fragment (`SimF.SrcTop`: integers, booleans, operators, globals, blocks,
    `als`, `zolang`, `stop`/`volgende`, named and anonymous function literals as whole top-level statements, calls,
    parameters, locals, `antwoord`, recursion) that the resolver accepts, and every fuel: the name-based evaluator on the
    SOURCE tree and the definitional evaluator on the RESOLVED tree give the same outcome (same value tree - `.fn` for a
    function value -, same output, same error kind; out of fuel iff out of fuel; unspecified iff unspecified) -/
theorem nameEvalFn_eq_spec (ast : Block) (hs : SimF.SrcTop ast) (r : RBlock) (h : resolveProgram ast = .ok r) (F : Nat) :
    NameEvalFn.evalProgram F ast = Spec.evalProgram F r := by
  unfold resolveProgram at h
  cases hr : resolveSs ast {} with
  | error er => simp [hr] at h
  | ok p =>
    obtain ⟨b, st'⟩ := p
    simp only [hr] at h
    injection h with h; subst h
    have hinv : RInv false ({} : RState) [[]] [] 0 :=
      ⟨fun _ => ⟨0, rfl⟩, (fun hc => by cases hc), (by intro p hp; simp at hp), rfl⟩
    have hrel : R false ({} : FState) [[]] [] [] ({} : SState) 0 :=
      ⟨⟨.cons .nil .nil, by simp [TT, bids], by simp [TT], .null, rfl, rfl⟩, ⟨rfl, rfl⟩⟩
    have hq := top_sim qall ast hs F [] {} 0 b st' {} {} hinv hr hrel
    unfold NameEvalFn.evalProgram Spec.evalProgram
    rcases hq.inv with ⟨a, b', ρ1, σ1, hn, hs, hv, hr1⟩ | ⟨ρ1, σ1, hn, hs, hr1⟩ | ⟨ρ1, σ1, hn, hs, hr1⟩ |
      ⟨v, w, ρ1, σ1, hn, hs, hv, hr1⟩ | ⟨er, ρ1, σ1, hn, hs, hr1⟩ | ⟨ρ1, σ1, hn, hs⟩ | ⟨hn, hs⟩
    · cases a; cases b'
      obtain ⟨⟨G, hl⟩, ho⟩ := hr1
      have ht : treeDepth = 99999 + 1 := rfl
      simp only [hn, hs, ht, tree_rel hl σ1 99999 [], ho]
    · simp only [hn, hs]
    · simp only [hn, hs]
    · simp only [hn, hs]
    · simp only [hn, hs, hr1]
    · simp only [hn, hs]
    · simp only [hn, hs]

/-- (F3a)+(F3b) together: a program of the fragment is either rejected with a reference error before it produces any output
    (exactly when the static rule `declaredFn` fails), or the two evaluators agree on it for every fuel -/
theorem c09_functions (ast : Block) (hs : SimF.SrcTop ast) :
    (declaredFn ast = false ∧ resolveProgram ast = .error .reference) ∨
    (declaredFn ast = true ∧ ∃ r, resolveProgram ast = .ok r ∧ ∀ F, NameEvalFn.evalProgram F ast = Spec.evalProgram F r) := by
  cases hd : declaredFn ast with
  | false => exact .inl ⟨rfl, (resolve_error_iff_undeclaredFn ast hs).2 hd⟩
  | true =>
    obtain ⟨r, hr⟩ := (resolve_ok_iff_declaredFn ast hs).2 hd
    exact .inr ⟨rfl, r, hr, fun F => nameEvalFn_eq_spec ast hs r hr F⟩

/-- (F4) the correspondence theorem instantiated on the worked example `demoFn` (recursion with a local that shadows a
    global, a function passed as argument, a missing and an extra argument): for EVERY fuel the two evaluators agree -/
theorem demoFn_agree : ∃ r, resolveProgram demoFn = .ok r ∧ ∀ F, NameEvalFn.evalProgram F demoFn = Spec.evalProgram F r := by
  have hs := SimF.srcTop_sound demoFn demoFn_src
  obtain ⟨r, hr⟩ := (resolve_ok_iff_declaredFn demoFn hs).2 demoFn_declared
  exact ⟨r, hr, fun F => nameEvalFn_eq_spec demoFn hs r hr F⟩

/-- ... and on the lexical-scoping example (later re-declaration and block local at the call site are not seen) -/
theorem lexical_agree : ∃ r, resolveProgram lexical = .ok r ∧ ∀ F, NameEvalFn.evalProgram F lexical = Spec.evalProgram F r := by
  have hs := SimF.srcTop_sound lexical (by decide +kernel)
  obtain ⟨r, hr⟩ := (resolve_ok_iff_declaredFn lexical hs).2 (by decide +kernel)
  exact ⟨r, hr, fun F => nameEvalFn_eq_spec lexical hs r hr F⟩

#print axioms nameEvalFn_eq_spec
#print axioms c09_functions
#print axioms resolve_error_iff_undeclaredFn
#print axioms resolve_ok_iff_declaredFn
#print axioms resolve_error_is_reference
#print axioms demoFn_agree
#print axioms call_keeps_caller_activation
#print axioms body_use_of_foreign_name_undeclared
#print axioms callers_local_undeclared

end NameEvalFn
end Nl
