/- NameEval (names, scope stack) = Spec.eval (binder ids, genv) on the resolver's output, stage-3 fragment (C09):
   result relation, static facts about the resolver, expressions and loops. -/
import Nlmodel.Proofs.Lemmas.NameEvalBase
namespace Nl
namespace NameEval
open Sim Spec

/-- same kind of result, same value / error kind, states related (`P` after normal completion, `Q` after `stop`/`volgende`),
    same output after an error; `.fuel` iff `.fuel`, `.unspec` iff `.unspec` -/
inductive RelG {α : Type} (P Q : NState → SState → Prop) : NRes α → Res α → Prop where
  | val (a : α) (ρ : NState) (σ : SState) : P ρ σ → RelG P Q (.val a ρ) (.val a σ)
  | brk (ρ : NState) (σ : SState) : Q ρ σ → RelG P Q (.brk ρ) (.brk σ)
  | cont (ρ : NState) (σ : SState) : Q ρ σ → RelG P Q (.cont ρ) (.cont σ)
  | err (e : Err) (ρ : NState) (σ : SState) : ρ.out = σ.out → RelG P Q (.err e ρ) (.err e σ)
  | unspec (ρ : NState) (σ : SState) : RelG P Q (.unspec ρ) (.unspec σ)
  | fuel : RelG P Q .fuel .fuel

theorem RelG.inv {α : Type} {P Q : NState → SState → Prop} {r : NRes α} {r' : Res α} (h : RelG P Q r r') :
    (∃ a ρ σ, r = .val a ρ ∧ r' = .val a σ ∧ P ρ σ) ∨ (∃ ρ σ, r = .brk ρ ∧ r' = .brk σ ∧ Q ρ σ) ∨
    (∃ ρ σ, r = .cont ρ ∧ r' = .cont σ ∧ Q ρ σ) ∨ (∃ e ρ σ, r = .err e ρ ∧ r' = .err e σ ∧ ρ.out = σ.out) ∨
    (∃ ρ σ, r = .unspec ρ ∧ r' = .unspec σ) ∨ (r = .fuel ∧ r' = .fuel) := by
  cases h with
  | val a ρ σ h => exact .inl ⟨a, ρ, σ, rfl, rfl, h⟩
  | brk ρ σ h => exact .inr (.inl ⟨ρ, σ, rfl, rfl, h⟩)
  | cont ρ σ h => exact .inr (.inr (.inl ⟨ρ, σ, rfl, rfl, h⟩))
  | err e ρ σ h => exact .inr (.inr (.inr (.inl ⟨e, ρ, σ, rfl, rfl, h⟩)))
  | unspec ρ σ => exact .inr (.inr (.inr (.inr (.inl ⟨ρ, σ, rfl, rfl⟩))))
  | fuel => exact .inr (.inr (.inr (.inr (.inr ⟨rfl, rfl⟩))))

theorem RelG.mono {α : Type} {P Q P' Q' : NState → SState → Prop} {r : NRes α} {r' : Res α}
    (hP : ∀ ρ σ, P ρ σ → P' ρ σ) (hQ : ∀ ρ σ, Q ρ σ → Q' ρ σ) (h : RelG P Q r r') : RelG P' Q' r r' := by
  cases h with
  | val a ρ σ h => exact .val a ρ σ (hP _ _ h)
  | brk ρ σ h => exact .brk ρ σ (hQ _ _ h)
  | cont ρ σ h => exact .cont ρ σ (hQ _ _ h)
  | err e ρ σ h => exact .err e ρ σ h
  | unspec ρ σ => exact .unspec ρ σ
  | fuel => exact .fuel

/-- related, the resolver's scopes being `scs` -/
abbrev At (scs : List (List (Text × Nat))) (ρ : NState) (σ : SState) : Prop := Rel ρ scs σ
/-- related inside a block whose enclosing scopes are `scs` -/
def In (scs : List (List (Text × Nat))) (ρ : NState) (σ : SState) : Prop := ∃ sc, Rel ρ (sc :: scs) σ

theorem RelG.pop {α : Type} {scs} {r : NRes α} {r' : Res α} (h : RelG (In scs) (In scs) r r') :
    RelG (At scs) (At scs) (popRes r) r' := by
  cases h with
  | val a ρ σ h => obtain ⟨sc, h⟩ := h; exact .val a _ σ h.pop
  | brk ρ σ h => obtain ⟨sc, h⟩ := h; exact .brk _ σ h.pop
  | cont ρ σ h => obtain ⟨sc, h⟩ := h; exact .cont _ σ h.pop
  | err e ρ σ h => exact .err e _ σ h
  | unspec ρ σ => exact .unspec _ σ
  | fuel => exact .fuel

theorem RelG.toIn {α : Type} {sc scs} {r : NRes α} {r' : Res α} (h : RelG (At (sc :: scs)) (At (sc :: scs)) r r') :
    RelG (In scs) (In scs) r r' :=
  h.mono (fun _ _ h => ⟨sc, h⟩) (fun _ _ h => ⟨sc, h⟩)

/-! ### static facts about the resolver -/

theorem bids_enter (scs : List (List (Text × Nat))) : bids ([] :: scs) = bids scs := by simp [bids]
theorem bids_define (n : Text) (id : Nat) (sc) (scs : List (List (Text × Nat))) :
    bids (((n, id) :: sc) :: scs) = id :: bids (sc :: scs) := by simp [bids]

theorem fresh_bids (st : RState) (scs) (h : Inv3 st scs) : ∀ b ∈ bids scs, b ≠ st.nextId := by
  intro b hb
  simp only [bids, List.mem_map] at hb
  obtain ⟨p, hp, rfl⟩ := hb
  have := h.fresh p hp
  omega

theorem resolveB_Ss (b : Block) (st : RState) (b' : RBlock) (st' : RState) (h : resolveB b st = .ok (b', st')) :
    ∃ st'', resolveSs b st.enterScope = .ok (b', st'') := by
  cases b with
  | nil =>
    simp only [resolveB] at h; injection h with h; injection h with h1 h2; subst h1
    exact ⟨st.enterScope, by simp only [resolveSs]⟩
  | cons s rest =>
    simp only [resolveB] at h
    simp only [resolveSs]
    cases hr : resolveS s st.enterScope with
    | error er => simp [hr] at h
    | ok p =>
      obtain ⟨s1, st1⟩ := p
      simp only [hr] at h ⊢
      cases hr2 : resolveSs rest st1 with
      | error er => simp [hr2] at h
      | ok q =>
        obtain ⟨b1, st2⟩ := q
        simp only [hr2] at h ⊢
        injection h with h; injection h with h1 h2; subst h1
        exact ⟨_, rfl⟩

/-- the resolver's scope after a statement: only `stel` adds an entry (the fresh binder id) -/
def postS (s : Stmt) (st : RState) (sc : List (Text × Nat)) : List (Text × Nat) :=
  match s with
  | .letS n _ => (n, st.nextId) :: sc
  | _ => sc

theorem nodup_define (st : RState) (sc scs) (h : Inv3 st (sc :: scs)) (hnd : (bids (sc :: scs)).Nodup) (n : Text) :
    (bids (((n, st.nextId) :: sc) :: scs)).Nodup := by
  rw [bids_define]
  exact List.nodup_cons.mpr ⟨fun hm => fresh_bids st _ h _ hm rfl, hnd⟩

theorem postS_inv (s : Stmt) (ab : Bool) (sc scs) (st : RState) (s' : RStmt) (st' : RState) (hs : SS ab s)
    (hinv : Inv3 st (sc :: scs)) (hnd : (bids (sc :: scs)).Nodup) (h : resolveS s st = .ok (s', st')) :
    Inv3 st' (postS s st sc :: scs) ∧ (bids (postS s st sc :: scs)).Nodup := by
  cases hs with
  | expr _ e hse =>
    simp only [resolveS] at h
    cases hr : resolveE e st with
    | error er => simp [hr] at h
    | ok p =>
      obtain ⟨e1, st1⟩ := p
      simp only [hr] at h
      injection h with h; injection h with h1 h2; subst h2
      exact ⟨(rE e ab _ st e1 st1 hse hinv hr).2, hnd⟩
  | letS _ n e hse =>
    simp only [resolveS] at h
    obtain ⟨_, hinv1⟩ := inv3_define st sc scs hinv n
    cases hr : resolveE e (st.define n).1 with
    | error er => simp [hr] at h
    | ok p =>
      obtain ⟨e1, st1⟩ := p
      simp only [hr] at h
      injection h with h; injection h with h1 h2; subst h2
      exact ⟨(rE e ab _ _ e1 st1 hse hinv1 hr).2, nodup_define st sc scs hinv hnd n⟩
  | block _ b hsb =>
    simp only [resolveS] at h
    cases hb : resolveB b st with
    | error er => simp [hb] at h
    | ok q =>
      obtain ⟨b1, st1⟩ := q
      simp only [hb] at h
      injection h with h; injection h with h1 h2; subst h2
      obtain ⟨_, _, hi⟩ := rB b ab _ st b1 st1 hsb hinv hb
      exact ⟨hi, hnd⟩
  | brk =>
    simp only [resolveS] at h
    split at h
    · cases h
    · injection h with h; injection h with h1 h2; subst h2; exact ⟨hinv, hnd⟩
  | cont =>
    simp only [resolveS] at h
    split at h
    · cases h
    · injection h with h; injection h with h1 h2; subst h2; exact ⟨hinv, hnd⟩

/-! ### the statements proved by induction on the fuel -/

def QE (f : Nat) : Prop := ∀ (e : Expr) (ab : Bool) (scs) (st : RState) (e' : RExpr) (st' : RState) (ρ : NState) (σ : SState),
  SE ab e → Inv3 st scs → (bids scs).Nodup → resolveE e st = .ok (e', st') → Rel ρ scs σ →
  RelG (At scs) (At scs) (NameEval.evalE f e ρ) (Spec.evalE f e' σ)

def QL (f : Nat) : Prop := ∀ (c : Expr) (b : Block) (scs) (st : RState) (c' : RExpr) (st1 : RState) (b' : RBlock) (st2 : RState)
  (acc : SVal) (ρ : NState) (σ : SState),
  SE false c → SB true b → Inv3 st scs → (bids scs).Nodup → resolveE c st = .ok (c', st1) → resolveB b st1 = .ok (b', st2) →
  Rel ρ scs σ → RelG (At scs) (At scs) (NameEval.evalLoop f c b acc ρ) (Spec.evalLoop f c' b' acc σ)

def QS (f : Nat) : Prop := ∀ (s : Stmt) (ab : Bool) (sc scs) (st : RState) (s' : RStmt) (st' : RState) (ρ : NState) (σ : SState),
  SS ab s → Inv3 st (sc :: scs) → (bids (sc :: scs)).Nodup → resolveS s st = .ok (s', st') → Rel ρ (sc :: scs) σ →
  RelG (At (postS s st sc :: scs)) (In scs) (NameEval.evalS f s ρ) (Spec.evalS f s' σ)

def QSs (f : Nat) : Prop := ∀ (b : Block) (ab : Bool) (sc scs) (st : RState) (b' : RBlock) (st' : RState) (ρ : NState) (σ : SState),
  SB ab b → Inv3 st (sc :: scs) → (bids (sc :: scs)).Nodup → resolveSs b st = .ok (b', st') → Rel ρ (sc :: scs) σ →
  RelG (In scs) (In scs) (NameEval.evalSs f b ρ) (Spec.evalB f b' σ)

def QBs (f : Nat) : Prop := ∀ (b : Block) (ab : Bool) (sc scs) (st : RState) (b' : RBlock) (st' : RState) (ρ : NState) (σ : SState),
  SB ab b → Inv3 st (sc :: scs) → (bids (sc :: scs)).Nodup → resolveSs b st = .ok (b', st') → Rel ρ (sc :: scs) σ →
  RelG (In scs) (In scs) (NameEval.evalBVs f b ρ) (Spec.evalBV f b' σ)

structure QAll (f : Nat) : Prop where
  e : QE f
  l : QL f
  s : QS f
  ss : QSs f
  bs : QBs f

/-- a block in value position: push, run, pop -/
theorem QAll.bv {f : Nat} (q : QAll f) (b : Block) (ab : Bool) (scs) (st : RState) (b' : RBlock) (st' : RState) (ρ : NState) (σ : SState)
    (hs : SB ab b) (hinv : Inv3 st scs) (hnd : (bids scs).Nodup) (h : resolveB b st = .ok (b', st')) (hrel : Rel ρ scs σ) :
    RelG (At scs) (At scs) (popRes (NameEval.evalBVs f b ρ.push)) (Spec.evalBV f b' σ) := by
  obtain ⟨st'', h'⟩ := resolveB_Ss b st b' st' h
  exact (q.bs b ab [] scs st.enterScope b' st'' ρ.push σ hs (inv3_enter st scs hinv) (by rw [bids_enter]; exact hnd) h' hrel.push).pop

/-- a block in statement position -/
theorem QAll.b {f : Nat} (q : QAll f) (b : Block) (ab : Bool) (scs) (st : RState) (b' : RBlock) (st' : RState) (ρ : NState) (σ : SState)
    (hs : SB ab b) (hinv : Inv3 st scs) (hnd : (bids scs).Nodup) (h : resolveB b st = .ok (b', st')) (hrel : Rel ρ scs σ) :
    RelG (At scs) (At scs) (popRes (NameEval.evalSs f b ρ.push)) (Spec.evalB f b' σ) := by
  obtain ⟨st'', h'⟩ := resolveB_Ss b st b' st' h
  exact (q.ss b ab [] scs st.enterScope b' st'' ρ.push σ hs (inv3_enter st scs hinv) (by rw [bids_enter]; exact hnd) h' hrel.push).pop

/-- closes the goals where a sub-evaluation did not complete normally: the same result is passed on -/
macro "pass_on" hn:ident hs:ident hr:ident : tactic =>
  `(tactic| (simp only [$hn:ident, $hs:ident]
             first
               | exact RelG.brk _ _ $hr
               | exact RelG.cont _ _ $hr
               | exact RelG.err _ _ _ $hr
               | exact RelG.unspec _ _
               | exact RelG.fuel))

theorem qe_succ (f : Nat) (q : QAll f) : QE (f + 1) := by
  intro e ab scs st e' st' ρ σ hs hinv hnd h hrel
  cases hs with
  | int _ v =>
    simp only [resolveE] at h; injection h with h; injection h with h1 h2; subst h1
    simp only [NameEval.evalE, Spec.evalE]; exact .val _ _ _ hrel
  | bool _ b =>
    simp only [resolveE] at h; injection h with h; injection h with h1 h2; subst h1
    simp only [NameEval.evalE, Spec.evalE]; exact .val _ _ _ hrel
  | ident _ n =>
    simp only [resolveE] at h
    cases hr : st.resolve n with
    | none => simp [hr] at h
    | some r =>
      simp only [hr] at h
      injection h with h; injection h with h1 h2; subst h1
      obtain ⟨hf1, hf2⟩ := resolve_findBid st scs hinv n
      cases hfb : findBid scs.flatten n with
      | none => rw [hf1 hfb] at hr; cases hr
      | some b =>
        obtain ⟨k, hk⟩ := hf2 b hfb
        rw [hk] at hr; injection hr with hr; subst hr
        simp only [NameEval.evalE, Spec.evalE, lookup_rel hrel.env n, hfb, lookup_global, Option.map_some]
        cases envGet σ.genv b with
        | none => exact .unspec _ _
        | some v => exact .val _ _ _ hrel
  | not _ r hsr =>
    simp only [resolveE] at h
    cases hr : resolveE r st with
    | error er => simp [hr] at h
    | ok p =>
      obtain ⟨r1, st1⟩ := p
      simp only [hr] at h
      injection h with h; injection h with h1 h2; subst h1
      have ih := q.e r ab scs st r1 st1 ρ σ hsr hinv hnd hr hrel
      simp only [NameEval.evalE, Spec.evalE]
      rcases ih.inv with ⟨a, ρ1, σ1, hn, hs, hr1⟩ | ⟨ρ1, σ1, hn, hs, hr1⟩ | ⟨ρ1, σ1, hn, hs, hr1⟩ | ⟨er, ρ1, σ1, hn, hs, hr1⟩ |
        ⟨ρ1, σ1, hn, hs⟩ | ⟨hn, hs⟩
      · simp only [hn, hs]
        cases a <;> first | exact .val _ _ _ hr1 | exact .err _ _ _ hr1.out
      · pass_on hn hs hr1
      · pass_on hn hs hr1
      · pass_on hn hs hr1
      · pass_on hn hs hn
      · pass_on hn hs hn
  | neg _ r hsr =>
    simp only [resolveE] at h
    cases hr : resolveE r st with
    | error er => simp [hr] at h
    | ok p =>
      obtain ⟨r1, st1⟩ := p
      simp only [hr] at h
      injection h with h; injection h with h1 h2; subst h1
      have ih := q.e r ab scs st r1 st1 ρ σ hsr hinv hnd hr hrel
      simp only [NameEval.evalE, Spec.evalE]
      rcases ih.inv with ⟨a, ρ1, σ1, hn, hs, hr1⟩ | ⟨ρ1, σ1, hn, hs, hr1⟩ | ⟨ρ1, σ1, hn, hs, hr1⟩ | ⟨er, ρ1, σ1, hn, hs, hr1⟩ |
        ⟨ρ1, σ1, hn, hs⟩ | ⟨hn, hs⟩
      · simp only [hn, hs]
        cases a with
        | int i =>
          simp only
          split
          · exact .val _ _ _ hr1
          · exact .err _ _ _ hr1.out
        | float x => exact .val _ _ _ hr1
        | _ => exact .err _ _ _ hr1.out
      · pass_on hn hs hr1
      · pass_on hn hs hr1
      · pass_on hn hs hr1
      · pass_on hn hs hn
      · pass_on hn hs hn
  | bin _ l op r bop hop hsl hsr =>
    simp only [resolveE] at h
    cases hl : resolveE l st with
    | error er => simp [hl] at h
    | ok p =>
      obtain ⟨l1, st1⟩ := p
      simp only [hl] at h
      obtain ⟨_, hi1⟩ := rE l ab scs st l1 st1 hsl hinv hl
      cases hr : resolveE r st1 with
      | error er => simp [hr] at h
      | ok p2 =>
        obtain ⟨r1, st2⟩ := p2
        simp only [hr, hop] at h
        injection h with h; injection h with h1 h2; subst h1
        have ih1 := q.e l ab scs st l1 st1 ρ σ hsl hinv hnd hl hrel
        simp only [NameEval.evalE, Spec.evalE, binOf_eq, hop]
        rcases ih1.inv with ⟨a, ρ1, σ1, hn, hs, hr1⟩ | ⟨ρ1, σ1, hn, hs, hr1⟩ | ⟨ρ1, σ1, hn, hs, hr1⟩ | ⟨er, ρ1, σ1, hn, hs, hr1⟩ |
          ⟨ρ1, σ1, hn, hs⟩ | ⟨hn, hs⟩
        · simp only [hn, hs]
          have ih2 := q.e r false scs st1 r1 st2 ρ1 σ1 hsr hi1 hnd hr hr1
          rcases ih2.inv with ⟨b, ρ2, σ2, hn2, hs2, hr2⟩ | ⟨ρ2, σ2, hn2, hs2, hr2⟩ | ⟨ρ2, σ2, hn2, hs2, hr2⟩ | ⟨er, ρ2, σ2, hn2, hs2, hr2⟩ |
            ⟨ρ2, σ2, hn2, hs2⟩ | ⟨hn2, hs2⟩
          · simp only [hn2, hs2, view_mem hr2.store]
            cases binopCore bop (σ2.view a) (σ2.view b) with
            | error er => exact .err _ _ _ hr2.out
            | ok p =>
              obtain ⟨h1, h2, h3, h4, h5⟩ := box_mem hr2.store a p
              simp only
              cases hb : σ2.box a p with
              | mk v σ3 =>
                rw [hb] at h1 h2 h3 h4 h5
                simp only at h1 h2 h3 h4 h5
                rw [h1]
                refine .val _ _ _ ⟨?_, h2, ?_, ?_⟩
                · rw [h3]; exact hr2.env
                · rw [h4]; exact hr2.last
                · rw [h5]; exact hr2.out
          · pass_on hn2 hs2 hr2
          · pass_on hn2 hs2 hr2
          · pass_on hn2 hs2 hr2
          · pass_on hn2 hs2 hn2
          · pass_on hn2 hs2 hn2
        · pass_on hn hs hr1
        · pass_on hn hs hr1
        · pass_on hn hs hr1
        · pass_on hn hs hn
        · pass_on hn hs hn
  | assign _ n r hsr =>
    simp only [resolveE] at h
    cases hres : st.resolve n with
    | none => simp [hres] at h
    | some ref =>
      simp only [hres] at h
      cases hr : resolveE r st with
      | error er => simp [hr] at h
      | ok p =>
        obtain ⟨r1, st1⟩ := p
        simp only [hr] at h
        injection h with h; injection h with h1 h2; subst h1
        obtain ⟨hf1, hf2⟩ := resolve_findBid st scs hinv n
        cases hfb : findBid scs.flatten n with
        | none => rw [hf1 hfb] at hres; cases hres
        | some b =>
          obtain ⟨k, hk⟩ := hf2 b hfb
          rw [hk] at hres; injection hres with hres; subst hres
          have ih := q.e r ab scs st r1 st1 ρ σ hsr hinv hnd hr hrel
          simp only [NameEval.evalE, Spec.evalE]
          rcases ih.inv with ⟨a, ρ1, σ1, hn, hs, hr1⟩ | ⟨ρ1, σ1, hn, hs, hr1⟩ | ⟨ρ1, σ1, hn, hs, hr1⟩ | ⟨er, ρ1, σ1, hn, hs, hr1⟩ |
            ⟨ρ1, σ1, hn, hs⟩ | ⟨hn, hs⟩
          · obtain ⟨ρ2, ha, hr2⟩ := hr1.assign hnd n b a hfb
            simp only [hn, hs, ha, bind_global]
            exact .val _ _ _ hr2
          · pass_on hn hs hr1
          · pass_on hn hs hr1
          · pass_on hn hs hr1
          · pass_on hn hs hn
          · pass_on hn hs hn
  | ifE _ c t e hsc hst hse =>
    simp only [resolveE] at h
    cases hc : resolveE c st with
    | error er => simp [hc] at h
    | ok p =>
      obtain ⟨c1, st1⟩ := p
      simp only [hc] at h
      obtain ⟨_, hi1⟩ := rE c ab scs st c1 st1 hsc hinv hc
      cases ht : resolveB t st1 with
      | error er => simp [ht] at h
      | ok p2 =>
        obtain ⟨t1, st2⟩ := p2
        simp only [ht] at h
        obtain ⟨_, _, hi2⟩ := rB t ab scs st1 t1 st2 hst hi1 ht
        cases he : resolveO e st2 with
        | error er => simp [he] at h
        | ok p3 =>
          obtain ⟨e1, st3⟩ := p3
          simp only [he] at h
          injection h with h; injection h with h1 h2; subst h1
          have ih := q.e c ab scs st c1 st1 ρ σ hsc hinv hnd hc hrel
          simp only [NameEval.evalE, Spec.evalE]
          rcases ih.inv with ⟨a, ρ1, σ1, hn, hs, hr1⟩ | ⟨ρ1, σ1, hn, hs, hr1⟩ | ⟨ρ1, σ1, hn, hs, hr1⟩ | ⟨er, ρ1, σ1, hn, hs, hr1⟩ |
            ⟨ρ1, σ1, hn, hs⟩ | ⟨hn, hs⟩
          · simp only [hn, hs]
            cases a with
            | bool bb =>
              cases bb with
              | true => exact q.bv t ab scs st1 t1 st2 ρ1 σ1 hst hi1 hnd ht hr1
              | false =>
                cases hse with
                | none =>
                  simp only [resolveO] at he; injection he with he; injection he with he1 he2; subst he1
                  exact .val _ _ _ hr1
                | some _ b hsb =>
                  simp only [resolveO] at he
                  cases hb : resolveB b st2 with
                  | error er => simp [hb] at he
                  | ok p4 =>
                    obtain ⟨b1, st4⟩ := p4
                    simp only [hb] at he
                    injection he with he; injection he with he1 he2; subst he1
                    exact q.bv b ab scs st2 b1 st4 ρ1 σ1 hsb hi2 hnd hb hr1
            | _ => exact .err _ _ _ hr1.out
          · pass_on hn hs hr1
          · pass_on hn hs hr1
          · pass_on hn hs hr1
          · pass_on hn hs hn
          · pass_on hn hs hn
  | whileE _ c b hsc hsb =>
    simp only [resolveE] at h
    cases hc : resolveE c { st with loopDepth := st.loopDepth + 1 } with
    | error er => simp [hc] at h
    | ok p =>
      obtain ⟨c1, st1⟩ := p
      simp only [hc] at h
      cases hb : resolveB b st1 with
      | error er => simp [hb] at h
      | ok p2 =>
        obtain ⟨b1, st2⟩ := p2
        simp only [hb] at h
        injection h with h; injection h with h1 h2; subst h1
        simp only [NameEval.evalE, Spec.evalE]
        exact q.l c b scs _ c1 st1 b1 st2 .null ρ σ hsc hsb (inv3_loop st scs _ hinv) hnd hc hb hrel

theorem ql_succ (f : Nat) (q : QAll f) : QL (f + 1) := by
  intro c b scs st c1 st1 b1 st2 acc ρ σ hsc hsb hinv hnd hc hb hrel
  obtain ⟨_, hi1⟩ := rE c false scs st c1 st1 hsc hinv hc
  have ih := q.e c false scs st c1 st1 ρ σ hsc hinv hnd hc hrel
  simp only [NameEval.evalLoop, Spec.evalLoop]
  rcases ih.inv with ⟨a, ρ1, σ1, hn, hs, hr1⟩ | ⟨ρ1, σ1, hn, hs, hr1⟩ | ⟨ρ1, σ1, hn, hs, hr1⟩ | ⟨er, ρ1, σ1, hn, hs, hr1⟩ |
    ⟨ρ1, σ1, hn, hs⟩ | ⟨hn, hs⟩
  · simp only [hn, hs]
    cases a with
    | bool bb =>
      cases bb with
      | false => exact .val _ _ _ hr1
      | true =>
        simp only
        have ihb := q.bv b true scs st1 b1 st2 _ _ hsb hi1 hnd hb (hr1.setLast acc)
        rcases ihb.inv with ⟨v, ρ2, σ2, hn2, hs2, hr2⟩ | ⟨ρ2, σ2, hn2, hs2, hr2⟩ | ⟨ρ2, σ2, hn2, hs2, hr2⟩ | ⟨er, ρ2, σ2, hn2, hs2, hr2⟩ |
          ⟨ρ2, σ2, hn2, hs2⟩ | ⟨hn2, hs2⟩
        · simp only [hn2, hs2]
          exact q.l c b scs st c1 st1 b1 st2 v ρ2 σ2 hsc hsb hinv hnd hc hb hr2
        · simp only [hn2, hs2]; exact .val _ _ _ hr2
        · simp only [hn2, hs2]
          exact q.l c b scs st c1 st1 b1 st2 .null ρ2 σ2 hsc hsb hinv hnd hc hb hr2
        · pass_on hn2 hs2 hr2
        · pass_on hn2 hs2 hn2
        · pass_on hn2 hs2 hn2
    | _ => exact .err _ _ _ hr1.out
  · simp only [hn, hs]; exact .val _ _ _ hr1
  · simp only [hn, hs]
    exact q.l c b scs st c1 st1 b1 st2 .null ρ1 σ1 hsc hsb hinv hnd hc hb hr1
  · pass_on hn hs hr1
  · pass_on hn hs hn
  · pass_on hn hs hn

end NameEval
end Nl
