/- C08 (coverage half): the tokenizer drops nothing.  ANY text is the concatenation of the spans the
   tokenizer consumes: whitespace characters, `//` comments, and the exact source text of each token. -/
import Nlmodel.Proofs.Lemmas.LexRender
import Nlmodel.Proofs.Lemmas.LexCoverParse
import Nlmodel.Proofs.Lemmas.LexCoverType
import Nlmodel.Model.Pipeline
namespace Nl
namespace LC
open LR

/-! ## the decomposition -/

/-- what one step of the tokenizer consumes -/
inductive Span where
  /-- one whitespace character -/
  | ws (c : Char)
  /-- a line comment `//` + body (the newline is not part of it) -/
  | comment (body : Text)
  /-- a token together with the exact source text it was read from -/
  | tok (t : Token) (raw : Text)
  deriving DecidableEq, Repr

/-- the source text of a span -/
def Span.raw : Span → Text
  | .ws c => [c]
  | .comment b => '/' :: '/' :: b
  | .tok _ r => r

/-- the text up to (not including) the next newline -/
def lineBody (cs : Text) : Text := cs.takeWhile (· ≠ '\n')

/-- one step of `Tokenizer::next`, NOT skipping: the next span and the remaining text.  Mirrors
    `nextToken` branch by branch. -/
def nextSpan (cc : CharClass) : Text → Option (Span × Text)
  | [] => none
  | c :: cs =>
    if identStart cc c then
      some (.tok (keywordOrIdent (c :: cs.takeWhile (identCont cc))) (c :: cs.takeWhile (identCont cc)),
            cs.dropWhile (identCont cc))
    else if isDigit c then
      match scanNum cs false with
      | (a, r, d) => some (.tok (if d then .float (c :: a) else .int (c :: a)) (c :: a), r)
    else if c = '"' then
      match scanStr cs false with
      | (a, []) => some (.tok .illegal ('"' :: a), [])
      | (a, q :: r') => some (.tok (.str a) ('"' :: a ++ [q]), r')
    else if isWs c then some (.ws c, cs)
    else if c = '/' && cs.head? = some '/' then some (.comment (lineBody cs.tail), skipLine cs)
    else
      match punct c cs.head? with
      | (t, two) => some (.tok t (if two then c :: cs.take 1 else [c]), if two then cs.tail else cs)

def spansF (cc : CharClass) : Nat → Text → List Span
  | 0, _ => []
  | f + 1, cs =>
    match nextSpan cc cs with
    | none => []
    | some (s, rest) => s :: spansF cc f rest

/-- the spans of a text: everything the tokenizer consumes, in order -/
def lexSpans (cc : CharClass) (src : Text) : List Span := spansF cc (src.length + 1) src

/-- the tokens among the spans -/
def tokensOf : List Span → List Token
  | [] => []
  | .tok t _ :: r => t :: tokensOf r
  | .ws _ :: r => tokensOf r
  | .comment _ :: r => tokensOf r

/-! ## scanners split their input -/

theorem scanNum_split (cs : Text) (d : Bool) (a r : Text) (d' : Bool) (h : scanNum cs d = (a, r, d')) : a ++ r = cs := by
  induction cs generalizing d a r d' with
  | nil => simp [scanNum] at h; obtain ⟨h1, h2, _⟩ := h; subst h1 h2; rfl
  | cons c t ih =>
    simp only [scanNum] at h
    split at h
    · rcases hx : scanNum t d with ⟨a1, r1, d1⟩
      rw [hx] at h
      simp only [Prod.mk.injEq] at h
      obtain ⟨h1, h2, _⟩ := h
      subst h1 h2
      simp [ih d a1 r1 d1 hx]
    · split at h
      · rcases hx : scanNum t true with ⟨a1, r1, d1⟩
        rw [hx] at h
        simp only [Prod.mk.injEq] at h
        obtain ⟨h1, h2, _⟩ := h
        subst h1 h2
        simp [ih true a1 r1 d1 hx]
      · simp only [Prod.mk.injEq] at h
        obtain ⟨h1, h2, _⟩ := h
        subst h1 h2; rfl

theorem scanStr_split (cs : Text) (e : Bool) (a r : Text) (h : scanStr cs e = (a, r)) : a ++ r = cs := by
  induction cs generalizing e a r with
  | nil => simp [scanStr] at h; obtain ⟨h1, h2⟩ := h; subst h1 h2; rfl
  | cons c t ih =>
    simp only [scanStr] at h
    split at h
    · rcases hx : scanStr t (!e && decide (c = '\\')) with ⟨a1, r1⟩
      rw [hx] at h
      simp only [Prod.mk.injEq] at h
      obtain ⟨h1, h2⟩ := h
      subst h1 h2
      simp [ih _ a1 r1 hx]
    · simp only [Prod.mk.injEq] at h
      obtain ⟨h1, h2⟩ := h
      subst h1 h2; rfl

/-- where the string scanner stops, there is a quote -/
theorem scanStr_rest (cs : Text) (e : Bool) (a : Text) (q : Char) (r : Text) (h : scanStr cs e = (a, q :: r)) : q = '"' := by
  induction cs generalizing e a with
  | nil => simp [scanStr] at h
  | cons c t ih =>
    simp only [scanStr] at h
    split at h
    · rcases hx : scanStr t (!e && decide (c = '\\')) with ⟨a1, r1⟩
      rw [hx] at h
      simp only [Prod.mk.injEq] at h
      obtain ⟨_, h2⟩ := h
      subst h2
      exact ih _ a1 hx
    · rename_i hc
      simp only [Prod.mk.injEq, List.cons.injEq] at h
      obtain ⟨_, h2, _⟩ := h
      subst h2
      simp only [ne_eq, Bool.or_eq_true, decide_eq_true_eq, not_or, Decidable.not_not] at hc
      exact hc.1

theorem lineBody_skipLine (cs : Text) : lineBody cs ++ skipLine cs = cs := by
  induction cs with
  | nil => rfl
  | cons c t ih =>
    unfold lineBody at ih ⊢
    simp only [skipLine, List.takeWhile]
    by_cases hc : c = '\n'
    · subst hc; simp
    · simp only [hc, ne_eq, not_false_eq_true, decide_true, ↓reduceIte, List.cons_append]
      rw [ih]

theorem take1_tail (cs : Text) : cs.take 1 ++ cs.tail = cs := by
  cases cs <;> simp

/-- EVERY STEP CONSUMES EXACTLY ITS SPAN: the text is the span's source text followed by the rest -/
theorem nextSpan_raw (cc : CharClass) (cs : Text) (s : Span) (rest : Text) (h : nextSpan cc cs = some (s, rest)) :
    s.raw ++ rest = cs := by
  cases cs with
  | nil => simp [nextSpan] at h
  | cons c t =>
    rw [nextSpan] at h
    split at h
    · simp only [Option.some.injEq, Prod.mk.injEq] at h
      obtain ⟨h1, h2⟩ := h; subst h1 h2
      simp [Span.raw, List.takeWhile_append_dropWhile]
    · split at h
      · rcases hx : scanNum t false with ⟨a1, r1, d1⟩
        rw [hx] at h
        simp only [Option.some.injEq, Prod.mk.injEq] at h
        obtain ⟨h1, h2⟩ := h; subst h1 h2
        simp [Span.raw, scanNum_split t false a1 r1 d1 hx]
      · split at h
        · rename_i hq
          rcases hx : scanStr t false with ⟨a1, r1⟩
          rw [hx] at h
          have hs := scanStr_split t false a1 r1 hx
          cases r1 with
          | nil =>
            simp only [Option.some.injEq, Prod.mk.injEq] at h
            obtain ⟨h1, h2⟩ := h; subst h1 h2
            simp only [List.append_nil] at hs
            simp [Span.raw, hs, hq]
          | cons q r2 =>
            simp only [Option.some.injEq, Prod.mk.injEq] at h
            obtain ⟨h1, h2⟩ := h; subst h1 h2
            simp [Span.raw, hq, ← hs]
        · split at h
          · simp only [Option.some.injEq, Prod.mk.injEq] at h
            obtain ⟨h1, h2⟩ := h; subst h1 h2
            rfl
          · split at h
            · rename_i hc
              simp only [Option.some.injEq, Prod.mk.injEq] at h
              obtain ⟨h1, h2⟩ := h; subst h1 h2
              simp only [Bool.and_eq_true, decide_eq_true_eq] at hc
              obtain ⟨hc1, hc2⟩ := hc
              subst hc1
              cases t with
              | nil => simp at hc2
              | cons x t' =>
                simp only [List.head?_cons, Option.some.injEq] at hc2
                subst hc2
                simp only [Span.raw, List.tail_cons, skipLine, ne_eq, show ¬ ('/' : Char) = '\n' by decide, not_false_eq_true,
                  ↓reduceIte, List.cons_append, lineBody_skipLine]
            · rcases hx : punct c t.head? with ⟨t1, two⟩
              rw [hx] at h
              simp only [Option.some.injEq, Prod.mk.injEq] at h
              obtain ⟨h1, h2⟩ := h; subst h1 h2
              cases two
              · simp [Span.raw]
              · simp [Span.raw, take1_tail]

theorem raw_ne_nil (cc : CharClass) (cs : Text) (s : Span) (rest : Text) (h : nextSpan cc cs = some (s, rest)) : s.raw ≠ [] := by
  cases cs with
  | nil => simp [nextSpan] at h
  | cons c t =>
    rw [nextSpan] at h
    split at h
    · simp only [Option.some.injEq, Prod.mk.injEq] at h
      obtain ⟨h1, _⟩ := h; subst h1; simp [Span.raw]
    · split at h
      · rcases hx : scanNum t false with ⟨a1, r1, d1⟩
        rw [hx] at h
        simp only [Option.some.injEq, Prod.mk.injEq] at h
        obtain ⟨h1, _⟩ := h; subst h1; simp [Span.raw]
      · split at h
        · rcases hx : scanStr t false with ⟨a1, r1⟩
          rw [hx] at h
          cases r1 with
          | nil =>
            simp only [Option.some.injEq, Prod.mk.injEq] at h
            obtain ⟨h1, _⟩ := h; subst h1; simp [Span.raw]
          | cons q r2 =>
            simp only [Option.some.injEq, Prod.mk.injEq] at h
            obtain ⟨h1, _⟩ := h; subst h1; simp [Span.raw]
        · split at h
          · simp only [Option.some.injEq, Prod.mk.injEq] at h
            obtain ⟨h1, _⟩ := h; subst h1; simp [Span.raw]
          · split at h
            · simp only [Option.some.injEq, Prod.mk.injEq] at h
              obtain ⟨h1, _⟩ := h; subst h1; simp [Span.raw]
            · rcases hx : punct c t.head? with ⟨t1, two⟩
              rw [hx] at h
              simp only [Option.some.injEq, Prod.mk.injEq] at h
              obtain ⟨h1, _⟩ := h; subst h1
              cases two <;> simp [Span.raw]

/-- every step consumes at least one character -/
theorem nextSpan_progress (cc : CharClass) (cs : Text) (s : Span) (rest : Text) (h : nextSpan cc cs = some (s, rest)) :
    rest.length < cs.length := by
  have h1 := nextSpan_raw cc cs s rest h
  have h2 := raw_ne_nil cc cs s rest h
  rw [← h1, List.length_append]
  have : 0 < s.raw.length := List.length_pos_iff.mpr h2
  omega

theorem nextSpan_none (cc : CharClass) (cs : Text) (h : nextSpan cc cs = none) : cs = [] := by
  cases cs with
  | nil => rfl
  | cons c t =>
    exfalso
    rw [nextSpan] at h
    split at h
    · cases h
    · split at h
      · rcases hx : scanNum t false with ⟨a1, r1, d1⟩
        rw [hx] at h; cases h
      · split at h
        · rcases hx : scanStr t false with ⟨a1, r1⟩
          rw [hx] at h
          cases r1 <;> cases h
        · split at h
          · cases h
          · split at h
            · cases h
            · rcases hx : punct c t.head? with ⟨t1, two⟩
              rw [hx] at h; cases h

theorem spansF_fuel (cc : CharClass) (n m : Nat) (cs : Text) (hn : cs.length < n) (hm : cs.length < m) :
    spansF cc n cs = spansF cc m cs := by
  induction n generalizing cs m with
  | zero => omega
  | succ n ih =>
    cases m with
    | zero => omega
    | succ m =>
      simp only [spansF]
      cases h : nextSpan cc cs with
      | none => rfl
      | some p =>
        obtain ⟨s, rest⟩ := p
        have := nextSpan_progress cc cs s rest h
        simp only
        rw [ih m rest (by omega) (by omega)]

/-- `lexSpans` step by step -/
theorem lexSpans_unfold (cc : CharClass) (cs : Text) :
    lexSpans cc cs = match nextSpan cc cs with
      | none => []
      | some (s, rest) => s :: lexSpans cc rest := by
  unfold lexSpans
  rw [spansF]
  cases h : nextSpan cc cs with
  | none => rfl
  | some p =>
    obtain ⟨s, rest⟩ := p
    have := nextSpan_progress cc cs s rest h
    simp only
    rw [spansF_fuel cc cs.length (rest.length + 1) rest this (by omega)]

theorem lexSpans_nil (cc : CharClass) : lexSpans cc [] = [] := by
  rw [lexSpans_unfold]; simp [nextSpan]

theorem lexSpans_cons (cc : CharClass) (cs : Text) (s : Span) (rest : Text) (h : nextSpan cc cs = some (s, rest)) :
    lexSpans cc cs = s :: lexSpans cc rest := by
  rw [lexSpans_unfold, h]

/-- induction along the tokenizer's steps -/
theorem span_induction (cc : CharClass) (P : Text → Prop) (hnil : P [])
    (hstep : ∀ cs s rest, nextSpan cc cs = some (s, rest) → P rest → P cs) : ∀ cs, P cs := by
  intro cs
  generalize hn : cs.length = n
  induction n using Nat.strongRecOn generalizing cs with
  | _ n ih =>
    cases h : nextSpan cc cs with
    | none => rw [nextSpan_none cc cs h]; exact hnil
    | some p =>
      obtain ⟨s, rest⟩ := p
      have := nextSpan_progress cc cs s rest h
      exact hstep cs s rest h (ih rest.length (by omega) rest rfl)

/-- NOTHING IS DROPPED: the concatenation of the spans, in order, is the text — nothing skipped,
    nothing reordered, nothing duplicated -/
theorem lexSpans_concat (cc : CharClass) (src : Text) : (lexSpans cc src).flatMap Span.raw = src := by
  induction src using span_induction cc with
  | hnil => rw [lexSpans_nil]; rfl
  | hstep cs s rest h ih =>
    rw [lexSpans_cons cc cs s rest h, List.flatMap_cons, ih]
    exact nextSpan_raw cc cs s rest h

/-! ## the tokens of the spans are the tokens of `lex` -/

/-- `nextToken` is `nextSpan`, skipping the separator spans -/
theorem tok_nextSpan (cc : CharClass) (cs : Text) :
    tok cc cs = match nextSpan cc cs with
      | none => none
      | some (.tok t _, rest) => some (t, rest)
      | some (.ws _, rest) => tok cc rest
      | some (.comment _, rest) => tok cc rest := by
  cases cs with
  | nil => simp [tok, nextToken, nextSpan]
  | cons c t =>
    unfold tok
    simp only [List.length_cons]
    rw [nextToken, nextSpan]
    split
    · rfl
    · split
      · rcases hx : scanNum t false with ⟨a1, r1, d1⟩
        rfl
      · split
        · rcases hx : scanStr t false with ⟨a1, r1⟩
          cases r1 <;> rfl
        · split
          · rfl
          · split
            · have := skipLine_len t
              show nextToken cc (t.length + 1) (skipLine t) = nextToken cc ((skipLine t).length + 1) (skipLine t)
              exact nextToken_fuel cc _ _ _ (by omega) (by omega)
            · rcases hx : punct c t.head? with ⟨t1, two⟩
              rfl

theorem tokensOf_lexSpans' (cc : CharClass) (src : Text) : tokensOf (lexSpans cc src) = lexAll cc src := by
  induction src using span_induction cc with
  | hnil => rw [lexSpans_nil, lexAll_unfold, tok_nil]; rfl
  | hstep cs s rest h ih =>
    rw [lexSpans_cons cc cs s rest h, lexAll_unfold, tok_nextSpan, h]
    cases s with
    | tok t raw => simp only [tokensOf, ih]
    | ws c => simp only [tokensOf, ih]; rw [lexAll_unfold]
    | comment b => simp only [tokensOf, ih]; rw [lexAll_unfold]

/-- THE TOKEN SPANS, IN ORDER, ARE THE TOKENS OF `lex` -/
theorem tokensOf_lexSpans (cc : CharClass) (src : Text) : tokensOf (lexSpans cc src) = lex cc src :=
  tokensOf_lexSpans' cc src

theorem mem_tokensOf (t : Token) (l : List Span) : t ∈ tokensOf l ↔ ∃ raw, Span.tok t raw ∈ l := by
  induction l with
  | nil => simp [tokensOf]
  | cons s r ih =>
    cases s with
    | tok t' raw' =>
      simp only [tokensOf, List.mem_cons, ih]
      constructor
      · rintro (rfl | ⟨raw, h⟩)
        · exact ⟨raw', .inl rfl⟩
        · exact ⟨raw, .inr h⟩
      · rintro ⟨raw, h | h⟩
        · injection h with h1 _; exact .inl h1
        · exact .inr ⟨raw, h⟩
    | ws c => simp [tokensOf, ih]
    | comment b => simp [tokensOf, ih]

/-! ## what each span is -/


theorem kw_spec (w : Text) :
    (keywordOrIdent w).isWord = true ∧ (keywordOrIdent w).text = w ∧
    (keywordOrIdent w = .ident w ∨ ∀ s, keywordOrIdent w ≠ .ident s) := by
  unfold keywordOrIdent
  cases h : keywordTable.find? (fun p => p.1.toList = w) with
  | none => exact ⟨rfl, rfl, .inl rfl⟩
  | some p =>
    have hm := List.mem_of_find?_eq_some h
    have hp := List.find?_some h
    simp only [decide_eq_true_eq] at hp
    simp only [keywordTable, List.mem_cons, List.not_mem_nil, or_false] at hm
    subst hp
    rcases hm with rfl | rfl | rfl | rfl | rfl | rfl | rfl | rfl | rfl | rfl <;>
      exact ⟨rfl, by decide, .inr (fun s h => by cases h)⟩

/-- the number scanner after the dot: digits only, stops at a non-digit -/
theorem scanNum_true (cs a r : Text) (d' : Bool) (h : scanNum cs true = (a, r, d')) :
    d' = true ∧ a.all isDigit = true ∧ ∀ x, r.head? = some x → isDigit x = false := by
  induction cs generalizing a r d' with
  | nil => simp [scanNum] at h; obtain ⟨h1, h2, h3⟩ := h; subst h1 h2 h3; simp
  | cons c t ih =>
    simp only [scanNum] at h
    split at h
    · rename_i hd
      rcases hx : scanNum t true with ⟨a1, r1, d1⟩
      rw [hx] at h
      simp only [Prod.mk.injEq] at h
      obtain ⟨h1, h2, h3⟩ := h
      subst h1 h2 h3
      obtain ⟨i1, i2, i3⟩ := ih a1 r1 d1 hx
      exact ⟨i1, by simp [hd, i2], i3⟩
    · rename_i hd
      simp only [Bool.not_true, Bool.false_and, Bool.false_eq_true, ↓reduceIte, Prod.mk.injEq] at h
      obtain ⟨h1, h2, h3⟩ := h
      subst h1 h2 h3
      refine ⟨rfl, rfl, ?_⟩
      intro x hx
      simp only [List.head?_cons, Option.some.injEq] at hx
      subst hx
      simpa using hd

/-- the number scanner before the dot: either digits only (an integer; what follows is neither a digit
    nor a dot), or digits, a dot, digits (what follows is not a digit) -/
theorem scanNum_false (cs a r : Text) (d' : Bool) (h : scanNum cs false = (a, r, d')) :
    (d' = false ∧ a.all isDigit = true ∧ ∀ x, r.head? = some x → isDigit x = false ∧ x ≠ '.') ∨
    (d' = true ∧ (∃ a1 b, a = a1 ++ '.' :: b ∧ a1.all isDigit = true ∧ b.all isDigit = true) ∧
      ∀ x, r.head? = some x → isDigit x = false) := by
  induction cs generalizing a r d' with
  | nil => simp [scanNum] at h; obtain ⟨h1, h2, h3⟩ := h; subst h1 h2 h3; simp
  | cons c t ih =>
    simp only [scanNum] at h
    split at h
    · rename_i hd
      rcases hx : scanNum t false with ⟨a1, r1, d1⟩
      rw [hx] at h
      simp only [Prod.mk.injEq] at h
      obtain ⟨h1, h2, h3⟩ := h
      subst h1 h2 h3
      rcases ih a1 r1 d1 hx with ⟨i1, i2, i3⟩ | ⟨i1, ⟨x1, b, e, i2, i3⟩, i4⟩
      · exact .inl ⟨i1, by simp [hd, i2], i3⟩
      · subst e
        exact .inr ⟨i1, ⟨c :: x1, b, rfl, by simp [hd, i2], i3⟩, i4⟩
    · rename_i hd
      split at h
      · rename_i hdot
        simp only [Bool.not_false, Bool.true_and, decide_eq_true_eq] at hdot
        subst hdot
        rcases hx : scanNum t true with ⟨a1, r1, d1⟩
        rw [hx] at h
        simp only [Prod.mk.injEq] at h
        obtain ⟨h1, h2, h3⟩ := h
        subst h1 h2 h3
        obtain ⟨i1, i2, i3⟩ := scanNum_true t a1 r1 d1 hx
        exact .inr ⟨i1, ⟨[], a1, rfl, rfl, i2⟩, i3⟩
      · rename_i hdot
        simp only [Bool.not_false, Bool.true_and, decide_eq_true_eq] at hdot
        simp only [Prod.mk.injEq] at h
        obtain ⟨h1, h2, h3⟩ := h
        subst h1 h2 h3
        refine .inl ⟨rfl, rfl, ?_⟩
        intro x hx
        simp only [List.head?_cons, Option.some.injEq] at hx
        subst hx
        exact ⟨by simpa using hd, hdot⟩

/-- a terminated string body: re-scanning it in any context stops at the same closing quote -/
theorem scanStr_closed (cs : Text) (e : Bool) (a r : Text) (h : scanStr cs e = (a, '"' :: r)) :
    ∀ r2, scanStr (a ++ '"' :: r2) e = (a, '"' :: r2) := by
  induction cs generalizing e a with
  | nil => simp [scanStr] at h
  | cons c t ih =>
    simp only [scanStr] at h
    split at h
    · rename_i hc
      rcases hx : scanStr t (!e && decide (c = '\\')) with ⟨a1, r1⟩
      rw [hx] at h
      simp only [Prod.mk.injEq] at h
      obtain ⟨h1, h2⟩ := h
      subst h1 h2
      intro r2
      simp only [List.cons_append, scanStr, hc, ↓reduceIte, ih _ a1 hx r2]
    · rename_i hc
      simp only [Prod.mk.injEq, List.cons.injEq] at h
      obtain ⟨h1, h2, _⟩ := h
      subst h1 h2
      intro r2
      simp only [List.nil_append, scanStr, hc, Bool.false_eq_true, ↓reduceIte]

/-- an unterminated string: the scanner runs to the end of the text -/
theorem scanStr_open (cs : Text) (e : Bool) (a : Text) (h : scanStr cs e = (a, [])) : a = cs := by
  have := scanStr_split cs e a [] h
  simpa using this

/-- the characters that start an operator or punctuation token -/
def opChars : List Char :=
  ['=', '!', '<', '>', '&', '|', '/', ';', ',', '.', '(', ')', '{', '}', '[', ']', '-', '+', '*', '^', '%']

/-- a token of the operator/punctuation class -/
def isOp (t : Token) : Bool :=
  !t.isWord && !t.isNum && (match t with | .str _ => false | .illegal => false | .eof => false | _ => true)

/-- what `punct` answers, as a proposition: the illegal token for a character that starts no operator
    (or a lone `&` / `|`), else an operator token spelled by the one or two characters consumed -/
def PunctSpec (c : Char) (nx : Option Char) (t : Token) (two : Bool) : Prop :=
    (t = .illegal ∧ two = false ∧
      (c ∉ opChars ∨ (c = '&' ∧ nx ≠ some '&') ∨ (c = '|' ∧ nx ≠ some '|'))) ∨
    (isOp t = true ∧ c ∈ opChars ∧
      ((two = false ∧ t.text = [c] ∧
          ((t = .assign ∨ t = .bang ∨ t = .lt ∨ t = .gt) → nx ≠ some '=') ∧ (t = .slash → c = '/')) ∨
       (two = true ∧ ∃ d, nx = some d ∧ t.text = [c, d] ∧
          ¬ (t = .assign ∨ t = .bang ∨ t = .lt ∨ t = .gt) ∧ t ≠ .slash)))

theorem punct_one (c : Char) (nx : Option Char) (t : Token) (hc : c ∈ opChars) (ho : isOp t = true) (ht : t.text = [c])
    (h1 : (t = .assign ∨ t = .bang ∨ t = .lt ∨ t = .gt) → nx ≠ some '=') (h2 : t = .slash → c = '/') : PunctSpec c nx t false :=
  .inr ⟨ho, hc, .inl ⟨rfl, ht, h1, h2⟩⟩

theorem punct_two (c d : Char) (t : Token) (hc : c ∈ opChars) (ho : isOp t = true) (ht : t.text = [c, d])
    (h1 : ¬ (t = .assign ∨ t = .bang ∨ t = .lt ∨ t = .gt)) (h2 : t ≠ .slash) : PunctSpec c (some d) t true :=
  .inr ⟨ho, hc, .inr ⟨rfl, d, rfl, ht, h1, h2⟩⟩

theorem punct_spec (c : Char) (nx : Option Char) : PunctSpec c nx (punct c nx).1 (punct c nx).2 := by
  unfold punct
  by_cases c1 : c = '='
  · subst c1; rw [if_pos rfl]
    by_cases n1 : nx = some '='
    · subst n1; rw [if_pos rfl]; exact punct_two _ _ _ (by decide) (by decide) (by decide) (by decide) (by decide)
    · rw [if_neg n1]; exact punct_one _ _ _ (by decide) (by decide) (by decide) (fun _ => n1) (by decide)
  rw [if_neg c1]
  by_cases c2 : c = '!'
  · subst c2; rw [if_pos rfl]
    by_cases n1 : nx = some '='
    · subst n1; rw [if_pos rfl]; exact punct_two _ _ _ (by decide) (by decide) (by decide) (by decide) (by decide)
    · rw [if_neg n1]; exact punct_one _ _ _ (by decide) (by decide) (by decide) (fun _ => n1) (by decide)
  rw [if_neg c2]
  by_cases c3 : c = '<'
  · subst c3; rw [if_pos rfl]
    by_cases n1 : nx = some '='
    · subst n1; rw [if_pos rfl]; exact punct_two _ _ _ (by decide) (by decide) (by decide) (by decide) (by decide)
    · rw [if_neg n1]; exact punct_one _ _ _ (by decide) (by decide) (by decide) (fun _ => n1) (by decide)
  rw [if_neg c3]
  by_cases c4 : c = '>'
  · subst c4; rw [if_pos rfl]
    by_cases n1 : nx = some '='
    · subst n1; rw [if_pos rfl]; exact punct_two _ _ _ (by decide) (by decide) (by decide) (by decide) (by decide)
    · rw [if_neg n1]; exact punct_one _ _ _ (by decide) (by decide) (by decide) (fun _ => n1) (by decide)
  rw [if_neg c4]
  by_cases c5 : c = '&'
  · subst c5; rw [if_pos rfl]
    by_cases n1 : nx = some '&'
    · subst n1; rw [if_pos rfl]; exact punct_two _ _ _ (by decide) (by decide) (by decide) (by decide) (by decide)
    · rw [if_neg n1]; exact .inl ⟨rfl, rfl, .inr (.inl ⟨rfl, n1⟩)⟩
  rw [if_neg c5]
  by_cases c6 : c = '|'
  · subst c6; rw [if_pos rfl]
    by_cases n1 : nx = some '|'
    · subst n1; rw [if_pos rfl]; exact punct_two _ _ _ (by decide) (by decide) (by decide) (by decide) (by decide)
    · rw [if_neg n1]; exact .inl ⟨rfl, rfl, .inr (.inr ⟨rfl, n1⟩)⟩
  rw [if_neg c6]
  by_cases c7 : c = '/'
  · subst c7; rw [if_pos rfl]; exact punct_one _ _ _ (by decide) (by decide) (by decide) (fun h => absurd h (by decide)) (fun _ => rfl)
  rw [if_neg c7]
  by_cases c8 : c = ';'
  · subst c8; rw [if_pos rfl]; exact punct_one _ _ _ (by decide) (by decide) (by decide) (fun h => absurd h (by decide)) (fun h => absurd h (by decide))
  rw [if_neg c8]
  by_cases c9 : c = ','
  · subst c9; rw [if_pos rfl]; exact punct_one _ _ _ (by decide) (by decide) (by decide) (fun h => absurd h (by decide)) (fun h => absurd h (by decide))
  rw [if_neg c9]
  by_cases c10 : c = '.'
  · subst c10; rw [if_pos rfl]; exact punct_one _ _ _ (by decide) (by decide) (by decide) (fun h => absurd h (by decide)) (fun h => absurd h (by decide))
  rw [if_neg c10]
  by_cases c11 : c = '('
  · subst c11; rw [if_pos rfl]; exact punct_one _ _ _ (by decide) (by decide) (by decide) (fun h => absurd h (by decide)) (fun h => absurd h (by decide))
  rw [if_neg c11]
  by_cases c12 : c = ')'
  · subst c12; rw [if_pos rfl]; exact punct_one _ _ _ (by decide) (by decide) (by decide) (fun h => absurd h (by decide)) (fun h => absurd h (by decide))
  rw [if_neg c12]
  by_cases c13 : c = '{'
  · subst c13; rw [if_pos rfl]; exact punct_one _ _ _ (by decide) (by decide) (by decide) (fun h => absurd h (by decide)) (fun h => absurd h (by decide))
  rw [if_neg c13]
  by_cases c14 : c = '}'
  · subst c14; rw [if_pos rfl]; exact punct_one _ _ _ (by decide) (by decide) (by decide) (fun h => absurd h (by decide)) (fun h => absurd h (by decide))
  rw [if_neg c14]
  by_cases c15 : c = '['
  · subst c15; rw [if_pos rfl]; exact punct_one _ _ _ (by decide) (by decide) (by decide) (fun h => absurd h (by decide)) (fun h => absurd h (by decide))
  rw [if_neg c15]
  by_cases c16 : c = ']'
  · subst c16; rw [if_pos rfl]; exact punct_one _ _ _ (by decide) (by decide) (by decide) (fun h => absurd h (by decide)) (fun h => absurd h (by decide))
  rw [if_neg c16]
  by_cases c17 : c = '-'
  · subst c17; rw [if_pos rfl]; exact punct_one _ _ _ (by decide) (by decide) (by decide) (fun h => absurd h (by decide)) (fun h => absurd h (by decide))
  rw [if_neg c17]
  by_cases c18 : c = '+'
  · subst c18; rw [if_pos rfl]; exact punct_one _ _ _ (by decide) (by decide) (by decide) (fun h => absurd h (by decide)) (fun h => absurd h (by decide))
  rw [if_neg c18]
  by_cases c19 : c = '*'
  · subst c19; rw [if_pos rfl]; exact punct_one _ _ _ (by decide) (by decide) (by decide) (fun h => absurd h (by decide)) (fun h => absurd h (by decide))
  rw [if_neg c19]
  by_cases c20 : c = '^'
  · subst c20; rw [if_pos rfl]; exact punct_one _ _ _ (by decide) (by decide) (by decide) (fun h => absurd h (by decide)) (fun h => absurd h (by decide))
  rw [if_neg c20]
  by_cases c21 : c = '%'
  · subst c21; rw [if_pos rfl]; exact punct_one _ _ _ (by decide) (by decide) (by decide) (fun h => absurd h (by decide)) (fun h => absurd h (by decide))
  rw [if_neg c21]
  refine .inl ⟨rfl, rfl, .inl ?_⟩
  simp only [opChars, List.mem_cons, List.not_mem_nil, or_false]
  intro h
  rcases h with h | h | h | h | h | h | h | h | h | h | h | h | h | h | h | h | h | h | h | h | h <;> contradiction

theorem takeWhile_all (p : Char → Bool) (l : Text) : (l.takeWhile p).all p = true := by
  induction l with
  | nil => rfl
  | cons x r ih =>
    simp only [List.takeWhile]
    cases hx : p x with
    | true => simp [hx, ih]
    | false => rfl

theorem dropWhile_head (p : Char → Bool) (l : Text) (x : Char) (h : (l.dropWhile p).head? = some x) : p x = false := by
  induction l with
  | nil => simp at h
  | cons y r ih =>
    simp only [List.dropWhile] at h
    cases hy : p y with
    | true => rw [hy] at h; exact ih h
    | false =>
      rw [hy] at h
      simp only [List.head?_cons, Option.some.injEq] at h
      subst h; exact hy

theorem lineBody_no_nl (cs : Text) : '\n' ∉ lineBody cs := by
  unfold lineBody
  induction cs with
  | nil => simp
  | cons c t ih =>
    simp only [List.takeWhile]
    by_cases hc : c = '\n'
    · subst hc; simp
    · simp only [ne_eq, hc, not_false_eq_true, decide_true, List.mem_cons, not_or]
      exact ⟨fun e => hc e.symm, ih⟩

theorem skipLine_head (cs : Text) : (skipLine cs).head? = none ∨ (skipLine cs).head? = some '\n' := by
  induction cs with
  | nil => exact .inl rfl
  | cons c t ih =>
    simp only [skipLine]
    by_cases hc : c = '\n'
    · subst hc; exact .inr rfl
    · simp only [ne_eq, hc, not_false_eq_true, ↓reduceIte]; exact ih

/-- a character the tokenizer cannot read at this place: it starts no word, number, string, separator
    or operator (a lone `&` or `|` included) -/
def Unknown (cc : CharClass) (c : Char) (nx : Option Char) : Prop :=
  identStart cc c = false ∧ isDigit c = false ∧ c ≠ '"' ∧ isWs c = false ∧
  (c ∉ opChars ∨ (c = '&' ∧ nx ≠ some '&') ∨ (c = '|' ∧ nx ≠ some '|'))

/-- the source text of an illegal token: an unterminated string (a quote and the whole rest of the
    text, without any closing quote), or one unknown character -/
def IllegalRaw (cc : CharClass) (raw : Text) (nx : Option Char) : Prop :=
  (∃ a, raw = '"' :: a ∧ scanStr a false = (a, []) ∧ nx = none) ∨ (∃ c, raw = [c] ∧ Unknown cc c nx)

/-- WHAT A SPAN IS (`nx` = the character that follows it in the text):
    * a separator span is one whitespace character, or `//` up to (not including) the line end;
    * a token span other than the illegal token is EXACTLY the spelling `t.text` of its token
      (identifier/keyword/number: the token's text is the span; operator: its spelling; string: quote,
      raw content, quote), the token is well formed (`LR.WFTok`), and the span is MAXIMAL
      (`LR.NoClash`: no identifier character after a word, no digit after a number, no `.` after an
      integer, no `=` after `=`/`!`/`<`/`>`, no `/` after `/`);
    * the span of the illegal token is an unterminated string or one unknown character. -/
def SpanOK (cc : CharClass) (nx : Option Char) : Span → Prop
  | .ws c => isWs c = true
  | .comment b => '\n' ∉ b ∧ (nx = none ∨ nx = some '\n')
  | .tok t raw => (t = .illegal → IllegalRaw cc raw nx) ∧ (t ≠ .illegal → raw = t.text ∧ WFTok cc t ∧ NoClash cc t nx)

theorem wf_of_kw (cc : CharClass) (t : Token) (hw : t.isWord = true) (hn : ∀ s, t ≠ .ident s) : WFTok cc t := by
  cases t <;> first | trivial | exact absurd rfl (hn _) | exact absurd hw (by decide)

theorem wf_of_op (cc : CharClass) (t : Token) (ho : isOp t = true) : WFTok cc t := by
  cases t <;> first | trivial | exact absurd ho (by simp [isOp, Token.isWord, Token.isNum])

theorem noClash_word (cc : CharClass) (t : Token) (nx : Option Char) (hw : t.isWord = true)
    (h : ∀ x, nx = some x → identCont cc x = false) : NoClash cc t nx := by
  cases nx with
  | none => trivial
  | some x =>
    refine ⟨fun _ => h x rfl, ?_, ?_, ?_, ?_⟩
    · intro hn; cases t <;> simp [Token.isWord, Token.isNum] at hw hn
    · rintro ⟨s, rfl⟩; simp [Token.isWord] at hw
    · rintro (rfl | rfl | rfl | rfl) <;> simp [Token.isWord] at hw
    · rintro rfl; simp [Token.isWord] at hw

theorem noClash_int (cc : CharClass) (s : Text) (nx : Option Char)
    (h : ∀ x, nx = some x → isDigit x = false ∧ x ≠ '.') : NoClash cc (.int s) nx := by
  cases nx with
  | none => trivial
  | some x =>
    refine ⟨?_, fun _ => (h x rfl).1, fun _ => (h x rfl).2, ?_, ?_⟩
    · intro hw; simp [Token.isWord] at hw
    · rintro (h | h | h | h) <;> cases h
    · intro h; cases h

theorem noClash_float (cc : CharClass) (s : Text) (nx : Option Char)
    (h : ∀ x, nx = some x → isDigit x = false) : NoClash cc (.float s) nx := by
  cases nx with
  | none => trivial
  | some x =>
    refine ⟨?_, fun _ => h x rfl, ?_, ?_, ?_⟩
    · intro hw; simp [Token.isWord] at hw
    · rintro ⟨s', h⟩; cases h
    · rintro (h | h | h | h) <;> cases h
    · intro h; cases h

theorem noClash_str (cc : CharClass) (s : Text) (nx : Option Char) : NoClash cc (.str s) nx := by
  cases nx with
  | none => trivial
  | some x =>
    refine ⟨?_, ?_, ?_, ?_, ?_⟩
    · intro hw; simp [Token.isWord] at hw
    · intro hw; simp [Token.isNum] at hw
    · rintro ⟨s', h⟩; cases h
    · rintro (h | h | h | h) <;> cases h
    · intro h; cases h

theorem noClash_op (cc : CharClass) (t : Token) (nx : Option Char) (ho : isOp t = true)
    (h1 : (t = .assign ∨ t = .bang ∨ t = .lt ∨ t = .gt) → nx ≠ some '=') (h2 : t = .slash → nx ≠ some '/') :
    NoClash cc t nx := by
  simp only [isOp, Bool.and_eq_true, Bool.not_eq_true'] at ho
  cases nx with
  | none => trivial
  | some x =>
    refine ⟨?_, ?_, ?_, ?_, ?_⟩
    · intro hw; rw [ho.1.1] at hw; cases hw
    · intro hn; rw [ho.1.2] at hn; cases hn
    · rintro ⟨s', rfl⟩; simp [Token.isNum] at ho
    · intro ht e; subst e; exact h1 ht rfl
    · intro ht e; subst e; exact h2 ht rfl

theorem take1_head (cs : Text) : cs.take 1 = cs.head?.toList := by
  cases cs <;> simp

/-- EVERY STEP'S SPAN IS WHAT IT SHOULD BE -/
theorem nextSpan_ok (cc : CharClass) (cs : Text) (s : Span) (rest : Text) (h : nextSpan cc cs = some (s, rest)) :
    SpanOK cc rest.head? s := by
  cases cs with
  | nil => simp [nextSpan] at h
  | cons c t =>
    rw [nextSpan] at h
    split at h
    · -- word
      rename_i hs
      simp only [Option.some.injEq, Prod.mk.injEq] at h
      obtain ⟨h1, h2⟩ := h; subst h1 h2
      obtain ⟨k1, k2, k3⟩ := kw_spec (c :: t.takeWhile (identCont cc))
      refine ⟨fun e => ?_, fun _ => ⟨k2.symm, ?_, noClash_word cc _ _ k1 (fun x hx => dropWhile_head _ _ x hx)⟩⟩
      · rw [e] at k1; exact absurd k1 (by decide)
      · rcases k3 with k3 | k3
        · rw [k3]
          exact ⟨⟨c, _, rfl, hs, takeWhile_all _ _⟩, k3⟩
        · exact wf_of_kw cc _ k1 k3
    · split at h
      · -- number
        rename_i hd
        rcases hx : scanNum t false with ⟨a1, r1, d1⟩
        rw [hx] at h
        simp only [Option.some.injEq, Prod.mk.injEq] at h
        obtain ⟨h1, h2⟩ := h; subst h1 h2
        rcases scanNum_false t a1 r1 d1 hx with ⟨i1, i2, i3⟩ | ⟨i1, ⟨x1, b, e, i2, i3⟩, i4⟩
        · subst i1
          refine ⟨fun e => by simp at e, fun _ => ⟨by simp [Token.text], ?_, ?_⟩⟩
          · simp only [Bool.false_eq_true, ↓reduceIte]
            exact ⟨c, a1, rfl, hd, i2⟩
          · simp only [Bool.false_eq_true, ↓reduceIte]
            exact noClash_int cc _ _ i3
        · subst i1 e
          refine ⟨fun e => by simp at e, fun _ => ⟨by simp [Token.text], ?_, ?_⟩⟩
          · simp only [↓reduceIte]
            exact ⟨c, x1, b, by simp, hd, i2, i3⟩
          · simp only [↓reduceIte]
            exact noClash_float cc _ _ i4
      · split at h
        · -- string
          rcases hx : scanStr t false with ⟨a1, r1⟩
          rw [hx] at h
          cases r1 with
          | nil =>
            simp only [Option.some.injEq, Prod.mk.injEq] at h
            obtain ⟨h1, h2⟩ := h; subst h1 h2
            have := scanStr_open t false a1 hx
            subst this
            exact ⟨fun _ => .inl ⟨_, rfl, hx, rfl⟩, fun e => absurd rfl e⟩
          | cons q r2 =>
            simp only [Option.some.injEq, Prod.mk.injEq] at h
            obtain ⟨h1, h2⟩ := h; subst h1 h2
            have hq := scanStr_rest t false a1 q r2 hx
            subst hq
            refine ⟨fun e => (by cases e), fun _ => ⟨by simp [Token.text], ?_, noClash_str cc _ _⟩⟩
            exact scanStr_closed t false a1 r2 hx
        · split at h
          · -- whitespace
            rename_i hw
            simp only [Option.some.injEq, Prod.mk.injEq] at h
            obtain ⟨h1, h2⟩ := h; subst h1 h2
            exact hw
          · split at h
            · -- comment
              simp only [Option.some.injEq, Prod.mk.injEq] at h
              obtain ⟨h1, h2⟩ := h; subst h1 h2
              exact ⟨lineBody_no_nl _, skipLine_head _⟩
            · -- operator, punctuation, unknown character
              rename_i hs hd hq hw hcm
              rcases hx : punct c t.head? with ⟨t1, two⟩
              rw [hx] at h
              simp only [Option.some.injEq, Prod.mk.injEq] at h
              obtain ⟨h1, h2⟩ := h; subst h1 h2
              have hp := punct_spec c t.head?
              rw [hx] at hp
              simp only at hp
              rcases hp with ⟨p1, p2, p3⟩ | ⟨p1, p2, ⟨p3, p4, p5, p6⟩ | ⟨p3, d, p4, p5, p6, p7⟩⟩
              · subst p1 p2
                refine ⟨fun _ => .inr ⟨c, by simp, ?_, ?_, hq, ?_, by simpa using p3⟩, fun e => absurd rfl e⟩
                · simpa using hs
                · simpa using hd
                · simpa using hw
              · subst p3
                refine ⟨fun e => ?_, fun _ => ⟨by simp [p4], wf_of_op cc _ p1, ?_⟩⟩
                · subst e; simp [isOp] at p1
                · simp only [Bool.false_eq_true, ↓reduceIte]
                  refine noClash_op cc _ _ p1 p5 (fun e hn => hcm ?_)
                  simp [p6 e, hn]
              · subst p3
                refine ⟨fun e => ?_, fun _ => ⟨?_, wf_of_op cc _ p1, ?_⟩⟩
                · subst e; simp [isOp] at p1
                · simp [p5, take1_head, p4]
                · simp only [↓reduceIte]
                  exact noClash_op cc _ _ p1 (fun e => absurd e p6) (fun e => absurd e p7)

/-- all spans of a list are what they should be, each with the text that follows it -/
def SpansOK (cc : CharClass) : List Span → Prop
  | [] => True
  | s :: r => SpanOK cc (r.flatMap Span.raw).head? s ∧ SpansOK cc r

/-- EVERY SPAN OF EVERY TEXT IS: a whitespace character, a comment, the exact maximal spelling of a
    well-formed token, or an illegal token's unreadable text -/
theorem lexSpans_ok (cc : CharClass) (src : Text) : SpansOK cc (lexSpans cc src) := by
  induction src using span_induction cc with
  | hnil => rw [lexSpans_nil]; trivial
  | hstep cs s rest h ih =>
    rw [lexSpans_cons cc cs s rest h]
    refine ⟨?_, ih⟩
    rw [lexSpans_concat]
    exact nextSpan_ok cc cs s rest h

theorem spansOK_at (cc : CharClass) (A : List Span) (s : Span) (B : List Span) (h : SpansOK cc (A ++ s :: B)) :
    SpanOK cc (B.flatMap Span.raw).head? s := by
  induction A with
  | nil => exact h.1
  | cons a A ih => exact ih h.2

theorem spansOK_mem (cc : CharClass) (l : List Span) (s : Span) (h : SpansOK cc l) (hm : s ∈ l) : ∃ nx, SpanOK cc nx s := by
  obtain ⟨A, B, e⟩ := List.append_of_mem hm
  subst e
  exact ⟨_, spansOK_at cc A s B h⟩

/-- the text around a span -/
theorem lexSpans_split (cc : CharClass) (src : Text) (A : List Span) (s : Span) (B : List Span)
    (h : lexSpans cc src = A ++ s :: B) : src = A.flatMap Span.raw ++ s.raw ++ B.flatMap Span.raw := by
  have := lexSpans_concat cc src
  rw [h] at this
  rw [← this]; simp

/-- the span of every token is the token's spelling, well formed and maximal; of the illegal token: unreadable text -/
theorem lexSpans_at (cc : CharClass) (src : Text) (A : List Span) (s : Span) (B : List Span)
    (h : lexSpans cc src = A ++ s :: B) : SpanOK cc (B.flatMap Span.raw).head? s := by
  have := lexSpans_ok cc src
  rw [h] at this
  exact spansOK_at cc A s B this

/-- EVERY CHARACTER OF THE TEXT LIES IN EXACTLY ONE SPAN: position `i` is covered by the span that
    starts at the total length of the spans before it -/
theorem cover_list (l : List Span) (i : Nat) (hi : i < (l.flatMap Span.raw).length) (hne : ∀ s ∈ l, s.raw ≠ []) :
    ∃ A s B, l = A ++ s :: B ∧ (A.flatMap Span.raw).length ≤ i ∧ i < (A.flatMap Span.raw).length + s.raw.length := by
  induction l generalizing i with
  | nil => simp at hi
  | cons a r ih =>
    simp only [List.flatMap_cons, List.length_append] at hi
    by_cases h : i < a.raw.length
    · exact ⟨[], a, r, rfl, by simp, by simpa using h⟩
    · obtain ⟨A, s, B, e, h1, h2⟩ := ih (i - a.raw.length) (by omega) (fun s hs => hne s (List.mem_cons_of_mem _ hs))
      refine ⟨a :: A, s, B, by rw [e]; rfl, ?_, ?_⟩
      · simp only [List.flatMap_cons, List.length_append]; omega
      · simp only [List.flatMap_cons, List.length_append]; omega

theorem lexSpans_raw_ne_nil (cc : CharClass) (src : Text) : ∀ s ∈ lexSpans cc src, s.raw ≠ [] := by
  induction src using span_induction cc with
  | hnil => rw [lexSpans_nil]; simp
  | hstep cs s rest h ih =>
    rw [lexSpans_cons cc cs s rest h]
    intro x hx
    rcases List.mem_cons.mp hx with e | hx
    · subst e; exact raw_ne_nil cc cs _ rest h
    · exact ih x hx

theorem lexSpans_cover (cc : CharClass) (src : Text) (i : Nat) (hi : i < src.length) :
    ∃ A s B, lexSpans cc src = A ++ s :: B ∧ (A.flatMap Span.raw).length ≤ i ∧ i < (A.flatMap Span.raw).length + s.raw.length :=
  cover_list _ i (by rw [lexSpans_concat]; exact hi) (lexSpans_raw_ne_nil cc src)

/-- the spans after any span boundary are the spans of the remaining text -/
theorem lexSpans_suffix (cc : CharClass) (A : List Span) : ∀ (src : Text) (B : List Span), lexSpans cc src = A ++ B →
    lexSpans cc (B.flatMap Span.raw) = B := by
  induction A with
  | nil =>
    intro src B h
    have := lexSpans_concat cc src
    rw [h] at this
    simp only [List.nil_append] at this h
    rw [this]; exact h
  | cons a A ih =>
    intro src B h
    cases hn : nextSpan cc src with
    | none => rw [lexSpans_unfold, hn] at h; cases h
    | some q =>
      obtain ⟨s, rest⟩ := q
      rw [lexSpans_cons cc src s rest hn] at h
      simp only [List.cons_append, List.cons.injEq] at h
      exact ih rest B h.2

/-! ## readable and unreadable text -/

/-- a readable span: a whitespace character, a comment, or the exact spelling of a well-formed token -/
def Span.Clean (cc : CharClass) : Span → Prop
  | .ws c => isWs c = true
  | .comment b => '\n' ∉ b
  | .tok t raw => t ≠ .illegal ∧ raw = t.text ∧ WFTok cc t

/-- SEPARATORS ARE ONLY WHITESPACE AND COMMENTS; everything else is a token: every span is readable,
    or it is the span of an illegal token -/
theorem lexSpans_clean_or_illegal (cc : CharClass) (src : Text) (s : Span) (hs : s ∈ lexSpans cc src) :
    s.Clean cc ∨ ∃ raw, s = .tok .illegal raw := by
  obtain ⟨nx, h⟩ := spansOK_mem cc _ s (lexSpans_ok cc src) hs
  cases s with
  | ws c => exact .inl h
  | comment b => exact .inl h.1
  | tok t raw =>
    by_cases ht : t = .illegal
    · subst ht; exact .inr ⟨raw, rfl⟩
    · exact .inl ⟨ht, (h.2 ht).1, (h.2 ht).2.1⟩

theorem illegal_mem_iff (cc : CharClass) (src : Text) : Token.illegal ∈ lex cc src ↔ ∃ raw, Span.tok .illegal raw ∈ lexSpans cc src := by
  rw [← tokensOf_lexSpans, mem_tokensOf]

/-- a text without illegal token consists of whitespace, comments and spellings of well-formed tokens only -/
theorem clean_of_no_illegal (cc : CharClass) (src : Text) (h : Token.illegal ∉ lex cc src) :
    ∀ s ∈ lexSpans cc src, s.Clean cc := by
  intro s hs
  rcases lexSpans_clean_or_illegal cc src s hs with hc | ⟨raw, e⟩
  · exact hc
  · subst e; exact absurd ((illegal_mem_iff cc src).mpr ⟨raw, hs⟩) h

/-- an illegal token in `lex cc src` stems from an unreadable piece of the text: `src = pre ++ raw ++ post`
    with `raw` an unterminated string (then `post = []`) or one unknown character -/
theorem illegal_source (cc : CharClass) (src : Text) (h : Token.illegal ∈ lex cc src) :
    ∃ pre raw post, src = pre ++ raw ++ post ∧ IllegalRaw cc raw post.head? := by
  obtain ⟨raw, hm⟩ := (illegal_mem_iff cc src).mp h
  obtain ⟨A, B, e⟩ := List.append_of_mem hm
  refine ⟨_, raw, _, lexSpans_split cc src A _ B e, ?_⟩
  exact (lexSpans_at cc src A _ B e).1 rfl

/-- the tokenizer never produces the end marker (end of input is `none`) -/
theorem lex_no_eof (cc : CharClass) (src : Text) : Token.eof ∉ lex cc src := by
  intro h
  rw [← tokensOf_lexSpans, mem_tokensOf] at h
  obtain ⟨raw, hm⟩ := h
  obtain ⟨nx, hok⟩ := spansOK_mem cc _ _ (lexSpans_ok cc src) hm
  exact (hok.2 (by decide)).2.1

/-- every token of any text, other than the illegal token, is well formed -/
theorem lex_wf (cc : CharClass) (src : Text) (t : Token) (ht : t ∈ lex cc src) (hi : t ≠ .illegal) : WFTok cc t := by
  rw [← tokensOf_lexSpans, mem_tokensOf] at ht
  obtain ⟨raw, hm⟩ := ht
  obtain ⟨nx, hok⟩ := spansOK_mem cc _ _ (lexSpans_ok cc src) hm
  exact (hok.2 hi).2.1

theorem punct_unknown (c : Char) (nx : Option Char)
    (h : c ∉ opChars ∨ (c = '&' ∧ nx ≠ some '&') ∨ (c = '|' ∧ nx ≠ some '|')) : punct c nx = (.illegal, false) := by
  rcases h with h | ⟨rfl, h⟩ | ⟨rfl, h⟩
  · have hp := punct_spec c nx
    rcases hp with ⟨p1, p2, _⟩ | ⟨_, p2, _⟩
    · exact Prod.ext p1 p2
    · exact absurd p2 h
  · simp [punct, h]
  · simp [punct, h]

/-- an unknown character at a span boundary becomes the illegal token -/
theorem nextSpan_unknown (cc : CharClass) (c : Char) (post : Text) (h : Unknown cc c post.head?) :
    nextSpan cc (c :: post) = some (.tok .illegal [c], post) := by
  obtain ⟨h1, h2, h3, h4, h5⟩ := h
  have h6 : c ≠ '/' := by
    rcases h5 with h | ⟨rfl, _⟩ | ⟨rfl, _⟩
    · intro e; subst e; exact h (by decide)
    · decide
    · decide
  rw [nextSpan]
  simp [h1, h2, h3, h4, h6, punct_unknown c _ h5]

/-- CONSEQUENTLY: if, at a span boundary of the text (`lexSpans cc src = A ++ B`), the remaining text
    starts with a character that is not whitespace, starts no comment, no word, no number, no string
    and no operator, then `lex cc src` contains the illegal token -/
theorem unknown_char_illegal (cc : CharClass) (src : Text) (A B : List Span) (c : Char) (post : Text)
    (h : lexSpans cc src = A ++ B) (hB : B.flatMap Span.raw = c :: post) (hu : Unknown cc c post.head?) :
    Token.illegal ∈ lex cc src := by
  have hs := lexSpans_suffix cc A src B h
  rw [hB, lexSpans_cons cc _ _ _ (nextSpan_unknown cc c post hu)] at hs
  rw [illegal_mem_iff, h, ← hs]
  exact ⟨[c], by simp⟩

/-- an unterminated string becomes the illegal token -/
theorem nextSpan_unterminated (cc : CharClass) (hq : identStart cc '"' = false) (a : Text) (h : scanStr a false = (a, [])) :
    nextSpan cc ('"' :: a) = some (.tok .illegal ('"' :: a), []) := by
  rw [nextSpan]
  simp [hq, h, show isDigit '"' = false by decide]

/-- likewise for a quote at a span boundary without a closing quote in the rest of the text -/
theorem unterminated_illegal (cc : CharClass) (hq : identStart cc '"' = false) (src : Text) (A B : List Span) (a : Text)
    (h : lexSpans cc src = A ++ B) (hB : B.flatMap Span.raw = '"' :: a) (hu : scanStr a false = (a, [])) :
    Token.illegal ∈ lex cc src := by
  have hs := lexSpans_suffix cc A src B h
  rw [hB, lexSpans_cons cc _ _ _ (nextSpan_unterminated cc hq a hu)] at hs
  rw [illegal_mem_iff, h, ← hs]
  exact ⟨'"' :: a, by simp⟩

theorem identStart_quote (cc : CharClass) (h : CCWF cc) : identStart cc '"' = false :=
  identStart_not_punct h '"' (by decide)

/-- EVERY CHARACTER IS ACCOUNTED FOR: each position of the text lies in one span of the tokenizer's
    decomposition, and that span is a whitespace character, a comment, the exact spelling of a
    well-formed token — or the unreadable text of an illegal token, which then is in `lex cc src` -/
theorem char_accounted (cc : CharClass) (src : Text) (i : Nat) (hi : i < src.length) :
    ∃ A s B, lexSpans cc src = A ++ s :: B ∧
      (A.flatMap Span.raw).length ≤ i ∧ i < (A.flatMap Span.raw).length + s.raw.length ∧
      (s.Clean cc ∨ ((∃ raw, s = .tok .illegal raw) ∧ Token.illegal ∈ lex cc src)) := by
  obtain ⟨A, s, B, e, h1, h2⟩ := lexSpans_cover cc src i hi
  refine ⟨A, s, B, e, h1, h2, ?_⟩
  have hm : s ∈ lexSpans cc src := by rw [e]; simp
  rcases lexSpans_clean_or_illegal cc src s hm with hc | ⟨raw, hr⟩
  · exact .inl hc
  · subst hr
    exact .inr ⟨⟨raw, rfl⟩, (illegal_mem_iff cc src).mpr ⟨raw, hm⟩⟩

/-- separator spans -/
def Span.isSep : Span → Prop
  | .ws _ => True
  | .comment _ => True
  | .tok _ _ => False

/-- ONE CALL OF `Tokenizer::next` (the model's `nextToken`) consumes exactly: separator spans, then
    the source text of the token it returns; what it hands back is the text after that -/
theorem tok_consumes (cc : CharClass) (cs : Text) : ∀ (t : Token) (rest : Text), tok cc cs = some (t, rest) →
    ∃ seps raw, lexSpans cc cs = seps ++ Span.tok t raw :: lexSpans cc rest ∧ (∀ s ∈ seps, s.isSep) ∧
      cs = seps.flatMap Span.raw ++ raw ++ rest := by
  induction cs using span_induction cc with
  | hnil => intro t rest h; rw [tok_nil] at h; cases h
  | hstep cs s rest0 hn ih =>
    intro t rest h
    rw [tok_nextSpan, hn] at h
    have hraw := nextSpan_raw cc cs s rest0 hn
    cases s with
    | tok t' raw =>
      simp only [Option.some.injEq, Prod.mk.injEq] at h
      obtain ⟨h1, h2⟩ := h; subst h1 h2
      exact ⟨[], raw, by rw [lexSpans_cons cc cs _ _ hn]; rfl, by simp, by rw [← hraw]; simp [Span.raw]⟩
    | ws c =>
      simp only at h
      obtain ⟨seps, raw, e1, e2, e3⟩ := ih t rest h
      refine ⟨.ws c :: seps, raw, by rw [lexSpans_cons cc cs _ _ hn, e1]; rfl, ?_, ?_⟩
      · intro x hx
        rcases List.mem_cons.mp hx with rfl | hx
        · trivial
        · exact e2 x hx
      · rw [← hraw, e3]; simp [Span.raw]
    | comment b =>
      simp only at h
      obtain ⟨seps, raw, e1, e2, e3⟩ := ih t rest h
      refine ⟨.comment b :: seps, raw, by rw [lexSpans_cons cc cs _ _ hn, e1]; rfl, ?_, ?_⟩
      · intro x hx
        rcases List.mem_cons.mp hx with rfl | hx
        · trivial
        · exact e2 x hx
      · rw [← hraw, e3]; simp [Span.raw]

/-- end of input is signalled only when nothing but separators is left -/
theorem tok_none_seps (cc : CharClass) (cs : Text) : tok cc cs = none → ∀ s ∈ lexSpans cc cs, s.isSep := by
  induction cs using span_induction cc with
  | hnil => intro _; rw [lexSpans_nil]; simp
  | hstep cs s rest0 hn ih =>
    intro h
    rw [tok_nextSpan, hn] at h
    rw [lexSpans_cons cc cs s rest0 hn]
    cases s with
    | tok t' raw => cases h
    | ws c =>
      intro x hx
      rcases List.mem_cons.mp hx with rfl | hx
      · trivial
      · exact ih h x hx
    | comment b =>
      intro x hx
      rcases List.mem_cons.mp hx with rfl | hx
      · trivial
      · exact ih h x hx

/-! ## keywords only as whole words, maximal munch -/

/-- THE SPAN OF A WORD IS MAXIMAL: the span of an identifier or keyword token is the token's spelling,
    consists of an identifier start and identifier characters, the token is `keywordOrIdent` of the
    whole span, and the character after the span is not an identifier character (so a keyword is
    recognised only as a whole word, and never inside a longer word) -/
theorem word_span_maximal (cc : CharClass) (src : Text) (A : List Span) (t : Token) (raw : Text) (B : List Span)
    (h : lexSpans cc src = A ++ .tok t raw :: B) (hw : t.isWord = true) :
    src = A.flatMap Span.raw ++ raw ++ B.flatMap Span.raw ∧ raw = t.text ∧
    ∀ x, (B.flatMap Span.raw).head? = some x → identCont cc x = false := by
  have hok := lexSpans_at cc src A _ B h
  have hi : t ≠ .illegal := by intro e; subst e; exact absurd hw (by decide)
  obtain ⟨h1, _, h3⟩ := hok.2 hi
  refine ⟨lexSpans_split cc src A _ B h, h1, fun x hx => ?_⟩
  rw [hx] at h3
  exact h3.1 hw

/-- likewise a number is maximal: no digit follows, and no `.` follows an integer -/
theorem num_span_maximal (cc : CharClass) (src : Text) (A : List Span) (t : Token) (raw : Text) (B : List Span)
    (h : lexSpans cc src = A ++ .tok t raw :: B) (hn : t.isNum = true) :
    raw = t.text ∧ ∀ x, (B.flatMap Span.raw).head? = some x → isDigit x = false ∧ ((∃ s, t = .int s) → x ≠ '.') := by
  have hok := lexSpans_at cc src A _ B h
  have hi : t ≠ .illegal := by intro e; subst e; exact absurd hn (by decide)
  obtain ⟨h1, _, h3⟩ := hok.2 hi
  refine ⟨h1, fun x hx => ?_⟩
  rw [hx] at h3
  exact ⟨h3.2.1 hn, h3.2.2.1⟩

/-! ## what cannot be read is rejected, never dropped -/

/-- WHAT CANNOT BE READ IS REJECTED: if the tokens of a text contain the illegal token (an unknown
    character, an unterminated string), the parser does not accept the text: it answers a syntax error
    — or the type error it has found in the tokens before (`ja = 1 @`), see `type_error_first` and
    `parse_illegal_sharp`. -/
theorem parse_illegal (cc : CharClass) (src : Text) (h : Token.illegal ∈ lex cc src) :
    parse cc src = .error .syntax ∨ parse cc src = .error .type := by
  obtain ⟨pre, rest, e⟩ := List.append_of_mem h
  have hne : Token.eof ∉ pre := by
    intro hm
    exact lex_no_eof cc src (by rw [e]; exact List.mem_append_left _ hm)
  unfold parse
  rw [e]
  exact parseTokens_illegal pre rest hne

/-- sharp form: the answer is a SYNTAX error, unless the tokens before the illegal token are a type
    error on their own, whatever follows them (then the parser answers that type error, which it has
    met strictly before the unreadable text) -/
theorem parse_illegal_sharp (cc : CharClass) (src : Text) (pre rest : List Token) (h : lex cc src = pre ++ .illegal :: rest) :
    parse cc src = .error .syntax ∨
    (parse cc src = .error .type ∧ ∀ rest', parseTokens (pre ++ rest') = .error .type) := by
  have hne : Token.eof ∉ pre := by
    intro hm
    exact lex_no_eof cc src (by rw [h]; exact List.mem_append_left _ hm)
  unfold parse
  rw [h]
  exact parseTokens_illegal_sharp pre rest hne

/-- in particular: if the tokens before the (first) illegal token do not already make a type error,
    the answer is the syntax error -/
theorem parse_illegal_syntax (cc : CharClass) (src : Text) (pre rest : List Token) (h : lex cc src = pre ++ .illegal :: rest)
    (hpre : parseTokens pre ≠ .error .type) : parse cc src = .error .syntax := by
  rcases parse_illegal_sharp cc src pre rest h with h1 | ⟨_, h2⟩
  · exact h1
  · have := h2 []
    rw [List.append_nil] at this
    exact absurd this hpre

/-- ... never accepted -/
theorem parse_illegal_not_ok (cc : CharClass) (src : Text) (h : Token.illegal ∈ lex cc src) (b : Block) :
    parse cc src ≠ .ok b := by
  rcases parse_illegal cc src h with e | e <;> rw [e] <;> intro h' <;> cases h'

/-- an accepted text consists of whitespace, comments and spellings of well-formed tokens only:
    the parser has seen every character of it that is not a separator -/
theorem parse_ok_clean (cc : CharClass) (src : Text) (b : Block) (h : parse cc src = .ok b) :
    Token.illegal ∉ lex cc src ∧ ∀ s ∈ lexSpans cc src, s.Clean cc := by
  have hn : Token.illegal ∉ lex cc src := fun hi => parse_illegal_not_ok cc src hi b h
  exact ⟨hn, clean_of_no_illegal cc src hn⟩

/-- the evaluation of such a text answers that error, and prints nothing -/
theorem evalText_illegal (cc : CharClass) (budget : Nat) (src : Text) (h : Token.illegal ∈ lex cc src) :
    evalText cc budget src = .error .syntax [] ∨ evalText cc budget src = .error .type [] := by
  unfold evalText
  rcases parse_illegal cc src h with e | e <;> rw [e]
  · exact .inl rfl
  · exact .inr rfl

/-- the answer is not always a SYNTAX error: the parser reports the first error it meets, and a type
    error (here: assignment to a literal) may come before the unreadable character -/
theorem type_error_first :
    lex CharClass.ascii "ja = 1 @".toList = [.kwTrue, .assign, .int ['1'], .illegal] ∧
    parse CharClass.ascii "ja = 1 @".toList = .error .type := by
  have h1 : lex CharClass.ascii "ja = 1 @".toList = [.kwTrue, .assign, .int ['1'], .illegal] := by decide
  refine ⟨h1, ?_⟩
  unfold parse
  rw [h1]
  rfl

end LC
end Nl
