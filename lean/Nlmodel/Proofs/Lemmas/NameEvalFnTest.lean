/- TESTS (non-vacuity) for `NameEvalFn`: both evaluators computed on a program with recursion, a local shadowing a global,
   a function passed as argument, missing and extra arguments.  (`decide +kernel` = kernel evaluation; tests only.) -/
import Nlmodel.Spec.NameEvalFn
import Nlmodel.Proofs.Lemmas.ResolveFn
namespace Nl
namespace NameEvalFn
open Spec

def tk : Text := "k".toList
def tn : Text := "n".toList
def tg : Text := "g".toList
def tx : Text := "x".toList
def ta : Text := "a".toList
def tb : Text := "b".toList
def tt : Text := "t".toList
def tfac : Text := "fac".toList
def tapply : Text := "apply".toList
def ttwo : Text := "two".toList
def tex : Text := "ex".toList

/-  stel k = 10
    functie fac(n) { stel k = n - 1;  als n < 2 { antwoord 1 };  n * fac(k) }     -- the local k shadows the global k
    functie apply(g, x) { g(x) }                                                  -- a function as argument
    stel two = functie(a, b) { a }                                                -- called with ONE argument
    functie ex(a) { stel t = a;  t }                                              -- called with TWO arguments (2 variables)
    apply(fac, 4) + two(7) + ex(5, 6) + k                                         -- 24 + 7 + 5 + 10 = 46 -/
def demoFn : Block :=
  .cons (.letS tk (.int 10))
  (.cons (.expr (.func tfac [tn]
    (.cons (.letS tk (.infix (.ident tn) .sub (.int 1)))
    (.cons (.expr (.ifE (.infix (.ident tn) .lt (.int 2)) (.cons (.ret (.int 1)) .nil) .none))
    (.cons (.expr (.infix (.ident tn) .mul (.call (.ident tfac) (.cons (.ident tk) .nil)))) .nil)))))
  (.cons (.expr (.func tapply [tg, tx] (.cons (.expr (.call (.ident tg) (.cons (.ident tx) .nil))) .nil)))
  (.cons (.letS ttwo (.func [] [ta, tb] (.cons (.expr (.ident ta)) .nil)))
  (.cons (.expr (.func tex [ta] (.cons (.letS tt (.ident ta)) (.cons (.expr (.ident tt)) .nil))))
  (.cons (.expr (.infix (.infix (.infix
      (.call (.ident tapply) (.cons (.ident tfac) (.cons (.int 4) .nil))) .add
      (.call (.ident ttwo) (.cons (.int 7) .nil))) .add
      (.call (.ident tex) (.cons (.int 5) (.cons (.int 6) .nil)))) .add
      (.ident tk))) .nil)))))

def obsInt : Spec.Outcome → Option (Int × List Text)
  | .value (.int i) out => some (i, out)
  | _ => none

/-- TEST: the program is in the stage-4 source fragment -/
theorem demoFn_src : SimF.srcTop demoFn = true := by decide +kernel

/-- TEST: the static rule accepts it -/
theorem demoFn_declared : declaredFn demoFn = true := by decide +kernel

/-- TEST: the name-based evaluator on the source tree -/
theorem demoFn_name_value : obsInt (NameEvalFn.evalProgram 60 demoFn) = some (46, []) := by decide +kernel

/-- TEST: the definitional evaluator on the resolver's output -/
theorem demoFn_spec_value : (match resolveProgram demoFn with
    | .ok r => obsInt (Spec.evalProgram 60 r)
    | .error _ => none) = some (46, []) := by decide +kernel

/-- TEST: three arguments for a function with two variables: argument error on both sides -/
def tooMany : Block :=
  .cons (.expr (.func tex [ta] (.cons (.letS tt (.ident ta)) (.cons (.expr (.ident tt)) .nil))))
  (.cons (.expr (.call (.ident tex) (.cons (.int 5) (.cons (.int 6) (.cons (.int 7) .nil))))) .nil)

def isArgErr : Spec.Outcome → Bool
  | .error .argument _ => true
  | _ => false

example : isArgErr (NameEvalFn.evalProgram 20 tooMany) = true := by decide +kernel
example : (match resolveProgram tooMany with | .ok r => isArgErr (Spec.evalProgram 20 r) | .error _ => false) = true := by
  decide +kernel

/-- TEST: LEXICAL, not dynamic: a later top-level re-declaration of `k` and a block-local `k` at the call site are NOT
    what the body of `f` sees:   stel k = 1;  functie f() { k };  stel k = 2;  { stel k = 3;  f() }   is 1 on both sides -/
def lexical : Block :=
  .cons (.letS tk (.int 1))
  (.cons (.expr (.func tfac [] (.cons (.expr (.ident tk)) .nil)))
  (.cons (.letS tk (.int 2))
  (.cons (.expr (.ifE (.bool true) (.cons (.letS tk (.int 3)) (.cons (.expr (.call (.ident tfac) .nil)) .nil)) .none)) .nil)))

example : obsInt (NameEvalFn.evalProgram 20 lexical) = some (1, []) := by decide +kernel
example : (match resolveProgram lexical with | .ok r => obsInt (Spec.evalProgram 20 r) | .error _ => none) = some (1, []) := by
  decide +kernel

/-- TEST: a body that uses a local of its caller is rejected:  functie f() { t };  functie ex(a) { stel t = a; f() } -/
def callerLocal : Block :=
  .cons (.expr (.func tfac [] (.cons (.expr (.ident tt)) .nil)))
  (.cons (.expr (.func tex [ta] (.cons (.letS tt (.ident ta)) (.cons (.expr (.call (.ident tfac) .nil)) .nil)))) .nil)

example : declaredFn callerLocal = false := by decide +kernel
example : (match resolveProgram callerLocal with | .error .reference => true | _ => false) = true := by decide +kernel

end NameEvalFn
end Nl
