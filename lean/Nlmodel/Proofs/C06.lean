/-
  C06 — operators are exact over the whole value range.
  Statements about `binopCore` (Model/Value), the operator semantics shared by the machine model
  and the definitional semantics.
-/
import Nlmodel.Model.Value
import Nlmodel.Proofs.Lemmas.FloatRound
import Nlmodel.Proofs.Lemmas.FloatRem
import Nlmodel.Proofs.Lemmas.Utf8All
import Nlmodel.Proofs.Lemmas.FloatSpecialTable
namespace Nl
namespace C06

def arith (op : BinOp) : Prop := op = .add ∨ op = .sub ∨ op = .mul ∨ op = .div ∨ op = .mod

/-- the mathematically exact result of an integer operator (`none`: zero divisor) -/
def exact (op : BinOp) (a b : Int) : Option Int :=
  match op with
  | .add => some (a + b) | .sub => some (a - b) | .mul => some (a * b)
  | .div => if b = 0 then none else some (Int.tdiv a b)
  | .mod => if b = 0 then none else some (Int.tmod a b)
  | _ => none

/-- + - * / % on integers: the exact result when it exists and lies in the 61-bit range, a type
    error otherwise — never a wrong value -/
theorem C06_int_arith_exact (op : BinOp) (a b : Int) (hop : arith op) :
    binopCore op (.int a) (.int b) =
      (match exact op a b with
       | some v => if inRange v then .ok (.int v) else .error .type
       | none => .error .type) := by
  rcases hop with rfl | rfl | rfl | rfl | rfl
  · simp only [binopCore, View.ty, BinOp.isArith, intArith, exact, ne_eq, not_true_eq_false, ↓reduceIte]
    by_cases h : inRange (a + b) = true <;> simp [h]
  · simp only [binopCore, View.ty, BinOp.isArith, intArith, exact, ne_eq, not_true_eq_false, ↓reduceIte]
    by_cases h : inRange (a - b) = true <;> simp [h]
  · simp only [binopCore, View.ty, BinOp.isArith, intArith, exact, ne_eq, not_true_eq_false, ↓reduceIte]
    by_cases h : inRange (a * b) = true <;> simp [h]
  · simp only [binopCore, View.ty, BinOp.isArith, intArith, exact, ne_eq, not_true_eq_false, ↓reduceIte]
    by_cases hb : b = 0
    · simp [hb]
    · by_cases h : inRange (Int.tdiv a b) = true <;> simp [hb, h]
  · simp only [binopCore, View.ty, BinOp.isArith, intArith, exact, ne_eq, not_true_eq_false, ↓reduceIte]
    by_cases hb : b = 0
    · simp [hb]
    · by_cases h : inRange (Int.tmod a b) = true <;> simp [hb, h]

/-- division truncates toward zero and the remainder has the sign of the dividend: the pair is
    characterised by `a = b*q + r`, `|r| < |b|`, `r` has the sign of `a` -/
theorem C06_div_mod_spec (a b : Int) (hb : b ≠ 0) :
    a = b * Int.tdiv a b + Int.tmod a b ∧ (Int.tmod a b).natAbs < b.natAbs
    ∧ (0 ≤ a → 0 ≤ Int.tmod a b) ∧ (a ≤ 0 → Int.tmod a b ≤ 0) := by
  refine ⟨(Int.mul_tdiv_add_tmod a b).symm, ?_, ?_, ?_⟩
  · rw [Int.natAbs_tmod]
    exact Nat.mod_lt _ (Int.natAbs_pos.mpr hb)
  · intro h; exact Int.tmod_nonneg b h
  · intro h
    have := Int.tmod_nonneg b (a := -a) (by omega)
    rw [Int.neg_tmod] at this
    omega

/-- the six comparisons on integers agree with the order of the integers -/
theorem int_cmp_aux (op : BinOp) (a b : Int) :
    cmpBy op (decide (a < b)) (a == b) =
      (match op with
       | .lt => decide (a < b) | .lte => decide (a ≤ b) | .gt => decide (a > b) | .gte => decide (a ≥ b)
       | .eq => decide (a = b) | .neq => decide (a ≠ b) | _ => false) := by
  have hb : (a == b) = decide (a = b) := rfl
  rw [hb]
  rcases Int.lt_trichotomy a b with h | h | h
  · have h2 : ¬ b < a := by omega
    have h3 : ¬ a = b := by omega
    have h4 : a ≤ b := by omega
    have h5 : ¬ b ≤ a := by omega
    cases op <;> simp [cmpBy, h, h2, h3, h4, h5]
  · subst h
    cases op <;> simp [cmpBy]
  · have h2 : ¬ a < b := by omega
    have h3 : ¬ a = b := by omega
    have h4 : ¬ a ≤ b := by omega
    have h5 : b ≤ a := by omega
    cases op <;> simp [cmpBy, h, h2, h3, h4, h5]

theorem C06_int_cmp (a b : Int) :
    binopCore .lt (.int a) (.int b) = .ok (.bool (decide (a < b))) ∧
    binopCore .lte (.int a) (.int b) = .ok (.bool (decide (a ≤ b))) ∧
    binopCore .gt (.int a) (.int b) = .ok (.bool (decide (a > b))) ∧
    binopCore .gte (.int a) (.int b) = .ok (.bool (decide (a ≥ b))) ∧
    binopCore .eq (.int a) (.int b) = .ok (.bool (decide (a = b))) ∧
    binopCore .neq (.int a) (.int b) = .ok (.bool (decide (a ≠ b))) := by
  refine ⟨?_, ?_, ?_, ?_, ?_, ?_⟩ <;>
    simp only [binopCore, View.ty, BinOp.isArith, ne_eq, not_true_eq_false, ↓reduceIte, Bool.false_eq_true,
      int_cmp_aux]

/-- operands of different type are an error for every operator except `&&`/`||` (which demand two
    booleans): never a value -/
theorem C06_mixed_types_error (op : BinOp) (l r : View) (h : l.ty ≠ r.ty) :
    binopCore op l r = .error .type := by
  cases op <;> simp only [binopCore, h, ne_eq, not_false_eq_true, ↓reduceIte]
  all_goals (cases l <;> cases r <;> first | rfl | (exact absurd rfl h))

/-- arithmetic on anything but two integers or two floats is an error -/
theorem C06_arith_unsupported (op : BinOp) (l r : View) (hop : arith op)
    (h : ¬ ((∃ a b, l = .int a ∧ r = .int b) ∨ (∃ a b, l = .float a ∧ r = .float b))) :
    binopCore op l r = .error .type := by
  by_cases ht : l.ty = r.ty
  · rcases hop with rfl | rfl | rfl | rfl | rfl <;>
      cases l <;> cases r <;>
      first
        | (exfalso; apply h; first | exact Or.inl ⟨_, _, rfl, rfl⟩ | exact Or.inr ⟨_, _, rfl, rfl⟩)
        | (exfalso; revert ht; simp [View.ty]; done)
        | rfl
  · exact C06_mixed_types_error op l r ht

/-! ### strings: lexicographic by code point, a strict total order -/

theorem textLt_irrefl (a : Text) : textLt a a = false := by
  induction a with
  | nil => rfl
  | cons c cs ih => simp [textLt, ih]

theorem textLt_trichotomy (a b : Text) : textLt a b = true ∨ a = b ∨ textLt b a = true := by
  induction a generalizing b with
  | nil => cases b <;> simp [textLt]
  | cons c cs ih =>
    cases b with
    | nil => simp [textLt]
    | cons d ds =>
      simp only [textLt]
      by_cases h1 : c.val < d.val
      · simp [h1]
      · by_cases h2 : c.val > d.val
        · have : d.val < c.val := h2
          simp [h1, h2, this]
        · have hcd : c = d := by
            apply Char.ext
            have := UInt32.le_antisymm (UInt32.not_lt.mp h2) (UInt32.not_lt.mp h1)
            exact this
          subst hcd
          simp only [h1, ↓reduceIte, List.cons.injEq, true_and]
          exact ih ds

theorem textLt_asymm (a b : Text) (h : textLt a b = true) : textLt b a = false := by
  induction a generalizing b with
  | nil => cases b <;> simp_all [textLt]
  | cons c cs ih =>
    cases b with
    | nil => simp [textLt] at h
    | cons d ds =>
      simp only [textLt] at h ⊢
      by_cases h1 : c.val < d.val
      · have : ¬ d.val < c.val := UInt32.not_lt.mpr (UInt32.le_of_lt h1)
        simp [h1, this]
      · simp only [h1, ↓reduceIte] at h
        by_cases h2 : c.val > d.val
        · simp [h2] at h
        · simp only [h2, ↓reduceIte] at h
          have h2' : ¬ d.val < c.val := h2
          simp only [h2', ↓reduceIte, gt_iff_lt, h1]
          exact ih ds h

theorem textLt_trans (a b c : Text) (h1 : textLt a b = true) (h2 : textLt b c = true) :
    textLt a c = true := by
  induction a generalizing b c with
  | nil =>
    cases b with
    | nil => simp [textLt] at h1
    | cons y ys => cases c with
      | nil => simp [textLt] at h2
      | cons z zs => simp [textLt]
  | cons x xs ih =>
    cases b with
    | nil => simp [textLt] at h1
    | cons y ys =>
      cases c with
      | nil => simp [textLt] at h2
      | cons z zs =>
        simp only [textLt] at h1 h2 ⊢
        by_cases hxy : x.val < y.val
        · by_cases hyz : y.val < z.val
          · have : x.val < z.val := UInt32.lt_trans hxy hyz
            simp [this]
          · simp only [hyz, ↓reduceIte] at h2
            by_cases hzy : y.val > z.val
            · simp [hzy] at h2
            · have : y.val = z.val := UInt32.le_antisymm (UInt32.not_lt.mp hzy) (UInt32.not_lt.mp hyz)
              rw [← this]; simp [hxy]
        · simp only [hxy, ↓reduceIte] at h1
          by_cases hyx : x.val > y.val
          · simp [hyx] at h1
          · simp only [hyx, ↓reduceIte] at h1
            have exy : x.val = y.val := UInt32.le_antisymm (UInt32.not_lt.mp hyx) (UInt32.not_lt.mp hxy)
            rw [exy]
            by_cases hyz : y.val < z.val
            · simp [hyz]
            · simp only [hyz, ↓reduceIte] at h2 ⊢
              by_cases hzy : y.val > z.val
              · simp [hzy] at h2
              · simp only [hzy, ↓reduceIte] at h2 ⊢
                exact ih ys zs h1 h2

/-- comparison of strings is the strict total order `textLt` and its derived relations -/
theorem C06_string_cmp (x y : Text) :
    binopCore .lt (.str x) (.str y) = .ok (.bool (textLt x y)) ∧
    binopCore .gt (.str x) (.str y) = .ok (.bool (textLt y x)) ∧
    binopCore .eq (.str x) (.str y) = .ok (.bool (decide (x = y))) := by
  refine ⟨?_, ?_, ?_⟩
  · simp [binopCore, View.ty, BinOp.isArith, cmpBy]
  · simp only [binopCore, View.ty, BinOp.isArith, cmpBy, ne_eq, not_true_eq_false, ↓reduceIte, Bool.false_eq_true]
    congr 2
    rcases textLt_trichotomy x y with h | h | h
    · have h' := textLt_asymm x y h
      have hne : ¬ x = y := by intro e; subst e; simp [textLt_irrefl] at h
      simp [h, h', hne]
    · subst h; simp [textLt_irrefl]
    · have h' := textLt_asymm y x h
      have hne : ¬ x = y := by intro e; subst e; simp [textLt_irrefl] at h
      simp [h, h', hne]
  · simp [binopCore, View.ty, BinOp.isArith, cmpBy, Bool.beq_eq_decide_eq]

/-- `&&` and `||` are defined on two booleans only -/
theorem C06_logic (op : BinOp) (hop : op = .and ∨ op = .or) (l r : View) :
    binopCore op l r = (match l, r with
      | .bool a, .bool b => .ok (.bool (if op = .and then a && b else a || b))
      | _, _ => .error .type) := by
  rcases hop with rfl | rfl <;> cases l <;> cases r <;> rfl

/-! ### floats: the exact model rounds correctly (IEEE-754 round to nearest, ties to even) — `Lemmas/FloatRound*.lean`

  Every finite binary64 magnitude `a` (bits without the sign) has the value `F64R.V a × 2^-1074`; `F64R.adist` is the
  distance of two naturals; `F64R.IsRN n d r` says: `r` is finite, no finite magnitude is nearer to `n/d` than `r`, and
  if another one is equally near, `r` is even. -/

/-- CORRECT ROUNDING: for every positive fraction `n/d`, the magnitude the model computes (`F64.roundMag`, used by
    every arithmetic operation, by `int -> float` and by decimal parsing) is, below the IEEE overflow threshold
    `2^1024 - 2^970`, THE correctly rounded one — nearest, ties to even, and it is the only magnitude with that
    property; from the threshold on it is infinity.  Normal and subnormal results, any size of `n` and `d`. -/
theorem C06_float_rounding_is_correct {n d : Nat} (hn : 0 < n) (hd : 0 < d) :
    (n < d * F64R.ovfThreshold ∧ F64R.IsRN n d (F64.roundMag n d) ∧ ∀ r, F64R.IsRN n d r → r = F64.roundMag n d) ∨
    (d * F64R.ovfThreshold ≤ n ∧ F64.roundMag n d = F64.infBits) :=
  F64R.roundMag_spec hn hd

/-- a value that is itself representable is returned exactly (no rounding) -/
theorem C06_float_exact_when_representable {n d a : Nat} (hd : 0 < d) (ha : a < F64.infBits)
    (h : n * 2 ^ 1074 = F64R.V a * d) : F64.roundMag n d = a :=
  F64R.roundMag_exact hd ha h

/-- the result depends on the rational number only, not on how the fraction is written -/
theorem C06_float_rounding_respects_equal_fractions {n d n' d' : Nat} (hd : 0 < d) (hd' : 0 < d') (h : n * d' = n' * d) :
    F64.roundMag n d = F64.roundMag n' d' :=
  F64R.roundMag_congr hd hd' h

/-- `*` on finite floats: the correctly rounded EXACT product, sign = xor of the signs -/
theorem C06_float_mul {x y : F64.Bits} (hx : F64.isFinite x = true) (hy : F64.isFinite y = true) :
    F64.mul x y = F64.ofRat (F64.isNeg x != F64.isNeg y) (F64R.mag x * F64R.mag y) (2 ^ 1074 * 2 ^ 1074) :=
  F64R.mul_finite hx hy

/-- `/` on finite floats with a non-zero divisor: the correctly rounded EXACT quotient -/
theorem C06_float_div {x y : F64.Bits} (hx : F64.isFinite x = true) (hy : F64.isFinite y = true) (hz : F64.isZero y = false) :
    F64.div x y = F64.ofRat (F64.isNeg x != F64.isNeg y) (F64R.mag x) (F64R.mag y) :=
  F64R.div_finite hx hy hz

/-- `+` on finite floats: the correctly rounded EXACT sum; an exact zero sum is `-0` only if both operands are negative -/
theorem C06_float_add {x y : F64.Bits} (hx : F64.isFinite x = true) (hy : F64.isFinite y = true) :
    F64.add x y = if F64R.sval x + F64R.sval y = 0 then F64.zero (F64.isNeg x && F64.isNeg y)
      else F64.ofRat (decide (F64R.sval x + F64R.sval y < 0)) (F64R.sval x + F64R.sval y).natAbs (2 ^ 1074) :=
  F64R.add_finite hx hy

/-- `-` likewise -/
theorem C06_float_sub {x y : F64.Bits} (hx : F64.isFinite x = true) (hy : F64.isFinite y = true) :
    F64.sub x y = if F64R.sval x - F64R.sval y = 0 then F64.zero (F64.isNeg x && !F64.isNeg y)
      else F64.ofRat (decide (F64R.sval x - F64R.sval y < 0)) (F64R.sval x - F64R.sval y).natAbs (2 ^ 1074) :=
  F64R.sub_finite hx hy

/-- what `ofRat` delivers: the requested sign and the correctly rounded magnitude, or infinity from the threshold on -/
theorem C06_float_ofRat (s : Bool) {n d : Nat} (hn : 0 < n) (hd : 0 < d) :
    F64.isNeg (F64.ofRat s n d) = s ∧
    ((n < d * F64R.ovfThreshold ∧ F64.isFinite (F64.ofRat s n d) = true ∧ F64R.IsRN n d (F64.absBits (F64.ofRat s n d))) ∨
     (d * F64R.ovfThreshold ≤ n ∧ F64.ofRat s n d = F64.inf s)) :=
  F64R.ofRat_spec s hn hd

/-- `%` on floats is EXACT (IEEE `fmod`): for finite operands and a non-zero divisor the remainder of the magnitudes
    (in units of 2^-1074) is itself representable, so no rounding happens; the result has the sign of the dividend -/
theorem C06_float_rem_exact {x y : F64.Bits} (hx : F64.isFinite x = true) (hy : F64.isFinite y = true) (hz : F64.isZero y = false) :
    ∃ a, a < F64.infBits ∧ F64R.V a = F64R.mag x % F64R.mag y ∧ F64.rem x y = F64.mk (F64.isNeg x) a :=
  F64R.rem_exact hx hy hz

/-- comparison of floats that are not NaN is the order of their exact values (so `-0 = +0`, and `<` is a strict
    total order on the non-NaN floats that agrees with the reals) -/
theorem C06_float_lt_is_value_order {x y : F64.Bits} (hx : F64.isNaN x = false) (hy : F64.isNaN y = false) :
    F64.lt x y = decide (F64R.sval x < F64R.sval y) ∧ F64.eq x y = decide (F64R.sval x = F64R.sval y) :=
  ⟨F64R.lt_eq_sval hx hy, F64R.eq_eq_sval hx hy⟩

/-- non-vacuity / regression anchors: the documented wrong answers of the pinned tree are errors or
    right answers in the model (these are tests, labelled as such) -/
example : binopCore .lt (.int (-1)) (.int 1) = .ok (.bool true) := by
  simp [binopCore, View.ty, BinOp.isArith, cmpBy]
example : binopCore .add (.int MAX_INT) (.int 1) = .error .type := by
  simp [binopCore, View.ty, BinOp.isArith, intArith, inRange, MAX_INT, MIN_INT]
example : binopCore .div (.int 1) (.int 0) = .error .type := by
  simp [binopCore, View.ty, BinOp.isArith, intArith]
example : binopCore .mod (.int (-7)) (.int 2) = .ok (.int (-1)) := by
  simp [binopCore, View.ty, BinOp.isArith, intArith, inRange, MAX_INT, MIN_INT]

/-! ### strings: the implementation compares BYTES (`str` ordering in Rust), the model compares code points -/

/-- UTF-8 preserves order: bytewise lexicographic `<` on the encodings is the model's lexicographic order by code
    point, for all texts -/
theorem C06_string_order_on_bytes (a b : Text) : Utf8.byteLt (Utf8.encode a) (Utf8.encode b) = textLt a b := Utf8.U6 a b

/-- all six comparison operators of the model on two texts are what the byte-level `<` and `==` give -/
theorem C06_string_comparisons_on_bytes (op : BinOp) (x y : Text) (h : op.isArith = false) (h' : op ≠ .and ∧ op ≠ .or) :
    binopCore op (.str x) (.str y) =
      .ok (.bool (cmpBy op (Utf8.byteLt (Utf8.encode x) (Utf8.encode y)) (Utf8.byteEq (Utf8.encode x) (Utf8.encode y)))) :=
  Utf8.binopCore_str_bytes op x y h h'

/-! ### floats: the SPECIAL values (session 7, `Lemmas/FloatSpecial*.lean`; audit item 9)

The theorems above are for finite operands.  For ALL bit patterns each operation is characterised (these tables restate the model's own
case analysis in terms of exact values `sval`/`mag`: they say WHAT THE MODEL COMPUTES on every input, in IEEE's vocabulary; that the
host FPU computes the same is the correspondence) by a complete case table over
(NaN, infinite, zero, sign), exactly the IEEE-754 rules: NaN propagates; `inf - inf`, `0 * inf`, `inf / inf`, `0 / 0`, `x % 0`,
`inf % y` are NaN; `x / 0` is an infinity with the xor of the signs; `x % inf = x`; a remainder has the sign of the dividend also
when it is zero; every comparison with a NaN is false except `!=`; `+0 == -0`; signed-zero results of sums, products, quotients. -/

open F64 FloatSpecial in
theorem C06_float_add_all_cases (x y : F64.Bits) : add x y =
    if isNaN x || isNaN y then canonNaN
    else if isInf x && isInf y then (if isNeg x = isNeg y then inf (isNeg x) else canonNaN)
    else if isInf x then inf (isNeg x) else if isInf y then inf (isNeg y)
    else if F64R.sval x + F64R.sval y = 0 then zero (isNeg x && isNeg y)
    else ofRat (decide (F64R.sval x + F64R.sval y < 0)) (F64R.sval x + F64R.sval y).natAbs (2 ^ 1074) :=
  add_cases x y

open F64 FloatSpecial in
theorem C06_float_sub_all_cases (x y : F64.Bits) : sub x y =
    if isNaN x || isNaN y then canonNaN
    else if isInf x && isInf y then (if isNeg x = isNeg y then canonNaN else inf (isNeg x))
    else if isInf x then inf (isNeg x) else if isInf y then inf (!isNeg y)
    else if F64R.sval x - F64R.sval y = 0 then zero (isNeg x && !isNeg y)
    else ofRat (decide (F64R.sval x - F64R.sval y < 0)) (F64R.sval x - F64R.sval y).natAbs (2 ^ 1074) :=
  sub_cases x y

open F64 FloatSpecial in
theorem C06_float_mul_all_cases (x y : F64.Bits) : mul x y =
    if isNaN x || isNaN y then canonNaN
    else if isInf x || isInf y then (if isZero x || isZero y then canonNaN else inf (isNeg x != isNeg y))
    else ofRat (isNeg x != isNeg y) (F64R.mag x * F64R.mag y) (2 ^ 1074 * 2 ^ 1074) :=
  mul_cases x y

open F64 FloatSpecial in
theorem C06_float_div_all_cases (x y : F64.Bits) : div x y =
    if isNaN x || isNaN y then canonNaN
    else if isInf x then (if isInf y then canonNaN else inf (isNeg x != isNeg y))
    else if isInf y then zero (isNeg x != isNeg y)
    else if isZero y then (if isZero x then canonNaN else inf (isNeg x != isNeg y))
    else ofRat (isNeg x != isNeg y) (F64R.mag x) (F64R.mag y) :=
  div_cases x y

open F64 FloatSpecial in
theorem C06_float_rem_all_cases (x y : F64.Bits) : rem x y =
    if isNaN x || isNaN y || isInf x || isZero y then canonNaN
    else if isInf y then x
    else ofRat (isNeg x) (F64R.mag x % F64R.mag y) (2 ^ 1074) :=
  rem_cases x y

/-- the six comparison OPERATORS of the language on floats with a NaN operand: all false, `!=` true -/
theorem C06_float_comparisons_with_nan {x y : F64.Bits} (h : F64.isNaN x = true ∨ F64.isNaN y = true) :
    binopCore .lt (.float x) (.float y) = .ok (.bool false) ∧ binopCore .lte (.float x) (.float y) = .ok (.bool false) ∧
    binopCore .gt (.float x) (.float y) = .ok (.bool false) ∧ binopCore .gte (.float x) (.float y) = .ok (.bool false) ∧
    binopCore .eq (.float x) (.float y) = .ok (.bool false) ∧ binopCore .neq (.float x) (.float y) = .ok (.bool true) :=
  FloatSpecial.S5_binopCore_nan h

/-- on non-NaN floats the comparisons are a trichotomy (exactly one of <, ==, > holds), -inf below and +inf above every finite value,
    and the two zeros are equal -/
theorem C06_float_order_trichotomy {x y : F64.Bits} (hx : F64.isNaN x = false) (hy : F64.isNaN y = false) :
    (F64.lt x y = true ∧ F64.eq x y = false ∧ F64.lt y x = false) ∨ (F64.lt x y = false ∧ F64.eq x y = true ∧ F64.lt y x = false) ∨
    (F64.lt x y = false ∧ F64.eq x y = false ∧ F64.lt y x = true) :=
  FloatSpecial.S5_trichotomy hx hy

end C06
end Nl
