/-
  Alpha-equivalence, part 2 (A1): the resolver commutes with a renaming.  Resolved trees contain no
  names (binder ids and slots only; `RExpr.str` is a string literal), so the resolved tree and the
  error are literally THE SAME; the final state is the image of the final state.
-/
import Nlmodel.Proofs.Lemmas.Alpha
namespace Nl
namespace Alpha

/-! ### the function-literal case, in named pieces -/

def fnPre (st : RState) (name : Text) : RState × Option Ref :=
  if name.isEmpty then (st, none) else ((st.define name).1, some (st.define name).2)

def fnEnter (st1 : RState) : RState :=
  { st1 with ctxs := { isGlobal := false } :: st1.ctxs, loopDepth := 0,
             funcDepth := st1.funcDepth + 1, nextFid := st1.nextFid + 1 }

def fnExit (st1 st4 : RState) : RState :=
  { st4 with ctxs := st4.ctxs.tail, loopDepth := st1.loopDepth, funcDepth := st1.funcDepth }

def nlOf (st4 : RState) : Nat := match st4.ctxs with | c :: _ => c.maxSize | [] => 0

theorem resolveE_func (name : Text) (ps : List Text) (body : Block) (st : RState) :
    resolveE (.func name ps body) st =
      match resolveB body (defineParams (fnEnter (fnPre st name).1) ps).1 with
      | .ok (b', st4) =>
        .ok (.func (fnPre st name).1.nextFid (fnPre st name).2
               (defineParams (fnEnter (fnPre st name).1) ps).2 (nlOf st4) b',
             fnExit (fnPre st name).1 st4)
      | .error e => .error e := by
  simp only [resolveE, fnPre]
  by_cases hn : name.isEmpty = true
  · simp only [hn, ↓reduceIte]; rfl
  · simp only [hn, Bool.false_eq_true, ↓reduceIte]; rfl

theorem mapSt_fnPre {f : Text → Text} (hf : Renaming f) (st : RState) (name : Text) :
    fnPre (mapSt f st) (f name) = (mapSt f (fnPre st name).1, (fnPre st name).2) := by
  unfold fnPre
  rw [hf.empty name]
  by_cases hn : name.isEmpty = true
  · simp only [hn, ↓reduceIte]
  · simp only [hn, Bool.false_eq_true, ↓reduceIte, mapSt_define]

theorem mapSt_fnEnter (f : Text → Text) (st : RState) : fnEnter (mapSt f st) = mapSt f (fnEnter st) := rfl

theorem mapSt_fnExit (f : Text → Text) (st1 st4 : RState) :
    fnExit (mapSt f st1) (mapSt f st4) = mapSt f (fnExit st1 st4) := by
  simp only [fnExit, mapSt, List.map_tail]

theorem mapSt_nlOf (f : Text → Text) (st : RState) : nlOf (mapSt f st) = nlOf st := by
  obtain ⟨ctxs, a, b, c, d⟩ := st
  cases ctxs <;> rfl

theorem mapSt_withLoop (f : Text → Text) (st : RState) (k : Nat) :
    { mapSt f st with loopDepth := k } = mapSt f { st with loopDepth := k } := rfl

/-! ### the call case: the builtin test of the callee -/

def calleeBi : Expr → Option Builtin
  | .ident n => Builtin.resolve n
  | _ => none

theorem resolveE_call (g : Expr) (as : Exprs) (st : RState) :
    resolveE (.call g as) st =
      match resolveEs as st with
      | .ok (as', st1) =>
        match calleeBi g with
        | some b => .ok (.callBuiltin b as', st1)
        | none =>
          match resolveE g st1 with
          | .ok (g', st2) => .ok (.call g' as', st2)
          | .error e => .error e
      | .error e => .error e := by
  cases g <;> simp only [resolveE, calleeBi] <;> rfl

theorem calleeBi_ren {f : Text → Text} (hf : Renaming f) (g : Expr) : calleeBi (renE f g) = calleeBi g := by
  cases g <;> simp only [renE, calleeBi, hf.builtin]

/-! ### (A1) the mutual induction -/

mutual
theorem aE {f : Text → Text} (hf : Renaming f) : (x : Expr) → (st : RState) →
    resolveE (renE f x) (mapSt f st) = liftR f (resolveE x st)
  | .bool _, st => by simp only [renE, resolveE, liftR]
  | .float _, st => by simp only [renE, resolveE, liftR]
  | .int _, st => by simp only [renE, resolveE, liftR]
  | .str _, st => by simp only [renE, resolveE, liftR]
  | .ident n, st => by
    simp only [renE, resolveE, mapSt_resolve hf]
    cases st.resolve n <;> rfl
  | .pre op x, st => by
    simp only [renE, resolveE]
    rw [aE hf x st]
    cases resolveE x st with
    | error e => rfl
    | ok p => obtain ⟨x', st1⟩ := p; cases op <;> rfl
  | .assign (.ident n) x, st => by
    simp only [renE, resolveE, mapSt_resolve hf]
    cases st.resolve n with
    | none => rfl
    | some ref =>
      simp only
      rw [aE hf x st]
      cases resolveE x st with
      | error e => rfl
      | ok p => obtain ⟨x', st1⟩ := p; rfl
  | .assign (.index a i) x, st => by
    simp only [renE, resolveE]
    rw [aE hf a st]
    cases resolveE a st with
    | error e => rfl
    | ok p =>
      obtain ⟨a', st1⟩ := p
      simp only [liftR]
      rw [aE hf i st1]
      cases resolveE i st1 with
      | error e => rfl
      | ok q =>
        obtain ⟨i', st2⟩ := q
        simp only [liftR]
        rw [aE hf x st2]
        cases resolveE x st2 with
        | error e => rfl
        | ok r => obtain ⟨x', st3⟩ := r; rfl
  | .assign (.bool _) x, st | .assign (.float _) x, st | .assign (.int _) x, st | .assign (.str _) x, st
  | .assign (.pre _ _) x, st | .assign (.assign _ _) x, st | .assign (.infix _ _ _) x, st
  | .assign (.ifE _ _ _) x, st | .assign (.whileE _ _) x, st | .assign (.func _ _ _) x, st
  | .assign (.call _ _) x, st | .assign (.arr _) x, st => by
    simp only [renE, resolveE, liftR]
  | .infix l op x, st => by
    simp only [renE, resolveE]
    rw [aE hf l st]
    cases resolveE l st with
    | error e => rfl
    | ok p =>
      obtain ⟨l', st1⟩ := p
      simp only [liftR]
      rw [aE hf x st1]
      cases resolveE x st1 with
      | error e => rfl
      | ok q =>
        obtain ⟨x', st2⟩ := q
        simp only [liftR]
        cases opToBin op <;> rfl
  | .ifE c t e, st => by
    simp only [renE, resolveE]
    rw [aE hf c st]
    cases resolveE c st with
    | error e => rfl
    | ok p =>
      obtain ⟨c', st1⟩ := p
      simp only [liftR]
      rw [aB hf t st1]
      cases resolveB t st1 with
      | error e => rfl
      | ok q =>
        obtain ⟨t', st2⟩ := q
        simp only [liftR]
        rw [aO hf e st2]
        cases resolveO e st2 with
        | error e => rfl
        | ok r => obtain ⟨e', st3⟩ := r; rfl
  | .whileE c b, st => by
    simp only [renE, resolveE, mapSt_withLoop, mapSt_loopDepth]
    rw [aE hf c _]
    cases resolveE c { st with loopDepth := st.loopDepth + 1 } with
    | error e => rfl
    | ok p =>
      obtain ⟨c', st1⟩ := p
      simp only [liftR]
      rw [aB hf b st1]
      cases resolveB b st1 with
      | error e => rfl
      | ok q => obtain ⟨b', st2⟩ := q; rfl
  | .func name ps body, st => by
    rw [renE, resolveE_func, resolveE_func, mapSt_fnPre hf]
    simp only [mapSt_fnEnter, mapSt_defineParams, mapSt_nextFid]
    rw [aB hf body _]
    cases resolveB body (defineParams (fnEnter (fnPre st name).1) ps).1 with
    | error e => rfl
    | ok p =>
      obtain ⟨b', st4⟩ := p
      simp only [liftR, mapSt_nlOf, mapSt_fnExit]
  | .call g as, st => by
    rw [renE, resolveE_call, resolveE_call, calleeBi_ren hf, aEs hf as st]
    cases resolveEs as st with
    | error e => rfl
    | ok p =>
      obtain ⟨as', st1⟩ := p
      simp only [liftR]
      cases calleeBi g with
      | some b => rfl
      | none =>
        simp only
        rw [aE hf g st1]
        cases resolveE g st1 with
        | error e => rfl
        | ok q => obtain ⟨g', st2⟩ := q; rfl
  | .arr vs, st => by
    simp only [renE, resolveE]
    rw [aEs hf vs st]
    cases resolveEs vs st with
    | error e => rfl
    | ok p => obtain ⟨vs', st1⟩ := p; rfl
  | .index l i, st => by
    simp only [renE, resolveE]
    rw [aE hf l st]
    cases resolveE l st with
    | error e => rfl
    | ok p =>
      obtain ⟨l', st1⟩ := p
      simp only [liftR]
      rw [aE hf i st1]
      cases resolveE i st1 with
      | error e => rfl
      | ok q => obtain ⟨i', st2⟩ := q; rfl

theorem aEs {f : Text → Text} (hf : Renaming f) : (x : Exprs) → (st : RState) →
    resolveEs (renEs f x) (mapSt f st) = liftR f (resolveEs x st)
  | .nil, st => by simp only [renEs, resolveEs, liftR]
  | .cons x xs, st => by
    simp only [renEs, resolveEs]
    rw [aE hf x st]
    cases resolveE x st with
    | error e => rfl
    | ok p =>
      obtain ⟨x', st1⟩ := p
      simp only [liftR]
      rw [aEs hf xs st1]
      cases resolveEs xs st1 with
      | error e => rfl
      | ok q => obtain ⟨xs', st2⟩ := q; rfl

theorem aS {f : Text → Text} (hf : Renaming f) : (x : Stmt) → (st : RState) →
    resolveS (renS f x) (mapSt f st) = liftR f (resolveS x st)
  | .expr x, st => by
    simp only [renS, resolveS]
    rw [aE hf x st]
    cases resolveE x st with
    | error e => rfl
    | ok p => obtain ⟨x', st1⟩ := p; rfl
  | .block b, st => by
    simp only [renS, resolveS]
    rw [aB hf b st]
    cases resolveB b st with
    | error e => rfl
    | ok p => obtain ⟨b', st1⟩ := p; rfl
  | .letS n x, st => by
    simp only [renS, resolveS, mapSt_define]
    rw [aE hf x _]
    cases resolveE x (st.define n).1 with
    | error e => rfl
    | ok p => obtain ⟨x', st2⟩ := p; rfl
  | .ret x, st => by
    simp only [renS, resolveS, mapSt_funcDepth]
    by_cases h : st.funcDepth = 0
    · simp only [h, ↓reduceIte, liftR]
    · simp only [h, ↓reduceIte]
      rw [aE hf x st]
      cases resolveE x st with
      | error e => rfl
      | ok p => obtain ⟨x', st1⟩ := p; rfl
  | .brk, st => by
    simp only [renS, resolveS, mapSt_loopDepth]
    by_cases h : st.loopDepth = 0 <;> simp only [h, ↓reduceIte, liftR]
  | .cont, st => by
    simp only [renS, resolveS, mapSt_loopDepth]
    by_cases h : st.loopDepth = 0 <;> simp only [h, ↓reduceIte, liftR]

theorem aB {f : Text → Text} (hf : Renaming f) : (x : Block) → (st : RState) →
    resolveB (renB f x) (mapSt f st) = liftR f (resolveB x st)
  | .nil, st => by simp only [renB, resolveB, liftR]
  | .cons s b, st => by
    simp only [renB, resolveB, mapSt_enterScope]
    rw [aS hf s _]
    cases resolveS s st.enterScope with
    | error e => rfl
    | ok p =>
      obtain ⟨s', st1⟩ := p
      simp only [liftR]
      rw [aSs hf b st1]
      cases resolveSs b st1 with
      | error e => rfl
      | ok q =>
        obtain ⟨b', st2⟩ := q
        simp only [liftR, mapSt_leaveScope]

theorem aSs {f : Text → Text} (hf : Renaming f) : (x : Block) → (st : RState) →
    resolveSs (renB f x) (mapSt f st) = liftR f (resolveSs x st)
  | .nil, st => by simp only [renB, resolveSs, liftR]
  | .cons s b, st => by
    simp only [renB, resolveSs]
    rw [aS hf s st]
    cases resolveS s st with
    | error e => rfl
    | ok p =>
      obtain ⟨s', st1⟩ := p
      simp only [liftR]
      rw [aSs hf b st1]
      cases resolveSs b st1 with
      | error e => rfl
      | ok q => obtain ⟨b', st2⟩ := q; rfl

theorem aO {f : Text → Text} (hf : Renaming f) : (x : OptBlock) → (st : RState) →
    resolveO (renO f x) (mapSt f st) = liftR f (resolveO x st)
  | .none, st => by simp only [renO, resolveO, liftR]
  | .some b, st => by
    simp only [renO, resolveO]
    rw [aB hf b st]
    cases resolveB b st with
    | error e => rfl
    | ok p => obtain ⟨b', st1⟩ := p; rfl
end

end Alpha
end Nl
