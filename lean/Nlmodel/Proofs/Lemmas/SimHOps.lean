/- Stage 5: indexing, index assignment and the builtins agree on both sides (C13, C14). -/
import Nlmodel.Proofs.Lemmas.SimHExpr2
namespace Nl
namespace SimH
open Spec Sim

section ops
variable {s0 : VM} {CS : List Const} {Γ : Gam} {μ : AMap} {st : SState} {g : Array Value} {l : Value} {m : Mem} {out : List Text}

/-- what a related array looks like on both sides -/
theorem arr_cells (hinv : Inv5 s0 CS Γ μ st g l m out) {a a' : Nat} (hv : VRh μ st m.heap (.arr a) (.arr a')) :
    ∃ vs mvs, st.store[a]? = some (.arr vs) ∧ m.heap.get a' = .arr mvs ∧ VRL μ st m.heap vs mvs ∧ st.arrAt a = vs ∧ m.heap.arrAt a' = mvs := by
  obtain ⟨hm, hk⟩ := hv
  cases hc : st.store[a]? with
  | none => rw [hc] at hk; cases hk
  | some c =>
    cases c with
    | str s => rw [hc] at hk; cases hk
    | arr vs =>
      obtain ⟨mvs, hg, hl⟩ := hinv.hr.arr a a' vs hm hc
      exact ⟨vs, mvs, rfl, hg, hl, by simp [SState.arrAt, hc], by simp [Heap.arrAt, hg]⟩

theorem str_cells (hinv : Inv5 s0 CS Γ μ st g l m out) {a a' : Nat} (hv : VRh μ st m.heap (.str a) (.str a')) :
    ∃ s, st.store[a]? = some (.str s) ∧ m.heap.get a' = .str s ∧ st.strAt a = s ∧ m.heap.strAt a' = s := by
  obtain ⟨hm, hk⟩ := hv
  cases hc : st.store[a]? with
  | none => rw [hc] at hk; cases hk
  | some c =>
    cases c with
    | arr vs => rw [hc] at hk; cases hk
    | str s =>
      have hg := hinv.hr.str a a' s hm hc
      exact ⟨s, rfl, hg, by simp [SState.strAt, hc], by simp [Heap.strAt, hg]⟩

/-- reading an element: the same outcome on both sides -/
theorem indexGet_rel (hinv : Inv5 s0 CS Γ μ st g l m out) (a b : SVal) (ma mb : Value)
    (ha : VRh μ st m.heap a ma) (hb : VRh μ st m.heap b mb) :
    match sIndexGet a b st with
    | .ok (r, st') => ∃ μ' mr m', indexGet ma mb m = .ok (mr, m') ∧ Inv5 s0 CS Γ μ' st' g l m' out ∧ Grow μ st m.heap μ' st' m'.heap ∧ VRh μ' st' m'.heap r mr
    | .error e => indexGet ma mb m = .error e := by
  have hnonint : (∀ i, b ≠ .int i) → (∀ i, mb ≠ .int i) → sIndexGet a b st = .error .type ∧ indexGet ma mb m = .error .type := by
    intro h1 h2
    constructor
    · cases b <;> first | rfl | exact absurd rfl (h1 _)
    · cases mb <;> first | rfl | exact absurd rfl (h2 _)
  cases b <;> cases mb <;> simp only [VRh] at hb <;> (try exact absurd hb id)
  case null.null => obtain ⟨e1, e2⟩ := hnonint (by simp) (by simp); rw [e1]; exact e2
  case bool.bool => obtain ⟨e1, e2⟩ := hnonint (by simp) (by simp); rw [e1]; exact e2
  case float.float => obtain ⟨e1, e2⟩ := hnonint (by simp) (by simp); rw [e1]; exact e2
  case str.str => obtain ⟨e1, e2⟩ := hnonint (by simp) (by simp); rw [e1]; exact e2
  case arr.arr => obtain ⟨e1, e2⟩ := hnonint (by simp) (by simp); rw [e1]; exact e2
  -- integer index
  subst hb
  rename_i i
  cases a <;> cases ma <;> simp only [VRh] at ha <;> (try exact absurd ha id)
  case null.null => simp [sIndexGet, indexGet]
  case bool.bool => simp [sIndexGet, indexGet]
  case int.int => simp [sIndexGet, indexGet]
  case float.float => simp [sIndexGet, indexGet]
  · -- string
    rename_i a0 a0'
    obtain ⟨s, _, _, e1, e2⟩ := str_cells hinv ha
    simp only [sIndexGet, indexGet, e1, e2]
    cases hn : normIndex s.length i with
    | none => simp
    | some j =>
      obtain ⟨hinv', hg, hv⟩ := inv_alloc_str hinv [s.getD j ' ']
      simp only
      exact ⟨_, _, _, rfl, hinv', hg, hv⟩
  · -- array
    rename_i a0 a0'
    obtain ⟨vs, mvs, _, _, hl, e1, e2⟩ := arr_cells hinv ha
    simp only [sIndexGet, indexGet, e1, e2, hl.length]
    cases hn : normIndex mvs.length i with
    | none => simp
    | some j =>
      simp only
      exact ⟨μ, _, _, rfl, hinv, Grow.refl _ _ _, hl.getD j⟩

theorem float_cell_ne (hinv : Inv5 s0 CS Γ μ st g l m out) {a a' : Nat} (hm : μ a = some a') (hk : isStrCell st.store[a]? = true ∨ isArrCell st.store[a]? = true) :
    ∀ x, m.heap.get a' ≠ .float x := by
  intro x hx
  cases hc : st.store[a]? with
  | none => rw [hc] at hk; rcases hk with h | h <;> cases h
  | some c =>
    cases c with
    | str s => have := hinv.hr.str a a' s hm hc; rw [this] at hx; cases hx
    | arr vs => obtain ⟨mvs, h1, _⟩ := hinv.hr.arr a a' vs hm hc; rw [h1] at hx; cases hx

/-- writing an element: the same outcome on both sides; the write goes to the ONE cell both names denote -/
theorem indexSet_rel (hinv : Inv5 s0 CS Γ μ st g l m out) (a b c : SVal) (ma mb mc : Value)
    (ha : VRh μ st m.heap a ma) (hb : VRh μ st m.heap b mb) (hc : VRh μ st m.heap c mc) :
    match sIndexSet a b c st with
    | .ok (r, st') => ∃ mr m', indexSet ma mb mc m = .ok (mr, m') ∧ Inv5 s0 CS Γ μ st' g l m' out ∧ Grow μ st m.heap μ st' m'.heap ∧ VRh μ st' m'.heap r mr
    | .error e => indexSet ma mb mc m = .error e := by
  have hnonint : (∀ i, b ≠ .int i) → (∀ i, mb ≠ .int i) → sIndexSet a b c st = .error .type ∧ indexSet ma mb mc m = .error .type := by
    intro h1 h2
    constructor
    · cases b <;> first | rfl | exact absurd rfl (h1 _)
    · cases mb <;> first | rfl | exact absurd rfl (h2 _)
  cases b <;> cases mb <;> simp only [VRh] at hb <;> (try exact absurd hb id)
  case null.null => obtain ⟨e1, e2⟩ := hnonint (by simp) (by simp); rw [e1]; exact e2
  case bool.bool => obtain ⟨e1, e2⟩ := hnonint (by simp) (by simp); rw [e1]; exact e2
  case float.float => obtain ⟨e1, e2⟩ := hnonint (by simp) (by simp); rw [e1]; exact e2
  case str.str => obtain ⟨e1, e2⟩ := hnonint (by simp) (by simp); rw [e1]; exact e2
  case arr.arr => obtain ⟨e1, e2⟩ := hnonint (by simp) (by simp); rw [e1]; exact e2
  subst hb
  rename_i i
  cases a <;> cases ma <;> simp only [VRh] at ha <;> (try exact absurd ha id)
  case null.null => simp [sIndexSet, indexSet]
  case bool.bool => simp [sIndexSet, indexSet]
  case int.int => simp [sIndexSet, indexSet]
  case float.float => simp [sIndexSet, indexSet]
  · -- string: the replacement must be a string
    rename_i a0 a0'
    obtain ⟨s, hs0, _, e1, e2⟩ := str_cells hinv ha
    simp only [sIndexSet, indexSet, e1, e2]
    cases hn : normIndex s.length i with
    | none => simp
    | some j =>
      simp only
      cases c <;> cases mc <;> simp only [VRh] at hc <;> (try exact absurd hc id)
      case null.null => simp
      case bool.bool => simp
      case int.int => simp
      case float.float => simp
      case arr.arr => simp
      rename_i b0 b0'
      obtain ⟨r, _, _, f1, f2⟩ := str_cells hinv hc
      simp only [f1, f2]
      obtain ⟨hinv', hg⟩ := inv_set hinv a0 a0' ha.1 (.str s) (.str (s.take j ++ r ++ s.drop (j + 1))) (.str (s.take j ++ r ++ s.drop (j + 1)))
        hs0 trivial (float_cell_ne hinv ha.1 (.inl ha.2)) ⟨fun s' e => (by injection e with e; rw [e]), fun vs e => (by cases e)⟩
      exact ⟨_, _, rfl, hinv', hg, VRh.grow hg hc⟩
  · -- array
    rename_i a0 a0'
    obtain ⟨vs, mvs, hs0, _, hl, e1, e2⟩ := arr_cells hinv ha
    simp only [sIndexSet, indexSet, e1, e2, hl.length]
    cases hn : normIndex mvs.length i with
    | none => simp
    | some j =>
      simp only
      obtain ⟨hinv', hg⟩ := inv_set hinv a0 a0' ha.1 (.arr vs) (.arr (vs.set j c)) (.arr (mvs.set j mc))
        hs0 trivial (float_cell_ne hinv ha.1 (.inr ha.2)) ⟨fun s' e => (by cases e), fun vs' e => (by injection e with e; subst e; exact ⟨_, rfl, hl.set j c mc hc⟩)⟩
      exact ⟨_, _, rfl, hinv', hg, VRh.grow hg hc⟩

/-- what a builtin call does on the semantics' side, as a function of the argument values -/
def specBuiltin (b : Builtin) (xs : List SVal) (st1 : SState) : Res SVal :=
  match b with
  | .print => .val .null { st1 with out := st1.out ++ [printLine (xs.map (st1.tree treeDepth []))] }
  | _ =>
    match xs with
    | [x] =>
      match builtinCore b (st1.view x) with
      | .ok p => let (v, st2) := st1.box x p; .val v st2
      | .error e => .err e st1
    | _ => .err .argument st1

theorem builtin_err_out (b : Builtin) (xs : List SVal) (st : SState) (e : Err) (st2 : SState)
    (h : specBuiltin b xs st = .err e st2) : st2.out = st.out := by
  unfold specBuiltin at h
  cases b <;> simp only at h <;> (try cases h) <;>
    (repeat' split at h) <;> (first | (cases h; done) | (cases h; rfl) | (injection h with _ h2; rw [← h2]) | skip)

def specUnary (b : Builtin) (xs : List SVal) (st : SState) : Res SVal :=
  match xs with
  | [x] =>
    match builtinCore b (st.view x) with
    | .ok p => let (v, st2) := st.box x p; .val v st2
    | .error e => .err e st
  | _ => .err .argument st

def machUnary (b : Builtin) (ms : List Value) (m : Mem) (out : List Text) : Except Err (Value × Mem × List Text) :=
  match ms with
  | [v] =>
    match builtinCore b (m.heap.view v) with
    | .ok p => let (r, m') := m.box v p; .ok (r, m', out)
    | .error e => .error e
  | _ => .error .argument

theorem builtin_rel (hinv : Inv5 s0 CS Γ μ st g l m out) (b : Builtin) (xs : List SVal) (ms : List Value) (hl : VRL μ st m.heap xs ms) :
    match specBuiltin b xs st with
    | .val r st' => ∃ μ' mr m' out', callBuiltin b ms m out = .ok (mr, m', out') ∧ Inv5 s0 CS Γ μ' st' g l m' out' ∧
        Grow μ st m.heap μ' st' m'.heap ∧ VRh μ' st' m'.heap r mr
    | .err e _ => callBuiltin b ms m out = .error e
    | _ => True := by
  have hprint : b = .print → (match specBuiltin b xs st with
    | .val r st' => ∃ μ' mr m' out', callBuiltin b ms m out = .ok (mr, m', out') ∧ Inv5 s0 CS Γ μ' st' g l m' out' ∧
        Grow μ st m.heap μ' st' m'.heap ∧ VRh μ' st' m'.heap r mr
    | .err e _ => callBuiltin b ms m out = .error e
    | _ => True) := by
    intro hb; subst hb
    simp only [specBuiltin, callBuiltin]
    have ht := trees_rel hinv.hr treeDepth xs ms hl
    have hst : ({ st with out := st.out ++ [printLine (xs.map (st.tree treeDepth []))] } : SState).store = st.store := rfl
    refine ⟨μ, .null, m, _, rfl, ?_, grow_store_eq hst, trivial⟩
    have h1 := hinv.restate (st' := { st with out := st.out ++ [printLine (xs.map (st.tree treeDepth []))] }) hst rfl rfl
    exact ⟨fun b k hm v hv => by
        obtain ⟨mv, h1, h2⟩ := hinv.relG b k hm v hv
        exact ⟨mv, h1.grow (grow_store_eq hst), h2⟩,
      hinv.last.grow (grow_store_eq hst), hinv.hr.store_eq hst, by simp only; rw [hinv.out, ht], hinv.pool, hinv.mok⟩
  have hunary : b ≠ .print → (match specBuiltin b xs st with
    | .val r st' => ∃ μ' mr m' out', callBuiltin b ms m out = .ok (mr, m', out') ∧ Inv5 s0 CS Γ μ' st' g l m' out' ∧
        Grow μ st m.heap μ' st' m'.heap ∧ VRh μ' st' m'.heap r mr
    | .err e _ => callBuiltin b ms m out = .error e
    | _ => True) := by
    intro hb
    have e1 : specBuiltin b xs st = specUnary b xs st := by
      cases b <;> first | exact absurd rfl hb | rfl
    have e2 : callBuiltin b ms m out = machUnary b ms m out := by
      cases b <;> first | exact absurd rfl hb | rfl
    rw [e1, e2]
    unfold specUnary machUnary
    cases xs with
    | nil => cases ms with
      | nil => simp
      | cons _ _ => exact hl.elim
    | cons x xs' =>
      cases ms with
      | nil => exact hl.elim
      | cons mx ms' =>
        cases xs' with
        | cons _ _ =>
          cases ms' with
          | nil => exact hl.2.elim
          | cons _ _ => simp
        | nil =>
          cases ms' with
          | cons _ _ => exact hl.2.elim
          | nil =>
            have hv := view_eq hinv.hr hl.1
            simp only [hv]
            cases hcore : builtinCore b (st.view x) with
            | error e => simp
            | ok p =>
              obtain ⟨μ', hinv', hg, hvr⟩ := box_rel hinv x mx hl.1 p
              simp only
              exact ⟨μ', _, _, _, rfl, hinv', hg, hvr⟩
  by_cases hb : b = .print
  · exact hprint hb
  · exact hunary hb

end ops
end SimH
end Nl
