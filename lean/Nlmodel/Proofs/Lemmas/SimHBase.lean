/- Stage 5 of the simulation (C01, C06, C13, C14): relations between the store of the semantics and the machine heap; allocation and mutation. -/
import Nlmodel.Proofs.Lemmas.SimCtlProg
namespace Nl
namespace SimH
open Spec Sim

/-! ## stage 5 (C01, C06, C13, C14): heap values — floats, strings, arrays — at top level (no calls, hence no collection) -/

/-- machine configuration: what this fragment changes -/
def setH (s0 : VM) (ip : Nat) (stk g : Array Value) (l : Value) (m : Mem) (out : List Text) : VM :=
  { s0 with ip := ip, stack := stk, globals := g, last := l, mem := m, out := out }

@[simp] theorem setH_ip (s0 ip stk g l m out) : (setH s0 ip stk g l m out).ip = ip := rfl
@[simp] theorem setH_stack (s0 ip stk g l m out) : (setH s0 ip stk g l m out).stack = stk := rfl
@[simp] theorem setH_globals (s0 ip stk g l m out) : (setH s0 ip stk g l m out).globals = g := rfl
@[simp] theorem setH_last (s0 ip stk g l m out) : (setH s0 ip stk g l m out).last = l := rfl
@[simp] theorem setH_mem (s0 ip stk g l m out) : (setH s0 ip stk g l m out).mem = m := rfl
@[simp] theorem setH_out (s0 ip stk g l m out) : (setH s0 ip stk g l m out).out = out := rfl
@[simp] theorem setH_cvals (s0 ip stk g l m out) : (setH s0 ip stk g l m out).cvals = s0.cvals := rfl

/-- spec addresses to machine addresses -/
abbrev AMap := Nat → Option Nat

def AMap.ext (μ : AMap) (a a' : Nat) : AMap := fun x => if x = a then some a' else μ x

def isStrCell : Option SCell → Bool | some (.str _) => true | _ => false
def isArrCell : Option SCell → Bool | some (.arr _) => true | _ => false

/-- a value of the semantics and the machine value representing it: floats are boxed on the machine,
    strings and arrays correspond through the address map -/
def VRh (μ : AMap) (st : SState) (h : Heap) : SVal → Value → Prop
  | .null, .null => True
  | .bool a, .bool b => a = b
  | .int a, .int b => a = b
  | .float x, .float a' => h.get a' = .float x
  | .str a, .str a' => μ a = some a' ∧ isStrCell st.store[a]? = true
  | .arr a, .arr a' => μ a = some a' ∧ isArrCell st.store[a]? = true
  | _, _ => False

def VRL (μ : AMap) (st : SState) (h : Heap) : List SVal → List Value → Prop
  | [], [] => True
  | v :: vs, m :: ms => VRh μ st h v m ∧ VRL μ st h vs ms
  | _, _ => False

/-- the two heaps correspond on the mapped addresses -/
structure HR (μ : AMap) (st : SState) (h : Heap) : Prop where
  inj : ∀ a b a', μ a = some a' → μ b = some a' → a = b
  dom : ∀ a a', μ a = some a' → a < st.store.size ∧ a' < h.cells.size
  str : ∀ a a' s, μ a = some a' → st.store[a]? = some (.str s) → h.get a' = .str s
  arr : ∀ a a' vs, μ a = some a' → st.store[a]? = some (.arr vs) → ∃ mvs, h.get a' = .arr mvs ∧ VRL μ st h vs mvs

/-- how states grow: the map is extended, cells keep their kind, float boxes are never touched -/
structure Grow (μ : AMap) (st : SState) (h : Heap) (μ' : AMap) (st' : SState) (h' : Heap) : Prop where
  map : ∀ a a', μ a = some a' → μ' a = some a'
  ssize : st.store.size ≤ st'.store.size
  skind : ∀ a, a < st.store.size → isStrCell st'.store[a]? = isStrCell st.store[a]? ∧ isArrCell st'.store[a]? = isArrCell st.store[a]?
  hsize : h.cells.size ≤ h'.cells.size
  floats : ∀ a x, h.get a = .float x → h'.get a = .float x

theorem Grow.refl (μ : AMap) (st : SState) (h : Heap) : Grow μ st h μ st h :=
  ⟨fun _ _ x => x, Nat.le_refl _, fun _ _ => ⟨rfl, rfl⟩, Nat.le_refl _, fun _ _ x => x⟩

theorem Grow.trans {μ1 μ2 μ3 : AMap} {s1 s2 s3 : SState} {h1 h2 h3 : Heap} (a : Grow μ1 s1 h1 μ2 s2 h2) (b : Grow μ2 s2 h2 μ3 s3 h3) :
    Grow μ1 s1 h1 μ3 s3 h3 :=
  ⟨fun x y hx => b.map x y (a.map x y hx), Nat.le_trans a.ssize b.ssize,
   fun x hx => by
     have h1' := a.skind x hx
     have h2' := b.skind x (Nat.lt_of_lt_of_le hx a.ssize)
     exact ⟨by rw [h2'.1, h1'.1], by rw [h2'.2, h1'.2]⟩,
   Nat.le_trans a.hsize b.hsize, fun x y hx => b.floats x y (a.floats x y hx)⟩

theorem isStrCell_lt {st : SState} {a : Nat} (h : isStrCell st.store[a]? = true) : a < st.store.size := by
  cases hx : st.store[a]? with
  | none => rw [hx] at h; cases h
  | some c => exact (Array.getElem?_eq_some_iff.mp hx).1

theorem isArrCell_lt {st : SState} {a : Nat} (h : isArrCell st.store[a]? = true) : a < st.store.size := by
  cases hx : st.store[a]? with
  | none => rw [hx] at h; cases h
  | some c => exact (Array.getElem?_eq_some_iff.mp hx).1

theorem VRh.grow {μ μ' : AMap} {st st' : SState} {h h' : Heap} (hg : Grow μ st h μ' st' h') {v : SVal} {mv : Value}
    (hv : VRh μ st h v mv) : VRh μ' st' h' v mv := by
  cases v <;> cases mv <;> simp only [VRh] at hv ⊢ <;> try exact hv
  · exact hg.floats _ _ hv
  · exact ⟨hg.map _ _ hv.1, by rw [(hg.skind _ (isStrCell_lt hv.2)).1]; exact hv.2⟩
  · exact ⟨hg.map _ _ hv.1, by rw [(hg.skind _ (isArrCell_lt hv.2)).2]; exact hv.2⟩

theorem VRL.grow {μ μ' : AMap} {st st' : SState} {h h' : Heap} (hg : Grow μ st h μ' st' h') :
    ∀ {vs : List SVal} {ms : List Value}, VRL μ st h vs ms → VRL μ' st' h' vs ms
  | [], [], _ => trivial
  | _ :: _, _ :: _, hv => ⟨hv.1.grow hg, VRL.grow hg hv.2⟩
  | [], _ :: _, hv => hv.elim
  | _ :: _, [], hv => hv.elim

theorem VRL.length {μ : AMap} {st : SState} {h : Heap} : ∀ {vs : List SVal} {ms : List Value}, VRL μ st h vs ms → vs.length = ms.length
  | [], [], _ => rfl
  | _ :: _, _ :: _, hv => by simp [VRL.length hv.2]
  | [], _ :: _, hv => hv.elim
  | _ :: _, [], hv => hv.elim

theorem VRL.getD {μ : AMap} {st : SState} {h : Heap} : ∀ {vs : List SVal} {ms : List Value}, VRL μ st h vs ms → ∀ j,
    VRh μ st h (vs.getD j .null) (ms.getD j .null)
  | [], [], _, j => by simp [VRh]
  | v :: vs, m :: ms, hv, 0 => by simpa using hv.1
  | v :: vs, m :: ms, hv, j + 1 => by simpa using VRL.getD hv.2 j
  | [], _ :: _, hv, _ => hv.elim
  | _ :: _, [], hv, _ => hv.elim

theorem VRL.set {μ : AMap} {st : SState} {h : Heap} : ∀ {vs : List SVal} {ms : List Value}, VRL μ st h vs ms → ∀ j v mv,
    VRh μ st h v mv → VRL μ st h (vs.set j v) (ms.set j mv)
  | [], [], _, _, _, _, _ => trivial
  | x :: vs, m :: ms, hv, 0, v, mv, h1 => ⟨h1, hv.2⟩
  | x :: vs, m :: ms, hv, j + 1, v, mv, h1 => ⟨hv.1, VRL.set hv.2 j v mv h1⟩
  | [], _ :: _, hv, _, _, _, _ => hv.elim
  | _ :: _, [], hv, _, _, _, _ => hv.elim

/-- related values look the same to the operators and builtins -/
theorem view_eq {μ : AMap} {st : SState} {h : Heap} (hr : HR μ st h) {v : SVal} {mv : Value} (hv : VRh μ st h v mv) :
    h.view mv = st.view v := by
  cases v <;> cases mv <;> simp only [VRh] at hv <;> try exact absurd hv id
  · rfl
  · subst hv; rfl
  · subst hv; rfl
  · simp [Heap.view, SState.view, Heap.floatAt, hv]
  · rename_i a a'
    obtain ⟨hm, hk⟩ := hv
    cases hc : st.store[a]? with
    | none => rw [hc] at hk; cases hk
    | some c =>
      cases c with
      | arr vs => rw [hc] at hk; cases hk
      | str s =>
        have := hr.str a a' s hm hc
        simp [Heap.view, SState.view, Heap.strAt, SState.strAt, this, hc]
  · rename_i a a'
    obtain ⟨hm, hk⟩ := hv
    cases hc : st.store[a]? with
    | none => rw [hc] at hk; cases hk
    | some c =>
      cases c with
      | str s => rw [hc] at hk; cases hk
      | arr vs =>
        obtain ⟨mvs, hg, hl⟩ := hr.arr a a' vs hm hc
        simp [Heap.view, SState.view, Heap.arrAt, SState.arrAt, hg, hc, hl.length]

/-! ### allocation -/

theorem heap_push_get_old (h : Heap) (c : Cell) (a : Nat) (ha : a < h.cells.size) : (h.alloc c).1.get a = h.get a := by
  simp [Heap.alloc, Heap.get, Array.getD_eq_getD_getElem?, Array.getElem?_push_lt ha, Array.getElem?_eq_getElem ha]

theorem heap_push_get_new (h : Heap) (c : Cell) : (h.alloc c).1.get h.cells.size = c := by
  simp [Heap.alloc, Heap.get, Array.getD_eq_getD_getElem?]

theorem heap_get_live_lt (h : Heap) (a : Nat) (x : UInt64) (hx : h.get a = .float x) : a < h.cells.size := by
  unfold Heap.get at hx
  by_cases hlt : a < h.cells.size
  · exact hlt
  · have : h.cells[a]? = none := by simp; omega
    simp [Array.getD_eq_getD_getElem?, this] at hx

/-- a new box on the machine only (a float result): nothing the relation talks about changes -/
theorem grow_machine_alloc (μ : AMap) (st : SState) (h : Heap) (c : Cell) : Grow μ st h μ st (h.alloc c).1 :=
  ⟨fun _ _ x => x, Nat.le_refl _, fun _ _ => ⟨rfl, rfl⟩, by simp [Heap.alloc],
   fun a x hx => by rw [heap_push_get_old h c a (heap_get_live_lt h a x hx)]; exact hx⟩

theorem hr_machine_alloc {μ : AMap} {st : SState} {h : Heap} (hr : HR μ st h) (c : Cell) : HR μ st (h.alloc c).1 := by
  have hg := grow_machine_alloc μ st h c
  refine ⟨hr.inj, fun a a' hm => ⟨(hr.dom a a' hm).1, by have := (hr.dom a a' hm).2; simp [Heap.alloc]; omega⟩, ?_, ?_⟩
  · intro a a' s hm hc
    rw [heap_push_get_old h c a' (hr.dom a a' hm).2]
    exact hr.str a a' s hm hc
  · intro a a' vs hm hc
    obtain ⟨mvs, h1, h2⟩ := hr.arr a a' vs hm hc
    exact ⟨mvs, by rw [heap_push_get_old h c a' (hr.dom a a' hm).2]; exact h1, h2.grow hg⟩

/-- a new object on both sides: the spec's store and the machine's heap get one more cell each -/
theorem grow_both_alloc {μ : AMap} {st : SState} {h : Heap} (hr : HR μ st h) (sc : SCell) (c : Cell) :
    Grow μ st h (μ.ext st.store.size h.cells.size) (st.alloc sc).1 (h.alloc c).1 := by
  refine ⟨?_, by simp [SState.alloc], ?_, by simp [Heap.alloc], ?_⟩
  · intro a a' hm
    have := (hr.dom a a' hm).1
    simp only [AMap.ext]
    rw [if_neg (by omega)]; exact hm
  · intro a ha
    simp [SState.alloc, Array.getElem?_push_lt ha, Array.getElem?_eq_getElem ha]
  · intro a x hx
    rw [heap_push_get_old h c a (heap_get_live_lt h a x hx)]; exact hx

theorem hr_both_alloc {μ : AMap} {st : SState} {h : Heap} (hr : HR μ st h) (sc : SCell) (c : Cell)
    (hnew : (∀ s, sc = .str s → c = .str s) ∧
      (∀ vs, sc = .arr vs → ∃ mvs, c = .arr mvs ∧ VRL μ st h vs mvs)) :
    HR (μ.ext st.store.size h.cells.size) (st.alloc sc).1 (h.alloc c).1 := by
  have hg := grow_both_alloc hr sc c
  have hstore : ∀ a, a < st.store.size → (st.alloc sc).1.store[a]? = st.store[a]? := by
    intro a ha; simp [SState.alloc, Array.getElem?_push_lt ha]
  have hnewcell : (st.alloc sc).1.store[st.store.size]? = some sc := by simp [SState.alloc]
  refine ⟨?_, ?_, ?_, ?_⟩
  · intro a b a' ha hb
    simp only [AMap.ext] at ha hb
    by_cases h1 : a = st.store.size
    · by_cases h2 : b = st.store.size
      · rw [h1, h2]
      · rw [if_pos h1] at ha; rw [if_neg h2] at hb
        injection ha with ha; subst ha
        have := (hr.dom b _ hb).2; omega
    · by_cases h2 : b = st.store.size
      · rw [if_neg h1] at ha; rw [if_pos h2] at hb
        injection hb with hb; subst hb
        have := (hr.dom a _ ha).2; omega
      · rw [if_neg h1] at ha; rw [if_neg h2] at hb
        exact hr.inj a b a' ha hb
  · intro a a' hm
    simp only [AMap.ext] at hm
    by_cases h1 : a = st.store.size
    · rw [if_pos h1] at hm; injection hm with hm; subst hm; subst h1
      simp [SState.alloc, Heap.alloc]
    · rw [if_neg h1] at hm
      have := hr.dom a a' hm
      simp [SState.alloc, Heap.alloc]; omega
  · intro a a' s hm hc
    simp only [AMap.ext] at hm
    by_cases h1 : a = st.store.size
    · rw [if_pos h1] at hm; injection hm with hm; subst hm; subst h1
      rw [hnewcell] at hc; injection hc with hc
      rw [heap_push_get_new]; exact hnew.1 s hc
    · rw [if_neg h1] at hm
      have hd := hr.dom a a' hm
      rw [hstore a hd.1] at hc
      rw [heap_push_get_old h c a' hd.2]
      exact hr.str a a' s hm hc
  · intro a a' vs hm hc
    simp only [AMap.ext] at hm
    by_cases h1 : a = st.store.size
    · rw [if_pos h1] at hm; injection hm with hm; subst hm; subst h1
      rw [hnewcell] at hc; injection hc with hc
      obtain ⟨mvs, h2, h3⟩ := hnew.2 vs hc
      exact ⟨mvs, by rw [heap_push_get_new]; exact h2, h3.grow hg⟩
    · rw [if_neg h1] at hm
      have hd := hr.dom a a' hm
      rw [hstore a hd.1] at hc
      obtain ⟨mvs, h2, h3⟩ := hr.arr a a' vs hm hc
      exact ⟨mvs, by rw [heap_push_get_old h c a' hd.2]; exact h2, h3.grow hg⟩

/-! ### mutation of a string / array cell -/

theorem heap_set_get_same (h : Heap) (a : Nat) (c : Cell) (ha : a < h.cells.size) : (h.set a c).get a = c := by
  simp [Heap.set, Heap.get, Array.getD_eq_getD_getElem?, Array.getElem?_setIfInBounds, ha]

theorem heap_set_get_other (h : Heap) (a b : Nat) (c : Cell) (hab : b ≠ a) : (h.set a c).get b = h.get b := by
  simp [Heap.set, Heap.get, Array.getD_eq_getD_getElem?, Array.getElem?_setIfInBounds, Ne.symm hab]

def sameKind (c1 c2 : SCell) : Prop :=
  match c1, c2 with
  | .str _, .str _ => True
  | .arr _, .arr _ => True
  | _, _ => False

theorem grow_set {μ : AMap} {st : SState} {h : Heap} (hr : HR μ st h) (a a' : Nat) (hm : μ a = some a') (sc0 sc : SCell) (c : Cell)
    (h0 : st.store[a]? = some sc0) (hk : sameKind sc0 sc) (hnf : ∀ x, h.get a' ≠ .float x) :
    Grow μ st h μ { st with store := st.store.setIfInBounds a sc } (h.set a' c) := by
  refine ⟨fun _ _ x => x, by simp, ?_, by simp [Heap.set], ?_⟩
  · intro b hb
    by_cases hba : b = a
    · subst hba
      have hlt : b < st.store.size := hb
      simp only [Array.getElem?_setIfInBounds, hlt, ↓reduceIte, h0]
      cases sc0 <;> cases sc <;> simp [sameKind] at hk <;> simp [isStrCell, isArrCell]
    · simp [Array.getElem?_setIfInBounds, Ne.symm hba]
  · intro x y hx
    have : x ≠ a' := by intro e; subst e; exact hnf y hx
    rw [heap_set_get_other h a' x c this]; exact hx

theorem hr_set {μ : AMap} {st : SState} {h : Heap} (hr : HR μ st h) (a a' : Nat) (hm : μ a = some a') (sc0 sc : SCell) (c : Cell)
    (h0 : st.store[a]? = some sc0) (hk : sameKind sc0 sc) (hnf : ∀ x, h.get a' ≠ .float x)
    (hnew : (∀ s, sc = .str s → c = .str s) ∧ (∀ vs, sc = .arr vs → ∃ mvs, c = .arr mvs ∧ VRL μ st h vs mvs)) :
    HR μ { st with store := st.store.setIfInBounds a sc } (h.set a' c) := by
  have hg := grow_set hr a a' hm sc0 sc c h0 hk hnf
  have hd := hr.dom a a' hm
  refine ⟨hr.inj, fun b b' hb => by have := hr.dom b b' hb; simpa [Heap.set] using this, ?_, ?_⟩
  · intro b b' s hb hc
    by_cases hba : b = a
    · subst hba
      rw [hm] at hb; injection hb with hb; subst hb
      simp only [Array.getElem?_setIfInBounds, hd.1, ↓reduceIte] at hc
      injection hc with hc
      rw [heap_set_get_same h _ c hd.2]; exact hnew.1 s hc
    · simp only [Array.getElem?_setIfInBounds, Ne.symm hba, ↓reduceIte] at hc
      have hne : b' ≠ a' := fun e => hba (hr.inj b a a' (e ▸ hb) hm)
      rw [heap_set_get_other h a' b' c hne]
      exact hr.str b b' s hb hc
  · intro b b' vs hb hc
    by_cases hba : b = a
    · subst hba
      rw [hm] at hb; injection hb with hb; subst hb
      simp only [Array.getElem?_setIfInBounds, hd.1, ↓reduceIte] at hc
      injection hc with hc
      obtain ⟨mvs, h2, h3⟩ := hnew.2 vs hc
      exact ⟨mvs, by rw [heap_set_get_same h _ c hd.2]; exact h2, h3.grow hg⟩
    · simp only [Array.getElem?_setIfInBounds, Ne.symm hba, ↓reduceIte] at hc
      have hne : b' ≠ a' := fun e => hba (hr.inj b a a' (e ▸ hb) hm)
      obtain ⟨mvs, h2, h3⟩ := hr.arr b b' vs hb hc
      exact ⟨mvs, by rw [heap_set_get_other h a' b' c hne]; exact h2, h3.grow hg⟩

end SimH
end Nl
