/- Divergence preservation, stage 3 (C01): basis.  `Runs` (the machine performs `n` steps without
   halting, failing or faulting), the static depth of resolved trees, and the inversion lemmas
   "when does the definitional evaluator answer `.fuel`" for every node of the fragment. -/
import Nlmodel.Proofs.Lemmas.SimCtlProg
namespace Nl
namespace Sim
open Spec

/-! ### running without ending -/

/-- the machine performs `n` instructions from `s`, none of which halts, fails or faults -/
def Runs (C : Code) (s : VM) (n : Nat) : Prop := ∃ s', execN C n s = some s'

theorem execN_split (C : Code) (a b : Nat) (s s2 : VM) (h : execN C (a + b) s = some s2) :
    ∃ s1, execN C a s = some s1 ∧ execN C b s1 = some s2 := by
  induction a generalizing s with
  | zero => exact ⟨s, rfl, by simpa using h⟩
  | succ a ih =>
    have e : a + 1 + b = (a + b) + 1 := by omega
    rw [e] at h
    simp only [execN] at h ⊢
    cases hs : step C s with
    | next s' => rw [hs] at h; simp only at h ⊢; exact ih s' h
    | halt v s' => rw [hs] at h; simp at h
    | error e s' => rw [hs] at h; simp at h
    | fault site => rw [hs] at h; simp at h

theorem Runs.zero (C : Code) (s : VM) : Runs C s 0 := ⟨s, rfl⟩

theorem Runs.mono {C : Code} {s : VM} {n m : Nat} (h : Runs C s n) (hm : m ≤ n) : Runs C s m := by
  obtain ⟨s', hs'⟩ := h
  obtain ⟨k, rfl⟩ : ∃ k, n = m + k := ⟨n - m, by omega⟩
  obtain ⟨s1, h1, _⟩ := execN_split C m k s s' hs'
  exact ⟨s1, h1⟩

theorem Runs.seq {C : Code} {s s1 : VM} {a b : Nat} (h1 : execN C a s = some s1) (h2 : Runs C s1 b) :
    Runs C s (a + b) := by
  obtain ⟨s2, hs2⟩ := h2
  exact ⟨s2, execN_add C a b s s1 s2 h1 hs2⟩

/-- a completed prefix of `a` steps, then `b` more: at least `m ≤ a + b` steps -/
theorem Runs.after {C : Code} {s s1 : VM} {a b m : Nat} (h1 : execN C a s = some s1) (h2 : Runs C s1 b)
    (hm : m ≤ a + b) : Runs C s m :=
  (Runs.seq h1 h2).mono hm

/-- `n` good steps are a run that exhausts a budget of `n` -/
theorem runSteps_of_execN (C : Code) (n : Nat) (s s' : VM) (h : execN C n s = some s') :
    runSteps C n s = .budget s' := by
  induction n generalizing s with
  | zero => simp only [execN, Option.some.injEq] at h; subst h; rfl
  | succ n ih =>
    simp only [execN] at h
    simp only [runSteps]
    cases hs : step C s with
    | next s1 => rw [hs] at h; exact ih s1 h
    | halt v s1 => rw [hs] at h; simp at h
    | error e s1 => rw [hs] at h; simp at h
    | fault site => rw [hs] at h; simp at h

theorem execN_of_runSteps (C : Code) (n : Nat) (s s' : VM) (h : runSteps C n s = .budget s') :
    execN C n s = some s' := by
  induction n generalizing s with
  | zero => simp only [runSteps, Outcome.budget.injEq] at h; subst h; rfl
  | succ n ih =>
    simp only [runSteps] at h
    simp only [execN]
    cases hs : step C s with
    | next s1 => rw [hs] at h; exact ih s1 h
    | halt v s1 => rw [hs] at h; simp at h
    | error e s1 => rw [hs] at h; simp at h
    | fault site => rw [hs] at h; simp at h

/-! ### static depth: an upper bound of the fuel an evaluation needs besides what its loops iterate -/

mutual
def dE : RExpr → Nat
  | .infix l _ r => dE l + dE r + 1
  | .not r => dE r + 1
  | .neg r => dE r + 1
  | .ifE c t e => dE c + dB t + dO e + 1
  | .assignVar _ e => dE e + 1
  | .whileE c b => dE c + dB b + 2
  | .int _ => 1
  | .float _ => 1
  | .bool _ => 1
  | .str _ => 1
  | .var _ => 1
  | .func _ _ _ _ _ => 1
  | .call _ _ => 1
  | .callBuiltin _ _ => 1
  | .assignIndex _ _ _ => 1
  | .arr _ => 1
  | .index _ _ => 1
def dO : ROptBlock → Nat
  | .none => 1
  | .some b => dB b + 1
def dS : RStmt → Nat
  | .expr e => dE e + 1
  | .letS _ e => dE e + 1
  | .ret e => dE e + 1
  | .block b => dB b + 1
  | .brk => 1
  | .cont => 1
def dB : RBlock → Nat
  | .nil => 1
  | .cons s b => dS s + dB b + 1
end

/-- depth of a loop seen from its head -/
def dL (c : RExpr) (b : RBlock) : Nat := dE c + dB b + 1

/-! ### when does the evaluator answer `.fuel` -/

theorem evalE_not_fuel {f : Nat} {e : RExpr} {st : SState} (h : evalE (f + 1) (.not e) st = .fuel) :
    evalE f e st = .fuel := by
  simp only [evalE] at h
  cases hr : evalE f e st with
  | fuel => rfl
  | val v st1 => rw [hr] at h; cases v <;> simp at h
  | brk _ => rw [hr] at h; simp at h
  | cont _ => rw [hr] at h; simp at h
  | ret _ _ => rw [hr] at h; simp at h
  | err _ _ => rw [hr] at h; simp at h
  | unspec _ => rw [hr] at h; simp at h

theorem evalE_neg_fuel {f : Nat} {e : RExpr} {st : SState} (h : evalE (f + 1) (.neg e) st = .fuel) :
    evalE f e st = .fuel := by
  simp only [evalE] at h
  cases hr : evalE f e st with
  | fuel => rfl
  | val v st1 =>
    rw [hr] at h
    cases v <;> simp at h
    split at h <;> simp at h
  | brk _ => rw [hr] at h; simp at h
  | cont _ => rw [hr] at h; simp at h
  | ret _ _ => rw [hr] at h; simp at h
  | err _ _ => rw [hr] at h; simp at h
  | unspec _ => rw [hr] at h; simp at h

theorem evalE_assign_fuel {f : Nat} {r : Ref} {e : RExpr} {st : SState} (h : evalE (f + 1) (.assignVar r e) st = .fuel) :
    evalE f e st = .fuel := by
  simp only [evalE] at h
  cases hr : evalE f e st with
  | fuel => rfl
  | val v st1 => rw [hr] at h; simp at h
  | brk _ => rw [hr] at h; simp at h
  | cont _ => rw [hr] at h; simp at h
  | ret _ _ => rw [hr] at h; simp at h
  | err _ _ => rw [hr] at h; simp at h
  | unspec _ => rw [hr] at h; simp at h

theorem evalE_bin_fuel {f : Nat} {l r : RExpr} {op : BinOp} {st : SState} (h : evalE (f + 1) (.infix l op r) st = .fuel) :
    evalE f l st = .fuel ∨ ∃ a st1, evalE f l st = .val a st1 ∧ evalE f r st1 = .fuel := by
  simp only [evalE] at h
  cases hl : evalE f l st with
  | fuel => exact .inl rfl
  | val a st1 =>
    rw [hl] at h
    simp only at h
    cases hr : evalE f r st1 with
    | fuel => exact .inr ⟨a, st1, rfl, hr⟩
    | val b st2 =>
      rw [hr] at h
      simp only at h
      split at h <;> simp at h
    | brk _ => rw [hr] at h; simp at h
    | cont _ => rw [hr] at h; simp at h
    | ret _ _ => rw [hr] at h; simp at h
    | err _ _ => rw [hr] at h; simp at h
    | unspec _ => rw [hr] at h; simp at h
  | brk _ => rw [hl] at h; simp at h
  | cont _ => rw [hl] at h; simp at h
  | ret _ _ => rw [hl] at h; simp at h
  | err _ _ => rw [hl] at h; simp at h
  | unspec _ => rw [hl] at h; simp at h

theorem evalE_if_fuel {f : Nat} {c : RExpr} {t : RBlock} {e : ROptBlock} {st : SState}
    (h : evalE (f + 1) (.ifE c t e) st = .fuel) :
    evalE f c st = .fuel ∨
    (∃ st1, evalE f c st = .val (.bool true) st1 ∧ evalBV f t st1 = .fuel) ∨
    (∃ st1 b, evalE f c st = .val (.bool false) st1 ∧ e = .some b ∧ evalBV f b st1 = .fuel) := by
  simp only [evalE] at h
  cases hc : evalE f c st with
  | fuel => exact .inl rfl
  | val v st1 =>
    rw [hc] at h
    cases v with
    | bool bb =>
      cases bb with
      | true => exact .inr (.inl ⟨st1, rfl, by simpa using h⟩)
      | false =>
        cases e with
        | none => simp at h
        | some b => exact .inr (.inr ⟨st1, b, rfl, rfl, by simpa using h⟩)
    | null => simp at h
    | int _ => simp at h
    | float _ => simp at h
    | str _ => simp at h
    | arr _ => simp at h
    | fn _ _ _ _ => simp at h
  | brk _ => rw [hc] at h; simp at h
  | cont _ => rw [hc] at h; simp at h
  | ret _ _ => rw [hc] at h; simp at h
  | err _ _ => rw [hc] at h; simp at h
  | unspec _ => rw [hc] at h; simp at h

theorem evalE_while_fuel {f : Nat} {c : RExpr} {b : RBlock} {st : SState}
    (h : evalE (f + 1) (.whileE c b) st = .fuel) : evalLoop f c b .null st = .fuel := by
  simpa only [evalE] using h

/-- the loop from its head: the condition, or the body, or a later iteration runs out of fuel -/
theorem evalLoop_fuel {f : Nat} {c : RExpr} {b : RBlock} {acc : SVal} {st : SState}
    (h : evalLoop (f + 1) c b acc st = .fuel) :
    evalE f c st = .fuel ∨ (∃ st1, evalE f c st = .brk st1) ∨ (∃ st1, evalE f c st = .cont st1) ∨
    ∃ st1, evalE f c st = .val (.bool true) st1 ∧
      (evalBV f b { st1 with last := acc } = .fuel ∨
       (∃ v st2, evalBV f b { st1 with last := acc } = .val v st2 ∧ evalLoop f c b v st2 = .fuel) ∨
       (∃ st2, evalBV f b { st1 with last := acc } = .cont st2 ∧ evalLoop f c b .null st2 = .fuel)) := by
  simp only [evalLoop] at h
  cases hc : evalE f c st with
  | fuel => exact .inl rfl
  | brk st1 => exact .inr (.inl ⟨st1, rfl⟩)
  | cont st1 => exact .inr (.inr (.inl ⟨st1, rfl⟩))
  | val v st1 =>
    rw [hc] at h
    cases v with
    | bool bb =>
      cases bb with
      | false => simp at h
      | true =>
        simp only at h
        refine .inr (.inr (.inr ⟨st1, rfl, ?_⟩))
        cases hb : evalBV f b { st1 with last := acc } with
        | fuel => exact .inl rfl
        | val w st2 => rw [hb] at h; exact .inr (.inl ⟨w, st2, rfl, by simpa using h⟩)
        | cont st2 => rw [hb] at h; exact .inr (.inr ⟨st2, rfl, by simpa using h⟩)
        | brk _ => rw [hb] at h; simp at h
        | ret _ _ => rw [hb] at h; simp at h
        | err _ _ => rw [hb] at h; simp at h
        | unspec _ => rw [hb] at h; simp at h
    | null => simp at h
    | int _ => simp at h
    | float _ => simp at h
    | str _ => simp at h
    | arr _ => simp at h
    | fn _ _ _ _ => simp at h
  | ret _ _ => rw [hc] at h; simp at h
  | err _ _ => rw [hc] at h; simp at h
  | unspec _ => rw [hc] at h; simp at h

theorem liftU_fuel {r : Res Unit} {k : SState → Res SVal} (h : liftU r k = .fuel) :
    r = .fuel ∨ ∃ st1, r = .val () st1 ∧ k st1 = .fuel := by
  cases r with
  | fuel => exact .inl rfl
  | val u st1 => exact .inr ⟨st1, rfl, h⟩
  | brk _ => simp [liftU] at h
  | cont _ => simp [liftU] at h
  | ret _ _ => simp [liftU] at h
  | err _ _ => simp [liftU] at h
  | unspec _ => simp [liftU] at h

theorem evalS_expr_fuel {f : Nat} {e : RExpr} {st : SState} (h : evalS (f + 1) (.expr e) st = .fuel) :
    evalE f e st = .fuel := by
  simp only [evalS] at h
  cases hr : evalE f e st with
  | fuel => rfl
  | val v st1 => rw [hr] at h; simp at h
  | brk _ => rw [hr] at h; simp at h
  | cont _ => rw [hr] at h; simp at h
  | ret _ _ => rw [hr] at h; simp at h
  | err _ _ => rw [hr] at h; simp at h
  | unspec _ => rw [hr] at h; simp at h

theorem evalS_let_fuel {f : Nat} {r : Ref} {e : RExpr} {st : SState} (h : evalS (f + 1) (.letS r e) st = .fuel) :
    evalE f e (st.unbind r) = .fuel := by
  simp only [evalS] at h
  cases hr : evalE f e (st.unbind r) with
  | fuel => rfl
  | val v st1 => rw [hr] at h; simp at h
  | brk _ => rw [hr] at h; simp at h
  | cont _ => rw [hr] at h; simp at h
  | ret _ _ => rw [hr] at h; simp at h
  | err _ _ => rw [hr] at h; simp at h
  | unspec _ => rw [hr] at h; simp at h

theorem evalS_block_fuel {f : Nat} {b : RBlock} {st : SState} (h : evalS (f + 1) (.block b) st = .fuel) :
    evalB f b st = .fuel := by
  simpa only [evalS] using h

theorem evalB_cons_fuel {f : Nat} {s : RStmt} {rest : RBlock} {st : SState} (h : evalB (f + 1) (.cons s rest) st = .fuel) :
    evalS f s st = .fuel ∨ ∃ st1, evalS f s st = .val () st1 ∧ evalB f rest st1 = .fuel := by
  simp only [evalB] at h
  cases hr : evalS f s st with
  | fuel => exact .inl rfl
  | val u st1 => rw [hr] at h; exact .inr ⟨st1, rfl, by simpa using h⟩
  | brk _ => rw [hr] at h; simp at h
  | cont _ => rw [hr] at h; simp at h
  | ret _ _ => rw [hr] at h; simp at h
  | err _ _ => rw [hr] at h; simp at h
  | unspec _ => rw [hr] at h; simp at h

end Sim
end Nl
