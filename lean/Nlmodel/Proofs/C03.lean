/-
  C03 — a value that is still reachable is never reclaimed.
  Statements about the collector model (Model/GC: the mirror of gc.rs after repair F21) on the
  heap store of the machine model.
-/
import Nlmodel.Proofs.Lemmas.GCReach
import Nlmodel.Model.Pipeline
namespace Nl
namespace C03
open GC

/-- the mark phase reaches every managed object that is reachable from the roots through arrays —
    nested, aliased and cyclic ones included — with the fuel the collector supplies -/
theorem C03_mark_complete (h : Heap) (man : List Nat) (roots : List Value) (hk : HeapKindOK h)
    (hr : ∀ v ∈ roots, KindOK h v) (a : Nat) (ha : Reach h man roots a) : a ∈ markAll h man roots :=
  markAll_complete h man roots hk hr a ha

/-- whenever the collector runs, every managed object reachable from the roots stays managed and
    keeps exactly its contents; so does every object the collector does not manage -/
theorem C03_collect_preserves (m : Mem) (roots : List Value) (hk : HeapKindOK m.heap)
    (hr : ∀ v ∈ roots, KindOK m.heap v) (a : Nat)
    (ha : Reach m.heap m.managed roots a ∨ a ∉ m.managed) :
    (run m roots).heap.get a = m.heap.get a ∧ (a ∈ m.managed → a ∈ (run m roots).managed) := by
  unfold run
  by_cases he : m.managed.isEmpty = true
  · simp [he]
  · simp only [he, Bool.false_eq_true, ↓reduceIte]
    have hnd : a ∉ m.managed.filter (fun x => !(markAll m.heap m.managed roots).contains x) := by
      intro hd
      simp only [List.mem_filter, Bool.not_eq_true', List.contains_eq_mem, decide_eq_false_iff_not] at hd
      cases ha with
      | inl hreach => exact hd.2 (markAll_complete m.heap m.managed roots hk hr a hreach)
      | inr hnm => exact hnm hd.1
    refine ⟨freeAll_get_other _ _ _ hnd, ?_⟩
    intro hm
    cases ha with
    | inl hreach =>
      simp only [List.mem_filter, List.contains_eq_mem, decide_eq_true_eq]
      exact ⟨hm, markAll_complete m.heap m.managed roots hk hr a hreach⟩
    | inr hnm => exact absurd hm hnm

/-- no object is released twice: the collector's object list never holds an address twice (an
    invariant of allocation, collection and hand-over), so each sweep releases each object once -/
theorem C03_managed_nodup_alloc (m : Mem) (c : Cell) (hn : m.managed.Nodup) (hb : ∀ a ∈ m.managed, a < m.heap.cells.size) :
    ((m.heap.alloc c).2 :: m.managed).Nodup ∧ ∀ a ∈ (m.heap.alloc c).2 :: m.managed, a < (m.heap.alloc c).1.cells.size := by
  simp only [Heap.alloc, List.nodup_cons, Array.size_push]
  refine ⟨⟨?_, hn⟩, ?_⟩
  · intro hmem; have := hb _ hmem; omega
  · intro a ha
    cases List.mem_cons.1 ha with
    | inl e => omega
    | inr e => have := hb a e; omega

theorem C03_managed_nodup_run (m : Mem) (roots : List Value) (hn : m.managed.Nodup) :
    (run m roots).managed.Nodup ∧
    (m.managed.filter (fun x => !(markAll m.heap m.managed roots).contains x)).Nodup := by
  unfold run
  by_cases he : m.managed.isEmpty = true
  · simp [he, hn]
    exact hn.filter _
  · simp only [he, Bool.false_eq_true, ↓reduceIte]
    exact ⟨hn.filter _, hn.filter _⟩

/-- hand-over (`untrace`) only ever removes addresses from the collector's list -/
theorem C03_untrace_sublist (h : Heap) : ∀ f man v, (untrace h f man v).Sublist man := by
  intro f
  induction f with
  | zero => intro man v; exact List.Sublist.refl _
  | succ f ih =>
    intro man v
    cases v with
    | null => exact List.Sublist.refl _
    | bool _ => exact List.Sublist.refl _
    | int _ => exact List.Sublist.refl _
    | fn _ _ => exact List.Sublist.refl _
    | float a => simp only [untrace]; split; exact List.erase_sublist; exact List.Sublist.refl _
    | str a => simp only [untrace]; split; exact List.erase_sublist; exact List.Sublist.refl _
    | arr a =>
      simp only [untrace]
      split
      · have fold : ∀ (l : List Value) (N : List Nat), (l.foldl (untrace h f) N).Sublist N := by
          intro l
          induction l with
          | nil => intro N; exact List.Sublist.refl _
          | cons e l ihl => intro N; simp only [List.foldl_cons]; exact (ihl _).trans (ih N e)
        exact (fold _ _).trans List.erase_sublist
      · exact List.Sublist.refl _

theorem C03_managed_nodup_untrace (h : Heap) (f : Nat) (man : List Nat) (v : Value) (hn : man.Nodup) :
    (untrace h f man v).Nodup := (C03_untrace_sublist h f man v).nodup hn

/-- a concrete cyclic heap meets the hypotheses (non-vacuity): a = [b], b = [a, 1.5] with root a -/
example : HeapKindOK { cells := #[.arr [.arr 1], .arr [.arr 0, .float 2], .float 0] } := by
  intro a v hv
  match a with
  | 0 => simp [Heap.arrAt, Heap.get] at hv; subst hv; trivial
  | 1 =>
    simp [Heap.arrAt, Heap.get] at hv
    rcases hv with rfl | rfl
    · trivial
    · simp [KindOK, Heap.arrAt, Heap.get]
  | 2 => simp [Heap.arrAt, Heap.get] at hv
  | n + 3 => simp [Heap.arrAt, Heap.get] at hv

end C03
end Nl
