/- Stage 7, divergence preservation: non-vacuity.  A program with a function literal NESTED in a function body — returned
   and called at once — whose call never ends; the definitional evaluation is proved to run out of every fuel and all
   hypotheses of `program_div7` are discharged. -/
import Nlmodel.Proofs.Lemmas.Div7Text
import Nlmodel.Proofs.Lemmas.Div6Example
namespace Nl
namespace Sim7
open Spec Sim Sim6

/-- `stel f = functie() { functie(x) { zolang ja { } } }; f()(1)` -/
def ex7DivAst : Block :=
  .cons (.letS "f".toList (.func [] [] (.cons (.expr (.func [] ["x".toList] (.cons (.expr (.whileE (.bool true) .nil)) .nil))) .nil)))
  (.cons (.expr (.call (.call (.ident "f".toList) .nil) (.cons (.int 1) .nil))) .nil)

/-- the body of the inner literal, the inner function value, the body of `f`, the value of `f`, the call `f()(1)` -/
def ex7G : RBlock := .cons (.expr (.whileE (.bool true) .nil)) .nil
def ex7FnG : SVal := .fn 1 [1] 1 ex7G
def ex7F : RBlock := .cons (.expr (.func 1 none [1] 1 ex7G)) .nil
def ex7FnF : SVal := .fn 0 [] 0 ex7F
def ex7Call : RExpr := .call (.call (.var ⟨0, .global 0⟩) .nil) (.cons (.int 1) .nil)
def ex7R : RBlock := .cons (.letS ⟨0, .global 0⟩ (.func 0 none [] 0 ex7F)) (.cons (.expr ex7Call) .nil)

theorem ex7_bodyG (F : Nat) (st : SState) : evalBV F ex7G st = .fuel := by
  cases F with
  | zero => rfl
  | succ F =>
    simp only [ex7G, evalBV]
    cases F with
    | zero => rfl
    | succ F => simp only [evalE]; exact exLoop_loop _ _ _

theorem ex7_args (F : Nat) (st : SState) :
    evalEs F (.cons (.int 1) .nil) st = .fuel ∨ evalEs F (.cons (.int 1) .nil) st = .val [.int 1] st := by
  cases F with
  | zero => exact .inl rfl
  | succ F =>
    cases F with
    | zero => exact .inl rfl
    | succ F => right; simp only [evalEs, evalE]

/-- `f()`: out of fuel, or the inner function, the state unchanged -/
theorem ex7_inner (F : Nat) (st : SState) (hg : envGet st.genv 0 = some ex7FnF) :
    evalE F (.call (.var ⟨0, .global 0⟩) .nil) st = .fuel ∨ evalE F (.call (.var ⟨0, .global 0⟩) .nil) st = .val ex7FnG st := by
  cases F with
  | zero => exact .inl rfl
  | succ F =>
    rw [evalE_call]
    cases F with
    | zero => exact .inl rfl
    | succ F =>
      have h1 : evalEs (F + 1) .nil st = .val [] st := by simp only [evalEs]
      have h2 : evalE (F + 1) (.var ⟨0, .global 0⟩) st = .val ex7FnF st := by
        simp only [evalE, SState.lookup, isGlobalSlot, ↓reduceIte, hg]
      rw [h1]; simp only [bindR]
      rw [h2]; simp only [specCall, ex7FnF, List.length_nil, Nat.lt_irrefl, gt_iff_lt, ↓reduceIte]
      cases F with
      | zero => exact .inl rfl
      | succ F =>
        right
        simp only [ex7F, evalBV, evalE]
        rfl

theorem ex7_call (F : Nat) (st : SState) (hg : envGet st.genv 0 = some ex7FnF) : evalE F ex7Call st = .fuel := by
  cases F with
  | zero => rfl
  | succ F =>
    rw [ex7Call, evalE_call]
    rcases ex7_args F st with h | h
    · simp only [h, bindR]
    · rw [h]; simp only [bindR]
      rcases ex7_inner F st hg with h2 | h2
      · simp only [h2]
      · rw [h2]; simp only [specCall, ex7FnG, List.length_cons, List.length_nil, Nat.lt_irrefl, gt_iff_lt, ↓reduceIte]
        have := ex7_bodyG F { st with lenv := bindParams [1] [.int 1] }
        rw [this]

theorem ex7_diverges : ∀ F, evalB F ex7R {} = .fuel := by
  intro F
  cases F with
  | zero => rfl
  | succ F =>
    rw [ex7R, evalB_cons]
    cases F with
    | zero => rfl
    | succ F =>
      rw [evalS_let]
      cases F with
      | zero => rfl
      | succ F =>
        simp only [evalE, bindR]
        have hcall := ex7_call F ((({} : SState).unbind ⟨0, .global 0⟩).bind ⟨0, .global 0⟩ (.fn 0 [] 0 ex7F)) (by rfl)
        rw [evalB_cons, evalS_expr, hcall]
        rfl

/-- non-vacuity, stage 7 (a function literal nested in a function body whose call never ends) -/
example : ∃ bc, compileProgram ex7DivAst = .ok (ex7R, bc) ∧ inFragment7 ex7R = true ∧ (∀ F, Spec.evalB F ex7R {} = .fuel) ∧
    ∀ n, (∃ s', runSteps bc.code n (VM.start {} bc) = .budget s') ∨
         HitsLimit bc := by
  have hin : inFragment7 ex7R = true := by decide
  cases hc : compileProgram ex7DivAst with
  | error e =>
    have h0 : (match compileProgram ex7DivAst with | .ok _ => true | .error _ => false) = true := by decide
    rw [hc] at h0; cases h0
  | ok q =>
    obtain ⟨r, bc⟩ := q
    have hr : r = ex7R := by
      have := resolve_of_compile hc
      have h2 : resolveProgram ex7DivAst = .ok ex7R := by rfl
      rw [h2] at this; injection this with this; exact this.symm
    subst hr
    exact ⟨bc, rfl, hin, ex7_diverges, program_div7 ex7DivAst ex7R bc hc hin ex7_diverges⟩

/-- … and the source-level check of the no-validation theorems accepts the text's tree -/
example : src7Top ex7DivAst = true := by decide

end Sim7
end Nl
