import Nlmodel.Proofs.Lemmas.NameEvalFnSimDefs
namespace Nl
namespace NameEvalFn
open Spec SimF Sim
open NameEval (All2 findBid bids postS)

/-- after `define n` the name `n` resolves to a reference that `bind` cannot tell from the one `define` returned -/
theorem define_resolve (fn : Bool) (st : RState) (sc : List (Text × Nat)) (scs gscs : Scs) (F : Nat)
    (hinv : RInv fn st (sc :: scs) gscs F) (hgs : fn = true → ∃ gsc, gscs = [gsc]) (n : Text) :
    ∃ r, (st.define n).1.resolve n = some r ∧ ∀ (σ' : SState) (w : SVal), σ'.bind r w = σ'.bind (st.define n).2 w := by
  have hfb : findBid ((((n, st.nextId) :: sc) :: scs).flatten) n = some st.nextId := by simp [findBid]
  cases fn with
  | false =>
    have hinv1 := (rinv_define false st sc scs gscs F hinv n).1
    have hinv1' : RInv false (st.define n).1 (((n, st.nextId) :: sc) :: scs) [] F :=
      ⟨hinv1.shapeF, (fun hc => by cases hc), hinv1.fresh, hinv1.fid⟩
    obtain ⟨k, hk⟩ := (resolve_top _ _ F hinv1' n).2 st.nextId hfb
    have href := rinv_define_refF st sc scs gscs F hinv n
    exact ⟨_, hk, fun σ' w => by rw [href, bind_global, bind_global]⟩
  | true =>
    obtain ⟨gsc, rfl⟩ := hgs rfl
    have hinv1 := (rinv_define true st sc scs [gsc] F hinv n).1
    obtain ⟨k, hk⟩ := (resolve_body _ _ gsc F hinv1 n).1 st.nextId hfb
    have href := (rinv_define_refT st sc scs [gsc] F hinv n).1
    exact ⟨_, hk, fun σ' w => by rw [href, bind_loc, bind_loc]⟩

theorem qs_succ (f : Nat) (q : QAll f) : QS (f + 1) := by
  intro s fn ab sc scs gscs Tb F N st s' st' ρ σ hs hinv h hrel
  cases hs with
  | expr _ e hse =>
    simp only [resolveS] at h
    cases hr : resolveE e st with
    | error er => simp [hr] at h
    | ok p =>
      obtain ⟨e1, st1⟩ := p
      simp only [hr] at h
      injection h with h; injection h with h1 h2; subst h1
      have ih := q.e e fn ab (sc :: scs) gscs Tb F N st e1 st1 ρ σ hse hinv hr hrel
      simp only [NameEvalFn.evalS, Spec.evalS, postS]
      rcases ih.inv with ⟨a, b, ρ1, σ1, hn, hs, hv, hr1⟩ | ⟨ρ1, σ1, hn, hs, hr1⟩ | ⟨ρ1, σ1, hn, hs, hr1⟩ |
        ⟨v, w, ρ1, σ1, hn, hs, hv, hr1⟩ | ⟨er, ρ1, σ1, hn, hs, hr1⟩ | ⟨ρ1, σ1, hn, hs⟩ | ⟨hn, hs⟩
      · simp only [hn, hs]; exact .val () () _ _ trivial (hr1.setLast a b hv)
      · simp only [hn, hs]; exact .brk _ _ ⟨sc, hr1⟩
      · simp only [hn, hs]; exact .cont _ _ ⟨sc, hr1⟩
      · pass_ret hn hs hv hr1
      · pass_on hn hs hr1
      · pass_on hn hs hn
      · pass_on hn hs hn
  | letS _ n e hse =>
    simp only [resolveS] at h
    have hinv1 := (rinv_define fn st sc scs gscs F hinv n).1
    cases hr : resolveE e (st.define n).1 with
    | error er => simp [hr] at h
    | ok p =>
      obtain ⟨e1, st1⟩ := p
      simp only [hr] at h
      injection h with h; injection h with h1 h2; subst h1
      have hrel0 := R.declare hinv hrel n
      have hgs : fn = true → ∃ gsc, gscs = [gsc] := by
        intro hfn; subst hfn
        obtain ⟨gsc, hg, _⟩ := hrel.l
        exact ⟨gsc, hg⟩
      obtain ⟨r, hres, hbind⟩ := define_resolve fn st sc scs gscs F hinv hgs n
      have ih := q.e e fn ab _ gscs Tb F N _ e1 st1 (ρ.declare n) _ hse hinv1 hr hrel0
      simp only [NameEvalFn.evalS, Spec.evalS, postS]
      rcases ih.inv with ⟨a, b, ρ1, σ1, hn, hs, hv, hr1⟩ | ⟨ρ1, σ1, hn, hs, hr1⟩ | ⟨ρ1, σ1, hn, hs, hr1⟩ |
        ⟨v, w, ρ1, σ1, hn, hs, hv, hr1⟩ | ⟨er, ρ1, σ1, hn, hs, hr1⟩ | ⟨ρ1, σ1, hn, hs⟩ | ⟨hn, hs⟩
      · obtain ⟨ρ2, ha, hr2⟩ := R.assign hinv1 hr1 n r hres a b hv
        rw [hbind] at hr2
        simp only [hn, hs, ha]
        exact .val () () _ _ trivial hr2
      · simp only [hn, hs]; exact .brk _ _ ⟨_, hr1⟩
      · simp only [hn, hs]; exact .cont _ _ ⟨_, hr1⟩
      · pass_ret hn hs hv hr1
      · pass_on hn hs hr1
      · pass_on hn hs hn
      · pass_on hn hs hn
  | block _ b hsb =>
    simp only [resolveS] at h
    cases hb : resolveB b st with
    | error er => simp [hb] at h
    | ok p =>
      obtain ⟨b1, st1⟩ := p
      simp only [hb] at h
      injection h with h; injection h with h1 h2; subst h1
      have ih := q.b b fn ab (sc :: scs) gscs Tb F N st b1 st1 ρ σ hsb hinv hb hrel
      simp only [NameEvalFn.evalS, Spec.evalS, postS]
      exact ih.mono (fun _ _ h => h) (fun _ _ h => h) (fun _ _ h => ⟨sc, h⟩)
  | brk =>
    simp only [resolveS] at h
    split at h
    · cases h
    · injection h with h; injection h with h1 h2; subst h1
      simp only [NameEvalFn.evalS, Spec.evalS]
      exact .brk _ _ ⟨sc, hrel⟩
  | cont =>
    simp only [resolveS] at h
    split at h
    · cases h
    · injection h with h; injection h with h1 h2; subst h1
      simp only [NameEvalFn.evalS, Spec.evalS]
      exact .cont _ _ ⟨sc, hrel⟩
  | ret _ e hfn hse =>
    subst hfn
    simp only [resolveS] at h
    split at h
    · cases h
    · cases hr : resolveE e st with
      | error er => simp [hr] at h
      | ok p =>
        obtain ⟨e1, st1⟩ := p
        simp only [hr] at h
        injection h with h; injection h with h1 h2; subst h1
        have ih := q.e e true ab (sc :: scs) gscs Tb F N st e1 st1 ρ σ hse hinv hr hrel
        simp only [NameEvalFn.evalS, Spec.evalS, postS]
        rcases ih.inv with ⟨a, b, ρ1, σ1, hn, hs, hv, hr1⟩ | ⟨ρ1, σ1, hn, hs, hr1⟩ | ⟨ρ1, σ1, hn, hs, hr1⟩ |
          ⟨v, w, ρ1, σ1, hn, hs, hv, hr1⟩ | ⟨er, ρ1, σ1, hn, hs, hr1⟩ | ⟨ρ1, σ1, hn, hs⟩ | ⟨hn, hs⟩
        · simp only [hn, hs]; exact .ret _ _ _ _ hv hr1.toRt
        · simp only [hn, hs]; exact .brk _ _ ⟨sc, hr1⟩
        · simp only [hn, hs]; exact .cont _ _ ⟨sc, hr1⟩
        · pass_ret hn hs hv hr1
        · pass_on hn hs hr1
        · pass_on hn hs hn
        · pass_on hn hs hn

theorem qss_succ (f : Nat) (q : QAll f) : QSs (f + 1) := by
  intro b fn ab sc scs gscs Tb F N st b' st' ρ σ hs hinv h hrel
  cases hs with
  | nil =>
    simp only [resolveSs] at h; injection h with h; injection h with h1 h2; subst h1
    simp only [NameEvalFn.evalSs, Spec.evalB]
    exact .val () () _ _ trivial ⟨sc, hrel⟩
  | cons _ s rest hss hsrest =>
    simp only [resolveSs] at h
    cases hr : resolveS s st with
    | error er => simp [hr] at h
    | ok p =>
      obtain ⟨s1, st1⟩ := p
      simp only [hr] at h
      cases hr2 : resolveSs rest st1 with
      | error er => simp [hr2] at h
      | ok p2 =>
        obtain ⟨b1, st2⟩ := p2
        simp only [hr2] at h
        injection h with h; injection h with h1 h2; subst h1
        have hi1 := rS_post fn s ab sc scs gscs F st s1 st1 hss hinv hr
        have ih := q.s s fn ab sc scs gscs Tb F N st s1 st1 ρ σ hss hinv hr hrel
        simp only [NameEvalFn.evalSs, Spec.evalB]
        rcases ih.inv with ⟨a, b, ρ1, σ1, hn, hs, hv, hr1⟩ | ⟨ρ1, σ1, hn, hs, hr1⟩ | ⟨ρ1, σ1, hn, hs, hr1⟩ |
          ⟨v, w, ρ1, σ1, hn, hs, hv, hr1⟩ | ⟨er, ρ1, σ1, hn, hs, hr1⟩ | ⟨ρ1, σ1, hn, hs⟩ | ⟨hn, hs⟩
        · cases a; cases b
          simp only [hn, hs]
          exact q.ss rest fn ab _ scs gscs Tb F N st1 b1 st2 ρ1 σ1 hsrest hi1 hr2 hr1
        · pass_on hn hs hr1
        · pass_on hn hs hr1
        · pass_ret hn hs hv hr1
        · pass_on hn hs hr1
        · pass_on hn hs hn
        · pass_on hn hs hn

end NameEvalFn
end Nl
