/-
  UTF-8 refinement, part 3: decoding.
    (U2, decoding part) the character read at the offset of the `i`-th span is `cs[i]`
    (U5) `encode` is injective
    (U7) `decode (encode cs) = some cs`
-/
import Nlmodel.Proofs.Lemmas.Utf8Scan
namespace Nl
namespace Utf8

theorem mkChar_toNat (c : Char) : mkChar c.toNat = some c := by
  unfold mkChar
  have hv : c.toNat.isValidChar := c.valid
  rw [if_pos hv, Char.ofNat_toNat]

/-! ### the decoder on well-formed sequences of each width -/

theorem decodeFirst_w1 (b0 : UInt8) (r : List UInt8) (h : b0.toNat < 0x80) :
    decodeFirst (b0 :: r) = (mkChar b0.toNat).map (·, 1) := by
  simp only [decodeFirst]
  rw [if_pos h]

theorem decodeFirst_w2 (b0 b1 : UInt8) (r : List UInt8) (h0 : 0xC0 ≤ b0.toNat) (h0' : b0.toNat < 0xE0)
    (h1 : isCont b1 = true) (hn : 0x80 ≤ (b0.toNat - 0xC0) * 64 + contBits b1) :
    decodeFirst (b0 :: b1 :: r) = (mkChar ((b0.toNat - 0xC0) * 64 + contBits b1)).map (·, 2) := by
  simp only [decodeFirst]
  rw [if_neg (by omega), if_neg (by omega), if_pos h0', if_pos h1, if_pos hn]

theorem decodeFirst_w3 (b0 b1 b2 : UInt8) (r : List UInt8) (h0 : 0xE0 ≤ b0.toNat) (h0' : b0.toNat < 0xF0)
    (h1 : isCont b1 = true) (h2 : isCont b2 = true)
    (hn : 0x800 ≤ (b0.toNat - 0xE0) * 4096 + contBits b1 * 64 + contBits b2) :
    decodeFirst (b0 :: b1 :: b2 :: r) =
      (mkChar ((b0.toNat - 0xE0) * 4096 + contBits b1 * 64 + contBits b2)).map (·, 3) := by
  simp only [decodeFirst]
  rw [if_neg (by omega), if_neg (by omega), if_neg (by omega), if_pos h0', h1, h2]
  rw [if_pos (by rfl), if_pos hn]

theorem decodeFirst_w4 (b0 b1 b2 b3 : UInt8) (r : List UInt8) (h0 : 0xF0 ≤ b0.toNat) (h0' : b0.toNat < 0xF8)
    (h1 : isCont b1 = true) (h2 : isCont b2 = true) (h3 : isCont b3 = true)
    (hn : 0x10000 ≤ (b0.toNat - 0xF0) * 262144 + contBits b1 * 4096 + contBits b2 * 64 + contBits b3) :
    decodeFirst (b0 :: b1 :: b2 :: b3 :: r) =
      (mkChar ((b0.toNat - 0xF0) * 262144 + contBits b1 * 4096 + contBits b2 * 64 + contBits b3)).map
        (·, 4) := by
  simp only [decodeFirst]
  rw [if_neg (by omega), if_neg (by omega), if_neg (by omega), if_neg (by omega), if_pos h0', h1, h2, h3]
  rw [if_pos (by rfl), if_pos hn]

/-- reading the first character of `encodeChar c ++ rest` gives back `c` and its width -/
theorem decodeFirst_encodeChar_append (c : Char) (rest : List UInt8) :
    decodeFirst (encodeChar c ++ rest) = some (c, (encodeChar c).length) := by
  rcases encodeChar_cases c with ⟨h, b0, e, v0⟩ | ⟨h, h', b0, b1, e, v0, v1⟩ |
      ⟨h, h', b0, b1, b2, e, v0, v1, v2⟩ | ⟨h, h', b0, b1, b2, b3, e, v0, v1, v2, v3⟩
  · rw [e, List.cons_append, decodeFirst_w1 _ _ (by omega), v0, mkChar_toNat]; rfl
  · have c1 : isCont b1 = true := (isCont_iff _).2 (by omega)
    have hn : (b0.toNat - 0xC0) * 64 + contBits b1 = c.toNat := by unfold contBits; omega
    rw [e]
    simp only [List.cons_append]
    rw [decodeFirst_w2 _ _ _ (by omega) (by omega) c1 (by omega), hn, mkChar_toNat]; rfl
  · have c1 : isCont b1 = true := (isCont_iff _).2 (by omega)
    have c2 : isCont b2 = true := (isCont_iff _).2 (by omega)
    have hn : (b0.toNat - 0xE0) * 4096 + contBits b1 * 64 + contBits b2 = c.toNat := by
      unfold contBits; omega
    rw [e]
    simp only [List.cons_append]
    rw [decodeFirst_w3 _ _ _ _ (by omega) (by omega) c1 c2 (by omega), hn, mkChar_toNat]; rfl
  · have c1 : isCont b1 = true := (isCont_iff _).2 (by omega)
    have c2 : isCont b2 = true := (isCont_iff _).2 (by omega)
    have c3 : isCont b3 = true := (isCont_iff _).2 (by omega)
    have hn : (b0.toNat - 0xF0) * 262144 + contBits b1 * 4096 + contBits b2 * 64 + contBits b3
        = c.toNat := by unfold contBits; omega
    rw [e]
    simp only [List.cons_append]
    rw [decodeFirst_w4 _ _ _ _ _ (by omega) (by omega) c1 c2 c3 (by omega), hn, mkChar_toNat]; rfl

/-! ### (U2) decoding at the span -/

/-- (U2, decoding part) at the byte offset of the `i`-th character one reads `cs[i]` -/
theorem decodeAt_encode (cs : List Char) (i : Nat) (h : i < cs.length) :
    decodeAt (encode cs) (encode (cs.take i)).length = some cs[i] := by
  unfold decodeAt
  rw [drop_encode_take, ← List.getElem_cons_drop (h := h), encode_cons, decodeFirst_encodeChar_append]
  rfl

/-- (U2) both parts together, for whatever span `nthSpan` returns -/
theorem nthSpan_decodeAt (cs : List Char) (i off w : Nat) (hs : nthSpan (encode cs) i = some (off, w)) :
    ∃ h : i < cs.length, off = (encode (cs.take i)).length ∧ w = (encodeChar cs[i]).length ∧
      decodeAt (encode cs) off = some cs[i] := by
  obtain ⟨h, rfl, rfl⟩ := (nthSpan_encode_iff cs i off w).1 hs
  exact ⟨h, rfl, rfl, decodeAt_encode cs i h⟩

/-! ### (U5) injectivity -/

theorem encodeChar_append_inj (x y : Char) (s t : List UInt8)
    (h : encodeChar x ++ s = encodeChar y ++ t) : x = y ∧ s = t := by
  have hx := decodeFirst_encodeChar_append x s
  rw [h, decodeFirst_encodeChar_append] at hx
  injection hx with hx
  injection hx with hxy _
  subst hxy
  exact ⟨rfl, List.append_cancel_left h⟩

/-- (U5) different texts have different bytes: bytewise `==` is character-wise `==` -/
theorem encode_injective (a b : List Char) (h : encode a = encode b) : a = b := by
  induction a generalizing b with
  | nil =>
    cases b with
    | nil => rfl
    | cons y ys =>
      have : 0 < (encode (y :: ys)).length := by
        rw [encode_cons, List.length_append]; have := encodeChar_length_pos y; omega
      rw [← h] at this; simp [encode_nil] at this
  | cons x xs ih =>
    cases b with
    | nil =>
      have : 0 < (encode (x :: xs)).length := by
        rw [encode_cons, List.length_append]; have := encodeChar_length_pos x; omega
      rw [h] at this; simp [encode_nil] at this
    | cons y ys =>
      rw [encode_cons, encode_cons] at h
      obtain ⟨rfl, h'⟩ := encodeChar_append_inj x y _ _ h
      rw [ih ys h']

theorem encode_inj_iff (a b : List Char) : encode a = encode b ↔ a = b :=
  ⟨encode_injective a b, fun h => by rw [h]⟩

theorem byteEq_iff (a b : List UInt8) : byteEq a b = true ↔ a = b := by
  induction a generalizing b with
  | nil => cases b <;> simp [byteEq]
  | cons x xs ih => cases b <;> simp [byteEq, ih]

/-- (U5) bytewise `==` on the encodings is `==` on the texts (the model's `x == y`) -/
theorem byteEq_encode (a b : List Char) : byteEq (encode a) (encode b) = (a == b) := by
  rw [Bool.eq_iff_iff, byteEq_iff, encode_inj_iff]; simp

/-! ### (U7) the strict decoder inverts the encoder -/

theorem decodeFuel_encode (cs : List Char) (f : Nat) (hf : cs.length ≤ f) :
    decodeFuel f (encode cs) = some cs := by
  induction cs generalizing f with
  | nil => cases f <;> rfl
  | cons c cs ih =>
    cases f with
    | zero => simp at hf
    | succ f =>
      obtain ⟨lead, tl, e, _, _⟩ := scan_step c (encode cs)
      have hd := decodeFirst_encodeChar_append c (encode cs)
      rw [encode_cons]
      rw [e] at hd ⊢
      simp only [decodeFuel, hd]
      rw [← e, List.drop_left, ih f (by simpa using hf)]
      rfl

theorem length_le_encode_length (cs : List Char) : cs.length ≤ (encode cs).length := by
  induction cs with
  | nil => simp [encode_nil]
  | cons c cs ih =>
    rw [encode_cons, List.length_append, List.length_cons]
    have := encodeChar_length_pos c; omega

/-- (U7) text is read back exactly -/
theorem decode_encode (cs : List Char) : decode (encode cs) = some cs :=
  decodeFuel_encode cs _ (length_le_encode_length cs)

end Utf8
end Nl
