"""C08 — tokenisation and literals are faithful to the text.
Round trip: token sequences over the full vocabulary are spelled by the Lean `render` (every
separator choice the maximal-munch rule allows, including none) and lexed by the REAL tokenizer;
string contents are spelled by the Lean `escape` and read back through the real parser."""
import itertools

from .. import core
from ..core import hx, unhx

PROOF_MODULE = "Nlmodel.Proofs.C08"
PROOF_FILES = ["Nlmodel/Proofs/C08.lean", "Nlmodel/Model/Lexer.lean", "Nlmodel/Model/Printer.lean", "Nlmodel/Model/Parser.lean"]
THEOREM_FILE = PROOF_FILES[0]
LEVEL_TEXT = ("Lean theorems about the model tokenizer (a mirror of lexer.rs) and string decoding: THE ROUND TRIP C08_lex_render: for EVERY list of well-formed tokens and EVERY choice of separators before, between and after them (nothing where maximal munch allows it, blanks, tabs, newlines, CRLF, Unicode whitespace, line comments) tokenizing the rendered text gives exactly that token list, by induction over the list with one lemma per token class and per separator; a string literal spelled `\"`+escape(s)+`\"` is one token with body escape(s) for any text s; unescape(escape s) = s for every text; the string scanner stops exactly at the closing quote of an escaped text; lexing always terminates within the supplied fuel and consumes its input (nothing is dropped: an unknown character or an unterminated string becomes an Illegal token the parser rejects); keywords are recognised only as whole words; two-character operators are matched before their prefixes. The full render/lex round-trip statement is kept in Proofs/C08 (partial: see level_note). The model is tied to lexer.rs/parser.rs by comparing token streams and decoded strings: all token pairs over a 60-token vocabulary under all 17 separator choices (complete), all triples with no separator, random longer sequences, all string contents up to length 4 over a 6-symbol alphabet (complete, 1555 strings), identifiers and strings over non-ASCII alphabets; the Unicode classes are a parameter loaded from the running Rust std.")
LEVEL_NOTE = ("For ARBITRARY text (not only renderings of token lists): C08_nothing_dropped (the spans the tokenizer consumes - whitespace, comments, token spellings - concatenate to the text, and their tokens are the token stream), C08_every_character_accounted, C08_unreadable_text_is_rejected (an unknown character or an unterminated string is never accepted: syntax error, or the type error the preceding tokens already are), C08_accepted_text_is_clean, C08_words_and_numbers_are_maximal (keywords only as whole words, maximal munch). Trusted: Lean kernel; char::is_alphabetic/is_alphanumeric are a parameter of the model (table dumped from Rust std at run time, hypotheses LR.CCWF - letters/digits/whitespace/punctuation classes - which the check verifies on the dumped table at every run and which the ASCII classification provably satisfies); Rust str slicing.")
TECHNIQUE = "Lean 4 proof (lex(render ts seps) = ts for all token lists and separator choices; unescape(escape s) = s) + render/lex round trip on the real tokenizer"
RULE = ("token sequences: complete enumeration of pairs over the vocabulary x every separator choice, complete triples without "
        "separators, random sequences of length 4-12 with random separators; string literals: complete enumeration of contents "
        "up to length 4 over {a, quote, backslash, n, é, {} plus random non-ASCII contents; non-trivial = distinct rendered "
        "text that was lexed on both sides")
EXHAUSTIVE = True

FIXED = ["If", "Else", "Return", "Func", "While", "Declare", "True", "False", "Break", "Continue", "Lte", "Gte", "Eq", "Neq",
         "And", "Or", "Assign", "Semi", "Comma", "Dot", "OpenParen", "CloseParen", "OpenBrace", "CloseBrace", "OpenBracket",
         "CloseBracket", "Bang", "Lt", "Gt", "Minus", "Plus", "Star", "Slash", "Caret", "Percent"]


def vocab():
    v = list(FIXED)
    for s in ["x", "als2", "_", "é", "日本", "stelx", "ja_", "a1b2", "Ω_9"]:
        v.append("Identifier:" + hx(s))
    for s in ["0", "7", "123", "007"]:
        v.append("Int:" + hx(s))
    for s in ["1.5", "0.", "12.25", "3.0"]:
        v.append("Float:" + hx(s))
    for s in ["", "a", "a b", "\\\"", "\\\\", "é{}", "// no comment", "x\\n"]:
        v.append("String:" + hx(s))
    return v


def ccwf_facts():
    """the hypotheses `LR.CCWF` of the C08 theorems about the character classes, checked on the table dumped
    from the running Rust std (char::is_alphabetic / is_alphanumeric): returns the list of facts that fail"""
    alpha, alnum = [], []
    for line in open(core.unicode_table(), encoding="utf-8"):
        p = line.split()
        if len(p) == 3 and p[0] in ("alpha", "alnum"):
            (alpha if p[0] == "alpha" else alnum).append((int(p[1]), int(p[2])))

    def inside(tab, c):
        return any(lo <= c <= hi for lo, hi in tab)
    bad = []
    # alnum_of_alpha: every alphabetic range lies inside the alphanumeric ranges
    for lo, hi in alpha:
        c = lo
        while c <= hi:
            r = [(a, b) for a, b in alnum if a <= c <= b]
            if not r:
                bad.append("alphabetic U+%04X is not alphanumeric" % c)
                break
            c = r[0][1] + 1
    for c in list(range(65, 91)) + list(range(97, 123)):
        if not inside(alpha, c):
            bad.append("ASCII letter %r is not alphabetic" % chr(c))
    for c in range(48, 58):
        if not inside(alnum, c):
            bad.append("digit %r is not alphanumeric" % chr(c))
        if inside(alpha, c):
            bad.append("digit %r is alphabetic" % chr(c))
    for c in [0x09, 0x0A, 0x0B, 0x0C, 0x0D, 0x20, 0x85, 0x200E, 0x200F, 0x2028, 0x2029]:
        if inside(alnum, c):
            bad.append("whitespace U+%04X is alphanumeric" % c)
    for ch in "=!<>&|/;,.(){}[]-+*^%\"#":
        if inside(alnum, ord(ch)):
            bad.append("punctuation %r is alphanumeric" % ch)
    return bad


def run(res, tier, rng, table_diffs=()):
    for fact in ccwf_facts():
        res.violation("an assumption of the C08 theorems about the character classes does not hold for the running Rust std: " + fact,
                      dict(kind="ccwf", input=fact, unchecked="hypothesis LR.CCWF of C08_lex_render"), no_input=True)
    res.count("ccwf-facts-checked")
    V = vocab()
    nsep = int(core.model(["sepcount"])[0])
    seqs = []      # (tokens, ks)
    for a, b in itertools.product(V, V):
        for k in range(nsep):
            seqs.append(([a, b], [0, k, 0]))
    trip = list(itertools.product(V, V, V))
    if tier == "quick":
        trip = [rng.pick(trip) for _ in range(20000)]
    for t in trip:
        seqs.append((list(t), [0, 0, 0, 0]))
    for _ in range(3000 if tier == "quick" else 40000):
        n = rng.range(4, 12)
        seqs.append(([rng.pick(V) for _ in range(n)], [rng.below(nsep + 8) % nsep if rng.chance(2, 3) else 0 for _ in range(n + 1)]))
    reqs = ["rendertoks %s %s" % (",".join(map(str, ks)), " ".join(ts)) for ts, ks in seqs]
    rendered = core.model(reqs)
    lx = ["lex " + h for h in rendered]
    ia = core.impl(lx)
    ma = core.model(lx)
    bad = 0
    for (ts, ks), h, i, m in zip(seqs, rendered, ia, ma):
        res.seen(h)
        res.count("tokens-%d" % min(len(ts), 4))
        want = "ok " + " ".join(ts)
        if i != want:
            bad += 1
            if bad <= 3:
                res.violation("the tokenizer does not give back the tokens that were written",
                              dict(kind="roundtrip", input=unhx(h), tokens=ts, seps=ks, impl=i, model=m))
        elif i != m:
            bad += 1
            if bad <= 3:
                res.violation("model tokenizer and lexer.rs disagree", dict(kind="model", input=unhx(h), impl=i, model=m,
                              unchecked="correspondence Model/Lexer vs lexer.rs (theorems of Proofs/C08)"), no_input=True)
    # string contents
    alpha = ["a", '"', "\\", "n", "é", "{"]
    contents = [""]
    for n in range(1, 5):
        contents += ["".join(t) for t in itertools.product(alpha, repeat=n)]
    for _ in range(300 if tier == "quick" else 5000):
        contents.append("".join(rng.pick(["a", '"', "\\", "n", "t", "é", "日", "😀", "\n", "\t", " ", "{}", "/", "0", "\x00", "\x01", "\x7f", "\U0010ffff"]) for _ in range(rng.below(10))))
    # control characters inside string literals: every content up to length 3 over {a, NUL, quote, backslash}
    for n in range(1, 4):
        contents += ["".join(t) for t in itertools.product(["a", "\x00", '"', "\\"], repeat=n) if "\x00" in t]
    esc = core.model(["escape " + hx(s) for s in contents])
    progs = ['"' + unhx(e) + '"' for e in esc]
    pa = core.impl(["parse " + hx(p) for p in progs])
    pm = core.model(["parse " + hx(p) for p in progs])
    for s, p, i, m in zip(contents, progs, pa, pm):
        res.seen("S" + p)
        res.count("string-%d" % min(len(s), 5))
        want = "ok {(expr (str %s))}" % hx(s)
        if i != want:
            bad += 1
            if bad <= 6:
                res.violation("a string literal does not denote the characters written between its quotes",
                              dict(kind="string", input=p, content=s, impl=i, model=m))
        elif i != m:
            bad += 1
            if bad <= 6:
                res.violation("model and parser.rs decode a string differently", dict(kind="model", input=p, impl=i, model=m, unchecked="correspondence unescape vs parse_string_expression"), no_input=True)
    # tokenizer correspondence on noise (nothing dropped: both sides must produce the same stream)
    pieces = ["a", "é", "1", "1.", ".5", "\"", "\\", "/", "//", "\n", " ", "=", "==", "!", "<", "&", "&&", "|", "№", "€", "‎", "\u0085",
              "als", "stel", "ja", "_", "(", "}", "#", "@", "'", "😀", "\t", "\r", "0x1", "1e5", "1_0",
              # control characters and other code points an "end of input" sentinel or a byte-wise scan could trip over
              "\x00", "\x01", "\x7f", "\x1b", "\u00a0", "\ufeff", "\U0010ffff", "\x00", "// c\x00\n", "\"\x00\""]
    noise = []
    for _ in range(4000 if tier == "quick" else 60000):
        noise.append("".join(rng.pick(pieces) for _ in range(rng.range(1, 10))))
    na = core.impl(["lex " + hx(s) for s in noise])
    nm = core.model(["lex " + hx(s) for s in noise])
    for s, i, m in zip(noise, na, nm):
        res.seen("N" + s)
        res.count("noise")
        if i != m:
            bad += 1
            if bad <= 9:
                crash = i.startswith(("PANIC", "CRASH", "TIMEOUT"))
                res.violation("the tokenizer crashed" if crash else "model tokenizer and lexer.rs disagree",
                              dict(kind="model", input=s, impl=i, model=m, unchecked="correspondence Model/Lexer vs lexer.rs"), no_input=not crash)
    # numbers keep their exact spelling (round 9): integer literals of every length at the binary and decimal boundaries (2^k, 10^d,
    # the 61-bit range end, i64/u64 ends and the 19/20-digit window between them), with leading zeros: in range => exactly that
    # number, out of range => a syntax error, never another number (a wrapped or saturated conversion)
    nums = set()
    for k in range(50, 70):
        nums |= {2 ** k - 1, 2 ** k, 2 ** k + 1}
    for d in range(1, 26):
        nums |= {10 ** d - 1, 10 ** d, 10 ** d + 1, 9 * 10 ** d, 5 * 10 ** d + 7}
    nums |= {2 ** 63 + 8, 2 ** 63 + 2 ** 60 - 1, 2 ** 64 - 1, 2 ** 64 + 5, 9999999999999999999, 9223372036854775815, 10 ** 19 - 2 ** 60, 2 ** 64 + 2 ** 59, 2 ** 128 + 3}
    for _ in range(60 if tier == "quick" else 3000):
        nums.add(rng.below(10 ** rng.range(16, 23)))
    spell = []
    for v in sorted(nums):
        spell.append((str(v), v))
        spell.append(("000" + str(v), v))
    na2 = core.impl(["eval 1000 " + hx(t) for t, _ in spell] + ["eval 1000 " + hx("[%s, string(%s), %s == %s - 0]" % (t, t, t, t)) for t, _ in spell])
    nm2 = core.model(["eval 1000 " + hx(t) for t, _ in spell])
    for k, (t, v) in enumerate(spell):
        res.seen("I" + t)
        res.count("int-spelling")
        want = "ok i:%d | x" % v if v < 2 ** 60 else "err Syntax | x"
        want2 = "ok a:[i:%d s:%s b:ja] | x" % (v, hx(str(v))) if v < 2 ** 60 else "err Syntax | x"
        if na2[k] != want or na2[len(spell) + k] != want2 or nm2[k] != want:
            res.violation("an integer literal was not read as the number written (or an out-of-range literal was accepted)",
                          dict(kind="control", input=t, expected=want, impl=na2[k], impl_in_list=na2[len(spell) + k], model=nm2[k]))
            break
    # float literals keep their spelling incl. the sign written in front of them (round 10): both zeros, in every order, observed by
    # division, text and comparison
    zs = []
    for pre in ["", "0.0;", "-0.0;", "stel p = 0.0; stel q = -0.0;", "stel q = -0.0; stel p = 0.0;", "functie g() { -0.0 }; functie h() { 0.0 };", "0.; -0.00;", "-1.5; 1.5;"]:
        for z, want in [("0.0", "+"), ("-0.0", "-"), ("0.", "+"), ("-0.00", "-"), ("-(0.0)", "-"), ("1.5", "+"), ("-1.5", "-")]:
            zs.append((pre + " [1.0 / %s > 0.0, string(%s)]" % (z, z), want))
    za = core.impl(["eval 1000 " + hx(t) for t, _ in zs])
    zm = core.model(["eval 1000 " + hx(t) for t, _ in zs])
    for (t, want), a, m in zip(zs, za, zm):
        res.seen("Z" + t)
        res.count("signed-float-literal")
        sign_ok = a.startswith("ok a:[b:ja ") if want == "+" else a.startswith("ok a:[b:nee ")
        if a != m or not sign_ok:
            res.violation("a float literal was not read with the sign written (a zero literal took the sign of another zero literal of the program)",
                          dict(kind="control", input=t, expected=m.split(" | ")[0], impl=a, model=m))
            break
    from .. import gen2 as _g2
    bw = _g2.backslash_wide_programs()
    ba = core.impl(["eval 1000 " + hx(t) for t in bw])
    bm = core.model(["eval 1000 " + hx(t) for t in bw])
    for t, a, m in zip(bw, ba, bm):
        res.seen("B" + t)
        res.count("backslash-wide")
        if a != m:
            res.violation("a backslash before a character that is not one of the four escapes was not kept as written (or crashed the parser)",
                          dict(kind="control", input=t, expected=m, impl=a, model=m))
            break
    fl = _g2.float_spelling_programs()
    fa = core.impl(["eval 1000 " + hx(t) for t in fl])
    fm2 = core.model(["eval 1000 " + hx(t) for t in fl])
    for t, a, m in zip(fl, fa, fm2):
        res.seen("L" + t)
        res.count("float-spelling")
        if a != m:
            res.violation("a float literal was not read as the correctly rounded value of its spelling", dict(kind="control", input=t, expected=m, impl=a, model=m))
            break
    # directed: inputs that used to be silently dropped must be rejected
    for src in ["1 № 2", "5 \"abc", "1 & 2", "1 | 2", "x # y", "\"a\\\\\" 1"]:
        r = core.impl(["eval 1000 " + hx(src)])[0]
        res.seen("D" + src)
        if src != "\"a\\\\\" 1" and not r.startswith("err Syntax"):
            res.violation("part of the input was silently dropped", dict(kind="dropped", input=src, impl=r))
    # a backslash means something ONLY inside a string literal and ONLY before " \\ n t: a comment that ends in backslashes ends at
    # its line end all the same; every other escape spelling known from other languages denotes exactly the characters written
    for k in (1, 2, 3):
        bs = "\\" * k
        for src, want in [("1 // c:" + bs + "\n+ 2", "ok i:3"), ("stel x = 1 // p" + bs + "\nx = 2\nx", "ok i:2"), ("1 //" + bs + "\n+ 2", "ok i:3"),
                          ("// a" + bs + "\n// b" + bs + "\n7", "ok i:7"), ("1 // \"" + bs + "\n+ 2", "ok i:3")]:
            r = core.impl(["eval 1000 " + hx(src)])[0]
            res.seen("D" + src)
            res.count("comment-backslash")
            if not r.startswith(want):
                res.violation("a backslash at the end of a comment changed where the comment ends", dict(kind="control", input=src, expected=want, impl=r))
    foreign = ["\\u{41}", "\\u0041", "\\x41", "\\101", "\\0", "\\r", "\\a", "\\e", "\\N{DEGREE SIGN}", "\\U0001F600", "\\u{1F600}", "\\'", "\\ ", "\\{", "\\}", "\\$", "\\%",
               "\\u{}", "\\u{zz}", "\\u{41", "\\x4", "\\uD83D", "\\b", "\\f", "\\v", "\\/"] + ["\\" + chr(c) for c in range(33, 127) if chr(c) not in '"\\nt']
    fa = core.impl(["eval 1000 " + hx('stel s = "%s"; [lengte(s), s[0] == "\\\\", s]' % f) for f in foreign])
    fm = core.model(["eval 1000 " + hx('stel s = "%s"; [lengte(s), s[0] == "\\\\", s]' % f) for f in foreign])
    for f, a, m in zip(foreign, fa, fm):
        res.seen("X" + f)
        res.count("foreign-escape")
        n = len(f)
        want = "ok a:[i:%d b:ja " % n
        if not a.startswith(want) or a != m:
            res.violation("an escape spelling that the language does not define was decoded instead of being kept as written",
                          dict(kind="control", input='stel s = "%s"; [lengte(s), s[0] == "\\\\", s]' % f, expected=want, impl=a, model=m))
    # a NUL (or any other control character) is an ordinary character of the text: inside a comment it is skipped with the
    # comment, inside a string it is part of the string, elsewhere it is rejected — the text after it is never dropped
    for src, want in [("1 // c\x00 d\n+ 2", "ok i:3"), ("1 //\x00\n+ 2", "ok i:3"), ("lengte(\"a\x00b\")", "ok i:3"), ("\"\x00\" == \"\x00\"", "ok b:ja"),
                      ("1 \x00 + 1", "err Syntax"), ("1 + 1 \x00", "err Syntax"), ("\x00", "err Syntax"), ("1 \x01 + 1", "err Syntax"), ("stel a\x00b = 1; a", "err Syntax"),
                      ("1 \x7f", "err Syntax"), ("1 // c\x01\x7f\n+ 2", "ok i:3")]:
        r = core.impl(["eval 1000 " + hx(src)])[0]
        res.seen("D" + src)
        res.count("control-char-directed")
        if not r.startswith(want):
            res.violation("a control character in the text made the tokenizer drop or misread part of the input",
                          dict(kind="control", input=src, expected=want, impl=r))
    if table_diffs:
        res.violation("the model's tables differ from the code's (keyword table)", dict(kind="tables", diffs=list(table_diffs)[:10], unchecked="table correspondence"), no_input=True)


def replay(res, rp):
    src = rp["input"]
    cmd = "parse " if rp.get("kind") in ("string",) else "lex "
    if rp.get("kind") == "control":
        r = core.impl(["eval 1000 " + hx(src)])[0]
        print(r)
        if not r.startswith(rp["expected"]):
            print("VIOLATION property=C08 replay=replay")
            return 1
        return 0
    if rp.get("kind") == "dropped":
        r = core.impl(["eval 1000 " + hx(src)])[0]
        print(r)
        if not r.startswith("err Syntax"):
            print("VIOLATION property=C08 replay=replay")
            return 1
        return 0
    i = core.impl([cmd + hx(src)])[0]
    m = core.model([cmd + hx(src)])[0]
    print("impl :", i[:400])
    print("model:", m[:400])
    want = None
    if "tokens" in rp:
        want = "ok " + " ".join(rp["tokens"])
    if "content" in rp:
        want = "ok {(expr (str %s))}" % hx(rp["content"])
    if i != m or (want and i != want):
        print("VIOLATION property=C08 replay=replay")
        return 1
    return 0
