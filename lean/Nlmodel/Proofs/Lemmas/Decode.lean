/- The bytes of an instruction decode to that instruction (bridge between the compiler model's
   instruction lists and the machine's byte-level fetch). -/
import Nlmodel.Model.Compiler
namespace Nl

/-- operands fit their width and the fused operator has an opcode -/
def Instr.wf : Instr → Prop
  | .const k | .jump k | .jumpIfFalse k | .array k
  | .getLocal k | .setLocal k | .getGlobal k | .setGlobal k => k < 65536
  | .fused op l k => l < 65536 ∧ k < 65536 ∧ (fusedOpcode op).isSome
  | .callBuiltin b n => b < 256 ∧ n < 256
  | .call n => n < 256
  | _ => True

theorem getElem?_mid (pre enc post : List Nat) (k : Nat) (hk : k < enc.length) :
    (pre ++ enc ++ post).toArray[pre.length + k]? = enc[k]? := by
  simp only [List.getElem?_toArray, List.append_assoc]
  rw [List.getElem?_append_right (by omega)]
  simp only [Nat.add_sub_cancel_left]
  rw [List.getElem?_append_left hk]

theorem rd16_of (C : Code) (off v : Nat) (hv : v < 65536)
    (h0 : C[off]? = some (v % 256)) (h1 : C[off + 1]? = some (v / 256 % 256)) : rd16 C off = some v := by
  unfold rd16
  rw [h0, h1]
  simp only [Option.some.injEq]
  omega

/-- the bytes of a well-formed instruction decode to that instruction -/
theorem decodeAt_of_bytes (C : Code) (p : Nat) (i : Instr) (hw : i.wf)
    (hb : ∀ k, k < i.encode.length → C[p + k]? = i.encode[k]?) : decodeAt C p = some i := by
  have b0 : C[p]? = some i.opcode := by
    have := hb 0 (by cases i <;> simp [Instr.encode, u16le])
    simpa [Instr.encode] using (by cases i <;> simpa [Instr.encode, u16le] using this : C[p]? = some i.opcode)
  cases i with
  | bin op => cases op <;> simp [decodeAt, b0, Instr.opcode, binOpcode, binOfOpcode]
  | pop => simp [decodeAt, b0, Instr.opcode, binOfOpcode, fusedOfOpcode]
  | true_ => simp [decodeAt, b0, Instr.opcode, binOfOpcode, fusedOfOpcode]
  | false_ => simp [decodeAt, b0, Instr.opcode, binOfOpcode, fusedOfOpcode]
  | not => simp [decodeAt, b0, Instr.opcode, binOfOpcode, fusedOfOpcode]
  | negate => simp [decodeAt, b0, Instr.opcode, binOfOpcode, fusedOfOpcode]
  | null => simp [decodeAt, b0, Instr.opcode, binOfOpcode, fusedOfOpcode]
  | ret => simp [decodeAt, b0, Instr.opcode, binOfOpcode, fusedOfOpcode]
  | retv => simp [decodeAt, b0, Instr.opcode, binOfOpcode, fusedOfOpcode]
  | indexGet => simp [decodeAt, b0, Instr.opcode, binOfOpcode, fusedOfOpcode]
  | indexSet => simp [decodeAt, b0, Instr.opcode, binOfOpcode, fusedOfOpcode]
  | halt => simp [decodeAt, b0, Instr.opcode, binOfOpcode, fusedOfOpcode]
  | const k =>
    have h1 := hb 1 (by simp [Instr.encode, u16le]); have h2 := hb 2 (by simp [Instr.encode, u16le])
    have := rd16_of C (p + 1) k hw (by simpa [Instr.encode, u16le] using h1) (by simpa [Instr.encode, u16le, Nat.add_assoc] using h2)
    simp [decodeAt, b0, Instr.opcode, binOfOpcode, fusedOfOpcode, this]
  | jump k =>
    have h1 := hb 1 (by simp [Instr.encode, u16le]); have h2 := hb 2 (by simp [Instr.encode, u16le])
    have := rd16_of C (p + 1) k hw (by simpa [Instr.encode, u16le] using h1) (by simpa [Instr.encode, u16le, Nat.add_assoc] using h2)
    simp [decodeAt, b0, Instr.opcode, binOfOpcode, fusedOfOpcode, this]
  | jumpIfFalse k =>
    have h1 := hb 1 (by simp [Instr.encode, u16le]); have h2 := hb 2 (by simp [Instr.encode, u16le])
    have := rd16_of C (p + 1) k hw (by simpa [Instr.encode, u16le] using h1) (by simpa [Instr.encode, u16le, Nat.add_assoc] using h2)
    simp [decodeAt, b0, Instr.opcode, binOfOpcode, fusedOfOpcode, this]
  | array k =>
    have h1 := hb 1 (by simp [Instr.encode, u16le]); have h2 := hb 2 (by simp [Instr.encode, u16le])
    have := rd16_of C (p + 1) k hw (by simpa [Instr.encode, u16le] using h1) (by simpa [Instr.encode, u16le, Nat.add_assoc] using h2)
    simp [decodeAt, b0, Instr.opcode, binOfOpcode, fusedOfOpcode, this]
  | getLocal k =>
    have h1 := hb 1 (by simp [Instr.encode, u16le]); have h2 := hb 2 (by simp [Instr.encode, u16le])
    have := rd16_of C (p + 1) k hw (by simpa [Instr.encode, u16le] using h1) (by simpa [Instr.encode, u16le, Nat.add_assoc] using h2)
    simp [decodeAt, b0, Instr.opcode, binOfOpcode, fusedOfOpcode, this]
  | setLocal k =>
    have h1 := hb 1 (by simp [Instr.encode, u16le]); have h2 := hb 2 (by simp [Instr.encode, u16le])
    have := rd16_of C (p + 1) k hw (by simpa [Instr.encode, u16le] using h1) (by simpa [Instr.encode, u16le, Nat.add_assoc] using h2)
    simp [decodeAt, b0, Instr.opcode, binOfOpcode, fusedOfOpcode, this]
  | getGlobal k =>
    have h1 := hb 1 (by simp [Instr.encode, u16le]); have h2 := hb 2 (by simp [Instr.encode, u16le])
    have := rd16_of C (p + 1) k hw (by simpa [Instr.encode, u16le] using h1) (by simpa [Instr.encode, u16le, Nat.add_assoc] using h2)
    simp [decodeAt, b0, Instr.opcode, binOfOpcode, fusedOfOpcode, this]
  | setGlobal k =>
    have h1 := hb 1 (by simp [Instr.encode, u16le]); have h2 := hb 2 (by simp [Instr.encode, u16le])
    have := rd16_of C (p + 1) k hw (by simpa [Instr.encode, u16le] using h1) (by simpa [Instr.encode, u16le, Nat.add_assoc] using h2)
    simp [decodeAt, b0, Instr.opcode, binOfOpcode, fusedOfOpcode, this]
  | call n =>
    have h1 := hb 1 (by simp [Instr.encode])
    have e : n % 256 = n := Nat.mod_eq_of_lt hw
    simp [Instr.encode, e] at h1
    simp [decodeAt, b0, Instr.opcode, binOfOpcode, fusedOfOpcode, h1]
  | callBuiltin b n =>
    have h1 := hb 1 (by simp [Instr.encode]); have h2 := hb 2 (by simp [Instr.encode])
    have e1 : b % 256 = b := Nat.mod_eq_of_lt hw.1
    have e2 : n % 256 = n := Nat.mod_eq_of_lt hw.2
    simp [Instr.encode, e1, e2] at h1 h2
    simp [decodeAt, b0, Instr.opcode, binOfOpcode, fusedOfOpcode, h1, h2]
  | fused op l k =>
    obtain ⟨hl, hk, hop⟩ := hw
    have h1 := hb 1 (by simp [Instr.encode, u16le]); have h2 := hb 2 (by simp [Instr.encode, u16le])
    have h3 := hb 3 (by simp [Instr.encode, u16le]); have h4 := hb 4 (by simp [Instr.encode, u16le])
    have r1 := rd16_of C (p + 1) l hl (by simpa [Instr.encode, u16le] using h1) (by simpa [Instr.encode, u16le, Nat.add_assoc] using h2)
    have r2 := rd16_of C (p + 3) k hk (by simpa [Instr.encode, u16le] using h3) (by simpa [Instr.encode, u16le, Nat.add_assoc] using h4)
    cases op <;> simp [fusedOpcode] at hop <;>
      simp [decodeAt, b0, Instr.opcode, fusedOpcode, binOfOpcode, fusedOfOpcode, r1, r2]

end Nl
