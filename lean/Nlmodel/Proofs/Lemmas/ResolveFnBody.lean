/- Stage 4, property R1 of the resolver: statements and expressions (top level and function bodies alike). -/
import Nlmodel.Proofs.Lemmas.ResolveFnInv
namespace Nl
namespace SimF
open Spec Sim

/-- the conclusion for an expression: invariant kept, more slots handed out, tree in the fragment for every final slot count -/
def RPE (fn ab : Bool) (scs gscs : Scs) (F : Nat) (st : RState) (e' : RExpr) (st' : RState) : Prop :=
  RInv fn st' scs gscs F ∧ lim fn st ≤ lim fn st' ∧ ∀ nl, lim fn st' ≤ nl → YE nl fn (gamOf fn gscs scs) (lamOf fn scs) ab e'

theorem lim_loop (fn : Bool) (st : RState) (d : Nat) : lim fn { st with loopDepth := d } = lim fn st := by
  cases fn <;> rfl

/-- a call whose callee is not a builtin name resolves its arguments, then the callee -/
theorem resolveE_call (f : Expr) (as : Exprs) (st : RState) (hnb : nonBuiltin f = true) :
    resolveE (.call f as) st =
      match resolveEs as st with
      | .ok (as', st1) =>
        match resolveE f st1 with
        | .ok (f', st2) => .ok (.call f' as', st2)
        | .error e => .error e
      | .error e => .error e := by
  cases hr : resolveEs as st with
  | error er => simp only [resolveE, hr]
  | ok p =>
    obtain ⟨as1, st1⟩ := p
    cases f with
    | ident n =>
      have hb : Builtin.resolve n = none := by simpa [nonBuiltin] using hnb
      simp only [resolveE, hr, hb] <;> rfl
    | _ => simp only [resolveE, hr] <;> rfl

mutual
theorem rE (fn : Bool) : (e : Expr) → ∀ (ab : Bool) (scs gscs : Scs) (F : Nat) (st : RState) (e' : RExpr) (st' : RState),
    SrcE fn ab e → RInv fn st scs gscs F → resolveE e st = .ok (e', st') → RPE fn ab scs gscs F st e' st'
  | .int v, ab, scs, gscs, F, st, e', st', _, hinv, h => by
    simp only [resolveE] at h; injection h with h; injection h with h1 h2; subst h1; subst h2
    exact ⟨hinv, Nat.le_refl _, fun nl _ => .int _ _ _ v⟩
  | .bool b, ab, scs, gscs, F, st, e', st', _, hinv, h => by
    simp only [resolveE] at h; injection h with h; injection h with h1 h2; subst h1; subst h2
    exact ⟨hinv, Nat.le_refl _, fun nl _ => .bool _ _ _ b⟩
  | .ident n, ab, scs, gscs, F, st, e', st', _, hinv, h => by
    simp only [resolveE] at h
    cases hr : st.resolve n with
    | none => simp [hr] at h
    | some r =>
      simp only [hr] at h
      injection h with h; injection h with h1 h2; subst h1; subst h2
      exact ⟨hinv, Nat.le_refl _, fun nl hnl => ye_var r (rinv_resolve fn st scs gscs F hinv n r hr nl hnl)⟩
  | .pre op r, ab, scs, gscs, F, st, e', st', hs, hinv, h => by
    simp only [resolveE] at h
    cases hr : resolveE r st with
    | error er => simp [hr] at h
    | ok p =>
      obtain ⟨r1, st1⟩ := p
      simp only [hr] at h
      cases hs with
      | not _ _ hsr =>
        injection h with h; injection h with h1 h2; subst h1; subst h2
        obtain ⟨hi, hle, hx⟩ := rE fn r ab scs gscs F st r1 st1 hsr hinv hr
        exact ⟨hi, hle, fun nl hnl => .not _ _ _ r1 (hx nl hnl)⟩
      | neg _ _ hsr =>
        injection h with h; injection h with h1 h2; subst h1; subst h2
        obtain ⟨hi, hle, hx⟩ := rE fn r ab scs gscs F st r1 st1 hsr hinv hr
        exact ⟨hi, hle, fun nl hnl => .neg _ _ _ r1 (hx nl hnl)⟩
      | negate _ _ hsr =>
        injection h with h; injection h with h1 h2; subst h1; subst h2
        obtain ⟨hi, hle, hx⟩ := rE fn r ab scs gscs F st r1 st1 hsr hinv hr
        exact ⟨hi, hle, fun nl hnl => .neg _ _ _ r1 (hx nl hnl)⟩
  | .assign l r, ab, scs, gscs, F, st, e', st', hs, hinv, h => by
    cases hs with
    | assign _ n _ hsr =>
      simp only [resolveE] at h
      cases hres : st.resolve n with
      | none => simp [hres] at h
      | some ref =>
        simp only [hres] at h
        cases hr : resolveE r st with
        | error er => simp [hr] at h
        | ok p =>
          obtain ⟨r1, st1⟩ := p
          simp only [hr] at h
          injection h with h; injection h with h1 h2; subst h1; subst h2
          obtain ⟨hi, hle, hx⟩ := rE fn r ab scs gscs F st r1 st1 hsr hinv hr
          exact ⟨hi, hle, fun nl hnl => ye_assign ref r1 (rinv_resolve fn st scs gscs F hinv n ref hres nl (Nat.le_trans hle hnl)) (hx nl hnl)⟩
  | .infix l op r, ab, scs, gscs, F, st, e', st', hs, hinv, h => by
    cases hs with
    | bin _ _ _ _ bop hop hsl hsr =>
      simp only [resolveE] at h
      cases hl : resolveE l st with
      | error er => simp [hl] at h
      | ok p =>
        obtain ⟨l1, st1⟩ := p
        simp only [hl] at h
        obtain ⟨hi1, hle1, hxl⟩ := rE fn l ab scs gscs F st l1 st1 hsl hinv hl
        cases hr : resolveE r st1 with
        | error er => simp [hr] at h
        | ok q =>
          obtain ⟨r1, st2⟩ := q
          simp only [hr, hop] at h
          injection h with h; injection h with h1 h2; subst h1; subst h2
          obtain ⟨hi2, hle2, hxr⟩ := rE fn r false scs gscs F st1 r1 st2 hsr hi1 hr
          exact ⟨hi2, Nat.le_trans hle1 hle2, fun nl hnl => ye_infix l1 bop r1 (hxl nl (Nat.le_trans hle2 hnl)) (hxr nl hnl)⟩
  | .ifE c t e, ab, scs, gscs, F, st, e', st', hs, hinv, h => by
    cases hs with
    | ifE _ _ _ _ hsc hst hse =>
      simp only [resolveE] at h
      cases hc : resolveE c st with
      | error er => simp [hc] at h
      | ok p =>
        obtain ⟨c1, st1⟩ := p
        simp only [hc] at h
        obtain ⟨hi1, hle1, hxc⟩ := rE fn c ab scs gscs F st c1 st1 hsc hinv hc
        cases ht : resolveB t st1 with
        | error er => simp [ht] at h
        | ok q =>
          obtain ⟨t1, st2⟩ := q
          simp only [ht] at h
          obtain ⟨hi2, hle2, hxt⟩ := rB fn t ab scs gscs F st1 t1 st2 hst hi1 ht
          cases he : resolveO e st2 with
          | error er => simp [he] at h
          | ok w =>
            obtain ⟨e1, st3⟩ := w
            simp only [he] at h
            injection h with h; injection h with h1 h2; subst h1; subst h2
            obtain ⟨hi3, hle3, hxe⟩ := rO fn e ab scs gscs F st2 e1 st3 hse hi2 he
            refine ⟨hi3, Nat.le_trans hle1 (Nat.le_trans hle2 hle3), fun nl hnl => ?_⟩
            obtain ⟨Γ1, Λ1, hb⟩ := hxt nl (Nat.le_trans hle3 hnl)
            exact .ifE _ _ _ c1 t1 e1 Γ1 Λ1 (hxc nl (Nat.le_trans hle2 (Nat.le_trans hle3 hnl))) hb (hxe nl hnl)
  | .whileE c b, ab, scs, gscs, F, st, e', st', hs, hinv, h => by
    cases hs with
    | whileE _ _ _ hsc hsb =>
      simp only [resolveE] at h
      cases hc : resolveE c { st with loopDepth := st.loopDepth + 1 } with
      | error er => simp [hc] at h
      | ok p =>
        obtain ⟨c1, st1⟩ := p
        simp only [hc] at h
        obtain ⟨hi1, hle1, hxc⟩ := rE fn c false scs gscs F _ c1 st1 hsc (rinv_loop fn st scs gscs F _ hinv) hc
        rw [lim_loop] at hle1
        cases hb : resolveB b st1 with
        | error er => simp [hb] at h
        | ok q =>
          obtain ⟨b1, st2⟩ := q
          simp only [hb] at h
          injection h with h; injection h with h1 h2; subst h1; subst h2
          obtain ⟨hi2, hle2, hxb⟩ := rB fn b true scs gscs F st1 b1 st2 hsb hi1 hb
          refine ⟨rinv_loop fn st2 scs gscs F _ hi2, by rw [lim_loop]; exact Nat.le_trans hle1 hle2, fun nl hnl => ?_⟩
          rw [lim_loop] at hnl
          obtain ⟨Γ1, Λ1, hbb⟩ := hxb nl hnl
          exact .whileE _ _ _ c1 b1 Γ1 Λ1 (hxc nl (Nat.le_trans hle2 hnl)) hbb
  | .call f as, ab, scs, gscs, F, st, e', st', hs, hinv, h => by
    cases hs with
    | call _ _ _ hnb hsas hsf =>
      rw [resolveE_call f as st hnb] at h
      cases has : resolveEs as st with
      | error er => simp [has] at h
      | ok p =>
        obtain ⟨as1, st1⟩ := p
        simp only [has] at h
        obtain ⟨hi1, hle1, hxas⟩ := rEs fn as scs gscs F st as1 st1 hsas hinv has
        cases hf : resolveE f st1 with
        | error er => simp [hf] at h
        | ok q =>
          obtain ⟨f1, st2⟩ := q
          simp only [hf] at h
          injection h with h; injection h with h1 h2; subst h1; subst h2
          obtain ⟨hi2, hle2, hxf⟩ := rE fn f false scs gscs F st1 f1 st2 hsf hi1 hf
          exact ⟨hi2, Nat.le_trans hle1 hle2, fun nl hnl => .call _ _ _ f1 as1 (hxas nl (Nat.le_trans hle2 hnl)) (hxf nl hnl)⟩
  | .float _, _, _, _, _, _, _, _, hs, _, _ => by cases hs
  | .str _, _, _, _, _, _, _, _, hs, _, _ => by cases hs
  | .func _ _ _, _, _, _, _, _, _, _, hs, _, _ => by cases hs
  | .arr _, _, _, _, _, _, _, _, hs, _, _ => by cases hs
  | .index _ _, _, _, _, _, _, _, _, hs, _, _ => by cases hs

theorem rEs (fn : Bool) : (es : Exprs) → ∀ (scs gscs : Scs) (F : Nat) (st : RState) (es' : RExprs) (st' : RState),
    SrcEs fn es → RInv fn st scs gscs F → resolveEs es st = .ok (es', st') →
    RInv fn st' scs gscs F ∧ lim fn st ≤ lim fn st' ∧ ∀ nl, lim fn st' ≤ nl → YEs nl fn (gamOf fn gscs scs) (lamOf fn scs) es'
  | .nil, scs, gscs, F, st, es', st', _, hinv, h => by
    simp only [resolveEs] at h; injection h with h; injection h with h1 h2; subst h1; subst h2
    exact ⟨hinv, Nat.le_refl _, fun nl _ => .nil _ _⟩
  | .cons e es, scs, gscs, F, st, es', st', hs, hinv, h => by
    cases hs with
    | cons _ _ hse hses =>
      simp only [resolveEs] at h
      cases he : resolveE e st with
      | error er => simp [he] at h
      | ok p =>
        obtain ⟨e1, st1⟩ := p
        simp only [he] at h
        obtain ⟨hi1, hle1, hxe⟩ := rE fn e false scs gscs F st e1 st1 hse hinv he
        cases hes : resolveEs es st1 with
        | error er => simp [hes] at h
        | ok q =>
          obtain ⟨es1, st2⟩ := q
          simp only [hes] at h
          injection h with h; injection h with h1 h2; subst h1; subst h2
          obtain ⟨hi2, hle2, hxes⟩ := rEs fn es scs gscs F st1 es1 st2 hses hi1 hes
          exact ⟨hi2, Nat.le_trans hle1 hle2, fun nl hnl => .cons _ _ e1 es1 (hxe nl (Nat.le_trans hle2 hnl)) (hxes nl hnl)⟩

theorem rO (fn : Bool) : (o : OptBlock) → ∀ (ab : Bool) (scs gscs : Scs) (F : Nat) (st : RState) (o' : ROptBlock) (st' : RState),
    SrcO fn ab o → RInv fn st scs gscs F → resolveO o st = .ok (o', st') →
    RInv fn st' scs gscs F ∧ lim fn st ≤ lim fn st' ∧ ∀ nl, lim fn st' ≤ nl → YO nl fn (gamOf fn gscs scs) (lamOf fn scs) ab o'
  | .none, ab, scs, gscs, F, st, o', st', _, hinv, h => by
    simp only [resolveO] at h; injection h with h; injection h with h1 h2; subst h1; subst h2
    exact ⟨hinv, Nat.le_refl _, fun nl _ => .none _ _ _⟩
  | .some b, ab, scs, gscs, F, st, o', st', hs, hinv, h => by
    cases hs with
    | some _ _ hsb =>
      simp only [resolveO] at h
      cases hb : resolveB b st with
      | error er => simp [hb] at h
      | ok q =>
        obtain ⟨b1, st1⟩ := q
        simp only [hb] at h
        injection h with h; injection h with h1 h2; subst h1; subst h2
        obtain ⟨hi, hle, hxb⟩ := rB fn b ab scs gscs F st b1 st1 hsb hinv hb
        refine ⟨hi, hle, fun nl hnl => ?_⟩
        obtain ⟨Γ1, Λ1, hbb⟩ := hxb nl hnl
        exact .some _ _ _ b1 Γ1 Λ1 hbb

theorem rS (fn : Bool) : (s : Stmt) → ∀ (ab : Bool) (sc : List (Text × Nat)) (scs gscs : Scs) (F : Nat) (st : RState) (s' : RStmt) (st' : RState),
    SrcS fn ab s → RInv fn st (sc :: scs) gscs F → resolveS s st = .ok (s', st') →
    ∃ sc', RInv fn st' (sc' :: scs) gscs F ∧ lim fn st ≤ lim fn st' ∧
      ∀ nl, lim fn st' ≤ nl → YS nl fn (gamOf fn gscs (sc :: scs)) (lamOf fn (sc :: scs)) ab s' (gamOf fn gscs (sc' :: scs)) (lamOf fn (sc' :: scs))
  | .expr e, ab, sc, scs, gscs, F, st, s', st', hs, hinv, h => by
    cases hs with
    | expr _ _ hse =>
      simp only [resolveS] at h
      cases hr : resolveE e st with
      | error er => simp [hr] at h
      | ok p =>
        obtain ⟨e1, st1⟩ := p
        simp only [hr] at h
        injection h with h; injection h with h1 h2; subst h1; subst h2
        obtain ⟨hi, hle, hx⟩ := rE fn e ab _ gscs F st e1 st1 hse hinv hr
        exact ⟨sc, hi, hle, fun nl hnl => .expr _ _ _ e1 (hx nl hnl)⟩
  | .letS n e, ab, sc, scs, gscs, F, st, s', st', hs, hinv, h => by
    cases hs with
    | letS _ _ _ hse =>
      simp only [resolveS] at h
      obtain ⟨hinv1, hlet⟩ := rinv_define fn st sc scs gscs F hinv n
      cases hr : resolveE e (st.define n).1 with
      | error er => simp [hr] at h
      | ok p =>
        obtain ⟨e1, st1⟩ := p
        simp only [hr] at h
        injection h with h; injection h with h1 h2; subst h1; subst h2
        obtain ⟨hi, hle, hx⟩ := rE fn e ab _ gscs F _ e1 st1 hse hinv1 hr
        exact ⟨(n, st.nextId) :: sc, hi, Nat.le_trans (lim_define_le fn st n) hle,
          fun nl hnl => hlet nl ab e1 (Nat.le_trans hle hnl) (hx nl hnl)⟩
  | .block b, ab, sc, scs, gscs, F, st, s', st', hs, hinv, h => by
    cases hs with
    | block _ _ hsb =>
      simp only [resolveS] at h
      cases hb : resolveB b st with
      | error er => simp [hb] at h
      | ok q =>
        obtain ⟨b1, st1⟩ := q
        simp only [hb] at h
        injection h with h; injection h with h1 h2; subst h1; subst h2
        obtain ⟨hi, hle, hxb⟩ := rB fn b ab _ gscs F st b1 st1 hsb hinv hb
        refine ⟨sc, hi, hle, fun nl hnl => ?_⟩
        obtain ⟨Γ1, Λ1, hbb⟩ := hxb nl hnl
        exact .block _ _ _ b1 Γ1 Λ1 hbb
  | .brk, ab, sc, scs, gscs, F, st, s', st', hs, hinv, h => by
    cases hs
    simp only [resolveS] at h
    split at h
    · cases h
    · injection h with h; injection h with h1 h2; subst h1; subst h2
      exact ⟨sc, hinv, Nat.le_refl _, fun nl _ => .brk _ _⟩
  | .cont, ab, sc, scs, gscs, F, st, s', st', hs, hinv, h => by
    cases hs
    simp only [resolveS] at h
    split at h
    · cases h
    · injection h with h; injection h with h1 h2; subst h1; subst h2
      exact ⟨sc, hinv, Nat.le_refl _, fun nl _ => .cont _ _⟩
  | .ret e, ab, sc, scs, gscs, F, st, s', st', hs, hinv, h => by
    cases hs with
    | ret _ _ hfn hse =>
      simp only [resolveS] at h
      split at h
      · cases h
      · cases hr : resolveE e st with
        | error er => simp [hr] at h
        | ok p =>
          obtain ⟨e1, st1⟩ := p
          simp only [hr] at h
          injection h with h; injection h with h1 h2; subst h1; subst h2
          obtain ⟨hi, hle, hx⟩ := rE fn e ab _ gscs F st e1 st1 hse hinv hr
          exact ⟨sc, hi, hle, fun nl hnl => .ret _ _ _ e1 hfn (hx nl hnl)⟩

theorem rSs (fn : Bool) : (b : Block) → ∀ (ab : Bool) (sc : List (Text × Nat)) (scs gscs : Scs) (F : Nat) (st : RState) (b' : RBlock) (st' : RState),
    SrcB fn ab b → RInv fn st (sc :: scs) gscs F → resolveSs b st = .ok (b', st') →
    ∃ sc', RInv fn st' (sc' :: scs) gscs F ∧ lim fn st ≤ lim fn st' ∧
      ∀ nl, lim fn st' ≤ nl → YB nl fn (gamOf fn gscs (sc :: scs)) (lamOf fn (sc :: scs)) ab b' (gamOf fn gscs (sc' :: scs)) (lamOf fn (sc' :: scs))
  | .nil, ab, sc, scs, gscs, F, st, b', st', _, hinv, h => by
    simp only [resolveSs] at h; injection h with h; injection h with h1 h2; subst h1; subst h2
    exact ⟨sc, hinv, Nat.le_refl _, fun nl _ => .nil _ _ _⟩
  | .cons s rest, ab, sc, scs, gscs, F, st, b', st', hs, hinv, h => by
    cases hs with
    | cons _ _ _ hss hsrest =>
      simp only [resolveSs] at h
      cases hr : resolveS s st with
      | error er => simp [hr] at h
      | ok p =>
        obtain ⟨s1, st1⟩ := p
        simp only [hr] at h
        obtain ⟨sc1, hi1, hle1, hx1⟩ := rS fn s ab sc scs gscs F st s1 st1 hss hinv hr
        cases hr2 : resolveSs rest st1 with
        | error er => simp [hr2] at h
        | ok q =>
          obtain ⟨b1, st2⟩ := q
          simp only [hr2] at h
          injection h with h; injection h with h1 h2; subst h1; subst h2
          obtain ⟨sc2, hi2, hle2, hx2⟩ := rSs fn rest ab sc1 scs gscs F st1 b1 st2 hsrest hi1 hr2
          exact ⟨sc2, hi2, Nat.le_trans hle1 hle2, fun nl hnl => .cons _ _ _ _ _ _ _ _ _ (hx1 nl (Nat.le_trans hle2 hnl)) (hx2 nl hnl)⟩

theorem rB (fn : Bool) : (b : Block) → ∀ (ab : Bool) (scs gscs : Scs) (F : Nat) (st : RState) (b' : RBlock) (st' : RState),
    SrcB fn ab b → RInv fn st scs gscs F → resolveB b st = .ok (b', st') →
    RInv fn st' scs gscs F ∧ lim fn st ≤ lim fn st' ∧
      ∀ nl, lim fn st' ≤ nl → ∃ Γ1 Λ1, YB nl fn (gamOf fn gscs scs) (lamOf fn scs) ab b' Γ1 Λ1
  | .nil, ab, scs, gscs, F, st, b', st', _, hinv, h => by
    simp only [resolveB] at h; injection h with h; injection h with h1 h2; subst h1; subst h2
    exact ⟨hinv, Nat.le_refl _, fun nl _ => ⟨_, _, .nil _ _ _⟩⟩
  | .cons s rest, ab, scs, gscs, F, st, b', st', hs, hinv, h => by
    cases hs with
    | cons _ _ _ hss hsrest =>
      simp only [resolveB] at h
      obtain ⟨hinv0, hl0⟩ := rinv_enter fn st scs gscs F hinv
      cases hr : resolveS s st.enterScope with
      | error er => simp [hr] at h
      | ok p =>
        obtain ⟨s1, st1⟩ := p
        simp only [hr] at h
        obtain ⟨sc1, hi1, hle1, hx1⟩ := rS fn s ab [] scs gscs F st.enterScope s1 st1 hss hinv0 hr
        cases hr2 : resolveSs rest st1 with
        | error er => simp [hr2] at h
        | ok q =>
          obtain ⟨b1, st2⟩ := q
          simp only [hr2] at h
          injection h with h; injection h with h1 h2; subst h1; subst h2
          obtain ⟨sc2, hi2, hle2, hx2⟩ := rSs fn rest ab sc1 scs gscs F st1 b1 st2 hsrest hi1 hr2
          obtain ⟨hi3, hl3⟩ := rinv_leave fn st2 sc2 scs gscs F hi2
          refine ⟨hi3, by rw [hl3, ← hl0]; exact Nat.le_trans hle1 hle2, fun nl hnl => ?_⟩
          rw [hl3] at hnl
          have h1 := hx1 nl (Nat.le_trans hle2 hnl)
          rw [gamOf_enter, lamOf_enter] at h1
          exact ⟨_, _, .cons _ _ _ _ _ _ _ _ _ h1 (hx2 nl hnl)⟩
end

end SimF
end Nl
