/- Stage 5: `als` and the loop lemma with heap values. -/
import Nlmodel.Proofs.Lemmas.SimHExpr3
namespace Nl
namespace SimH
open Spec Sim

section ctl
variable {s0 : VM} {CS : List Const} {C : Code} {Γ : Gam} {ab : Bool} {μ : AMap} {st : SState} {pos : Nat} {lp : LoopCtx} {cs : List Const}
  {stk g : Array Value} {l : Value} {m : Mem} {out : List Text}

theorem not_bool_of_vr {μ : AMap} {st : SState} {h : Heap} {v : SVal} {mv : Value} (hv : VRh μ st h v mv) (hnb : ∀ b, v ≠ .bool b) : ∀ b, mv ≠ .bool b := by
  intro b e; subst e
  cases v <;> simp only [VRh] at hv
  exact hnb _ rfl

theorem pe5_if (f : Nat) (ih : PAll5 s0 CS C f) (c : RExpr) (t : RBlock) (e : ROptBlock) (Γ1 : Gam)
    (hc : HE Γ ab c) (ht : HB Γ ab t Γ1) (he : HO Γ ab e) (hok : GamOK Γ) (hinv : Inv5 s0 CS Γ μ st g l m out)
    (hcode : CodeAt C pos (emitE (.ifE c t e) pos lp cs).1) (hext : Ext (emitE (.ifE c t e) pos lp cs).2 CS) :
    GoalV5 s0 CS C Γ ab lp μ pos stk g l m out (pos + sizeE (.ifE c t e)) stk st (evalE (f + 1) (.ifE c t e) st) := by
  simp only [emitE] at hcode hext
  obtain ⟨hc1234, hce⟩ := hcode.append
  obtain ⟨hc123, hcj⟩ := hc1234.append
  obtain ⟨hc12, hct⟩ := hc123.append
  obtain ⟨hcc, hcjif⟩ := hc12.append
  have hsz : sizeE (.ifE c t e) = sizeE c + 3 + sizeBV t + 3 + sizeO e := by simp only [sizeE]; rfl
  have hcjif := hcjif.cast (b := pos + sizeE c) (by simp [emitE_size])
  have hct := hct.cast (b := pos + sizeE c + 3) (by simp [emitE_size, Instr.size]; omega)
  have hcj := hcj.cast (b := pos + sizeE c + 3 + sizeBV t) (by simp [emitE_size, Instr.size, codeSize_asValue]; omega)
  have hce := hce.cast (b := pos + sizeE c + 3 + sizeBV t + 3) (by simp [emitE_size, Instr.size, codeSize_asValue]; omega)
  have hextt : Ext (emitB t (pos + sizeE c + 3) lp (emitE c pos lp cs).2).2 CS := (emitO_ext e _ _ _).trans hext
  have hextc : Ext (emitE c pos lp cs).2 CS := (emitB_ext t _ _ _).trans hextt
  have ihc := ih.e Γ ab c hc hok μ st pos lp cs stk g l m out hinv hcc hextc
  rw [hsz]
  simp only [evalE]
  cases hrc : evalE f c st with
  | val v st1 =>
    rw [hrc] at ihc
    obtain ⟨mv, μ1, m1, hmv, g1, l1, out1, n, hn, hinv1, hg1⟩ := ihc
    have herr : (∀ b, v ≠ .bool b) → Fails5 C (setH s0 pos stk g l m out) .type st1.out := by
      intro hnb
      obtain ⟨s2, hs2, ho2⟩ := step_jif_err (s0 := s0) (stk := stk) (g := g1) (l := l1) (m := m1) (out := out1) hcjif (not_bool_of_vr hmv hnb)
      exact ⟨n, _, s2, hn, hs2, by rw [ho2, hinv1.out]⟩
    cases v with
    | bool bb =>
      have : mv = .bool bb := by cases mv <;> simp only [VRh] at hmv; rw [hmv]
      subst this
      have hj := execN_step C n _ _ _ hn (step_jif hcjif)
      cases bb with
      | true =>
        simp only [↓reduceIte] at hj
        have iht := ih.bv Γ ab t Γ1 ht hok μ1 st1 (pos + sizeE c + 3) lp _ stk g1 l1 m1 out1 hinv1 hct hextt
        have iht2 := iht.then_val (e2 := pos + (sizeE c + 3 + sizeBV t + 3 + sizeO e)) (fun mv g' l' m' out' => by
          rw [step_jump hcj]; congr 2 <;> omega)
        exact iht2.prefix (n + 1) hj hg1
      | false =>
        simp only [Bool.false_eq_true, ↓reduceIte] at hj
        cases he with
        | none _ _ =>
          simp only [emitO] at hce
          refine ⟨.null, μ1, m1, trivial, g1, l1, out1, n + 1 + 1, ?_, hinv1, hg1⟩
          have := execN_step C (n + 1) _ _ _ hj (step_null hce)
          rw [this]; simp only [sizeO]; congr 2; omega
        | some _ _ b Γ2 hb =>
          simp only [emitO] at hce hext
          have ihb := ih.bv Γ ab b Γ2 hb hok μ1 st1 (pos + sizeE c + 3 + sizeBV t + 3) lp _ stk g1 l1 m1 out1 hinv1 hce hext
          have : pos + sizeE c + 3 + sizeBV t + 3 + sizeBV b = pos + (sizeE c + 3 + sizeBV t + 3 + sizeO (.some b)) := by
            simp only [sizeO]; unfold sizeBV; omega
          rw [this] at ihb
          exact ihb.prefix (n + 1) hj hg1
    | null => exact herr (by simp)
    | int i => exact herr (by simp)
    | float x => exact herr (by simp)
    | str a => exact herr (by simp)
    | arr a => exact herr (by simp)
    | fn a b c d => cases mv <;> simp [VRh] at hmv
  | err er st1 => rw [hrc] at ihc; exact ihc
  | fuel => trivial
  | unspec _ => trivial
  | brk _ => rw [hrc] at ihc; exact ihc
  | cont _ => rw [hrc] at ihc; exact ihc
  | ret _ _ => rw [hrc] at ihc; exact ihc

theorem pl5_succ (f : Nat) (ih : PAll5 s0 CS C f) : PL5 s0 CS C (f + 1) := by
  intro Γ ab c b Γ1 hc hb hok μ st pos lp cs stk g l m out acc accv hacc hinv hcode hext
  obtain ⟨_, hcc, hjif, hcb, hjmp, hsz⟩ := while_layout c b hcode
  have hext0 := hext
  simp only [emitE] at hext
  generalize hlp : (some (pos + 1, pos + 1 + sizeE c + 4 + sizeBV b + 3) : LoopCtx) = lp' at hcc hcb hext
  have hextc : Ext (emitE c (pos + 1) lp' cs).2 CS := (emitB_ext b _ _ _).trans hext
  have ihc := ih.e Γ false c hc hok μ st (pos + 1) lp' cs (stk.push accv) g l m out hinv hcc hextc
  rw [hsz]
  simp only [evalLoop]
  cases hrc : evalE f c st with
  | val v st1 =>
    rw [hrc] at ihc
    obtain ⟨mv, μ1, m1, hmv, g1, l1, out1, n, hn, hinv1, hg1⟩ := ihc
    have hacc1 := hacc.grow hg1
    have herr : (∀ b, v ≠ .bool b) → Fails5 C (setH s0 (pos + 1) (stk.push accv) g l m out) .type st1.out := by
      intro hnb
      obtain ⟨s2, hs2, ho2⟩ := step_jif_err (s0 := s0) (stk := stk.push accv) (g := g1) (l := l1) (m := m1) (out := out1) hjif (not_bool_of_vr hmv hnb)
      exact ⟨n, _, s2, hn, hs2, by rw [ho2, hinv1.out]⟩
    cases v with
    | bool bb =>
      have : mv = .bool bb := by cases mv <;> simp only [VRh] at hmv; rw [hmv]
      subst this
      have hj := execN_step C n _ _ _ hn (step_jif hjif)
      cases bb with
      | false =>
        simp only [Bool.false_eq_true, ↓reduceIte] at hj
        refine ⟨accv, μ1, m1, hacc1, g1, l1, out1, n + 1, ?_, hinv1, hg1⟩
        rw [hj]; congr 2; omega
      | true =>
        simp only [↓reduceIte] at hj
        have hp := execN_step C (n + 1) _ _ _ hj (step_pop (by simpa [Instr.size] using hjif.tail))
        have hp : execN C (n + 1 + 1) (setH s0 (pos + 1) (stk.push accv) g l m out) = some (setH s0 (pos + 1 + sizeE c + 4) stk g1 accv m1 out1) := by
          rw [hp]
        have hst : ({ st1 with last := acc } : SState).store = st1.store := rfl
        have hgl : Grow μ1 st1 m1.heap μ1 { st1 with last := acc } m1.heap := grow_store_eq hst
        have hinv1' : Inv5 s0 CS Γ μ1 { st1 with last := acc } g1 accv m1 out1 :=
          ⟨fun b k hm v hv => by
              obtain ⟨mv, h1, h2⟩ := hinv1.relG b k hm v hv
              exact ⟨mv, h1.grow hgl, h2⟩,
            hacc1.grow hgl, hinv1.hr.store_eq hst, hinv1.out, hinv1.pool, hinv1.mok⟩
        have ihb := ih.bv Γ true b Γ1 hb hok μ1 { st1 with last := acc } (pos + 1 + sizeE c + 4) lp' _ stk g1 accv m1 out1 hinv1' hcb hext
        simp only
        cases hrb : evalBV f b { st1 with last := acc } with
        | val w st2 =>
          rw [hrb] at ihb
          obtain ⟨mw, μ2, m2, hmw, g2, l2, out2, n2, hn2, hinv2, hg2⟩ := ihb
          have hjm := execN_step C n2 _ _ _ hn2 (step_jump hjmp)
          have ihl := ih.l Γ ab c b Γ1 hc hb hok μ2 st2 pos lp cs stk g2 l2 m2 out2 w mw hmw hinv2 hcode hext0
          rw [hsz] at ihl
          exact (ihl.prefix (n2 + 1) hjm hg2).prefix (n + 1 + 1) hp (hg1.trans hgl)
        | brk st2 =>
          rw [hrb] at ihb
          obtain ⟨_, μ2, m2, g2, l2, out2, n2, hn2, hinv2, hg2⟩ := ihb
          refine ⟨.null, μ2, m2, trivial, g2, l2, out2, n + 1 + 1 + n2, ?_, hinv2, (hg1.trans hgl).trans hg2⟩
          rw [execN_add C _ _ _ _ _ hp hn2, ← hlp]; simp only [brkT]; congr 2; omega
        | cont st2 =>
          rw [hrb] at ihb
          obtain ⟨_, μ2, m2, g2, l2, out2, n2, hn2, hinv2, hg2⟩ := ihb
          have hn2' : execN C n2 (setH s0 (pos + 1 + sizeE c + 4) stk g1 accv m1 out1) = some (setH s0 (pos + 1) (stk.push .null) g2 l2 m2 out2) := by
            rw [hn2, ← hlp]; rfl
          have ihl := ih.l Γ ab c b Γ1 hc hb hok μ2 st2 pos lp cs stk g2 l2 m2 out2 .null .null trivial hinv2 hcode hext0
          rw [hsz] at ihl
          exact (ihl.prefix n2 hn2' hg2).prefix (n + 1 + 1) hp (hg1.trans hgl)
        | err er st2 => rw [hrb] at ihb; exact Fails5.after (n + 1 + 1) hp ihb
        | ret _ _ => rw [hrb] at ihb; exact ihb
        | fuel => trivial
        | unspec _ => trivial
    | null => exact herr (by simp)
    | int i => exact herr (by simp)
    | float x => exact herr (by simp)
    | str a => exact herr (by simp)
    | arr a => exact herr (by simp)
    | fn a b c d => cases mv <;> simp [VRh] at hmv
  | err er st1 => rw [hrc] at ihc; exact ihc
  | fuel => trivial
  | unspec _ => trivial
  | brk _ => rw [hrc] at ihc; exact absurd ihc.1 (by simp)
  | cont _ => rw [hrc] at ihc; exact absurd ihc.1 (by simp)
  | ret _ _ => rw [hrc] at ihc; exact ihc

end ctl
end SimH
end Nl
