/- The rule check of all emitted code (mutual induction over the resolved tree). -/
import Nlmodel.Proofs.Lemmas.EmitCert
namespace Nl
namespace CV
open Verifier Sim

mutual
theorem ckE (c : Cert) (F : List Const) (hF : FnTab F) : (e : RExpr) →
    ∀ (pos : Nat) (lp : LoopCtx) (cs : List Const) (o h : Nat) (fn : Bool) (nl : Nat) (lb : Bool),
    Seg c pos (annE e pos lp cs o h) → succOK c (pos + sizeE e) o (h + 1) = true →
    LoopOK c lp lb o h → WfE fn nl lb e → Own F fn nl o → Ext (emitE e pos lp cs).2 F →
    Chk c (fnTable F) F.length pos (annE e pos lp cs o h)
  | .int v, pos, lp, cs, o, h, fn, nl, lb, hseg, hk, hlp, hwf, hown, hext => by
    simp only [emitE] at hext
    simp only [sizeE] at hk
    simp [annE, Chk, checkInstr, Instr.size, addConst_idx _ _ _ hext, hk]
  | .float v, pos, lp, cs, o, h, fn, nl, lb, hseg, hk, hlp, hwf, hown, hext => by
    simp only [emitE] at hext
    simp only [sizeE] at hk
    simp [annE, Chk, checkInstr, Instr.size, addConst_idx _ _ _ hext, hk]
  | .str v, pos, lp, cs, o, h, fn, nl, lb, hseg, hk, hlp, hwf, hown, hext => by
    simp only [emitE] at hext
    simp only [sizeE] at hk
    simp [annE, Chk, checkInstr, Instr.size, addConst_idx _ _ _ hext, hk]
  | .bool b, pos, lp, cs, o, h, fn, nl, lb, hseg, hk, hlp, hwf, hown, hext => by
    simp only [sizeE] at hk
    cases b <;> simp [annE, Chk, checkInstr, Instr.size, hk]
  | .var r, pos, lp, cs, o, h, fn, nl, lb, hseg, hk, hlp, hwf, hown, hext => by
    simp only [sizeE] at hk
    simp only [WfE] at hwf
    simp only [annE, Chk, and_true, getVar_size]
    exact getVar_chk c F fn nl o h pos r.slot hwf hown hk
  | .not r, pos, lp, cs, o, h, fn, nl, lb, hseg, hk, hlp, hwf, hown, hext => by
    simp only [annE, Seg_append, asizeE, Seg, and_true] at hseg
    simp only [annE, Chk_append, asizeE, Chk, and_true]
    simp only [sizeE] at hk; simp only [WfE] at hwf; simp only [emitE] at hext
    obtain ⟨h1, h2⟩ := hseg
    refine ⟨ckE c F hF r pos lp cs o h fn nl lb h1 (succOK_of_get h2 (Nat.le_refl _)) hlp hwf hown hext, ?_⟩
    simpa [checkInstr, Instr.size, Nat.add_assoc] using hk
  | .neg r, pos, lp, cs, o, h, fn, nl, lb, hseg, hk, hlp, hwf, hown, hext => by
    simp only [annE, Seg_append, asizeE, Seg, and_true] at hseg
    simp only [annE, Chk_append, asizeE, Chk, and_true]
    simp only [sizeE] at hk; simp only [WfE] at hwf; simp only [emitE] at hext
    obtain ⟨h1, h2⟩ := hseg
    refine ⟨ckE c F hF r pos lp cs o h fn nl lb h1 (succOK_of_get h2 (Nat.le_refl _)) hlp hwf hown hext, ?_⟩
    simpa [checkInstr, Instr.size, Nat.add_assoc] using hk
  | .assignVar r e, pos, lp, cs, o, h, fn, nl, lb, hseg, hk, hlp, hwf, hown, hext => by
    simp only [annE, Seg_append, asizeE, Seg, and_true, setVar_size] at hseg
    simp only [annE, Chk_append, asizeE, Chk, and_true, setVar_size, getVar_size]
    simp only [sizeE] at hk; simp only [WfE] at hwf; simp only [emitE] at hext
    obtain ⟨h1, h2, h3⟩ := hseg
    refine ⟨ckE c F hF e pos lp cs o h fn nl lb h1 (succOK_of_get h2 (Nat.le_refl _)) hlp hwf.2 hown hext, ?_, ?_⟩
    · exact setVar_chk c F fn nl o h _ r.slot hwf.1 hown (succOK_of_get h3 (Nat.le_refl _))
    · exact getVar_chk c F fn nl o h _ r.slot hwf.1 hown (succOK_cast hk (by omega) rfl)
  | .assignIndex l i v, pos, lp, cs, o, h, fn, nl, lb, hseg, hk, hlp, hwf, hown, hext => by
    simp only [annE, Seg_append, asize_append, asizeE, Seg, and_true, ← Nat.add_assoc] at hseg
    simp only [annE, Chk_append, asize_append, asizeE, Chk, and_true, ← Nat.add_assoc]
    simp only [sizeE] at hk; simp only [WfE] at hwf; simp only [emitE] at hext
    obtain ⟨⟨⟨h1, h2⟩, h3⟩, h4⟩ := hseg
    refine ⟨⟨⟨?_, ?_⟩, ?_⟩, ?_⟩
    · exact ckE c F hF l pos lp cs o h fn nl lb h1 (Seg_succ h2 (headE ..) (Nat.le_refl _)) hlp hwf.1 hown
        ((emitE_ext _ _ _ _).trans ((emitE_ext _ _ _ _).trans hext))
    · exact ckE c F hF i _ lp _ o (h + 1) fn nl lb h2 (Seg_succ h3 (headE ..) (Nat.le_refl _)) (hlp.mono (by omega))
        hwf.2.1 hown ((emitE_ext _ _ _ _).trans hext)
    · exact ckE c F hF v _ lp _ o (h + 2) fn nl lb h3 (succOK_of_get h4 (Nat.le_refl _)) (hlp.mono (by omega))
        hwf.2.2 hown hext
    · simp only [checkInstr, Instr.size, Bool.and_eq_true, decide_eq_true_eq]
      exact ⟨by omega, succOK_cast hk (by omega) (by omega)⟩
  | .infix l op r, pos, lp, cs, o, h, fn, nl, lb, hseg, hk, hlp, hwf, hown, hext => by
    simp only [annE] at hseg ⊢
    simp only [sizeE] at hk; simp only [WfE] at hwf; simp only [emitE] at hext
    cases hf : fusedCandidate l op r with
    | some p =>
      obtain ⟨op', k, v⟩ := p
      simp only [hf] at hseg hk hext ⊢
      have hk' : k < nlocals (fnTable F) o := Nat.lt_of_lt_of_le (fused_loc l r op op' k v fn nl lb hf hwf.1 hwf.2) hown.le
      simp [Chk, checkInstr, Instr.size, addConst_idx _ _ _ hext, hk, hk']
    | none =>
      simp only [hf] at hseg hk hext ⊢
      simp only [Seg_append, asize_append, asizeE, Seg, and_true, ← Nat.add_assoc] at hseg
      simp only [Chk_append, asize_append, asizeE, Chk, and_true, ← Nat.add_assoc]
      obtain ⟨⟨h1, h2⟩, h3⟩ := hseg
      refine ⟨⟨?_, ?_⟩, ?_⟩
      · exact ckE c F hF l pos lp cs o h fn nl lb h1 (Seg_succ h2 (headE ..) (Nat.le_refl _)) hlp hwf.1 hown
          ((emitE_ext _ _ _ _).trans hext)
      · exact ckE c F hF r _ lp _ o (h + 1) fn nl lb h2 (succOK_of_get h3 (Nat.le_refl _)) (hlp.mono (by omega))
          hwf.2 hown hext
      · simp only [checkInstr, Instr.size, Bool.and_eq_true, decide_eq_true_eq]
        exact ⟨by omega, succOK_cast hk (by omega) (by omega)⟩
  | .index l i, pos, lp, cs, o, h, fn, nl, lb, hseg, hk, hlp, hwf, hown, hext => by
    simp only [annE, Seg_append, asize_append, asizeE, Seg, and_true, ← Nat.add_assoc] at hseg
    simp only [annE, Chk_append, asize_append, asizeE, Chk, and_true, ← Nat.add_assoc]
    simp only [sizeE] at hk; simp only [WfE] at hwf; simp only [emitE] at hext
    obtain ⟨⟨h1, h2⟩, h3⟩ := hseg
    refine ⟨⟨?_, ?_⟩, ?_⟩
    · exact ckE c F hF l pos lp cs o h fn nl lb h1 (Seg_succ h2 (headE ..) (Nat.le_refl _)) hlp hwf.1 hown
        ((emitE_ext _ _ _ _).trans hext)
    · exact ckE c F hF i _ lp _ o (h + 1) fn nl lb h2 (succOK_of_get h3 (Nat.le_refl _)) (hlp.mono (by omega))
        hwf.2 hown hext
    · simp only [checkInstr, Instr.size, Bool.and_eq_true, decide_eq_true_eq]
      exact ⟨by omega, succOK_cast hk (by omega) (by omega)⟩
  | .call f as, pos, lp, cs, o, h, fn, nl, lb, hseg, hk, hlp, hwf, hown, hext => by
    simp only [annE, Seg_append, asize_append, asizeE, asizeEs, Seg, and_true, ← Nat.add_assoc] at hseg
    simp only [annE, Chk_append, asize_append, asizeE, asizeEs, Chk, and_true, ← Nat.add_assoc]
    simp only [sizeE] at hk; simp only [WfE] at hwf; simp only [emitE] at hext
    obtain ⟨⟨h1, h2⟩, h3⟩ := hseg
    refine ⟨⟨?_, ?_⟩, ?_⟩
    · exact ckEs c F hF as pos lp cs o h fn nl lb h1 (Seg_succ h2 (headE ..) (Nat.le_refl _)) hlp hwf.1 hown
        ((emitE_ext _ _ _ _).trans hext)
    · exact ckE c F hF f _ lp _ o (h + as.length) fn nl lb h2 (succOK_of_get h3 (Nat.le_refl _)) (hlp.mono (by omega))
        hwf.2 hown hext
    · simp only [checkInstr, Instr.size, Bool.and_eq_true, decide_eq_true_eq]
      exact ⟨by omega, succOK_cast hk (by omega) (by omega)⟩
  | .callBuiltin b as, pos, lp, cs, o, h, fn, nl, lb, hseg, hk, hlp, hwf, hown, hext => by
    simp only [annE, Seg_append, asizeEs, Seg, and_true] at hseg
    simp only [annE, Chk_append, asizeEs, Chk, and_true]
    simp only [sizeE] at hk; simp only [WfE] at hwf; simp only [emitE] at hext
    obtain ⟨h1, h2⟩ := hseg
    refine ⟨ckEs c F hF as pos lp cs o h fn nl lb h1 (succOK_of_get h2 (Nat.le_refl _)) hlp hwf hown hext, ?_⟩
    simp only [checkInstr, Instr.size, Bool.and_eq_true, decide_eq_true_eq]
    exact ⟨⟨by cases b <;> simp [Builtin.id], by omega⟩, succOK_cast hk (by omega) (by omega)⟩
  | .arr vs, pos, lp, cs, o, h, fn, nl, lb, hseg, hk, hlp, hwf, hown, hext => by
    simp only [annE, Seg_append, asizeEs, Seg, and_true] at hseg
    simp only [annE, Chk_append, asizeEs, Chk, and_true]
    simp only [sizeE] at hk; simp only [WfE] at hwf; simp only [emitE] at hext
    obtain ⟨h1, h2⟩ := hseg
    refine ⟨ckEs c F hF vs pos lp cs o h fn nl lb h1 (succOK_of_get h2 (Nat.le_refl _)) hlp hwf hown hext, ?_⟩
    simp only [checkInstr, Instr.size, Bool.and_eq_true, decide_eq_true_eq]
    exact ⟨by omega, succOK_cast hk (by omega) (by omega)⟩
  | .ifE cnd t e, pos, lp, cs, o, h, fn, nl, lb, hseg, hk, hlp, hwf, hown, hext => by
    simp only [annE, Seg_append, asize_append, asizeE, asizeBV, asize_cons, asize_nil, Instr.size, Seg, and_true,
      ← Nat.add_assoc, Nat.add_zero] at hseg
    simp only [annE, Chk_append, asize_append, asizeE, asizeBV, asize_cons, asize_nil, Instr.size, Chk, and_true,
      ← Nat.add_assoc, Nat.add_zero]
    simp only [sizeE] at hk; simp only [WfE] at hwf; simp only [emitE] at hext
    obtain ⟨⟨⟨⟨h1, h2⟩, h3⟩, h4⟩, h5⟩ := hseg
    refine ⟨⟨⟨⟨?_, ?_⟩, ?_⟩, ?_⟩, ?_⟩
    · exact ckE c F hF cnd pos lp cs o h fn nl lb h1 (succOK_of_get h2 (Nat.le_refl _)) hlp hwf.1 hown
        ((emitB_ext _ _ _ _).trans ((emitO_ext _ _ _ _).trans hext))
    · simp only [checkInstr, Bool.and_eq_true, decide_eq_true_eq]
      exact ⟨⟨by omega, Seg_succ h3 (head_valWrap ..) (by omega)⟩, Seg_succ h5 (headO ..) (by omega)⟩
    · refine valWrap_chk c F t _ lp _ o h ?_ h3 (succOK_of_get h4 (Nat.le_refl _))
      intro hs hk'
      exact ckB c F hF t true _ lp _ o h fn nl lb hs hk' hlp hwf.2.1 hown ((emitO_ext _ _ _ _).trans hext)
    · simp only [checkInstr]
      exact succOK_cast hk (by simp only [sizeBV]; omega) rfl
    · exact ckO c F hF e _ lp _ o h fn nl lb h5 (succOK_cast hk (by simp only [sizeBV]; omega) rfl) hlp hwf.2.2 hown hext
  | .whileE cnd b, pos, lp, cs, o, h, fn, nl, lb, hseg, hk, hlp, hwf, hown, hext => by
    simp only [annE, Seg_append, asize_append, asizeE, asizeBV, asize_cons, asize_nil, Instr.size, Seg, and_true,
      ← Nat.add_assoc, Nat.add_zero] at hseg
    simp only [annE, Chk_append, asize_append, asizeE, asizeBV, asize_cons, asize_nil, Instr.size, Chk, and_true,
      ← Nat.add_assoc, Nat.add_zero]
    simp only [sizeE] at hk; simp only [WfE] at hwf; simp only [emitE] at hext
    obtain ⟨⟨⟨⟨h0, h1⟩, h2, h2'⟩, h3⟩, h4⟩ := hseg
    have hl0 : c.get (pos + 1) = some (o, h + 1) := Seg_starts h1 (headE ..)
    have hpend : succOK c (pos + 1 + sizeE cnd + 4 + sizeBV b + 3) o (h + 1) = true :=
      succOK_cast hk (by simp only [sizeBV]; omega) rfl
    refine ⟨⟨⟨⟨?_, ?_⟩, ?_, ?_⟩, ?_⟩, ?_⟩
    · simp only [checkInstr]; exact succOK_of_get hl0 (Nat.le_refl _)
    · refine ckE c F hF cnd _ _ cs o (h + 1) fn nl true h1 (succOK_of_get h2 (Nat.le_refl _)) ?_ hwf.1 hown
        ((emitB_ext _ _ _ _).trans hext)
      intro _
      exact ⟨_, _, rfl, succOK_of_get hl0 (by omega), succOK_mono hpend (by omega)⟩
    · simp only [checkInstr, Bool.and_eq_true, decide_eq_true_eq]
      exact ⟨⟨by omega, succOK_of_get h2' (by omega)⟩, succOK_mono hpend (by omega)⟩
    · simp only [checkInstr, Bool.and_eq_true, decide_eq_true_eq]
      exact ⟨by omega, Seg_succ h3 (head_valWrap ..) (by omega)⟩
    · refine valWrap_chk c F b _ _ _ o h ?_ h3 (succOK_of_get h4 (Nat.le_refl _))
      intro hs hk'
      refine ckB c F hF b true _ _ _ o h fn nl true hs hk' ?_ hwf.2 hown hext
      intro _
      exact ⟨_, _, rfl, succOK_of_get hl0 (by omega), hpend⟩
    · simp only [checkInstr]; exact succOK_of_get hl0 (Nat.le_refl _)
  | .func fid self ps nlf body, pos, lp, cs, o, h, fn, nl, lb, hseg, hk, hlp, hwf, hown, hext => by
    simp only [sizeE] at hk; simp only [WfE] at hwf; simp only [emitE] at hext
    have hmem : Const.fn (pos + 3) nlf ∈ F := Ext_mem hext (addConst_fn_mem _ _ _)
    have hown' : Own F true nlf (pos + 3) := ⟨fun _ => by omega, Nat.le_of_eq (hF _ _ hmem).symm⟩
    have hkidx := addConst_idx _ _ _ hext
    have hbody : ∀ p, Seg c p (fnWrap body (annB true body (pos + 3) none cs (pos + 3) 0) (pos + 3)) → p = pos + 3 →
        Chk c (fnTable F) F.length p (fnWrap body (annB true body (pos + 3) none cs (pos + 3) 0) (pos + 3)) := by
      intro p hs hp
      subst hp
      refine fnWrap_chk c F body (pos + 3) none cs (by omega) ?_ hs
      intro hs' hk'
      exact ckB c F hF body true _ none _ _ 0 true nlf false hs' hk' (fun hb => by cases hb) hwf.2 hown'
        ((addConst_ext _ _).trans hext)
    cases self with
    | none =>
      simp only [annE, Seg_append, asize_append, asizeBF, asize_cons, asize_nil, Instr.size, Seg, and_true,
        ← Nat.add_assoc, Nat.add_zero, List.append_nil] at hseg
      simp only [annE, Chk_append, asize_append, asizeBF, asize_cons, asize_nil, Instr.size, Chk, and_true,
        ← Nat.add_assoc, Nat.add_zero, List.append_nil]
      obtain ⟨⟨h1, h2⟩, h3⟩ := hseg
      refine ⟨⟨?_, hbody _ h2 rfl⟩, ?_⟩
      · simp only [checkInstr]; exact succOK_of_get h3 (Nat.le_refl _)
      · simp only [checkInstr, Bool.and_eq_true, decide_eq_true_eq]
        exact ⟨hkidx, succOK_cast hk (by simp only [sizeBF]; omega) rfl⟩
    | some r =>
      simp only [annE, Seg_append, asize_append, asizeBF, asize_cons, asize_nil, Seg, and_true,
        ← Nat.add_assoc, Nat.add_zero, setVar_size] at hseg
      simp only [Instr.size] at hseg
      simp only [annE, Chk_append, asize_append, asizeBF, asize_cons, asize_nil, Chk, and_true,
        ← Nat.add_assoc, Nat.add_zero, setVar_size]
      simp only [Instr.size]
      obtain ⟨⟨⟨h1, h2⟩, h3⟩, h4, h5⟩ := hseg
      refine ⟨⟨⟨?_, hbody _ h2 rfl⟩, ?_⟩, ?_, ?_⟩
      · simp only [checkInstr]; exact succOK_of_get h3 (Nat.le_refl _)
      · simp only [checkInstr, Bool.and_eq_true, decide_eq_true_eq]
        exact ⟨hkidx, succOK_of_get h4 (Nat.le_refl _)⟩
      · exact setVar_chk c F fn nl o h _ r.slot hwf.1 hown (succOK_of_get h5 (Nat.le_refl _))
      · simp only [checkInstr, Bool.and_eq_true, decide_eq_true_eq]
        exact ⟨hkidx, succOK_cast hk (by simp only [sizeBF]; omega) rfl⟩

theorem ckEs (c : Cert) (F : List Const) (hF : FnTab F) : (es : RExprs) →
    ∀ (pos : Nat) (lp : LoopCtx) (cs : List Const) (o h : Nat) (fn : Bool) (nl : Nat) (lb : Bool),
    Seg c pos (annEs es pos lp cs o h) → succOK c (pos + sizeEs es) o (h + es.length) = true →
    LoopOK c lp lb o h → WfEs fn nl lb es → Own F fn nl o → Ext (emitEs es pos lp cs).2 F →
    Chk c (fnTable F) F.length pos (annEs es pos lp cs o h)
  | .nil, pos, lp, cs, o, h, fn, nl, lb, hseg, hk, hlp, hwf, hown, hext => by simp [annEs, Chk]
  | .cons e es, pos, lp, cs, o, h, fn, nl, lb, hseg, hk, hlp, hwf, hown, hext => by
    simp only [annEs, Seg_append, asizeE] at hseg
    simp only [annEs, Chk_append, asizeE]
    simp only [sizeEs, RExprs.length] at hk; simp only [WfEs] at hwf; simp only [emitEs] at hext
    obtain ⟨h1, h2⟩ := hseg
    refine ⟨ckE c F hF e pos lp cs o h fn nl lb h1 ?_ hlp hwf.1 hown ((emitEs_ext _ _ _ _).trans hext),
      ckEs c F hF es _ lp _ o (h + 1) fn nl lb h2 (succOK_cast hk (by omega) (by omega)) (hlp.mono (by omega)) hwf.2 hown hext⟩
    rcases headEs es (pos + sizeE e) lp (emitE e pos lp cs).2 o (h + 1) with hn | hs
    · subst hn
      exact succOK_cast hk (by simp only [sizeEs]; omega) (by simp only [RExprs.length])
    · exact Seg_succ h2 hs (Nat.le_refl _)

theorem ckS (c : Cert) (F : List Const) (hF : FnTab F) : (s : RStmt) →
    ∀ (v : Bool) (pos : Nat) (lp : LoopCtx) (cs : List Const) (o h : Nat) (fn : Bool) (nl : Nat) (lb : Bool),
    Seg c pos (annS v s pos lp cs o h) →
    (stk s = .returns ∨ succOK c (pos + asize (annS v s pos lp cs o h)) o (hOut v (stk s) h) = true) →
    LoopOK c lp lb o h → WfS fn nl lb s → Own F fn nl o → Ext (emitS s pos lp cs).2 F →
    Chk c (fnTable F) F.length pos (annS v s pos lp cs o h)
  | .expr e, v, pos, lp, cs, o, h, fn, nl, lb, hseg, hk, hlp, hwf, hown, hext => by
    simp only [WfS] at hwf; simp only [emitS] at hext
    have hk' := hk.resolve_left (by simp [stk, RBlock.tailKind])
    cases v with
    | true =>
      simp only [annS, popIf, ↓reduceIte, List.append_nil, asizeE] at hseg hk' ⊢
      exact ckE c F hF e pos lp cs o h fn nl lb hseg (succOK_cast hk' rfl (by simp [hOut, stk, RBlock.tailKind])) hlp hwf hown hext
    | false =>
      simp only [annS, popIf, Bool.false_eq_true, ↓reduceIte, Seg_append, asize_append, asizeE, Seg, and_true,
        asize_cons, asize_nil, Instr.size] at hseg hk' ⊢
      simp only [Chk_append, asizeE, Chk, and_true]
      refine ⟨ckE c F hF e pos lp cs o h fn nl lb hseg.1 (succOK_of_get hseg.2 (Nat.le_refl _)) hlp hwf hown hext, ?_⟩
      simp only [checkInstr, Instr.size, Bool.and_eq_true, decide_eq_true_eq]
      exact ⟨by omega, succOK_cast hk' (by omega) (by simp [hOut])⟩
  | .letS r e, v, pos, lp, cs, o, h, fn, nl, lb, hseg, hk, hlp, hwf, hown, hext => by
    simp only [WfS] at hwf; simp only [emitS] at hext
    have hk' := hk.resolve_left (by simp [stk, RBlock.tailKind])
    simp only [annS, Seg_append, asize_append, asizeE, Seg, and_true, asize_cons, asize_nil, setVar_size] at hseg hk' ⊢
    simp only [Chk_append, asizeE, Chk, and_true, setVar_size]
    refine ⟨ckE c F hF e pos lp cs o h fn nl lb hseg.1 (succOK_of_get hseg.2 (Nat.le_refl _)) hlp hwf.2 hown hext, ?_⟩
    exact setVar_chk c F fn nl o h _ r.slot hwf.1 hown (succOK_cast hk' (by omega) (by simp [hOut, stk, RBlock.tailKind]))
  | .ret e, v, pos, lp, cs, o, h, fn, nl, lb, hseg, hk, hlp, hwf, hown, hext => by
    simp only [WfS] at hwf; simp only [emitS] at hext
    simp only [annS, Seg_append, asizeE, Seg, and_true] at hseg ⊢
    simp only [Chk_append, asizeE, Chk, and_true]
    refine ⟨ckE c F hF e pos lp cs o h fn nl lb hseg.1 (succOK_of_get hseg.2 (Nat.le_refl _)) hlp hwf.2 hown hext, ?_⟩
    simp only [checkInstr, Bool.and_eq_true, decide_eq_true_eq]
    exact ⟨by omega, hown.nz hwf.1⟩
  | .block b, v, pos, lp, cs, o, h, fn, nl, lb, hseg, hk, hlp, hwf, hown, hext => by
    simp only [WfS] at hwf; simp only [emitS] at hext
    simp only [annS, stk, RBlock.tailKind] at hseg hk ⊢
    exact ckB c F hF b v pos lp cs o h fn nl lb hseg hk hlp hwf hown hext
  | .brk, v, pos, lp, cs, o, h, fn, nl, lb, hseg, hk, hlp, hwf, hown, hext => by
    simp only [WfS] at hwf
    obtain ⟨l0, pend, rfl, hs1, hs2⟩ := hlp hwf
    simp only [annS, Seg, and_true, Instr.size] at hseg ⊢
    simp only [Chk, and_true, checkInstr, Instr.size]
    exact ⟨succOK_of_get hseg.2 (Nat.le_refl _), hs2⟩
  | .cont, v, pos, lp, cs, o, h, fn, nl, lb, hseg, hk, hlp, hwf, hown, hext => by
    simp only [WfS] at hwf
    obtain ⟨l0, pend, rfl, hs1, hs2⟩ := hlp hwf
    simp only [annS, Seg, and_true, Instr.size] at hseg ⊢
    simp only [Chk, and_true, checkInstr, Instr.size]
    exact ⟨succOK_of_get hseg.2 (Nat.le_refl _), hs1⟩

theorem ckB (c : Cert) (F : List Const) (hF : FnTab F) : (b : RBlock) →
    ∀ (v : Bool) (pos : Nat) (lp : LoopCtx) (cs : List Const) (o h : Nat) (fn : Bool) (nl : Nat) (lb : Bool),
    Seg c pos (annB v b pos lp cs o h) →
    (b.tailKind = .returns ∨ succOK c (pos + asize (annB v b pos lp cs o h)) o (hOut v b.tailKind h) = true) →
    LoopOK c lp lb o h → WfB fn nl lb b → Own F fn nl o → Ext (emitB b pos lp cs).2 F →
    Chk c (fnTable F) F.length pos (annB v b pos lp cs o h)
  | .nil, v, pos, lp, cs, o, h, fn, nl, lb, hseg, hk, hlp, hwf, hown, hext => by simp [annB, Chk]
  | .cons s .nil, v, pos, lp, cs, o, h, fn, nl, lb, hseg, hk, hlp, hwf, hown, hext => by
    simp only [WfB] at hwf; simp only [emitB] at hext
    simp only [annB, RBlock.isEmpty, Bool.and_true, List.append_nil] at hseg hk ⊢
    exact ckS c F hF s v pos lp cs o h fn nl lb hseg hk hlp hwf.1 hown hext
  | .cons s (.cons s2 b2), v, pos, lp, cs, o, h, fn, nl, lb, hseg, hk, hlp, hwf, hown, hext => by
    rw [WfB] at hwf; rw [emitB] at hext
    rw [annB] at hseg hk ⊢
    rw [tailKind_cons_cons] at hk
    simp only [RBlock.isEmpty, Bool.and_false, Seg_append, asize_append, asizeS, ← Nat.add_assoc] at hseg hk
    simp only [RBlock.isEmpty, Bool.and_false, Chk_append, asizeS]
    obtain ⟨h1, h2⟩ := hseg
    refine ⟨ckS c F hF s false pos lp cs o h fn nl lb h1 (.inr ?_) hlp hwf.1 hown ((emitB_ext _ _ _ _).trans hext),
      ckB c F hF (.cons s2 b2) v _ lp _ o h fn nl lb h2 hk hlp hwf.2 hown hext⟩
    rw [hOut_false, asizeS]
    rcases headB (.cons s2 b2) v (pos + sizeS s) lp (emitS s pos lp cs).2 o h with ⟨he, hkind⟩ | hs
    · rw [he, hkind, hOut_other] at hk
      exact succOK_cast (hk.resolve_left (by simp)) (by simp) rfl
    · exact Seg_succ h2 hs (Nat.le_refl _)

theorem ckO (c : Cert) (F : List Const) (hF : FnTab F) : (x : ROptBlock) →
    ∀ (pos : Nat) (lp : LoopCtx) (cs : List Const) (o h : Nat) (fn : Bool) (nl : Nat) (lb : Bool),
    Seg c pos (annO x pos lp cs o h) → succOK c (pos + sizeO x) o (h + 1) = true →
    LoopOK c lp lb o h → WfO fn nl lb x → Own F fn nl o → Ext (emitO x pos lp cs).2 F →
    Chk c (fnTable F) F.length pos (annO x pos lp cs o h)
  | .none, pos, lp, cs, o, h, fn, nl, lb, hseg, hk, hlp, hwf, hown, hext => by
    simp only [sizeO] at hk
    simp [annO, Chk, checkInstr, Instr.size, hk]
  | .some b, pos, lp, cs, o, h, fn, nl, lb, hseg, hk, hlp, hwf, hown, hext => by
    simp only [sizeO] at hk; simp only [WfO] at hwf; simp only [emitO] at hext
    simp only [annO] at hseg ⊢
    refine valWrap_chk c F b pos lp cs o h ?_ hseg hk
    intro hs hk'
    exact ckB c F hF b true pos lp cs o h fn nl lb hs hk' hlp hwf hown hext
end

end CV
end Nl
