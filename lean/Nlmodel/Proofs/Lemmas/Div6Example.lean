/- Stage 6, divergence preservation: non-vacuity.  Two concrete programs of the fragment whose definitional evaluation is
   PROVED to run out of every fuel — a loop that never stops and a function that calls itself forever — and to which the
   end-to-end theorem `program_div6` therefore applies (all its hypotheses are discharged). -/
import Nlmodel.Proofs.Lemmas.Div6Text
namespace Nl
namespace Sim6
open Spec Sim

/-! ## `zolang ja { }` -/

def exLoopAst : Block := .cons (.expr (.whileE (.bool true) .nil)) .nil
def exLoopR : RBlock := .cons (.expr (.whileE (.bool true) .nil)) .nil

theorem exLoop_loop : ∀ (F : Nat) (acc : SVal) (st : SState), evalLoop F (.bool true) .nil acc st = .fuel := by
  intro F
  induction F with
  | zero => intro acc st; rfl
  | succ F ih =>
    intro acc st
    cases F with
    | zero => rfl
    | succ F =>
      simp only [evalLoop, evalE, evalBV]
      exact ih _ _

theorem exLoop_diverges : ∀ F, evalB F exLoopR {} = .fuel := by
  intro F
  cases F with
  | zero => rfl
  | succ F =>
    rw [exLoopR, evalB_cons]
    cases F with
    | zero => rfl
    | succ F =>
      rw [evalS_expr]
      cases F with
      | zero => rfl
      | succ F =>
        simp only [evalE]
        rw [exLoop_loop]; rfl

/-- non-vacuity (a loop that never ends): the program compiles to the resolved tree `exLoopR`, which passes the stage-6
    validation and whose definitional evaluation runs out of every fuel; hence the compiled program does not end -/
example : ∃ bc, compileProgram exLoopAst = .ok (exLoopR, bc) ∧ inFragment6 exLoopR = true ∧ (∀ F, Spec.evalB F exLoopR {} = .fuel) ∧
    ∀ n, (∃ s', runSteps bc.code n (VM.start {} bc) = .budget s') ∨
         HitsLimit bc := by
  have hin : inFragment6 exLoopR = true := by decide
  cases hc : compileProgram exLoopAst with
  | error e =>
    have h0 : (match compileProgram exLoopAst with | .ok _ => true | .error _ => false) = true := by decide
    rw [hc] at h0; cases h0
  | ok q =>
    obtain ⟨r, bc⟩ := q
    have hr : r = exLoopR := by
      have := resolve_of_compile hc
      have h2 : resolveProgram exLoopAst = .ok exLoopR := by rfl
      rw [h2] at this; injection this with this; exact this.symm
    subst hr
    exact ⟨bc, rfl, hin, exLoop_diverges, program_div6 exLoopAst exLoopR bc hc hin exLoop_diverges⟩

/-! ## `functie f() { f() }; f()` -/

def exRecAst : Block :=
  .cons (.expr (.func "f".toList [] (.cons (.expr (.call (.ident "f".toList) .nil)) .nil)))
  (.cons (.expr (.call (.ident "f".toList) .nil)) .nil)

/-- the call `f()` as a statement: the body of `f` and the rest of the program -/
def exRecBody : RBlock := .cons (.expr (.call (.var ⟨0, .global 0⟩) .nil)) .nil
def exRecFn : SVal := .fn 0 [] 0 exRecBody
def exRecR : RBlock := .cons (.expr (.func 0 (some ⟨0, .global 0⟩) [] 0 exRecBody)) exRecBody

/-- wherever the global `f` holds the function, the call `f()` runs out of every fuel -/
theorem exRec_call (F : Nat) : ∀ (st : SState), envGet st.genv 0 = some exRecFn → evalE F (.call (.var ⟨0, .global 0⟩) .nil) st = .fuel := by
  induction F using Nat.strongRecOn with
  | ind F ih =>
    intro st hg
    cases F with
    | zero => rfl
    | succ F =>
      rw [evalE_call]
      cases F with
      | zero => rfl
      | succ F =>
        have h1 : evalEs (F + 1) .nil st = .val [] st := by simp only [evalEs]
        have h2 : evalE (F + 1) (.var ⟨0, .global 0⟩) st = .val exRecFn st := by
          simp only [evalE, SState.lookup, isGlobalSlot, ↓reduceIte, hg]
        have h3 : evalBV (F + 1) exRecBody { st with lenv := bindParams [] [] } = .fuel := by
          simp only [exRecBody, evalBV]
          exact ih F (by omega) _ hg
        rw [h1]; simp only [bindR]
        rw [h2]; simp only [specCall, exRecFn, List.length_nil, Nat.lt_irrefl, gt_iff_lt, ↓reduceIte]
        rw [h3]

theorem exRec_diverges : ∀ F, evalB F exRecR {} = .fuel := by
  intro F
  cases F with
  | zero => rfl
  | succ F =>
    rw [exRecR, evalB_cons]
    cases F with
    | zero => rfl
    | succ F =>
      cases F with
      | zero => rfl
      | succ F =>
        simp only [evalS, evalE, bindR]
        rw [exRecBody, evalB_cons, evalS_expr, exRec_call F _ (by rfl)]
        rfl

/-- non-vacuity (a recursion that never returns) -/
example : ∃ bc, compileProgram exRecAst = .ok (exRecR, bc) ∧ inFragment6 exRecR = true ∧ (∀ F, Spec.evalB F exRecR {} = .fuel) ∧
    ∀ n, (∃ s', runSteps bc.code n (VM.start {} bc) = .budget s') ∨
         HitsLimit bc := by
  have hin : inFragment6 exRecR = true := by decide
  cases hc : compileProgram exRecAst with
  | error e =>
    have h0 : (match compileProgram exRecAst with | .ok _ => true | .error _ => false) = true := by decide
    rw [hc] at h0; cases h0
  | ok q =>
    obtain ⟨r, bc⟩ := q
    have hr : r = exRecR := by
      have := resolve_of_compile hc
      have h2 : resolveProgram exRecAst = .ok exRecR := by rfl
      rw [h2] at this; injection this with this; exact this.symm
    subst hr
    exact ⟨bc, rfl, hin, exRec_diverges, program_div6 exRecAst exRecR bc hc hin exRec_diverges⟩

end Sim6
end Nl
