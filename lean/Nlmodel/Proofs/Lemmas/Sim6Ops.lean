/- Stage 6: allocation, mutation, boxing, operators, indexing, index assignment and the builtins on related
   values, at the level of the heap invariant `HInv` (independent of frames). Port of stage 5 to `VR6`. -/
import Nlmodel.Proofs.Lemmas.Sim6GC
namespace Nl
namespace Sim6
open Spec Sim
open SimH (AMap isStrCell isArrCell Grow PoolH MemOK sameKind)
open SimF (FT FnInfo FTInj)

/-- the part of the semantics' state that the heap operations leave alone -/
structure SameEnv (st st' : SState) : Prop where
  genv : st'.genv = st.genv
  lenv : st'.lenv = st.lenv
  last : st'.last = st.last

theorem SameEnv.refl (st : SState) : SameEnv st st := ⟨rfl, rfl, rfl⟩
theorem SameEnv.trans {a b c : SState} (h1 : SameEnv a b) (h2 : SameEnv b c) : SameEnv a c :=
  ⟨by rw [h2.genv, h1.genv], by rw [h2.lenv, h1.lenv], by rw [h2.last, h1.last]⟩

theorem sameEnv_alloc (st : SState) (c : SCell) : SameEnv st (st.alloc c).1 ∧ (st.alloc c).1.out = st.out := ⟨⟨rfl, rfl, rfl⟩, rfl⟩

theorem sameEnv_box (st : SState) (a : SVal) (p : PRes) : SameEnv st (st.box a p).2 ∧ (st.box a p).2.out = st.out := by
  cases p <;> exact ⟨⟨rfl, rfl, rfl⟩, rfl⟩

section inv
variable {W : World} {μ : AMap} {st : SState} {m : Mem}

theorem HInv.store_eq {st' : SState} (hi : HInv W μ st m) (he : st'.store = st.store) : HInv W μ st' m :=
  ⟨hi.hr.store_eq he, hi.pool, hi.mok⟩

/-- a float result is boxed on the machine only -/
theorem hinv_alloc_float (hi : HInv W μ st m) (x : UInt64) :
    HInv W μ st (m.allocFloat x).1 ∧ Grow μ st m.heap μ st (m.allocFloat x).1.heap ∧
    VR6 W μ st (m.allocFloat x).1.heap (.float x) (m.allocFloat x).2 := by
  have hg := SimH.grow_machine_alloc μ st m.heap (.float x)
  refine ⟨⟨hr_machine_alloc6 hi.hr _, SimH.pool_machine_alloc hi.pool _,
    SimH.mok_alloc hi.mok (.float x) (fun _ _ h => h) (fun mvs e => by cases e)⟩, hg, ?_⟩
  simp only [Mem.allocFloat, VR6]
  exact SimH.heap_push_get_new m.heap (.float x)

/-- a new string on both sides -/
theorem hinv_alloc_str (hi : HInv W μ st m) (s : Text) :
    HInv W (μ.ext st.store.size m.heap.cells.size) (st.alloc (.str s)).1 (m.allocStr s).1 ∧
    Grow μ st m.heap (μ.ext st.store.size m.heap.cells.size) (st.alloc (.str s)).1 (m.allocStr s).1.heap ∧
    VR6 W (μ.ext st.store.size m.heap.cells.size) (st.alloc (.str s)).1 (m.allocStr s).1.heap (.str (st.alloc (.str s)).2) (m.allocStr s).2 := by
  have hg := grow_both_alloc6 hi.hr (.str s) (.str s)
  have hr' := hr_both_alloc6 hi.hr (.str s) (.str s) ⟨fun s' e => (by injection e with e; rw [e]), fun vs e => (by cases e)⟩
  refine ⟨⟨hr', SimH.pool_both_alloc hi.pool _ _, SimH.mok_alloc hi.mok (.str s) hg.map (fun mvs e => by cases e)⟩, hg, ?_⟩
  simp [Mem.allocStr, SState.alloc, Heap.alloc, VR6, AMap.ext, isStrCell]

/-- a new array on both sides -/
theorem hinv_alloc_arr (hi : HInv W μ st m) (vs : List SVal) (ms : List Value) (hl : VRL6 W μ st m.heap vs ms) :
    HInv W (μ.ext st.store.size m.heap.cells.size) (st.alloc (.arr vs)).1 (m.allocArr ms).1 ∧
    Grow μ st m.heap (μ.ext st.store.size m.heap.cells.size) (st.alloc (.arr vs)).1 (m.allocArr ms).1.heap ∧
    VR6 W (μ.ext st.store.size m.heap.cells.size) (st.alloc (.arr vs)).1 (m.allocArr ms).1.heap (.arr (st.alloc (.arr vs)).2) (m.allocArr ms).2 := by
  have hg := grow_both_alloc6 hi.hr (.arr vs) (.arr ms)
  have hr' := hr_both_alloc6 hi.hr (.arr vs) (.arr ms) ⟨fun s' e => (by cases e), fun vs' e => (by injection e with e; subst e; exact ⟨ms, rfl, hl⟩)⟩
  refine ⟨⟨hr', SimH.pool_both_alloc hi.pool _ _,
    SimH.mok_alloc hi.mok (.arr ms) hg.map (fun mvs e => ⟨st.store.size, by simp [AMap.ext]⟩)⟩, hg, ?_⟩
  simp [Mem.allocArr, SState.alloc, Heap.alloc, VR6, AMap.ext, isArrCell]

/-- a cell replaced on both sides (index assignment) -/
theorem hinv_set (hi : HInv W μ st m) (a a' : Nat) (hm : μ a = some a') (sc0 sc : SCell) (c : Cell)
    (h0 : st.store[a]? = some sc0) (hk : sameKind sc0 sc) (hnf : ∀ x, m.heap.get a' ≠ .float x)
    (hnew : (∀ s, sc = .str s → c = .str s) ∧ (∀ vs, sc = .arr vs → ∃ mvs, c = .arr mvs ∧ VRL6 W μ st m.heap vs mvs)) :
    HInv W μ { st with store := st.store.setIfInBounds a sc } { m with heap := m.heap.set a' c } ∧
    Grow μ st m.heap μ { st with store := st.store.setIfInBounds a sc } (m.heap.set a' c) := by
  have hg := grow_set6 (μ := μ) a a' sc0 sc c h0 hk hnf
  refine ⟨⟨hr_set6 hi.hr a a' hm sc0 sc c h0 hk hnf hnew, SimH.pool_set hi.pool a a' hm c hnf,
    SimH.mok_set hi.mok a a' hm c (fun mvs e => ?_)⟩, hg⟩
  subst e
  cases sc with
  | str s => have := hnew.1 s rfl; cases this
  | arr vs =>
    cases sc0 with
    | str s0 => simp [sameKind] at hk
    | arr vs0 =>
      obtain ⟨mvs0, h1, _⟩ := hi.hr.arr a a' vs0 hm h0
      exact (hi.mok.arrs a' mvs0 h1).1

/-- boxing a primitive result: the same thing happens on both sides (floats are boxed on the machine only) -/
theorem box_rel6 (hi : HInv W μ st m) (a : SVal) (ma : Value) (hv : VR6 W μ st m.heap a ma) (p : PRes) :
    ∃ μ', HInv W μ' (st.box a p).2 (m.box ma p).2 ∧ Grow μ st m.heap μ' (st.box a p).2 (m.box ma p).2.heap ∧
      VR6 W μ' (st.box a p).2 (m.box ma p).2.heap (st.box a p).1 (m.box ma p).1 := by
  cases p with
  | null => exact ⟨μ, hi, Grow.refl _ _ _, trivial⟩
  | bool b => exact ⟨μ, hi, Grow.refl _ _ _, rfl⟩
  | int i => exact ⟨μ, hi, Grow.refl _ _ _, rfl⟩
  | float x =>
    obtain ⟨h1, h2, h3⟩ := hinv_alloc_float hi x
    exact ⟨μ, h1, h2, h3⟩
  | str s =>
    obtain ⟨h1, h2, h3⟩ := hinv_alloc_str hi s
    exact ⟨_, h1, h2, h3⟩
  | same => exact ⟨μ, hi, Grow.refl _ _ _, hv⟩

/-- a binary operator: the same outcome on both sides -/
theorem binop_rel6 (hinj : FTInj W.ft) (hi : HInv W μ st m) (op : BinOp) (a b : SVal) (ma mb : Value)
    (ha : VR6 W μ st m.heap a ma) (hb : VR6 W μ st m.heap b mb) :
    match binopCore op (st.view a) (st.view b) with
    | .ok p => ∃ μ' mr m', binop op ma mb m = .ok (mr, m') ∧ HInv W μ' (st.box a p).2 m' ∧ Grow μ st m.heap μ' (st.box a p).2 m'.heap ∧
        VR6 W μ' (st.box a p).2 m'.heap (st.box a p).1 mr
    | .error e => binop op ma mb m = .error e := by
  have hview := binopCore_rel6 hinj hi.hr op ha hb
  cases hcore : binopCore op (st.view a) (st.view b) with
  | error e => simp only [binop, hview, hcore]
  | ok p =>
    obtain ⟨μ', h1, h2, h3⟩ := box_rel6 hi a ma ha p
    exact ⟨μ', _, _, by simp only [binop, hview, hcore], h1, h2, h3⟩

/-- what a related array looks like on both sides -/
theorem arr_cells6 (hi : HInv W μ st m) {a a' : Nat} (hv : VR6 W μ st m.heap (.arr a) (.arr a')) :
    ∃ vs mvs, st.store[a]? = some (.arr vs) ∧ m.heap.get a' = .arr mvs ∧ VRL6 W μ st m.heap vs mvs ∧ st.arrAt a = vs ∧ m.heap.arrAt a' = mvs := by
  obtain ⟨hm, hk⟩ := hv
  cases hc : st.store[a]? with
  | none => rw [hc] at hk; cases hk
  | some c =>
    cases c with
    | str s => rw [hc] at hk; cases hk
    | arr vs =>
      obtain ⟨mvs, hg, hl⟩ := hi.hr.arr a a' vs hm hc
      exact ⟨vs, mvs, rfl, hg, hl, by simp [SState.arrAt, hc], by simp [Heap.arrAt, hg]⟩

theorem str_cells6 (hi : HInv W μ st m) {a a' : Nat} (hv : VR6 W μ st m.heap (.str a) (.str a')) :
    ∃ s, st.store[a]? = some (.str s) ∧ m.heap.get a' = .str s ∧ st.strAt a = s ∧ m.heap.strAt a' = s := by
  obtain ⟨hm, hk⟩ := hv
  cases hc : st.store[a]? with
  | none => rw [hc] at hk; cases hk
  | some c =>
    cases c with
    | arr vs => rw [hc] at hk; cases hk
    | str s =>
      have hg := hi.hr.str a a' s hm hc
      exact ⟨s, rfl, hg, by simp [SState.strAt, hc], by simp [Heap.strAt, hg]⟩

theorem float_cell_ne6 (hi : HInv W μ st m) {a a' : Nat} (hm : μ a = some a') (hk : isStrCell st.store[a]? = true ∨ isArrCell st.store[a]? = true) :
    ∀ x, m.heap.get a' ≠ .float x := by
  intro x hx
  cases hc : st.store[a]? with
  | none => rw [hc] at hk; rcases hk with h | h <;> cases h
  | some c =>
    cases c with
    | str s => have := hi.hr.str a a' s hm hc; rw [this] at hx; cases hx
    | arr vs => obtain ⟨mvs, h1, _⟩ := hi.hr.arr a a' vs hm hc; rw [h1] at hx; cases hx

/-- reading an element: the same outcome on both sides -/
theorem indexGet_rel6 (hi : HInv W μ st m) (a b : SVal) (ma mb : Value)
    (ha : VR6 W μ st m.heap a ma) (hb : VR6 W μ st m.heap b mb) :
    match sIndexGet a b st with
    | .ok (r, st') => ∃ μ' mr m', indexGet ma mb m = .ok (mr, m') ∧ HInv W μ' st' m' ∧ Grow μ st m.heap μ' st' m'.heap ∧ VR6 W μ' st' m'.heap r mr ∧
        SameEnv st st' ∧ st'.out = st.out
    | .error e => indexGet ma mb m = .error e := by
  have hnonint : (∀ i, b ≠ .int i) → (∀ i, mb ≠ .int i) → sIndexGet a b st = .error .type ∧ indexGet ma mb m = .error .type := by
    intro h1 h2
    constructor
    · cases b <;> first | rfl | exact absurd rfl (h1 _)
    · cases mb <;> first | rfl | exact absurd rfl (h2 _)
  cases b <;> cases mb <;> simp only [VR6] at hb <;> (try exact absurd hb id)
  case null.null => obtain ⟨e1, e2⟩ := hnonint (by simp) (by simp); rw [e1]; exact e2
  case bool.bool => obtain ⟨e1, e2⟩ := hnonint (by simp) (by simp); rw [e1]; exact e2
  case float.float => obtain ⟨e1, e2⟩ := hnonint (by simp) (by simp); rw [e1]; exact e2
  case str.str => obtain ⟨e1, e2⟩ := hnonint (by simp) (by simp); rw [e1]; exact e2
  case arr.arr => obtain ⟨e1, e2⟩ := hnonint (by simp) (by simp); rw [e1]; exact e2
  case fn.fn => obtain ⟨e1, e2⟩ := hnonint (by simp) (by simp); rw [e1]; exact e2
  -- integer index
  subst hb
  rename_i i
  cases a <;> cases ma <;> simp only [VR6] at ha <;> (try exact absurd ha id)
  case null.null => simp [sIndexGet, indexGet]
  case bool.bool => simp [sIndexGet, indexGet]
  case int.int => simp [sIndexGet, indexGet]
  case float.float => simp [sIndexGet, indexGet]
  case fn.fn => simp [sIndexGet, indexGet]
  · -- string
    rename_i a0 a0'
    obtain ⟨s, _, _, e1, e2⟩ := str_cells6 hi ha
    simp only [sIndexGet, indexGet, e1, e2]
    cases hn : normIndex s.length i with
    | none => simp
    | some j =>
      obtain ⟨hi', hg, hv⟩ := hinv_alloc_str hi [s.getD j ' ']
      simp only
      exact ⟨_, _, _, rfl, hi', hg, hv, ⟨rfl, rfl, rfl⟩, rfl⟩
  · -- array
    rename_i a0 a0'
    obtain ⟨vs, mvs, _, _, hl, e1, e2⟩ := arr_cells6 hi ha
    simp only [sIndexGet, indexGet, e1, e2, hl.length]
    cases hn : normIndex mvs.length i with
    | none => simp
    | some j =>
      simp only
      exact ⟨μ, _, _, rfl, hi, Grow.refl _ _ _, hl.getD j, SameEnv.refl _, trivial⟩

/-- writing an element: the same outcome on both sides; the write goes to the ONE cell both names denote -/
theorem indexSet_rel6 (hi : HInv W μ st m) (a b c : SVal) (ma mb mc : Value)
    (ha : VR6 W μ st m.heap a ma) (hb : VR6 W μ st m.heap b mb) (hc : VR6 W μ st m.heap c mc) :
    match sIndexSet a b c st with
    | .ok (r, st') => ∃ mr m', indexSet ma mb mc m = .ok (mr, m') ∧ HInv W μ st' m' ∧ Grow μ st m.heap μ st' m'.heap ∧ VR6 W μ st' m'.heap r mr ∧
        SameEnv st st' ∧ st'.out = st.out
    | .error e => indexSet ma mb mc m = .error e := by
  have hnonint : (∀ i, b ≠ .int i) → (∀ i, mb ≠ .int i) → sIndexSet a b c st = .error .type ∧ indexSet ma mb mc m = .error .type := by
    intro h1 h2
    constructor
    · cases b <;> first | rfl | exact absurd rfl (h1 _)
    · cases mb <;> first | rfl | exact absurd rfl (h2 _)
  cases b <;> cases mb <;> simp only [VR6] at hb <;> (try exact absurd hb id)
  case null.null => obtain ⟨e1, e2⟩ := hnonint (by simp) (by simp); rw [e1]; exact e2
  case bool.bool => obtain ⟨e1, e2⟩ := hnonint (by simp) (by simp); rw [e1]; exact e2
  case float.float => obtain ⟨e1, e2⟩ := hnonint (by simp) (by simp); rw [e1]; exact e2
  case str.str => obtain ⟨e1, e2⟩ := hnonint (by simp) (by simp); rw [e1]; exact e2
  case arr.arr => obtain ⟨e1, e2⟩ := hnonint (by simp) (by simp); rw [e1]; exact e2
  case fn.fn => obtain ⟨e1, e2⟩ := hnonint (by simp) (by simp); rw [e1]; exact e2
  subst hb
  rename_i i
  cases a <;> cases ma <;> simp only [VR6] at ha <;> (try exact absurd ha id)
  case null.null => simp [sIndexSet, indexSet]
  case bool.bool => simp [sIndexSet, indexSet]
  case int.int => simp [sIndexSet, indexSet]
  case float.float => simp [sIndexSet, indexSet]
  case fn.fn => simp [sIndexSet, indexSet]
  · -- string: the replacement must be a string
    rename_i a0 a0'
    obtain ⟨s, hs0, _, e1, e2⟩ := str_cells6 hi ha
    simp only [sIndexSet, indexSet, e1, e2]
    cases hn : normIndex s.length i with
    | none => simp
    | some j =>
      simp only
      cases c <;> cases mc <;> simp only [VR6] at hc <;> (try exact absurd hc id)
      case null.null => simp
      case bool.bool => simp
      case int.int => simp
      case float.float => simp
      case arr.arr => simp
      case fn.fn => simp
      rename_i b0 b0'
      obtain ⟨r, _, _, f1, f2⟩ := str_cells6 hi hc
      simp only [f1, f2]
      obtain ⟨hi', hg⟩ := hinv_set hi a0 a0' ha.1 (.str s) (.str (s.take j ++ r ++ s.drop (j + 1))) (.str (s.take j ++ r ++ s.drop (j + 1)))
        hs0 trivial (float_cell_ne6 hi ha.1 (.inl ha.2)) ⟨fun s' e => (by injection e with e; rw [e]), fun vs e => (by cases e)⟩
      exact ⟨_, _, rfl, hi', hg, VR6.grow hg hc, ⟨rfl, rfl, rfl⟩, trivial⟩
  · -- array
    rename_i a0 a0'
    obtain ⟨vs, mvs, hs0, _, hl, e1, e2⟩ := arr_cells6 hi ha
    simp only [sIndexSet, indexSet, e1, e2, hl.length]
    cases hn : normIndex mvs.length i with
    | none => simp
    | some j =>
      simp only
      obtain ⟨hi', hg⟩ := hinv_set hi a0 a0' ha.1 (.arr vs) (.arr (vs.set j c)) (.arr (mvs.set j mc))
        hs0 trivial (float_cell_ne6 hi ha.1 (.inr ha.2)) ⟨fun s' e => (by cases e), fun vs' e => (by injection e with e; subst e; exact ⟨_, rfl, hl.set j c mc hc⟩)⟩
      exact ⟨_, _, rfl, hi', hg, VR6.grow hg hc, ⟨rfl, rfl, rfl⟩, trivial⟩

/-- the builtins: the same outcome on both sides, `print` appends the same line -/
theorem builtin_rel6 (hi : HInv W μ st m) (b : Builtin) (xs : List SVal) (ms : List Value) (hl : VRL6 W μ st m.heap xs ms) (out : List Text)
    (ho : st.out = out) :
    match SimH.specBuiltin b xs st with
    | .val r st' => ∃ μ' mr m' out', callBuiltin b ms m out = .ok (mr, m', out') ∧ HInv W μ' st' m' ∧
        Grow μ st m.heap μ' st' m'.heap ∧ VR6 W μ' st' m'.heap r mr ∧ SameEnv st st' ∧ st'.out = out'
    | .err e _ => callBuiltin b ms m out = .error e
    | _ => True := by
  by_cases hb : b = .print
  · subst hb
    simp only [SimH.specBuiltin, callBuiltin]
    have ht := trees_rel6 hi.hr treeDepth xs ms hl
    have hst : ({ st with out := st.out ++ [printLine (xs.map (st.tree treeDepth []))] } : SState).store = st.store := rfl
    exact ⟨μ, .null, m, _, rfl, hi.store_eq hst, SimH.grow_store_eq hst, trivial, ⟨rfl, rfl, rfl⟩, by show st.out ++ _ = _; rw [ho, ht]⟩
  · have e1 : SimH.specBuiltin b xs st = SimH.specUnary b xs st := by
      cases b <;> first | exact absurd rfl hb | rfl
    have e2 : callBuiltin b ms m out = SimH.machUnary b ms m out := by
      cases b <;> first | exact absurd rfl hb | rfl
    rw [e1, e2]
    unfold SimH.specUnary SimH.machUnary
    cases xs with
    | nil => cases ms with
      | nil => simp
      | cons _ _ => exact hl.elim
    | cons x xs' =>
      cases ms with
      | nil => exact hl.elim
      | cons mx ms' =>
        cases xs' with
        | cons _ _ =>
          cases ms' with
          | nil => exact hl.2.elim
          | cons _ _ => simp
        | nil =>
          cases ms' with
          | cons _ _ => exact hl.2.elim
          | nil =>
            have hv := builtinCore_rel6 hi.hr b hl.1
            simp only [hv]
            cases hcore : builtinCore b (st.view x) with
            | error e => simp
            | ok p =>
              obtain ⟨μ', hi', hg, hvr⟩ := box_rel6 hi x mx hl.1 p
              obtain ⟨hse, hso⟩ := sameEnv_box st x p
              simp only
              exact ⟨μ', _, _, _, rfl, hi', hg, hvr, hse, by rw [hso, ho]⟩

end inv
end Sim6
end Nl
