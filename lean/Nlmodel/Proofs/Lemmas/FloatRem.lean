/-
  Exact float model, part 4 (C06): `%` on floats (`F64.rem`, IEEE-754 `fmod`) is EXACT — no rounding ever happens.

  `FloatRound.rem_finite` says `rem x y = ofRat (isNeg x) (mag x % mag y) (2^1074)`: the exact remainder of the
  magnitudes (in units of 2^-1074), then `roundMag`.  Here: the exact remainder is always a representable value, so
  `roundMag` returns it unchanged.

  * every magnitude value `V a` is `sig a · 2^(ex a)` with `sig a < 2^53`;
  * every `q · 2^k` with `q < 2^53`, `k ≤ 2045` is the value of some finite magnitude (`repr_of_grid`);
  * with `k = min (ex |x|) (ex |y|)`: `2^k` divides both magnitudes, hence their remainder, and the remainder is below
    `2^53 · 2^k` (it is `< mag y` and `≤ mag x`);
  * hence `rem_exact`.
-/
import Nlmodel.Proofs.Lemmas.FloatRound

namespace Nl
namespace F64R
open Nl.F64

set_option exponentiation.threshold 4096

/-! ## the set of representable values -/

theorem V_dvd (a : Nat) : 2 ^ ex a ∣ V a := ⟨sig a, by unfold V; exact Nat.mul_comm _ _⟩

theorem V_lt_binade (a : Nat) : V a < 2 ^ 53 * 2 ^ ex a := by
  unfold V; exact Nat.mul_lt_mul_of_pos_right (sig_lt a) (two_pow_pos' _)

theorem ex_le_of_finite {a : Nat} (h : a < infBits) : ex a ≤ 2045 := by
  unfold ex; unfold infBits at h; omega

/-- every `q · 2^k` with a 53-bit `q` and `k ≤ 2045` is the value of a finite magnitude -/
theorem repr_of_sig : ∀ (k q : Nat), q < 2 ^ 53 → k ≤ 2045 → ∃ a, a < infBits ∧ V a = q * 2 ^ k
  | 0, q, hq, _ => by
    refine ⟨0 * 2 ^ 52 + q, ?_, V_bits (Nat.le_of_lt hq) (Or.inl rfl)⟩
    unfold infBits; omega
  | k + 1, q, hq, hk => by
    by_cases h52 : 2 ^ 52 ≤ q
    · refine ⟨(k + 1) * 2 ^ 52 + q, ?_, V_bits (Nat.le_of_lt hq) (Or.inr h52)⟩
      unfold infBits; omega
    · obtain ⟨a, ha, hv⟩ := repr_of_sig k (2 * q) (by omega) (by omega)
      refine ⟨a, ha, ?_⟩
      rw [hv, Nat.pow_succ, Nat.mul_comm 2 q, Nat.mul_assoc, Nat.mul_comm 2 (2 ^ k)]

/-- **the representable values**: a multiple of `2^k` below `2^53 · 2^k`, `k ≤ 2045`, is the value of a finite
    magnitude -/
theorem repr_of_grid {m k : Nat} (hk : k ≤ 2045) (hd : 2 ^ k ∣ m) (hlt : m < 2 ^ 53 * 2 ^ k) :
    ∃ a, a < infBits ∧ V a = m := by
  obtain ⟨q, rfl⟩ := hd
  have hq : q < 2 ^ 53 := by
    rw [Nat.mul_comm (2 ^ k) q] at hlt
    exact Nat.lt_of_mul_lt_mul_right hlt
  obtain ⟨a, ha, hv⟩ := repr_of_sig k q hq hk
  exact ⟨a, ha, by rw [hv, Nat.mul_comm]⟩

/-- and conversely every finite magnitude value has that form (so the characterisation is exact) -/
theorem grid_of_repr {a : Nat} (ha : a < infBits) :
    ∃ k, k ≤ 2045 ∧ 2 ^ k ∣ V a ∧ V a < 2 ^ 53 * 2 ^ k :=
  ⟨ex a, ex_le_of_finite ha, V_dvd a, V_lt_binade a⟩

/-- the set of finite magnitude values, exactly -/
theorem repr_iff (m : Nat) :
    (∃ a, a < infBits ∧ V a = m) ↔ ∃ k, k ≤ 2045 ∧ 2 ^ k ∣ m ∧ m < 2 ^ 53 * 2 ^ k := by
  constructor
  · rintro ⟨a, ha, rfl⟩; exact grid_of_repr ha
  · rintro ⟨k, hk, hd, hlt⟩; exact repr_of_grid hk hd hlt

/-! ## the remainder of two representable values is representable -/

/-- the remainder of two finite magnitude values, the divisor not zero, is a finite magnitude value -/
theorem V_mod_repr {a b : Nat} (ha : a < infBits) (hb : b < infBits) (hb0 : 0 < V b) :
    ∃ c, c < infBits ∧ V c = V a % V b := by
  have hmod_lt : V a % V b < V b := Nat.mod_lt _ hb0
  have hmod_le : V a % V b ≤ V a := Nat.mod_le _ _
  by_cases h : ex a ≤ ex b
  · -- the dividend has the finer grid
    refine repr_of_grid (ex_le_of_finite ha) ?_ ?_
    · have h1 : 2 ^ ex a ∣ V b :=
        Nat.dvd_trans (Nat.pow_dvd_pow 2 h) (V_dvd b)
      exact (Nat.dvd_mod_iff h1).2 (V_dvd a)
    · exact Nat.lt_of_le_of_lt hmod_le (V_lt_binade a)
  · -- the divisor has the finer grid
    refine repr_of_grid (ex_le_of_finite hb) ?_ ?_
    · have h1 : 2 ^ ex b ∣ V a :=
        Nat.dvd_trans (Nat.pow_dvd_pow 2 (by omega)) (V_dvd a)
      exact (Nat.dvd_mod_iff (V_dvd b)).2 h1
    · exact Nat.lt_trans hmod_lt (V_lt_binade b)

/-! ## `rem` is exact -/

/-- **`%` on floats is exact** (IEEE-754 `fmod`): for finite `x` and finite non-zero `y` the result has the sign of
    the dividend and its magnitude IS the remainder of the magnitudes — a representable value, no rounding -/
theorem rem_exact {x y : Bits} (hx : isFinite x = true) (hy : isFinite y = true) (hz : isZero y = false) :
    ∃ a, a < infBits ∧ V a = mag x % mag y ∧ rem x y = mk (isNeg x) a := by
  have hy0 : 0 < mag y := Nat.pos_of_ne_zero (fun hc => by rw [mag_eq_zero.1 hc] at hz; cases hz)
  obtain ⟨a, ha, hv⟩ := V_mod_repr (finite_iff.1 hx) (finite_iff.1 hy) hy0
  refine ⟨a, ha, hv, ?_⟩
  rw [rem_finite hx hy hz]
  unfold ofRat
  apply congrArg (mk _)
  apply roundMag_exact (two_pow_pos' _) ha
  unfold mag; rw [hv]

/-- the result of `%` on finite operands is finite, … -/
theorem rem_isFinite {x y : Bits} (hx : isFinite x = true) (hy : isFinite y = true) (hz : isZero y = false) :
    isFinite (rem x y) = true := by
  obtain ⟨a, ha, _, he⟩ := rem_exact hx hy hz
  have h63 : a < 2 ^ 63 := by unfold infBits at ha; omega
  rw [he, finite_iff, absBits_mk _ h63]; exact ha

/-- … has the sign of the dividend (also when it is zero: `-5.0 % 5.0 = -0.0`), … -/
theorem rem_isNeg {x y : Bits} (hx : isFinite x = true) (hy : isFinite y = true) (hz : isZero y = false) :
    isNeg (rem x y) = isNeg x := by
  obtain ⟨a, ha, _, he⟩ := rem_exact hx hy hz
  have h63 : a < 2 ^ 63 := by unfold infBits at ha; omega
  rw [he, isNeg_mk _ h63]

/-- … and its magnitude is exactly the remainder of the magnitudes: smaller than the divisor's, at most the dividend's -/
theorem rem_mag {x y : Bits} (hx : isFinite x = true) (hy : isFinite y = true) (hz : isZero y = false) :
    mag (rem x y) = mag x % mag y := by
  obtain ⟨a, ha, hv, he⟩ := rem_exact hx hy hz
  have h63 : a < 2 ^ 63 := by unfold infBits at ha; omega
  unfold mag at hv ⊢
  rw [he, absBits_mk _ h63, hv]

theorem rem_mag_lt {x y : Bits} (hx : isFinite x = true) (hy : isFinite y = true) (hz : isZero y = false) :
    mag (rem x y) < mag y := by
  rw [rem_mag hx hy hz]
  exact Nat.mod_lt _ (Nat.pos_of_ne_zero (fun hc => by rw [mag_eq_zero.1 hc] at hz; cases hz))

/-- the signed value (in units of 2^-1074): `± (mag x % mag y)` with the sign of the dividend, i.e.
    `x - trunc(x / y) · y` computed without any rounding -/
theorem rem_sval {x y : Bits} (hx : isFinite x = true) (hy : isFinite y = true) (hz : isZero y = false) :
    sval (rem x y) = if isNeg x then -((mag x % mag y : Nat) : Int) else ((mag x % mag y : Nat) : Int) := by
  unfold sval
  rw [rem_isNeg hx hy hz, rem_mag hx hy hz]

/-- a dividend smaller in magnitude than the divisor is returned unchanged -/
theorem rem_small {x y : Bits} (hx : isFinite x = true) (hy : isFinite y = true) (hlt : mag x < mag y) :
    mag (rem x y) = mag x := by
  have hz : isZero y = false := by
    cases h : isZero y with
    | false => rfl
    | true => rw [mag_eq_zero.2 h] at hlt; omega
  rw [rem_mag hx hy hz, Nat.mod_eq_of_lt hlt]

/-- the complete table of `rem`: NaN operand, infinite dividend or zero divisor → NaN (`rem_nan`); finite dividend,
    infinite divisor → the dividend (`rem_inf_right`); otherwise exact (`rem_exact`) -/
theorem rem_table (x y : Bits) :
    ((isNaN x = true ∨ isNaN y = true ∨ isInf x = true ∨ isZero y = true) ∧ rem x y = canonNaN) ∨
    (isFinite x = true ∧ isInf y = true ∧ rem x y = x) ∨
    (isFinite x = true ∧ isFinite y = true ∧ isZero y = false ∧
      ∃ a, a < infBits ∧ V a = mag x % mag y ∧ rem x y = mk (isNeg x) a) := by
  by_cases h1 : isNaN x = true ∨ isNaN y = true ∨ isInf x = true ∨ isZero y = true
  · exact .inl ⟨h1, rem_nan h1⟩
  · have hnx : isNaN x = false := by cases h : isNaN x <;> simp [h] at h1 ⊢
    have hny : isNaN y = false := by cases h : isNaN y <;> simp [h] at h1 ⊢
    have hix : isInf x = false := by cases h : isInf x <;> simp [h] at h1 ⊢
    have hzy : isZero y = false := by cases h : isZero y <;> simp [h] at h1 ⊢
    have hfx : isFinite x = true := by
      unfold isNaN at hnx; unfold isInf at hix; unfold isFinite
      simp at hnx hix ⊢; omega
    by_cases hiy : isInf y = true
    · exact .inr (.inl ⟨hfx, hiy, rem_inf_right hfx hiy⟩)
    · have hfy : isFinite y = true := by
        unfold isNaN at hny; unfold isInf at hiy; unfold isFinite
        simp at hny hiy ⊢; omega
      exact .inr (.inr ⟨hfx, hfy, hzy, rem_exact hfx hfy hzy⟩)

/-! ## sanity examples (kernel evaluation of the model) -/

section examples
set_option exponentiation.threshold 3000
set_option maxRecDepth 20000

/-- `5.5 % 2.0 = 1.5` -/
example : rem 0x4016000000000000 0x4000000000000000 = 0x3FF8000000000000 := by decide
/-- `-5.5 % 2.0 = -1.5` (sign of the dividend) -/
example : rem 0xC016000000000000 0x4000000000000000 = 0xBFF8000000000000 := by decide
/-- `5.5 % -2.0 = 1.5` -/
example : rem 0x4016000000000000 0xC000000000000000 = 0x3FF8000000000000 := by decide
/-- `-4.0 % 2.0 = -0.0` -/
example : rem 0xC010000000000000 0x4000000000000000 = zero true := by decide
/-- `1e308 % 3.0 = 2.0` (the dividend is `0x11CCF385EBC8A0 · 2^971`: an exact integer computation on ~1024-bit numbers) -/
example : rem 0x7FE1CCF385EBC8A0 0x4008000000000000 = 0x4000000000000000 := by decide
/-- `1e308 % 0.1 = 0.06093292970499612` (as the host `fmod` answers) -/
example : rem 0x7FE1CCF385EBC8A0 0x3FB999999999999A = 0x3FAF32984EB743E8 := by decide
/-- subnormal divisor: `2^-1022 % (3 · 2^-1074) = 2^-1074` (`2^52 mod 3 = 1`), `1.5 % (7 · 2^-1074) = 5 · 2^-1074` -/
example : rem 0x0010000000000000 0x0000000000000003 = 0x0000000000000001 := by decide
example : rem 0x3FF8000000000000 0x0000000000000007 = 0x0000000000000005 := by decide
/-- subnormal dividend, normal divisor: unchanged -/
example : rem 0x0000000000000005 0x3FF8000000000000 = 0x0000000000000005 := by decide
/-- special values: `inf % 2.0`, `2.0 % 0.0`, `NaN % 2.0` are NaN; `5.5 % inf = 5.5` -/
example : rem (inf false) 0x4000000000000000 = canonNaN ∧ rem 0x4000000000000000 (zero false) = canonNaN
    ∧ rem canonNaN 0x4000000000000000 = canonNaN ∧ rem 0x4016000000000000 (inf true) = 0x4016000000000000 := by decide
end examples

end F64R
end Nl
