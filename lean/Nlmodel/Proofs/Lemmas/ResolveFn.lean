/- Property R1 of the resolver for the stage-4 fragment (functions): whatever the resolver produces for a source program of the
   syntactic class `SrcTop` is a stage-4 program (`YTop`), so the end-to-end theorem of stage 4 needs no validation for this class. -/
import Nlmodel.Proofs.Lemmas.ResolveFnBody
namespace Nl
namespace SimF
open Spec Sim

/-! ## function literals -/

/-- the resolver state on entry to a function literal (before the parameters are defined) -/
def fnEnter (st1 : RState) : RState :=
  { st1 with ctxs := { isGlobal := false } :: st1.ctxs, loopDepth := 0, funcDepth := st1.funcDepth + 1, nextFid := st1.nextFid + 1 }

/-- the resolver state after a function literal -/
def fnExit (st4 st1 : RState) : RState :=
  { st4 with ctxs := st4.ctxs.tail, loopDepth := st1.loopDepth, funcDepth := st1.funcDepth }

theorem resolveS_named (name : Text) (ps : List Text) (body : Block) (st : RState) (hname : name.isEmpty = false) :
    resolveS (.expr (.func name ps body)) st =
      match resolveB body (defineParams (fnEnter (st.define name).1) ps).1 with
      | .ok (b', st4) => .ok (.expr (.func (st.define name).1.nextFid (some (st.define name).2) (defineParams (fnEnter (st.define name).1) ps).2 (msOf st4) b'),
          fnExit st4 (st.define name).1)
      | .error e => .error e := by
  simp only [resolveS, resolveE, hname, Bool.false_eq_true, ↓reduceIte, fnEnter, fnExit]
  generalize resolveB body _ = x
  cases x <;> rfl

theorem resolveS_letF (f : Text) (ps : List Text) (body : Block) (st : RState) :
    resolveS (.letS f (.func [] ps body)) st =
      match resolveB body (defineParams (fnEnter (st.define f).1) ps).1 with
      | .ok (b', st4) => .ok (.letS (st.define f).2 (.func (st.define f).1.nextFid none (defineParams (fnEnter (st.define f).1) ps).2 (msOf st4) b'),
          fnExit st4 (st.define f).1)
      | .error e => .error e := by
  simp only [resolveS, resolveE, List.isEmpty_nil, ↓reduceIte, fnEnter, fnExit]
  generalize resolveB body _ = x
  cases x <;> rfl

theorem rinv_define_refF (st : RState) (sc : List (Text × Nat)) (scs gscs : Scs) (F : Nat) (h : RInv false st (sc :: scs) gscs F) (n : Text) :
    (st.define n).2 = ⟨st.nextId, .global (sc :: scs).flatten.length⟩ := by
  obtain ⟨ms, hs⟩ := h.shapeF rfl
  unfold RState.define
  rw [hs]
  simp only [Ctx.define, Ctx.totalLen, Ctx.flat, ↓reduceIte]

theorem rinv_define_refT (st : RState) (sc : List (Text × Nat)) (scs gscs : Scs) (F : Nat) (h : RInv true st (sc :: scs) gscs F) (n : Text) :
    (st.define n).2 = ⟨st.nextId, .loc (sc :: scs).flatten.length⟩ ∧ (st.define n).1.nextId = st.nextId + 1 := by
  obtain ⟨ms, gms, hs, _, _⟩ := h.shapeT rfl
  unfold RState.define
  rw [hs]
  simp only [Ctx.define, Ctx.totalLen, Ctx.flat, Bool.false_eq_true, ↓reduceIte, and_self]

/-- defining the parameters: slots `len..len+n-1` of the (single) scope of the fresh local context, fresh binders -/
theorem rinv_params : ∀ (ps : List Text) (st : RState) (sc : List (Text × Nat)) (gscs : Scs) (F : Nat), RInv true st [sc] gscs F →
    ∃ sc', RInv true (defineParams st ps).1 [sc'] gscs F ∧
      LEq (G [sc']) (paramScopeFrom sc.length (defineParams st ps).2 ++ G [sc]) ∧
      sc'.length = sc.length + ps.length ∧
      GamOK (paramScopeFrom sc.length (defineParams st ps).2) ∧
      ∀ p ∈ paramScopeFrom sc.length (defineParams st ps).2, sc.length ≤ p.2 ∧ p.2 < sc.length + ps.length ∧ st.nextId ≤ p.1
  | [], st, sc, gscs, F, h => by
    refine ⟨sc, h, ?_, rfl, ?_, ?_⟩
    · simp only [defineParams, paramScopeFrom, List.nil_append]; exact LEq.refl _
    · simp [defineParams, paramScopeFrom, GamOK]
    · intro p hp; simp [defineParams, paramScopeFrom] at hp
  | p :: ps, st, sc, gscs, F, h => by
    obtain ⟨h1, _⟩ := rinv_define true st sc [] gscs F h p
    obtain ⟨href, hnid⟩ := rinv_define_refT st sc [] gscs F h p
    obtain ⟨sc', h2, hleq, hlen, hok, hbd⟩ := rinv_params ps (st.define p).1 ((p, st.nextId) :: sc) gscs F h1
    have hpids : (defineParams st (p :: ps)).2 = st.nextId :: (defineParams (st.define p).1 ps).2 := by
      simp only [defineParams, href]
    have hst : (defineParams st (p :: ps)).1 = (defineParams (st.define p).1 ps).1 := by
      simp only [defineParams]
    rw [hpids, hst]
    simp only [List.length_cons] at hleq hlen hok hbd
    refine ⟨sc', h2, ?_, by simp only [List.length_cons]; omega, ?_, ?_⟩
    · intro q
      rw [hleq q]
      simp only [paramScopeFrom, G, List.flatten_cons, List.flatten_nil, List.append_nil, slotsOf, List.mem_append, List.mem_cons]
      constructor
      · rintro (h' | h' | h')
        · exact .inl (.inr h')
        · exact .inl (.inl h')
        · exact .inr h'
      · rintro ((h' | h') | h')
        · exact .inr (.inl h')
        · exact .inl h'
        · exact .inr (.inr h')
    · simp only [paramScopeFrom]
      refine gamOK_cons hok _ _ ?_
      intro q hq
      have := hbd q hq
      omega
    · intro q hq
      simp only [paramScopeFrom, List.mem_cons] at hq
      rcases hq with rfl | hq
      · simp only [List.length_cons]; omega
      · have := hbd q hq
        simp only [List.length_cons]; omega

/-- the body of a function literal at top level -/
theorem func_core (st1 : RState) (sc1 : List (Text × Nat)) (F : Nat) (hinv : RInv false st1 [sc1] [] F) (ps : List Text) (body : Block)
    (hb : SrcB true false body) (b' : RBlock) (st4 : RState) (hr : resolveB body (defineParams (fnEnter st1) ps).1 = .ok (b', st4)) :
    (∃ Γb Λb, YB (msOf st4) true (G [sc1]) (paramScope (defineParams (fnEnter st1) ps).2) false b' Γb Λb) ∧
    GamOK (paramScope (defineParams (fnEnter st1) ps).2) ∧
    (∀ p ∈ paramScope (defineParams (fnEnter st1) ps).2, p.2 < msOf st4) ∧
    RInv false (fnExit st4 st1) [sc1] [] (F + 1) := by
  obtain ⟨gms, hs⟩ := hinv.shapeF rfl
  have h2 : RInv true (fnEnter st1) [[]] [sc1] (F + 1) := by
    refine ⟨(fun hc => by cases hc), fun _ => ⟨0, gms, (by simp [fnEnter, hs]), (by simp), ?_⟩, (by simp), (by simp [fnEnter, hinv.fid])⟩
    intro p hp
    exact hinv.fresh p hp
  obtain ⟨psc, h3, hleq, hlen, hok, hbd⟩ := rinv_params ps (fnEnter st1) [] [sc1] (F + 1) h2
  obtain ⟨h4, hle, hyb⟩ := rB true body false [psc] [sc1] (F + 1) _ b' st4 hb h3 hr
  obtain ⟨Γ1, Λ1, hy⟩ := hyb (msOf st4) (Nat.le_refl _)
  have hleq' : LEq (lamOf true [psc]) (paramScope (defineParams (fnEnter st1) ps).2) := by
    intro q
    have := hleq q
    simpa [lamOf, paramScope, G, slotsOf] using this
  obtain ⟨Λ1', _, hy'⟩ := permB (msOf st4) true b' (gamOf true [sc1] [psc]) _ _ false Γ1 Λ1 hleq' hy
  refine ⟨⟨Γ1, Λ1', hy'⟩, hok, ?_, ?_⟩
  · intro q hq
    have h1 := (hbd q hq).2.1
    obtain ⟨ms3, gms3, hs3, hle3, _⟩ := h3.shapeT rfl
    have : lim true (defineParams (fnEnter st1) ps).1 = ms3 := by simp [lim, msOf, hs3]
    have hle' : ms3 ≤ msOf st4 := by rw [← this]; exact hle
    simp only [List.flatten_cons, List.flatten_nil, List.append_nil] at hle3
    simp only [List.length_nil] at h1 hlen
    omega
  · obtain ⟨ms4, gms4, hs4, _, hg4⟩ := h4.shapeT rfl
    refine ⟨fun _ => ⟨gms4, (by simp [fnExit, hs4])⟩, (fun hc => by cases hc), ?_, by simpa [fnExit] using h4.fid⟩
    intro p hp
    exact hg4 p hp

/-! ## R1 for stage 4 -/

theorem fresh_slotF (st : RState) (sc : List (Text × Nat)) (F : Nat) (h : RInv false st [sc] [] F) :
    ∀ p ∈ G [sc], p.1 ≠ st.nextId ∧ p.2 ≠ sc.length := by
  intro p hp
  obtain ⟨h1, m, h2⟩ := slotsOf_bounds _ p hp
  have := h.fresh (m, p.1) h2
  simp only [List.flatten_cons, List.flatten_nil, List.append_nil] at this h1
  exact ⟨by omega, by omega⟩

theorem rTop : (b : Block) → ∀ (sc : List (Text × Nat)) (st : RState) (F : Nat) (b' : RBlock) (st' : RState),
    SrcTop b → RInv false st [sc] [] F → resolveSs b st = .ok (b', st') →
    ∀ (pos : Nat) (cs : List Const), ∃ Γ' D, YTop (G [sc]) b' pos cs Γ' D ∧ (∀ d ∈ D, F ≤ d.1) ∧ D.Pairwise (fun x y => x.1 ≠ y.1)
  | .nil, sc, st, F, b', st', _, hinv, h => by
    simp only [resolveSs] at h; injection h with h; injection h with h1 h2; subst h1; subst h2
    intro pos cs
    exact ⟨_, [], .nil _ _ _, (by intro d hd; cases hd), List.Pairwise.nil⟩
  | .cons s rest, sc, st, F, b', st', hs, hinv, h => by
    simp only [resolveSs] at h
    cases hs with
    | stmt _ _ hss hrest =>
      cases hr : resolveS s st with
      | error er => simp [hr] at h
      | ok p =>
        obtain ⟨s1, st1⟩ := p
        simp only [hr] at h
        obtain ⟨sc1, hi1, _, hx1⟩ := rS false s false sc [] [] F st s1 st1 hss hinv hr
        cases hr2 : resolveSs rest st1 with
        | error er => simp [hr2] at h
        | ok q =>
          obtain ⟨b1, st2⟩ := q
          simp only [hr2] at h
          injection h with h; injection h with h1 h2; subst h1; subst h2
          intro pos cs
          obtain ⟨Γ', D, hy, hge, hpw⟩ := rTop rest sc1 st1 F b1 st2 hrest hi1 hr2 (pos + sizeS s1) (emitS s1 pos none cs).2
          exact ⟨Γ', D, .stmt _ _ _ s1 b1 pos cs D (hx1 0 (Nat.le_refl _)) hy, hge, hpw⟩
    | named name ps body _ hname hsb hrest =>
      rw [resolveS_named name ps body st hname] at h
      obtain ⟨hinv1, _⟩ := rinv_define false st sc [] [] F hinv name
      have href := rinv_define_refF st sc [] [] F hinv name
      cases hb : resolveB body (defineParams (fnEnter (st.define name).1) ps).1 with
      | error er => simp [hb] at h
      | ok p =>
        obtain ⟨body1, st4⟩ := p
        simp only [hb] at h
        obtain ⟨⟨Γb, Λb, hyb⟩, hok, hbd, hinv2⟩ := func_core (st.define name).1 ((name, st.nextId) :: sc) F hinv1 ps body hsb body1 st4 hb
        cases hr2 : resolveSs rest (fnExit st4 (st.define name).1) with
        | error er => simp [hr2] at h
        | ok q =>
          obtain ⟨b1, st2⟩ := q
          simp only [hr2] at h
          injection h with h; injection h with h1 h2; subst h1; subst h2
          intro pos cs
          rw [href, hinv1.fid]
          simp only [List.flatten_cons, List.flatten_nil, List.append_nil]
          obtain ⟨Γ', D, hy, hge, hpw⟩ := rTop rest ((name, st.nextId) :: sc) _ (F + 1) b1 st2 hrest hinv2 hr2
            (pos + sizeS (.expr (.func F (some ⟨st.nextId, .global sc.length⟩) (defineParams (fnEnter (st.define name).1) ps).2 (msOf st4) body1)))
            (emitS (.expr (.func F (some ⟨st.nextId, .global sc.length⟩) (defineParams (fnEnter (st.define name).1) ps).2 (msOf st4) body1)) pos none cs).2
          have hG : G [(name, st.nextId) :: sc] = (st.nextId, sc.length) :: G [sc] := by simp [G, slotsOf]
          rw [hG] at hy hyb
          have hfs := fresh_slotF st sc F hinv
          refine ⟨Γ', _, .fdef (G [sc]) Γ' _ b1 pos cs D F st.nextId sc.length _ (msOf st4) body1 Γb Λb (.named _ _ _ _ _ _) hfs hyb hok hbd hy, ?_, ?_⟩
          · intro d hd
            simp only [List.mem_cons] at hd
            rcases hd with rfl | hd
            · exact Nat.le_refl _
            · have := hge d hd; omega
          · refine List.Pairwise.cons ?_ hpw
            intro d hd
            have := hge d hd
            simp only; omega
    | letF f ps body _ hsb hrest =>
      rw [resolveS_letF f ps body st] at h
      obtain ⟨hinv1, _⟩ := rinv_define false st sc [] [] F hinv f
      have href := rinv_define_refF st sc [] [] F hinv f
      cases hb : resolveB body (defineParams (fnEnter (st.define f).1) ps).1 with
      | error er => simp [hb] at h
      | ok p =>
        obtain ⟨body1, st4⟩ := p
        simp only [hb] at h
        obtain ⟨⟨Γb, Λb, hyb⟩, hok, hbd, hinv2⟩ := func_core (st.define f).1 ((f, st.nextId) :: sc) F hinv1 ps body hsb body1 st4 hb
        cases hr2 : resolveSs rest (fnExit st4 (st.define f).1) with
        | error er => simp [hr2] at h
        | ok q =>
          obtain ⟨b1, st2⟩ := q
          simp only [hr2] at h
          injection h with h; injection h with h1 h2; subst h1; subst h2
          intro pos cs
          rw [href, hinv1.fid]
          simp only [List.flatten_cons, List.flatten_nil, List.append_nil]
          obtain ⟨Γ', D, hy, hge, hpw⟩ := rTop rest ((f, st.nextId) :: sc) _ (F + 1) b1 st2 hrest hinv2 hr2
            (pos + sizeS (.letS ⟨st.nextId, .global sc.length⟩ (.func F none (defineParams (fnEnter (st.define f).1) ps).2 (msOf st4) body1)))
            (emitS (.letS ⟨st.nextId, .global sc.length⟩ (.func F none (defineParams (fnEnter (st.define f).1) ps).2 (msOf st4) body1)) pos none cs).2
          have hG : G [(f, st.nextId) :: sc] = (st.nextId, sc.length) :: G [sc] := by simp [G, slotsOf]
          rw [hG] at hy hyb
          have hfs := fresh_slotF st sc F hinv
          refine ⟨Γ', _, .fdef (G [sc]) Γ' _ b1 pos cs D F st.nextId sc.length _ (msOf st4) body1 Γb Λb (.letS _ _ _ _ _ _) hfs hyb hok hbd hy, ?_, ?_⟩
          · intro d hd
            simp only [List.mem_cons] at hd
            rcases hd with rfl | hd
            · exact Nat.le_refl _
            · have := hge d hd; omega
          · refine List.Pairwise.cons ?_ hpw
            intro d hd
            have := hge d hd
            simp only; omega

/-- R1 for stage 4: the resolver turns every source program of the class `SrcTop` into a stage-4 program, with pairwise distinct function ids -/
theorem resolve_ytop (ast : Block) (hs : SrcTop ast) (r : RBlock) (h : resolveProgram ast = .ok r) :
    ∃ Γ' D, YTop [] r 0 [] Γ' D ∧ D.Pairwise (fun x y => x.1 ≠ y.1) := by
  unfold resolveProgram at h
  cases hr : resolveSs ast {} with
  | error er => simp [hr] at h
  | ok q =>
    obtain ⟨b, st'⟩ := q
    simp only [hr] at h
    injection h with h; subst h
    have hinv : RInv false ({} : RState) [[]] [] 0 :=
      ⟨fun _ => ⟨0, rfl⟩, (fun hc => by cases hc), (by intro p hp; simp at hp), rfl⟩
    obtain ⟨Γ', D, hy, _, hpw⟩ := rTop ast [] {} 0 b st' hs hinv hr 0 []
    exact ⟨Γ', D, by simpa [G, slotsOf] using hy, hpw⟩

/-- END TO END FROM SOURCE TREES, stage 4, WITHOUT validation: for a parsed program of the syntactic class `SrcTop`,
    compiling and running it agrees with the definitional semantics (or stops at the machine's stack limit) -/
theorem fn_source_program_syntactic (ast : Block) (r : RBlock) (bc : Bytecode) (hc : compileProgram ast = .ok (r, bc))
    (hin : SrcTop ast) (F : Nat) :
    HitsLimit bc ∨
    match evalB F r {} with
    | .val () st' => ∃ Γ' D mv n, VR (lookupD D) Γ' st'.last mv ∧ st'.out = [] ∧
        ∀ k, ∃ s', runSteps bc.code (n + k) (VM.start {} bc) = .value mv s'
    | .err er _ => ∃ n, ∀ k, ∃ s', runSteps bc.code (n + k) (VM.start {} bc) = .error er s'
    | .brk _ => False
    | .cont _ => False
    | .ret _ _ => False
    | _ => True := by
  unfold compileProgram at hc
  cases hr : resolveProgram ast with
  | error e => simp [hr] at hc
  | ok r' =>
    simp only [hr] at hc
    cases hcr : compileR r' with
    | error e => simp [hcr] at hc
    | ok bc' =>
      simp only [hcr] at hc
      injection hc with hc; injection hc with h1 h2; subst h1; subst h2
      obtain ⟨Γ', D, hy, hnd⟩ := resolve_ytop ast hin r' hr
      have := fn_program r' Γ' D hy hnd bc' hcr F
      rcases this with h | h
      · exact .inl h
      · refine .inr ?_
        cases he : evalB F r' {} with
        | val u st' => rw [he] at h; obtain ⟨mv, n, h1, h2, h3⟩ := h; exact ⟨Γ', D, mv, n, h1, h2, h3⟩
        | err er st' => rw [he] at h; exact h
        | brk _ => rw [he] at h; exact h
        | cont _ => rw [he] at h; exact h
        | ret _ _ => rw [he] at h; exact h
        | fuel => trivial
        | unspec _ => trivial

/-- in particular the validation `inFragment` of the resolver's output can never fail on this class in a way that matters:
    the resolved tree IS in the fragment -/
theorem compile_ytop (ast : Block) (r : RBlock) (bc : Bytecode) (hc : compileProgram ast = .ok (r, bc)) (hin : SrcTop ast) :
    ∃ Γ' D, YTop [] r 0 [] Γ' D ∧ D.Pairwise (fun x y => x.1 ≠ y.1) := by
  unfold compileProgram at hc
  cases hr : resolveProgram ast with
  | error e => simp [hr] at hc
  | ok r' =>
    simp only [hr] at hc
    cases hcr : compileR r' with
    | error e => simp [hcr] at hc
    | ok bc' =>
      simp only [hcr] at hc
      injection hc with hc; injection hc with h1 h2; subst h1
      exact resolve_ytop ast hin r' hr

/-! ## a decidable check for the source fragment -/

def preOk : Op → Bool
  | .not | .sub | .negate => true
  | _ => false

def isIdent : Expr → Bool
  | .ident _ => true
  | _ => false

mutual
def srcE (fn ab : Bool) : Expr → Bool
  | .int _ => true
  | .bool _ => true
  | .ident _ => true
  | .pre op e => preOk op && srcE fn ab e
  | .infix l op r => (opToBin op).isSome && srcE fn ab l && srcE fn false r
  | .assign l e => isIdent l && srcE fn ab e
  | .ifE c t e => srcE fn ab c && srcB fn ab t && srcO fn ab e
  | .whileE c b => srcE fn false c && srcB fn true b
  | .call f as => nonBuiltin f && srcEs fn as && srcE fn false f
  | _ => false
def srcEs (fn : Bool) : Exprs → Bool
  | .nil => true
  | .cons e es => srcE fn false e && srcEs fn es
def srcO (fn ab : Bool) : OptBlock → Bool
  | .none => true
  | .some b => srcB fn ab b
def srcS (fn ab : Bool) : Stmt → Bool
  | .expr e => srcE fn ab e
  | .letS _ e => srcE fn ab e
  | .block b => srcB fn ab b
  | .brk => ab
  | .cont => ab
  | .ret e => fn && srcE fn ab e
def srcB (fn ab : Bool) : Block → Bool
  | .nil => true
  | .cons s b => srcS fn ab s && srcB fn ab b
end

mutual
theorem srcE_sound (fn : Bool) : (e : Expr) → ∀ (ab : Bool), srcE fn ab e = true → SrcE fn ab e
  | .int v, ab, _ => .int ab v
  | .bool b, ab, _ => .bool ab b
  | .ident n, ab, _ => .ident ab n
  | .pre op e, ab, h => by
    simp only [srcE, Bool.and_eq_true] at h
    have he := srcE_sound fn e ab h.2
    cases op with
    | not => exact .not ab e he
    | sub => exact .neg ab e he
    | negate => exact .negate ab e he
    | _ => simp [preOk] at h
  | .infix l op r, ab, h => by
    simp only [srcE, Bool.and_eq_true] at h
    cases hop : opToBin op with
    | none => simp [hop] at h
    | some bop => exact .bin ab l op r bop hop (srcE_sound fn l ab h.1.2) (srcE_sound fn r false h.2)
  | .assign l e, ab, h => by
    simp only [srcE, Bool.and_eq_true] at h
    have he := srcE_sound fn e ab h.2
    cases l with
    | ident n => exact .assign ab n e he
    | _ => simp [isIdent] at h
  | .ifE c t e, ab, h => by
    simp only [srcE, Bool.and_eq_true] at h
    exact .ifE ab c t e (srcE_sound fn c ab h.1.1) (srcB_sound fn t ab h.1.2) (srcO_sound fn e ab h.2)
  | .whileE c b, ab, h => by
    simp only [srcE, Bool.and_eq_true] at h
    exact .whileE ab c b (srcE_sound fn c false h.1) (srcB_sound fn b true h.2)
  | .call f as, ab, h => by
    simp only [srcE, Bool.and_eq_true] at h
    exact .call ab f as h.1.1 (srcEs_sound fn as h.1.2) (srcE_sound fn f false h.2)
  | .float _, _, h => by simp [srcE] at h
  | .str _, _, h => by simp [srcE] at h
  | .func _ _ _, _, h => by simp [srcE] at h
  | .arr _, _, h => by simp [srcE] at h
  | .index _ _, _, h => by simp [srcE] at h
theorem srcEs_sound (fn : Bool) : (es : Exprs) → srcEs fn es = true → SrcEs fn es
  | .nil, _ => .nil
  | .cons e es, h => by
    simp only [srcEs, Bool.and_eq_true] at h
    exact .cons e es (srcE_sound fn e false h.1) (srcEs_sound fn es h.2)
theorem srcO_sound (fn : Bool) : (o : OptBlock) → ∀ (ab : Bool), srcO fn ab o = true → SrcO fn ab o
  | .none, ab, _ => .none ab
  | .some b, ab, h => by
    simp only [srcO] at h
    exact .some ab b (srcB_sound fn b ab h)
theorem srcS_sound (fn : Bool) : (s : Stmt) → ∀ (ab : Bool), srcS fn ab s = true → SrcS fn ab s
  | .expr e, ab, h => by simp only [srcS] at h; exact .expr ab e (srcE_sound fn e ab h)
  | .letS n e, ab, h => by simp only [srcS] at h; exact .letS ab n e (srcE_sound fn e ab h)
  | .block b, ab, h => by simp only [srcS] at h; exact .block ab b (srcB_sound fn b ab h)
  | .brk, ab, h => by simp only [srcS] at h; subst h; exact .brk
  | .cont, ab, h => by simp only [srcS] at h; subst h; exact .cont
  | .ret e, ab, h => by
    simp only [srcS, Bool.and_eq_true] at h
    exact .ret ab e h.1 (srcE_sound fn e ab h.2)
theorem srcB_sound (fn : Bool) : (b : Block) → ∀ (ab : Bool), srcB fn ab b = true → SrcB fn ab b
  | .nil, ab, _ => .nil ab
  | .cons s b, ab, h => by
    simp only [srcB, Bool.and_eq_true] at h
    exact .cons ab s b (srcS_sound fn s ab h.1) (srcB_sound fn b ab h.2)
end

/-- the body of the function a top-level statement defines, if it is one of the two definition forms -/
def srcFDef : Stmt → Option Block
  | .expr (.func name _ body) => if name.isEmpty then none else some body
  | .letS _ (.func name _ body) => if name.isEmpty then some body else none
  | _ => none

theorem srcFDef_sound (s : Stmt) (body : Block) (h : srcFDef s = some body) :
    (∃ name ps, s = .expr (.func name ps body) ∧ name.isEmpty = false) ∨ (∃ f ps, s = .letS f (.func [] ps body)) := by
  unfold srcFDef at h
  split at h
  · rename_i name ps b
    split at h
    · cases h
    · rename_i hn
      injection h with h; subst h
      exact .inl ⟨name, ps, rfl, by simpa using hn⟩
  · rename_i f name ps b
    split at h
    · rename_i hn
      injection h with h; subst h
      have : name = [] := by simpa using hn
      subst this
      exact .inr ⟨f, ps, rfl⟩
    · cases h
  · cases h

/-- the decidable check for source programs of stage 4 -/
def srcTop : Block → Bool
  | .nil => true
  | .cons s rest =>
    (match srcFDef s with
     | some body => srcB true false body
     | none => srcS false false s) && srcTop rest

theorem srcTop_sound : (b : Block) → srcTop b = true → SrcTop b
  | .nil, _ => .nil
  | .cons s rest, h => by
    simp only [srcTop, Bool.and_eq_true] at h
    have hrest := srcTop_sound rest h.2
    cases hf : srcFDef s with
    | none =>
      have h1 := h.1
      simp only [hf] at h1
      exact .stmt s rest (srcS_sound false s false h1) hrest
    | some body =>
      have h1 := h.1
      simp only [hf] at h1
      have hb := srcB_sound true body false h1
      rcases srcFDef_sound s body hf with ⟨name, ps, rfl, hn⟩ | ⟨f, ps, rfl⟩
      · exact .named name ps body rest hn hb hrest
      · exact .letF f ps body rest hb hrest

/-- END TO END FROM SOURCE TREES, stage 4, with the SOURCE-level check -/
theorem fn_source_program_checked (ast : Block) (r : RBlock) (bc : Bytecode) (hc : compileProgram ast = .ok (r, bc))
    (hin : srcTop ast = true) (F : Nat) :
    HitsLimit bc ∨
    match evalB F r {} with
    | .val () st' => ∃ Γ' D mv n, VR (lookupD D) Γ' st'.last mv ∧ st'.out = [] ∧
        ∀ k, ∃ s', runSteps bc.code (n + k) (VM.start {} bc) = .value mv s'
    | .err er _ => ∃ n, ∀ k, ∃ s', runSteps bc.code (n + k) (VM.start {} bc) = .error er s'
    | .brk _ => False
    | .cont _ => False
    | .ret _ _ => False
    | _ => True :=
  fn_source_program_syntactic ast r bc hc (srcTop_sound ast hin) F

/-! ## non-vacuity -/

/-- `functie fac(n) { als n < 2 { antwoord 1 } n * fac(n - 1) } fac(5)` (the tree `C01.facAst`) -/
def facSrc : Block :=
  .cons (.expr (.func "fac".toList ["n".toList]
    (.cons (.expr (.ifE (.infix (.ident "n".toList) .lt (.int 2)) (.cons (.ret (.int 1)) .nil) .none))
    (.cons (.expr (.infix (.ident "n".toList) .mul (.call (.ident "fac".toList) (.cons (.infix (.ident "n".toList) .sub (.int 1)) .nil)))) .nil))))
  (.cons (.expr (.call (.ident "fac".toList) (.cons (.int 5) .nil))) .nil)

/-- the recursive factorial is in the source fragment (kernel-evaluated check) -/
example : srcTop facSrc = true := by decide

example : SrcTop facSrc := srcTop_sound facSrc (by decide)

/-- ... and it compiles, so the hypotheses of `fn_source_program_syntactic` are satisfiable together -/
example : (match compileProgram facSrc with | .ok _ => true | .error _ => false) = true := by decide

/-- `stel`-defined functions, loops with `stop`/`volgende`, locals in nested blocks, globals: also in the fragment -/
example : srcTop
    (.cons (.letS "t".toList (.int 0))
    (.cons (.letS "f".toList (.func [] ["a".toList, "b".toList]
      (.cons (.letS "i".toList (.int 0))
      (.cons (.expr (.whileE (.infix (.ident "i".toList) .lt (.ident "a".toList))
        (.cons (.letS "j".toList (.infix (.ident "i".toList) .add (.int 1)))
        (.cons (.expr (.assign (.ident "i".toList) (.ident "j".toList)))
        (.cons (.expr (.ifE (.infix (.ident "j".toList) .eq (.ident "b".toList)) (.cons .brk .nil) (.some (.cons .cont .nil))))
        .nil)))))
      (.cons (.expr (.assign (.ident "t".toList) (.ident "i".toList)))
      (.cons (.ret (.infix (.int 2) .mul (.ident "i".toList))) .nil))))))
    (.cons (.expr (.call (.ident "f".toList) (.cons (.int 7) (.cons (.int 3) .nil)))) .nil))) = true := by decide

end SimF
end Nl
