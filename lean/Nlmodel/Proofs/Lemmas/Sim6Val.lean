/- Stage 6 of the simulation (C01, C03, C12, C13, C14): heap values TOGETHER WITH function calls.
   The value relation (stage 5's, plus function values through the function table), the heap relation,
   and how they move along allocations and mutations. -/
import Nlmodel.Proofs.Lemmas.SimHProgram
import Nlmodel.Proofs.C03
namespace Nl
namespace Sim6
open Spec Sim
open SimH (AMap isStrCell isArrCell Grow PoolH MemOK sameKind)
open SimF (FT FnInfo FTInj)

/-- what is fixed during a run: function table, persistent global scope, code, the machine components that never
    change (`cvals`), the final constant pool -/
structure World where
  ft : FT
  Γp : Gam
  C : Code
  s0 : VM
  CS : List Const

/-- a value of the semantics and the machine value representing it: floats boxed, strings and arrays through the
    address map, functions through the function table -/
def VR6 (W : World) (μ : AMap) (st : SState) (h : Heap) : SVal → Value → Prop
  | .null, .null => True
  | .bool a, .bool b => a = b
  | .int a, .int b => a = b
  | .float x, .float a' => h.get a' = .float x
  | .str a, .str a' => μ a = some a' ∧ isStrCell st.store[a]? = true
  | .arr a, .arr a' => μ a = some a' ∧ isArrCell st.store[a]? = true
  | .fn fid ps nl body, .fn ip nl' =>
    ∃ info, W.ft fid = some info ∧ info.ip = ip ∧ info.ps = ps ∧ info.nl = nl ∧ info.body = body ∧ nl' = nl ∧
      ∀ p ∈ info.Γg, p ∈ W.Γp
  | _, _ => False

def VRL6 (W : World) (μ : AMap) (st : SState) (h : Heap) : List SVal → List Value → Prop
  | [], [] => True
  | v :: vs, m :: ms => VR6 W μ st h v m ∧ VRL6 W μ st h vs ms
  | _, _ => False

/-- the two heaps correspond on the mapped addresses -/
structure HR6 (W : World) (μ : AMap) (st : SState) (h : Heap) : Prop where
  inj : ∀ a b a', μ a = some a' → μ b = some a' → a = b
  dom : ∀ a a', μ a = some a' → a < st.store.size ∧ a' < h.cells.size
  str : ∀ a a' s, μ a = some a' → st.store[a]? = some (.str s) → h.get a' = .str s
  arr : ∀ a a' vs, μ a = some a' → st.store[a]? = some (.arr vs) → ∃ mvs, h.get a' = .arr mvs ∧ VRL6 W μ st h vs mvs

theorem VR6.null_iff {W : World} {μ : AMap} {st : SState} {h : Heap} {mv : Value} : VR6 W μ st h .null mv ↔ mv = .null := by
  cases mv <;> simp [VR6]
theorem VR6.bool_iff {W : World} {μ : AMap} {st : SState} {h : Heap} {b : Bool} {mv : Value} : VR6 W μ st h (.bool b) mv ↔ mv = .bool b := by
  cases mv <;> simp [VR6]; exact eq_comm
theorem VR6.int_iff {W : World} {μ : AMap} {st : SState} {h : Heap} {i : Int} {mv : Value} : VR6 W μ st h (.int i) mv ↔ mv = .int i := by
  cases mv <;> simp [VR6]; exact eq_comm

/-- a machine value without an address is related independently of map, store and heap -/
theorem VR6.scalar {W : World} {μ μ' : AMap} {st st' : SState} {h h' : Heap} {v : SVal} {mv : Value} (hs : mv.addr? = none)
    (hv : VR6 W μ st h v mv) : VR6 W μ' st' h' v mv := by
  cases v <;> cases mv <;> simp only [VR6] at hv ⊢ <;> first | exact hv | (simp [Value.addr?] at hs)

theorem VR6.grow {W : World} {μ μ' : AMap} {st st' : SState} {h h' : Heap} (hg : Grow μ st h μ' st' h') {v : SVal} {mv : Value}
    (hv : VR6 W μ st h v mv) : VR6 W μ' st' h' v mv := by
  cases v <;> cases mv <;> simp only [VR6] at hv ⊢ <;> try exact hv
  · exact hg.floats _ _ hv
  · exact ⟨hg.map _ _ hv.1, by rw [(hg.skind _ (SimH.isStrCell_lt hv.2)).1]; exact hv.2⟩
  · exact ⟨hg.map _ _ hv.1, by rw [(hg.skind _ (SimH.isArrCell_lt hv.2)).2]; exact hv.2⟩

theorem VRL6.grow {W : World} {μ μ' : AMap} {st st' : SState} {h h' : Heap} (hg : Grow μ st h μ' st' h') :
    ∀ {vs : List SVal} {ms : List Value}, VRL6 W μ st h vs ms → VRL6 W μ' st' h' vs ms
  | [], [], _ => trivial
  | _ :: _, _ :: _, hv => ⟨hv.1.grow hg, VRL6.grow hg hv.2⟩
  | [], _ :: _, hv => hv.elim
  | _ :: _, [], hv => hv.elim

theorem VRL6.length {W : World} {μ : AMap} {st : SState} {h : Heap} : ∀ {vs : List SVal} {ms : List Value}, VRL6 W μ st h vs ms → vs.length = ms.length
  | [], [], _ => rfl
  | _ :: _, _ :: _, hv => by simp [VRL6.length hv.2]
  | [], _ :: _, hv => hv.elim
  | _ :: _, [], hv => hv.elim

theorem VRL6.getD {W : World} {μ : AMap} {st : SState} {h : Heap} : ∀ {vs : List SVal} {ms : List Value}, VRL6 W μ st h vs ms → ∀ j,
    VR6 W μ st h (vs.getD j .null) (ms.getD j .null)
  | [], [], _, j => by simp [VR6]
  | v :: vs, m :: ms, hv, 0 => by simpa using hv.1
  | v :: vs, m :: ms, hv, j + 1 => by simpa using VRL6.getD hv.2 j
  | [], _ :: _, hv, _ => hv.elim
  | _ :: _, [], hv, _ => hv.elim

theorem VRL6.set {W : World} {μ : AMap} {st : SState} {h : Heap} : ∀ {vs : List SVal} {ms : List Value}, VRL6 W μ st h vs ms → ∀ j v mv,
    VR6 W μ st h v mv → VRL6 W μ st h (vs.set j v) (ms.set j mv)
  | [], [], _, _, _, _, _ => trivial
  | x :: vs, m :: ms, hv, 0, v, mv, h1 => ⟨h1, hv.2⟩
  | x :: vs, m :: ms, hv, j + 1, v, mv, h1 => ⟨hv.1, VRL6.set hv.2 j v mv h1⟩
  | [], _ :: _, hv, _, _, _, _ => hv.elim
  | _ :: _, [], hv, _, _, _, _ => hv.elim

/-- elementwise transport of a list relation -/
theorem VRL6.imp {W W' : World} {μ μ' : AMap} {st st' : SState} {h h' : Heap} :
    ∀ {vs : List SVal} {ms : List Value}, VRL6 W μ st h vs ms →
      (∀ v mv, mv ∈ ms → VR6 W μ st h v mv → VR6 W' μ' st' h' v mv) → VRL6 W' μ' st' h' vs ms
  | [], [], _, _ => trivial
  | v :: vs, m :: ms, hv, f =>
    ⟨f v m List.mem_cons_self hv.1, VRL6.imp hv.2 (fun v mv hm => f v mv (List.mem_cons_of_mem _ hm))⟩
  | [], _ :: _, hv, _ => hv.elim
  | _ :: _, [], hv, _ => hv.elim

/-! ### the persistent scope only grows -/

def World.at (W : World) (Γ : Gam) : World := { W with Γp := Γ }

theorem VR6.mono {W : World} {Γ' : Gam} (hsub : ∀ p ∈ W.Γp, p ∈ Γ') {μ : AMap} {st : SState} {h : Heap} {v : SVal} {mv : Value}
    (hv : VR6 W μ st h v mv) : VR6 (W.at Γ') μ st h v mv := by
  cases v <;> cases mv <;> simp only [VR6] at hv ⊢ <;> try exact hv
  obtain ⟨info, h1, h2, h3, h4, h5, h6, h7⟩ := hv
  exact ⟨info, h1, h2, h3, h4, h5, h6, fun p hp => hsub p (h7 p hp)⟩

theorem VRL6.mono {W : World} {Γ' : Gam} (hsub : ∀ p ∈ W.Γp, p ∈ Γ') {μ : AMap} {st : SState} {h : Heap} {vs : List SVal} {ms : List Value}
    (hv : VRL6 W μ st h vs ms) : VRL6 (W.at Γ') μ st h vs ms :=
  hv.imp (fun _ _ _ x => x.mono hsub)

theorem HR6.mono {W : World} {Γ' : Gam} (hsub : ∀ p ∈ W.Γp, p ∈ Γ') {μ : AMap} {st : SState} {h : Heap} (hr : HR6 W μ st h) :
    HR6 (W.at Γ') μ st h :=
  ⟨hr.inj, hr.dom, hr.str, fun a a' vs hm hc => by
    obtain ⟨mvs, h1, h2⟩ := hr.arr a a' vs hm hc
    exact ⟨mvs, h1, h2.mono hsub⟩⟩

/-! ### what the operators and builtins see -/

/-- related values that are not functions have the same shallow view -/
theorem view_eq6 {W : World} {μ : AMap} {st : SState} {h : Heap} (hr : HR6 W μ st h) {v : SVal} {mv : Value} (hv : VR6 W μ st h v mv)
    (hnf : ∀ a b, mv ≠ .fn a b) : h.view mv = st.view v := by
  cases v <;> cases mv <;> simp only [VR6] at hv <;> try exact absurd hv id
  · rfl
  · subst hv; rfl
  · subst hv; rfl
  · simp [Heap.view, SState.view, Heap.floatAt, hv]
  · rename_i a a'
    obtain ⟨hm, hk⟩ := hv
    cases hc : st.store[a]? with
    | none => rw [hc] at hk; cases hk
    | some c =>
      cases c with
      | arr vs => rw [hc] at hk; cases hk
      | str s =>
        have := hr.str a a' s hm hc
        simp [Heap.view, SState.view, Heap.strAt, SState.strAt, this, hc]
  · rename_i a a'
    obtain ⟨hm, hk⟩ := hv
    cases hc : st.store[a]? with
    | none => rw [hc] at hk; cases hk
    | some c =>
      cases c with
      | str s => rw [hc] at hk; cases hk
      | arr vs =>
        obtain ⟨mvs, hg, hl⟩ := hr.arr a a' vs hm hc
        simp [Heap.view, SState.view, Heap.arrAt, SState.arrAt, hg, hc, hl.length]
  · exact absurd rfl (hnf _ _)

/-- a function value is seen as a function on both sides -/
theorem view_fn6 {W : World} {μ : AMap} {st : SState} {h : Heap} {v : SVal} {ip nl : Nat} (hv : VR6 W μ st h v (.fn ip nl)) :
    ∃ fid ps body, v = .fn fid ps nl body ∧ st.view v = .fn (fid, 0) ∧ ∃ info, W.ft fid = some info ∧ info.ip = ip := by
  cases v <;> simp only [VR6] at hv
  obtain ⟨info, h1, h2, _, _, _, h6, _⟩ := hv
  subst h6
  exact ⟨_, _, _, rfl, rfl, info, h1, h2⟩

theorem view_ty6 {W : World} {μ : AMap} {st : SState} {h : Heap} (hr : HR6 W μ st h) {v : SVal} {mv : Value} (hv : VR6 W μ st h v mv) :
    (h.view mv).ty = (st.view v).ty := by
  by_cases hf : ∃ a b, mv = .fn a b
  · obtain ⟨a, b, rfl⟩ := hf
    obtain ⟨fid, ps, body, rfl, e, _⟩ := view_fn6 hv
    rw [e]; rfl
  · rw [view_eq6 hr hv (fun a b e => hf ⟨a, b, e⟩)]

theorem binopCore_fn_l (op : BinOp) (i j : Nat × Nat) (r : View) (hr : ∀ k, r ≠ .fn k) :
    binopCore op (.fn i) r = binopCore op (.fn j) r := by
  cases r <;> first | exact absurd rfl (hr _) | (cases op <;> rfl)

theorem binopCore_fn_r (op : BinOp) (i j : Nat × Nat) (l : View) (hl : ∀ k, l ≠ .fn k) :
    binopCore op l (.fn i) = binopCore op l (.fn j) := by
  cases l <;> first | exact absurd rfl (hl _) | (cases op <;> rfl)

theorem view_not_fn6 {W : World} {μ : AMap} {st : SState} {h : Heap} {v : SVal} {mv : Value} (hv : VR6 W μ st h v mv)
    (hnf : ∀ a b, mv ≠ .fn a b) : ∀ k, st.view v ≠ .fn k := by
  intro k
  cases v <;> cases mv <;> simp only [VR6] at hv <;> first | exact absurd hv id | (simp [SState.view]; done) | exact absurd rfl (hnf _ _)

/-- operators see the same thing on both sides (function identity through the injective function table) -/
theorem binopCore_rel6 {W : World} (hinj : FTInj W.ft) {μ : AMap} {st : SState} {h : Heap} (hr : HR6 W μ st h) (op : BinOp)
    {a b : SVal} {ma mb : Value} (ha : VR6 W μ st h a ma) (hb : VR6 W μ st h b mb) :
    binopCore op (h.view ma) (h.view mb) = binopCore op (st.view a) (st.view b) := by
  by_cases hfa : ∃ x y, ma = .fn x y
  · obtain ⟨ip1, nl1, rfl⟩ := hfa
    obtain ⟨fid1, ps1, body1, rfl, e1, i1, h11, h12⟩ := view_fn6 ha
    by_cases hfb : ∃ x y, mb = .fn x y
    · obtain ⟨ip2, nl2, rfl⟩ := hfb
      obtain ⟨fid2, ps2, body2, rfl, e2, i2, h21, h22⟩ := view_fn6 hb
      have hnl1 : i1.nl = nl1 := by
        simp only [VR6] at ha; obtain ⟨i, q1, _, _, q4, _, q6, _⟩ := ha; rw [h11] at q1; injection q1 with q1; subst q1; exact q4
      have hnl2 : i2.nl = nl2 := by
        simp only [VR6] at hb; obtain ⟨i, q1, _, _, q4, _, q6, _⟩ := hb; rw [h21] at q1; injection q1 with q1; subst q1; exact q4
      have key : ((ip1, nl1) == (ip2, nl2)) = ((fid1, 0) == (fid2, 0)) := by
        by_cases hf : fid1 = fid2
        · subst hf
          rw [h11] at h21; injection h21 with h21; subst h21
          subst h12; subst h22; subst hnl1; subst hnl2
          rw [beq_self_eq_true, beq_self_eq_true]
        · have hip : ip1 ≠ ip2 := by
            intro e; apply hf; exact hinj fid1 fid2 i1 i2 h11 h21 (by rw [h12, h22, e])
          rw [Bool.eq_iff_iff, beq_iff_eq, beq_iff_eq]; simp [hf, hip]
      rw [e1, e2]
      cases op <;> simp [Heap.view, binopCore, View.ty, BinOp.isArith, BinOp.isOrder, key]
    · have hvb := view_eq6 hr hb (fun x y e => hfb ⟨x, y, e⟩)
      rw [hvb, e1]
      exact binopCore_fn_l op _ _ _ (view_not_fn6 hb (fun x y e => hfb ⟨x, y, e⟩))
  · have hva := view_eq6 hr ha (fun x y e => hfa ⟨x, y, e⟩)
    by_cases hfb : ∃ x y, mb = .fn x y
    · obtain ⟨ip2, nl2, rfl⟩ := hfb
      obtain ⟨fid2, ps2, body2, rfl, e2, _⟩ := view_fn6 hb
      rw [hva, e2]
      exact binopCore_fn_r op _ _ _ (view_not_fn6 ha (fun x y e => hfa ⟨x, y, e⟩))
    · rw [hva, view_eq6 hr hb (fun x y e => hfb ⟨x, y, e⟩)]

/-- the unary builtins see the same thing on both sides -/
theorem builtinCore_rel6 {W : World} {μ : AMap} {st : SState} {h : Heap} (hr : HR6 W μ st h) (b : Builtin)
    {a : SVal} {ma : Value} (ha : VR6 W μ st h a ma) : builtinCore b (h.view ma) = builtinCore b (st.view a) := by
  by_cases hfa : ∃ x y, ma = .fn x y
  · obtain ⟨ip1, nl1, rfl⟩ := hfa
    obtain ⟨fid1, ps1, body1, rfl, e1, _⟩ := view_fn6 ha
    rw [e1]
    cases b <;> rfl
  · rw [view_eq6 hr ha (fun x y e => hfa ⟨x, y, e⟩)]

/-! ### allocation -/

/-- a new box on the machine only (a float result) -/
theorem hr_machine_alloc6 {W : World} {μ : AMap} {st : SState} {h : Heap} (hr : HR6 W μ st h) (c : Cell) : HR6 W μ st (h.alloc c).1 := by
  have hg := SimH.grow_machine_alloc μ st h c
  refine ⟨hr.inj, fun a a' hm => ⟨(hr.dom a a' hm).1, by have := (hr.dom a a' hm).2; simp [Heap.alloc]; omega⟩, ?_, ?_⟩
  · intro a a' s hm hc
    rw [SimH.heap_push_get_old h c a' (hr.dom a a' hm).2]
    exact hr.str a a' s hm hc
  · intro a a' vs hm hc
    obtain ⟨mvs, h1, h2⟩ := hr.arr a a' vs hm hc
    exact ⟨mvs, by rw [SimH.heap_push_get_old h c a' (hr.dom a a' hm).2]; exact h1, h2.grow hg⟩

theorem grow_both_alloc6 {W : World} {μ : AMap} {st : SState} {h : Heap} (hr : HR6 W μ st h) (sc : SCell) (c : Cell) :
    Grow μ st h (μ.ext st.store.size h.cells.size) (st.alloc sc).1 (h.alloc c).1 := by
  refine ⟨?_, by simp [SState.alloc], ?_, by simp [Heap.alloc], ?_⟩
  · intro a a' hm
    have := (hr.dom a a' hm).1
    simp only [AMap.ext]
    rw [if_neg (by omega)]; exact hm
  · intro a ha
    simp [SState.alloc, Array.getElem?_push_lt ha, Array.getElem?_eq_getElem ha]
  · intro a x hx
    rw [SimH.heap_push_get_old h c a (SimH.heap_get_live_lt h a x hx)]; exact hx

theorem hr_both_alloc6 {W : World} {μ : AMap} {st : SState} {h : Heap} (hr : HR6 W μ st h) (sc : SCell) (c : Cell)
    (hnew : (∀ s, sc = .str s → c = .str s) ∧
      (∀ vs, sc = .arr vs → ∃ mvs, c = .arr mvs ∧ VRL6 W μ st h vs mvs)) :
    HR6 W (μ.ext st.store.size h.cells.size) (st.alloc sc).1 (h.alloc c).1 := by
  have hg := grow_both_alloc6 hr sc c
  have hstore : ∀ a, a < st.store.size → (st.alloc sc).1.store[a]? = st.store[a]? := by
    intro a ha; simp [SState.alloc, Array.getElem?_push_lt ha]
  have hnewcell : (st.alloc sc).1.store[st.store.size]? = some sc := by simp [SState.alloc]
  refine ⟨?_, ?_, ?_, ?_⟩
  · intro a b a' ha hb
    simp only [AMap.ext] at ha hb
    by_cases h1 : a = st.store.size
    · by_cases h2 : b = st.store.size
      · rw [h1, h2]
      · rw [if_pos h1] at ha; rw [if_neg h2] at hb
        injection ha with ha; subst ha
        have := (hr.dom b _ hb).2; omega
    · by_cases h2 : b = st.store.size
      · rw [if_neg h1] at ha; rw [if_pos h2] at hb
        injection hb with hb; subst hb
        have := (hr.dom a _ ha).2; omega
      · rw [if_neg h1] at ha; rw [if_neg h2] at hb
        exact hr.inj a b a' ha hb
  · intro a a' hm
    simp only [AMap.ext] at hm
    by_cases h1 : a = st.store.size
    · rw [if_pos h1] at hm; injection hm with hm; subst hm; subst h1
      simp [SState.alloc, Heap.alloc]
    · rw [if_neg h1] at hm
      have := hr.dom a a' hm
      simp [SState.alloc, Heap.alloc]; omega
  · intro a a' s hm hc
    simp only [AMap.ext] at hm
    by_cases h1 : a = st.store.size
    · rw [if_pos h1] at hm; injection hm with hm; subst hm; subst h1
      rw [hnewcell] at hc; injection hc with hc
      rw [SimH.heap_push_get_new]; exact hnew.1 s hc
    · rw [if_neg h1] at hm
      have hd := hr.dom a a' hm
      rw [hstore a hd.1] at hc
      rw [SimH.heap_push_get_old h c a' hd.2]
      exact hr.str a a' s hm hc
  · intro a a' vs hm hc
    simp only [AMap.ext] at hm
    by_cases h1 : a = st.store.size
    · rw [if_pos h1] at hm; injection hm with hm; subst hm; subst h1
      rw [hnewcell] at hc; injection hc with hc
      obtain ⟨mvs, h2, h3⟩ := hnew.2 vs hc
      exact ⟨mvs, by rw [SimH.heap_push_get_new]; exact h2, h3.grow hg⟩
    · rw [if_neg h1] at hm
      have hd := hr.dom a a' hm
      rw [hstore a hd.1] at hc
      obtain ⟨mvs, h2, h3⟩ := hr.arr a a' vs hm hc
      exact ⟨mvs, by rw [SimH.heap_push_get_old h c a' hd.2]; exact h2, h3.grow hg⟩

/-! ### mutation of a string / array cell -/

theorem grow_set6 {μ : AMap} {st : SState} {h : Heap} (a a' : Nat) (sc0 sc : SCell) (c : Cell)
    (h0 : st.store[a]? = some sc0) (hk : sameKind sc0 sc) (hnf : ∀ x, h.get a' ≠ .float x) :
    Grow μ st h μ { st with store := st.store.setIfInBounds a sc } (h.set a' c) := by
  refine ⟨fun _ _ x => x, by simp, ?_, by simp [Heap.set], ?_⟩
  · intro b hb
    by_cases hba : b = a
    · subst hba
      have hlt : b < st.store.size := hb
      simp only [Array.getElem?_setIfInBounds, hlt, ↓reduceIte, h0]
      cases sc0 <;> cases sc <;> simp [sameKind] at hk <;> simp [isStrCell, isArrCell]
    · simp [Array.getElem?_setIfInBounds, Ne.symm hba]
  · intro x y hx
    have : x ≠ a' := by intro e; subst e; exact hnf y hx
    rw [SimH.heap_set_get_other h a' x c this]; exact hx

theorem hr_set6 {W : World} {μ : AMap} {st : SState} {h : Heap} (hr : HR6 W μ st h) (a a' : Nat) (hm : μ a = some a') (sc0 sc : SCell) (c : Cell)
    (h0 : st.store[a]? = some sc0) (hk : sameKind sc0 sc) (hnf : ∀ x, h.get a' ≠ .float x)
    (hnew : (∀ s, sc = .str s → c = .str s) ∧ (∀ vs, sc = .arr vs → ∃ mvs, c = .arr mvs ∧ VRL6 W μ st h vs mvs)) :
    HR6 W μ { st with store := st.store.setIfInBounds a sc } (h.set a' c) := by
  have hg := grow_set6 (μ := μ) a a' sc0 sc c h0 hk hnf
  have hd := hr.dom a a' hm
  refine ⟨hr.inj, fun b b' hb => by have := hr.dom b b' hb; simpa [Heap.set] using this, ?_, ?_⟩
  · intro b b' s hb hc
    by_cases hba : b = a
    · subst hba
      rw [hm] at hb; injection hb with hb; subst hb
      simp only [Array.getElem?_setIfInBounds, hd.1, ↓reduceIte] at hc
      injection hc with hc
      rw [SimH.heap_set_get_same h _ c hd.2]; exact hnew.1 s hc
    · simp only [Array.getElem?_setIfInBounds, Ne.symm hba, ↓reduceIte] at hc
      have hne : b' ≠ a' := fun e => hba (hr.inj b a a' (e ▸ hb) hm)
      rw [SimH.heap_set_get_other h a' b' c hne]
      exact hr.str b b' s hb hc
  · intro b b' vs hb hc
    by_cases hba : b = a
    · subst hba
      rw [hm] at hb; injection hb with hb; subst hb
      simp only [Array.getElem?_setIfInBounds, hd.1, ↓reduceIte] at hc
      injection hc with hc
      obtain ⟨mvs, h2, h3⟩ := hnew.2 vs hc
      exact ⟨mvs, by rw [SimH.heap_set_get_same h _ c hd.2]; exact h2, h3.grow hg⟩
    · simp only [Array.getElem?_setIfInBounds, Ne.symm hba, ↓reduceIte] at hc
      have hne : b' ≠ a' := fun e => hba (hr.inj b a a' (e ▸ hb) hm)
      obtain ⟨mvs, h2, h3⟩ := hr.arr b b' vs hb hc
      exact ⟨mvs, by rw [SimH.heap_set_get_other h a' b' c hne]; exact h2, h3.grow hg⟩

/-- a step of the semantics that leaves the store alone -/
theorem HR6.store_eq {W : World} {μ : AMap} {st st' : SState} {h : Heap} (he : st'.store = st.store) (hr : HR6 W μ st h) : HR6 W μ st' h :=
  ⟨hr.inj, fun a a' hm => by rw [he]; exact hr.dom a a' hm, fun a a' s hm hc => hr.str a a' s hm (by rw [← he]; exact hc),
   fun a a' vs hm hc => by
     obtain ⟨mvs, h1, h2⟩ := hr.arr a a' vs hm (by rw [← he]; exact hc)
     exact ⟨mvs, h1, h2.grow (SimH.grow_store_eq he)⟩⟩

/-! ### deep views -/

theorem map_tree_rel6 {W : World} {μ : AMap} {st : SState} {h : Heap} (F : SVal → Tree) (G : Value → Tree)
    (hFG : ∀ v mv, VR6 W μ st h v mv → F v = G mv) : ∀ (vs : List SVal) (ms : List Value), VRL6 W μ st h vs ms → vs.map F = ms.map G
  | [], [], _ => rfl
  | v :: vs, m :: ms, hv => by simp [hFG v m hv.1, map_tree_rel6 F G hFG vs ms hv.2]
  | [], _ :: _, hv => hv.elim
  | _ :: _, [], hv => hv.elim

/-- related values have the same deep view (what `print` shows), cycles and function values included -/
theorem tree_rel6 {W : World} {μ : AMap} {st : SState} {h : Heap} (hr : HR6 W μ st h) : ∀ (f : Nat) (ps qs : List Nat) (v : SVal) (mv : Value),
    SimH.PathRel μ ps qs → VR6 W μ st h v mv → st.tree f ps v = h.tree f qs mv
  | 0, _, _, _, _, _, _ => rfl
  | f + 1, ps, qs, v, mv, hp, hv => by
    cases v <;> cases mv <;> simp only [VR6] at hv <;> try exact absurd hv id
    · rfl
    · subst hv; rfl
    · subst hv; rfl
    · simp [SState.tree, Heap.tree, Heap.floatAt, hv]
    · rename_i a a'
      have := view_eq6 hr (v := .str a) (mv := .str a') hv (by simp)
      simp only [Heap.view, SState.view, View.str.injEq] at this
      simp [SState.tree, Heap.tree, this]
    · rename_i a a'
      obtain ⟨hm, hk⟩ := hv
      simp only [SState.tree, Heap.tree]
      rw [SimH.idxOf_rel hr.inj ps qs hp a a' hm]
      cases hi : qs.idxOf? a' with
      | some k => rfl
      | none =>
        simp only
        cases hc : st.store[a]? with
        | none => rw [hc] at hk; cases hk
        | some c =>
          cases c with
          | str s => rw [hc] at hk; cases hk
          | arr vs =>
            obtain ⟨mvs, hg, hl⟩ := hr.arr a a' vs hm hc
            have e1 : st.arrAt a = vs := by simp [SState.arrAt, hc]
            have e2 : h.arrAt a' = mvs := by simp [Heap.arrAt, hg]
            rw [e1, e2]
            congr 1
            exact map_tree_rel6 _ _ (fun v mv hvm => tree_rel6 hr f (a :: ps) (a' :: qs) v mv ⟨hm, hp⟩ hvm) vs mvs hl
    · rfl

theorem trees_rel6 {W : World} {μ : AMap} {st : SState} {h : Heap} (hr : HR6 W μ st h) (f : Nat) (vs : List SVal) (ms : List Value)
    (hl : VRL6 W μ st h vs ms) : vs.map (st.tree f []) = ms.map (h.tree f []) :=
  map_tree_rel6 _ _ (fun v mv hvm => tree_rel6 hr f [] [] v mv trivial hvm) vs ms hl

end Sim6
end Nl
