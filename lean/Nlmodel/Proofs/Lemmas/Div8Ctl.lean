/- Stage 8, divergence preservation: `als`, the loop (every iteration pays with the machine steps of the previous one),
   the call (the `Call` instruction pays for the body's evaluation), and all expressions assembled. -/
import Nlmodel.Proofs.Lemmas.Div8Expr
namespace Nl
namespace Sim8
open Spec Sim Sim6 Sim7
open SimH (AMap isStrCell isArrCell Grow PoolH MemOK sameKind LitF)
open SimF (FT FnInfo FTInj paramScope paramScopeFrom bigScope)

section ctl
variable {W : World} {K : Nat} {Δ : Gam} {nl : Nat} {fn : Bool} {Γ Γx Λ Γ1 Λ1 Γ2 Λ2 : Gam} {ab : Bool} {lp : LoopCtx} {cs : List Const}
  {below : Array Value} {fr : List Frame} {c : Cfg}

theorem de8_if (f : Nat) (ih : PAll8 W f) (ihd : DAll8 W K f) (cnd : RExpr) (t : RBlock) (e : ROptBlock) (Γt Λt : Gam)
    (hc : Z8E Δ nl fn Γ Λ ab cnd Γ1 Λ1) (ht : Z8B Δ nl fn Γ1 Λ1 ab t Γt Λt) (he : Z8O Δ nl fn Γ1 Λ1 ab e) (hsc : Sc7 W Δ fn Γ Γx Λ)
    (hinv : Inv6 W (bigScope fn Γ Γx) Λ nl c) (hwt : TI.WT (c.vm W below fr))
    (hcode : CodeAt W.C c.ip (emitE (.ifE cnd t e) c.ip lp cs).1) (hext : Ext (emitE (.ifE cnd t e) c.ip lp cs).2 W.CS) (hft : FtE W.ft Δ (.ifE cnd t e) c.ip lp cs)
    (hfuel : evalE (f + 1) (.ifE cnd t e) c.st = .fuel) :
    DivG W.C (c.vm W below fr) (hb K (f + 1) (dE (.ifE cnd t e))) := by
  simp only [emitE] at hcode hext
  obtain ⟨hc1234, hce⟩ := hcode.append
  obtain ⟨hc123, hcj⟩ := hc1234.append
  obtain ⟨hc12, hct⟩ := hc123.append
  obtain ⟨hcc, hcjif⟩ := hc12.append
  have hcjif := hcjif.cast (b := c.ip + sizeE cnd) (by simp [emitE_size])
  have hct := hct.cast (b := c.ip + sizeE cnd + 3) (by simp [emitE_size, Instr.size]; omega)
  have hce := hce.cast (b := c.ip + sizeE cnd + 3 + sizeBV t + 3) (by simp [emitE_size, Instr.size, codeSize_asValue]; omega)
  have hextt : Ext (emitB t (c.ip + sizeE cnd + 3) lp (emitE cnd c.ip lp cs).2).2 W.CS := (emitO_ext e _ _ _).trans hext
  have hextc : Ext (emitE cnd c.ip lp cs).2 W.CS := (emitB_ext t _ _ _).trans hextt
  have hdc : dE cnd + 1 ≤ dE (.ifE cnd t e) := by simp only [dE]; omega
  have hdt : dB t + 1 ≤ dE (.ifE cnd t e) := by simp only [dE]; omega
  have hde : dO e + 1 ≤ dE (.ifE cnd t e) := by simp only [dE]; omega
  rw [evalE_if] at hfuel
  refine DivG.bind hfuel (ih.e nl fn Γ Γx Λ ab cnd Γ1 Λ1 hc c lp cs below fr hsc hinv hwt hcc hextc hft.ifE.1) ?_ ?_
  · intro hf
    exact (ihd.e nl fn Γ Γx Λ ab cnd Γ1 Λ1 hc c lp cs below fr hsc hinv hwt hcc hextc hft.ifE.1 hf).mono (hb_child hdc)
  rintro v st1 - ⟨mv, μ1, m1, hmv, locs1, g1, l1, out1, n, hn, hinv1, hk1⟩ hk
  have hsc1 := (sc7_ext hsc (z8e_ext cnd hc)).1
  cases v with
  | bool bb =>
    rw [VR6.bool_iff] at hmv; subst hmv
    have hj := execN_step W.C n _ _ _ hn (step6_jif hcjif)
    have hwt1 := wt_execN (n + 1) _ _ hwt hj
    cases bb with
    | true =>
      simp only [↓reduceIte] at hj hwt1
      simp only [specIf] at hk
      exact DivG.after hj ((ihd.bv nl fn Γ1 Γx Λ1 ab t Γt Λt ht ⟨μ1, st1, c.ip + sizeE cnd + 3, locs1, c.ops, g1, l1, m1, out1⟩ lp _ below fr hsc1
        (hinv1.reip _ _) hwt1 hct hextt hft.ifE.2.1 hk).mono (hb_child hdt))
    | false =>
      simp only [Bool.false_eq_true, ↓reduceIte] at hj hwt1
      cases he with
      | none _ _ _ => simp [specIf] at hk
      | some _ _ _ b Γ2 Λ2 hb =>
        simp only [emitO] at hce hext
        simp only [specIf] at hk
        simp only [dO] at hde
        exact DivG.after hj ((ihd.bv nl fn Γ1 Γx Λ1 ab b Γ2 Λ2 hb ⟨μ1, st1, c.ip + sizeE cnd + 3 + sizeBV t + 3, locs1, c.ops, g1, l1, m1, out1⟩ lp _
          below fr hsc1 (hinv1.reip _ _) hwt1 hce hext hft.ifE.2.2.some hk).mono (hb_child hde))
  | _ => simp [specIf] at hk

theorem dl8_succ (f : Nat) (ih : PAll8 W f) (ihd : DAll8 W K f) : DL8 W K (f + 1) := by
  intro Δ nl fn Γ Γx Λ cnd b Γ1 Λ1 Γt Λt hc hb c pos lp cs below fr base acc accv hip hops hacc hsc hinv hwt hcode hext hft hfuel
  obtain ⟨hsc1, ⟨d, hd⟩, ⟨e, he⟩⟩ := sc7_ext hsc (z8e_ext cnd hc)
  have hwk : ∀ c', Inv6 W (bigScope fn Γ1 Γx) Λ1 nl c' → Inv6 W (bigScope fn Γ Γx) Λ nl c' := fun c' h => by
    rw [hd, he] at h; exact h.weaken d e
  obtain ⟨μ, st, ip, locs, ops, g, l, m, out⟩ := c
  simp only at hip hops hacc hfuel
  subst hip; subst hops
  obtain ⟨_, hcc, hjif, hcb, hjmp, hsz⟩ := while_layout cnd b hcode
  have hext0 := hext
  simp only [emitE] at hext; have hft0 := hft; have hft := hft.whileE
  generalize hlp : (some (pos + 1, pos + 1 + sizeE cnd + 4 + sizeBV b + 3) : LoopCtx) = lp' at hcc hcb hext hft
  have hextc : Ext (emitE cnd (pos + 1) lp' cs).2 W.CS := (emitB_ext b _ _ _).trans hext
  have ihc := ih.e nl fn Γ Γx Λ false cnd Γ1 Λ1 hc ⟨μ, st, pos + 1, locs, base.push accv, g, l, m, out⟩ lp' cs below fr hsc hinv hwt hcc hextc hft.1
  have hdc : dE cnd + 1 ≤ max (dE cnd) (dB b) + 1 := by omega
  have hdb : dB b + 1 ≤ max (dE cnd) (dB b) + 1 := by omega
  simp only [evalLoop] at hfuel
  rcases ihc with ihc | ihc
  · exact .inl ihc
  cases hrc : evalE f cnd st with
  | val v st1 =>
    rw [hrc] at ihc hfuel
    obtain ⟨mv, μ1, m1, hmv, locs1, g1, l1, out1, n, hn, hinv1, hk1⟩ := ihc
    have hacc1 : VR6 W μ1 st1 m1.heap acc accv := hk1 acc accv (fixedOf_push_mem below base accv) hacc
    cases v with
    | bool bb =>
      rw [VR6.bool_iff] at hmv; subst hmv
      have hj := execN_step W.C n _ _ _ hn (step6_jif hjif)
      cases bb with
      | false => simp at hfuel
      | true =>
        simp only [↓reduceIte] at hj
        have hp := execN_step W.C (n + 1) _ _ _ hj (step6_pop (by simpa [Instr.size] using hjif.tail))
        have hp : execN W.C (n + 1 + 1) (mk6 W.s0 (pos + 1) below locs (base.push accv) g l fr m out) =
            some (mk6 W.s0 (pos + 1 + sizeE cnd + 4) below locs1 base g1 accv fr m1 out1) := hp
        have hwt2 := wt_execN (n + 1 + 1) _ _ hwt hp
        have hinv1' := inv6_setLast hinv1 acc accv hacc1 (pos + 1 + sizeE cnd + 4) base
        have ihb := ih.bv nl fn Γ1 Γx Λ1 true b Γt Λt hb ⟨μ1, { st1 with last := acc }, pos + 1 + sizeE cnd + 4, locs1, base, g1, accv, m1, out1⟩ lp' _
          below fr hsc1 hinv1' hwt2 hcb hext hft.2
        simp only at hfuel
        rcases ihb with ihb | ihb
        · exact .inl (SimF.Ovf.after (n + 1 + 1) hp ihb)
        cases hrb : evalBV f b { st1 with last := acc } with
        | val w st2 =>
          rw [hrb] at ihb hfuel
          simp only at hfuel
          obtain ⟨mw, μ2, m2, hmw, locs2, g2, l2, out2, n2, hn2, hinv2, hk3⟩ := ihb
          have hjm := execN_step W.C n2 _ _ _ hn2 (step6_jump hjmp)
          have hwt3 := wt_execN (n2 + 1) _ _ hwt2 hjm
          have ihl := ihd.l nl fn Γ Γx Λ cnd b Γ1 Λ1 Γt Λt hc hb ⟨μ2, st2, pos + 1, locs2, base.push mw, g2, l2, m2, out2⟩ pos lp cs below fr base
            w mw rfl rfl hmw hsc (hwk _ (hinv2.reip _ _)) hwt3 hcode hext0 hft0 hfuel
          exact DivG.after hp ((DivG.after_succ hjm ihl).mono hb_loop)
        | brk st2 => rw [hrb] at hfuel; simp at hfuel
        | cont st2 =>
          rw [hrb] at ihb hfuel
          simp only at hfuel
          obtain ⟨_, μ2, m2, locs2, g2, l2, out2, n2, hn2, hinv2, hk3⟩ := ihb
          have hn2' : execN W.C n2 (mk6 W.s0 (pos + 1 + sizeE cnd + 4) below locs1 base g1 accv fr m1 out1) =
              some (mk6 W.s0 (pos + 1) below locs2 (base.push .null) g2 l2 fr m2 out2) := by
            refine hn2.trans ?_
            rw [← hlp]; rfl
          have hwt3 := wt_execN n2 _ _ hwt2 hn2'
          have ihl := ihd.l nl fn Γ Γx Λ cnd b Γ1 Λ1 Γt Λt hc hb ⟨μ2, st2, pos + 1, locs2, base.push .null, g2, l2, m2, out2⟩ pos lp cs below fr base
            .null .null rfl rfl trivial hsc (hwk _ (hinv2.reip _ _)) hwt3 hcode hext0 hft0 hfuel
          -- the steps `JumpIfFalse`, `Pop` of this iteration pay
          exact (DivG.after_succ hp (DivG.after hn2' ihl)).mono hb_loop
        | err er st2 => rw [hrb] at hfuel; simp at hfuel
        | ret v st2 => rw [hrb] at hfuel; simp at hfuel
        | fuel =>
          exact DivG.after hp ((ihd.bv nl fn Γ1 Γx Λ1 true b Γt Λt hb ⟨μ1, { st1 with last := acc }, pos + 1 + sizeE cnd + 4, locs1, base, g1, accv, m1, out1⟩
            lp' _ below fr hsc1 hinv1' hwt2 hcb hext hft.2 hrb).mono (hb_child hdb))
        | unspec _ => rw [hrb] at hfuel; simp at hfuel
    | _ => simp at hfuel
  | err er st1 => rw [hrc] at hfuel; simp at hfuel
  | fuel =>
    exact (ihd.e nl fn Γ Γx Λ false cnd Γ1 Λ1 hc ⟨μ, st, pos + 1, locs, base.push accv, g, l, m, out⟩ lp' cs below fr hsc hinv hwt hcc hextc hft.1 hrc).mono
      (hb_child hdc)
  | unspec _ => rw [hrc] at hfuel; simp at hfuel
  | brk _ => rw [hrc] at ihc; exact absurd ihc.1 (by simp)
  | cont _ => rw [hrc] at ihc; exact absurd ihc.1 (by simp)
  | ret v st1 => rw [hrc] at hfuel; simp at hfuel

theorem de8_call (hW : WOK8 W) (hK : KB W K) (f : Nat) (ih : PAll8 W f) (ihd : DAll8 W K f)
    (fe : RExpr) (as : RExprs) (has : Z8Es Δ nl fn Γ Λ as Γ1 Λ1) (hfe : Z8E Δ nl fn Γ1 Λ1 false fe Γ2 Λ2) (hsc : Sc7 W Δ fn Γ Γx Λ)
    (hinv : Inv6 W (bigScope fn Γ Γx) Λ nl c) (hwt : TI.WT (c.vm W below fr))
    (hcode : CodeAt W.C c.ip (emitE (.call fe as) c.ip lp cs).1) (hext : Ext (emitE (.call fe as) c.ip lp cs).2 W.CS) (hft : FtE W.ft Δ (.call fe as) c.ip lp cs)
    (hfuel : evalE (f + 1) (.call fe as) c.st = .fuel) :
    DivG W.C (c.vm W below fr) (hb K (f + 1) (dE (.call fe as))) := by
  simp only [emitE] at hcode hext
  obtain ⟨hc12, hc3⟩ := hcode.append
  obtain ⟨hc1, hc2⟩ := hc12.append
  rw [emitEs_size] at hc2
  have hc3 := hc3.cast (b := c.ip + sizeEs as + sizeE fe) (by simp [emitEs_size, emitE_size]; omega)
  have hext1 : Ext (emitEs as c.ip lp cs).2 W.CS := (emitE_ext fe _ _ _).trans hext
  have hdas : dEs as + 1 ≤ dE (.call fe as) := by simp only [dE]; omega
  have hdfe : dE fe + 1 ≤ dE (.call fe as) := by simp only [dE]; omega
  rw [evalE_call] at hfuel
  have hsc1 := (sc7_ext hsc (z8es_ext as has)).1
  have hsc2 := (sc7_ext hsc1 (z8e_ext fe hfe)).1
  refine DivG.bind hfuel (ih.es nl fn Γ Γx Λ as Γ1 Λ1 has c lp cs below fr hsc hinv hwt hc1 hext1 hft.call.1) ?_ ?_
  · intro hf
    exact (ihd.es nl fn Γ Γx Λ as Γ1 Λ1 has c lp cs below fr hsc hinv hwt hc1 hext1 hft.call.1 hf).mono (hb_child hdas)
  rintro xs st1 hr1 ⟨ms, μ1, m1, hms, locs1, g1, l1, out1, n1, hn1, hinv1, hk1⟩ hfuel2
  have hwt1 := wt_execN n1 _ _ hwt hn1
  have hlen : ms.length = as.length := by rw [← hms.length, SimF.evalEs_length f as c.st xs st1 hr1]
  have hxl : xs.length = as.length := SimF.evalEs_length f as c.st xs st1 hr1
  refine DivG.after hn1 ?_
  refine DivG.bind (c := ⟨μ1, st1, c.ip + sizeEs as, locs1, c.ops ++ ms.toArray, g1, l1, m1, out1⟩) hfuel2
    (ih.e nl fn Γ1 Γx Λ1 false fe Γ2 Λ2 hfe ⟨μ1, st1, c.ip + sizeEs as, locs1, c.ops ++ ms.toArray, g1, l1, m1, out1⟩ lp _ below fr
      hsc1 hinv1 hwt1 hc2 hext hft.call.2) ?_ ?_
  · intro hf
    exact (ihd.e nl fn Γ1 Γx Λ1 false fe Γ2 Λ2 hfe ⟨μ1, st1, c.ip + sizeEs as, locs1, c.ops ++ ms.toArray, g1, l1, m1, out1⟩ lp _ below fr
      hsc1 hinv1 hwt1 hc2 hext hft.call.2 hf).mono (hb_child hdfe)
  rintro fv st2 - ⟨mf, μ2, m2, hmf, locs2, g2, l2, out2, n2, hn2, hinv2, hk2⟩ hfuel3
  have hms2 : VRL6 W μ2 st2 m2.heap xs ms := hms.imp (fun v mv hm hv => hk2 v mv (by
    simp only [fixedOf, List.mem_append, Array.toList_append]; exact .inr (.inr hm)) hv)
  cases fv with
  | fn fid ps nlc body =>
    cases mf <;> simp only [VR6] at hmf <;> try exact absurd hmf id
    rename_i fip nlc'
    obtain ⟨info, hfti, hip, hps, hnl, hbody, hnl', hΓg⟩ := hmf
    subst hnl'
    obtain ⟨hgt, hfb⟩ := specCall_fuel hfuel3
    obtain ⟨_, hstep_le⟩ := step6_call (s0 := W.s0) (below := below) (locs := locs2) (ops := c.ops) (g := g2) (l := l2) (fr := fr)
      (m := m2) (out := out2) (fip := fip) (nlc := nlc') (ms := ms) hc3 hlen
    rcases hstep_le (by omega) with hlim | hnext
    · exact .inl ⟨n2, _, hn2, hlim⟩
    obtain ⟨hfcode, hfext, ⟨Γb, Λb, hyb⟩, hpok, hpsz, hfft⟩ := hW.fns fid info hfti
    have hKb := hK fid info hfti
    subst hip; subst hps; subst hnl; subst hbody
    have hn3 := execN_step W.C n2 _ _ _ hn2 hnext
    have hwtc := wt_execN (n2 + 1) _ _ hwt1 hn3
    have hscf : Sc7 W info.Γg true info.Γg (bigScope fn Γ2 Γx) (paramScope info.ps) :=
      ⟨hsc2.okb, hpok, fun p hp => hsc2.psub p (hΓg p hp), hsc2.psub, hΓg⟩
    have hinvf := call_enter hinv2 info xs ms as.length hms2 hlen (by omega) hpok hpsz info.ip
    have hbf := ihd.bf info.nl info.Γg (bigScope fn Γ2 Γx) (paramScope info.ps) info.body Γb Λb hyb
      ⟨μ2, { st2 with lenv := bindParams info.ps xs }, info.ip, ms.toArray ++ Array.replicate (info.nl - as.length) Value.null, #[], g2, l2, m2, out2⟩
      info.cs (below ++ locs2 ++ c.ops) ({ ip := c.ip + sizeEs as + sizeE fe + 2, bp := below.size } :: fr) rfl hscf hinvf hwtc hfcode hfext hfft hfb
    -- the `Call` instruction pays for the body's evaluation
    exact (DivG.after_succ hn3 hbf).mono (hb_call hKb (dE_pos _))
  | _ => simp [specCall] at hfuel3

theorem de8_succ (hW : WOK8 W) (hK : KB W K) (f : Nat) (ih : PAll8 W f) (ihd : DAll8 W K f) : DE8 W K (f + 1) := by
  intro Δ nl fn Γ Γx Λ ab e Γ' Λ' hx c lp cs below fr hsc hinv hwt hcode hext hft hfuel
  cases hx with
  | int _ _ _ v => simp [evalE] at hfuel
  | bool _ _ _ b => simp [evalE] at hfuel
  | float _ _ _ x hx => simp [evalE] at hfuel
  | str _ _ _ s => simp [evalE] at hfuel
  | varG _ _ _ b k hm => simp only [evalE] at hfuel; split at hfuel <;> cases hfuel
  | varL _ _ _ b k hm _ => simp only [evalE] at hfuel; split at hfuel <;> cases hfuel
  | not _ _ _ e1 _ _ h1 =>
    simp only [emitE] at hcode hext
    rw [evalE_not] at hfuel
    exact de8_unary f ihd.e e1 h1 hsc hinv hwt (by simp only [dE]; omega) specNot_not_fuel hcode.append.1 hext hft.not hfuel
  | neg _ _ _ e1 _ _ h1 =>
    simp only [emitE] at hcode hext
    rw [evalE_neg] at hfuel
    exact de8_unary f ihd.e e1 h1 hsc hinv hwt (by simp only [dE]; omega) specNeg_not_fuel hcode.append.1 hext hft.neg hfuel
  | assignG _ _ _ b k e1 _ _ hm h1 =>
    simp only [emitE, getVar, setVar] at hcode hext
    rw [evalE_assign] at hfuel
    exact de8_unary f ihd.e e1 h1 hsc hinv hwt (by simp only [dE]; omega) (fun _ _ h => by cases h) hcode.append.1 hext hft.assignVar hfuel
  | assignL _ _ _ b k e1 _ _ hm hk h1 =>
    simp only [emitE, getVar, setVar] at hcode hext
    rw [evalE_assign] at hfuel
    exact de8_unary f ihd.e e1 h1 hsc hinv hwt (by simp only [dE]; omega) (fun _ _ h => by cases h) hcode.append.1 hext hft.assignVar hfuel
  | bin _ _ _ el op er _ _ _ _ hnf hl hr =>
    simp only [emitE, hnf] at hcode hext
    obtain ⟨hc12, hc3⟩ := hcode.append
    obtain ⟨hc1, hc2⟩ := hc12.append
    rw [emitE_size] at hc2
    rw [evalE_infix] at hfuel
    exact de8_binary f ih.e ihd.e el er hl hr hsc hinv hwt (by simp only [dE]; omega) (specBin_not_fuel op) hc1
      ((emitE_ext er _ _ _).trans hext) (hft.infix hnf).1 hc2 hext (hft.infix hnf).2 hfuel
  | fusedL _ _ _ b k op v hm _ hfc =>
    cases f with
    | zero => rw [hb_lt (by simp only [dE]; omega)]; exact DivG.zero _ _
    | succ f =>
      rw [evalE_infix] at hfuel
      simp only [evalE, bindR] at hfuel
      cases hl : c.st.lookup ⟨b, .loc k⟩ with
      | none => simp [hl] at hfuel
      | some a => simp only [hl] at hfuel; exact absurd hfuel (specBin_not_fuel _ _ _ _)
  | fusedR _ _ _ b k op op' v hm _ hmir =>
    cases f with
    | zero => rw [hb_lt (by simp only [dE]; omega)]; exact DivG.zero _ _
    | succ f =>
      rw [evalE_infix] at hfuel
      simp only [evalE, bindR] at hfuel
      cases hl : c.st.lookup ⟨b, .loc k⟩ with
      | none => simp [hl] at hfuel
      | some a => simp only [hl] at hfuel; exact absurd hfuel (specBin_not_fuel _ _ _ _)
  | arr _ _ _ vs _ _ hvs =>
    simp only [emitE] at hcode hext
    rw [evalE_arr] at hfuel
    exact de8_list f ihd.es vs hvs hsc hinv hwt (by simp only [dE]; omega) (fun _ _ h => by cases h) hcode.append.1 hext hft.arr hfuel
  | index _ _ _ el ei _ _ _ _ hl hi =>
    simp only [emitE] at hcode hext
    obtain ⟨hc12, hc3⟩ := hcode.append
    obtain ⟨hc1, hc2⟩ := hc12.append
    rw [emitE_size] at hc2
    rw [evalE_index] at hfuel
    exact de8_binary f ih.e ihd.e el ei hl hi hsc hinv hwt (by simp only [dE]; omega) specIndexGet_not_fuel hc1
      ((emitE_ext ei _ _ _).trans hext) hft.index.1 hc2 hext hft.index.2 hfuel
  | assignIndex _ _ _ el ei ev _ _ _ _ _ _ hl hi hv => exact de8_assignIndex f ih.e ihd.e el ei ev hl hi hv hsc hinv hwt hcode hext hft hfuel
  | builtin _ _ _ b as _ _ has =>
    simp only [emitE] at hcode hext
    rw [evalE_builtin] at hfuel
    exact de8_list f ihd.es as has hsc hinv hwt (by simp only [dE]; omega) (specBuiltin_not_fuel b) hcode.append.1 hext hft.builtin hfuel
  | ifE _ _ _ cnd t e _ _ Γt Λt hc ht he => exact de8_if f ih ihd cnd t e Γt Λt hc ht he hsc hinv hwt hcode hext hft hfuel
  | whileE _ _ _ cnd b _ _ Γt Λt hc hb =>
    obtain ⟨hnull, _⟩ := while_layout cnd b hcode
    have h1 := execN_one W.C _ _ (step6_null (s0 := W.s0) (below := below) (locs := c.locs) (ops := c.ops) (g := c.g) (l := c.l) (fr := fr)
      (m := c.m) (out := c.out) hnull)
    have hwt1 := wt_execN 1 _ _ hwt h1
    simp only [evalE] at hfuel
    have ihl := ihd.l nl fn Γ Γx Λ cnd b _ _ Γt Λt hc hb ⟨c.μ, c.st, c.ip + 1, c.locs, c.ops.push .null, c.g, c.l, c.m, c.out⟩ c.ip lp cs below fr c.ops
      .null .null rfl rfl trivial hsc (hinv.reip _ _) hwt1 hcode hext hft hfuel
    exact DivG.after h1 (ihl.mono (hb_child (by simp only [dE]; omega)))
  | call _ _ _ fe as _ _ _ _ has hfe => exact de8_call hW hK f ih ihd fe as has hfe hsc hinv hwt hcode hext hft hfuel
  | func _ _ _ fid ps nlf body Γb Λb hb hpok hpsz => simp [evalE] at hfuel
  | funcG _ _ _ fid b k ps nlf body Γb Λb hfn hf hb hpok hpsz => simp [evalE] at hfuel
  | funcL _ _ _ fid b k ps nlf body Γb Λb hfn hf hk hb hpok hpsz => simp [evalE] at hfuel

end ctl
end Sim8
end Nl
