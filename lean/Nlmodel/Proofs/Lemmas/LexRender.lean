/- C08: tokenizing a rendered token list gives the token list back (all separator choices). -/
import Nlmodel.Proofs.Lemmas.LexTok
namespace Nl
namespace LR

variable {cc : CharClass}

theorem identStart_not_punct (h : CCWF cc) (c : Char) (hc : c ∈ punctChars) : identStart cc c = false := by
  have hal := not_alpha_of_not_alnum h c (h.punct_not c hc)
  have : c ≠ '_' := by
    simp only [punctChars, List.mem_cons, List.not_mem_nil, or_false] at hc
    rcases hc with e | e | e | e | e | e | e | e | e | e | e | e | e | e | e | e | e | e | e | e | e | e | e <;> subst e <;> decide
  simp [identStart, hal, this]

theorem identCont_not_punct (h : CCWF cc) (c : Char) (hc : c ∈ punctChars) : identCont cc c = false := by
  have : c ≠ '_' := by
    simp only [punctChars, List.mem_cons, List.not_mem_nil, or_false] at hc
    rcases hc with e | e | e | e | e | e | e | e | e | e | e | e | e | e | e | e | e | e | e | e | e | e | e <;> subst e <;> decide
  simp [identCont, h.punct_not c hc, this]

/-- the first character of a well-formed token's spelling, by class -/
theorem head_class (h : CCWF cc) (t : Token) (hw : WFTok cc t) : ∃ c r, t.text = c :: r ∧
    ((t.isWord = true ∧ identStart cc c = true) ∨ (t.isNum = true ∧ isDigit c = true) ∨
     (t.isWord = false ∧ t.isNum = false ∧ c ∈ punctChars ∧ (c = '.' → t = .dot) ∧ (c = '=' → t = .assign ∨ t = .eq) ∧ (c = '/' → t = .slash))) := by
  have alpha : ∀ c : Char, c.isAlpha = true → identStart cc c = true := fun c hc => by simp [identStart, h.ascii_alpha c hc]
  cases t with
  | ident s => obtain ⟨⟨c, cs, rfl, h1, _⟩, _⟩ := hw; exact ⟨c, cs, rfl, .inl ⟨rfl, h1⟩⟩
  | int s => obtain ⟨c, cs, rfl, h1, _⟩ := hw; exact ⟨c, cs, rfl, .inr (.inl ⟨rfl, h1⟩)⟩
  | float s => obtain ⟨c, a, b, rfl, h1, _, _⟩ := hw; exact ⟨c, _, rfl, .inr (.inl ⟨rfl, h1⟩)⟩
  | str s => exact ⟨'"', _, rfl, .inr (.inr ⟨rfl, rfl, by decide, fun e => absurd e (by decide), fun e => absurd e (by decide), fun e => absurd e (by decide)⟩)⟩
  | illegal => exact hw.elim
  | eof => exact hw.elim
  | kwIf => exact ⟨_, _, rfl, .inl ⟨rfl, alpha _ (by decide)⟩⟩
  | kwElse => exact ⟨_, _, rfl, .inl ⟨rfl, alpha _ (by decide)⟩⟩
  | kwReturn => exact ⟨_, _, rfl, .inl ⟨rfl, alpha _ (by decide)⟩⟩
  | kwFunc => exact ⟨_, _, rfl, .inl ⟨rfl, alpha _ (by decide)⟩⟩
  | kwWhile => exact ⟨_, _, rfl, .inl ⟨rfl, alpha _ (by decide)⟩⟩
  | kwDeclare => exact ⟨_, _, rfl, .inl ⟨rfl, alpha _ (by decide)⟩⟩
  | kwTrue => exact ⟨_, _, rfl, .inl ⟨rfl, alpha _ (by decide)⟩⟩
  | kwFalse => exact ⟨_, _, rfl, .inl ⟨rfl, alpha _ (by decide)⟩⟩
  | kwBreak => exact ⟨_, _, rfl, .inl ⟨rfl, alpha _ (by decide)⟩⟩
  | kwContinue => exact ⟨_, _, rfl, .inl ⟨rfl, alpha _ (by decide)⟩⟩
  | _ => exact ⟨_, _, rfl, .inr (.inr ⟨rfl, rfl, by decide, by decide, by decide, by decide⟩)⟩

theorem noClash_ws (h : CCWF cc) (p : Token) (c : Char) (hw : isWs c = true) : NoClash cc p (some c) := by
  have hal := h.ws_not c hw
  have hcases : c.val = 0x09 ∨ c.val = 0x0A ∨ c.val = 0x0B ∨ c.val = 0x0C ∨ c.val = 0x0D ∨ c.val = 0x20
      ∨ c.val = 0x85 ∨ c.val = 0x200E ∨ c.val = 0x200F ∨ c.val = 0x2028 ∨ c.val = 0x2029 := by
    simpa [isWs, or_assoc] using hw
  have hne : ∀ (d : Char), (d.val ≠ 0x09 ∧ d.val ≠ 0x0A ∧ d.val ≠ 0x0B ∧ d.val ≠ 0x0C ∧ d.val ≠ 0x0D ∧ d.val ≠ 0x20
      ∧ d.val ≠ 0x85 ∧ d.val ≠ 0x200E ∧ d.val ≠ 0x200F ∧ d.val ≠ 0x2028 ∧ d.val ≠ 0x2029) → c ≠ d := by
    intro d hd e; subst e
    rcases hcases with h | h | h | h | h | h | h | h | h | h | h <;> simp [h] at hd
  obtain ⟨_, h2, _⟩ := ws_facts h c hw
  refine ⟨fun _ => ?_, fun _ => h2, fun _ => hne '.' (by decide), fun _ => hne '=' (by decide), fun _ => hne '/' (by decide)⟩
  simp [identCont, hal, hne '_' (by decide)]

theorem noClash_slashChar (h : CCWF cc) (p : Token) (hp : p ≠ .slash) : NoClash cc p (some '/') :=
  ⟨fun _ => identCont_not_punct h '/' (by decide), fun _ => by decide, fun _ => by decide, fun _ => by decide, fun e => absurd e hp⟩

/-- where no separator is required, the next token's first character does not extend the previous token -/
theorem noClash_text (h : CCWF cc) (p t : Token) (hw : WFTok cc t) (hns : needsSep p t = false) (c : Char) (r : Text)
    (ht : t.text = c :: r) : NoClash cc p (some c) := by
  obtain ⟨c', r', ht', hcl⟩ := head_class h t hw
  rw [ht] at ht'
  injection ht' with e1 e2
  subst e1
  simp only [needsSep, Bool.or_eq_false_iff, Bool.and_eq_false_iff] at hns
  obtain ⟨⟨⟨⟨hn1, hn2⟩, hn3⟩, hn4⟩, hn5⟩ := hns
  rcases hcl with ⟨hw1, hs⟩ | ⟨hn, hd⟩ | ⟨hw0, hn0, hpc, hdot, heq, hsl⟩
  · -- `t` is a word: `p` is not a word
    have hpw : p.isWord = false := by
      rcases hn1 with h1 | h1
      · exact h1
      · simp [hw1] at h1
    have hnd : isDigit c = false := by
      cases hd : isDigit c with
      | false => rfl
      | true =>
        have h1 := h.digit_not_alpha c hd
        have h2 : c ≠ '_' := by intro e; subst e; revert hd; decide
        simp [identStart, h1, h2] at hs
    have hnp : ∀ x ∈ punctChars, c ≠ x := by
      intro x hx e; subst e; rw [identStart_not_punct h c hx] at hs; cases hs
    exact ⟨fun e => (by rw [hpw] at e; cases e), fun _ => hnd, fun _ => hnp '.' (by decide), fun _ => hnp '=' (by decide), fun _ => hnp '/' (by decide)⟩
  · -- `t` is a number: `p` is neither a word nor a number
    have hpw : p.isWord = false := by
      rcases hn1 with h1 | h1
      · exact h1
      · simp [hn] at h1
    have hpn : p.isNum = false := by
      rcases hn2 with h1 | h1
      · exact h1
      · rw [hn] at h1; cases h1
    have hnp : ∀ x : Char, isDigit x = false → c ≠ x := by intro x hx e; subst e; rw [hd] at hx; cases hx
    refine ⟨fun e => (by rw [hpw] at e; cases e), fun e => (by rw [hpn] at e; cases e), fun ⟨s, e⟩ => ?_, fun _ => hnp '=' (by decide), fun _ => hnp '/' (by decide)⟩
    subst e; simp [Token.isNum] at hpn
  · -- `t` is a string or punctuation
    refine ⟨fun _ => identCont_not_punct h c hpc, fun _ => ?_, ?_, ?_, ?_⟩
    · simp only [punctChars, List.mem_cons, List.not_mem_nil, or_false] at hpc
      rcases hpc with e | e | e | e | e | e | e | e | e | e | e | e | e | e | e | e | e | e | e | e | e | e | e <;> subst e <;> decide
    · rintro ⟨s, rfl⟩ e
      have := hdot e; subst this
      simp at hn3
    · intro hp e
      have := heq e
      rcases hn4 with h1 | h1
      · rcases hp with rfl | rfl | rfl | rfl <;> simp at h1
      · rcases this with rfl | rfl <;> simp at h1
    · intro hp e
      have := hsl e; subst this; subst hp
      simp at hn5

theorem startsWithSlash_iff (s : Text) : startsWithSlash s = true ↔ ∃ r, s = '/' :: r := by
  cases s with
  | nil => simp [startsWithSlash]
  | cons c r =>
    by_cases hc : c = '/'
    · subst hc; simp [startsWithSlash]
    · have : startsWithSlash (c :: r) = false := by
        unfold startsWithSlash; split
        · rename_i heq; injection heq with h1 _; exact absurd h1 hc
        · rfl
      simp [this, hc]

/-- the separator actually written is skipped, and what it starts with cannot extend the previous token -/
theorem sepFor_ok (h : CCWF cc) (p : Token) (t : Token) (k : Nat) :
    SepOK cc (sepFor (some p) t k) ∧ (∀ c r, sepFor (some p) t k = c :: r → NoClash cc p (some c)) ∧
    (sepFor (some p) t k = [] → needsSep p t = false) := by
  have hs := sepAt_ok h k
  unfold sepFor
  simp only
  split
  · rename_i hc
    refine ⟨sepOK_ws h ' ' [] (by decide) sepOK_nil, ?_, fun e => by cases e⟩
    intro c r e; injection e with e1 _; subst e1; exact noClash_ws h p ' ' (by decide)
  · rename_i hc
    split
    · refine ⟨sepOK_ws h ' ' _ (by decide) hs, ?_, fun e => by cases e⟩
      intro c r e; injection e with e1 _; subst e1; exact noClash_ws h p ' ' (by decide)
    · rename_i hsl
      refine ⟨hs, ?_, ?_⟩
      · intro c r e
        rcases hs.head with h0 | ⟨c', r', h1, hw⟩ | ⟨r', h1⟩
        · rw [h0] at e; cases e
        · rw [h1] at e; injection e with e1 _; subst e1; exact noClash_ws h p c' hw
        · rw [h1] at e; injection e with e1 _; subst e1
          apply noClash_slashChar h p
          intro hp
          apply hsl
          simp [hp, (startsWithSlash_iff _).mpr ⟨r', h1⟩]
      · intro e
        cases hn : needsSep p t with
        | false => rfl
        | true => exact absurd (by simp [e, hn]) hc

/-- Lemma C: whatever the renderer writes after a token does not extend it -/
theorem render_noClash (h : CCWF cc) (p : Token) (ts : List Token) (ks : List Nat) (hw : ∀ t ∈ ts, WFTok cc t) :
    NoClash cc p (renderFrom (some p) ts ks).head? := by
  cases ts with
  | nil =>
    simp only [renderFrom]
    have hs := sepAt_ok h (ks.headD 0)
    split
    · exact noClash_ws h p ' ' (by decide)
    · rename_i hsl
      rcases hs.head with h0 | ⟨c', r', h1, hw'⟩ | ⟨r', h1⟩
      · rw [h0]; trivial
      · rw [h1]; exact noClash_ws h p c' hw'
      · rw [h1]
        apply noClash_slashChar h p
        intro hp
        apply hsl
        have hss := (startsWithSlash_iff _).mpr ⟨r', h1⟩
        rw [hss, hp]; rfl
  | cons t ts =>
    simp only [renderFrom]
    obtain ⟨_, h2, h3⟩ := sepFor_ok h p t (ks.headD 0)
    cases hsep : sepFor (some p) t (ks.headD 0) with
    | cons c r => simp only [List.cons_append, List.head?_cons]; exact h2 c r hsep
    | nil =>
      obtain ⟨c, r, ht, _⟩ := head_class h t (hw t List.mem_cons_self)
      simp only [List.nil_append, ht, List.cons_append, List.head?_cons]
      exact noClash_text h p t (hw t List.mem_cons_self) (h3 hsep) c r ht

theorem tok_nil : tok cc [] = none := by simp [tok, nextToken]

/-- THE ROUND TRIP: tokenizing the rendered text of any well-formed token list, with any choice of
    separators (blanks, tabs, newlines, Unicode whitespace, comments, or nothing where the
    maximal-munch rule allows it), gives exactly that token list -/
theorem lex_render (h : CCWF cc) : ∀ (ts : List Token) (prev : Option Token) (ks : List Nat), (∀ t ∈ ts, WFTok cc t) →
    lexAll cc (renderFrom prev ts ks) = ts
  | [], prev, ks, _ => by
    have hs := sepAt_ok h (ks.headD 0)
    rw [lexAll_unfold]
    simp only [renderFrom]
    by_cases hc : (decide (prev = some Token.slash) && startsWithSlash (sepAt (ks.headD 0))) = true
    · rw [if_pos hc]
      have := (sepOK_ws h ' ' _ (by decide) hs).skip []
      simp only [List.append_nil] at this
      rw [this, tok_nil]
    · rw [if_neg hc]
      have := hs.skip []
      simp only [List.append_nil] at this
      rw [this, tok_nil]
  | t :: ts, prev, ks, hw => by
    rw [lexAll_unfold]
    simp only [renderFrom]
    have hsep : SepOK cc (sepFor prev t (ks.headD 0)) := by
      cases prev with
      | none => simp only [sepFor]; exact sepAt_ok h _
      | some p => exact (sepFor_ok h p t _).1
    rw [List.append_assoc, hsep.skip]
    rw [tok_text h t _ (hw t List.mem_cons_self) (render_noClash h t ts ks.tail (fun x hx => hw x (List.mem_cons_of_mem _ hx)))]
    simp only
    rw [lex_render h ts (some t) ks.tail (fun x hx => hw x (List.mem_cons_of_mem _ hx))]

end LR
end Nl
