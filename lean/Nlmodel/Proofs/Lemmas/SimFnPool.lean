/- Stage 4: the constant pool of the fragment holds no heap constants (so no collection ever has work to do). -/
import Nlmodel.Proofs.Lemmas.SimFnTop2
namespace Nl
namespace SimF
open Spec Sim

/-! ## the emitted pool of the fragment holds integers and functions only -/

def NoHeap (cs : List Const) : Prop := ∀ c ∈ cs, (∃ i, c = Const.int i) ∨ (∃ a b, c = Const.fn a b)

theorem addConst_noheap (cs : List Const) (c : Const) (h : NoHeap cs) (hc : (∃ i, c = Const.int i) ∨ (∃ a b, c = Const.fn a b)) :
    NoHeap (addConst cs c).1 := by
  unfold addConst
  split
  · exact h
  · intro x hx
    simp only [List.mem_append, List.mem_singleton] at hx
    rcases hx with hx | hx
    · exact h x hx
    · subst hx; exact hc

mutual
theorem nhE : (e : RExpr) → ∀ {nl : Nat} {fn : Bool} {Γ Λ : Gam} {ab : Bool}, YE nl fn Γ Λ ab e → ∀ (pos : Nat) (lp : LoopCtx) (cs : List Const),
    NoHeap cs → NoHeap (emitE e pos lp cs).2
  | .int v, _, _, _, _, _, _, pos, lp, cs, h => by simp only [emitE]; exact addConst_noheap cs _ h (.inl ⟨v, rfl⟩)
  | .bool _, _, _, _, _, _, _, _, _, cs, h => by simp only [emitE]; exact h
  | .var _, _, _, _, _, _, _, _, _, cs, h => by simp only [emitE]; exact h
  | .not r, _, _, _, _, _, hy, pos, lp, cs, h => by
    cases hy with | not _ _ _ _ h1 => simp only [emitE]; exact nhE r h1 pos lp cs h
  | .neg r, _, _, _, _, _, hy, pos, lp, cs, h => by
    cases hy with | neg _ _ _ _ h1 => simp only [emitE]; exact nhE r h1 pos lp cs h
  | .assignVar _ e, _, _, _, _, _, hy, pos, lp, cs, h => by
    cases hy with
    | assignG _ _ _ _ _ _ _ h1 => simp only [emitE]; exact nhE e h1 pos lp cs h
    | assignL _ _ _ _ _ _ _ _ h1 => simp only [emitE]; exact nhE e h1 pos lp cs h
  | .infix l op r, _, _, _, _, _, hy, pos, lp, cs, h => by
    cases hy with
    | bin _ _ _ _ _ _ hnf hl hr =>
      simp only [emitE, hnf]
      exact nhE r hr _ lp _ (nhE l hl pos lp cs h)
    | fusedL _ _ _ b k _ v _ _ hfc =>
      simp only [emitE, hfc]; exact addConst_noheap cs _ h (.inl ⟨v, rfl⟩)
    | fusedR _ _ _ b k _ op' v _ _ hmir =>
      have hfc : fusedCandidate (.int v) op (.var ⟨b, .loc k⟩) = some (op', k, v) := by simp [fusedCandidate, hmir]
      simp only [emitE, hfc]; exact addConst_noheap cs _ h (.inl ⟨v, rfl⟩)
  | .ifE c t e, _, _, _, _, _, hy, pos, lp, cs, h => by
    cases hy with
    | ifE _ _ _ _ _ _ _ _ hc ht he =>
      simp only [emitE]
      exact nhO e he _ lp _ (nhB t ht _ lp _ (nhE c hc pos lp cs h))
  | .whileE c b, _, _, _, _, _, hy, pos, lp, cs, h => by
    cases hy with
    | whileE _ _ _ _ _ _ _ hc hb =>
      simp only [emitE]
      exact nhB b hb _ _ _ (nhE c hc _ _ cs h)
  | .call f as, _, _, _, _, _, hy, pos, lp, cs, h => by
    cases hy with
    | call _ _ _ _ _ has hf =>
      simp only [emitE]
      exact nhE f hf _ lp _ (nhEs as has pos lp cs h)
  | .float _, _, _, _, _, _, hy, _, _, _, _ => by cases hy
  | .str _, _, _, _, _, _, hy, _, _, _, _ => by cases hy
  | .assignIndex _ _ _, _, _, _, _, _, hy, _, _, _, _ => by cases hy
  | .func _ _ _ _ _, _, _, _, _, _, hy, _, _, _, _ => by cases hy
  | .callBuiltin _ _, _, _, _, _, _, hy, _, _, _, _ => by cases hy
  | .arr _, _, _, _, _, _, hy, _, _, _, _ => by cases hy
  | .index _ _, _, _, _, _, _, hy, _, _, _, _ => by cases hy
theorem nhEs : (es : RExprs) → ∀ {nl : Nat} {fn : Bool} {Γ Λ : Gam}, YEs nl fn Γ Λ es → ∀ (pos : Nat) (lp : LoopCtx) (cs : List Const),
    NoHeap cs → NoHeap (emitEs es pos lp cs).2
  | .nil, _, _, _, _, _, _, _, cs, h => by simp only [emitEs]; exact h
  | .cons e es, _, _, _, _, hy, pos, lp, cs, h => by
    cases hy with
    | cons _ _ _ _ he hes => simp only [emitEs]; exact nhEs es hes _ lp _ (nhE e he pos lp cs h)
theorem nhO : (o : ROptBlock) → ∀ {nl : Nat} {fn : Bool} {Γ Λ : Gam} {ab : Bool}, YO nl fn Γ Λ ab o → ∀ (pos : Nat) (lp : LoopCtx) (cs : List Const),
    NoHeap cs → NoHeap (emitO o pos lp cs).2
  | .none, _, _, _, _, _, _, _, _, cs, h => by simp only [emitO]; exact h
  | .some b, _, _, _, _, _, hy, pos, lp, cs, h => by
    cases hy with
    | some _ _ _ _ _ _ hb => simp only [emitO]; exact nhB b hb pos lp cs h
theorem nhS : (s : RStmt) → ∀ {nl : Nat} {fn : Bool} {Γ Λ Γ1 Λ1 : Gam} {ab : Bool}, YS nl fn Γ Λ ab s Γ1 Λ1 → ∀ (pos : Nat) (lp : LoopCtx) (cs : List Const),
    NoHeap cs → NoHeap (emitS s pos lp cs).2
  | .expr e, _, _, _, _, _, _, _, hy, pos, lp, cs, h => by
    cases hy with | expr _ _ _ _ he => simp only [emitS]; exact nhE e he pos lp cs h
  | .letS _ e, _, _, _, _, _, _, _, hy, pos, lp, cs, h => by
    cases hy with
    | letG _ _ _ _ _ _ _ _ he => simp only [emitS]; exact nhE e he pos lp cs h
    | letL _ _ _ _ _ _ _ _ _ he => simp only [emitS]; exact nhE e he pos lp cs h
  | .ret e, _, _, _, _, _, _, _, hy, pos, lp, cs, h => by
    cases hy with | ret _ _ _ _ _ he => simp only [emitS]; exact nhE e he pos lp cs h
  | .block b, _, _, _, _, _, _, _, hy, pos, lp, cs, h => by
    cases hy with | block _ _ _ _ _ _ hb => simp only [emitS]; exact nhB b hb pos lp cs h
  | .brk, _, _, _, _, _, _, _, _, _, _, cs, h => by simp only [emitS]; exact h
  | .cont, _, _, _, _, _, _, _, _, _, _, cs, h => by simp only [emitS]; exact h
theorem nhB : (b : RBlock) → ∀ {nl : Nat} {fn : Bool} {Γ Λ Γ1 Λ1 : Gam} {ab : Bool}, YB nl fn Γ Λ ab b Γ1 Λ1 → ∀ (pos : Nat) (lp : LoopCtx) (cs : List Const),
    NoHeap cs → NoHeap (emitB b pos lp cs).2
  | .nil, _, _, _, _, _, _, _, _, _, _, cs, h => by simp only [emitB]; exact h
  | .cons s b, _, _, _, _, _, _, _, hy, pos, lp, cs, h => by
    cases hy with
    | cons _ _ _ _ _ _ _ _ _ hs hb => simp only [emitB]; exact nhB b hb _ lp _ (nhS s hs pos lp cs h)
end

end SimF
end Nl
