/- Precision of a collection: what stays managed is exactly what is reachable; the rest is released. -/
import Nlmodel.Proofs.Lemmas.GCReach
namespace Nl
namespace GC

/-- after every collection the collector holds exactly the managed objects reachable from its
    roots: everything else it managed has been released -/
theorem collect_precise (m : Mem) (roots : List Value) (hk : HeapKindOK m.heap)
    (hr : ∀ v ∈ roots, KindOK m.heap v) (hne : m.managed.isEmpty = false) (a : Nat) :
    a ∈ (run m roots).managed ↔ (a ∈ m.managed ∧ Reach m.heap m.managed roots a) := by
  unfold run
  simp only [hne, Bool.false_eq_true, ↓reduceIte, List.mem_filter, List.contains_eq_mem, decide_eq_true_eq]
  constructor
  · intro ⟨hm, hmark⟩
    refine ⟨hm, ?_⟩
    -- every marked address is reachable from some root
    have key : ∀ (l : List Value) (N : List Nat) (y : Nat), y ∈ l.foldl (mark m.heap m.managed (m.managed.length + 1)) N →
        y ∈ N ∨ ∃ e ∈ l, ∃ b, e.addr? = some b ∧ RA m.heap m.managed b y := by
      intro l
      induction l with
      | nil => intro N y hy; exact Or.inl hy
      | cons e l ihl =>
        intro N y hy
        simp only [List.foldl_cons] at hy
        cases ihl _ y hy with
        | inl h1 =>
          cases mark_sound m.heap m.managed _ N e y h1 with
          | inl h2 => exact Or.inl h2
          | inr h2 => obtain ⟨b, hb, hr'⟩ := h2; exact Or.inr ⟨e, List.mem_cons_self, b, hb, hr'⟩
        | inr h1 =>
          obtain ⟨e', he', b, hb, hr'⟩ := h1
          exact Or.inr ⟨e', List.mem_cons_of_mem _ he', b, hb, hr'⟩
    cases key roots [] a hmark with
    | inl h1 => simp at h1
    | inr h1 =>
      obtain ⟨e, he, b, hb, hra⟩ := h1
      -- turn the address chain into reachability from the roots
      have : ∀ x, RA m.heap m.managed b x → Reach m.heap m.managed roots x := by
        intro x hx
        induction hx with
        | refl hmb => exact Reach.root e b he hb hmb
        | step y v c _ hv hc hmc ih => exact Reach.step y v c ih hv hc hmc
      exact this a hra
  · intro ⟨hm, hreach⟩
    exact ⟨hm, markAll_complete m.heap m.managed roots hk hr a hreach⟩

/-- ... and what it released is really gone: an unreachable managed object is freed -/
theorem garbage_released (m : Mem) (roots : List Value) (hk : HeapKindOK m.heap)
    (hr : ∀ v ∈ roots, KindOK m.heap v) (a : Nat) (hm : a ∈ m.managed) (hb : a < m.heap.cells.size)
    (hun : ¬ Reach m.heap m.managed roots a) :
    (run m roots).heap.isLive a = false := by
  have hne : m.managed.isEmpty = false := by cases hmm : m.managed with
    | nil => rw [hmm] at hm; cases hm
    | cons _ _ => rfl
  have hnot : a ∉ (run m roots).managed := fun h' => hun ((collect_precise m roots hk hr hne a).mp h').2
  unfold run at hnot ⊢
  simp only [hne, Bool.false_eq_true, ↓reduceIte] at hnot ⊢
  have hdead : a ∈ m.managed.filter (fun x => !(markAll m.heap m.managed roots).contains x) := by
    simp only [List.mem_filter, Bool.not_eq_true', List.contains_eq_mem, decide_eq_false_iff_not]
    refine ⟨hm, fun hmk => hnot ?_⟩
    simp only [List.mem_filter, List.contains_eq_mem, decide_eq_true_eq]
    exact ⟨hm, hmk⟩
  -- freeing a list that contains `a` leaves `a` freed
  have free_mem : ∀ (l : List Nat) (h : Heap), a ∈ l → a < h.cells.size → (freeAll h l).get a = .freed := by
    intro l
    induction l with
    | nil => intro h hmem; cases hmem
    | cons x l ih =>
      intro h hmem hsz
      simp only [freeAll, List.foldl_cons]
      by_cases hx : a ∈ l
      · have := ih (h.free x) hx (by simpa [Heap.free, Heap.set] using hsz)
        simpa [freeAll] using this
      · have hax : a = x := by cases List.mem_cons.1 hmem with | inl e => exact e | inr e => exact absurd e hx
        subst hax
        have := freeAll_get_other (h.free a) l a hx
        simp only [freeAll] at this
        rw [this]; exact free_get_self h a hsz
  unfold Heap.isLive
  rw [free_mem _ _ hdead hb]


end GC
end Nl
