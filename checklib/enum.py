"""Bounded-exhaustive program enumeration over a template grammar that covers every construct."""
import itertools

ATOMS_INT = ["0", "1", "7", "x", "y"]
ATOMS = ATOMS_INT + ["ja", "nee", '"a"', "1.5", "[1, 2]"]


def exprs(depth):
    if depth == 0:
        for a in ATOMS:
            yield a
        return
    yield from exprs(0)
    for op in ["+", "-", "*", "/", "%", "<", "==", "&&"]:
        for a in ["x", "1", "ja", "1.5", '"a"']:
            for b in ["y", "2", "nee", "0"]:
                yield "%s %s %s" % (a, op, b)
    for a in ["x", "1", "ja", "1.5"]:
        yield "-%s" % a
        yield "!%s" % a
    yield "als x < y { x } anders { y }"
    yield "als ja { 1 }"
    yield "lengte([x, y])"
    yield "[x, y][1]"
    yield "[x, y][-3]"
    yield '"abc"[y]'
    yield "string(x) == \"1\""
    yield "int(1.5) + x"
    yield "(x = 5) + x"
    yield "zolang x < 3 { x += 1; x * 2 }"


def stmts(depth):
    es = list(exprs(1 if depth > 0 else 0))
    for e in es:
        yield e + ";"
    for e in ["x + 1", "y", "7", '"a"', "[x]"]:
        yield "stel z = %s; z;" % e
        yield "x = %s;" % e
    yield "x += 2;"
    yield "y *= x;"
    yield 'print("{} {}", x, y);'
    yield 'print(x); print();'
    if depth > 0:
        inner = ["x += 1;", "stop;", "volgende;", "stel x = 9; x;", "y = x;", "print(x);", "antwoord x;", "{ stel y = 3; y; }", ""]
        for a in inner:
            if "antwoord" in a:
                continue
            yield "als x < y { %s } anders { %s }" % (a if a not in ("stop;", "volgende;") else "", "y = 0;")
            yield "zolang x < 4 { x += 1; %s }" % a
            yield "zolang x < 4 { x += 1; als x == 2 { %s } y += x; }" % a
        for a in inner:
            if a in ("stop;", "volgende;"):
                continue
            yield "functie f(a) { %s a + x } f(y);" % a
            yield "functie g(a, b) { als a < b { %s } a - b } g(x, y); g(y, x);" % a
        yield "functie r(n) { als n < 1 { antwoord 0 } n + r(n - 1) } r(4);"
        yield "stel h = functie(a) { a * 2 }; h(h(x));"
        yield "functie k(f, v) { f(v) } functie d(a) { a + 1 } k(d, y);"
        yield "stel a = [1, 2, 3]; stel b = a; b[0] = x; a[0] + a[-1];"
        yield 'stel s = "hé!"; s[1] = "e"; s;'
        yield "{ stel x = 100; x += 1; } x;"
        yield "stel x = x + 1; x;"


def programs(max_stmts=2):
    pre = "stel x = 1; stel y = 2;\n"
    s1 = list(stmts(1))
    for a in s1:
        yield pre + a + "\nx;"
    if max_stmts >= 2:
        s0 = list(stmts(0))
        for a, b in itertools.product(s1, s0):
            yield pre + a + "\n" + b


def boundary_programs():
    """literal/local operand order at the boundary values, inside functions (fused opcodes), at top
    level (generic opcodes), in conditions and in loop conditions: every operator, both operand orders,
    argument below / equal to / above the literal"""
    out = []
    ops = ["<", "<=", ">", ">=", "==", "!=", "+", "-", "*", "/", "%"]
    for op in ops:
        for c in (0, 5):
            for v in (c - 1, c, c + 1):
                vl = str(v) if v >= 0 else "(0 - %d)" % -v
                out.append("functie f(n) { %d %s n } f(%s)" % (c, op, vl))
                out.append("functie f(n) { n %s %d } f(%s)" % (op, c, vl))
                out.append("stel n = %s; [%d %s n, n %s %d]" % (vl, c, op, op, c))
                if op in ("<", "<=", ">", ">=", "==", "!="):
                    out.append("functie f(n) { als %d %s n { 1 } anders { 2 } } f(%s)" % (c, op, vl))
                    out.append("functie f(n) { stel k = 0; zolang %d %s n && k < 3 { k += 1; n = n + 1; }; [k, n] } f(%s)" % (c, op, vl))
                    out.append("functie f(n) { stel k = 0; zolang n %s %d && k < 3 { k += 1; n = n - 1; }; [k, n] } f(%s)" % (op, c, vl))
    return out


def signed_fused_programs():
    """every operator with a LOCAL on one side and an integer LITERAL on the other (the shapes the compiler fuses into one
    instruction, and their mirrored forms), over SIGNED arguments: negative, zero and positive values around the literal,
    powers of two and their neighbours, and the ends of the 61-bit range — so that a fast path that is right for
    non-negative operands only (a mask for `% 2^k`, a shift for `/ 2^k` or `* 2^k`, an unsigned compare) disagrees with
    the definitional semantics somewhere"""
    out = []
    ops = ["<", "<=", ">", ">=", "==", "!=", "+", "-", "*", "/", "%"]
    big = 2 ** 59
    consts = (1, 2, 3, 8, 16, big)
    args = (-(2 ** 60), -big - 1, -17, -9, -8, -3, -1, 0, 3, 8, 2 ** 60 - 1)

    def lit(v):
        return str(v) if v >= 0 else "(0 - %d)" % -v if v > -(2 ** 60) else "(0 - %d - 1)" % (2 ** 60 - 1)
    for op in ops:
        for c in consts:
            for a in args:
                out.append("functie f(n) { n %s %d } f(%s)" % (op, c, lit(a)))
                out.append("functie f(n) { %d %s n } f(%s)" % (c, op, lit(a)))
    return out


def same_object_programs():
    """a value compared WITH ITSELF — the same variable twice, through an alias, the same list element twice, a parameter twice —
    for every kind of value, in particular NaN (not equal to itself), the infinities, both zeros, texts, lists and functions:
    an "identical object => equal" shortcut in the comparison gives NaN == NaN here and nowhere else"""
    vals = ["0.0 / 0.0", "float(\"nan\")", "1.0 / 0.0", "0.0 - 1.0 / 0.0", "0.0 * (0.0 - 1.0)", "0.0", "1.5", "7", "(0 - 7)", "ja",
            "als nee { 1 }", "\"tekst\"", "\"\"", "functie(q) { q }", "[1.5]"]
    ops = ["==", "!=", "<", "<=", ">", ">="]
    out = []
    for v in vals:
        for op in ops:
            out.append("stel n = %s; n %s n" % (v, op))
            out.append("stel n = %s; stel m = n; [n %s m, m %s n]" % (v, op, op))
            out.append("stel a = [%s, 0]; a[0] %s a[0]" % (v, op))
            out.append("functie(x) { x %s x }(%s)" % (op, v))
            out.append("functie(x, y) { [x %s y, y %s x] }(%s, %s)" % (op, op, v, v))
        out.append("stel n = %s; als n == n { 1 } anders { 2 }" % v)
        out.append("stel n = %s; stel k = 0; zolang n != n && k < 3 { k += 1 }; k" % v)
    return out


def cross_type_fused_programs():
    """a LOCAL holding a value of every type compared / combined with an integer LITERAL (the shapes the compiler fuses), both operand
    orders, in a function and at top level: values of different type never compare equal and never take part in integer arithmetic,
    whatever their payload bits are (ja = 1?, null = 0?, a function = its descriptor?)"""
    vals = ["ja", "nee", "als nee { 1 }", "functie(q) { q }", "functie() { 1 }", "1.0", "0.0", '"1"', '""', "[1]", "[]", "1", "0"]
    lits = ["0", "1", "2", "65536", "196608", "196609", "3"]
    ops = ["==", "!=", "<", "<=", ">", ">=", "+", "-", "*", "/", "%"]
    out = []
    for v in vals:
        for k in lits:
            for op in ops:
                out.append("functie(x) { x %s %s }(%s)" % (op, k, v))
                out.append("functie(x) { %s %s x }(%s)" % (k, op, v))
            out.append("functie(x) { stel y = x; [y == %s, %s == y, y != %s] }(%s)" % (k, k, k, v))
            out.append("stel x = %s; [x == %s, %s != x]" % (v, k, k))
    return out
