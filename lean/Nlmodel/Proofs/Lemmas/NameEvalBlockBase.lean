/- C09, clause (c), general inner block: definitions (`scNames`, `stOf`, `assignsE/S/B/Es/O`, `Shape`, `Vis`, `Keep`) and the
   lemmas about the environment operations (`update`, `declare`, push/pop) for the invariant `Keep`.
   The induction is in NameEvalBlockInd.lean, the theorems (B1)-(B3) in NameEvalBlock.lean. -/
import Nlmodel.Proofs.Lemmas.NameEvalC09
namespace Nl
namespace NameEval
open Spec

/-- the names of a scope stack, scope by scope, in order -/
def scNames (ρs : List Scope) : List (List Text) := ρs.map (·.map Prod.fst)

/-- the state carried by a result (every constructor but `fuel` carries one) -/
def stOf {α : Type} : NRes α → Option NState
  | .val _ st => some st
  | .brk st => some st
  | .cont st => some st
  | .err _ st => some st
  | .unspec st => some st
  | .fuel => none

/-- the name an assignment expression assigns through -/
def targetOf : Expr → List Text
  | .ident n => [n]
  | _ => []

mutual
/-- the names assigned anywhere in an expression (targets of `=`; a compound assignment is an `assign` in the tree) -/
def assignsE : Expr → List Text
  | .infix l _ r => assignsE l ++ assignsE r
  | .pre _ r => assignsE r
  | .int _ => []
  | .float _ => []
  | .bool _ => []
  | .ifE c t e => assignsE c ++ (assignsB t ++ assignsO e)
  | .ident _ => []
  | .func _ _ body => assignsB body
  | .call f args => assignsE f ++ assignsEs args
  | .assign l r => targetOf l ++ (assignsE l ++ assignsE r)
  | .str _ => []
  | .arr vs => assignsEs vs
  | .index l i => assignsE l ++ assignsE i
  | .whileE c b => assignsE c ++ assignsB b
def assignsS : Stmt → List Text
  | .letS _ e => assignsE e
  | .ret e => assignsE e
  | .expr e => assignsE e
  | .block b => assignsB b
  | .brk => []
  | .cont => []
def assignsB : Block → List Text
  | .nil => []
  | .cons s b => assignsS s ++ assignsB b
def assignsEs : Exprs → List Text
  | .nil => []
  | .cons e es => assignsE e ++ assignsEs es
def assignsO : OptBlock → List Text
  | .none => []
  | .some b => assignsB b
end

/-! ### shape of the scope stack -/

/-- `ρs'` has the scopes of `ρs` with the same names, except that the innermost scope may have newer declarations -/
def Shape (ρs ρs' : List Scope) : Prop :=
  scNames ρs'.tail = scNames ρs.tail ∧ (ρs.headD []).map Prod.fst <:+ (ρs'.headD []).map Prod.fst ∧ (ρs ≠ [] → ρs' ≠ [])

theorem Shape.of_names {ρs ρs' : List Scope} (h : scNames ρs' = scNames ρs) : Shape ρs ρs' := by
  cases ρs <;> cases ρs' <;> simp_all [Shape, scNames]

theorem Shape.refl (ρs : List Scope) : Shape ρs ρs := Shape.of_names rfl

theorem Shape.trans {a b c : List Scope} (h1 : Shape a b) (h2 : Shape b c) : Shape a c :=
  ⟨h2.1.trans h1.1, h1.2.1.trans h2.2.1, fun h => h2.2.2 (h1.2.2 h)⟩

theorem Shape.pop {ρs σs : List Scope} (h : Shape ([] :: ρs) σs) : Shape ρs σs.tail :=
  Shape.of_names (by simpa using h.1)

theorem Shape.of_declare (ρ : NState) (m : Text) : Shape ρ.scopes (ρ.declare m).scopes := by
  unfold NState.declare
  cases h : ρ.scopes <;> simp [Shape, scNames]

theorem Shape.declare_mem {ρ : NState} {m : Text} {σs : List Scope} (h : Shape (ρ.declare m).scopes σs) :
    m ∈ (σs.headD []).map Prod.fst := by
  have h2 := h.2.1
  apply h2.subset
  unfold NState.declare
  cases ρ.scopes <;> simp

theorem updateScope_names (sc sc' : Scope) (n : Text) (v : SVal) (h : updateScope sc n v = some sc') :
    sc'.map Prod.fst = sc.map Prod.fst := by
  induction sc generalizing sc' with
  | nil => simp [updateScope] at h
  | cons p rest ih =>
    obtain ⟨m, w⟩ := p
    simp only [updateScope] at h
    by_cases hm : m = n
    · subst hm; simp only [↓reduceIte, Option.some.injEq] at h; subst h; simp
    · simp only [hm, ↓reduceIte] at h
      cases hu : updateScope rest n v with
      | none => simp [hu] at h
      | some r' => simp only [hu, Option.some.injEq] at h; subst h; simp [ih r' hu]

theorem update_names (ρs ρs' : List Scope) (n : Text) (v : SVal) (h : update ρs n v = some ρs') : scNames ρs' = scNames ρs := by
  induction ρs generalizing ρs' with
  | nil => simp [update] at h
  | cons sc rest ih =>
    simp only [update] at h
    cases hu : updateScope sc n v with
    | some sc' =>
      simp only [hu, Option.some.injEq] at h; subst h
      simp [scNames, updateScope_names sc sc' n v hu]
    | none =>
      simp only [hu] at h
      cases hr : update rest n v with
      | none => simp [hr] at h
      | some r' =>
        simp only [hr, Option.some.injEq] at h; subst h
        have := ih r' hr
        simp only [scNames] at this
        simp [scNames, this]

theorem updateScope_mem (sc : Scope) (n : Text) (v : SVal) (h : n ∈ sc.map Prod.fst) : ∃ sc', updateScope sc n v = some sc' := by
  induction sc with
  | nil => simp at h
  | cons p rest ih =>
    obtain ⟨m, w⟩ := p
    simp only [updateScope]
    by_cases hm : m = n
    · simp [hm]
    · simp only [hm, ↓reduceIte]
      have : n ∈ rest.map Prod.fst := by
        simp only [List.map_cons, List.mem_cons] at h
        rcases h with h | h
        · exact absurd h.symm hm
        · exact h
      obtain ⟨r', hr⟩ := ih this
      simp [hr]

/-- an assignment through a name of the innermost scope leaves all enclosing scopes literally unchanged -/
theorem update_head (ρs ρs' : List Scope) (n : Text) (v : SVal) (hm : n ∈ (ρs.headD []).map Prod.fst)
    (h : update ρs n v = some ρs') : ρs'.tail = ρs.tail := by
  cases ρs with
  | nil => simp at hm
  | cons sc rest =>
    simp only [List.headD_cons] at hm
    obtain ⟨sc', hs⟩ := updateScope_mem sc n v hm
    simp only [update, hs, Option.some.injEq] at h
    subst h; rfl

/-- an assignment to another name leaves `x` as it was, at every depth of the stack -/
theorem update_drop_lookup_other (ρs ρs' : List Scope) (n x : Text) (v : SVal) (h : update ρs n v = some ρs') (hx : x ≠ n)
    (k : Nat) : lookup (ρs'.drop k) x = lookup (ρs.drop k) x := by
  induction ρs generalizing ρs' k with
  | nil => simp [update] at h
  | cons sc rest ih =>
    cases k with
    | zero => simpa using update_lookup_other _ _ n x v h hx
    | succ k =>
      simp only [update] at h
      cases hu : updateScope sc n v with
      | some sc' => simp only [hu, Option.some.injEq] at h; subst h; rfl
      | none =>
        simp only [hu] at h
        cases hr : update rest n v with
        | none => simp [hr] at h
        | some r' =>
          simp only [hr, Option.some.injEq] at h; subst h
          simpa using ih r' hr k

/-- `x` is declared in one of the `n` innermost scopes -/
def Vis (x : Text) (n : Nat) (ρs : List Scope) : Prop := ∃ l ∈ (scNames ρs).take n, x ∈ l

theorem Vis.shape {x : Text} {n : Nat} {ρs ρs' : List Scope} (hv : Vis x n ρs) (h : Shape ρs ρs') : Vis x n ρs' := by
  obtain ⟨l, hl, hx⟩ := hv
  cases n with
  | zero => simp at hl
  | succ n =>
    cases ρs with
    | nil => simp [scNames] at hl
    | cons sc scs =>
      cases ρs' with
      | nil => exact absurd rfl (h.2.2 (by simp))
      | cons sc' scs' =>
        obtain ⟨h1, h2, _⟩ := h
        simp only [List.tail_cons, List.headD_cons] at h1 h2
        simp only [scNames, List.map_cons, List.take_succ_cons, List.mem_cons] at hl
        rcases hl with hl | hl
        · subst hl
          exact ⟨sc'.map Prod.fst, by simp [scNames], h2.subset hx⟩
        · refine ⟨l, ?_, hx⟩
          simp only [scNames] at h1
          simp only [scNames, List.map_cons, List.take_succ_cons, List.mem_cons, h1]
          exact Or.inr hl

/-- an assignment through `x` while `x` is declared in one of the `n` innermost scopes leaves everything beyond them -/
theorem update_vis_drop (ρs ρs' : List Scope) (x : Text) (v : SVal) (n : Nat) (hv : Vis x n ρs)
    (h : update ρs x v = some ρs') : ρs'.drop n = ρs.drop n := by
  induction ρs generalizing ρs' n with
  | nil => simp [update] at h
  | cons sc rest ih =>
    obtain ⟨l, hl, hx⟩ := hv
    cases n with
    | zero => simp at hl
    | succ n =>
      simp only [update] at h
      cases hu : updateScope sc x v with
      | some sc' => simp only [hu, Option.some.injEq] at h; subst h; rfl
      | none =>
        simp only [hu] at h
        cases hr : update rest x v with
        | none => simp [hr] at h
        | some r' =>
          simp only [hr, Option.some.injEq] at h; subst h
          simp only [scNames, List.map_cons, List.take_succ_cons, List.mem_cons] at hl
          rcases hl with hl | hl
          · subst hl
            obtain ⟨sc', hs⟩ := updateScope_mem sc x v hx
            rw [hs] at hu; cases hu
          · simpa using ih r' n ⟨l, hl, hx⟩ hr

/-! ### the invariant -/

/-- shape, and: if `A` holds (read: the code does not assign `x`) or `x` is declared in one of the `n ≥ 1` innermost scopes,
    then `x` means beyond these `n` scopes what it meant -/
def Keep (x : Text) (A : Prop) (ρs ρs' : List Scope) : Prop :=
  Shape ρs ρs' ∧ ∀ n, 1 ≤ n → (A ∨ Vis x n ρs) → lookup (ρs'.drop n) x = lookup (ρs.drop n) x

theorem Keep.refl (x : Text) (A : Prop) (ρs : List Scope) : Keep x A ρs ρs := ⟨Shape.refl _, fun _ _ _ => rfl⟩

theorem Keep.trans {x : Text} {A : Prop} {a b c : List Scope} (h1 : Keep x A a b) (h2 : Keep x A b c) : Keep x A a c := by
  refine ⟨h1.1.trans h2.1, fun n hn hA => ?_⟩
  rw [← h1.2 n hn hA]
  apply h2.2 n hn
  rcases hA with hA | hA
  · exact Or.inl hA
  · exact Or.inr (hA.shape h1.1)

theorem Keep.pop {x : Text} {A : Prop} {ρs σs : List Scope} (h : Keep x A ([] :: ρs) σs) : Keep x A ρs σs.tail := by
  refine ⟨h.1.pop, fun n hn hA => ?_⟩
  have := h.2 (n + 1) (by omega) (by
    rcases hA with hA | ⟨l, hl, hx⟩
    · exact Or.inl hA
    · exact Or.inr ⟨l, by simp [scNames] at hl ⊢; exact Or.inr hl, hx⟩)
  simpa using this

theorem Keep.of_update {x : Text} {A : Prop} {ρs ρs' : List Scope} {m : Text} {v : SVal} (h : update ρs m v = some ρs')
    (hA : A → x ≠ m) : Keep x A ρs ρs' := by
  refine ⟨Shape.of_names (update_names _ _ _ _ h), fun n _ hv => ?_⟩
  by_cases hx : x = m
  · subst hx
    rcases hv with hv | hv
    · exact absurd rfl (hA hv)
    · rw [update_vis_drop _ _ _ _ _ hv h]
  · exact update_drop_lookup_other _ _ _ _ _ h hx n

theorem Keep.of_update_head {x : Text} {A : Prop} {ρs ρs' : List Scope} {m : Text} {v : SVal} (h : update ρs m v = some ρs')
    (hm : m ∈ (ρs.headD []).map Prod.fst) : Keep x A ρs ρs' := by
  refine ⟨Shape.of_names (update_names _ _ _ _ h), fun n hn _ => ?_⟩
  have ht := update_head _ _ _ _ hm h
  obtain ⟨k, rfl⟩ : ∃ k, n = k + 1 := ⟨n - 1, by omega⟩
  rw [← List.drop_tail, ← List.drop_tail, ht]

theorem Keep.of_declare (x : Text) (A : Prop) (ρ : NState) (m : Text) : Keep x A ρ.scopes (ρ.declare m).scopes := by
  refine ⟨Shape.of_declare ρ m, fun n hn _ => ?_⟩
  obtain ⟨k, rfl⟩ : ∃ k, n = k + 1 := ⟨n - 1, by omega⟩
  unfold NState.declare
  cases ρ.scopes <;> simp

theorem stOf_popRes {α : Type} (r : NRes α) : stOf (popRes r) = (stOf r).map NState.pop := by
  cases r <;> rfl

/-- a pushed and popped evaluation -/
theorem Keep.block {α : Type} {x : Text} {A : Prop} (r : NRes α) (st ρ' : NState)
    (hr : ∀ σ, stOf r = some σ → Keep x A st.push.scopes σ.scopes) (h : stOf (popRes r) = some ρ') :
    Keep x A st.scopes ρ'.scopes := by
  rw [stOf_popRes] at h
  cases hs : stOf r with
  | none => simp [hs] at h
  | some σ =>
    simp only [hs, Option.map_some, Option.some.injEq] at h
    subst h
    exact (hr σ hs).pop

theorem assign_scopes {st st2 : NState} {n : Text} {v : SVal} (ha : st.assign n v = some st2) :
    update st.scopes n v = some st2.scopes := by
  unfold NState.assign at ha
  cases hu : update st.scopes n v with
  | none => simp [hu] at ha
  | some scs => simp only [hu, Option.some.injEq] at ha; subst ha; rfl

end NameEval
end Nl
