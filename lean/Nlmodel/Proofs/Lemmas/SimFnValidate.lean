/- Stage 4: validation of whole resolved programs and the end-to-end theorem from source trees. -/
import Nlmodel.Proofs.Lemmas.SimFnCheck
namespace Nl
namespace SimF
open Spec Sim

/-- the function a top-level statement defines, if it is a definition statement -/
def fdefOf : RStmt → Option (Nat × Nat × Nat × List Nat × Nat × RBlock)
  | .expr (.func fid (some ⟨b, .global k⟩) ps nlf body) => some (fid, b, k, ps, nlf, body)
  | .letS ⟨b, .global k⟩ (.func fid none ps nlf body) => some (fid, b, k, ps, nlf, body)
  | _ => none

theorem fdefOf_sound (s : RStmt) (fid b k : Nat) (ps : List Nat) (nlf : Nat) (body : RBlock)
    (h : fdefOf s = some (fid, b, k, ps, nlf, body)) : FDef s fid b k ps nlf body := by
  unfold fdefOf at h
  split at h
  · injection h with h; injection h with h1 h; injection h with h2 h; injection h with h3 h; injection h with h4 h; injection h with h5 h6
    subst h1; subst h2; subst h3; subst h4; subst h5; subst h6; exact .named _ _ _ _ _ _
  · injection h with h; injection h with h1 h; injection h with h2 h; injection h with h3 h; injection h with h4 h; injection h with h5 h6
    subst h1; subst h2; subst h3; subst h4; subst h5; subst h6; exact .letS _ _ _ _ _ _
  · cases h

def chkTop (Γ : Gam) : RBlock → Nat → List Const → Option (Gam × List (Nat × FnInfo))
  | .nil, _, _ => some (Γ, [])
  | .cons s rest, pos, cs =>
    match fdefOf s with
    | some (fid, b, k, ps, nlf, body) =>
      if freshG Γ b k && (chkB nlf true ((b, k) :: Γ) (paramScope ps) false body).isSome && gamOKb (paramScope ps) &&
          (paramScope ps).all (fun p => decide (p.2 < nlf)) then
        match chkTop ((b, k) :: Γ) rest (pos + sizeS s) (emitS s pos none cs).2 with
        | some (Γ2, D) => some (Γ2, (fid, ⟨pos + 3, ps, nlf, body, cs, (b, k) :: Γ⟩) :: D)
        | none => none
      else none
    | none =>
      match chkS 0 false Γ [] false s with
      | some (Γ1, Λ1) => if Λ1.isEmpty then chkTop Γ1 rest (pos + sizeS s) (emitS s pos none cs).2 else none
      | none => none

theorem chkTop_sound : ∀ (b : RBlock) (Γ : Gam) (pos : Nat) (cs : List Const) (Γ' : Gam) (D : List (Nat × FnInfo)),
    chkTop Γ b pos cs = some (Γ', D) → YTop Γ b pos cs Γ' D
  | .nil, Γ, pos, cs, Γ', D, h => by
    simp only [chkTop] at h; injection h with h; injection h with h1 h2; subst h1; subst h2; exact .nil _ _ _
  | .cons s rest, Γ, pos, cs, Γ', D, h => by
    simp only [chkTop] at h
    cases hf : fdefOf s with
    | some q =>
      obtain ⟨fid, b, k, ps, nlf, body⟩ := q
      simp only [hf] at h
      split at h
      · rename_i hc
        simp only [Bool.and_eq_true, List.all_eq_true, decide_eq_true_eq] at hc
        obtain ⟨⟨⟨h1, h2⟩, h3⟩, h4⟩ := hc
        cases hr : chkTop ((b, k) :: Γ) rest (pos + sizeS s) (emitS s pos none cs).2 with
        | none => simp [hr] at h
        | some w =>
          obtain ⟨Γ2, D2⟩ := w
          simp only [hr] at h
          injection h with h; injection h with e1 e2; subst e1; subst e2
          cases hb : chkB nlf true ((b, k) :: Γ) (paramScope ps) false body with
          | none => simp [hb] at h2
          | some z =>
            exact .fdef Γ Γ2 s rest pos cs D2 fid b k ps nlf body z.1 z.2 (fdefOf_sound s fid b k ps nlf body hf) (freshG_sound h1)
              (chkB_sound nlf true body _ _ false z.1 z.2 hb) (gamOKb_sound _ h3) h4
              (chkTop_sound rest _ _ _ Γ2 D2 hr)
      · cases h
    | none =>
      simp only [hf] at h
      cases hs : chkS 0 false Γ [] false s with
      | none => simp [hs] at h
      | some w =>
        obtain ⟨Γ1, Λ1⟩ := w
        simp only [hs] at h
        split at h
        · rename_i he
          have : Λ1 = [] := by simpa using he
          subst this
          exact .stmt Γ Γ1 Γ' s rest pos cs D (chkS_sound 0 false s Γ [] false Γ1 [] hs) (chkTop_sound rest Γ1 _ _ Γ' D h)
        · cases h

def fidsDistinct : List (Nat × FnInfo) → Bool
  | [] => true
  | q :: rest => rest.all (fun r => q.1 != r.1) && fidsDistinct rest

theorem fidsDistinct_sound : ∀ (D : List (Nat × FnInfo)), fidsDistinct D = true → D.Pairwise (fun x y => x.1 ≠ y.1)
  | [], _ => List.Pairwise.nil
  | q :: rest, h => by
    simp only [fidsDistinct, Bool.and_eq_true, List.all_eq_true, bne_iff_ne] at h
    exact List.Pairwise.cons h.1 (fidsDistinct_sound rest h.2)

/-- the whole validation of a resolved program -/
def inFragment (p : RBlock) : Bool :=
  match chkTop [] p 0 [] with
  | some (_, D) => fidsDistinct D
  | none => false

theorem inFragment_sound (p : RBlock) (h : inFragment p = true) :
    ∃ Γ' D, YTop [] p 0 [] Γ' D ∧ D.Pairwise (fun x y => x.1 ≠ y.1) := by
  unfold inFragment at h
  cases hc : chkTop [] p 0 [] with
  | none => simp [hc] at h
  | some w =>
    obtain ⟨Γ', D⟩ := w
    simp only [hc] at h
    exact ⟨Γ', D, chkTop_sound p [] 0 [] Γ' D hc, fidsDistinct_sound D h⟩

/-- END TO END FROM SOURCE TREES, stage 4, by validation: for any parsed program, if the resolved
    tree the resolver model produces passes the (decidable) fragment check, then compiling and
    running it agrees with the definitional semantics (or stops at the machine's stack limit) -/
theorem fn_source_program (ast : Block) (r : RBlock) (bc : Bytecode) (hc : compileProgram ast = .ok (r, bc))
    (hin : inFragment r = true) (F : Nat) :
    HitsLimit bc ∨
    match evalB F r {} with
    | .val () st' => ∃ Γ' D mv n, VR (lookupD D) Γ' st'.last mv ∧ st'.out = [] ∧
        ∀ k, ∃ s', runSteps bc.code (n + k) (VM.start {} bc) = .value mv s'
    | .err er _ => ∃ n, ∀ k, ∃ s', runSteps bc.code (n + k) (VM.start {} bc) = .error er s'
    | .brk _ => False
    | .cont _ => False
    | .ret _ _ => False
    | _ => True := by
  obtain ⟨Γ', D, hy, hnd⟩ := inFragment_sound r hin
  unfold compileProgram at hc
  cases hr : resolveProgram ast with
  | error e => simp [hr] at hc
  | ok r' =>
    simp only [hr] at hc
    cases hcr : compileR r' with
    | error e => simp [hcr] at hc
    | ok bc' =>
      simp only [hcr] at hc
      injection hc with hc; injection hc with h1 h2; subst h1; subst h2
      have := fn_program r' Γ' D hy hnd bc' hcr F
      rcases this with h | h
      · exact .inl h
      · refine .inr ?_
        cases he : evalB F r' {} with
        | val u st' => rw [he] at h; obtain ⟨mv, n, h1, h2, h3⟩ := h; exact ⟨Γ', D, mv, n, h1, h2, h3⟩
        | err er st' => rw [he] at h; exact h
        | brk _ => rw [he] at h; exact h
        | cont _ => rw [he] at h; exact h
        | ret _ _ => rw [he] at h; exact h
        | fuel => trivial
        | unspec _ => trivial

end SimF
end Nl
