/-
  A bytecode checker for the machine of Model/VM (C02).  It works on the *byte stream*: every
  certified offset must decode to a valid instruction whose operands lie inside the code, and all
  its successors must be certified offsets of the same function.

  certificate: per byte offset, `(owner, h)` = the function the instruction belongs to (entry
  offset; 0 = top-level code) and a LOWER BOUND on the operand-stack height above the owner's
  locals when control is there.  Lower bounds (not exact heights) so that code which is safe but
  unbalanced (finding K3) is accepted.  The certificate is inferred by an untrusted propagation
  (`inferCert`) and then checked (`check`); `Proofs/C02` proves that a checked program never
  makes the machine fault.
-/
import Nlmodel.Model.VM
namespace Nl
namespace Verifier

structure Cert where
  ent : Array (Option (Nat × Nat))
  deriving Inhabited

def Cert.get (c : Cert) (pc : Nat) : Option (Nat × Nat) :=
  match c.ent[pc]? with
  | some (some x) => some x
  | _ => none

/-- function table from the constant pool: (entry, nlocals) -/
def fnTable (consts : List Const) : List (Nat × Nat) :=
  consts.filterMap fun c => match c with | .fn ip nl => some (ip, nl) | _ => none

/-- number of local slots of the function with entry `o` (0 for top-level code) -/
def nlocals (fns : List (Nat × Nat)) (o : Nat) : Nat :=
  match fns.find? (fun p => p.1 == o) with
  | some p => p.2
  | none => 0

/-- successor `t` is certified for the same owner and promises no more than we deliver -/
def succOK (c : Cert) (t o h : Nat) : Bool :=
  match c.get t with
  | some (o', h') => o' == o && decide (h' ≤ h)
  | none => false

/-- the per-instruction rule; `pc'` = offset of the next instruction -/
def checkInstr (c : Cert) (fns : List (Nat × Nat)) (nconsts : Nat) (pc' : Nat) (i : Instr) (o h : Nat) : Bool :=
  match i with
  | .const k => decide (k < nconsts) && succOK c pc' o (h + 1)
  | .pop => decide (1 ≤ h) && succOK c pc' o (h - 1)
  | .true_ | .false_ | .null => succOK c pc' o (h + 1)
  | .bin _ => decide (2 ≤ h) && succOK c pc' o (h - 1)
  | .not | .negate => decide (1 ≤ h) && succOK c pc' o h
  | .jump t => succOK c t o h
  | .jumpIfFalse t => decide (1 ≤ h) && succOK c pc' o (h - 1) && succOK c t o (h - 1)
  | .ret => decide (o ≠ 0)
  | .retv => decide (1 ≤ h) && decide (o ≠ 0)
  | .call argc => decide (argc + 1 ≤ h) && succOK c pc' o (h - argc)
  | .callBuiltin b argc => decide (b ≤ 6) && decide (argc ≤ h) && succOK c pc' o (h - argc + 1)
  | .getLocal k => decide (k < nlocals fns o) && succOK c pc' o (h + 1)
  | .setLocal k => decide (1 ≤ h) && decide (k < nlocals fns o) && succOK c pc' o (h - 1)
  | .getGlobal _ => succOK c pc' o (h + 1)
  | .setGlobal _ => decide (1 ≤ h) && succOK c pc' o (h - 1)
  | .fused _ loc k => decide (loc < nlocals fns o) && decide (k < nconsts) && succOK c pc' o (h + 1)
  | .array n => decide (n ≤ h) && succOK c pc' o (h - n + 1)
  | .indexGet => decide (2 ≤ h) && succOK c pc' o (h - 1)
  | .indexSet => decide (3 ≤ h) && succOK c pc' o (h - 2)
  | .halt => decide (o = 0)

/-- the whole check -/
def check (bc : Bytecode) (c : Cert) : Bool :=
  let fns := fnTable bc.consts
  decide (c.ent.size ≤ bc.code.size) &&
  (c.get 0 == some (0, 0)) &&
  -- every function constant: a certified entry of its own, with height 0, and one locals count per entry
  fns.all (fun p => p.1 != 0 && (c.get p.1 == some (p.1, 0)) && (nlocals fns p.1 == p.2)) &&
  -- every certified offset decodes, and its rule holds
  (List.range c.ent.size).all (fun pc =>
    match c.get pc with
    | none => true
    | some (o, h) =>
      match decodeAt bc.code pc with
      | none => false
      | some i => checkInstr c fns bc.consts.length (pc + i.size) i o h)

/-! ### untrusted certificate inference: forward propagation with `min` at joins -/

/-- successors of instruction `i` at `pc` with heights, or `none` if the rule cannot hold -/
def successors (fns : List (Nat × Nat)) (pc' : Nat) (i : Instr) (h : Nat) : Option (List (Nat × Nat)) :=
  match i with
  | .const _ | .true_ | .false_ | .null | .getLocal _ | .getGlobal _ | .fused .. => some [(pc', h + 1)]
  | .pop | .setLocal _ | .setGlobal _ => if 1 ≤ h then some [(pc', h - 1)] else none
  | .bin _ | .indexGet => if 2 ≤ h then some [(pc', h - 1)] else none
  | .not | .negate => if 1 ≤ h then some [(pc', h)] else none
  | .jump t => some [(t, h)]
  | .jumpIfFalse t => if 1 ≤ h then some [(pc', h - 1), (t, h - 1)] else none
  | .ret | .halt => some []
  | .retv => if 1 ≤ h then some [] else none
  | .call argc => if argc + 1 ≤ h then some [(pc', h - argc)] else none
  | .callBuiltin _ argc => if argc ≤ h then some [(pc', h - argc + 1)] else none
  | .array n => if n ≤ h then some [(pc', h - n + 1)] else none
  | .indexSet => if 3 ≤ h then some [(pc', h - 2)] else none

partial def propagate (bc : Bytecode) (fns : List (Nat × Nat)) (ent : Array (Option (Nat × Nat)))
    (work : List (Nat × Nat × Nat)) : Array (Option (Nat × Nat)) :=
  match work with
  | [] => ent
  | (pc, o, h) :: rest =>
    if pc ≥ ent.size then propagate bc fns ent rest else
    let upd : Option Nat := match ent[pc]! with
      | none => some h
      | some (_, h0) => if h < h0 then some h else none
    match upd with
    | none => propagate bc fns ent rest
    | some hn =>
      let ent := ent.set! pc (some (o, hn))
      match decodeAt bc.code pc with
      | none => propagate bc fns ent rest
      | some i =>
        match successors fns (pc + i.size) i hn with
        | none => propagate bc fns ent rest
        | some ss => propagate bc fns ent (ss.map (fun (t, h') => (t, o, h')) ++ rest)

def inferCert (bc : Bytecode) : Cert :=
  let fns := fnTable bc.consts
  let ent : Array (Option (Nat × Nat)) := Array.replicate bc.code.size none
  let work := (0, 0, 0) :: fns.map (fun p => (p.1, p.1, 0))
  { ent := propagate bc fns ent work }

/-- the verdict used by the check: infer, then check with the verified checker -/
def verify (bc : Bytecode) : Bool := check bc (inferCert bc)

/-- first certified offset whose rule fails (diagnostics only) -/
def firstFailure (bc : Bytecode) (c : Cert) : Option Nat :=
  let fns := fnTable bc.consts
  (List.range c.ent.size).find? fun pc =>
    match c.get pc with
    | none => false
    | some (o, h) =>
      match decodeAt bc.code pc with
      | none => true
      | some i => !checkInstr c fns bc.consts.length (pc + i.size) i o h

end Verifier
end Nl
