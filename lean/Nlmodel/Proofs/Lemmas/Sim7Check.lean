/- Stage 7: a decidable, sound check for membership in the stage-7 fragment (validation of the resolver's output program by
   program), the end-to-end theorems from source trees and from text. -/
import Nlmodel.Proofs.Lemmas.Sim7Program
import Nlmodel.Proofs.Lemmas.Resolve7Fid
namespace Nl
namespace Sim7
open Spec Sim Sim6
open SimH (LitF litFb litFb_sound)
open SimF (FT FnInfo paramScope memG freshG memG_sound freshG_sound gamOKb gamOKb_sound fusedCandidate_varL fusedCandidate_intL)

/-- the name a function literal defines, if the expression is a named function literal -/
def selfOf : RExpr → Option Ref
  | .func _ self _ _ _ => self
  | _ => none

mutual
def chk7E (Δ : Gam) (nl : Nat) (fn : Bool) (Γ Λ : Gam) (ab : Bool) : RExpr → Bool
  | .int _ => true
  | .bool _ => true
  | .float x => litFb x
  | .str _ => true
  | .not e => chk7E Δ nl fn Γ Λ ab e
  | .neg e => chk7E Δ nl fn Γ Λ ab e
  | .infix l op r =>
    match fusedCandidate l op r with
    | none => chk7E Δ nl fn Γ Λ ab l && chk7E Δ nl fn Γ Λ false r
    | some _ =>
      match l, r with
      | .var ⟨b, .loc k⟩, .int _ => memG Λ b k && decide (k < nl)
      | .int _, .var ⟨b, .loc k⟩ => memG Λ b k && decide (k < nl)
      | _, _ => false
  | .var ⟨b, .global k⟩ => memG Γ b k
  | .var ⟨b, .loc k⟩ => memG Λ b k && decide (k < nl)
  | .assignVar ⟨b, .global k⟩ e => memG Γ b k && chk7E Δ nl fn Γ Λ ab e
  | .assignVar ⟨b, .loc k⟩ e => memG Λ b k && decide (k < nl) && chk7E Δ nl fn Γ Λ ab e
  | .arr vs => chk7Es Δ nl fn Γ Λ vs
  | .index l i => chk7E Δ nl fn Γ Λ ab l && chk7E Δ nl fn Γ Λ false i
  | .assignIndex l i v => chk7E Δ nl fn Γ Λ ab l && chk7E Δ nl fn Γ Λ false i && chk7E Δ nl fn Γ Λ false v
  | .callBuiltin _ as => chk7Es Δ nl fn Γ Λ as
  | .ifE c t e => chk7E Δ nl fn Γ Λ ab c && (chk7B Δ nl fn Γ Λ ab t).isSome && chk7O Δ nl fn Γ Λ ab e
  | .whileE c b => chk7E Δ nl fn Γ Λ false c && (chk7B Δ nl fn Γ Λ true b).isSome
  | .call f as => chk7Es Δ nl fn Γ Λ as && chk7E Δ nl fn Γ Λ false f
  | .func _ self ps nlf body =>
    self.isNone && (chk7B Δ nlf true Δ (paramScope ps) false body).isSome && gamOKb (paramScope ps) &&
      (paramScope ps).all (fun p => decide (p.2 < nlf))
/-- a function literal (named or not) whose body is a function body of the fragment over the globals `Δ` -/
def chk7Fn (Δ : Gam) : RExpr → Bool
  | .func _ _ ps nlf body =>
    (chk7B Δ nlf true Δ (paramScope ps) false body).isSome && gamOKb (paramScope ps) && (paramScope ps).all (fun p => decide (p.2 < nlf))
  | _ => false
def chk7Es (Δ : Gam) (nl : Nat) (fn : Bool) (Γ Λ : Gam) : RExprs → Bool
  | .nil => true
  | .cons e es => chk7E Δ nl fn Γ Λ false e && chk7Es Δ nl fn Γ Λ es
def chk7O (Δ : Gam) (nl : Nat) (fn : Bool) (Γ Λ : Gam) (ab : Bool) : ROptBlock → Bool
  | .none => true
  | .some b => (chk7B Δ nl fn Γ Λ ab b).isSome
def chk7S (Δ : Gam) (nl : Nat) (fn : Bool) (Γ Λ : Gam) (ab : Bool) : RStmt → Option (Gam × Gam)
  | .expr e =>
    match selfOf e with
    | none => if chk7E Δ nl fn Γ Λ ab e then some (Γ, Λ) else none
    | some ⟨b, .global k⟩ => if !fn && freshG Γ b k && chk7Fn Δ e then some ((b, k) :: Γ, Λ) else none
    | some ⟨b, .loc k⟩ => if fn && freshG Λ b k && decide (k < nl) && chk7Fn Δ e then some (Γ, (b, k) :: Λ) else none
  | .letS ⟨b, .global k⟩ e =>
    if !fn && freshG Γ b k && chk7E Δ nl fn ((b, k) :: Γ) Λ ab e then some ((b, k) :: Γ, Λ) else none
  | .letS ⟨b, .loc k⟩ e =>
    if fn && freshG Λ b k && decide (k < nl) && chk7E Δ nl fn Γ ((b, k) :: Λ) ab e then some (Γ, (b, k) :: Λ) else none
  | .block b => if (chk7B Δ nl fn Γ Λ ab b).isSome then some (Γ, Λ) else none
  | .brk => if ab then some (Γ, Λ) else none
  | .cont => if ab then some (Γ, Λ) else none
  | .ret e => if fn && chk7E Δ nl fn Γ Λ ab e then some (Γ, Λ) else none
def chk7B (Δ : Gam) (nl : Nat) (fn : Bool) (Γ Λ : Gam) (ab : Bool) : RBlock → Option (Gam × Gam)
  | .nil => some (Γ, Λ)
  | .cons s b =>
    match chk7S Δ nl fn Γ Λ ab s with
    | some (Γ1, Λ1) => chk7B Δ nl fn Γ1 Λ1 ab b
    | none => none
end

mutual
theorem chk7E_sound (Δ : Gam) : (e : RExpr) → ∀ (nl : Nat) (fn : Bool) (Γ Λ : Gam) (ab : Bool), chk7E Δ nl fn Γ Λ ab e = true → Z7E Δ nl fn Γ Λ ab e
  | .int v, nl, fn, Γ, Λ, ab, _ => .int _ _ _ v
  | .bool b, nl, fn, Γ, Λ, ab, _ => .bool _ _ _ b
  | .float x, nl, fn, Γ, Λ, ab, h => by simp only [chk7E] at h; exact .float _ _ _ x (litFb_sound x h)
  | .str s, nl, fn, Γ, Λ, ab, _ => .str _ _ _ s
  | .not e, nl, fn, Γ, Λ, ab, h => by simp only [chk7E] at h; exact .not _ _ _ e (chk7E_sound Δ e nl fn Γ Λ ab h)
  | .neg e, nl, fn, Γ, Λ, ab, h => by simp only [chk7E] at h; exact .neg _ _ _ e (chk7E_sound Δ e nl fn Γ Λ ab h)
  | .infix l op r, nl, fn, Γ, Λ, ab, h => by
    simp only [chk7E] at h
    cases hfc : fusedCandidate l op r with
    | none =>
      simp only [hfc, Bool.and_eq_true] at h
      exact .bin _ _ _ l op r hfc (chk7E_sound Δ l nl fn Γ Λ ab h.1) (chk7E_sound Δ r nl fn Γ Λ false h.2)
    | some p =>
      simp only [hfc] at h
      split at h
      · rename_i b k v
        simp only [Bool.and_eq_true, decide_eq_true_eq] at h
        have hp := fusedCandidate_varL b k op v p hfc
        subst hp
        exact .fusedL _ _ _ b k op v (memG_sound h.1) h.2 hfc
      · rename_i v b k
        simp only [Bool.and_eq_true, decide_eq_true_eq] at h
        obtain ⟨op', hm⟩ := fusedCandidate_intL b k op v p hfc
        exact .fusedR _ _ _ b k op op' v (memG_sound h.1) h.2 hm
      · cases h
  | .var ⟨b, .global k⟩, nl, fn, Γ, Λ, ab, h => by simp only [chk7E] at h; exact .varG _ _ _ b k (memG_sound h)
  | .var ⟨b, .loc k⟩, nl, fn, Γ, Λ, ab, h => by
    simp only [chk7E, Bool.and_eq_true, decide_eq_true_eq] at h; exact .varL _ _ _ b k (memG_sound h.1) h.2
  | .assignVar ⟨b, .global k⟩ e, nl, fn, Γ, Λ, ab, h => by
    simp only [chk7E, Bool.and_eq_true] at h; exact .assignG _ _ _ b k e (memG_sound h.1) (chk7E_sound Δ e nl fn Γ Λ ab h.2)
  | .assignVar ⟨b, .loc k⟩ e, nl, fn, Γ, Λ, ab, h => by
    simp only [chk7E, Bool.and_eq_true, decide_eq_true_eq] at h
    exact .assignL _ _ _ b k e (memG_sound h.1.1) h.1.2 (chk7E_sound Δ e nl fn Γ Λ ab h.2)
  | .arr vs, nl, fn, Γ, Λ, ab, h => by simp only [chk7E] at h; exact .arr _ _ _ vs (chk7Es_sound Δ vs nl fn Γ Λ h)
  | .index l i, nl, fn, Γ, Λ, ab, h => by
    simp only [chk7E, Bool.and_eq_true] at h
    exact .index _ _ _ l i (chk7E_sound Δ l nl fn Γ Λ ab h.1) (chk7E_sound Δ i nl fn Γ Λ false h.2)
  | .assignIndex l i v, nl, fn, Γ, Λ, ab, h => by
    simp only [chk7E, Bool.and_eq_true] at h
    exact .assignIndex _ _ _ l i v (chk7E_sound Δ l nl fn Γ Λ ab h.1.1) (chk7E_sound Δ i nl fn Γ Λ false h.1.2) (chk7E_sound Δ v nl fn Γ Λ false h.2)
  | .callBuiltin b as, nl, fn, Γ, Λ, ab, h => by simp only [chk7E] at h; exact .builtin _ _ _ b as (chk7Es_sound Δ as nl fn Γ Λ h)
  | .ifE c t e, nl, fn, Γ, Λ, ab, h => by
    simp only [chk7E, Bool.and_eq_true] at h
    obtain ⟨⟨hc, ht⟩, he⟩ := h
    cases hb : chk7B Δ nl fn Γ Λ ab t with
    | none => simp [hb] at ht
    | some q => exact .ifE _ _ _ c t e q.1 q.2 (chk7E_sound Δ c nl fn Γ Λ ab hc) (chk7B_sound Δ t nl fn Γ Λ ab q.1 q.2 hb) (chk7O_sound Δ e nl fn Γ Λ ab he)
  | .whileE c b, nl, fn, Γ, Λ, ab, h => by
    simp only [chk7E, Bool.and_eq_true] at h
    cases hb : chk7B Δ nl fn Γ Λ true b with
    | none => simp [hb] at h
    | some q => exact .whileE _ _ _ c b q.1 q.2 (chk7E_sound Δ c nl fn Γ Λ false h.1) (chk7B_sound Δ b nl fn Γ Λ true q.1 q.2 hb)
  | .call f as, nl, fn, Γ, Λ, ab, h => by
    simp only [chk7E, Bool.and_eq_true] at h
    exact .call _ _ _ f as (chk7Es_sound Δ as nl fn Γ Λ h.1) (chk7E_sound Δ f nl fn Γ Λ false h.2)
  | .func fid self ps nlf body, nl, fn, Γ, Λ, ab, h => by
    simp only [chk7E, Bool.and_eq_true, List.all_eq_true, decide_eq_true_eq] at h
    obtain ⟨⟨⟨h0, h1⟩, h2⟩, h3⟩ := h
    cases self with
    | some r => simp at h0
    | none =>
      cases hb : chk7B Δ nlf true Δ (paramScope ps) false body with
      | none => simp [hb] at h1
      | some z => exact .func _ _ _ fid ps nlf body z.1 z.2 (chk7B_sound Δ body nlf true Δ (paramScope ps) false z.1 z.2 hb) (gamOKb_sound _ h2) h3
theorem chk7Fn_sound (Δ : Gam) : (e : RExpr) → chk7Fn Δ e = true →
    ∃ fid self ps nlf body Γb Λb, e = .func fid self ps nlf body ∧ Z7B Δ nlf true Δ (paramScope ps) false body Γb Λb ∧
      GamOK (paramScope ps) ∧ (∀ p ∈ paramScope ps, p.2 < nlf)
  | .func fid self ps nlf body, h => by
    simp only [chk7Fn, Bool.and_eq_true, List.all_eq_true, decide_eq_true_eq] at h
    obtain ⟨⟨h1, h2⟩, h3⟩ := h
    cases hb : chk7B Δ nlf true Δ (paramScope ps) false body with
    | none => simp [hb] at h1
    | some z => exact ⟨fid, self, ps, nlf, body, z.1, z.2, rfl, chk7B_sound Δ body nlf true Δ (paramScope ps) false z.1 z.2 hb, gamOKb_sound _ h2, h3⟩
  | .int _, h => by simp [chk7Fn] at h
  | .float _, h => by simp [chk7Fn] at h
  | .bool _, h => by simp [chk7Fn] at h
  | .str _, h => by simp [chk7Fn] at h
  | .var _, h => by simp [chk7Fn] at h
  | .not _, h => by simp [chk7Fn] at h
  | .neg _, h => by simp [chk7Fn] at h
  | .infix _ _ _, h => by simp [chk7Fn] at h
  | .ifE _ _ _, h => by simp [chk7Fn] at h
  | .call _ _, h => by simp [chk7Fn] at h
  | .callBuiltin _ _, h => by simp [chk7Fn] at h
  | .assignVar _ _, h => by simp [chk7Fn] at h
  | .assignIndex _ _ _, h => by simp [chk7Fn] at h
  | .arr _, h => by simp [chk7Fn] at h
  | .index _ _, h => by simp [chk7Fn] at h
  | .whileE _ _, h => by simp [chk7Fn] at h
theorem chk7Es_sound (Δ : Gam) : (es : RExprs) → ∀ (nl : Nat) (fn : Bool) (Γ Λ : Gam), chk7Es Δ nl fn Γ Λ es = true → Z7Es Δ nl fn Γ Λ es
  | .nil, nl, fn, Γ, Λ, _ => .nil _ _
  | .cons e es, nl, fn, Γ, Λ, h => by
    simp only [chk7Es, Bool.and_eq_true] at h
    exact .cons _ _ e es (chk7E_sound Δ e nl fn Γ Λ false h.1) (chk7Es_sound Δ es nl fn Γ Λ h.2)
theorem chk7O_sound (Δ : Gam) : (o : ROptBlock) → ∀ (nl : Nat) (fn : Bool) (Γ Λ : Gam) (ab : Bool), chk7O Δ nl fn Γ Λ ab o = true → Z7O Δ nl fn Γ Λ ab o
  | .none, nl, fn, Γ, Λ, ab, _ => .none _ _ _
  | .some b, nl, fn, Γ, Λ, ab, h => by
    simp only [chk7O] at h
    cases hb : chk7B Δ nl fn Γ Λ ab b with
    | none => simp [hb] at h
    | some q => exact .some _ _ _ b q.1 q.2 (chk7B_sound Δ b nl fn Γ Λ ab q.1 q.2 hb)
theorem chk7S_sound (Δ : Gam) : (s : RStmt) → ∀ (nl : Nat) (fn : Bool) (Γ Λ : Gam) (ab : Bool) (Γ1 Λ1 : Gam), chk7S Δ nl fn Γ Λ ab s = some (Γ1, Λ1) →
    Z7S Δ nl fn Γ Λ ab s Γ1 Λ1
  | .expr e, nl, fn, Γ, Λ, ab, Γ1, Λ1, h => by
    simp only [chk7S] at h
    cases hself : selfOf e with
    | none =>
      simp only [hself] at h
      split at h
      · rename_i hc; injection h with h; injection h with h1 h2; subst h1; subst h2
        exact .expr _ _ _ e (chk7E_sound Δ e nl fn Γ Λ ab hc)
      · cases h
    | some r =>
      obtain ⟨b, slot⟩ := r
      cases slot with
      | global k =>
        simp only [hself] at h
        split at h
        · rename_i hc; injection h with h; injection h with h1 h2; subst h1; subst h2
          simp only [Bool.and_eq_true, Bool.not_eq_true'] at hc
          obtain ⟨fid, self, ps, nlf, body, Γb, Λb, he, hb, hpok, hpsz⟩ := chk7Fn_sound Δ e hc.2
          subst he
          simp only [selfOf] at hself
          subst hself
          exact .fdefG _ _ _ fid b k ps nlf body Γb Λb hc.1.1 (freshG_sound hc.1.2) hb hpok hpsz
        · cases h
      | loc k =>
        simp only [hself] at h
        split at h
        · rename_i hc; injection h with h; injection h with h1 h2; subst h1; subst h2
          simp only [Bool.and_eq_true, decide_eq_true_eq] at hc
          obtain ⟨fid, self, ps, nlf, body, Γb, Λb, he, hb, hpok, hpsz⟩ := chk7Fn_sound Δ e hc.2
          subst he
          simp only [selfOf] at hself
          subst hself
          exact .fdefL _ _ _ fid b k ps nlf body Γb Λb hc.1.1.1 (freshG_sound hc.1.1.2) hc.1.2 hb hpok hpsz
        · cases h
  | .letS ⟨b, .global k⟩ e, nl, fn, Γ, Λ, ab, Γ1, Λ1, h => by
    simp only [chk7S] at h
    split at h
    · rename_i hc; injection h with h; injection h with h1 h2; subst h1; subst h2
      simp only [Bool.and_eq_true, Bool.not_eq_true'] at hc
      exact .letG _ _ _ b k e hc.1.1 (freshG_sound hc.1.2) (chk7E_sound Δ e nl fn _ Λ ab hc.2)
    · cases h
  | .letS ⟨b, .loc k⟩ e, nl, fn, Γ, Λ, ab, Γ1, Λ1, h => by
    simp only [chk7S] at h
    split at h
    · rename_i hc; injection h with h; injection h with h1 h2; subst h1; subst h2
      simp only [Bool.and_eq_true, decide_eq_true_eq] at hc
      exact .letL _ _ _ b k e hc.1.1.1 (freshG_sound hc.1.1.2) hc.1.2 (chk7E_sound Δ e nl fn Γ _ ab hc.2)
    · cases h
  | .block b, nl, fn, Γ, Λ, ab, Γ1, Λ1, h => by
    simp only [chk7S] at h
    split at h
    · rename_i hc; injection h with h; injection h with h1 h2; subst h1; subst h2
      cases hb : chk7B Δ nl fn Γ Λ ab b with
      | none => simp [hb] at hc
      | some q => exact .block _ _ _ b q.1 q.2 (chk7B_sound Δ b nl fn Γ Λ ab q.1 q.2 hb)
    · cases h
  | .brk, nl, fn, Γ, Λ, ab, Γ1, Λ1, h => by
    simp only [chk7S] at h
    split at h
    · rename_i hc; injection h with h; injection h with h1 h2; subst h1; subst h2; subst hc; exact .brk _ _
    · cases h
  | .cont, nl, fn, Γ, Λ, ab, Γ1, Λ1, h => by
    simp only [chk7S] at h
    split at h
    · rename_i hc; injection h with h; injection h with h1 h2; subst h1; subst h2; subst hc; exact .cont _ _
    · cases h
  | .ret e, nl, fn, Γ, Λ, ab, Γ1, Λ1, h => by
    simp only [chk7S] at h
    split at h
    · rename_i hc; injection h with h; injection h with h1 h2; subst h1; subst h2
      simp only [Bool.and_eq_true] at hc
      exact .ret _ _ _ e hc.1 (chk7E_sound Δ e nl fn Γ Λ ab hc.2)
    · cases h
theorem chk7B_sound (Δ : Gam) : (b : RBlock) → ∀ (nl : Nat) (fn : Bool) (Γ Λ : Gam) (ab : Bool) (Γ1 Λ1 : Gam), chk7B Δ nl fn Γ Λ ab b = some (Γ1, Λ1) →
    Z7B Δ nl fn Γ Λ ab b Γ1 Λ1
  | .nil, nl, fn, Γ, Λ, ab, Γ1, Λ1, h => by
    simp only [chk7B] at h; injection h with h; injection h with h1 h2; subst h1; subst h2; exact .nil _ _ _
  | .cons s b, nl, fn, Γ, Λ, ab, Γ1, Λ1, h => by
    simp only [chk7B] at h
    cases hs : chk7S Δ nl fn Γ Λ ab s with
    | none => simp [hs] at h
    | some q =>
      obtain ⟨Γ2, Λ2⟩ := q
      simp only [hs] at h
      exact .cons _ _ _ Γ2 Λ2 _ _ s b (chk7S_sound Δ s nl fn Γ Λ ab Γ2 Λ2 hs) (chk7B_sound Δ b nl fn Γ2 Λ2 ab Γ1 Λ1 h)
end

/-- top-level sequences: `stel` and named function statements extend the persistent scope (and see their own name) -/
def chkTop7 (Γ : Gam) : RBlock → Option Gam
  | .nil => some Γ
  | .cons s rest =>
    match s with
    | .letS ⟨b, .global k⟩ e =>
      if freshG Γ b k && chk7E ((b, k) :: Γ) 0 false ((b, k) :: Γ) [] false e then chkTop7 ((b, k) :: Γ) rest else none
    | .letS ⟨_, .loc _⟩ _ => none
    | .block b => if (chk7B Γ 0 false Γ [] false b).isSome then chkTop7 Γ rest else none
    | .expr e =>
      match selfOf e with
      | none => if chk7E Γ 0 false Γ [] false e then chkTop7 Γ rest else none
      | some ⟨b, .global k⟩ => if freshG Γ b k && chk7Fn ((b, k) :: Γ) e then chkTop7 ((b, k) :: Γ) rest else none
      | some ⟨_, .loc _⟩ => none
    | .ret _ => none
    | .brk => none
    | .cont => none

theorem chkTop7_sound : ∀ (b : RBlock) (Γ Γ' : Gam), chkTop7 Γ b = some Γ' → ZTop7 Γ b Γ'
  | .nil, Γ, Γ', h => by simp only [chkTop7] at h; injection h with h; subst h; exact .nil _
  | .cons (.letS ⟨b, .global k⟩ e) rest, Γ, Γ', h => by
    simp only [chkTop7] at h
    split at h
    · rename_i hc
      simp only [Bool.and_eq_true] at hc
      exact .letS Γ Γ' b k e rest (freshG_sound hc.1) (chk7E_sound _ e _ _ _ _ _ hc.2) (chkTop7_sound rest _ _ h)
    · cases h
  | .cons (.letS ⟨_, .loc _⟩ _) rest, Γ, Γ', h => by simp [chkTop7] at h
  | .cons (.block b) rest, Γ, Γ', h => by
    simp only [chkTop7] at h
    split at h
    · rename_i hc
      cases hb : chk7B Γ 0 false Γ [] false b with
      | none => simp [hb] at hc
      | some z => exact .blockS Γ Γ' b z.1 z.2 rest (chk7B_sound Γ b 0 false Γ [] false z.1 z.2 hb) (chkTop7_sound rest _ _ h)
    · cases h
  | .cons (.expr e) rest, Γ, Γ', h => by
    simp only [chkTop7] at h
    cases hself : selfOf e with
    | none =>
      simp only [hself] at h
      split at h
      · rename_i hc
        exact .exprS Γ Γ' e rest (chk7E_sound Γ e 0 false Γ [] false hc) (chkTop7_sound rest _ _ h)
      · cases h
    | some r =>
      obtain ⟨b, slot⟩ := r
      cases slot with
      | loc k => simp [hself] at h
      | global k =>
        simp only [hself] at h
        split at h
        · rename_i hc
          simp only [Bool.and_eq_true] at hc
          obtain ⟨fid, self, ps, nlf, body, Γb, Λb, he, hb, hpok, hpsz⟩ := chk7Fn_sound _ e hc.2
          subst he
          simp only [selfOf] at hself
          subst hself
          exact .fdef Γ Γ' fid b k ps nlf body Γb Λb rest (freshG_sound hc.1) hb hpok hpsz (chkTop7_sound rest _ _ h)
        · cases h
  | .cons (.ret _) rest, Γ, Γ', h => by simp [chkTop7] at h
  | .cons .brk rest, Γ, Γ', h => by simp [chkTop7] at h
  | .cons .cont rest, Γ, Γ', h => by simp [chkTop7] at h

/-- the whole validation of a resolved program: membership in the stage-7 fragment. (That the function ids of all literals
    are pairwise distinct, and their entry points too, is PROVED for every output of the resolver: `resolve_fids_distinct`,
    `ipsTop`.) -/
def inFragment7 (p : RBlock) : Bool := (chkTop7 [] p).isSome

theorem inFragment7_sound (p : RBlock) (h : inFragment7 p = true) : ∃ Γ', ZTop7 [] p Γ' := by
  unfold inFragment7 at h
  cases hc : chkTop7 [] p with
  | none => simp [hc] at h
  | some Γ' => exact ⟨Γ', chkTop7_sound p [] Γ' hc⟩

/-- END TO END FROM SOURCE TREES, stage 7, by validation: for any parsed program, if the resolved tree the resolver
    model produces passes the (decidable) fragment check, then compiling and running it — with a collection at every
    return — agrees with the definitional semantics: same deep view of the result (nested arrays, strings, floats,
    cycles, function values), same printed output, same error after the same output; or the machine stops at its
    stack/frame limit -/
theorem program7 (ast : Block) (r : RBlock) (bc : Bytecode) (hc : compileProgram ast = .ok (r, bc)) (hin : inFragment7 r = true) (F : Nat) :
    HitsLimit bc ∨
    match evalB F r {} with
    | .val () st' => ∃ mv n s', (∀ k, runSteps bc.code (n + k) (VM.start {} bc) = .value mv s') ∧
        s'.mem.heap.tree treeDepth [] mv = st'.tree treeDepth [] st'.last ∧ s'.out = st'.out ∧
        (finishValue mv s').mem.heap.tree treeDepth [] mv = s'.mem.heap.tree treeDepth [] mv
    | .err er ste => ∃ n s', (∀ k, runSteps bc.code (n + k) (VM.start {} bc) = .error er s') ∧ s'.out = ste.out
    | .brk _ => False
    | .cont _ => False
    | .ret _ _ => False
    | _ => True := by
  obtain ⟨Γ', hy⟩ := inFragment7_sound r hin
  unfold compileProgram at hc
  cases hr : resolveProgram ast with
  | error e => simp [hr] at hc
  | ok r' =>
    simp only [hr] at hc
    cases hcr : compileR r' with
    | error e => simp [hcr] at hc
    | ok bc' =>
      simp only [hcr] at hc
      injection hc with hc; injection hc with h1 h2; subst h1; subst h2
      exact top_program7 r' Γ' hy (resolve_fids_distinct ast r' hr) bc' hcr F

/-- THE OBSERVATION ITSELF, stage 7: for a text whose resolved tree lies in the fragment, whatever the definitional
    semantics answers with some fuel (a value with its printed output, or an error after its printed output) is
    exactly what `eval` answers on the machine for every large enough instruction budget — collections at every
    return, the hand-over of the result at `Halt` (`untrace`) and the release of everything else (`destroy`)
    included — unless the machine stops at its stack/frame limit -/
theorem eval_text7 (cc : CharClass) (src : Text) (ast : Block) (r : RBlock) (bc : Bytecode) (hp : parse cc src = .ok ast)
    (hc : compileProgram ast = .ok (r, bc)) (hin : inFragment7 r = true) (F : Nat) :
    TextHitsLimit cc src ∨
    match specText cc F src with
    | .value t out => ∃ n, ∀ k, evalText cc (n + k) src = .value t out
    | .error e out => ∃ n, ∀ k, evalText cc (n + k) src = .error e out
    | .fault _ => False
    | _ => True := by
  have hsim := program7 ast r bc hc hin F
  have hres : resolveProgram ast = .ok r := by
    unfold compileProgram at hc
    cases hr : resolveProgram ast with
    | error e => simp [hr] at hc
    | ok r' =>
      simp only [hr] at hc
      cases hcr : compileR r' with
      | error e => simp [hcr] at hc
      | ok bc' => simp only [hcr] at hc; injection hc with hc; injection hc with h1 h2; rw [h1]
  rcases hsim with hlim | hsim
  · exact .inl (TextHitsLimit.of hp hc hlim)
  right
  simp only [specText, hp, hres, Spec.evalProgram]
  cases hr : evalB F r {} with
  | val u st' =>
    rw [hr] at hsim
    obtain ⟨mv, n, s', hn, ht, ho, hf⟩ := hsim
    refine ⟨n, fun k => ?_⟩
    simp only [evalText, hp, hc, VM.run, hn k]
    rw [hf, ht]
    have : (finishValue mv s').out = s'.out := rfl
    rw [this, ho]
  | err er ste =>
    rw [hr] at hsim
    obtain ⟨n, s', hn, ho⟩ := hsim
    refine ⟨n, fun k => ?_⟩
    simp only [evalText, hp, hc, VM.run, hn k]
    have : (finishError s').out = s'.out := rfl
    rw [this, ho]
  | fuel => trivial
  | brk _ => rw [hr] at hsim; exact hsim.elim
  | cont _ => rw [hr] at hsim; exact hsim.elim
  | ret _ _ => rw [hr] at hsim; exact hsim.elim
  | unspec _ => trivial

end Sim7
end Nl
