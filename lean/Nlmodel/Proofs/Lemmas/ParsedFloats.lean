/- Float literals the parser produces are non-negative and not NaN: every `.float x` node of a parsed
   program satisfies `SimH.LitF x` (the hypothesis the source-level fragments carry for literals).

   * the lexer only makes a float token from a text that starts with a digit (`lex_tokens_ok`);
   * on such a text `F64.parseDec` has no sign and no `inf`/`nan` spelling to read, so it answers
     `ofDecimal false m e`, whose sign bit is clear and whose magnitude is at most `infBits`
     (`parseFloatLit_litF`);
   * every tree any of the seven parser functions returns carries only such literals (`parse_allLitF`). -/
import Nlmodel.Proofs.Lemmas.SimHGoal
namespace Nl
open F64

/-! ### the predicate on trees -/

mutual
def Expr.AllLitF : Expr → Prop
  | .infix l _ r => l.AllLitF ∧ r.AllLitF
  | .pre _ r => r.AllLitF
  | .int _ => True
  | .float x => SimH.LitF x
  | .bool _ => True
  | .ifE c t e => c.AllLitF ∧ t.AllLitF ∧ e.AllLitF
  | .ident _ => True
  | .func _ _ b => b.AllLitF
  | .call f as => f.AllLitF ∧ as.AllLitF
  | .assign l r => l.AllLitF ∧ r.AllLitF
  | .str _ => True
  | .arr vs => vs.AllLitF
  | .index l i => l.AllLitF ∧ i.AllLitF
  | .whileE c b => c.AllLitF ∧ b.AllLitF
def Stmt.AllLitF : Stmt → Prop
  | .letS _ e => e.AllLitF
  | .ret e => e.AllLitF
  | .expr e => e.AllLitF
  | .block b => b.AllLitF
  | .brk => True
  | .cont => True
def Block.AllLitF : Block → Prop
  | .nil => True
  | .cons s b => s.AllLitF ∧ b.AllLitF
def Exprs.AllLitF : Exprs → Prop
  | .nil => True
  | .cons e es => e.AllLitF ∧ es.AllLitF
def OptBlock.AllLitF : OptBlock → Prop
  | .none => True
  | .some b => b.AllLitF
end

namespace ParsedFloats

/-! ### the float a digit-led text denotes -/

theorem infBits_lt : infBits < signBit := by unfold infBits signBit; omega

theorem clamp_le (b : Nat) : (if b ≥ infBits then infBits else b) ≤ infBits := by
  split
  · exact Nat.le_refl _
  · omega

theorem roundMag_le (n d : Nat) : roundMag n d ≤ infBits := by
  unfold roundMag
  split
  · exact Nat.zero_le _
  · exact clamp_le _

/-- a magnitude up to `infBits` with the sign bit clear: not negative, not NaN -/
theorem litF_mk (k : Nat) (hk : k ≤ infBits) : SimH.LitF (mk false k) := by
  have h1 : infBits < signBit := infBits_lt
  have h2 : signBit < 2 ^ 64 := by unfold signBit; omega
  have e : (mk false k).toNat = k := by
    simp only [mk, Bool.false_eq_true, ↓reduceIte, UInt64.toNat_ofNat']
    exact Nat.mod_eq_of_lt (by omega)
  constructor
  · simp only [isNeg, e, ge_iff_le, decide_eq_false_iff_not]; omega
  · simp only [isNaN, absBits, e, gt_iff_lt, decide_eq_false_iff_not]
    rw [Nat.mod_eq_of_lt (by omega)]; omega

theorem litF_ofDecimal (m : Nat) (e : Int) : SimH.LitF (ofDecimal false m e) := by
  unfold ofDecimal
  split
  · exact litF_mk 0 (Nat.zero_le _)
  · split
    · exact litF_mk _ (roundMag_le _ _)
    · exact litF_mk _ (roundMag_le _ _)

theorem litF_zero : SimH.LitF 0 := litF_mk 0 (Nat.zero_le _)

theorem digit_val (c : Char) (hc : c.isDigit = true) : 48 ≤ c.val.toNat ∧ c.val.toNat ≤ 57 := by
  simp only [Char.isDigit, Bool.and_eq_true, decide_eq_true_eq] at hc
  exact ⟨UInt32.le_iff_toNat_le.1 hc.1, UInt32.le_iff_toNat_le.1 hc.2⟩

theorem char_ne_of_val (c d : Char) (h : c.val.toNat ≠ d.val.toNat) : c ≠ d := by
  intro e; subst e; exact h rfl

/-- on a text that starts with a digit `parseDec` reads no sign and no `inf`/`nan` -/
theorem parseDec_digit (c : Char) (r : List Char) (hc : c.isDigit = true) (x : Bits) (h : parseDec (c :: r) = some x) :
    ∃ m e, x = ofDecimal false m e := by
  have hv := digit_val c hc
  have h1 : c ≠ '-' := char_ne_of_val _ _ (by have : ('-' : Char).val.toNat = 45 := rfl; omega)
  have h2 : c ≠ '+' := char_ne_of_val _ _ (by have : ('+' : Char).val.toNat = 43 := rfl; omega)
  unfold parseDec at h
  split at h
  rename_i x0 eneg r'' heq
  have he : eneg = false ∧ r'' = c :: r := by
    split at heq
    · rename_i e; injection e with e _; exact absurd e h1
    · rename_i e; injection e with e _; exact absurd e h2
    · injection heq with e1 e2; exact ⟨e1.symm, e2.symm⟩
  obtain ⟨e1, e2⟩ := he
  subst e1; subst e2
  clear heq
  have hlow : lowerAscii c = c := by
    unfold lowerAscii
    have : ¬ ('A' ≤ c ∧ c ≤ 'Z') := by
      intro ⟨h1, _⟩
      have h1' : 'A'.val ≤ c.val := h1
      have : 65 ≤ c.val.toNat := UInt32.le_iff_toNat_le.1 h1'
      omega
    simp [this]
  have hi : c ≠ 'i' := char_ne_of_val _ _ (by have : ('i' : Char).val.toNat = 105 := rfl; omega)
  have hn : c ≠ 'n' := char_ne_of_val _ _ (by have : ('n' : Char).val.toNat = 110 := rfl; omega)
  simp only [List.map_cons, hlow] at h
  have n1 : ¬ (c :: List.map lowerAscii r = "inf".toList) := by simp [hi]
  have n2 : ¬ (c :: List.map lowerAscii r = "infinity".toList) := by simp [hi]
  have n3 : ¬ (c :: List.map lowerAscii r = "nan".toList) := by simp [hn]
  simp only [n1, n2, n3, decide_false, Bool.or_false, Bool.false_eq_true, ↓reduceIte] at h
  repeat' (split at h)
  all_goals first | (cases h; done) | (injection h with h; exact ⟨_, _, h.symm⟩)

/-- what the lexer guarantees about a float token's text -/
def DigitLed (s : Text) : Prop := ∃ c r, s = c :: r ∧ c.isDigit = true

/-- THE CORE FACT: the literal `parseFloatLit` builds from a digit-led text is non-negative and not NaN -/
theorem parseFloatLit_litF (s : Text) (hs : DigitLed s) (x : UInt64) (h : parseFloatLit s = .float x) : SimH.LitF x := by
  obtain ⟨c, r, rfl, hc⟩ := hs
  unfold parseFloatLit at h
  cases hp : parseDec (c :: r) with
  | none => rw [hp] at h; injection h with h; subst h; exact litF_zero
  | some b =>
    rw [hp] at h; injection h with h; subst h
    obtain ⟨m, e, rfl⟩ := parseDec_digit c r hc b hp
    exact litF_ofDecimal m e

theorem parseFloatLit_allLitF (s : Text) (hs : DigitLed s) : (parseFloatLit s).AllLitF := by
  cases hp : parseFloatLit s with
  | float x => simp only [Expr.AllLitF]; exact parseFloatLit_litF s hs x hp
  | _ => unfold parseFloatLit at hp; split at hp <;> cases hp

/-! ### the lexer: float tokens are digit-led -/

def TokOK : Token → Prop
  | .float s => DigitLed s
  | _ => True

def TsOK (ts : List Token) : Prop := ∀ t, t ∈ ts → TokOK t

theorem keywordOrIdent_ok (s : Text) : TokOK (keywordOrIdent s) := by
  unfold keywordOrIdent
  split
  · rename_i p hp
    have hm := List.mem_of_find?_eq_some hp
    simp only [keywordTable, List.mem_cons, List.not_mem_nil, or_false] at hm
    rcases hm with e | e | e | e | e | e | e | e | e | e <;> subst e <;> trivial
  · trivial

theorem ite_fst_ok (c : Prop) [Decidable c] (a b : Token × Bool) (ha : TokOK a.1) (hb : TokOK b.1) :
    TokOK (if c then a else b).1 := by
  by_cases h : c
  · rw [if_pos h]; exact ha
  · rw [if_neg h]; exact hb

theorem punct_ok (c : Char) (nx : Option Char) : TokOK (punct c nx).1 := by
  unfold punct
  repeat' (apply ite_fst_ok)
  all_goals exact True.intro

theorem nextToken_ok (cc : CharClass) : ∀ (f : Nat) (cs : Text) (t : Token) (rest : Text),
    nextToken cc f cs = some (t, rest) → TokOK t := by
  intro f
  induction f with
  | zero => intro cs t rest h; simp [nextToken] at h
  | succ f ih =>
    intro cs t rest h
    cases cs with
    | nil => simp [nextToken] at h
    | cons c cs =>
      simp only [nextToken] at h
      by_cases c1 : identStart cc c = true
      · rw [if_pos c1] at h
        injection h with h; injection h with h1 _; subst h1; exact keywordOrIdent_ok _
      · rw [if_neg c1] at h
        by_cases c2 : isDigit c = true
        · rw [if_pos c2] at h
          injection h with h; injection h with h1 _; subst h1
          by_cases c3 : (scanNum cs false).2.snd = true
          · rw [if_pos c3]; exact ⟨c, _, rfl, c2⟩
          · rw [if_neg c3]; exact True.intro
        · rw [if_neg c2] at h
          by_cases c3 : c = '"'
          · rw [if_pos c3] at h
            split at h
            · injection h with h; injection h with h1 _; subst h1; exact True.intro
            · injection h with h; injection h with h1 _; subst h1; exact True.intro
          · rw [if_neg c3] at h
            by_cases c4 : isWs c = true
            · rw [if_pos c4] at h; exact ih _ _ _ h
            · rw [if_neg c4] at h
              by_cases c5 : (decide (c = '/') && decide (List.head? cs = some '/')) = true
              · rw [if_pos c5] at h; exact ih _ _ _ h
              · rw [if_neg c5] at h
                injection h with h; injection h with h1 _; subst h1
                exact punct_ok c _

theorem lexF_ok (cc : CharClass) : ∀ (f : Nat) (cs : Text), TsOK (lexF cc f cs) := by
  intro f
  induction f with
  | zero => intro cs t ht; simp [lexF] at ht
  | succ f ih =>
    intro cs t ht
    simp only [lexF] at ht
    cases hn : nextToken cc (f + 1) cs with
    | none => rw [hn] at ht; cases ht
    | some p =>
      obtain ⟨t0, rest⟩ := p
      rw [hn] at ht
      cases List.mem_cons.1 ht with
      | inl e => subst e; exact nextToken_ok cc _ _ _ _ hn
      | inr e => exact ih rest t e

/-- every float token the lexer produces starts with a digit -/
theorem lex_tokens_ok (cc : CharClass) (src : Text) : TsOK (lex cc src) := lexF_ok cc _ src

/-! ### the parser: token lists stay good, trees carry only good literals -/

theorem cur_ok {ts : List Token} (h : TsOK ts) : TokOK (cur ts) := by
  cases ts with
  | nil => exact True.intro
  | cons t ts => exact h t List.mem_cons_self

theorem adv_ok {ts : List Token} (h : TsOK ts) : TsOK (adv ts) := by
  cases ts with
  | nil => exact h
  | cons t ts => exact fun x hx => h x (List.mem_cons_of_mem _ hx)

theorem skipOpt_ok {ts : List Token} (t : Token) (h : TsOK ts) : TsOK (skipOpt t ts) := by
  unfold skipOpt
  split
  · exact adv_ok h
  · exact h

theorem skipTok_ok {ts ts' : List Token} {t : Token} (hs : skipTok t ts = .ok ts') (h : TsOK ts) : TsOK ts' := by
  unfold skipTok at hs
  split at hs
  · injection hs with hs; subst hs; exact adv_ok h
  · cases hs

theorem params_ok : ∀ (f : Nat) (ts : List Token) (r : List Text × List Token), parseParams f ts = .ok r → TsOK ts → TsOK r.2 := by
  intro f
  induction f with
  | zero => intro ts r h; simp [parseParams] at h
  | succ f ih =>
    intro ts r h hts
    rw [parseParams] at h
    split at h
    · injection h with h; subst h; exact hts
    · cases h1 : parseParams f (skipOpt .comma (adv ts)) with
      | error e => rw [h1] at h; cases h
      | ok q =>
        obtain ⟨ps, ts'⟩ := q
        rw [h1] at h
        injection h with h; subst h
        exact ih _ (ps, ts') h1 (skipOpt_ok _ (adv_ok hts))
    · cases h

/-- what every parser function returns: a tree with good literals and a good rest of the tokens -/
structure OK (f : Nat) : Prop where
  pre : ∀ ts r, TsOK ts → parsePrefix f ts = .ok r → r.1.AllLitF ∧ TsOK r.2
  expr : ∀ p ts r, TsOK ts → parseExpr f p ts = .ok r → r.1.AllLitF ∧ TsOK r.2
  loop : ∀ p l ts r, l.AllLitF → TsOK ts → parseLoop f p l ts = .ok r → r.1.AllLitF ∧ TsOK r.2
  elems : ∀ c ts r, TsOK ts → parseElems f c ts = .ok r → r.1.AllLitF ∧ TsOK r.2
  stmt : ∀ ts r, TsOK ts → parseStatement f ts = .ok r → r.1.AllLitF ∧ TsOK r.2
  block : ∀ ts r, TsOK ts → parseBlock f ts = .ok r → r.1.AllLitF ∧ TsOK r.2
  stmts : ∀ b ts r, TsOK ts → parseStmts f b ts = .ok r → r.1.AllLitF ∧ TsOK r.2

section step
variable {f : Nat} (ih : OK f)
include ih

theorem expr_succ (p : Nat) (ts : List Token) (r : Expr × List Token) (hts : TsOK ts) (h : parseExpr (f + 1) p ts = .ok r) :
    r.1.AllLitF ∧ TsOK r.2 := by
  rw [parseExpr] at h
  cases h1 : parsePrefix f ts with
  | error e => rw [h1] at h; cases h
  | ok q =>
    obtain ⟨l, ts'⟩ := q
    rw [h1] at h
    obtain ⟨a, b⟩ := ih.pre _ _ hts h1
    exact ih.loop _ _ _ _ a b h

theorem elems_succ (c : Token) (ts : List Token) (r : Exprs × List Token) (hts : TsOK ts) (h : parseElems (f + 1) c ts = .ok r) :
    r.1.AllLitF ∧ TsOK r.2 := by
  rw [parseElems] at h
  split at h
  · injection h with h; subst h; exact ⟨True.intro, hts⟩
  · cases h1 : parseExpr f 0 ts with
    | error e => rw [h1] at h; cases h
    | ok q =>
      obtain ⟨e, ts1⟩ := q
      rw [h1] at h
      simp only at h
      obtain ⟨a1, b1⟩ := ih.expr _ _ _ hts h1
      cases h2 : parseElems f c (skipOpt .comma ts1) with
      | error e => rw [h2] at h; cases h
      | ok q2 =>
        obtain ⟨es, ts2⟩ := q2
        rw [h2] at h
        obtain ⟨a2, b2⟩ := ih.elems _ _ _ (skipOpt_ok _ b1) h2
        injection h with h; subst h
        exact ⟨⟨a1, a2⟩, b2⟩

theorem block_succ (ts : List Token) (r : Block × List Token) (hts : TsOK ts) (h : parseBlock (f + 1) ts = .ok r) :
    r.1.AllLitF ∧ TsOK r.2 := by
  rw [parseBlock] at h
  cases h0 : skipTok .lbrace ts with
  | error e => rw [h0] at h; cases h
  | ok ts1 =>
    rw [h0] at h; simp only at h
    cases h1 : parseStmts f true ts1 with
    | error e => rw [h1] at h; cases h
    | ok q =>
      obtain ⟨b, ts2⟩ := q
      rw [h1] at h; simp only at h
      obtain ⟨a1, b1⟩ := ih.stmts _ _ _ (skipTok_ok h0 hts) h1
      cases h2 : skipTok .rbrace ts2 with
      | error e => rw [h2] at h; cases h
      | ok ts3 =>
        rw [h2] at h
        injection h with h; subst h
        exact ⟨a1, skipTok_ok h2 b1⟩

theorem stmts_succ (b : Bool) (ts : List Token) (r : Block × List Token) (hts : TsOK ts) (h : parseStmts (f + 1) b ts = .ok r) :
    r.1.AllLitF ∧ TsOK r.2 := by
  rw [parseStmts] at h
  split at h
  · injection h with h; subst h; exact ⟨True.intro, hts⟩
  · cases h1 : parseStatement f ts with
    | error e => rw [h1] at h; cases h
    | ok q =>
      obtain ⟨s, ts1⟩ := q
      rw [h1] at h
      simp only at h
      obtain ⟨a1, b1⟩ := ih.stmt _ _ hts h1
      cases h2 : parseStmts f b ts1 with
      | error e => rw [h2] at h; cases h
      | ok q2 =>
        obtain ⟨bl, ts2⟩ := q2
        rw [h2] at h
        obtain ⟨a2, b2⟩ := ih.stmts _ _ _ b1 h2
        injection h with h; subst h
        exact ⟨⟨a1, a2⟩, b2⟩

theorem stmt_succ (ts : List Token) (r : Stmt × List Token) (hts : TsOK ts) (h : parseStatement (f + 1) ts = .ok r) :
    r.1.AllLitF ∧ TsOK r.2 := by
  rw [parseStatement] at h
  split at h
  · simp only at h
    split at h
    · cases h0 : skipTok .assign (adv (adv ts)) with
      | error e => rw [h0] at h; cases h
      | ok ts2 =>
        rw [h0] at h; simp only at h
        cases h1 : parseExpr f 0 ts2 with
        | error e => rw [h1] at h; cases h
        | ok q =>
          obtain ⟨e, ts3⟩ := q
          rw [h1] at h
          obtain ⟨a1, b1⟩ := ih.expr _ _ _ (skipTok_ok h0 (adv_ok (adv_ok hts))) h1
          injection h with h; subst h
          exact ⟨a1, skipOpt_ok _ b1⟩
    · cases h
  · cases h1 : parseBlock f ts with
    | error e => rw [h1] at h; cases h
    | ok q =>
      obtain ⟨b, ts1⟩ := q
      rw [h1] at h
      obtain ⟨a1, b1⟩ := ih.block _ _ hts h1
      injection h with h; subst h
      exact ⟨a1, skipOpt_ok _ b1⟩
  · cases h1 : parseExpr f 0 (adv ts) with
    | error e => rw [h1] at h; cases h
    | ok q =>
      obtain ⟨e, ts1⟩ := q
      rw [h1] at h
      obtain ⟨a1, b1⟩ := ih.expr _ _ _ (adv_ok hts) h1
      injection h with h; subst h
      exact ⟨a1, skipOpt_ok _ b1⟩
  · injection h with h; subst h; exact ⟨True.intro, skipOpt_ok _ (adv_ok hts)⟩
  · injection h with h; subst h; exact ⟨True.intro, skipOpt_ok _ (adv_ok hts)⟩
  · cases h1 : parseExpr f 0 ts with
    | error e => rw [h1] at h; cases h
    | ok q =>
      obtain ⟨e, ts1⟩ := q
      rw [h1] at h
      obtain ⟨a1, b1⟩ := ih.expr _ _ _ hts h1
      injection h with h; subst h
      exact ⟨a1, skipOpt_ok _ b1⟩

theorem loop_succ (p : Nat) (l : Expr) (ts : List Token) (r : Expr × List Token) (hl : l.AllLitF) (hts : TsOK ts)
    (h : parseLoop (f + 1) p l ts = .ok r) : r.1.AllLitF ∧ TsOK r.2 := by
  rw [parseLoop] at h
  simp only at h
  by_cases c1 : cur ts = .semi
  · simp only [c1, ↓reduceIte] at h; injection h with h; subst h; exact ⟨hl, hts⟩
  · simp only [c1, ↓reduceIte] at h
    by_cases c2 : (!decide (p < (cur ts).prec)) = true
    · simp only [c2, ↓reduceIte] at h; injection h with h; subst h; exact ⟨hl, hts⟩
    · simp only [c2, ↓reduceIte, Bool.false_eq_true] at h
      split at h
      · by_cases c3 : isFunc l = true
        · simp only [c3, ↓reduceIte] at h; cases h
        · simp only [c3, ↓reduceIte, Bool.false_eq_true] at h
          by_cases c4 : (decide (cur (adv ts) = Token.assign) && isIdent l) = true
          · simp only [c4, ↓reduceIte] at h
            cases h1 : parseExpr f 0 (adv (adv ts)) with
            | error e => rw [h1] at h; cases h
            | ok q =>
              obtain ⟨x, ts2⟩ := q
              rw [h1] at h
              obtain ⟨a1, b1⟩ := ih.expr _ _ _ (adv_ok (adv_ok hts)) h1
              refine ih.loop _ _ _ _ ?_ b1 h
              exact ⟨hl, hl, a1⟩
          · simp only [c4, ↓reduceIte, Bool.false_eq_true] at h
            cases h1 : parseExpr f (cur ts).prec (adv ts) with
            | error e => rw [h1] at h; cases h
            | ok q =>
              obtain ⟨x, ts2⟩ := q
              rw [h1] at h
              obtain ⟨a1, b1⟩ := ih.expr _ _ _ (adv_ok hts) h1
              refine ih.loop _ _ _ _ ?_ b1 h
              exact ⟨hl, a1⟩
      · split at h
        · by_cases c3 : (!assignable l) = true
          · simp only [c3, ↓reduceIte] at h; cases h
          · simp only [c3, ↓reduceIte, Bool.false_eq_true] at h
            cases h1 : parseExpr f 1 (adv ts) with
            | error e => rw [h1] at h; cases h
            | ok q =>
              obtain ⟨x, ts2⟩ := q
              rw [h1] at h
              obtain ⟨a1, b1⟩ := ih.expr _ _ _ (adv_ok hts) h1
              refine ih.loop _ _ _ _ ?_ b1 h
              exact ⟨hl, a1⟩
        · by_cases c3 : (!callable l) = true
          · simp only [c3, ↓reduceIte] at h; cases h
          · simp only [c3, ↓reduceIte, Bool.false_eq_true] at h
            cases h1 : parseElems f .rparen (adv ts) with
            | error e => rw [h1] at h; cases h
            | ok q =>
              obtain ⟨x, ts2⟩ := q
              rw [h1] at h
              obtain ⟨a1, b1⟩ := ih.elems _ _ _ (adv_ok hts) h1
              refine ih.loop _ _ _ _ ?_ (adv_ok b1) h
              exact ⟨hl, a1⟩
        · by_cases c3 : (!indexable l) = true
          · simp only [c3, ↓reduceIte] at h; cases h
          · simp only [c3, ↓reduceIte, Bool.false_eq_true] at h
            cases h1 : parseExpr f 0 (adv ts) with
            | error e => rw [h1] at h; cases h
            | ok q =>
              obtain ⟨x, ts1⟩ := q
              rw [h1] at h
              simp only at h
              obtain ⟨a1, b1⟩ := ih.expr _ _ _ (adv_ok hts) h1
              cases h2 : skipTok .rbracket ts1 with
              | error e => rw [h2] at h; cases h
              | ok ts2 =>
                rw [h2] at h
                refine ih.loop _ _ _ _ ?_ (skipTok_ok h2 b1) h
                exact ⟨hl, a1⟩
        · injection h with h; subst h; exact ⟨hl, hts⟩

theorem pre_succ (ts : List Token) (r : Expr × List Token) (hts : TsOK ts) (h : parsePrefix (f + 1) ts = .ok r) :
    r.1.AllLitF ∧ TsOK r.2 := by
  have hcur := cur_ok hts
  rw [parsePrefix] at h
  split at h
  · -- integer literal
    rename_i s _
    cases h1 : parseIntLit s with
    | error e => rw [h1] at h; cases h
    | ok e =>
      rw [h1] at h
      injection h with h; subst h
      refine ⟨?_, adv_ok hts⟩
      unfold parseIntLit at h1
      simp only at h1
      split at h1
      · injection h1 with h1; subst h1; exact True.intro
      · cases h1
  · -- float literal
    rename_i s hc
    rw [hc] at hcur
    injection h with h; subst h
    exact ⟨parseFloatLit_allLitF s hcur, adv_ok hts⟩
  · injection h with h; subst h; exact ⟨True.intro, adv_ok hts⟩
  · injection h with h; subst h; exact ⟨True.intro, adv_ok hts⟩
  · injection h with h; subst h; exact ⟨True.intro, adv_ok hts⟩
  · -- ( e )
    cases h1 : parseExpr f 0 (adv ts) with
    | error e => rw [h1] at h; cases h
    | ok q =>
      obtain ⟨x, ts1⟩ := q
      rw [h1] at h; simp only at h
      obtain ⟨a1, b1⟩ := ih.expr _ _ _ (adv_ok hts) h1
      cases h2 : skipTok .rparen ts1 with
      | error e => rw [h2] at h; cases h
      | ok ts2 =>
        rw [h2] at h
        injection h with h; subst h
        exact ⟨a1, skipTok_ok h2 b1⟩
  · -- als
    cases h1 : parseExpr f 0 (adv ts) with
    | error e => rw [h1] at h; cases h
    | ok q =>
      obtain ⟨c, ts1⟩ := q
      rw [h1] at h
      simp only at h
      obtain ⟨a1, b1⟩ := ih.expr _ _ _ (adv_ok hts) h1
      cases h2 : parseBlock f ts1 with
      | error e => rw [h2] at h; cases h
      | ok q2 =>
        obtain ⟨t, ts2⟩ := q2
        rw [h2] at h
        simp only at h
        obtain ⟨a2, b2⟩ := ih.block _ _ b1 h2
        by_cases c1 : cur ts2 = .kwElse
        · simp only [c1, ↓reduceIte] at h
          by_cases c2 : cur (adv ts2) = .kwIf
          · simp only [c2, ↓reduceIte] at h
            cases h3 : parseStatement f (adv ts2) with
            | error e => rw [h3] at h; cases h
            | ok q3 =>
              obtain ⟨st, ts4⟩ := q3
              rw [h3] at h
              obtain ⟨a3, b3⟩ := ih.stmt _ _ (adv_ok b2) h3
              injection h with h; subst h
              exact ⟨⟨a1, a2, a3, True.intro⟩, b3⟩
          · simp only [c2, ↓reduceIte] at h
            cases h3 : parseBlock f (adv ts2) with
            | error e => rw [h3] at h; cases h
            | ok q3 =>
              obtain ⟨eb, ts4⟩ := q3
              rw [h3] at h
              obtain ⟨a3, b3⟩ := ih.block _ _ (adv_ok b2) h3
              injection h with h; subst h
              exact ⟨⟨a1, a2, a3⟩, b3⟩
        · simp only [c1, ↓reduceIte] at h
          injection h with h; subst h
          exact ⟨⟨a1, a2, True.intro⟩, b2⟩
  · cases h1 : parseExpr f (Token.prec .bang) (adv ts) with
    | error e => rw [h1] at h; cases h
    | ok q =>
      obtain ⟨x, ts1⟩ := q
      rw [h1] at h
      obtain ⟨a1, b1⟩ := ih.expr _ _ _ (adv_ok hts) h1
      injection h with h; subst h
      exact ⟨a1, b1⟩
  · cases h1 : parseExpr f (Token.prec .minus) (adv ts) with
    | error e => rw [h1] at h; cases h
    | ok q =>
      obtain ⟨x, ts1⟩ := q
      rw [h1] at h
      obtain ⟨a1, b1⟩ := ih.expr _ _ _ (adv_ok hts) h1
      injection h with h; subst h
      exact ⟨a1, b1⟩
  · injection h with h; subst h; exact ⟨True.intro, adv_ok hts⟩
  · -- functie
    simp only at h
    generalize hsk : skipTok Token.lparen _ = sk at h
    cases sk with
    | error e => cases h
    | ok ts3 =>
      have h3ok : TsOK ts3 := by
        split at hsk
        · exact skipTok_ok hsk (adv_ok (adv_ok hts))
        · exact skipTok_ok hsk (adv_ok hts)
      simp only at h
      cases h1 : parseParams (ts3.length + 1) ts3 with
      | error e => rw [h1] at h; cases h
      | ok q =>
        obtain ⟨ps, ts4⟩ := q
        rw [h1] at h; simp only at h
        have h4ok : TsOK ts4 := params_ok _ _ _ h1 h3ok
        cases h2 : skipTok .rparen ts4 with
        | error e => rw [h2] at h; cases h
        | ok ts5 =>
          rw [h2] at h; simp only at h
          cases h3 : parseBlock f ts5 with
          | error e => rw [h3] at h; cases h
          | ok q3 =>
            obtain ⟨b, ts6⟩ := q3
            rw [h3] at h
            obtain ⟨a3, b3⟩ := ih.block _ _ (skipTok_ok h2 h4ok) h3
            injection h with h; subst h
            exact ⟨a3, b3⟩
  · cases h1 : parseExpr f 0 (adv ts) with
    | error e => rw [h1] at h; cases h
    | ok q =>
      obtain ⟨c, ts1⟩ := q
      rw [h1] at h
      simp only at h
      obtain ⟨a1, b1⟩ := ih.expr _ _ _ (adv_ok hts) h1
      cases h2 : parseBlock f ts1 with
      | error e => rw [h2] at h; cases h
      | ok q2 =>
        obtain ⟨b, ts2⟩ := q2
        rw [h2] at h
        obtain ⟨a2, b2⟩ := ih.block _ _ b1 h2
        injection h with h; subst h
        exact ⟨⟨a1, a2⟩, b2⟩
  · cases h1 : parseElems f .rbracket (adv ts) with
    | error e => rw [h1] at h; cases h
    | ok q =>
      obtain ⟨vs, ts1⟩ := q
      rw [h1] at h; simp only at h
      obtain ⟨a1, b1⟩ := ih.elems _ _ _ (adv_ok hts) h1
      cases h2 : skipTok .rbracket ts1 with
      | error e => rw [h2] at h; cases h
      | ok ts2 =>
        rw [h2] at h
        injection h with h; subst h
        exact ⟨a1, skipTok_ok h2 b1⟩
  · cases h
end step

theorem ok_all : ∀ f, OK f := by
  intro f
  induction f with
  | zero =>
    exact ⟨fun _ _ _ h => by simp [parsePrefix] at h, fun _ _ _ _ h => by simp [parseExpr] at h,
      fun _ _ _ _ _ _ h => by simp [parseLoop] at h, fun _ _ _ _ h => by simp [parseElems] at h,
      fun _ _ _ h => by simp [parseStatement] at h, fun _ _ _ h => by simp [parseBlock] at h,
      fun _ _ _ _ h => by simp [parseStmts] at h⟩
  | succ f ih => exact ⟨pre_succ ih, expr_succ ih, loop_succ ih, elems_succ ih, stmt_succ ih, block_succ ih, stmts_succ ih⟩

/-- every program the parser accepts, from good tokens, carries only good float literals -/
theorem parseTokens_allLitF (ts : List Token) (hts : TsOK ts) (ast : Block) (h : parseTokens ts = .ok ast) : ast.AllLitF := by
  unfold parseTokens at h
  cases h1 : parseStmts (parseFuel ts) false ts with
  | error e => rw [h1] at h; cases h
  | ok q =>
    obtain ⟨b, rest⟩ := q
    rw [h1] at h
    injection h with h; subst h
    exact ((ok_all _).stmts _ _ _ hts h1).1

/-- FLOAT LITERALS OF PARSED PROGRAMS ARE NON-NEGATIVE AND NOT NaN: for every character-class table
    and every source text the parser accepts, every `.float x` node of the tree satisfies `LitF x` -/
theorem parse_allLitF (cc : CharClass) (src : Text) (ast : Block) (h : parse cc src = .ok ast) : ast.AllLitF :=
  parseTokens_allLitF (lex cc src) (lex_tokens_ok cc src) ast h

end ParsedFloats
end Nl
