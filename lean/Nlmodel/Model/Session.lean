/-
  A retained session: one `Compiler` and one `VM` kept across evaluations, as the interactive
  prompt does (`src/bin/nederlang.rs`), after repairs F21b/F22/F23.
  What is carried from line to line is explicit: the compiler's symbol table and the machine's
  globals (and the heap they may point into).
-/
import Nlmodel.Model.Pipeline
namespace Nl

structure Session where
  /-- `Compiler::symbols` (plus the resolver's id counters) -/
  rs : RState := {}
  /-- the machine between runs: only `globals` (and the heap) matter, `VM.start` resets the rest -/
  vm : VM := {}
  deriving Inhabited

/-- one line: `parse`, `compile_ast` on the retained compiler, `run` on the retained machine -/
def Session.line (cc : CharClass) (budget : Nat) (s : Session) (src : Text) : Session × Obs :=
  match parse cc src with
  | .error e => (s, .error e [])
  | .ok ast =>
    -- every line is compiled at top level: no open loop or function
    match resolveSs ast { s.rs with loopDepth := 0, funcDepth := 0 } with
    | .error e => (s, .error e [])                       -- F23: a failed compilation leaves no trace
    | .ok (r, rs') =>
      match compileR r with
      | .error e => (s, .error e [])
      | .ok bc =>
        match VM.run s.vm bc budget with
        | .value v vm' => ({ rs := rs', vm := vm' }, .value (vm'.mem.heap.tree treeDepth [] v) vm'.out)
        | .error e vm' => ({ rs := rs', vm := vm' }, .error e vm'.out)
        | .budget vm' => ({ rs := rs', vm := vm' }, .budget)
        | .fault site => ({ rs := rs', vm := s.vm }, .fault site)

def Session.lines (cc : CharClass) (budget : Nat) : Session → List Text → List Obs
  | _, [] => []
  | s, l :: ls => let (s', o) := s.line cc budget l; o :: Session.lines cc budget s' ls

end Nl
