/- C10 "top level or inside a function is unobservable", definitional side: the evaluator lemma.
   Related trees (`TE δ`), evaluated with the same fuel in a top-level state `s` and in the state
   `Phi δ G s` inside the function, give the same result (states related by `Phi` again). -/
import Nlmodel.Proofs.Lemmas.WrapDefs
namespace Nl
namespace Wrap
open Spec

section
variable (δ : Nat) (G : List (Nat × SVal))

structure EvAll (f : Nat) : Prop where
  e : ∀ e e' s, TE δ e e' → evalE f e' (Phi δ G s) = mapRes δ G (evalE f e s)
  bv : ∀ b b' s, TB δ b b' → evalBV f b' (Phi δ G s) = mapRes δ G (evalBV f b s)
  s : ∀ x x' s, TS δ x x' → evalS f x' (Phi δ G s) = mapRes δ G (evalS f x s)
  b : ∀ b b' s, TB δ b b' → evalB f b' (Phi δ G s) = mapRes δ G (evalB f b s)
  l : ∀ c c' b b' acc s, TE δ c c' → TB δ b b' →
        evalLoop f c' b' acc (Phi δ G s) = mapRes δ G (evalLoop f c b acc s)

theorem ev_e (f : Nat) (ih : EvAll δ G f) (e e' : RExpr) (s : SState) (h : TE δ e e') :
    evalE (f + 1) e' (Phi δ G s) = mapRes δ G (evalE (f + 1) e s) := by
  cases h with
  | int v => simp only [evalE, mapRes]
  | bool v => simp only [evalE, mapRes]
  | not e e' he =>
    simp only [evalE, ih.e _ _ s he]
    cases evalE f e s with
    | val v s1 => cases v <;> rfl
    | _ => rfl
  | neg e e' he =>
    simp only [evalE, ih.e _ _ s he]
    cases evalE f e s with
    | val v s1 =>
      cases v with
      | int i => simp only [mapRes]; split <;> rfl
      | _ => rfl
    | _ => rfl
  | bin l l' op r r' hl hr =>
    simp only [evalE, ih.e _ _ s hl]
    cases evalE f l s with
    | val a s1 =>
      simp only [mapRes, ih.e _ _ s1 hr]
      cases evalE f r s1 with
      | val b s2 =>
        simp only [phi_view]
        cases binopCore op (s2.view a) (s2.view b) with
        | ok p => simp only [phi_box]
        | error er => rfl
      | _ => rfl
    | _ => rfl
  | var b k k' =>
    simp only [evalE, phi_lookup δ G s b k k']
    cases s.lookup ⟨b, .global k⟩ <;> rfl
  | assign b k k' e e' he =>
    simp only [evalE, ih.e _ _ s he]
    cases evalE f e s with
    | val v s1 => simp only [mapRes, phi_bind δ G s1 b k k']
    | _ => rfl
  | ifE c c' t t' o o' hc ht ho =>
    simp only [evalE, ih.e _ _ s hc]
    cases evalE f c s with
    | val v s1 =>
      cases v with
      | bool b =>
        cases b with
        | true => simp only [mapRes]; exact ih.bv _ _ s1 ht
        | false =>
          cases ho with
          | none => rfl
          | some b b' hb => simp only [mapRes]; exact ih.bv _ _ s1 hb
      | _ => rfl
    | _ => rfl
  | whileE c c' b b' hc hb =>
    simp only [evalE]
    exact ih.l _ _ _ _ _ s hc hb

theorem ev_l (f : Nat) (ih : EvAll δ G f) (c c' : RExpr) (b b' : RBlock) (acc : SVal) (s : SState)
    (hc : TE δ c c') (hb : TB δ b b') :
    evalLoop (f + 1) c' b' acc (Phi δ G s) = mapRes δ G (evalLoop (f + 1) c b acc s) := by
  simp only [evalLoop, ih.e _ _ s hc]
  cases evalE f c s with
  | val v s1 =>
    cases v with
    | bool bb =>
      cases bb with
      | false => rfl
      | true =>
        simp only [mapRes, phi_last, ih.bv _ _ _ hb]
        cases evalBV f b { s1 with last := acc } with
        | val v s2 => exact ih.l _ _ _ _ _ s2 hc hb
        | cont s2 => exact ih.l _ _ _ _ _ s2 hc hb
        | _ => rfl
    | _ => rfl
  | cont s1 => simp only [mapRes]; exact ih.l _ _ _ _ _ s1 hc hb
  | _ => rfl

theorem ev_s (f : Nat) (ih : EvAll δ G f) (x x' : RStmt) (s : SState) (h : TS δ x x') :
    evalS (f + 1) x' (Phi δ G s) = mapRes δ G (evalS (f + 1) x s) := by
  cases h with
  | expr e e' he =>
    simp only [evalS, ih.e _ _ s he]
    cases evalE f e s <;> rfl
  | letS b k k' e e' he =>
    simp only [evalS, phi_unbind δ G s b k k', ih.e _ _ _ he]
    cases evalE f e (s.unbind ⟨b, .global k⟩) with
    | val v s1 => simp only [mapRes, phi_bind δ G s1 b k k']
    | _ => rfl
  | block b b' hb => simp only [evalS]; exact ih.b _ _ s hb
  | brk => rfl
  | cont => rfl

theorem ev_b (f : Nat) (ih : EvAll δ G f) (b b' : RBlock) (s : SState) (h : TB δ b b') :
    evalB (f + 1) b' (Phi δ G s) = mapRes δ G (evalB (f + 1) b s) := by
  cases h with
  | nil => rfl
  | cons x x' r r' hx hr =>
    simp only [evalB, ih.s _ _ s hx]
    cases evalS f x s with
    | val u s1 => simp only [mapRes]; exact ih.b _ _ s1 hr
    | _ => rfl

/-- the result of a statement seen as the result of something in value position -/
def liftU (r : Res Unit) (k : SState → Res SVal) : Res SVal :=
  match r with
  | .val () st1 => k st1
  | .brk s => .brk s | .cont s => .cont s | .ret v s => .ret v s
  | .err e s => .err e s | .unspec s => .unspec s | .fuel => .fuel

theorem evalBV_seq (f : Nat) (x x2 : RStmt) (r2 : RBlock) (st : SState) :
    evalBV (f + 1) (.cons x (.cons x2 r2)) st = liftU (evalS f x st) (fun st1 => evalBV f (.cons x2 r2) st1) := by
  cases x <;> simp only [evalBV] <;> rfl

theorem liftU_phi (r : Res Unit) (k k' : SState → Res SVal) (hk : ∀ s1, k' (Phi δ G s1) = mapRes δ G (k s1)) :
    liftU (mapRes δ G r) k' = mapRes δ G (liftU r k) := by
  cases r with
  | val u s1 => exact hk s1
  | _ => rfl

/-- a block whose single statement leaves no value -/
theorem ev_bv_novalue (f : Nat) (ih : EvAll δ G f) (x x' : RStmt) (s : SState) (h : TS δ x x')
    (h1 : ∀ st, evalBV (f + 1) (.cons x .nil) st = liftU (evalS f x st) (fun st1 => .val .null st1))
    (h2 : ∀ st, evalBV (f + 1) (.cons x' .nil) st = liftU (evalS f x' st) (fun st1 => .val .null st1)) :
    evalBV (f + 1) (.cons x' .nil) (Phi δ G s) = mapRes δ G (evalBV (f + 1) (.cons x .nil) s) := by
  rw [h1, h2, ih.s _ _ s h]
  exact liftU_phi δ G _ _ _ (fun _ => rfl)

theorem ev_bv (f : Nat) (ih : EvAll δ G f) (b b' : RBlock) (s : SState) (h : TB δ b b') :
    evalBV (f + 1) b' (Phi δ G s) = mapRes δ G (evalBV (f + 1) b s) := by
  cases h with
  | nil => rfl
  | cons x x' r r' hx hr =>
    cases hr with
    | nil =>
      cases hx with
      | expr e e' he => simp only [evalBV]; exact ih.e _ _ s he
      | block c c' hc =>
        cases hc with
        | nil =>
          exact ev_bv_novalue δ G f ih _ _ s (.block _ _ .nil) (fun st => by simp only [evalBV]; rfl)
            (fun st => by simp only [evalBV]; rfl)
        | cons y y' q q' hy hq =>
          simp only [evalBV]; exact ih.bv _ _ s (.cons _ _ _ _ hy hq)
      | letS bb k k' e e' he =>
        exact ev_bv_novalue δ G f ih _ _ s (.letS bb k k' e e' he) (fun st => by simp only [evalBV]; rfl)
          (fun st => by simp only [evalBV]; rfl)
      | brk =>
        exact ev_bv_novalue δ G f ih _ _ s .brk (fun st => by simp only [evalBV]; rfl)
          (fun st => by simp only [evalBV]; rfl)
      | cont =>
        exact ev_bv_novalue δ G f ih _ _ s .cont (fun st => by simp only [evalBV]; rfl)
          (fun st => by simp only [evalBV]; rfl)
    | cons x2 x2' r2 r2' hx2 hr2 =>
      rw [evalBV_seq, evalBV_seq, ih.s _ _ s hx]
      exact liftU_phi δ G _ _ _ (fun s1 => ih.bv _ _ s1 (.cons _ _ _ _ hx2 hr2))

theorem evAll : ∀ f, EvAll δ G f
  | 0 => ⟨fun _ _ _ _ => rfl, fun _ _ _ _ => rfl, fun _ _ _ _ => rfl, fun _ _ _ _ => rfl,
          fun _ _ _ _ _ _ _ _ => rfl⟩
  | f + 1 =>
    have ih := evAll f
    ⟨ev_e δ G f ih, ev_bv δ G f ih, ev_s δ G f ih, ev_b δ G f ih, ev_l δ G f ih⟩
end

end Wrap
end Nl
