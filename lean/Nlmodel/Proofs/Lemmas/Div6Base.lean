/- Stage 6, DIVERGENCE PRESERVATION: basics.  `Runs C s n` (the machine performs `n` further steps without halting,
   failing or faulting), the static depth of resolved trees, the step budget `hb K f d = (f + K - d) / K` that a
   definitional evaluation answering "out of fuel" with fuel `f` guarantees on the machine, the statements of the
   parallel induction (`DE6 … DBF6`, mirroring `PE6 … PBF6`) and the sequencing lemma `DivG.bind`. -/
import Nlmodel.Proofs.Lemmas.Sim6Program
namespace Nl
namespace Sim6
open Spec Sim
open SimH (AMap isStrCell isArrCell Grow PoolH MemOK sameKind LitF)
open SimF (FT FnInfo FTInj paramScope bigScope)

/-! ## runs of at least `n` steps -/

/-- the machine performs `n` further steps, none of which halts, fails or faults -/
def Runs (C : Code) (s : VM) (n : Nat) : Prop := ∃ s', execN C n s = some s'

theorem Runs.zero (C : Code) (s : VM) : Runs C s 0 := ⟨s, rfl⟩

theorem execN_split (C : Code) : ∀ (n m : Nat) (s s2 : VM), execN C (n + m) s = some s2 →
    ∃ s1, execN C n s = some s1 ∧ execN C m s1 = some s2
  | 0, m, s, s2, h => ⟨s, rfl, by simpa using h⟩
  | n + 1, m, s, s2, h => by
    have e : n + 1 + m = (n + m) + 1 := by omega
    rw [e] at h
    simp only [execN] at h ⊢
    cases hs : step C s with
    | next s' => rw [hs] at h; exact execN_split C n m s' s2 h
    | halt v s' => rw [hs] at h; cases h
    | error e s' => rw [hs] at h; cases h
    | fault site => rw [hs] at h; cases h

theorem Runs.mono {C : Code} {s : VM} {n m : Nat} (hle : m ≤ n) (h : Runs C s n) : Runs C s m := by
  obtain ⟨s', hs'⟩ := h
  have e : n = m + (n - m) := by omega
  rw [e] at hs'
  obtain ⟨s1, h1, _⟩ := execN_split C m (n - m) s s' hs'
  exact ⟨s1, h1⟩

theorem Runs.after_add {C : Code} {s s1 : VM} {k n : Nat} (hk : execN C k s = some s1) (h : Runs C s1 n) : Runs C s (k + n) := by
  obtain ⟨s', hs'⟩ := h
  exact ⟨s', execN_add C k n s s1 s' hk hs'⟩

/-- a run of `n` steps is not over after `n` steps -/
theorem Runs.budget {C : Code} : ∀ {n : Nat} {s : VM}, Runs C s n → ∃ s', runSteps C n s = .budget s'
  | 0, s, _ => ⟨s, rfl⟩
  | n + 1, s, ⟨s', h⟩ => by
    simp only [execN] at h
    simp only [runSteps]
    cases hs : step C s with
    | next s1 => rw [hs] at h; exact Runs.budget ⟨s', h⟩
    | halt v s1 => rw [hs] at h; cases h
    | error e s1 => rw [hs] at h; cases h
    | fault site => rw [hs] at h; cases h

/-- the goal for an evaluation that runs out of fuel: the machine stops at its stack/frame limit (as the forward
    theorems allow) or performs at least `n` further steps -/
def DivG (C : Code) (s : VM) (n : Nat) : Prop := Ovf C s ∨ Runs C s n

theorem DivG.zero (C : Code) (s : VM) : DivG C s 0 := .inr (Runs.zero C s)

theorem DivG.mono {C : Code} {s : VM} {n m : Nat} (hle : m ≤ n) (h : DivG C s n) : DivG C s m := by
  rcases h with h | h
  · exact .inl h
  · exact .inr (h.mono hle)

theorem DivG.after_add {C : Code} {s s1 : VM} {k n : Nat} (hk : execN C k s = some s1) (h : DivG C s1 n) : DivG C s (k + n) := by
  rcases h with h | h
  · exact .inl (SimF.Ovf.after k hk h)
  · exact .inr (h.after_add hk)

theorem DivG.after {C : Code} {s s1 : VM} {k n : Nat} (hk : execN C k s = some s1) (h : DivG C s1 n) : DivG C s n :=
  (h.after_add hk).mono (by omega)

/-- at least one step was made before -/
theorem DivG.after_succ {C : Code} {s s1 : VM} {k n : Nat} (hk : execN C (k + 1) s = some s1) (h : DivG C s1 n) : DivG C s (n + 1) :=
  (h.after_add hk).mono (by omega)

/-! ## the step budget -/

/-- steps guaranteed by fuel `f` at a node of static depth `d`, when every function body has depth at most `K`:
    a call pays one step for up to `K` levels of the evaluation derivation -/
def hb (K f d : Nat) : Nat := (f + K - d) / K

theorem hb_child {K f d d' : Nat} (h : d' + 1 ≤ d) : hb K (f + 1) d ≤ hb K f d' := by
  unfold hb; exact Nat.div_le_div_right (by omega)

theorem hb_call {K f d d' : Nat} (h1 : d' ≤ K) (h2 : 1 ≤ d) : hb K (f + 1) d ≤ hb K f d' + 1 := by
  unfold hb
  rcases Nat.eq_zero_or_pos K with h0 | hpos
  · subst h0; simp
  · rw [← Nat.add_div_right _ hpos]
    exact Nat.div_le_div_right (by omega)

theorem hb_loop {K f d : Nat} : hb K (f + 1) d ≤ hb K f d + 1 := by
  unfold hb
  rcases Nat.eq_zero_or_pos K with h0 | hpos
  · subst h0; simp
  · rw [← Nat.add_div_right _ hpos]
    exact Nat.div_le_div_right (by omega)

theorem hb_zero {K d : Nat} (h : 1 ≤ d) : hb K 0 d = 0 := by
  unfold hb
  rcases Nat.eq_zero_or_pos K with h0 | hpos
  · subst h0; simp
  · exact Nat.div_eq_of_lt (by omega)

/-- with `n * K + K` units of fuel at least `n` steps -/
theorem hb_ge {K n d : Nat} (h : d ≤ K) (h1 : 1 ≤ d) : n ≤ hb K (n * K + K) d := by
  unfold hb
  have hpos : 0 < K := by omega
  rw [Nat.le_div_iff_mul_le hpos]; omega

/-! ## static depth -/

mutual
/-- the depth of a resolved tree (at least 1 per node); the body of a function LITERAL counts, the body of a CALLED
    function does not -/
def dE : RExpr → Nat
  | .infix l _ r => max (dE l) (dE r) + 1
  | .not r => dE r + 1
  | .neg r => dE r + 1
  | .int _ => 1
  | .float _ => 1
  | .bool _ => 1
  | .str _ => 1
  | .var _ => 1
  | .ifE c t e => max (dE c) (max (dB t) (dO e)) + 1
  | .func _ _ _ _ body => dB body + 1
  | .call f as => max (dE f) (dEs as) + 1
  | .callBuiltin _ as => dEs as + 1
  | .assignVar _ e => dE e + 1
  | .assignIndex l i v => max (dE l) (max (dE i) (dE v)) + 1
  | .arr vs => dEs vs + 1
  | .index l i => max (dE l) (dE i) + 1
  | .whileE c b => max (dE c) (dB b) + 2
def dS : RStmt → Nat
  | .letS _ e => dE e + 1
  | .ret e => dE e + 1
  | .expr e => dE e + 1
  | .block b => dB b + 1
  | .brk => 1
  | .cont => 1
def dB : RBlock → Nat
  | .nil => 1
  | .cons s b => max (dS s) (dB b) + 1
def dEs : RExprs → Nat
  | .nil => 1
  | .cons e es => max (dE e) (dEs es) + 1
def dO : ROptBlock → Nat
  | .none => 1
  | .some b => dB b
end

theorem dE_pos (e : RExpr) : 1 ≤ dE e := by cases e <;> simp only [dE] <;> omega
theorem dS_pos (s : RStmt) : 1 ≤ dS s := by cases s <;> simp only [dS] <;> omega
theorem dB_pos (b : RBlock) : 1 ≤ dB b := by cases b <;> simp only [dB] <;> omega
theorem dEs_pos (es : RExprs) : 1 ≤ dEs es := by cases es <;> simp only [dEs] <;> omega

/-- the depth bound of a world: every function of the table has a body of depth at most `K` -/
def KB (W : World) (K : Nat) : Prop := ∀ fid info, W.ft fid = some info → dB info.body ≤ K

/-! ## the statements of the parallel induction -/

section statements
variable (W : World) (K : Nat)

def DE6 (f : Nat) : Prop := ∀ (nl : Nat) (fn : Bool) (Γ Γx Λ : Gam) (ab : Bool) (e : RExpr), ZE nl fn Γ Λ ab e →
  ∀ (c : Cfg) (lp : LoopCtx) (cs : List Const) (below : Array Value) (fr : List Frame),
  Sc6 W fn Γ Γx Λ → Inv6 W (bigScope fn Γ Γx) Λ nl c → TI.WT (c.vm W below fr) →
  CodeAt W.C c.ip (emitE e c.ip lp cs).1 → Ext (emitE e c.ip lp cs).2 W.CS →
  evalE f e c.st = .fuel → DivG W.C (c.vm W below fr) (hb K f (dE e))

def DEs6 (f : Nat) : Prop := ∀ (nl : Nat) (fn : Bool) (Γ Γx Λ : Gam) (es : RExprs), ZEs nl fn Γ Λ es →
  ∀ (c : Cfg) (lp : LoopCtx) (cs : List Const) (below : Array Value) (fr : List Frame),
  Sc6 W fn Γ Γx Λ → Inv6 W (bigScope fn Γ Γx) Λ nl c → TI.WT (c.vm W below fr) →
  CodeAt W.C c.ip (emitEs es c.ip lp cs).1 → Ext (emitEs es c.ip lp cs).2 W.CS →
  evalEs f es c.st = .fuel → DivG W.C (c.vm W below fr) (hb K f (dEs es))

def DBV6 (f : Nat) : Prop := ∀ (nl : Nat) (fn : Bool) (Γ Γx Λ : Gam) (ab : Bool) (b : RBlock) (Γ1 Λ1 : Gam), ZB nl fn Γ Λ ab b Γ1 Λ1 →
  ∀ (c : Cfg) (lp : LoopCtx) (cs : List Const) (below : Array Value) (fr : List Frame),
  Sc6 W fn Γ Γx Λ → Inv6 W (bigScope fn Γ Γx) Λ nl c → TI.WT (c.vm W below fr) →
  CodeAt W.C c.ip (asValue b (emitB b c.ip lp cs).1) → Ext (emitB b c.ip lp cs).2 W.CS →
  evalBV f b c.st = .fuel → DivG W.C (c.vm W below fr) (hb K f (dB b))

def DS6 (f : Nat) : Prop := ∀ (nl : Nat) (fn : Bool) (Γ Γx Λ : Gam) (ab : Bool) (s : RStmt) (Γ1 Λ1 : Gam), ZS nl fn Γ Λ ab s Γ1 Λ1 →
  ∀ (c : Cfg) (lp : LoopCtx) (cs : List Const) (below : Array Value) (fr : List Frame),
  Sc6 W fn Γ Γx Λ → Inv6 W (bigScope fn Γ Γx) Λ nl c → TI.WT (c.vm W below fr) →
  CodeAt W.C c.ip (emitS s c.ip lp cs).1 → Ext (emitS s c.ip lp cs).2 W.CS →
  evalS f s c.st = .fuel → DivG W.C (c.vm W below fr) (hb K f (dS s))

def DB6 (f : Nat) : Prop := ∀ (nl : Nat) (fn : Bool) (Γ Γx Λ : Gam) (ab : Bool) (b : RBlock) (Γ1 Λ1 : Gam), ZB nl fn Γ Λ ab b Γ1 Λ1 →
  ∀ (c : Cfg) (lp : LoopCtx) (cs : List Const) (below : Array Value) (fr : List Frame),
  Sc6 W fn Γ Γx Λ → Inv6 W (bigScope fn Γ Γx) Λ nl c → TI.WT (c.vm W below fr) →
  CodeAt W.C c.ip (emitB b c.ip lp cs).1 → Ext (emitB b c.ip lp cs).2 W.CS →
  evalB f b c.st = .fuel → DivG W.C (c.vm W below fr) (hb K f (dB b))

/-- the loop: the configuration stands at the condition (as in `PL6`) -/
def DL6 (f : Nat) : Prop := ∀ (nl : Nat) (fn : Bool) (Γ Γx Λ : Gam) (cnd : RExpr) (b : RBlock) (Γ1 Λ1 : Gam),
  ZE nl fn Γ Λ false cnd → ZB nl fn Γ Λ true b Γ1 Λ1 →
  ∀ (c : Cfg) (pos : Nat) (lp : LoopCtx) (cs : List Const) (below : Array Value) (fr : List Frame) (base : Array Value)
    (acc : SVal) (accv : Value), c.ip = pos + 1 → c.ops = base.push accv → VR6 W c.μ c.st c.m.heap acc accv →
  Sc6 W fn Γ Γx Λ → Inv6 W (bigScope fn Γ Γx) Λ nl c → TI.WT (c.vm W below fr) →
  CodeAt W.C pos (emitE (.whileE cnd b) pos lp cs).1 → Ext (emitE (.whileE cnd b) pos lp cs).2 W.CS →
  evalLoop f cnd b acc c.st = .fuel → DivG W.C (c.vm W below fr) (hb K f (max (dE cnd) (dB b) + 1))

def DBF6 (f : Nat) : Prop := ∀ (nl : Nat) (Γ Γx Λ : Gam) (b : RBlock) (Γ1 Λ1 : Gam), ZB nl true Γ Λ false b Γ1 Λ1 →
  ∀ (c : Cfg) (cs : List Const) (below : Array Value) (fr : List Frame), c.ops = #[] →
  Sc6 W true Γ Γx Λ → Inv6 W Γx Λ nl c → TI.WT (c.vm W below fr) →
  CodeAt W.C c.ip (asFnBody b (emitB b c.ip none cs).1) → Ext (emitB b c.ip none cs).2 W.CS →
  evalBV f b c.st = .fuel → DivG W.C (c.vm W below fr) (hb K f (dB b))

structure DAll6 (f : Nat) : Prop where
  e : DE6 W K f
  es : DEs6 W K f
  bv : DBV6 W K f
  s : DS6 W K f
  b : DB6 W K f
  l : DL6 W K f
  bf : DBF6 W K f
end statements

/-! ## sequencing -/

section comp
variable {W : World} {Γb Λ : Gam} {nl : Nat} {below : Array Value} {fr : List Frame}

/-- SEQUENCING for "out of fuel": either the first part ran out (parallel induction hypothesis), or it completed
    normally (forward simulation) and what follows ran out -/
theorem DivG.bind {α β : Type} {fn ab : Bool} {lp : LoopCtx} {base : Array Value} {c : Cfg} {VC1 : α → SState → Prop}
    {r1 : Res α} {k : α → SState → Res β} {n : Nat}
    (hfuel : bindR r1 k = .fuel)
    (h1 : GoalG W Γb Λ nl below fr fn ab lp base c VC1 r1)
    (hd : r1 = .fuel → DivG W.C (c.vm W below fr) n)
    (hk : ∀ a st1, r1 = .val a st1 → VC1 a st1 → k a st1 = .fuel → DivG W.C (c.vm W below fr) n) :
    DivG W.C (c.vm W below fr) n := by
  cases r1 with
  | val a st1 =>
    rcases h1 with h1 | h1
    · exact .inl h1
    · exact hk a st1 rfl h1 hfuel
  | fuel => exact hd rfl
  | brk s => simp [bindR] at hfuel
  | cont s => simp [bindR] at hfuel
  | ret v s => simp [bindR] at hfuel
  | err e s => simp [bindR] at hfuel
  | unspec s => simp [bindR] at hfuel

end comp

end Sim6
end Nl
