/-
  Alpha-equivalence, part 3: (A2) the compiled bytecode does not depend on the choice of
  identifiers, (A3) neither does the machine run nor the definitional evaluation, (A4) a concrete
  renaming and program, and the negative side (a non-injective renaming changes the bytecode).
-/
import Nlmodel.Model.Pipeline
import Nlmodel.Proofs.Lemmas.AlphaResolve
namespace Nl
namespace Alpha

/-! ### (A1) at program level -/

/-- (A1, general form) resolving the renamed tree in the renamed state gives the SAME resolved tree
    (resolved trees carry binder ids and slots, no names), the SAME error, and the renamed final
    state — for every syntactic class (`aE aEs aS aB aSs aO` in `AlphaResolve`) -/
theorem alpha_resolve {f : Text → Text} (hf : Renaming f) (ast : Block) (st : RState) :
    resolveSs (renB f ast) (mapSt f st) = liftR f (resolveSs ast st) := aSs hf ast st

theorem alpha_resolveProgram {f : Text → Text} (hf : Renaming f) (ast : Block) :
    resolveProgram (renB f ast) = resolveProgram ast := by
  unfold resolveProgram
  have h := aSs hf ast {}
  rw [mapSt_empty] at h
  rw [h]
  cases resolveSs ast {} with
  | error e => rfl
  | ok p => obtain ⟨r, st⟩ := p; rfl

/-! ### (A2) -/

/-- (A2, strong form) the whole result of compilation — resolved tree, code bytes, constant pool,
    or the error — is unchanged by a renaming -/
theorem alpha_compile {f : Text → Text} (hf : Renaming f) (ast : Block) :
    compileProgram (renB f ast) = compileProgram ast := by
  unfold compileProgram
  rw [alpha_resolveProgram hf]

/-- (A2, as stated in the task) same bytes, same constants, same error -/
theorem alpha_bytecode {f : Text → Text} (hf : Renaming f) (ast : Block) :
    (compileProgram (renB f ast)).map (·.2) = (compileProgram ast).map (·.2) := by
  rw [alpha_compile hf]

/-! ### (A3) -/

/-- the machine, started fresh on the code of either program, does the same for every budget -/
theorem alpha_run {f : Text → Text} (hf : Renaming f) (ast : Block) (budget : Nat) :
    (compileProgram (renB f ast)).map (fun p => VM.run {} p.2 budget) =
      (compileProgram ast).map (fun p => VM.run {} p.2 budget) := by
  rw [alpha_compile hf]

/-- the same, unfolded: if the original compiles to `(r, bc)`, so does the renamed program -/
theorem alpha_run' {f : Text → Text} (hf : Renaming f) (ast : Block) (r : RBlock) (bc : Bytecode)
    (h : compileProgram ast = .ok (r, bc)) :
    compileProgram (renB f ast) = .ok (r, bc) := by
  rw [alpha_compile hf, h]

/-- the definitional semantics evaluates the same resolved tree, for every fuel -/
theorem alpha_spec {f : Text → Text} (hf : Renaming f) (ast : Block) (F : Nat) :
    (resolveProgram (renB f ast)).map (Spec.evalProgram F) =
      (resolveProgram ast).map (Spec.evalProgram F) := by
  rw [alpha_resolveProgram hf]

/-! ### (A4) non-vacuity: prefix every non-builtin, non-empty name with `_` -/

def pre (n : Text) : Text := if n = [] ∨ n ∈ builtinNames then n else '_' :: n

theorem fixed_no_underscore (a b : Text) (ha : a = [] ∨ a ∈ builtinNames) : a ≠ '_' :: b := by
  intro h
  have hh : a.head? = some '_' := by rw [h]; rfl
  rcases ha with ha | ha
  · subst ha; cases hh
  · simp only [builtinNames, List.mem_cons, List.not_mem_nil, or_false] at ha
    rcases ha with ha | ha | ha | ha | ha | ha | ha <;> subst ha <;> revert hh <;> decide

theorem pre_inj (a b : Text) (h : pre a = pre b) : a = b := by
  unfold pre at h
  by_cases ha : a = [] ∨ a ∈ builtinNames <;> by_cases hb : b = [] ∨ b ∈ builtinNames
  · rw [if_pos ha, if_pos hb] at h; exact h
  · rw [if_pos ha, if_neg hb] at h; exact absurd h (fixed_no_underscore a b ha)
  · rw [if_neg ha, if_pos hb] at h; exact absurd h.symm (fixed_no_underscore b a hb)
  · rw [if_neg ha, if_neg hb] at h; exact List.tail_eq_of_cons_eq h

theorem pre_renaming : Renaming pre :=
  Renaming.of_fixes pre pre_inj (fun _ hn => if_pos (Or.inr hn)) (if_pos (Or.inl rfl))

private def t (s : String) : Text := s.toList

/-- ```
    stel x = 1
    stel f = functie(x, y) { stel x = x + y; print(x); x }      -- shadows its parameter
    functie g(a) { lengte([a, x]) }                              -- named literal, free global
    { stel x = 2; print(x) }                                     -- block-local shadowing
    print(f(x, g(3)))
    ``` -/
def exProg : Block :=
  .cons (.letS (t "x") (.int 1)) <|
  .cons (.letS (t "f") (.func [] [t "x", t "y"]
      (.cons (.letS (t "x") (.infix (.ident (t "x")) .add (.ident (t "y")))) <|
       .cons (.expr (.call (.ident (t "print")) (.cons (.ident (t "x")) .nil))) <|
       .cons (.expr (.ident (t "x"))) .nil))) <|
  .cons (.expr (.func (t "g") [t "a"]
      (.cons (.expr (.call (.ident (t "lengte"))
          (.cons (.arr (.cons (.ident (t "a")) (.cons (.ident (t "x")) .nil))) .nil))) .nil))) <|
  .cons (.block (.cons (.letS (t "x") (.int 2)) <|
                 .cons (.expr (.call (.ident (t "print")) (.cons (.ident (t "x")) .nil))) .nil)) <|
  .cons (.expr (.call (.ident (t "print"))
      (.cons (.call (.ident (t "f")) (.cons (.ident (t "x"))
        (.cons (.call (.ident (t "g")) (.cons (.int 3) .nil)) .nil))) .nil))) .nil

def exProgRenamed : Block :=
  .cons (.letS (t "_x") (.int 1)) <|
  .cons (.letS (t "_f") (.func [] [t "_x", t "_y"]
      (.cons (.letS (t "_x") (.infix (.ident (t "_x")) .add (.ident (t "_y")))) <|
       .cons (.expr (.call (.ident (t "print")) (.cons (.ident (t "_x")) .nil))) <|
       .cons (.expr (.ident (t "_x"))) .nil))) <|
  .cons (.expr (.func (t "_g") [t "_a"]
      (.cons (.expr (.call (.ident (t "lengte"))
          (.cons (.arr (.cons (.ident (t "_a")) (.cons (.ident (t "_x")) .nil))) .nil))) .nil))) <|
  .cons (.block (.cons (.letS (t "_x") (.int 2)) <|
                 .cons (.expr (.call (.ident (t "print")) (.cons (.ident (t "_x")) .nil))) .nil)) <|
  .cons (.expr (.call (.ident (t "print"))
      (.cons (.call (.ident (t "_f")) (.cons (.ident (t "_x"))
        (.cons (.call (.ident (t "_g")) (.cons (.int 3) .nil)) .nil))) .nil))) .nil

/-- TEST (evaluation of the concrete renaming): the renamed program is the expected one; builtin
    callees and the empty name of the anonymous literal are untouched -/
example : renB pre exProg = exProgRenamed := by rfl

/-- the theorem applies: same resolved tree, same bytecode -/
example : compileProgram exProgRenamed = compileProgram exProg :=
  alpha_compile pre_renaming exProg

example : (compileProgram (renB pre exProg)).map (·.2) = (compileProgram exProg).map (·.2) :=
  alpha_bytecode pre_renaming exProg

/-- TEST: and the statement is not about two failing compilations — the program compiles -/
example : (match compileProgram exProg with | .ok _ => true | .error _ => false) = true := by decide +kernel

/-! ### the negative side: injectivity is needed -/

/-- respects builtins and the empty name, but sends every other name to `a` -/
def collapse (n : Text) : Text := if n = [] ∨ n ∈ builtinNames then n else t "a"

/-- `stel a = 1; stel b = 2; a` becomes `stel a = 1; stel a = 2; a`: the last `a` now denotes the
    second declaration (global slot 1 instead of 0) -/
def negProg : Block :=
  .cons (.letS (t "a") (.int 1)) <| .cons (.letS (t "b") (.int 2)) <| .cons (.expr (.ident (t "a"))) .nil

/-- TEST: the code bytes differ -/
def codeOf (b : Block) : List Nat :=
  match compileProgram b with | .ok p => p.2.code.toList | .error _ => []

example : codeOf (renB collapse negProg) ≠ codeOf negProg := by decide +kernel

/-- hence the bytecode differs -/
example : (compileProgram (renB collapse negProg)).map (·.2) ≠ (compileProgram negProg).map (·.2) := by
  intro h
  have h2 : codeOf (renB collapse negProg) = codeOf negProg := by
    unfold codeOf
    cases h1 : compileProgram (renB collapse negProg) with
    | error e => rw [h1] at h; cases h3 : compileProgram negProg with
      | error e' => rfl
      | ok q => rw [h3] at h; cases h
    | ok p => rw [h1] at h; cases h3 : compileProgram negProg with
      | error e' => rw [h3] at h; cases h
      | ok q => rw [h3] at h; injection h with h; exact congrArg (fun b => b.code.toList) h
  exact absurd h2 (by decide +kernel)

example : ¬ (∀ a b, collapse a = collapse b → a = b) := fun h =>
  absurd (h (t "a") (t "b") (by decide)) (by decide)

end Alpha
end Nl
