/- Stage 6, divergence preservation: expressions without control flow (literals, variables, unary and binary operators,
   assignment, indexing, index assignment, array literals, builtin calls, expression lists). -/
import Nlmodel.Proofs.Lemmas.Div6Base
namespace Nl
namespace Sim6
open Spec Sim
open SimH (AMap isStrCell isArrCell Grow PoolH MemOK sameKind LitF)
open SimF (FT FnInfo FTInj paramScope bigScope)

theorem hb_lt {K f d : Nat} (h : f < d) : hb K f d = 0 := by
  unfold hb
  rcases Nat.eq_zero_or_pos K with h0 | hpos
  · subst h0; simp
  · exact Nat.div_eq_of_lt (by omega)

theorem specBuiltin_not_fuel (b : Builtin) (xs : List SVal) (st : SState) : SimH.specBuiltin b xs st ≠ .fuel := by
  intro hsb
  unfold SimH.specBuiltin at hsb
  cases b <;> simp at hsb <;> (repeat' split at hsb) <;> simp at hsb

theorem specBin_not_fuel (op : BinOp) (a b : SVal) (st : SState) : specBin op a b st ≠ .fuel := by
  intro h; unfold specBin at h; split at h <;> cases h

theorem specNot_not_fuel (v : SVal) (st : SState) : specNot v st ≠ .fuel := by
  intro h; unfold specNot at h; split at h <;> cases h

theorem specNeg_not_fuel (v : SVal) (st : SState) : specNeg v st ≠ .fuel := by
  intro h; unfold specNeg at h; split at h
  · split at h <;> cases h
  · cases h
  · cases h

theorem specIndexGet_not_fuel (a b : SVal) (st : SState) : specIndexGet a b st ≠ .fuel := by
  intro h; unfold specIndexGet at h; split at h <;> cases h

theorem specIndexSet_not_fuel (a b v : SVal) (st : SState) : specIndexSet a b v st ≠ .fuel := by
  intro h; unfold specIndexSet at h; split at h <;> cases h

/-- a continuation that never runs out of fuel: the first part did -/
theorem bindR_fuel_leaf {α β : Type} {r : Res α} {k : α → SState → Res β} (hk : ∀ a st, k a st ≠ .fuel) (h : bindR r k = .fuel) : r = .fuel := by
  cases r with
  | val a st => exact absurd h (hk a st)
  | fuel => rfl
  | _ => simp [bindR] at h

section expr
variable {W : World} {K : Nat} {nl : Nat} {fn : Bool} {Γ Γx Λ : Gam} {ab : Bool} {lp : LoopCtx} {cs : List Const}
  {below : Array Value} {fr : List Frame} {c : Cfg}

/-- one sub-expression, then an operation that never runs out of fuel -/
theorem de6_unary (f : Nat) (ih : PE6 W f) (ihd : DE6 W K f) (e1 : RExpr) (h1 : ZE nl fn Γ Λ ab e1) (hsc : Sc6 W fn Γ Γx Λ)
    (hinv : Inv6 W (bigScope fn Γ Γx) Λ nl c) (hwt : TI.WT (c.vm W below fr))
    {d : Nat} (hd : dE e1 + 1 ≤ d) {β : Type} {k : SVal → SState → Res β} (hk : ∀ v st, k v st ≠ .fuel)
    (hc1 : CodeAt W.C c.ip (emitE e1 c.ip lp cs).1) (hext : Ext (emitE e1 c.ip lp cs).2 W.CS)
    (hfuel : bindR (evalE f e1 c.st) k = .fuel) : DivG W.C (c.vm W below fr) (hb K (f + 1) d) := by
  refine DivG.bind hfuel (ih nl fn Γ Γx Λ ab e1 h1 c lp cs below fr hsc hinv hwt hc1 hext) ?_ ?_
  · intro hf
    exact (ihd nl fn Γ Γx Λ ab e1 h1 c lp cs below fr hsc hinv hwt hc1 hext hf).mono (hb_child hd)
  · intro v st1 _ _ h; exact absurd h (hk v st1)

/-- an expression list, then an operation that never runs out of fuel -/
theorem de6_list (f : Nat) (ih : PEs6 W f) (ihd : DEs6 W K f) (es : RExprs) (h1 : ZEs nl fn Γ Λ es) (hsc : Sc6 W fn Γ Γx Λ)
    (hinv : Inv6 W (bigScope fn Γ Γx) Λ nl c) (hwt : TI.WT (c.vm W below fr))
    {d : Nat} (hd : dEs es + 1 ≤ d) {k : List SVal → SState → Res SVal} (hk : ∀ v st, k v st ≠ .fuel)
    (hc1 : CodeAt W.C c.ip (emitEs es c.ip lp cs).1) (hext : Ext (emitEs es c.ip lp cs).2 W.CS)
    (hfuel : bindR (evalEs f es c.st) k = .fuel) : DivG W.C (c.vm W below fr) (hb K (f + 1) d) := by
  refine DivG.bind hfuel (ih nl fn Γ Γx Λ es h1 c lp cs below fr hsc hinv hwt hc1 hext) ?_ ?_
  · intro hf
    exact (ihd nl fn Γ Γx Λ es h1 c lp cs below fr hsc hinv hwt hc1 hext hf).mono (hb_child hd)
  · intro v st1 _ _ h; exact absurd h (hk v st1)

/-- two sub-expressions in sequence (the value of the first stays on the operand stack), then an operation that never
    runs out of fuel -/
theorem de6_binary (f : Nat) (ih : PE6 W f) (ihd : DE6 W K f) (el er : RExpr) (hl : ZE nl fn Γ Λ ab el) (hr : ZE nl fn Γ Λ false er)
    (hsc : Sc6 W fn Γ Γx Λ) (hinv : Inv6 W (bigScope fn Γ Γx) Λ nl c) (hwt : TI.WT (c.vm W below fr))
    {d : Nat} (hd : max (dE el) (dE er) + 1 ≤ d) {k : SVal → SVal → SState → Res SVal} (hk : ∀ a b st, k a b st ≠ .fuel)
    (hc1 : CodeAt W.C c.ip (emitE el c.ip lp cs).1) (hext1 : Ext (emitE el c.ip lp cs).2 W.CS)
    (hc2 : CodeAt W.C (c.ip + sizeE el) (emitE er (c.ip + sizeE el) lp (emitE el c.ip lp cs).2).1)
    (hext : Ext (emitE er (c.ip + sizeE el) lp (emitE el c.ip lp cs).2).2 W.CS)
    (hfuel : bindR (evalE f el c.st) (fun a st1 => bindR (evalE f er st1) (fun b st2 => k a b st2)) = .fuel) :
    DivG W.C (c.vm W below fr) (hb K (f + 1) d) := by
  refine DivG.bind hfuel (ih nl fn Γ Γx Λ ab el hl c lp cs below fr hsc hinv hwt hc1 hext1) ?_ ?_
  · intro hf
    exact (ihd nl fn Γ Γx Λ ab el hl c lp cs below fr hsc hinv hwt hc1 hext1 hf).mono (hb_child (by omega))
  rintro a st1 - ⟨ma, μ1, m1, hma, locs1, g1, l1, out1, n1, hn1, hinv1, hk1⟩ hfuel2
  have hwt1 := wt_execN n1 _ _ hwt hn1
  refine DivG.after hn1 ?_
  refine DivG.bind (c := ⟨μ1, st1, c.ip + sizeE el, locs1, c.ops.push ma, g1, l1, m1, out1⟩) hfuel2
    (ih nl fn Γ Γx Λ false er hr ⟨μ1, st1, c.ip + sizeE el, locs1, c.ops.push ma, g1, l1, m1, out1⟩ lp (emitE el c.ip lp cs).2 below fr
      hsc hinv1 hwt1 hc2 hext) ?_ ?_
  · intro hf
    exact (ihd nl fn Γ Γx Λ false er hr ⟨μ1, st1, c.ip + sizeE el, locs1, c.ops.push ma, g1, l1, m1, out1⟩ lp (emitE el c.ip lp cs).2 below fr
      hsc hinv1 hwt1 hc2 hext hf).mono (hb_child (by omega))
  · intro b st2 _ _ h; exact absurd h (hk a b st2)

theorem de6_assignIndex (f : Nat) (ih : PE6 W f) (ihd : DE6 W K f) (el ei ev : RExpr) (hl : ZE nl fn Γ Λ ab el) (hi : ZE nl fn Γ Λ false ei)
    (hv : ZE nl fn Γ Λ false ev) (hsc : Sc6 W fn Γ Γx Λ)
    (hinv : Inv6 W (bigScope fn Γ Γx) Λ nl c) (hwt : TI.WT (c.vm W below fr))
    (hcode : CodeAt W.C c.ip (emitE (.assignIndex el ei ev) c.ip lp cs).1) (hext : Ext (emitE (.assignIndex el ei ev) c.ip lp cs).2 W.CS)
    (hfuel : evalE (f + 1) (.assignIndex el ei ev) c.st = .fuel) :
    DivG W.C (c.vm W below fr) (hb K (f + 1) (dE (.assignIndex el ei ev))) := by
  simp only [emitE] at hcode hext
  obtain ⟨hc123, hc4⟩ := hcode.append
  obtain ⟨hc12, hc3⟩ := hc123.append
  obtain ⟨hc1, hc2⟩ := hc12.append
  rw [emitE_size] at hc2
  simp only [codeSize_append, emitE_size, ← Nat.add_assoc] at hc3 hc4
  have hext2 : Ext (emitE ei (c.ip + sizeE el) lp (emitE el c.ip lp cs).2).2 W.CS := (emitE_ext ev _ _ _).trans hext
  have hext1 : Ext (emitE el c.ip lp cs).2 W.CS := (emitE_ext ei _ _ _).trans hext2
  rw [evalE_assignIndex] at hfuel
  have hdl : dE el + 1 ≤ dE (.assignIndex el ei ev) := by simp only [dE]; omega
  have hdi : dE ei + 1 ≤ dE (.assignIndex el ei ev) := by simp only [dE]; omega
  have hdv : dE ev + 1 ≤ dE (.assignIndex el ei ev) := by simp only [dE]; omega
  refine DivG.bind hfuel (ih nl fn Γ Γx Λ ab el hl c lp cs below fr hsc hinv hwt hc1 hext1) ?_ ?_
  · intro hf
    exact (ihd nl fn Γ Γx Λ ab el hl c lp cs below fr hsc hinv hwt hc1 hext1 hf).mono (hb_child hdl)
  rintro a st1 - ⟨ma, μ1, m1, hma, locs1, g1, l1, out1, n1, hn1, hinv1, hk1⟩ hfuel2
  have hwt1 := wt_execN n1 _ _ hwt hn1
  refine DivG.after hn1 ?_
  refine DivG.bind (c := ⟨μ1, st1, c.ip + sizeE el, locs1, c.ops.push ma, g1, l1, m1, out1⟩) hfuel2
    (ih nl fn Γ Γx Λ false ei hi ⟨μ1, st1, c.ip + sizeE el, locs1, c.ops.push ma, g1, l1, m1, out1⟩ lp (emitE el c.ip lp cs).2 below fr
      hsc hinv1 hwt1 hc2 hext2) ?_ ?_
  · intro hf
    exact (ihd nl fn Γ Γx Λ false ei hi ⟨μ1, st1, c.ip + sizeE el, locs1, c.ops.push ma, g1, l1, m1, out1⟩ lp (emitE el c.ip lp cs).2 below fr
      hsc hinv1 hwt1 hc2 hext2 hf).mono (hb_child hdi)
  rintro b st2 - ⟨mb, μ2, m2, hmb, locs2, g2, l2, out2, n2, hn2, hinv2, hk2⟩ hfuel3
  have hwt2 := wt_execN n2 _ _ hwt1 hn2
  refine DivG.after hn2 ?_
  refine DivG.bind (c := ⟨μ2, st2, c.ip + sizeE el + sizeE ei, locs2, (c.ops.push ma).push mb, g2, l2, m2, out2⟩) hfuel3
    (ih nl fn Γ Γx Λ false ev hv ⟨μ2, st2, c.ip + sizeE el + sizeE ei, locs2, (c.ops.push ma).push mb, g2, l2, m2, out2⟩ lp _ below fr
      hsc hinv2 hwt2 hc3 hext) ?_ ?_
  · intro hf
    exact (ihd nl fn Γ Γx Λ false ev hv ⟨μ2, st2, c.ip + sizeE el + sizeE ei, locs2, (c.ops.push ma).push mb, g2, l2, m2, out2⟩ lp _ below fr
      hsc hinv2 hwt2 hc3 hext hf).mono (hb_child hdv)
  · intro x st3 _ _ h; exact absurd h (specIndexSet_not_fuel a b x st3)

theorem des6_succ (f : Nat) (ih : PAll6 W f) (ihd : DAll6 W K f) : DEs6 W K (f + 1) := by
  intro nl fn Γ Γx Λ es hx c lp cs below fr hsc hinv hwt hcode hext hfuel
  cases hx with
  | nil => simp [evalEs] at hfuel
  | cons _ _ e rest he hrest =>
    simp only [emitEs] at hcode hext
    obtain ⟨hc1, hc2⟩ := hcode.append
    rw [emitE_size] at hc2
    have hext1 : Ext (emitE e c.ip lp cs).2 W.CS := (emitEs_ext rest _ _ _).trans hext
    rw [evalEs_cons] at hfuel
    refine DivG.bind hfuel (ih.e nl fn Γ Γx Λ false e he c lp cs below fr hsc hinv hwt hc1 hext1) ?_ ?_
    · intro hf
      exact (ihd.e nl fn Γ Γx Λ false e he c lp cs below fr hsc hinv hwt hc1 hext1 hf).mono (hb_child (by simp only [dEs]; omega))
    rintro v st1 - ⟨mv, μ1, m1, hmv, locs1, g1, l1, out1, n1, hn1, hinv1, hk1⟩ hfuel2
    have hwt1 := wt_execN n1 _ _ hwt hn1
    refine DivG.after hn1 ?_
    refine DivG.bind (c := ⟨μ1, st1, c.ip + sizeE e, locs1, c.ops.push mv, g1, l1, m1, out1⟩) hfuel2
      (ih.es nl fn Γ Γx Λ rest hrest ⟨μ1, st1, c.ip + sizeE e, locs1, c.ops.push mv, g1, l1, m1, out1⟩ lp _ below fr
        hsc hinv1 hwt1 hc2 hext) ?_ ?_
    · intro hf
      exact (ihd.es nl fn Γ Γx Λ rest hrest ⟨μ1, st1, c.ip + sizeE e, locs1, c.ops.push mv, g1, l1, m1, out1⟩ lp _ below fr
        hsc hinv1 hwt1 hc2 hext hf).mono (hb_child (by simp only [dEs]; omega))
    · intro vs st2 _ _ h; cases h

end expr
end Sim6
end Nl
