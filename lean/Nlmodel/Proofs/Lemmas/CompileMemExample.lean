/-
  (e) Non-vacuity of the compile-phase ledger: a concrete occurrence list with duplicates of both
  kinds through the success path, a failure after 3 occurrences, a session, and a concrete program
  whose occurrence list it is.  Everything is evaluated by the kernel (`decide`).
-/
import Nlmodel.Proofs.Lemmas.CompileMemTop
import Nlmodel.Proofs.Lemmas.CompileMemOcc
namespace Nl
namespace CompileMem

def f15 : UInt64 := 0x3FF8000000000000     -- 1.5

/-- `"a"; 1.5; "a"; 1.5; "b"` -/
def exOcc : List Const := [.str ['a'], .float f15, .str ['a'], .float f15, .str ['b']]

def liveMap (w : CM) : List Bool := (List.range w.mem.heap.cells.size).map w.mem.heap.isLive

/-! success path -/
-- five boxes; the pool gets boxes 0, 1, 4; boxes 2 and 3 are duplicates; all five managed
example : (compileAlloc exOcc).pool = [(.str ['a'], 0), (.float f15, 1), (.str ['b'], 4)] := by decide
example : (compileAlloc exOcc).dups = [3, 2] := by decide
example : (compileAlloc exOcc).mem.managed = [4, 3, 2, 1, 0] := by decide
example : liveMap (compileAlloc exOcc) = [true, true, true, true, true] := by decide
-- hand-over: the compiler keeps the duplicates only
example : (handOver (compileAlloc exOcc)).mem.managed = [3, 2] := by decide
example : (handOver (compileAlloc exOcc)).handed = [(.str ['a'], 0), (.float f15, 1), (.str ['b'], 4)] := by decide
-- drop of the compiler: the duplicates are freed, once each; the pool boxes stay live
example : (dropCompiler (handOver (compileAlloc exOcc))).log = [3, 2] := by decide
example : liveMap (dropCompiler (handOver (compileAlloc exOcc))) = [true, true, false, false, true] := by decide
-- the run registers the pool boxes and frees them at its end: nothing is live
example : (registerPool (dropCompiler (handOver (compileAlloc exOcc))).mem.heap (compileAlloc exOcc).pool).managed
    = [4, 1, 0] := by decide
example : (List.range 5).map (GC.destroy (registerPool (dropCompiler (handOver (compileAlloc exOcc))).mem.heap
    (compileAlloc exOcc).pool)).heap.isLive = [false, false, false, false, false] := by decide

/-- the theorem instantiated: both alternatives of `split` occur -/
example : ∃ a b, a < 5 ∧ b < 5 ∧
    a ∈ (compileAlloc exOcc).pool.map Prod.snd ∧ a ∉ (dropCompiler (handOver (compileAlloc exOcc))).log ∧
    b ∈ (compileAlloc exOcc).dups ∧ b ∈ (dropCompiler (handOver (compileAlloc exOcc))).log :=
  ⟨0, 2, by decide⟩

example := compile_ledger_success exOcc

/-! failure after 3 occurrences: boxes 0, 1, 2 (a pool box, a pool box, a duplicate) are all freed -/
example : (compileAlloc (exOcc.take 3)).pool = [(.str ['a'], 0), (.float f15, 1)] := by decide
example : (compileAlloc (exOcc.take 3)).dups = [2] := by decide
example : (failAfter 3 exOcc {}).log = [2, 1, 0] := by decide
example : liveMap (failAfter 3 exOcc {}) = [false, false, false] := by decide
example : (failAfter 3 exOcc {}).mem.managed = [] ∧ (failAfter 3 exOcc {}).handed = [] := by decide

example := compile_ledger_failure exOcc 3

/-! a session: success (duplicates 2, 3 pending), success again (duplicates 2, 3 still pending, 5, 6, 7
    handed over or pending), failure after 3 (frees all pending ones and its own three boxes), final drop -/
def exSession : List Comp := [.ok exOcc, .ok [.str ['a'], .str ['a'], .float f15], .fail exOcc 3]

example : (runSession (exSession.take 1) {}).mem.managed = [3, 2] := by decide
example : (runSession (exSession.take 2) {}).mem.managed = [6, 3, 2] := by decide
example : (runSession (exSession.take 2) {}).handed.map Prod.snd = [0, 1, 4, 5, 7] := by decide
example : (runSession exSession {}).log = [10, 9, 8, 6, 3, 2] := by decide
example : (dropCompiler (runSession exSession {})).log = [10, 9, 8, 6, 3, 2] := by decide
example : liveMap (dropCompiler (runSession exSession {})) =
    [true, true, false, false, true, true, false, true, false, false, false] := by decide

example := compile_ledger_session {} exSession

/-! a program with these occurrences: `"a"; 1.5 + ("a" == 1.5); ["b", 7]` (resolved tree) -/
def exProg : RBlock :=
  .cons (.expr (.str ['a']))
  (.cons (.expr (.infix (.float f15) .add (.infix (.str ['a']) .eq (.float f15))))
  (.cons (.expr (.arr (.cons (.str ['b']) (.cons (.int 7) .nil)))) .nil))

example : occB exProg = exOcc := by decide
example : (emitB exProg 0 none []).2 = [.str ['a'], .float f15, .str ['b'], .int 7] := by decide
example : (compileAlloc (occB exProg)).pool.map Prod.fst = [.str ['a'], .float f15, .str ['b']] := by decide

example := occ_faithful exProg

end CompileMem
end Nl
