/- C07 extras, X3: redundant parentheses never create nodes. -/
import Nlmodel.Proofs.Lemmas.C07ExtraBase
namespace Nl
namespace C07X
open RT RTF

/-- `n` pairs of parentheses -/
def parens : Nat → List Token → List Token
  | 0, ts => ts
  | n + 1, ts => paren (parens n ts)

theorem paren_append (ts rest : List Token) : paren ts ++ rest = .lparen :: (ts ++ .rparen :: rest) := by
  simp [paren, List.append_assoc]

/-- (X3, prefix form) `parsePrefix` of `( printE e )` returns exactly `e` — no node for the parentheses — and
    stands at `rest`, whatever `rest` is -/
theorem X3_paren_prefix (e : Expr) (he : WE e) (rest : List Token) :
    ∃ f, parsePrefix f (.lparen :: (printE e ++ .rparen :: rest)) = .ok (e, rest) := by
  have hs : Stops 0 (.rparen :: rest) := .inr (by simp [cur, Token.prec])
  obtain ⟨f, h⟩ := top_ok e he (.rparen :: rest) (by simp [NoElse, cur]) hs
  refine ⟨f + 1, ?_⟩
  rw [parsePrefix]
  simp only [cur, adv]
  rw [h]
  simp [skipTok, cur, adv]

/-- any number (at least one) of pairs of parentheses: `((e))`, `(((e)))`, ... -/
theorem X3_parens_prefix (e : Expr) (he : WE e) : ∀ (n : Nat) (rest : List Token),
    ∃ f, parsePrefix f (parens (n + 1) (printE e) ++ rest) = .ok (e, rest)
  | 0, rest => by
    simpa [parens, paren_append] using X3_paren_prefix e he rest
  | n + 1, rest => by
    obtain ⟨f, h⟩ := X3_parens_prefix e he n (.rparen :: rest)
    have hs : Stops 0 (.rparen :: rest) := .inr (by simp [cur, Token.prec])
    obtain ⟨k, rfl⟩ : ∃ k, f = k + 1 := by
      cases f with
      | zero => simp [parsePrefix] at h
      | succ k => exact ⟨k, rfl⟩
    have h2 : parseExpr (k + 1 + 1) 0 (parens (n + 1) (printE e) ++ .rparen :: rest) = .ok (e, .rparen :: rest) :=
      expr_of_prefix h (parseLoop_stop k 0 e _ hs)
    refine ⟨k + 1 + 2, ?_⟩
    have hts : parens (n + 1 + 1) (printE e) ++ rest = .lparen :: (parens (n + 1) (printE e) ++ .rparen :: rest) := by
      rw [parens, paren_append]
    rw [hts, parsePrefix]
    simp only [cur, adv]
    rw [h2]
    simp [skipTok, cur, adv]

/-- (X3, loop form) parsing `( … ( printE e ) … ) rest` at ANY level `p` is exactly the Pratt loop continuing
    from `rest` with left operand `e`: both directions, for every result -/
theorem X3_parens_iff (e : Expr) (he : WE e) (n p : Nat) (rest : List Token) (R : Expr × List Token) :
    (∃ f, parseExpr f p (parens (n + 1) (printE e) ++ rest) = .ok R) ↔ (∃ f, parseLoop f p e rest = .ok R) := by
  obtain ⟨f0, h0⟩ := X3_parens_prefix e he n rest
  constructor
  · rintro ⟨f, h⟩
    cases f with
    | zero => simp [parseExpr] at h
    | succ f =>
      rw [parseExpr] at h
      cases hp : parsePrefix f (parens (n + 1) (printE e) ++ rest) with
      | error err => rw [hp] at h; cases h
      | ok pr =>
        obtain ⟨l, ts'⟩ := pr
        rw [hp] at h
        have := pre_det hp h0
        cases this
        exact ⟨f, h⟩
  · rintro ⟨f, h⟩
    exact ⟨max f f0 + 1, expr_of_prefix (pre_le (Nat.le_max_right _ _) h0) (loop_le (Nat.le_max_left _ _) h)⟩

/-- (X3) the parenthesised and the bare spelling of `e` give the same result wherever the bare spelling is
    allowed to stand (`Ctx`: the context `printE` itself requires for leaving the parentheses out) -/
theorem X3_parens_redundant (e : Expr) (he : WE e) (n p : Nat) (rest : List Token) (R : Expr × List Token)
    (hctx : RTF.Ctx e p rest) (h : ∃ f, parseExpr f p (parens (n + 1) (printE e) ++ rest) = .ok R) :
    ∃ f, parseExpr f p (printE e ++ rest) = .ok R :=
  gE e he p rest R hctx ((X3_parens_iff e he n p rest R).1 h)

/-- ... in particular in every top position (statement, argument, element, condition, parenthesised): the same tree
    with 0, 1, 2, ... pairs of parentheses (the bare form must not be followed by `anders`, like every printed form) -/
theorem X3_parens_top (e : Expr) (he : WE e) (n : Nat) (rest : List Token) (hs : Stops 0 rest) (hne : n = 0 → NoElse rest) :
    ∃ f, parseExpr f 0 (parens n (printE e) ++ rest) = .ok (e, rest) := by
  cases n with
  | zero => exact top_ok e he rest (hne rfl) hs
  | succ n => exact (X3_parens_iff e he n 0 rest (e, rest)).2 ⟨1, loop_stop hs⟩

end C07X
end Nl
