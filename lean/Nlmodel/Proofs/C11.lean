/-
  C11 — structured control flow goes exactly where the source says.
  (1) code generation: the jump targets the compiler model computes are the end of the `als`, the
      else-branch, the loop head and the loop exit of the innermost enclosing construct (this rests
      on `emit*_size`: the emitted code has the static size);
  (2) definitional semantics: exactly one branch of an `als` runs; `zolang` repeats while the
      condition holds; `stop`/`volgende` end/restart the innermost loop; `antwoord` leaves the
      current function only.
-/
import Nlmodel.Proofs.Lemmas.EmitSize
import Nlmodel.Model.Pipeline
import Nlmodel.Proofs.Lemmas.SimCtlProg
import Nlmodel.Proofs.Lemmas.SimFnAll
import Nlmodel.Proofs.Lemmas.Sim6Body
namespace Nl
namespace C11
open Spec

/-- the code of every expression / statement / block has its static size, whatever the position,
    the enclosing loop and the constant pool (so positions after it are known before it is emitted) -/
theorem C11_emit_size (e : RExpr) (s : RStmt) (b : RBlock) (pos : Nat) (lp : LoopCtx) (cs : List Const) :
    codeSize (emitE e pos lp cs).1 = sizeE e ∧ codeSize (emitS s pos lp cs).1 = sizeS s
    ∧ codeSize (emitB b pos lp cs).1 = sizeB b :=
  ⟨emitE_size e pos lp cs, emitS_size s pos lp cs, emitB_size b pos lp cs⟩

/-- `als`: the conditional jump lands on the first instruction of the else-code, the jump after the
    then-code lands on the first instruction after the whole expression -/
theorem C11_if_targets (c : RExpr) (t : RBlock) (e : ROptBlock) (pos : Nat) (lp : LoopCtx) (cs : List Const) :
    ∃ cc ct ce cs', emitE (.ifE c t e) pos lp cs =
        (cc ++ [.jumpIfFalse (pos + codeSize (cc ++ [Instr.jumpIfFalse 0] ++ ct ++ [Instr.jump 0]))] ++ ct
           ++ [.jump (pos + sizeE (.ifE c t e))] ++ ce, cs')
      ∧ codeSize (cc ++ [Instr.jumpIfFalse 0] ++ ct ++ [Instr.jump 0] ++ ce) = sizeE (.ifE c t e) := by
  refine ⟨(emitE c pos lp cs).1, asValue t (emitB t (pos + sizeE c + 3) lp (emitE c pos lp cs).2).1,
    (emitO e (pos + sizeE c + 3 + sizeBV t + 3) lp (emitB t (pos + sizeE c + 3) lp (emitE c pos lp cs).2).2).1,
    (emitO e (pos + sizeE c + 3 + sizeBV t + 3) lp (emitB t (pos + sizeE c + 3) lp (emitE c pos lp cs).2).2).2, ?_, ?_⟩
  · have h1 : pos + codeSize ((emitE c pos lp cs).1 ++ [Instr.jumpIfFalse 0] ++ asValue t (emitB t (pos + sizeE c + 3) lp (emitE c pos lp cs).2).1 ++ [Instr.jump 0])
        = pos + sizeE c + 3 + sizeBV t + 3 := by
      simp only [codeSize_append, codeSize_cons, codeSize_nil, emitE_size, asValue_size t _ _ lp _ rfl, emitB_size, Instr.size, sizeBV]
      omega
    have h2 : pos + sizeE (.ifE c t e) = pos + sizeE c + 3 + sizeBV t + 3 + sizeO e := by
      simp only [sizeE, sizeBV]; omega
    rw [h1, h2]
    simp only [emitE]
  · simp only [sizeE, codeSize_append, codeSize_cons, codeSize_nil, emitE_size, asValue_size t _ _ lp _ rfl,
      emitB_size, emitO_size, Instr.size]

/-- `zolang`: the loop head is the first instruction of the condition (`pos + 1`), the exit is the
    first instruction after the loop; the body and the condition are compiled with exactly that
    pair as their innermost loop context -/
theorem C11_while_targets (c : RExpr) (b : RBlock) (pos : Nat) (lp : LoopCtx) (cs : List Const) :
    let pend := pos + sizeE (.whileE c b)
    let inner : LoopCtx := some (pos + 1, pend)
    ∃ cb cs', emitE (.whileE c b) pos lp cs =
      ([.null] ++ (emitE c (pos + 1) inner cs).1 ++ [.jumpIfFalse pend, .pop] ++ cb ++ [.jump (pos + 1)], cs')
      ∧ cb = asValue b (emitB b (pos + 1 + sizeE c + 4) inner (emitE c (pos + 1) inner cs).2).1 := by
  have e1 : pos + 1 + sizeE c + 4 + sizeBV b + 3 = pos + sizeE (.whileE c b) := by
    simp only [sizeE, sizeBV]; omega
  simp only [emitE]
  rw [e1]
  exact ⟨_, _, rfl, rfl⟩

/-- `stop` jumps to the exit and `volgende` to the head of the INNERMOST enclosing loop -/
theorem C11_stop_volgende_targets (pos head exit_ : Nat) (cs : List Const) :
    emitS .brk pos (some (head, exit_)) cs = ([.null, .jump exit_], cs)
    ∧ emitS .cont pos (some (head, exit_)) cs = ([.null, .jump head], cs) := ⟨rfl, rfl⟩

/-- a function body never inherits a loop of its definition site (F10): it is compiled with no
    loop context, and the resolver rejects `stop`/`volgende` there -/
theorem C11_function_has_own_loops (st : RState) : resolveS .brk { st with loopDepth := 0 } = .error .syntax
    ∧ resolveS .cont { st with loopDepth := 0 } = .error .syntax := ⟨rfl, rfl⟩

/-- `antwoord` outside any function is rejected at compile time (F11) -/
theorem C11_return_needs_function (e : Expr) (st : RState) (h : st.funcDepth = 0) :
    resolveS (.ret e) st = .error .syntax := by
  simp [resolveS, h]

/-! ### definitional semantics -/

/-- an `als` runs exactly one branch: the then-branch when the condition is `ja` ... -/
theorem C11_if_true (f : Nat) (c : RExpr) (t : RBlock) (e : ROptBlock) (st st1 : SState)
    (hc : evalE f c st = .val (.bool true) st1) :
    evalE (f + 1) (.ifE c t e) st = evalBV f t st1 := by
  simp [evalE, hc]

/-- ... the else-branch (or null when there is none) when it is `nee`; nothing of the other branch
    is evaluated -/
theorem C11_if_false (f : Nat) (c : RExpr) (t : RBlock) (e : ROptBlock) (st st1 : SState)
    (hc : evalE f c st = .val (.bool false) st1) :
    evalE (f + 1) (.ifE c t e) st = (match e with | .none => .val .null st1 | .some b => evalBV f b st1) := by
  simp only [evalE, hc]
  cases e <;> rfl

/-- a condition that is not a boolean is a type error (no branch runs) -/
theorem C11_if_non_bool (f : Nat) (c : RExpr) (t : RBlock) (e : ROptBlock) (st st1 : SState) (i : Int)
    (hc : evalE f c st = .val (.int i) st1) :
    evalE (f + 1) (.ifE c t e) st = .err .type st1 := by
  simp [evalE, hc]

/-- `zolang` ends (with the value of the last completed iteration) as soon as the condition is `nee` -/
theorem C11_loop_exit (f : Nat) (c : RExpr) (b : RBlock) (acc : SVal) (st st1 : SState)
    (hc : evalE f c st = .val (.bool false) st1) :
    evalLoop (f + 1) c b acc st = .val acc st1 := by
  simp [evalLoop, hc]

/-- `stop` ends the innermost loop only: the loop completes normally with null, and whatever
    encloses it goes on -/
theorem C11_stop_ends_innermost (f : Nat) (c : RExpr) (b : RBlock) (acc : SVal) (st st1 st2 : SState)
    (hc : evalE f c st = .val (.bool true) st1) (hb : evalBV f b { st1 with last := acc } = .brk st2) :
    evalLoop (f + 1) c b acc st = .val .null st2 := by
  simp [evalLoop, hc, hb]

/-- `volgende` restarts the innermost loop -/
theorem C11_volgende_restarts_innermost (f : Nat) (c : RExpr) (b : RBlock) (acc : SVal) (st st1 st2 : SState)
    (hc : evalE f c st = .val (.bool true) st1) (hb : evalBV f b { st1 with last := acc } = .cont st2) :
    evalLoop (f + 1) c b acc st = evalLoop f c b .null st2 := by
  simp [evalLoop, hc, hb]

/-- a completed iteration is followed by the next one -/
theorem C11_loop_iterates (f : Nat) (c : RExpr) (b : RBlock) (acc v : SVal) (st st1 st2 : SState)
    (hc : evalE f c st = .val (.bool true) st1) (hb : evalBV f b { st1 with last := acc } = .val v st2) :
    evalLoop (f + 1) c b acc st = evalLoop f c b v st2 := by
  simp [evalLoop, hc, hb]

/-! ### machine level (stage 3 of the simulation, `Proofs/Lemmas/SimCtl*`) -/

/-- NO RESIDUE, on the machine: for an expression of the stage-3 fragment (control flow over global
    scalar variables, `stop`/`volgende` only where no operand is pending), started anywhere, on any
    stack `stk`: if the semantics gives a value, the machine reaches the END of the expression's
    code (`pos + sizeE e`) with the stack `stk.push v` — the value and nothing else; if it gives
    `stop` (`volgende`), the machine is at the innermost loop's exit (head) with `stk.push null`.
    Instance of `Sim.pall` for expressions; `als` and `zolang` are expressions. -/
theorem C11_no_residue (f : Nat) (Γ : Sim.Gam) (ab : Bool) (e : RExpr) (hx : Sim.XE Γ ab e) (hok : Sim.GamOK Γ)
    (st : SState) (pos : Nat) (lp : LoopCtx) (cs : List Const) (C : Code) (s0 : VM) (stk g : Array Value) (l : Value)
    (hcode : Sim.CodeAt C pos (emitE e pos lp cs).1) (hpool : Sim.PoolOK s0.cvals (emitE e pos lp cs).2)
    (hrel : Sim.Rel Γ st g) (hlast : Sim.LastRel st l) :
    Sim.GoalV Γ ab lp C s0 pos stk g l (pos + sizeE e) stk st (evalE f e st) :=
  (Sim.pall f).e Γ ab e hx hok st pos lp cs C s0 stk g l hcode hpool hrel hlast

/-- the resolved tree of `(als nee { 1 }) == zolang ja { 1 + als ja { stop } }` -/
def k3prog : RBlock :=
  .cons (.expr (.infix (.ifE (.bool false) (.cons (.expr (.int 1)) .nil) .none) .eq
    (.whileE (.bool true) (.cons (.expr (.infix (.int 1) .add (.ifE (.bool true) (.cons .brk .nil) .none))) .nil)))) .nil

def specLast (r : Res Unit) : Option SVal := match r with | .val () st => some st.last | _ => none
def isBoolTrue : Option SVal → Bool | some (.bool true) => true | _ => false
def machineError (p : RBlock) (n : Nat) : Option Err :=
  match compileR p with
  | .ok bc => match runSteps bc.code n (VM.start {} bc) with
    | .error e _ => some e
    | _ => none
  | .error _ => none

/-- KNOWN FINDING K3, as a kernel-checked witness: outside the fragment — `stop` evaluated while the
    operand `1` is pending, in a loop that is itself the RIGHT operand of `==` — the definitional
    semantics gives `ja` (null == null) but the machine compares the residue `1` with null and
    fails with a type error.  The real implementation does the same (C11's K3 probes). -/
theorem C11_K3_witness :
    isBoolTrue (specLast (evalB 20 k3prog {})) = true ∧ machineError k3prog 13 = some .type := by
  constructor <;> decide

/-- NO RESIDUE INSIDE FUNCTION BODIES (stage 4 of the simulation): an `als`/`zolang` expression (any
    expression of the stage-4 fragment) evaluated in ANY activation `below ++ locs ++ ops`, with any
    suspended callers: if the semantics gives a value, the machine is at the end of the expression's
    code in the same frame with `ops.push v` — loops left by `stop`, iterations cut by `volgende` and
    calls returning from inside loops by `antwoord` leave nothing behind, for any number of iterations
    and any recursion depth (the alternative outcomes `GoalV` lists: an `antwoord` returns to the saved
    frame, an error is the same error, or the machine stops at its stack/frame limit). -/
theorem C11_no_residue_in_function_bodies (W : SimF.World) (hW : SimF.WOK W) (f : Nat) (nl : Nat) (fn : Bool) (Γ Γx Λ : Sim.Gam) (ab : Bool)
    (e : RExpr) (hx : SimF.YE nl fn Γ Λ ab e)
    (st : SState) (pos : Nat) (lp : LoopCtx) (cs : List Const) (below : Array Value) (fr : List Frame) (locs ops g : Array Value) (l : Value)
    (hsc : SimF.Sc W fn Γ Γx Λ) (hinv : SimF.Inv W (SimF.bigScope fn Γ Γx) Λ nl st locs g l)
    (hcode : Sim.CodeAt W.C pos (emitE e pos lp cs).1) (hpool : Sim.PoolOK W.s0.cvals (emitE e pos lp cs).2) :
    SimF.GoalV W (SimF.bigScope fn Γ Γx) Λ nl below fr fn ab lp pos locs ops g l (pos + sizeE e) ops st (evalE f e st) :=
  (SimF.pall hW f).e nl fn Γ Γx Λ ab e hx st pos lp cs below fr locs ops g l hsc hinv hcode hpool

/-- NO RESIDUE, WITH HEAP VALUES AND CALLS (stage 6): for ANY expression of the stage-6 fragment — in particular an
    `als`/`anders` chain or a `zolang` loop whose branches, condition and body allocate, call functions that allocate and
    collect, index and mutate arrays and strings — started in any frame on ANY operand stack `c.ops`: a definitional value is
    matched by the machine reaching the END of the expression's code with exactly one related value pushed on the SAME
    operands (`c.ops.push mv`) whatever the number of iterations; `stop`/`volgende` by the loop's exit/head with `null`
    pushed; `antwoord` by a return to the caller's frame; an error by the same error after the same output.
    Instance of `Sim6.pall6`. -/
theorem C11_no_residue_with_heap_values_and_calls (W : Sim6.World) (hW : Sim6.WOK6 W) (f : Nat) (nl : Nat) (fn : Bool)
    (Γ Γx Λ : Sim.Gam) (ab : Bool) (e : RExpr) (hx : Sim6.ZE nl fn Γ Λ ab e)
    (c : Sim6.Cfg) (lp : LoopCtx) (cs : List Const) (below : Array Value) (fr : List Frame)
    (hsc : Sim6.Sc6 W fn Γ Γx Λ) (hinv : Sim6.Inv6 W (SimF.bigScope fn Γ Γx) Λ nl c) (hwt : TI.WT (c.vm W below fr))
    (hcode : Sim.CodeAt W.C c.ip (emitE e c.ip lp cs).1) (hpool : Sim.Ext (emitE e c.ip lp cs).2 W.CS) :
    Sim6.GoalV6 W (SimF.bigScope fn Γ Γx) Λ nl below fr fn ab lp c (c.ip + sizeE e) c.ops (Spec.evalE f e c.st) :=
  (Sim6.pall6 hW f).e nl fn Γ Γx Λ ab e hx c lp cs below fr hsc hinv hwt hcode hpool

end C11
end Nl
