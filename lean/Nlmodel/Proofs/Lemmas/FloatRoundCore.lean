/-
  Exact float model, part 2 (C06): `roundMag n d` is the IEEE-754 binary64 round-to-nearest,
  ties-to-even rounding of the positive rational `n/d`.

  Notation: `V a` is the value of magnitude bits `a` in units of 2^-1074 (`FloatRoundBase`), so the
  distance between the float `a` and `n/d`, multiplied by the positive constant `d·2^1074`, is
  `adist (V a * d) (n * 2^1074)`; all comparisons of distances are stated in that form.
-/
import Nlmodel.Proofs.Lemmas.FloatRoundBase

namespace Nl
namespace F64R
open Nl.F64

-- `2^1074`, `2^1024` etc. are meant to be evaluated (GMP) wherever the elaborator wants a literal
set_option exponentiation.threshold 4096

/-! ## 4. the shape of `roundMag` -/

/-- the clamped exponent used by `roundMag` -/
def eeOf (n d : Nat) : Int := if floorLog2Frac n d < -1022 then -1022 else floorLog2Frac n d
/-- exponent field before the carry of the hidden bit -/
def kOf (n d : Nat) : Nat := (eeOf n d + 1022).toNat
/-- `n/d · 2^(52-ee)` as a fraction `NOf / DOf` -/
def NOf (n d : Nat) : Nat := n * 2 ^ (52 - eeOf n d).toNat
def DOf (n d : Nat) : Nat := d * 2 ^ (-(52 - eeOf n d)).toNat

theorem roundMag_unfold (n d : Nat) (hn : n ≠ 0) :
    roundMag n d =
      (if kOf n d * 2 ^ 52 + rne (NOf n d) (DOf n d) ≥ infBits then infBits
       else kOf n d * 2 ^ 52 + rne (NOf n d) (DOf n d)) := by
  unfold roundMag kOf NOf DOf eeOf rne
  rw [if_neg hn]
  simp only
  generalize (if floorLog2Frac n d < -1022 then (-1022 : Int) else floorLog2Frac n d) = ee
  by_cases hs : 52 - ee ≥ 0
  · have h0 : (-(52 - ee)).toNat = 0 := by omega
    simp only [hs, if_true, h0, Nat.pow_zero, Nat.mul_one]
  · have h0 : (52 - ee).toNat = 0 := by omega
    simp only [hs, if_false, h0, Nat.pow_zero, Nat.mul_one]

theorem roundMag_zero (d : Nat) : roundMag 0 d = 0 := by
  unfold roundMag; rfl

theorem roundMag_le_inf (n d : Nat) : roundMag n d ≤ infBits := by
  by_cases hn : n = 0
  · subst hn; rw [roundMag_zero]; exact Nat.zero_le _
  · rw [roundMag_unfold n d hn]; split <;> omega

theorem eeOf_ge (n d : Nat) : -1022 ≤ eeOf n d := by unfold eeOf; split <;> omega
theorem eeOf_ge_floor (n d : Nat) : floorLog2Frac n d ≤ eeOf n d := by unfold eeOf; split <;> omega

theorem eeOf_eq_of_k {n d : Nat} (h : kOf n d ≠ 0) : eeOf n d = floorLog2Frac n d := by
  unfold kOf at h; unfold eeOf at h ⊢; split
  · rename_i h1; rw [if_pos h1] at h; omega
  · rfl

theorem DOf_pos {n d : Nat} (hd : 0 < d) : 0 < DOf n d := Nat.mul_pos hd (two_pow_pos' _)

/-- `n/d · 2^1074 = (NOf/DOf) · 2^k` -/
theorem scale_eq (n d : Nat) : n * 2 ^ 1074 * DOf n d = NOf n d * 2 ^ kOf n d * d := by
  unfold NOf DOf kOf
  have hee := eeOf_ge n d
  generalize eeOf n d = ee at hee
  have h1 : n * 2 ^ 1074 * (d * 2 ^ (-(52 - ee)).toNat)
      = n * d * (2 ^ 1074 * 2 ^ (-(52 - ee)).toNat) := by generalize 2 ^ 1074 = T; ac_rfl
  have h2 : n * 2 ^ (52 - ee).toNat * 2 ^ (ee + 1022).toNat * d
      = n * d * (2 ^ (52 - ee).toNat * 2 ^ (ee + 1022).toNat) := by ac_rfl
  rw [h1, h2, ← Nat.pow_add, ← Nat.pow_add]
  congr 2; omega

/-- `NOf/DOf < 2^53` -/
theorem N_lt (n d : Nat) (hn : 0 < n) (hd : 0 < d) : NOf n d < 2 ^ 53 * DOf n d := by
  have h := (floorLog2Frac_spec hn hd).2
  have hee := eeOf_ge_floor n d
  unfold Lt2 at h
  unfold NOf DOf
  generalize eeOf n d = ee at hee
  generalize floorLog2Frac n d = e at h hee
  have := lt2_mono h (u' := (-(52 - ee)).toNat + 53) (v' := (52 - ee).toNat) (by omega)
  rw [Nat.pow_add] at this
  calc n * 2 ^ (52 - ee).toNat < d * (2 ^ (-(52 - ee)).toNat * 2 ^ 53) := this
    _ = 2 ^ 53 * (d * 2 ^ (-(52 - ee)).toNat) := by ac_rfl

/-- `2^52 ≤ NOf/DOf` for a result in the normal range -/
theorem N_ge (n d : Nat) (hn : 0 < n) (hd : 0 < d) (hk : eeOf n d = floorLog2Frac n d) :
    2 ^ 52 * DOf n d ≤ NOf n d := by
  have h := (floorLog2Frac_spec hn hd).1
  unfold Le2 at h
  unfold NOf DOf
  rw [hk]
  generalize floorLog2Frac n d = e at h
  have := le2_mono h (u' := (-(52 - e)).toNat + 52) (v' := (52 - e).toNat) (by omega)
  rw [Nat.pow_add] at this
  calc 2 ^ 52 * (d * 2 ^ (-(52 - e)).toNat) = d * (2 ^ (-(52 - e)).toNat * 2 ^ 52) := by ac_rfl
    _ ≤ n * 2 ^ (52 - e).toNat := this

/-- `NOf/DOf < 2^52` for a result in the subnormal range -/
theorem N_lt_sub (n d : Nat) (hn : 0 < n) (hd : 0 < d) (hk : floorLog2Frac n d < -1022) :
    NOf n d < 2 ^ 52 * DOf n d := by
  have h := (floorLog2Frac_spec hn hd).2
  unfold Lt2 at h
  have hee : eeOf n d = -1022 := by unfold eeOf; rw [if_pos hk]
  unfold NOf DOf
  rw [hee]
  generalize floorLog2Frac n d = e at h hk
  have := lt2_mono h (u' := (-(52 - (-1022 : Int))).toNat + 52) (v' := (52 - (-1022 : Int)).toNat)
    (by omega)
  rw [Nat.pow_add] at this
  calc n * 2 ^ (52 - (-1022 : Int)).toNat
        < d * (2 ^ (-(52 - (-1022 : Int))).toNat * 2 ^ 52) := this
    _ = 2 ^ 52 * (d * 2 ^ (-(52 - (-1022 : Int))).toNat) := by ac_rfl

theorem rne_le_53 (n d : Nat) (hn : 0 < n) (hd : 0 < d) : rne (NOf n d) (DOf n d) ≤ 2 ^ 53 := by
  have h := N_lt n d hn hd
  have h1 : NOf n d / DOf n d < 2 ^ 53 := (Nat.div_lt_iff_lt_mul (DOf_pos hd)).2 h
  have := rne_le (NOf n d) (DOf n d)
  omega

theorem rne_ge_52 (n d : Nat) (hn : 0 < n) (hd : 0 < d) (hk : eeOf n d = floorLog2Frac n d) :
    2 ^ 52 ≤ rne (NOf n d) (DOf n d) := by
  have h := N_ge n d hn hd hk
  have h1 : 2 ^ 52 ≤ NOf n d / DOf n d := (Nat.le_div_iff_mul_le (DOf_pos hd)).2 h
  exact Nat.le_trans h1 (rne_ge _ _)

/-- a finite result has the bits `k·2^52 + q'` and the value `q'·2^k` -/
theorem roundMag_finite_form {n d : Nat} (hn : 0 < n) (hd : 0 < d) (hfin : roundMag n d < infBits) :
    roundMag n d = kOf n d * 2 ^ 52 + rne (NOf n d) (DOf n d) ∧
    V (roundMag n d) = rne (NOf n d) (DOf n d) * 2 ^ kOf n d := by
  have hu := roundMag_unfold n d (by omega)
  have hb : roundMag n d = kOf n d * 2 ^ 52 + rne (NOf n d) (DOf n d) := by
    rw [hu] at hfin ⊢
    split
    · rename_i h; rw [if_pos h] at hfin; omega
    · rfl
  refine ⟨hb, ?_⟩
  rw [hb]
  apply V_bits (rne_le_53 n d hn hd)
  by_cases hk : kOf n d = 0
  · exact Or.inl hk
  · exact Or.inr (rne_ge_52 n d hn hd (eeOf_eq_of_k hk))

/-! ## 5. correct rounding -/

/-- distances to `n/d` on the `2^k` grid are distances to `NOf/DOf` on the integer grid -/
theorem adist_scale {n d N D k : Nat} (hsc : n * 2 ^ 1074 * D = N * 2 ^ k * d) (j : Nat) :
    adist (j * 2 ^ k * d) (n * 2 ^ 1074) * D = 2 ^ k * d * adist (j * D) N := by
  generalize 2 ^ 1074 = T at hsc ⊢
  rw [← adist_mul_right, hsc, ← adist_mul_left]
  congr 1 <;> ac_rfl

theorem nearest_grid {n d N D k : Nat} (hD : 0 < D)
    (hsc : n * 2 ^ 1074 * D = N * 2 ^ k * d) (j : Nat) :
    adist (rne N D * 2 ^ k * d) (n * 2 ^ 1074) ≤ adist (j * 2 ^ k * d) (n * 2 ^ 1074) := by
  apply Nat.le_of_mul_le_mul_right _ hD
  rw [adist_scale hsc, adist_scale hsc]
  exact Nat.mul_le_mul_left _ (rne_nearest N D hD j)

theorem tie_grid {n d N D k : Nat} (hd : 0 < d) (hD : 0 < D)
    (hsc : n * 2 ^ 1074 * D = N * 2 ^ k * d) (j : Nat) (hj : j ≠ rne N D)
    (h : adist (j * 2 ^ k * d) (n * 2 ^ 1074) ≤ adist (rne N D * 2 ^ k * d) (n * 2 ^ 1074)) :
    rne N D % 2 = 0 := by
  apply rne_other_even N D hD j hj
  have h1 := Nat.mul_le_mul_right D h
  rw [adist_scale hsc, adist_scale hsc] at h1
  exact Nat.le_of_mul_le_mul_left h1 (Nat.mul_pos (two_pow_pos' k) hd)

/-- values below the binade are strictly farther away than the rounded grid point -/
theorem below_far {n d N D k : Nat} (hd : 0 < d) (hD : 0 < D)
    (hsc : n * 2 ^ 1074 * D = N * 2 ^ k * d) (hN : 2 ^ 52 * D ≤ N) {v : Nat}
    (hv : v < 2 ^ 52 * 2 ^ k) :
    adist (rne N D * 2 ^ k * d) (n * 2 ^ 1074) < adist (v * d) (n * 2 ^ 1074) := by
  have h1 : v * d < 2 ^ 52 * 2 ^ k * d := Nat.mul_lt_mul_of_pos_right hv hd
  have h2 : 2 ^ 52 * 2 ^ k * d ≤ n * 2 ^ 1074 := by
    apply Nat.le_of_mul_le_mul_right _ hD
    rw [hsc]
    calc 2 ^ 52 * 2 ^ k * d * D = 2 ^ 52 * D * 2 ^ k * d := by ac_rfl
      _ ≤ N * 2 ^ k * d := Nat.mul_le_mul_right _ (Nat.mul_le_mul_right _ hN)
  have h3 := nearest_grid hD hsc (2 ^ 52)
  simp only [adist_def] at h3 ⊢
  omega

/-- **Correct rounding (nearest).**  A finite result of `roundMag n d` is at least as close to
    `n/d` as every magnitude `a` (in particular every finite one, `a < infBits`).
    Distances are multiplied by `d·2^1074`. -/
theorem roundMag_nearest {n d : Nat} (hn : 0 < n) (hd : 0 < d) (hfin : roundMag n d < infBits)
    (a : Nat) :
    adist (V (roundMag n d) * d) (n * 2 ^ 1074) ≤ adist (V a * d) (n * 2 ^ 1074) := by
  obtain ⟨_, hV⟩ := roundMag_finite_form hn hd hfin
  rw [hV]
  have hD := DOf_pos (n := n) hd
  have hsc := scale_eq n d
  rcases V_grid a (kOf n d) with ⟨j, hj⟩ | ⟨hk, hlt⟩
  · rw [hj, Nat.mul_comm (2 ^ kOf n d) j]
    exact nearest_grid hD hsc j
  · exact Nat.le_of_lt
      (below_far hd hD hsc (N_ge n d hn hd (eeOf_eq_of_k hk)) hlt)

/-- **Correct rounding (ties to even).**  If another magnitude is exactly as close to `n/d` as the
    finite result of `roundMag n d`, the result is the even one of the two. -/
theorem roundMag_tie_even {n d : Nat} (hn : 0 < n) (hd : 0 < d) (hfin : roundMag n d < infBits)
    {a : Nat} (hne : a ≠ roundMag n d)
    (htie : adist (V a * d) (n * 2 ^ 1074) ≤ adist (V (roundMag n d) * d) (n * 2 ^ 1074)) :
    roundMag n d % 2 = 0 := by
  obtain ⟨hb, hV⟩ := roundMag_finite_form hn hd hfin
  have hD := DOf_pos (n := n) hd
  have hsc := scale_eq n d
  have heven : rne (NOf n d) (DOf n d) % 2 = 0 := by
    rcases V_grid a (kOf n d) with ⟨j, hj⟩ | ⟨hk, hlt⟩
    · rw [hV, hj, Nat.mul_comm (2 ^ kOf n d) j] at htie
      apply tie_grid hd hD hsc j _ htie
      intro hjr
      apply hne
      apply V_inj
      rw [hV, hj, hjr, Nat.mul_comm]
    · have := below_far hd hD hsc (N_ge n d hn hd (eeOf_eq_of_k hk)) hlt
      rw [hV] at htie
      omega
  rw [hb]; omega

/-! ### overflow -/

/-- the IEEE overflow threshold `2^1024 - 2^970`: half a unit in the last place above the largest
    finite number `2^1024 - 2^971` -/
def ovfThreshold : Nat := 2 ^ 1024 - 2 ^ 970

set_option exponentiation.threshold 3000 in
theorem ovfThreshold_eq : ovfThreshold = (2 ^ 54 - 1) * 2 ^ 970 := by decide

set_option exponentiation.threshold 3000 in
/-- the largest finite value is below the threshold (in units of 2^-1074) -/
theorem maxFinite_lt_threshold : (2 ^ 53 - 1) * 2 ^ 2045 < ovfThreshold * 2 ^ 1074 := by decide

/-- the carry into the exponent field in the top binade: `rne (n/(2X)) = 2^53` exactly from the
    midpoint `(2^54 - 1)/2` on (the midpoint itself is a tie with the odd `2^53 - 1`) -/
theorem rne_top {n X : Nat} (hX : 0 < X) :
    2 ^ 53 ≤ rne n (2 * X) ↔ (2 ^ 54 - 1) * X ≤ n := by
  have hD : 0 < 2 * X := by omega
  have hdm := Nat.div_add_mod n (2 * X)
  have hm := Nat.mod_lt n hD
  generalize hQ : n / (2 * X) = Q at hdm
  generalize hR : n % (2 * X) = R at hdm hm
  have hXQ : 2 * X * Q = 2 * (X * Q) := Nat.mul_assoc _ _ _
  constructor
  · intro h
    rcases rne_cases n (2 * X) hD with ⟨h0, h1, h2⟩ | ⟨h0, h1, h2⟩
    · rw [hQ] at h0; rw [h0] at h
      have := Nat.mul_le_mul_left X h
      omega
    · rw [hQ] at h0; rw [hR] at h1; rw [h0] at h
      have := Nat.mul_le_mul_left X (show 2 ^ 53 - 1 ≤ Q by omega)
      omega
  · intro h
    have hQ1 : 2 ^ 53 - 1 ≤ Q := by
      rw [← hQ]; apply (Nat.le_div_iff_mul_le hD).2; omega
    by_cases hQ2 : 2 ^ 53 ≤ Q
    · have := rne_ge n (2 * X); omega
    · have hQe : Q = 2 ^ 53 - 1 := by omega
      subst hQe
      rcases rne_cases n (2 * X) hD with ⟨h0, h1, h2⟩ | ⟨h0, h1, h2⟩
      · rw [hR] at h1 h2; rw [hQ] at h2
        have := h2 (by omega)
        omega
      · rw [hQ] at h0; omega

theorem roundMag_inf_iff_bits {n d : Nat} (hn : 0 < n) :
    roundMag n d = infBits ↔ infBits ≤ kOf n d * 2 ^ 52 + rne (NOf n d) (DOf n d) := by
  rw [roundMag_unfold n d (by omega)]
  constructor
  · intro h; split at h
    · assumption
    · omega
  · intro h; rw [if_pos h]

set_option exponentiation.threshold 3000 in
theorem thr_le : ovfThreshold ≤ 2 ^ 1024 := by decide
set_option exponentiation.threshold 3000 in
theorem le_thr : 2 ^ 1023 ≤ ovfThreshold := by decide

/-- in the top binade (`e = 1023`) the scaled fraction is `n / (d·2^971)` -/
theorem top_binade {n d : Nat} (he : eeOf n d = 1023) :
    kOf n d = 2045 ∧ NOf n d = n ∧ DOf n d = 2 * (d * 2 ^ 970) := by
  unfold kOf NOf DOf
  rw [he]
  refine ⟨by decide, ?_, ?_⟩
  · have : (52 - (1023 : Int)).toNat = 0 := by decide
    rw [this]; simp
  · have : (-(52 - (1023 : Int))).toNat = 970 + 1 := by decide
    rw [this, Nat.pow_succ]; generalize 2 ^ 970 = P; ac_rfl

/-- **Overflow.**  `roundMag n d` is `infBits` exactly when `n/d` reaches the IEEE overflow
    threshold `2^1024 - 2^970`. -/
theorem roundMag_inf_iff {n d : Nat} (hn : 0 < n) (hd : 0 < d) :
    roundMag n d = infBits ↔ d * ovfThreshold ≤ n := by
  rw [roundMag_inf_iff_bits hn]
  obtain ⟨hle, hlt⟩ := floorLog2Frac_spec hn hd
  have hq53 := rne_le_53 n d hn hd
  have hinf : infBits = 2047 * 2 ^ 52 := by decide
  have hX : 0 < d * 2 ^ 970 := Nat.mul_pos hd (two_pow_pos' _)
  have hthr : d * ovfThreshold = (2 ^ 54 - 1) * (d * 2 ^ 970) := by
    rw [ovfThreshold_eq]; generalize 2 ^ 970 = P; ac_rfl
  constructor
  · intro h
    have hk : 2045 ≤ kOf n d := by omega
    have hee : eeOf n d = floorLog2Frac n d := eeOf_eq_of_k (by omega)
    have hk' : (kOf n d : Int) = floorLog2Frac n d + 1022 := by
      unfold kOf; rw [hee]; unfold kOf at hk; rw [hee] at hk; omega
    by_cases he : floorLog2Frac n d = 1023
    · rw [he] at hee
      obtain ⟨h1, h2, h3⟩ := top_binade hee
      rw [h1, h2, h3] at h
      rw [hthr]
      exact (rne_top hX).1 (by omega)
    · have he' : 1024 ≤ floorLog2Frac n d := by omega
      unfold Le2 at hle
      have := le2_mono hle (u' := 1024) (v' := 0) (by omega)
      rw [Nat.pow_zero, Nat.mul_one] at this
      exact Nat.le_trans (Nat.mul_le_mul_left d thr_le) this
  · intro h
    have he : 1023 ≤ floorLog2Frac n d := by
      apply Decidable.byContradiction; intro hc
      unfold Lt2 at hlt
      have := lt2_mono hlt (u' := 1023) (v' := 0) (by omega)
      rw [Nat.pow_zero, Nat.mul_one] at this
      have h2 := Nat.mul_le_mul_left d le_thr
      omega
    have hee : eeOf n d = floorLog2Frac n d := by unfold eeOf; rw [if_neg (by omega)]
    have hk' : (kOf n d : Int) = floorLog2Frac n d + 1022 := by
      unfold kOf; rw [hee]; omega
    by_cases he1 : floorLog2Frac n d = 1023
    · rw [he1] at hee
      obtain ⟨h1, h2, h3⟩ := top_binade hee
      rw [h1, h2, h3]
      rw [hthr] at h
      have := (rne_top hX).2 h
      omega
    · have := rne_ge_52 n d hn hd hee
      omega

/-! ## 6. exactness, uniqueness, independence of the representation -/

theorem roundMag_finite_iff {n d : Nat} (hn : 0 < n) (hd : 0 < d) :
    roundMag n d < infBits ↔ n < d * ovfThreshold := by
  have h1 := roundMag_inf_iff hn hd
  have h2 := roundMag_le_inf n d
  omega

/-- a finite value is below the overflow threshold -/
theorem finite_lt_threshold {a d : Nat} (ha : a < infBits) (hd : 0 < d) :
    V a * d < d * ovfThreshold * 2 ^ 1074 := by
  have h1 := Nat.mul_le_mul_right d (V_lt_of_finite ha)
  have h2 := Nat.mul_lt_mul_of_pos_right maxFinite_lt_threshold hd
  have h3 : ovfThreshold * 2 ^ 1074 * d = d * ovfThreshold * 2 ^ 1074 := by
    generalize 2 ^ 1074 = T; generalize ovfThreshold = t; ac_rfl
  omega

/-- **Exactness.**  A representable `n/d = V a / 2^1074` is returned unchanged. -/
theorem roundMag_exact {n d a : Nat} (hd : 0 < d) (ha : a < infBits)
    (h : n * 2 ^ 1074 = V a * d) : roundMag n d = a := by
  by_cases hn : n = 0
  · subst hn
    rw [roundMag_zero]
    rw [Nat.zero_mul] at h
    have : V a = 0 := by
      rcases Nat.mul_eq_zero.1 h.symm with h | h
      · exact h
      · omega
    exact (V_eq_zero.1 this).symm
  · have hn' : 0 < n := by omega
    have hfin : roundMag n d < infBits := by
      rw [roundMag_finite_iff hn' hd]
      apply Decidable.byContradiction; intro hc
      have h1 := Nat.mul_le_mul_right (2 ^ 1074) (Nat.le_of_not_lt hc)
      have h2 := finite_lt_threshold ha hd
      omega
    have h1 := roundMag_nearest hn' hd hfin a
    rw [← h] at h1
    have h2 : adist (n * 2 ^ 1074) (n * 2 ^ 1074) = 0 := adist_eq_zero.2 rfl
    rw [h2] at h1
    have h3 := adist_eq_zero.1 (Nat.le_zero.1 h1)
    rw [h] at h3
    exact V_inj (Nat.eq_of_mul_eq_mul_right hd h3)

/-- `r` is a correctly rounded (nearest, ties to even) finite magnitude for `n/d` -/
def IsRN (n d r : Nat) : Prop :=
  r < infBits ∧
  (∀ a, a < infBits → adist (V r * d) (n * 2 ^ 1074) ≤ adist (V a * d) (n * 2 ^ 1074)) ∧
  (∀ a, a < infBits → a ≠ r →
      adist (V a * d) (n * 2 ^ 1074) = adist (V r * d) (n * 2 ^ 1074) → r % 2 = 0)

/-- **Correct rounding, summary**: below the overflow threshold `roundMag n d` is a correctly
    rounded finite magnitude -/
theorem roundMag_isRN {n d : Nat} (hn : 0 < n) (hd : 0 < d) (hlt : n < d * ovfThreshold) :
    IsRN n d (roundMag n d) := by
  have hfin := (roundMag_finite_iff hn hd).2 hlt
  refine ⟨hfin, fun a _ => roundMag_nearest hn hd hfin a, fun a _ hne he => ?_⟩
  exact roundMag_tie_even hn hd hfin hne (Nat.le_of_eq he)

theorem isRN_unique_aux {n d r r' : Nat} (hd : 0 < d) (h : IsRN n d r) (h' : IsRN n d r')
    (hlt : r < r') : False := by
  obtain ⟨hf, hn, ht⟩ := h
  obtain ⟨hf', hn', ht'⟩ := h'
  have h1 := hn r' hf'
  have h2 := hn' r hf
  have he := ht r' hf' (by omega) (by omega)
  have he' := ht' r hf (by omega) (by omega)
  have h3 := hn (r + 1) (by omega)
  have hx := Nat.mul_lt_mul_of_pos_right (V_strictMono (show r < r + 1 by omega)) hd
  have hy := Nat.mul_lt_mul_of_pos_right (V_strictMono (show r + 1 < r' by omega)) hd
  simp only [adist_def] at h1 h2 h3
  omega

/-- the correctly rounded magnitude is unique, so `IsRN` characterises `roundMag` completely -/
theorem isRN_unique {n d r r' : Nat} (hd : 0 < d) (h : IsRN n d r) (h' : IsRN n d r') : r = r' := by
  by_cases h1 : r < r'
  · exact (isRN_unique_aux hd h h' h1).elim
  · by_cases h2 : r' < r
    · exact (isRN_unique_aux hd h' h h2).elim
    · omega

theorem roundMag_eq_of_isRN {n d r : Nat} (hn : 0 < n) (hd : 0 < d) (hlt : n < d * ovfThreshold)
    (h : IsRN n d r) : roundMag n d = r :=
  isRN_unique hd (roundMag_isRN hn hd hlt) h

/-- distances for two representations of the same rational are proportional -/
theorem adist_congr {n d n' d' : Nat} (h : n * d' = n' * d) (v : Nat) :
    adist (v * d) (n * 2 ^ 1074) * d' = adist (v * d') (n' * 2 ^ 1074) * d := by
  generalize 2 ^ 1074 = T
  rw [← adist_mul_right, ← adist_mul_right]
  have h1 : n * T * d' = n' * T * d := by
    calc n * T * d' = n * d' * T := by ac_rfl
      _ = n' * d * T := by rw [h]
      _ = n' * T * d := by ac_rfl
  rw [h1]; congr 1; ac_rfl

theorem isRN_congr {n d n' d' r : Nat} (hd : 0 < d) (hd' : 0 < d') (h : n * d' = n' * d)
    (hr : IsRN n' d' r) : IsRN n d r := by
  obtain ⟨hf, hn, ht⟩ := hr
  refine ⟨hf, fun a ha => ?_, fun a ha hne he => ?_⟩
  · have h1 := Nat.mul_le_mul_right d (hn a ha)
    rw [← adist_congr h, ← adist_congr h] at h1
    exact Nat.le_of_mul_le_mul_right h1 hd'
  · apply ht a ha hne
    have h1 : adist (V a * d) (n * 2 ^ 1074) * d' = adist (V r * d) (n * 2 ^ 1074) * d' := by
      rw [he]
    rw [adist_congr h, adist_congr h] at h1
    exact Nat.eq_of_mul_eq_mul_right hd h1

/-- **`roundMag` is a function of the rational number `n/d`**, not of its representation -/
theorem roundMag_congr {n d n' d' : Nat} (hd : 0 < d) (hd' : 0 < d') (h : n * d' = n' * d) :
    roundMag n d = roundMag n' d' := by
  by_cases hn : n = 0
  · subst hn
    rw [Nat.zero_mul] at h
    have : n' = 0 := by
      rcases Nat.mul_eq_zero.1 h.symm with h | h
      · exact h
      · omega
    subst this; rw [roundMag_zero, roundMag_zero]
  · have hn0 : 0 < n := by omega
    have hn' : 0 < n' := by
      apply Nat.pos_of_ne_zero; intro h0; subst h0
      rw [Nat.zero_mul] at h
      rcases Nat.mul_eq_zero.1 h with h | h <;> omega
    have hthr : d * ovfThreshold ≤ n ↔ d' * ovfThreshold ≤ n' := by
      generalize ovfThreshold = t
      constructor
      · intro h1
        have h2 := Nat.mul_le_mul_right d' h1
        rw [h] at h2
        have : d * t * d' = d' * t * d := by ac_rfl
        rw [this] at h2
        exact Nat.le_of_mul_le_mul_right h2 hd
      · intro h1
        have h2 := Nat.mul_le_mul_right d h1
        rw [← h] at h2
        have : d' * t * d = d * t * d' := by ac_rfl
        rw [this] at h2
        exact Nat.le_of_mul_le_mul_right h2 hd'
    by_cases hov : d * ovfThreshold ≤ n
    · rw [(roundMag_inf_iff hn0 hd).2 hov, (roundMag_inf_iff hn' hd').2 (hthr.1 hov)]
    · have hov' : ¬ d' * ovfThreshold ≤ n' := fun hc => hov (hthr.2 hc)
      apply roundMag_eq_of_isRN hn0 hd (by omega)
      exact isRN_congr hd hd' h (roundMag_isRN hn' hd' (by omega))

/-! ## 7. the same with the model's `toFrac`; summary -/

/-- distance of the model's own fraction `toFrac (mk s a) = p/q` to `n/d`, against the distance
    measured with `V` -/
theorem adist_toFrac (s : Bool) {a : Nat} (ha : a < 2 ^ 63) (n d : Nat) :
    adist ((toFrac (mk s a)).1 * d) (n * (toFrac (mk s a)).2) * 2 ^ 1074
      = (toFrac (mk s a)).2 * adist (V a * d) (n * 2 ^ 1074) := by
  have h := (toFrac_mk s ha).1
  unfold val at h
  simp only at h
  generalize toFrac (mk s a) = f at h
  obtain ⟨p, q⟩ := f
  simp only at h ⊢
  generalize 2 ^ 1074 = T at h
  rw [← adist_mul_right, ← adist_mul_left]
  congr 1
  · calc p * d * T = (p * T) * d := by ac_rfl
      _ = q * (V a * d) := by rw [h]; ac_rfl
  · ac_rfl

/-- **Correct rounding, stated with the model's `toFrac`**: for `r = roundMag n d` finite and any
    finite magnitude `a`, with `toFrac (mk false r) = pr/qr` and `toFrac (mk false a) = p/q`:
    `|pr/qr - n/d| ≤ |p/q - n/d|` (cross-multiplied by the positive `d·qr·q`). -/
theorem roundMag_nearest_toFrac {n d : Nat} (hn : 0 < n) (hd : 0 < d)
    (hfin : roundMag n d < infBits) {a : Nat} (ha : a < infBits) :
    adist ((toFrac (mk false (roundMag n d))).1 * d) (n * (toFrac (mk false (roundMag n d))).2)
        * (toFrac (mk false a)).2
      ≤ adist ((toFrac (mk false a)).1 * d) (n * (toFrac (mk false a)).2)
        * (toFrac (mk false (roundMag n d))).2 := by
  have hI : infBits < 2 ^ 63 := by decide
  have h1 := adist_toFrac false (show roundMag n d < 2 ^ 63 by omega) n d
  have h2 := adist_toFrac false (show a < 2 ^ 63 by omega) n d
  have h3 := roundMag_nearest hn hd hfin a
  have hT : 0 < 2 ^ 1074 := two_pow_pos' _
  generalize 2 ^ 1074 = T at h1 h2 h3 hT
  generalize (toFrac (mk false (roundMag n d))).2 = qr at h1 ⊢
  generalize (toFrac (mk false a)).2 = q at h2 ⊢
  generalize adist ((toFrac (mk false (roundMag n d))).1 * d) (n * qr) = Ar at h1 ⊢
  generalize adist ((toFrac (mk false a)).1 * d) (n * q) = Aa at h2 ⊢
  apply Nat.le_of_mul_le_mul_right _ hT
  calc Ar * q * T = (Ar * T) * q := by ac_rfl
    _ = qr * adist (V (roundMag n d) * d) (n * T) * q := by rw [h1]
    _ ≤ qr * adist (V a * d) (n * T) * q :=
        Nat.mul_le_mul_right _ (Nat.mul_le_mul_left _ h3)
    _ = (Aa * T) * qr := by rw [h2]; ac_rfl
    _ = Aa * qr * T := by ac_rfl

/-- **Summary of the rounding theorem.**  For a positive rational `n/d`, either `n/d` is below the
    overflow threshold `2^1024 - 2^970` and `roundMag n d` is the unique finite magnitude that is
    nearest to `n/d` with ties to even, or `n/d` is at or above the threshold and the result is
    `infBits`. -/
theorem roundMag_spec {n d : Nat} (hn : 0 < n) (hd : 0 < d) :
    (n < d * ovfThreshold ∧ IsRN n d (roundMag n d) ∧ ∀ r, IsRN n d r → r = roundMag n d) ∨
    (d * ovfThreshold ≤ n ∧ roundMag n d = infBits) := by
  by_cases h : n < d * ovfThreshold
  · exact Or.inl ⟨h, roundMag_isRN hn hd h,
      fun r hr => isRN_unique hd hr (roundMag_isRN hn hd h)⟩
  · exact Or.inr ⟨Nat.le_of_not_lt h, (roundMag_inf_iff hn hd).2 (Nat.le_of_not_lt h)⟩

end F64R
end Nl
