/-
  Model of the tagged-word encoding of `src/object.rs`: `Object(*mut u8)` is a 64-bit word whose low
  three bits are the type tag.  Same shifts and masks as the code; statements about it are in
  Proofs/C15.
-/
namespace Nl
namespace Obj

abbrev Word := BitVec 64

/-- `object::Type` (repr(u8)) -/
inductive Ty where
  | null | int | bool | function | float | string | array
  deriving DecidableEq, Repr, Inhabited

def Ty.tag : Ty → Nat
  | .null => 0 | .int => 1 | .bool => 2 | .function => 3 | .float => 4 | .string => 5 | .array => 6

def Ty.name : Ty → String
  | .null => "null" | .int => "int" | .bool => "bool" | .function => "functie"
  | .float => "float" | .string => "string" | .array => "array"

def TAG_MASK : Word := 0b111#64
def PTR_MASK : Word := ~~~TAG_MASK
def VALUE_SHIFT_BITS : Nat := 3

/-- `Object::with_type(raw, t)` -/
def withType (raw : Word) (t : Ty) : Word := raw ||| BitVec.ofNat 64 t.tag

/-- `Object::tag`: the low three bits. Tag value 7 is never produced by a constructor
    (`tag_of_constructors`, Proofs/C15); the Rust code transmutes it (UB), the model says `none`. -/
def tagNat (w : Word) : Nat := (w &&& TAG_MASK).toNat

def tag (w : Word) : Option Ty :=
  match tagNat w with
  | 0 => some .null | 1 => some .int | 2 => some .bool | 3 => some .function
  | 4 => some .float | 5 => some .string | 6 => some .array | _ => none

def null : Word := withType 0 .null

def bool (b : Bool) : Word :=
  if b then withType (1#64 <<< VALUE_SHIFT_BITS) .bool else withType 0 .bool

/-- `Object::int(value)`: `value << 3 | tag` on the two's-complement word -/
def int (v : Int) : Word := withType (BitVec.ofInt 64 v <<< VALUE_SHIFT_BITS) .int

/-- `Object::function(ip: u32, num_locals: u16)` -/
def function (ip : BitVec 32) (nl : BitVec 16) : Word :=
  let value : Word := (ip.zeroExtend 64 <<< 16) ||| nl.zeroExtend 64
  withType (value <<< VALUE_SHIFT_BITS) .function

/-- heap pointer with tag; `addr` is 8-aligned (allocator contract) -/
def ptr (addr : Word) (t : Ty) : Word := withType addr t

/-- `as_bool`: `(self.0 as u8 >> 3) != 0` -/
def asBool (w : Word) : Bool := (w.truncate 8 >>> VALUE_SHIFT_BITS) != 0#8

/-- `as_int`: arithmetic shift right -/
def asInt (w : Word) : Int := (w.sshiftRight VALUE_SHIFT_BITS).toInt

/-- `as_function`: `[ip, num_locals]` -/
def asFunction (w : Word) : BitVec 32 × BitVec 16 :=
  let value := w.sshiftRight VALUE_SHIFT_BITS
  ((value >>> 16).truncate 32, value.truncate 16)

/-- `as_ptr` -/
def asPtr (w : Word) : Word := w &&& PTR_MASK

/-- `is_heap_allocated`: `tag >= Type::Float` -/
def isHeap (w : Word) : Bool := tagNat w ≥ 4

end Obj
end Nl
