/-
  UTF-8 refinement, part 1: facts about single bytes and the encoding of one code point.
  Key structural lemma (`encodeChar_shape`): every `encodeChar c` is one non-continuation byte
  followed by (width-1) continuation bytes, the width being determined by the first byte.
-/
import Nlmodel.Model.Utf8
namespace Nl
namespace Utf8

/-! ### bytes -/

set_option maxRecDepth 100000 in
private theorem isCont_aux :
    ∀ n, n < 256 → (isCont (UInt8.ofNat n) = decide (128 ≤ n ∧ n < 192)) := by decide

/-- the mask form `b &&& 0xC0 == 0x80` of `isCont` is the arithmetic one (checked on all 256 bytes) -/
theorem isCont_eq (b : UInt8) : isCont b = decide (128 ≤ b.toNat ∧ b.toNat < 192) := by
  have := isCont_aux b.toNat b.toNat_lt
  rwa [UInt8.ofNat_toNat] at this

theorem isCont_iff (b : UInt8) : isCont b = true ↔ (128 ≤ b.toNat ∧ b.toNat < 192) := by
  rw [isCont_eq]; simp

theorem isCont_false_iff (b : UInt8) : isCont b = false ↔ (b.toNat < 128 ∨ 192 ≤ b.toNat) := by
  rw [isCont_eq]; simp; omega

theorem toNat_ofNat_of_lt {k : Nat} (h : k < 256) : (UInt8.ofNat k).toNat = k := by
  rw [UInt8.toNat_ofNat']; exact Nat.mod_eq_of_lt h

/-! ### code points -/

/-- a `Char` is a Unicode scalar value: below 0x110000 and not a surrogate -/
theorem char_range (c : Char) : c.toNat < 0xD800 ∨ (0xDFFF < c.toNat ∧ c.toNat < 0x110000) :=
  c.valid

theorem char_lt (c : Char) : c.toNat < 0x110000 := by
  have := char_range c; omega

/-- the four cases of the encoder, with the numeric value of every byte -/
theorem encodeChar_cases (c : Char) :
    (c.toNat < 0x80 ∧ ∃ b0, encodeChar c = [b0] ∧ b0.toNat = c.toNat) ∨
    (0x80 ≤ c.toNat ∧ c.toNat < 0x800 ∧ ∃ b0 b1, encodeChar c = [b0, b1] ∧
      b0.toNat = 0xC0 + c.toNat / 64 ∧ b1.toNat = 0x80 + c.toNat % 64) ∨
    (0x800 ≤ c.toNat ∧ c.toNat < 0x10000 ∧ ∃ b0 b1 b2, encodeChar c = [b0, b1, b2] ∧
      b0.toNat = 0xE0 + c.toNat / 4096 ∧ b1.toNat = 0x80 + c.toNat / 64 % 64 ∧
      b2.toNat = 0x80 + c.toNat % 64) ∨
    (0x10000 ≤ c.toNat ∧ c.toNat < 0x110000 ∧ ∃ b0 b1 b2 b3, encodeChar c = [b0, b1, b2, b3] ∧
      b0.toNat = 0xF0 + c.toNat / 262144 ∧ b1.toNat = 0x80 + c.toNat / 4096 % 64 ∧
      b2.toNat = 0x80 + c.toNat / 64 % 64 ∧ b3.toNat = 0x80 + c.toNat % 64) := by
  have hr := char_lt c
  unfold encodeChar
  by_cases h1 : c.toNat < 0x80
  · left
    refine ⟨h1, _, ?_, toNat_ofNat_of_lt (by omega)⟩
    simp only [h1, if_true]
  · by_cases h2 : c.toNat < 0x800
    · right; left
      refine ⟨by omega, h2, _, _, ?_, toNat_ofNat_of_lt (by omega), toNat_ofNat_of_lt (by omega)⟩
      simp only [h1, h2, if_true, if_false]
    · by_cases h3 : c.toNat < 0x10000
      · right; right; left
        refine ⟨by omega, h3, _, _, _, ?_, toNat_ofNat_of_lt (by omega),
          toNat_ofNat_of_lt (by omega), toNat_ofNat_of_lt (by omega)⟩
        simp only [h1, h2, h3, if_true, if_false]
      · right; right; right
        refine ⟨by omega, hr, _, _, _, _, ?_, toNat_ofNat_of_lt (by omega),
          toNat_ofNat_of_lt (by omega), toNat_ofNat_of_lt (by omega), toNat_ofNat_of_lt (by omega)⟩
        simp only [h1, h2, h3, if_false]

/-- KEY STRUCTURAL LEMMA: one lead (non-continuation) byte whose value announces the width,
    followed by width-1 continuation bytes -/
theorem encodeChar_shape (c : Char) :
    ∃ lead conts, encodeChar c = lead :: conts ∧ isCont lead = false ∧
      (∀ b ∈ conts, isCont b = true) ∧ charWidth lead = conts.length + 1 := by
  rcases encodeChar_cases c with ⟨h, b0, e, v0⟩ | ⟨h, h', b0, b1, e, v0, v1⟩ |
      ⟨h, h', b0, b1, b2, e, v0, v1, v2⟩ | ⟨h, h', b0, b1, b2, b3, e, v0, v1, v2, v3⟩
  · refine ⟨b0, [], e, (isCont_false_iff _).2 (by omega), by simp, ?_⟩
    simp [charWidth]; omega
  · refine ⟨b0, [b1], e, (isCont_false_iff _).2 (by omega), ?_, ?_⟩
    · simp [isCont_iff]; omega
    · unfold charWidth
      rw [if_neg (by omega), if_pos (by omega)]; rfl
  · refine ⟨b0, [b1, b2], e, (isCont_false_iff _).2 (by omega), ?_, ?_⟩
    · simp [isCont_iff]; omega
    · unfold charWidth
      rw [if_neg (by omega), if_neg (by omega), if_pos (by omega)]; rfl
  · refine ⟨b0, [b1, b2, b3], e, (isCont_false_iff _).2 (by omega), ?_, ?_⟩
    · simp [isCont_iff]; omega
    · unfold charWidth
      rw [if_neg (by omega), if_neg (by omega), if_neg (by omega)]; rfl

theorem encodeChar_length_pos (c : Char) : 0 < (encodeChar c).length := by
  obtain ⟨l, cs, e, _⟩ := encodeChar_shape c
  rw [e]; simp

theorem encodeChar_length_le (c : Char) : (encodeChar c).length ≤ 4 := by
  rcases encodeChar_cases c with ⟨_, _, e, _⟩ | ⟨_, _, _, _, e, _⟩ |
      ⟨_, _, _, _, _, e, _⟩ | ⟨_, _, _, _, _, _, e, _⟩ <;> rw [e] <;> simp

/-- the encoder written out here is core Lean's `String.utf8EncodeChar` -/
theorem encodeChar_eq_core (c : Char) : encodeChar c = String.utf8EncodeChar c := by
  have hr := char_lt c
  unfold encodeChar String.utf8EncodeChar
  simp only [Char.toNat] at hr ⊢
  generalize c.val.toNat = n at hr ⊢
  by_cases h1 : n < 0x80
  · rw [if_pos h1, if_pos (by omega)]
  · by_cases h2 : n < 0x800
    · rw [if_neg h1, if_pos h2, if_neg (by omega), if_pos (by omega)]
      have e1 : n / 64 % 32 + 192 = 0xC0 + n / 64 := by omega
      have e2 : n % 64 + 128 = 0x80 + n % 64 := by omega
      rw [e1, e2]
    · by_cases h3 : n < 0x10000
      · rw [if_neg h1, if_neg h2, if_pos h3, if_neg (by omega), if_neg (by omega), if_pos (by omega)]
        have e1 : n / 4096 % 16 + 224 = 0xE0 + n / 4096 := by omega
        have e2 : n / 64 % 64 + 128 = 0x80 + n / 64 % 64 := by omega
        have e3 : n % 64 + 128 = 0x80 + n % 64 := by omega
        rw [e1, e2, e3]
      · rw [if_neg h1, if_neg h2, if_neg h3, if_neg (by omega), if_neg (by omega), if_neg (by omega)]
        have e0 : n / 262144 % 8 + 240 = 0xF0 + n / 262144 := by omega
        have e1 : n / 4096 % 64 + 128 = 0x80 + n / 4096 % 64 := by omega
        have e2 : n / 64 % 64 + 128 = 0x80 + n / 64 % 64 := by omega
        have e3 : n % 64 + 128 = 0x80 + n % 64 := by omega
        rw [e0, e1, e2, e3]

end Utf8
end Nl
