/- Stage 4: whole programs with functions: compileR + VM.start + run (C01, C12). -/
import Nlmodel.Proofs.Lemmas.SimFnTable
namespace Nl
namespace SimF
open Spec Sim

theorem loadConsts_fns : ∀ (cs : List Const) (m : Mem) (vs : Array Value) (k : Nat) (a b : Nat),
    cs[k]? = some (.fn a b) → (loadConsts cs (m, vs)).2[vs.size + k]? = some (.fn a b) := by
  intro cs
  induction cs with
  | nil => intro m vs k a b h; simp at h
  | cons c cs ih =>
    intro m vs k a b h
    cases k with
    | zero =>
      simp only [List.getElem?_cons_zero, Option.some.injEq] at h
      subst h
      simp only [loadConsts, Nat.add_zero]
      rw [loadConsts_prefix _ _ _ vs.size (by simp)]
      simp
    | succ k =>
      simp only [List.getElem?_cons_succ] at h
      have e : vs.size + (k + 1) = (vs.size + 1) + k := by omega
      cases c with
      | int j => simp only [loadConsts]; have := ih m (vs.push (.int j)) k a b h; simpa [e] using this
      | fn ip nl => simp only [loadConsts]; have := ih m (vs.push (.fn ip nl)) k a b h; simpa [e] using this
      | float x =>
        simp only [loadConsts]
        have := ih (m.allocFloat x).1 (vs.push (m.allocFloat x).2) k a b h
        simpa [e] using this
      | str t =>
        simp only [loadConsts]
        have := ih (m.allocStr t).1 (vs.push (m.allocStr t).2) k a b h
        simpa [e] using this

theorem loadConsts_noheap : ∀ (cs : List Const) (m : Mem) (vs : Array Value), NoHeap cs → (loadConsts cs (m, vs)).1 = m := by
  intro cs
  induction cs with
  | nil => intro m vs _; rfl
  | cons c cs ih =>
    intro m vs h
    have hc := h c List.mem_cons_self
    have hrest : NoHeap cs := fun x hx => h x (List.mem_cons_of_mem _ hx)
    rcases hc with ⟨i, rfl⟩ | ⟨a, b, rfl⟩
    · simp only [loadConsts]; exact ih m _ hrest
    · simp only [loadConsts]; exact ih m _ hrest

theorem start_pool2 (bc : Bytecode) (prev : VM) : PoolOK2 (prev.start bc).cvals bc.consts := by
  refine ⟨start_pool bc prev, ?_⟩
  intro k a b h
  have := loadConsts_fns bc.consts { heap := prev.mem.heap, managed := [] } #[] k a b h
  simpa [VM.start] using this

theorem start_managed (bc : Bytecode) (prev : VM) (h : NoHeap bc.consts) : (prev.start bc).mem.managed = [] := by
  have := loadConsts_noheap bc.consts { heap := prev.mem.heap, managed := [] } #[] h
  simp only [VM.start]
  rw [show (loadConsts bc.consts ({ heap := prev.mem.heap, managed := [] }, #[])) =
    ((loadConsts bc.consts ({ heap := prev.mem.heap, managed := [] }, #[])).1, (loadConsts bc.consts ({ heap := prev.mem.heap, managed := [] }, #[])).2) from rfl]
  simp only [this]

/-- END TO END, stage 4: a top-level program (statements and function definitions in sequence, `YTop`)
    whose function ids are pairwise distinct, compiled by the compiler model and run on a fresh
    machine: the run ends as the definitional semantics says — or at one of the machine's limits
    (stack height / number of frames at a call), which the semantics does not have -/
theorem fn_program (p : RBlock) (Γ' : Gam) (D : List (Nat × FnInfo)) (hy : YTop [] p 0 [] Γ' D)
    (hnd : D.Pairwise (fun x y => x.1 ≠ y.1)) (bc : Bytecode) (hc : compileR p = .ok bc) (F : Nat) :
    HitsLimit bc ∨
    match evalB F p {} with
    | .val () st' => ∃ mv n, VR (lookupD D) Γ' st'.last mv ∧ st'.out = [] ∧
        ∀ k, ∃ s', runSteps bc.code (n + k) (VM.start {} bc) = .value mv s'
    | .err er _ => ∃ n, ∀ k, ∃ s', runSteps bc.code (n + k) (VM.start {} bc) = .error er s'
    | .brk _ => False
    | .cont _ => False
    | .ret _ _ => False
    | _ => True := by
  obtain ⟨hcode, hconsts, hwf⟩ := compile_general p bc hc
  have hall : CodeAt bc.code 0 ((emitB p 0 none []).1 ++ [.halt]) := ⟨hwf, [], [], by simp [hcode], rfl⟩
  obtain ⟨h1, hhalt⟩ := hall.append
  have hnh : NoHeap bc.consts := by rw [hconsts]; exact ytop_noheap hy (by intro c hc; cases hc)
  let W : World := { ft := lookupD D, Γp := [], C := bc.code, s0 := VM.start {} bc }
  have hpool2 : PoolOK2 W.s0.cvals (emitB p 0 none []).2 := by rw [← hconsts]; exact start_pool2 bc {}
  have hips := ytop_ips hy
  have hW : WOK W := by
    refine ⟨?_, start_managed bc {} hnh, ?_⟩
    · intro f1 f2 i1 i2 h1' h2' hip
      have m1 := lookupD_mem D f1 i1 h1'
      have m2 := lookupD_mem D f2 i2 h2'
      rcases List.mem_iff_getElem.mp m1 with ⟨a, ha, ea⟩
      rcases List.mem_iff_getElem.mp m2 with ⟨b, hb, eb⟩
      by_cases hab : a = b
      · subst hab; rw [ea] at eb; injection eb
      · exfalso
        rcases Nat.lt_or_gt_of_ne hab with hlt | hgt
        · have := (List.pairwise_iff_getElem.mp hips.2) a b ha hb hlt
          rw [ea, eb] at this; exact this hip
        · have := (List.pairwise_iff_getElem.mp hips.2) b a hb ha hgt
          rw [ea, eb] at this; exact this hip.symm
    · intro fid info hft
      exact ytop_fnok (W := W) hy _ (Ext.refl _) hpool2.1 h1 (fid, info) (lookupD_mem D fid info hft)
  have hD : ∀ q ∈ D, W.ft q.1 = some q.2 := fun q hq => lookupD_of_mem D hnd q hq
  have hstart : mkS W.s0 0 #[] #[] #[] #[] .null [] = VM.start {} bc := by
    simp [mkS, W, VM.start]
  have hsim := ptop hW hy hD (by simp [GamOK]) F {} #[] .null
    ⟨fun _ _ hm => (by cases hm), fun _ _ hm => (by cases hm), trivial, rfl⟩ h1 hpool2
  rcases hsim with hov | hsim
  · obtain ⟨n, s1, hn, hl⟩ := hov
    rw [hstart] at hn
    exact .inl ⟨n, s1, hn, hl⟩
  refine .inr ?_
  cases hr : evalB F p {} with
  | val u st' =>
    rw [hr] at hsim
    obtain ⟨g', l', n, hn, hinv, hout⟩ := hsim
    rw [hstart] at hn
    simp only
    refine ⟨l', n + 1, hinv.last, by simpa using hout, ?_⟩
    simp only [emitB_size, Nat.zero_add] at hhalt hn
    have hs : step bc.code (mkS W.s0 (sizeB p) #[] #[] #[] g' l' []) = .halt l' (mkS W.s0 (sizeB p + 1) #[] #[] #[] g' l' []) := by
      rw [step_exec (C := bc.code) hhalt]; rfl
    intro k
    exact ⟨_, run_halt bc.code n _ _ l' _ hn hs k⟩
  | err er st' =>
    rw [hr] at hsim
    obtain ⟨n, s1, s2, hn, hs⟩ := hsim
    rw [hstart] at hn
    simp only
    exact ⟨n + 1, fun k => ⟨s2, run_error bc.code n _ s1 er s2 hn hs k⟩⟩
  | fuel => trivial
  | brk _ => rw [hr] at hsim; exact hsim
  | cont _ => rw [hr] at hsim; exact hsim
  | ret _ _ => rw [hr] at hsim; exact hsim
  | unspec _ => trivial

end SimF
end Nl
