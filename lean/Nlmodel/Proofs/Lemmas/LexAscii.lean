/- C08: escaped string bodies are well-formed literal bodies; the ASCII character class satisfies the assumptions. -/
import Nlmodel.Proofs.Lemmas.LexRender
namespace Nl
namespace LR

/-- the escaped spelling of ANY text is a well-formed string-literal body: the scanner stops exactly at the closing quote -/
theorem scanStr_escape (s r : Text) : scanStr (escape s ++ '"' :: r) false = (escape s, '"' :: r) := by
  induction s with
  | nil => simp [escape, scanStr]
  | cons c t ih =>
    by_cases h1 : c = '"'
    · subst h1; simp [escape, scanStr, ih]
    · by_cases h2 : c = '\\'
      · subst h2; simp [escape, scanStr, ih]
      · by_cases h3 : c = '\n'
        · subst h3; simp [escape, scanStr, ih]
        · by_cases h4 : c = '\t'
          · subst h4; simp [escape, scanStr, ih]
          · have he : escape (c :: t) = c :: escape t := by
              rw [escape.eq_def]
              split <;> simp_all
            rw [he]
            simp [scanStr, h1, h2, ih]

theorem ascii_wf : CCWF CharClass.ascii := by
  have hws : ∀ c : Char, isWs c = true → c.isAlphanum = false := by
    intro c hw
    have hcases : c.val = 0x09 ∨ c.val = 0x0A ∨ c.val = 0x0B ∨ c.val = 0x0C ∨ c.val = 0x0D ∨ c.val = 0x20
        ∨ c.val = 0x85 ∨ c.val = 0x200E ∨ c.val = 0x200F ∨ c.val = 0x2028 ∨ c.val = 0x2029 := by
      simpa [isWs, or_assoc] using hw
    simp only [Char.isAlphanum, Char.isAlpha, Char.isUpper, Char.isLower, Char.isDigit]
    rcases hcases with h | h | h | h | h | h | h | h | h | h | h <;> simp [h] <;> decide
  refine ⟨?_, fun c hc => hc, ?_, ?_, hws, ?_⟩
  · intro c hc; simp only [CharClass.ascii, Char.isAlphanum] at hc ⊢; simp [hc]
  · intro c hc; simp only [CharClass.ascii, Char.isAlphanum]; simp [hc]
  · intro c hc
    simp only [CharClass.ascii, Char.isAlpha, Char.isUpper, Char.isLower, Char.isDigit, Bool.and_eq_true, decide_eq_true_eq,
      Bool.or_eq_false_iff, Bool.and_eq_false_iff, decide_eq_false_iff_not] at hc ⊢
    have h1 := UInt32.le_iff_toNat_le.mp hc.1
    have h2 := UInt32.le_iff_toNat_le.mp hc.2
    constructor
    · intro h3; have := UInt32.le_iff_toNat_le.mp h3.1; simp at h1 h2 this; omega
    · left; intro h3; have := UInt32.le_iff_toNat_le.mp h3; simp at h1 h2 this; omega
  · intro c hc
    simp only [punctChars, List.mem_cons, List.not_mem_nil, or_false] at hc
    rcases hc with e | e | e | e | e | e | e | e | e | e | e | e | e | e | e | e | e | e | e | e | e | e | e <;> subst e <;> decide

end LR
end Nl
