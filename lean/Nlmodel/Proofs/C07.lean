/-
  C07 — source text denotes one tree: precedence, associativity, layout independence.
-/
import Nlmodel.Model.Printer
import Nlmodel.Proofs.Lemmas.Pratt
import Nlmodel.Proofs.C08
import Nlmodel.Proofs.Lemmas.RoundTrip
import Nlmodel.Proofs.Lemmas.FloatText
import Nlmodel.Proofs.Lemmas.ParsedFloats
import Nlmodel.Proofs.Lemmas.ParseRange
import Nlmodel.Proofs.Lemmas.C07ExtraComma
namespace Nl
namespace C07

/-- the 13 binary operators -/
def isBin (op : Op) : Prop :=
  op = .add ∨ op = .sub ∨ op = .mul ∨ op = .div ∨ op = .mod ∨ op = .gt ∨ op = .gte ∨ op = .lt ∨ op = .lte
  ∨ op = .eq ∨ op = .neq ∨ op = .and ∨ op = .or

/-- the model parser's precedence table (tied exhaustively to parser.rs by the table
    correspondence) is the DOCUMENTED one, for every binary operator -/
theorem C07_table_is_documented (op : Op) (h : isBin op) :
    (opToken op).prec = docLevel op ∧ (opToken op).binop = some op := by
  rcases h with rfl | rfl | rfl | rfl | rfl | rfl | rfl | rfl | rfl | rfl | rfl | rfl | rfl <;> exact ⟨rfl, rfl⟩

/-- `* / %` above `+ -` above `< <= > >=` above `== !=` above `&& ||` above `=`;
    calls and indexing bind tighter than any operator -/
theorem C07_documented_order :
    docLevel .mul > docLevel .add ∧ docLevel .add > docLevel .lt ∧ docLevel .lt > docLevel .eq
    ∧ docLevel .eq > docLevel .and ∧ docLevel .and > Token.prec .assign
    ∧ Token.prec .lparen > docLevel .mul ∧ Token.prec .lbracket > docLevel .mul
    ∧ docLevel .mul = docLevel .div ∧ docLevel .div = docLevel .mod ∧ docLevel .add = docLevel .sub
    ∧ docLevel .lt = docLevel .lte ∧ docLevel .lt = docLevel .gt ∧ docLevel .lt = docLevel .gte
    ∧ docLevel .eq = docLevel .neq ∧ docLevel .and = docLevel .or := by decide

/-- ROUND TRIP (expression level): every tree over the 13 binary operators and atoms (identifiers,
    integer literals, booleans) — any shape, any depth, any operator combination — printed with
    minimal parentheses according to the DOCUMENTED table parses back to exactly that tree, in any
    context that does not continue the expression, with any fuel from a bound linear in the number of
    tokens on.  Hence: operators group as documented, equal levels associate to the left (a right
    child of equal level is printed in parentheses, a left child is not), and the parentheses the
    printer omits are exactly the redundant ones. -/
theorem C07_print_parse_expr (e : Expr) (h : RT.BinE e) (rest : List Token) (hstop : RT.Stops 0 rest) (F : Nat)
    (hF : 2 * (printE e).length + 1 ≤ F) :
    parseExpr F 0 (printE e ++ rest) = .ok (e, rest) :=
  RT.print_parse_expr e h rest hstop F (by have := (RT.bound e h).1; omega)

/-- ROUND TRIP (program level, with the fuel `parse` itself supplies): `parse (print e;) = e;` -/
theorem C07_print_parse_program (e : Expr) (h : RT.BinE e) :
    parseTokens (printProgram (.cons (.expr e) .nil)) = .ok (.cons (.expr e) .nil) :=
  RT.print_parse_program e h

/-- non-vacuity: `a - (b - c) * d` and `(a - b) - c` are in the fragment; the first needs its
    parentheses, the second does not get any -/
example : printE (.infix (.ident ['a']) .sub (.infix (.infix (.ident ['b']) .sub (.ident ['c'])) .mul (.ident ['d'])))
    = [.ident ['a'], .minus, .lparen, .ident ['b'], .minus, .ident ['c'], .rparen, .star, .ident ['d']] := by decide
example : printE (.infix (.infix (.ident ['a']) .sub (.ident ['b'])) .sub (.ident ['c']))
    = [.ident ['a'], .minus, .ident ['b'], .minus, .ident ['c']] := by decide
example : RT.BinE (.infix (.infix (.ident ['a']) .sub (.ident ['b'])) .sub (.ident ['c'])) :=
  .bin _ _ _ (by simp [RT.isBin]) (.bin _ _ _ (by simp [RT.isBin]) (.ident _) (.ident _)) (.ident _)

/-- all identifiers of the tree are spellable: not keywords, letters/digits/underscore, not starting with a digit -/
def WFIdents (cc : CharClass) : Expr → Prop
  | .ident n => LR.WFTok cc (.ident n)
  | .infix l _ r => WFIdents cc l ∧ WFIdents cc r
  | _ => True

theorem printE_wf (cc : CharClass) (e : Expr) (h : RT.BinE e) (hi : WFIdents cc e) : ∀ t ∈ printE e, LR.WFTok cc t := by
  induction h with
  | ident n => intro t ht; simp only [printE, List.mem_singleton] at ht; subst ht; exact hi
  | int v h0 h1 =>
    intro t ht
    simp only [printE, List.mem_singleton] at ht; subst ht
    obtain ⟨_, hall, hne⟩ := C14.natToDec_spec v.toNat
    cases hx : natToDec v.toNat with
    | nil => exact absurd hx hne
    | cons c cs =>
      rw [hx] at hall
      simp only [List.all_cons, Bool.and_eq_true] at hall
      exact ⟨c, cs, rfl, hall.1, hall.2⟩
  | bool b => intro t ht; simp only [printE, List.mem_singleton] at ht; subst ht; cases b <;> trivial
  | bin l op r hop _ _ ihl ihr =>
    intro t ht
    simp only [WFIdents] at hi
    simp only [printE, List.mem_append, List.mem_singleton] at ht
    have hparen : ∀ (ts : List Token), (∀ x ∈ ts, LR.WFTok cc x) → ∀ x ∈ paren ts, LR.WFTok cc x := by
      intro ts hts x hx
      simp only [paren, List.mem_cons, List.mem_append, List.not_mem_nil, or_false] at hx
      rcases hx with (rfl | hx) | rfl
      · trivial
      · exact hts x hx
      · trivial
    rcases ht with (ht | ht) | ht
    · split at ht
      · exact hparen _ (ihl hi.1) t ht
      · exact ihl hi.1 t ht
    · subst ht
      rcases hop with rfl | rfl | rfl | rfl | rfl | rfl | rfl | rfl | rfl | rfl | rfl | rfl | rfl <;> trivial
    · split at ht
      · exact hparen _ (ihr hi.2) t ht
      · exact ihr hi.2 t ht

/-- ROUND TRIP AT THE LEVEL OF TEXT (C07 + C08): print a tree over the binary operators with minimal
    parentheses, spell the tokens with ANY layout (no blanks where allowed, any whitespace, comments),
    tokenize and parse: the same tree comes back -/
theorem C07_text_round_trip (cc : CharClass) (hcc : LR.CCWF cc) (e : Expr) (h : RT.BinE e) (hi : WFIdents cc e) (ks : List Nat) :
    parse cc (render (printProgram (.cons (.expr e) .nil)) ks) = .ok (.cons (.expr e) .nil) := by
  unfold parse
  have hw : ∀ t ∈ printProgram (.cons (.expr e) .nil), LR.WFTok cc t := by
    intro t ht
    simp only [printProgram, printStmts, printS, List.append_nil, List.mem_append, List.mem_singleton] at ht
    rcases ht with ht | rfl
    · exact printE_wf cc e h hi t ht
    · trivial
  rw [C08.C08_lex_render cc hcc _ ks hw]
  exact C07_print_parse_program e h

/-! ### the whole grammar -/

/-- ROUND TRIP FOR THE WHOLE GRAMMAR (`RTF.gE`/`gS`/`gB`: mutual induction over expressions, argument
    lists, statements and blocks): for EVERY program tree the parser can produce (`RTF.WB`: integer
    literals in range, prefix operators `!`/`-`, the 13 binary operators with a non-function left
    operand, assignment to a name or an indexed name, calls of a name or a function literal,
    indexing of a name / list literal / string literal, `als` with and without `anders`, `zolang`,
    named and anonymous `functie` with any parameters, list literals, blocks, `stel`, `antwoord`,
    `stop`, `volgende`; float literals whose shortest spelling reads back, `RTF.FloatRT`), of any
    size and nesting depth, printing it with minimal parentheses according to the DOCUMENTED
    precedence table and parsing the tokens gives back exactly that tree — with the fuel `parse`
    supplies (`PF.all` + `PSt.stable`: the fuel is sufficient and more fuel never changes an answer). -/
theorem C07_print_parse_whole_grammar (b : Block) (hb : RTF.WB b) : parseTokens (printProgram b) = .ok b :=
  RTF.print_parse_program b hb

/-- ... and at the level of TEXT, under any layout (blanks, tabs, newlines, Unicode whitespace, line
    comments incl. multi-byte text, nothing at all where maximal munch allows), provided the tokens
    are spellable (identifiers are not keywords and consist of identifier characters) -/
theorem C07_text_round_trip_whole_grammar (cc : CharClass) (hcc : LR.CCWF cc) (b : Block) (hb : RTF.WB b)
    (hw : ∀ t ∈ printProgram b, LR.WFTok cc t) (ks : List Nat) :
    parse cc (render (printProgram b) ks) = .ok b := by
  unfold parse
  rw [C08.C08_lex_render cc hcc _ ks hw]
  exact RTF.print_parse_program b hb

/-- non-vacuity: `functie f(a, b) { als a < b { antwoord [a, f(b, a)][0] } anders { x = -a; }; zolang !ja { stop; }; };` is well-formed -/
example : RTF.WB (.cons (.expr (.func ['f'] [['a'], ['b']]
    (.cons (.expr (.ifE (.infix (.ident ['a']) .lt (.ident ['b']))
        (.cons (.ret (.index (.arr (.cons (.ident ['a']) (.cons (.call (.ident ['f']) (.cons (.ident ['b']) (.cons (.ident ['a']) .nil))) .nil))) (.int 0))) .nil)
        (.some (.cons (.expr (.assign (.ident ['x']) (.pre .sub (.ident ['a'])))) .nil))))
    (.cons (.expr (.whileE (.pre .not (.bool true)) (.cons .brk .nil))) .nil)))) .nil) :=
  .cons _ _ (.expr _ (.func _ _ _
    (.cons _ _ (.expr _ (.ifE _ _ _ (.bin _ _ _ (by simp [RT.isBin]) rfl (.ident _) (.ident _))
      (.cons _ _ (.ret _ (.index _ _ rfl (.arr _ (.cons _ _ (.ident _) (.cons _ _ (.call _ _ rfl (.ident _) (.cons _ _ (.ident _) (.cons _ _ (.ident _) .nil))) .nil))) (.int 0 (by decide) (by decide)))) .nil)
      (.some _ (.cons _ _ (.expr _ (.assign _ _ rfl (.ident _) (.pre _ _ (.inr rfl) (.ident _)))) .nil))))
    (.cons _ _ (.expr _ (.whileE _ _ (.pre _ _ (.inl rfl) (.bool _)) (.cons _ _ .brk .nil))) .nil)))) .nil

/-- THE FLOAT-LITERAL HYPOTHESIS OF THE ROUND TRIP IS A THEOREM: every finite, non-negative float that is not NaN — what a
    number token can denote, `C01_parsed_float_literals_are_plain` — is printed as a literal that reads back as the same
    float (`RTF.FloatRT`, the side condition of `C07_print_parse_whole_grammar` on `.float` nodes).  (`+∞` can be written as
    a literal of 309 digits; it prints as `inf.0`, which is not a number token: `F64T.not_floatRT_inf`.) -/
theorem C07_float_literals_read_back (x : UInt64) (h : SimH.LitF x) (hfin : F64.isInf x = false) : RTF.FloatRT x :=
  F64T.floatRT_of_litF x h hfin

/-! ### the round trip for every program anybody can write (`Lemmas/ParseRange.lean`) -/

/-- THE PARSER'S RANGE: every tree the parser produces from any text — integer literals in range, prefix operators, what it
    accepts as call target / index base / assignment target, the `+=` desugaring, `anders als` nesting, function literals —
    is a tree of the round-trip theorem (`RTF.WB`), provided its float literals are finite (the ONE gap: a 309-digit literal
    denotes `+inf`, whose printed form `inf.0` is not a number — `PR.range_gap_source`).  By induction over all seven parser
    functions. -/
theorem C07_parser_range (cc : CharClass) (src : Text) (ast : Block) (h : parse cc src = .ok ast) (hfin : ast.AllFinF) :
    RTF.WB ast :=
  PR.parse_range cc src ast h hfin

/-- PARSING IS A RETRACTION OF PRINTING ON ALL PARSED PROGRAMS: every program that parses, printed with minimal parentheses
    and spelled as text under ANY layout (blanks, tabs, newlines, Unicode whitespace, comments, nothing where maximal munch
    allows), parses to the same tree again — the spellability side condition of the text round trip is discharged for parsed
    trees (`PR.print_wf`: identifiers came out of the tokenizer, float literals have the form digits `.` digits) -/
theorem C07_parse_print_parse (cc : CharClass) (hcc : LR.CCWF cc) (src : Text) (ast : Block) (h : parse cc src = .ok ast)
    (hfin : ast.AllFinF) (ks : List Nat) :
    parseTokens (printProgram ast) = .ok ast ∧ parse cc (render (printProgram ast) ks) = .ok ast :=
  ⟨PR.parse_print_parse cc src ast h hfin, PR.parse_render_print cc hcc src ast h hfin ks⟩

/-- ONE TREE PER MEANING OF THE TEXT: two texts have the same tree if and only if their canonical prints are the same token
    list — layout, comments, redundant parentheses, optional `;` and `,` never matter, and nothing else is identified -/
theorem C07_same_tree_iff_same_print (cc : CharClass) (src1 src2 : Text) (a1 a2 : Block)
    (h1 : parse cc src1 = .ok a1) (h2 : parse cc src2 = .ok a2) (f1 : a1.AllFinF) (f2 : a2.AllFinF) :
    a1 = a2 ↔ printProgram a1 = printProgram a2 :=
  PR.same_tree_iff_same_print cc src1 src2 a1 a2 h1 h2 f1 f2

/-! ### the remaining clauses of the property as explicit theorems (session 7, `Lemmas/C07Extra*.lean`)

The round-trip theorems above are about the CANONICAL print (always `;` after a statement, `,` after an element, no redundant
parenthesis, `a = a + (e)` and nested `anders { als .. }` spelled out).  The property also names the other spellings. -/

open C07X in
/-- `a OP= e` MEANS `a = a OP (e)`: between any two printed blocks, the statement spelled `a OP = e;` (the lexer has no `+=` token:
    the parser takes an operator directly followed by `=`, for all 13 binary operators) parses to `assign a (infix a OP e)`, and the
    whole program parses exactly as with the explicit spelling `a = a OP (e);` -/
theorem C07_compound_assignment_desugars (b1 b2 : Block) (h1 : RTF.WB b1) (h2 : RTF.WB b2) (a : Text) (op : Op) (hop : RT.isBin op) (e : Expr) (he : RTF.WE e) :
    parseTokens (printStmts b1 ++ ((compoundToks a op e ++ [.semi]) ++ printStmts b2))
      = .ok (b1.append (.cons (.expr (compoundTree a op e)) b2)) ∧
    parseTokens (printStmts b1 ++ ((compoundToks a op e ++ [.semi]) ++ printStmts b2))
      = parseTokens (printStmts b1 ++ ((explicitToks a op e ++ [.semi]) ++ printStmts b2)) :=
  X1_program b1 b2 h1 h2 a op hop e he

open C07X in
/-- `anders als` chains NEST TO THE RIGHT, for chains of any length: `als c {t} anders als c1 {t1} ... anders {o}` as the last
    statement of a program parses to `ifE c t (some [expr (ifE c1 t1 (some ...))])` (`chainTree`) -/
theorem C07_else_if_chain_nests_right (b0 : Block) (h0 : RTF.WB b0) (o : OptBlock) (ho : RTF.WO o) (m : List (Expr × Block)) (c : Expr) (t : Block)
    (hc : RTF.WE c) (ht : RTF.WB t) (hm : ∀ x ∈ m, RTF.WE x.1 ∧ RTF.WB x.2) :
    parseTokens (printStmts b0 ++ chainToks c t m o) = .ok (b0.append (.cons (.expr (chainTree c t m o)) .nil)) :=
  X2_program b0 h0 o ho m c t hc ht hm

open C07X in
/-- REDUNDANT PARENTHESES never create nodes: an expression statement wrapped in ANY number of parentheses, between any two printed
    blocks, parses to the same program -/
theorem C07_redundant_parentheses_statement (b1 b2 : Block) (h1 : RTF.WB b1) (h2 : RTF.WB b2) (e : Expr) (he : RTF.WE e) (n : Nat) :
    parseTokens (printStmts b1 ++ ((parens n (printE e) ++ [.semi]) ++ printStmts b2)) = .ok (b1.append (.cons (.expr e) b2)) :=
  X3_program b1 b2 h1 h2 e he n

open C07X in
/-- ... and around the OPERANDS of a binary operator: any number of parentheses around either operand (at least the ones the
    canonical print needs) gives what the canonical print gives, in every context -/
theorem C07_redundant_parentheses_operands (l : Expr) (op : Op) (r : Expr) (hop : RT.isBin op) (hfl : isFunc l = false) (hl : RTF.WE l) (hr : RTF.WE r)
    (nl nr : Nat) (hnl : nl = 0 → ¬ level l < docLevel op) (hnr : nr = 0 → ¬ level r ≤ docLevel op)
    (p : Nat) (rest : List Token) (R : Expr × List Token) (hctx : RTF.Ctx (.infix l op r) p rest)
    (hR : ∃ f, parseLoop f p (.infix l op r) rest = .ok R) :
    ∃ f, parseExpr f p (parens nl (printE l) ++ opToken op :: (parens nr (printE r) ++ rest)) = .ok R ∧
         parseExpr f p (printE (.infix l op r) ++ rest) = .ok R :=
  X3_infix_operands_same l op r hop hfl hl hr nl nr hnl hnr p rest R hctx hR

open C07X in
/-- OPTIONAL SEMICOLONS: a program printed with any subset of its `;` left out — provided every omitted `;` stands before a token
    that cannot continue an expression (`sepFree`: not `(`, `[`, `-`, an operator, `anders`) — parses to the same tree as the
    canonical print; the `;` after the last statement is always optional -/
theorem C07_optional_semicolons (b : Block) (hb : RTF.WB b) (ks : List Bool) (hok : SeqOK b ks []) :
    parseTokens (printSeq b ks []) = .ok b ∧ parseTokens (printSeq b ks []) = parseTokens (printProgram b) :=
  X4_program b hb ks hok

/-- the condition is needed: `a; (b);` is two statements while `a (b);` is a call (likewise `[0]`: index, `-b`: subtraction) -/
theorem C07_semicolon_condition_needed :
    parseTokens [.ident ['a'], .semi, .lparen, .ident ['b'], .rparen, .semi]
      = .ok (.cons (.expr (.ident ['a'])) (.cons (.expr (.ident ['b'])) .nil)) ∧
    parseTokens [.ident ['a'], .lparen, .ident ['b'], .rparen, .semi]
      = .ok (.cons (.expr (.call (.ident ['a']) (.cons (.ident ['b']) .nil))) .nil) :=
  ⟨C07X.X4_condition_needed.1, C07X.X4_condition_needed.2.1⟩

/-- every statement above is about TOKENS; rendered with any layout (blanks, newlines, comments between the tokens) the text parses
    to what the tokens parse to -/
theorem C07_layout_of_any_token_list (cc : CharClass) (hcc : LR.CCWF cc) (ts : List Token) (hw : ∀ t ∈ ts, LR.WFTok cc t) (ks : List Nat) :
    parse cc (render ts ks) = parseTokens ts :=
  C07X.parse_render cc hcc ts hw ks

end C07
end Nl
