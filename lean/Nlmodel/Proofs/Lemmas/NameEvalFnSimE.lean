import Nlmodel.Proofs.Lemmas.NameEvalFnSimDefs
namespace Nl
namespace NameEvalFn
open Spec SimF Sim
open NameEval (All2 findBid bids postS)

theorem binOf_eq (op : Op) : binOf op = opToBin op := by cases op <;> rfl

theorem qe_succ (f : Nat) (q : QAll f) (hcall : QCall (f + 1)) : QE (f + 1) := by
  intro e fn ab scs gscs Tb F N st e' st' ρ σ hs hinv h hrel
  cases hs with
  | int _ v =>
    simp only [resolveE] at h; injection h with h; injection h with h1 h2; subst h1
    simp only [NameEvalFn.evalE, Spec.evalE]; exact .val _ _ _ _ (.int v) hrel
  | bool _ b =>
    simp only [resolveE] at h; injection h with h; injection h with h1 h2; subst h1
    simp only [NameEvalFn.evalE, Spec.evalE]; exact .val _ _ _ _ (.bool b) hrel
  | ident _ n =>
    simp only [resolveE] at h
    cases hres : st.resolve n with
    | none => simp [hres] at h
    | some r =>
      simp only [hres] at h
      injection h with h; injection h with h1 h2; subst h1
      obtain ⟨ov, h1, h2⟩ := R.lookup hinv hrel n r hres
      simp only [NameEvalFn.evalE, Spec.evalE, h1]
      cases hl : σ.lookup r with
      | none =>
        cases ov with
        | none => exact .unspec _ _
        | some v => simp only [hl, ORel] at h2
      | some w =>
        cases ov with
        | none => simp only [hl, ORel] at h2
        | some v =>
          simp only [hl, ORel] at h2
          exact .val _ _ _ _ h2 hrel
  | not _ r hsr =>
    simp only [resolveE] at h
    cases hr : resolveE r st with
    | error er => simp [hr] at h
    | ok p =>
      obtain ⟨r1, st1⟩ := p
      simp only [hr] at h
      injection h with h; injection h with h1 h2; subst h1
      have ih := q.e r fn ab scs gscs Tb F N st r1 st1 ρ σ hsr hinv hr hrel
      simp only [NameEvalFn.evalE, Spec.evalE]
      rcases ih.inv with ⟨a, b, ρ1, σ1, hn, hs, hv, hr1⟩ | ⟨ρ1, σ1, hn, hs, hr1⟩ | ⟨ρ1, σ1, hn, hs, hr1⟩ | ⟨v, w, ρ1, σ1, hn, hs, hv, hr1⟩ |
        ⟨er, ρ1, σ1, hn, hs, hr1⟩ | ⟨ρ1, σ1, hn, hs⟩ | ⟨hn, hs⟩
      · simp only [hn, hs]
        cases hv <;> first | exact .val _ _ _ _ (.bool _) hr1 | exact .err _ _ _ hr1.g.out
      · pass_on hn hs hr1
      · pass_on hn hs hr1
      · pass_ret hn hs hv hr1
      · pass_on hn hs hr1
      · pass_on hn hs hn
      · pass_on hn hs hn
  | neg _ r hsr =>
    simp only [resolveE] at h
    cases hr : resolveE r st with
    | error er => simp [hr] at h
    | ok p =>
      obtain ⟨r1, st1⟩ := p
      simp only [hr] at h
      injection h with h; injection h with h1 h2; subst h1
      have ih := q.e r fn ab scs gscs Tb F N st r1 st1 ρ σ hsr hinv hr hrel
      simp only [NameEvalFn.evalE, Spec.evalE]
      rcases ih.inv with ⟨a, b, ρ1, σ1, hn, hs, hv, hr1⟩ | ⟨ρ1, σ1, hn, hs, hr1⟩ | ⟨ρ1, σ1, hn, hs, hr1⟩ | ⟨v, w, ρ1, σ1, hn, hs, hv, hr1⟩ |
        ⟨er, ρ1, σ1, hn, hs, hr1⟩ | ⟨ρ1, σ1, hn, hs⟩ | ⟨hn, hs⟩
      · simp only [hn, hs]
        cases hv with
        | int i =>
          simp only
          split
          · exact .val _ _ _ _ (.int _) hr1
          · exact .err _ _ _ hr1.g.out
        | float x => exact .val _ _ _ _ (.float _) hr1
        | _ => exact .err _ _ _ hr1.g.out
      · pass_on hn hs hr1
      · pass_on hn hs hr1
      · pass_ret hn hs hv hr1
      · pass_on hn hs hr1
      · pass_on hn hs hn
      · pass_on hn hs hn
  | negate _ r hsr =>
    simp only [resolveE] at h
    cases hr : resolveE r st with
    | error er => simp [hr] at h
    | ok p =>
      obtain ⟨r1, st1⟩ := p
      simp only [hr] at h
      injection h with h; injection h with h1 h2; subst h1
      have ih := q.e r fn ab scs gscs Tb F N st r1 st1 ρ σ hsr hinv hr hrel
      simp only [NameEvalFn.evalE, Spec.evalE]
      rcases ih.inv with ⟨a, b, ρ1, σ1, hn, hs, hv, hr1⟩ | ⟨ρ1, σ1, hn, hs, hr1⟩ | ⟨ρ1, σ1, hn, hs, hr1⟩ | ⟨v, w, ρ1, σ1, hn, hs, hv, hr1⟩ |
        ⟨er, ρ1, σ1, hn, hs, hr1⟩ | ⟨ρ1, σ1, hn, hs⟩ | ⟨hn, hs⟩
      · simp only [hn, hs]
        cases hv with
        | int i =>
          simp only
          split
          · exact .val _ _ _ _ (.int _) hr1
          · exact .err _ _ _ hr1.g.out
        | float x => exact .val _ _ _ _ (.float _) hr1
        | _ => exact .err _ _ _ hr1.g.out
      · pass_on hn hs hr1
      · pass_on hn hs hr1
      · pass_ret hn hs hv hr1
      · pass_on hn hs hr1
      · pass_on hn hs hn
      · pass_on hn hs hn
  | bin _ l op r bop hop hsl hsr =>
    simp only [resolveE] at h
    cases hl : resolveE l st with
    | error er => simp [hl] at h
    | ok p =>
      obtain ⟨l1, st1⟩ := p
      simp only [hl] at h
      obtain ⟨hi1, _⟩ := rE fn l ab scs gscs F st l1 st1 hsl hinv hl
      cases hr : resolveE r st1 with
      | error er => simp [hr] at h
      | ok p2 =>
        obtain ⟨r1, st2⟩ := p2
        simp only [hr, hop] at h
        injection h with h; injection h with h1 h2; subst h1
        have ih1 := q.e l fn ab scs gscs Tb F N st l1 st1 ρ σ hsl hinv hl hrel
        simp only [NameEvalFn.evalE, Spec.evalE, binOf_eq, hop]
        rcases ih1.inv with ⟨a, a', ρ1, σ1, hn, hs, hva, hr1⟩ | ⟨ρ1, σ1, hn, hs, hr1⟩ | ⟨ρ1, σ1, hn, hs, hr1⟩ | ⟨v, w, ρ1, σ1, hn, hs, hv, hr1⟩ |
          ⟨er, ρ1, σ1, hn, hs, hr1⟩ | ⟨ρ1, σ1, hn, hs⟩ | ⟨hn, hs⟩
        · simp only [hn, hs]
          have ih2 := q.e r fn false scs gscs Tb F N st1 r1 st2 ρ1 σ1 hsr hi1 hr hr1
          rcases ih2.inv with ⟨b, b', ρ2, σ2, hn2, hs2, hvb, hr2⟩ | ⟨ρ2, σ2, hn2, hs2, hr2⟩ | ⟨ρ2, σ2, hn2, hs2, hr2⟩ | ⟨v, w, ρ2, σ2, hn2, hs2, hv2, hr2⟩ |
            ⟨er, ρ2, σ2, hn2, hs2, hr2⟩ | ⟨ρ2, σ2, hn2, hs2⟩ | ⟨hn2, hs2⟩
          · simp only [hn2, hs2, view_rel hva σ2, view_rel hvb σ2]
            cases hc : binopCore bop (σ2.view a') (σ2.view b') with
            | error er => exact .err _ _ _ hr2.g.out
            | ok p =>
              rcases boxN_of_binop _ _ _ p hc with ⟨x, hp, hb⟩ | ⟨x, hp, hb⟩ | ⟨x, hp, hb⟩
              · subst hp; simp only [hb, SState.box]; exact .val _ _ _ _ (.bool _) hr2
              · subst hp; simp only [hb, SState.box]; exact .val _ _ _ _ (.int _) hr2
              · subst hp; simp only [hb, SState.box]; exact .val _ _ _ _ (.float _) hr2
          · pass_on hn2 hs2 hr2
          · pass_on hn2 hs2 hr2
          · pass_ret hn2 hs2 hv2 hr2
          · pass_on hn2 hs2 hr2
          · pass_on hn2 hs2 hn2
          · pass_on hn2 hs2 hn2
        · pass_on hn hs hr1
        · pass_on hn hs hr1
        · pass_ret hn hs hv hr1
        · pass_on hn hs hr1
        · pass_on hn hs hn
        · pass_on hn hs hn
  | assign _ n r hsr =>
    simp only [resolveE] at h
    cases hres : st.resolve n with
    | none => simp [hres] at h
    | some ref =>
      simp only [hres] at h
      cases hr : resolveE r st with
      | error er => simp [hr] at h
      | ok p =>
        obtain ⟨r1, st1⟩ := p
        simp only [hr] at h
        injection h with h; injection h with h1 h2; subst h1
        have ih := q.e r fn ab scs gscs Tb F N st r1 st1 ρ σ hsr hinv hr hrel
        simp only [NameEvalFn.evalE, Spec.evalE]
        rcases ih.inv with ⟨a, b, ρ1, σ1, hn, hs, hv, hr1⟩ | ⟨ρ1, σ1, hn, hs, hr1⟩ | ⟨ρ1, σ1, hn, hs, hr1⟩ | ⟨v, w, ρ1, σ1, hn, hs, hv, hr1⟩ |
          ⟨er, ρ1, σ1, hn, hs, hr1⟩ | ⟨ρ1, σ1, hn, hs⟩ | ⟨hn, hs⟩
        · obtain ⟨ρ2, ha, hr2⟩ := R.assign hinv hr1 n ref hres a b hv
          simp only [hn, hs, ha]
          exact .val _ _ _ _ hv hr2
        · pass_on hn hs hr1
        · pass_on hn hs hr1
        · pass_ret hn hs hv hr1
        · pass_on hn hs hr1
        · pass_on hn hs hn
        · pass_on hn hs hn
  | ifE _ c t e hsc hst hse =>
    simp only [resolveE] at h
    cases hc : resolveE c st with
    | error er => simp [hc] at h
    | ok p =>
      obtain ⟨c1, st1⟩ := p
      simp only [hc] at h
      obtain ⟨hi1, _⟩ := rE fn c ab scs gscs F st c1 st1 hsc hinv hc
      cases ht : resolveB t st1 with
      | error er => simp [ht] at h
      | ok p2 =>
        obtain ⟨t1, st2⟩ := p2
        simp only [ht] at h
        obtain ⟨hi2, _⟩ := rB fn t ab scs gscs F st1 t1 st2 hst hi1 ht
        cases he : resolveO e st2 with
        | error er => simp [he] at h
        | ok p3 =>
          obtain ⟨e1, st3⟩ := p3
          simp only [he] at h
          injection h with h; injection h with h1 h2; subst h1
          have ih := q.e c fn ab scs gscs Tb F N st c1 st1 ρ σ hsc hinv hc hrel
          simp only [NameEvalFn.evalE, Spec.evalE]
          rcases ih.inv with ⟨a, b, ρ1, σ1, hn, hs, hv, hr1⟩ | ⟨ρ1, σ1, hn, hs, hr1⟩ | ⟨ρ1, σ1, hn, hs, hr1⟩ | ⟨v, w, ρ1, σ1, hn, hs, hv, hr1⟩ |
            ⟨er, ρ1, σ1, hn, hs, hr1⟩ | ⟨ρ1, σ1, hn, hs⟩ | ⟨hn, hs⟩
          · simp only [hn, hs]
            cases hv with
            | bool bb =>
              cases bb with
              | true => exact q.bv t fn ab scs gscs Tb F N st1 t1 st2 ρ1 σ1 hst hi1 ht hr1
              | false =>
                cases hse with
                | none =>
                  simp only [resolveO] at he; injection he with he; injection he with he1 he2; subst he1
                  exact .val _ _ _ _ .null hr1
                | some _ b hsb =>
                  simp only [resolveO] at he
                  cases hb : resolveB b st2 with
                  | error er => simp [hb] at he
                  | ok p4 =>
                    obtain ⟨b1, st4⟩ := p4
                    simp only [hb] at he
                    injection he with he; injection he with he1 he2; subst he1
                    exact q.bv b fn ab scs gscs Tb F N st2 b1 st4 ρ1 σ1 hsb hi2 hb hr1
            | _ => exact .err _ _ _ hr1.g.out
          · pass_on hn hs hr1
          · pass_on hn hs hr1
          · pass_ret hn hs hv hr1
          · pass_on hn hs hr1
          · pass_on hn hs hn
          · pass_on hn hs hn
  | whileE _ c b hsc hsb =>
    simp only [resolveE] at h
    cases hc : resolveE c { st with loopDepth := st.loopDepth + 1 } with
    | error er => simp [hc] at h
    | ok p =>
      obtain ⟨c1, st1⟩ := p
      simp only [hc] at h
      cases hb : resolveB b st1 with
      | error er => simp [hb] at h
      | ok p2 =>
        obtain ⟨b1, st2⟩ := p2
        simp only [hb] at h
        injection h with h; injection h with h1 h2; subst h1
        simp only [NameEvalFn.evalE, Spec.evalE]
        exact q.l c b fn scs gscs Tb F N _ c1 st1 b1 st2 .null .null ρ σ hsc hsb (rinv_loop fn st scs gscs F _ hinv) hc hb .null hrel
  | call _ fe as hnb hsas hsf =>
    exact hcall fe as fn ab scs gscs Tb F N st e' st' ρ σ (.call _ _ _ hnb hsas hsf) hinv h hrel

theorem qes_succ (f : Nat) (q : QAll f) : QEs (f + 1) := by
  intro es fn scs gscs Tb F N st es' st' ρ σ hs hinv h hrel
  cases hs with
  | nil =>
    simp only [resolveEs] at h; injection h with h; injection h with h1 h2; subst h1
    simp only [NameEvalFn.evalEs, Spec.evalEs]; exact .val _ _ _ _ .nil hrel
  | cons e rest hse hsr =>
    simp only [resolveEs] at h
    cases hr : resolveE e st with
    | error er => simp [hr] at h
    | ok p =>
      obtain ⟨e1, st1⟩ := p
      simp only [hr] at h
      obtain ⟨hi1, _⟩ := rE fn e false scs gscs F st e1 st1 hse hinv hr
      cases hr2 : resolveEs rest st1 with
      | error er => simp [hr2] at h
      | ok p2 =>
        obtain ⟨rs1, st2⟩ := p2
        simp only [hr2] at h
        injection h with h; injection h with h1 h2; subst h1
        have ih := q.e e fn false scs gscs Tb F N st e1 st1 ρ σ hse hinv hr hrel
        simp only [NameEvalFn.evalEs, Spec.evalEs]
        rcases ih.inv with ⟨a, b, ρ1, σ1, hn, hs, hv, hr1⟩ | ⟨ρ1, σ1, hn, hs, hr1⟩ | ⟨ρ1, σ1, hn, hs, hr1⟩ | ⟨v, w, ρ1, σ1, hn, hs, hv, hr1⟩ |
          ⟨er, ρ1, σ1, hn, hs, hr1⟩ | ⟨ρ1, σ1, hn, hs⟩ | ⟨hn, hs⟩
        · simp only [hn, hs]
          have ih2 := q.es rest fn scs gscs Tb F N st1 rs1 st2 ρ1 σ1 hsr hi1 hr2 hr1
          rcases ih2.inv with ⟨as, bs, ρ2, σ2, hn2, hs2, hv2, hr2'⟩ | ⟨ρ2, σ2, hn2, hs2, hr2'⟩ | ⟨ρ2, σ2, hn2, hs2, hr2'⟩ | ⟨v, w, ρ2, σ2, hn2, hs2, hv2, hr2'⟩ |
            ⟨er, ρ2, σ2, hn2, hs2, hr2'⟩ | ⟨ρ2, σ2, hn2, hs2⟩ | ⟨hn2, hs2⟩
          · simp only [hn2, hs2]; exact .val _ _ _ _ (.cons hv hv2) hr2'
          · pass_on hn2 hs2 hr2'
          · pass_on hn2 hs2 hr2'
          · pass_ret hn2 hs2 hv2 hr2'
          · pass_on hn2 hs2 hr2'
          · pass_on hn2 hs2 hn2
          · pass_on hn2 hs2 hn2
        · pass_on hn hs hr1
        · pass_on hn hs hr1
        · pass_ret hn hs hv hr1
        · pass_on hn hs hr1
        · pass_on hn hs hn
        · pass_on hn hs hn

theorem ql_succ (f : Nat) (q : QAll f) : QL (f + 1) := by
  intro c b fn scs gscs Tb F N st c1 st1 b1 st2 acc acc' ρ σ hsc hsb hinv hc hb hacc hrel
  obtain ⟨hi1, _⟩ := rE fn c false scs gscs F st c1 st1 hsc hinv hc
  have ih := q.e c fn false scs gscs Tb F N st c1 st1 ρ σ hsc hinv hc hrel
  simp only [NameEvalFn.evalLoop, Spec.evalLoop]
  rcases ih.inv with ⟨a, a', ρ1, σ1, hn, hs, hv, hr1⟩ | ⟨ρ1, σ1, hn, hs, hr1⟩ | ⟨ρ1, σ1, hn, hs, hr1⟩ | ⟨v, w, ρ1, σ1, hn, hs, hv, hr1⟩ |
    ⟨er, ρ1, σ1, hn, hs, hr1⟩ | ⟨ρ1, σ1, hn, hs⟩ | ⟨hn, hs⟩
  · simp only [hn, hs]
    cases hv with
    | bool bb =>
      cases bb with
      | false => exact .val _ _ _ _ hacc hr1
      | true =>
        simp only
        have ihb := q.bv b fn true scs gscs Tb F N st1 b1 st2 _ _ hsb hi1 hb (hr1.setLast acc acc' hacc)
        rcases ihb.inv with ⟨v, v', ρ2, σ2, hn2, hs2, hv2, hr2⟩ | ⟨ρ2, σ2, hn2, hs2, hr2⟩ | ⟨ρ2, σ2, hn2, hs2, hr2⟩ | ⟨v, w, ρ2, σ2, hn2, hs2, hv2, hr2⟩ |
          ⟨er, ρ2, σ2, hn2, hs2, hr2⟩ | ⟨ρ2, σ2, hn2, hs2⟩ | ⟨hn2, hs2⟩
        · simp only [hn2, hs2]
          exact q.l c b fn scs gscs Tb F N st c1 st1 b1 st2 v v' ρ2 σ2 hsc hsb hinv hc hb hv2 hr2
        · simp only [hn2, hs2]; exact .val _ _ _ _ .null hr2
        · simp only [hn2, hs2]
          exact q.l c b fn scs gscs Tb F N st c1 st1 b1 st2 .null .null ρ2 σ2 hsc hsb hinv hc hb .null hr2
        · pass_ret hn2 hs2 hv2 hr2
        · pass_on hn2 hs2 hr2
        · pass_on hn2 hs2 hn2
        · pass_on hn2 hs2 hn2
    | _ => exact .err _ _ _ hr1.g.out
  · simp only [hn, hs]; exact .val _ _ _ _ .null hr1
  · simp only [hn, hs]
    exact q.l c b fn scs gscs Tb F N st c1 st1 b1 st2 .null .null ρ1 σ1 hsc hsb hinv hc hb .null hr1
  · pass_ret hn hs hv hr1
  · pass_on hn hs hr1
  · pass_on hn hs hn
  · pass_on hn hs hn

end NameEvalFn
end Nl
