/-
  Number → text → number (top file): corollaries of `F64T.parse_toDecimal`
  (`FloatTextParse`, `FloatTextRound`, `FloatTextMain`):

  * `floatRT_of_litF`  : `RTF.FloatRT x` (the hypothesis of the print/parse round trip of the whole
    grammar for float literals) for every finite, non-negative `x`;
  * `float_string_roundtrip` : `float(string(x)) = x` at the level of `builtinCore`;
  * sanity examples by kernel evaluation.
-/
import Nlmodel.Proofs.Lemmas.FloatTextMain
import Nlmodel.Proofs.Lemmas.FloatTextBuiltin
import Nlmodel.Proofs.Lemmas.RoundTrip
import Nlmodel.Proofs.Lemmas.SimHGoal

namespace Nl
namespace F64T
open Nl.F64 Nl.F64R

/-! ## 1. the literal printer `floatLit` -/

theorem contains_dot_iff (l : List Char) : l.contains '.' = true ↔ '.' ∈ l := by
  simp

/-- `d ++ ".0"` for a text `d = digits ++ zeros` -/
theorem parseDec_render_dot0 (q : Nat) (p : Int) (hq : 0 < q) (hp : p ≥ 0) :
    parseDec (natToDigits q ++ List.replicate p.toNat '0' ++ ".0".toList) = some (ofDecimal false q p) := by
  have e : natToDigits q ++ List.replicate p.toNat '0' ++ ".0".toList
      = signText false ++ (natToDigits q ++ List.replicate p.toNat '0') ++ '.' :: ['0'] := by
    have : ".0".toList = ['.', '0'] := rfl
    rw [this]; simp [signText]
  rw [e, parseDec_sign_frac false _ ['0'] (by simp [natToDigits_ne_nil])]
  · have hm : digitsToNat (natToDigits q ++ List.replicate p.toNat '0' ++ ['0'])
        = 10 ^ (p.toNat + 1) * q := by
      have : natToDigits q ++ List.replicate p.toNat '0' ++ ['0']
          = natToDigits q ++ List.replicate (p.toNat + 1) '0' := by
        rw [List.append_assoc, List.replicate_succ']
      rw [this, digitsToNat_eq, Nat.ofDigitChars_append, Nat.ofDigitChars_replicate_zero,
        ← digitsToNat_eq, digitsToNat_natToDigits]
    rw [hm]
    have hq0 : q ≠ 0 := by omega
    have h10 : 10 ^ (p.toNat + 1) * q ≠ 0 := Nat.mul_ne_zero (Nat.ne_of_gt (ten_pow_pos _)) hq0
    unfold ofDecimal
    rw [if_neg h10, if_neg hq0, if_pos hp]
    have hneg : ¬ (-(([('0' : Char)].length : Nat) : Int) ≥ 0) := by simp
    rw [if_neg hneg]
    unfold ofRat
    apply congrArg (fun b => some (mk false b))
    apply roundMag_congr (ten_pow_pos _) Nat.one_pos
    have : (-(-(([('0' : Char)].length : Nat) : Int))).toNat = 1 := by simp
    rw [this, Nat.pow_succ]
    generalize 10 ^ p.toNat = P
    simp only [Nat.pow_one, Nat.mul_one]
    ac_rfl
  · intro c hc
    rcases List.mem_append.1 hc with h | h
    · exact natToDigits_digit q c h
    · exact replicate_zero_digit _ c h
  · intro c hc; simp at hc; subst hc; exact zero_isDigit

theorem dot_mem_render_neg (q : Nat) (p : Int) (hp : ¬ p ≥ 0) : '.' ∈ render [] q p := by
  unfold render
  simp only [hp, if_false]
  have : "0.".toList = ['0', '.'] := rfl
  split
  · simp
  · rw [this]; simp

/-- a printed finite non-negative float without a decimal point reads back with `.0` appended -/
theorem parse_toDecimal_dot0 (x : Bits) (h1 : isNaN x = false) (h2 : isInf x = false)
    (hneg : isNeg x = false) (hc : ¬ '.' ∈ toDecimal x) :
    parseDec (toDecimal x ++ ".0".toList) = some x := by
  by_cases h3 : isZero x = true
  · rw [toDecimal_zero x h1 h2 h3, hneg]
    have ha : absBits x = 0 := by unfold isZero at h3; simpa using h3
    have hxx := mk_isNeg_absBits x
    rw [ha, hneg] at hxx
    rw [← hxx]
    decide
  · have h3' : isZero x = false := by simpa using h3
    have hs := shortest_ok x (finite_of_not x h1 h2) h3'
    have hpos := strip_pos _ (shortest x).2 20 (shortest_pos x h3' hs)
    have hval := ofDecimal_strip false (shortest x).1 (shortest x).2 20
    have hx := ofDecimal_of_searchOK x hs
    rw [hneg] at hx
    rw [hx] at hval
    rw [toDecimal_finite x h1 h2 h3', hneg] at hc ⊢
    generalize (stripTrailingZeros (shortest x).1 (shortest x).2 20).1 = q at hpos hval hc ⊢
    generalize (stripTrailingZeros (shortest x).1 (shortest x).2 20).2 = p at hval hc ⊢
    by_cases hp : p ≥ 0
    · have e : render (signText false) q p = natToDigits q ++ List.replicate p.toNat '0' := by
        unfold render signText; simp [hp]
      rw [e, parseDec_render_dot0 q p hpos hp, hval]
    · exact absurd (dot_mem_render_neg q p hp) hc

/-- **float literals survive print → parse**: `RTF.FloatRT x` for every finite `x` that satisfies
    `SimH.LitF x` (non-negative, not NaN).  (`floatLit` appends `.0` when the text has no point.) -/
theorem floatRT_of_litF (x : UInt64) (h : SimH.LitF x) (hfin : isInf x = false) : RTF.FloatRT x := by
  obtain ⟨hneg, hnan⟩ := h
  unfold RTF.FloatRT floatLit parseFloatLit
  simp only
  by_cases hc : (toDecimal x).contains '.' = true
  · rw [if_pos hc, parse_toDecimal x hnan]
  · rw [if_neg hc, parse_toDecimal_dot0 x hnan hfin hneg (fun hm => hc ((contains_dot_iff _).2 hm))]

/-- `LitF` also admits `+∞`, whose literal spelling `inf.0` is not a number: `FloatRT` fails there,
    so finiteness is a necessary hypothesis (the lexer never produces such a literal) -/
theorem not_floatRT_inf : ¬ RTF.FloatRT (inf false) := by
  unfold RTF.FloatRT parseFloatLit
  have h : parseDec (floatLit (inf false)) = none := by decide
  rw [h]
  intro hc
  injection hc with hc
  revert hc
  decide

/-! ## 3. sanity examples (kernel evaluation of the model) -/

section examples
set_option exponentiation.threshold 4096
set_option maxRecDepth 100000

/-- 0.1 -/
example : toDecimal 0x3FB999999999999A = "0.1".toList := by decide
example : shortest 0x3FB999999999999A = (1, -1) := by decide
example : parseDec "0.1".toList = some 0x3FB999999999999A := by decide
/-- 0.3, and 0.1 + 0.2 = 0.30000000000000004 (17 digits needed) -/
example : toDecimal 0x3FD3333333333333 = "0.3".toList := by decide
example : toDecimal 0x3FD3333333333334 = "0.30000000000000004".toList := by decide
example : parseDec "0.30000000000000004".toList = some 0x3FD3333333333334 := by decide
/-- 1e21 is printed without exponent notation -/
example : toDecimal 0x444B1AE4D6E2EF50 = "1000000000000000000000".toList := by decide
example : parseDec "1000000000000000000000".toList = some 0x444B1AE4D6E2EF50 := by decide
example : floatLit 0x444B1AE4D6E2EF50 = "1000000000000000000000.0".toList := by decide
/-- 5e-324, the smallest subnormal: `0.`, 323 zeros, `5` -/
example : toDecimal 1 = "0.".toList ++ List.replicate 323 '0' ++ ['5'] := by decide
example : parseDec (toDecimal 1) = some 1 := by decide
example : SearchOK 1 := by decide
/-- 1.7976931348623157e308, the largest finite number: 17 digits and 292 zeros -/
example : toDecimal 0x7FEFFFFFFFFFFFFF = "17976931348623157".toList ++ List.replicate 292 '0' := by
  decide
example : parseDec (toDecimal 0x7FEFFFFFFFFFFFFF) = some 0x7FEFFFFFFFFFFFFF := by decide
/-- the smallest normal number 2^-1022 = 2.2250738585072014e-308 -/
example : shortest 0x0010000000000000 = (22250738585072014, -324) := by decide
/-- -0 and the infinities -/
example : toDecimal (zero true) = "-0".toList := by decide
example : parseDec (toDecimal (zero true)) = some (zero true) := by decide
example : parseDec (toDecimal (inf true)) = some (inf true) := by decide
example : parseDec (toDecimal canonNaN) = some canonNaN := by decide
end examples

end F64T
end Nl
