/- No dangling references on a fresh machine: in every state a run reaches, every value the machine
   holds and every element of every live array points to a live cell, and every live cell is managed
   by the run's collector.  ("No program ever observes a freed object.")  Same skeleton as TypeInv. -/
import Nlmodel.Proofs.Lemmas.TypeInv
import Nlmodel.Proofs.Lemmas.ManagedInv
import Nlmodel.Proofs.Lemmas.GCPrecise
namespace Nl
namespace ND
open GC

def Live (h : Heap) (a : Nat) : Prop := h.get a ≠ .freed

/-- the value does not dangle -/
def LV (h : Heap) (v : Value) : Prop := ∀ a, v.addr? = some a → Live h a

structure HOK (m : Mem) : Prop where
  elems : ∀ a vs, m.heap.get a = .arr vs → ∀ v, v ∈ vs → LV m.heap v
  allm : ∀ a, Live m.heap a → a ∈ m.managed
  man : ManOK m

/-- liveness is kept (every operation but a collection) -/
def Ext (m m' : Mem) : Prop := ∀ a, Live m.heap a → Live m'.heap a

theorem LV.ext {m m' : Mem} {v : Value} (h : LV m.heap v) (e : Ext m m') : LV m'.heap v := fun a ha => e a (h a ha)

theorem live_lt {h : Heap} {a : Nat} (hl : Live h a) : a < h.cells.size := by
  by_cases hlt : a < h.cells.size
  · exact hlt
  · exfalso; apply hl
    simp only [Heap.get, Array.getD_eq_getD_getElem?]
    have : h.cells[a]? = none := by simp; omega
    simp [this]

theorem lv_scalar {h : Heap} {v : Value} (hv : v.addr? = none) : LV h v := fun a ha => by rw [hv] at ha; cases ha

structure Post (m m' : Mem) (v : Value) : Prop where
  ext : Ext m m'
  hok : HOK m'
  val : LV m'.heap v

theorem post_same {m : Mem} (h : HOK m) (v : Value) (hv : LV m.heap v) : Post m m v := ⟨fun _ x => x, h, hv⟩

/-- allocation of a live cell whose elements (if any) do not dangle -/
theorem post_alloc {m : Mem} (h : HOK m) (c : Cell) (hc : c ≠ .freed) (hel : ∀ vs, c = .arr vs → ∀ v, v ∈ vs → LV m.heap v)
    (v : Value) (hv : v.addr? = some m.heap.cells.size) :
    Post m { heap := (m.heap.alloc c).1, managed := m.heap.cells.size :: m.managed } v := by
  have hext : Ext m { heap := (m.heap.alloc c).1, managed := m.heap.cells.size :: m.managed } := by
    intro a ha
    show (m.heap.alloc c).1.get a ≠ .freed
    rw [TI.get_push_old m.heap c a (live_lt ha)]; exact ha
  refine ⟨hext, ⟨?_, ?_, manOK_alloc m c h.man⟩, ?_⟩
  · intro a vs hg w hw
    show LV (m.heap.alloc c).1 w
    by_cases hlt : a < m.heap.cells.size
    · have hg' : m.heap.get a = .arr vs := by rw [← TI.get_push_old m.heap c a hlt]; exact hg
      exact (h.elems a vs hg' w hw).ext hext
    · have hlt' : a < (m.heap.alloc c).1.cells.size := live_lt (h := (m.heap.alloc c).1) (by show (m.heap.alloc c).1.get a ≠ .freed; rw [show (m.heap.alloc c).1.get a = .arr vs from hg]; simp)
      rw [TI.size_alloc] at hlt'
      have e : a = m.heap.cells.size := by omega
      subst e
      have hg' : c = .arr vs := by rw [← TI.get_push_new m.heap c]; exact hg
      exact (hel vs hg' w hw).ext hext
  · intro a ha
    show a ∈ m.heap.cells.size :: m.managed
    by_cases hlt : a < m.heap.cells.size
    · have : Live m.heap a := by
        show m.heap.get a ≠ .freed
        rw [← TI.get_push_old m.heap c a hlt]; exact ha
      exact List.mem_cons_of_mem _ (h.allm a this)
    · have hlt' := live_lt ha
      have : (m.heap.alloc c).1.cells.size = m.heap.cells.size + 1 := TI.size_alloc _ _
      have e : a = m.heap.cells.size := by
        have h2 : a < (m.heap.alloc c).1.cells.size := hlt'
        omega
      rw [e]; exact List.mem_cons_self
  · intro a ha
    rw [hv] at ha; injection ha with ha; subst ha
    show (m.heap.alloc c).1.get m.heap.cells.size ≠ .freed
    rw [TI.get_push_new]; exact hc

theorem post_allocFloat {m : Mem} (h : HOK m) (x : UInt64) : Post m (m.allocFloat x).1 (m.allocFloat x).2 :=
  post_alloc h (.float x) (by simp) (fun vs e => by cases e) _ rfl

theorem post_allocStr {m : Mem} (h : HOK m) (t : Text) : Post m (m.allocStr t).1 (m.allocStr t).2 :=
  post_alloc h (.str t) (by simp) (fun vs e => by cases e) _ rfl

theorem post_allocArr {m : Mem} (h : HOK m) (vs : List Value) (hvs : ∀ v, v ∈ vs → LV m.heap v) : Post m (m.allocArr vs).1 (m.allocArr vs).2 :=
  post_alloc h (.arr vs) (by simp) (fun vs' e => by injection e with e; subst e; exact hvs) _ rfl

theorem post_box {m : Mem} (h : HOK m) (arg : Value) (harg : LV m.heap arg) (p : PRes) : Post m (m.box arg p).2 (m.box arg p).1 := by
  cases p with
  | null => exact post_same h _ (lv_scalar rfl)
  | bool b => exact post_same h _ (lv_scalar rfl)
  | int i => exact post_same h _ (lv_scalar rfl)
  | float x => exact post_allocFloat h x
  | str s => exact post_allocStr h s
  | same => exact post_same h _ harg

theorem post_binop {m : Mem} (h : HOK m) (op : BinOp) (l r : Value) (hl : LV m.heap l)
    (v : Value) (m' : Mem) (he : binop op l r m = .ok (v, m')) : Post m m' v := by
  unfold binop at he
  split at he
  · rename_i p _
    have hb := post_box h l hl p
    generalize m.box l p = bx at he hb
    obtain ⟨r, mm⟩ := bx
    simp only [Except.ok.injEq, Prod.mk.injEq] at he
    obtain ⟨rfl, rfl⟩ := he
    exact hb
  · cases he

theorem post_callBuiltin {m : Mem} (h : HOK m) (b : Builtin) (args : List Value) (hargs : ∀ v, v ∈ args → LV m.heap v) (out : List Text)
    (v : Value) (m' : Mem) (out' : List Text) (he : callBuiltin b args m out = .ok (v, m', out')) : Post m m' v := by
  unfold callBuiltin at he
  split at he
  · injection he with he
    rw [← (Prod.mk.inj he).1, ← (Prod.mk.inj (Prod.mk.inj he).2).1]; exact post_same h _ (lv_scalar rfl)
  · split at he
    · rename_i w
      split at he
      · rename_i p _
        have hb := post_box h w (hargs w (by simp)) p
        generalize m.box w p = bx at he hb
        obtain ⟨r, mm⟩ := bx
        simp only [Except.ok.injEq, Prod.mk.injEq] at he
        obtain ⟨rfl, rfl, _⟩ := he
        exact hb
      · cases he
    · cases he

theorem arrAt_lv {m : Mem} (h : HOK m) (a : Nat) : ∀ v, v ∈ m.heap.arrAt a → LV m.heap v := by
  intro v hv
  cases hg : m.heap.get a with
  | arr vs => simp only [Heap.arrAt, hg] at hv; exact h.elems a vs hg v hv
  | _ => simp [Heap.arrAt, hg] at hv

theorem getD_lv {h : Heap} (vs : List Value) (hvs : ∀ v, v ∈ vs → LV h v) (k : Nat) : LV h (vs.getD k .null) := by
  rw [List.getD_eq_getElem?_getD]
  cases hk : vs[k]? with
  | none => exact lv_scalar rfl
  | some w => exact hvs w (List.mem_of_getElem? hk)

theorem post_indexGet {m : Mem} (h : HOK m) (l i : Value) (v : Value) (m' : Mem) (he : indexGet l i m = .ok (v, m')) : Post m m' v := by
  unfold indexGet at he
  split at he
  · split at he
    · simp only at he
      split at he
      · injection he with he
        rw [← (Prod.mk.inj he).1, ← (Prod.mk.inj he).2]
        exact post_same h _ (getD_lv _ (arrAt_lv h _) _)
      · cases he
    · simp only at he
      split at he
      · injection he with he
        rw [← (Prod.mk.inj he).1, ← (Prod.mk.inj he).2]
        exact post_allocStr h _
      · cases he
    · cases he
  · cases he

/-- overwriting a live cell with a live cell whose elements do not dangle -/
theorem post_set {m : Mem} (h : HOK m) (a : Nat) (ha : Live m.heap a) (c : Cell) (hc : c ≠ .freed)
    (hel : ∀ vs, c = .arr vs → ∀ v, v ∈ vs → LV m.heap v) (x : Value) (hx : LV m.heap x) :
    Post m { m with heap := m.heap.set a c } x := by
  have hlt := live_lt ha
  have hext : Ext m { m with heap := m.heap.set a c } := by
    intro b hb
    show (m.heap.set a c).get b ≠ .freed
    by_cases e : b = a
    · subst e; rw [TI.get_set_self _ _ _ hlt]; exact hc
    · rw [TI.get_set_other _ _ _ _ e]; exact hb
  refine ⟨hext, ⟨?_, ?_, manOK_closed.set m a c h.man⟩, hx.ext hext⟩
  · intro b vs hg w hw
    show LV (m.heap.set a c) w
    by_cases e : b = a
    · subst e
      have : c = .arr vs := by rw [← TI.get_set_self m.heap b c hlt]; exact hg
      exact (hel vs this w hw).ext hext
    · have hg' : m.heap.get b = .arr vs := by rw [← TI.get_set_other m.heap a b c e]; exact hg
      exact (h.elems b vs hg' w hw).ext hext
  · intro b hb
    show b ∈ m.managed
    by_cases e : b = a
    · subst e; exact h.allm b ha
    · exact h.allm b (by show m.heap.get b ≠ .freed; rw [← TI.get_set_other m.heap a b c e]; exact hb)

theorem set_lv {h : Heap} (vs : List Value) (hvs : ∀ v, v ∈ vs → LV h v) (k : Nat) (x : Value) (hx : LV h x) :
    ∀ v, v ∈ vs.set k x → LV h v := by
  intro v hv
  rcases List.mem_or_eq_of_mem_set hv with e | e
  · exact hvs v e
  · rw [e]; exact hx

theorem post_indexSet {m : Mem} (h : HOK m) (l i x : Value) (hl : LV m.heap l) (hx : LV m.heap x)
    (v : Value) (m' : Mem) (he : indexSet l i x m = .ok (v, m')) : Post m m' v := by
  unfold indexSet at he
  split at he
  · split at he
    · rename_i a
      simp only at he
      split at he
      · injection he with he
        rw [← (Prod.mk.inj he).1, ← (Prod.mk.inj he).2]
        exact post_set h a (hl a rfl) _ (by simp) (fun vs e => by injection e with e; subst e; exact set_lv _ (arrAt_lv h a) _ _ hx) x hx
      · cases he
    · rename_i a
      simp only at he
      split at he
      · split at he
        · injection he with he
          rw [← (Prod.mk.inj he).1, ← (Prod.mk.inj he).2]
          exact post_set h a (hl a rfl) _ (by simp) (fun vs e => by cases e) _ hx
        · cases he
      · cases he
    · cases he
  · cases he

/-! ### a collection -/

theorem freeAll_get_mem (a : Nat) : ∀ (l : List Nat) (h : Heap), a ∈ l → a < h.cells.size → (freeAll h l).get a = .freed := by
  intro l
  induction l with
  | nil => intro h hmem; cases hmem
  | cons x l ih =>
    intro h hmem hsz
    simp only [freeAll, List.foldl_cons]
    by_cases hx : a ∈ l
    · have := ih (h.free x) hx (by simpa [Heap.free, Heap.set] using hsz)
      simpa [freeAll] using this
    · have hax : a = x := by cases List.mem_cons.1 hmem with | inl e => exact e | inr e => exact absurd e hx
      subst hax
      have := freeAll_get_other (h.free a) l a hx
      simp only [freeAll] at this
      rw [this]; exact free_get_self h a hsz

/-- a collection whose roots do not dangle: nothing the roots reach is released, no live array is
    left with a released element, and every cell still live is still managed -/
theorem post_gc {m : Mem} (h : HOK m) (roots : List Value) (hroots : ∀ v, v ∈ roots → LV m.heap v)
    (hk : HeapKindOK m.heap) (hkr : ∀ v ∈ roots, KindOK m.heap v) :
    HOK (GC.run m roots) ∧ ∀ v, v ∈ roots → LV (GC.run m roots).heap v := by
  by_cases hemp : m.managed.isEmpty = true
  · have : GC.run m roots = m := by unfold GC.run; simp [hemp]
    rw [this]; exact ⟨h, hroots⟩
  · have hne : m.managed.isEmpty = false := by simpa using hemp
    have hprec := fun a => collect_precise m roots hk hkr hne a
    have hmanok := manOK_closed.gc m roots h.man
    -- the shape of the result
    have hheap : (GC.run m roots).heap = freeAll m.heap (m.managed.filter (fun a => !(markAll m.heap m.managed roots).contains a)) := by
      unfold GC.run; simp [hne]
    have hman : (GC.run m roots).managed = m.managed.filter (markAll m.heap m.managed roots).contains := by
      unfold GC.run; simp [hne]
    -- released = managed and not reachable
    have inD : ∀ c, c ∈ m.managed.filter (fun a => !(markAll m.heap m.managed roots).contains a) ↔
        c ∈ m.managed ∧ ¬ Reach m.heap m.managed roots c := by
      intro c
      have := hprec c
      rw [hman] at this
      simp only [List.mem_filter, List.contains_eq_mem, decide_eq_true_eq] at this
      simp only [List.mem_filter, Bool.not_eq_true', List.contains_eq_mem, decide_eq_false_iff_not]
      constructor
      · intro ⟨h1, h2⟩; exact ⟨h1, fun hr => h2 (this.2 ⟨h1, hr⟩).2⟩
      · intro ⟨h1, h2⟩; exact ⟨h1, fun hmk => h2 (this.1 ⟨h1, hmk⟩).2⟩
    -- what is live afterwards was live and was not released, and is unchanged
    have live' : ∀ c, Live (GC.run m roots).heap c →
        Live m.heap c ∧ (GC.run m roots).heap.get c = m.heap.get c ∧ (c ∈ m.managed → Reach m.heap m.managed roots c) := by
      intro c hc
      by_cases hd : c ∈ m.managed.filter (fun a => !(markAll m.heap m.managed roots).contains a)
      · exfalso; apply hc
        rw [hheap]
        exact freeAll_get_mem c _ _ hd (h.man.2 c ((inD c).1 hd).1)
      · have e : (GC.run m roots).heap.get c = m.heap.get c := by rw [hheap]; exact freeAll_get_other _ _ _ hd
        refine ⟨by unfold Live at hc ⊢; rw [← e]; exact hc, e, fun hm => ?_⟩
        exact Classical.byContradiction fun hn => hd ((inD c).2 ⟨hm, hn⟩)
    -- conversely: reachable, or unmanaged, stays as it is
    have keep : ∀ c, Live m.heap c → (c ∈ m.managed → Reach m.heap m.managed roots c) → Live (GC.run m roots).heap c := by
      intro c hc hr
      have hd : c ∉ m.managed.filter (fun a => !(markAll m.heap m.managed roots).contains a) := fun hd => ((inD c).1 hd).2 (hr ((inD c).1 hd).1)
      unfold Live
      rw [hheap, freeAll_get_other _ _ _ hd]; exact hc
    refine ⟨⟨?_, ?_, hmanok⟩, ?_⟩
    · intro a vs hg w hw b hb
      have hla : Live (GC.run m roots).heap a := by unfold Live; rw [hg]; simp
      obtain ⟨hl, e, hra⟩ := live' a hla
      have hg' : m.heap.get a = .arr vs := by rw [← e]; exact hg
      have hlb : Live m.heap b := h.elems a vs hg' w hw b hb
      refine keep b hlb (fun hmb => ?_)
      exact Reach.step a w b (hra (h.allm a hl)) (by simp [Heap.arrAt, hg', hw]) hb hmb
    · intro a ha
      obtain ⟨hl, _, hra⟩ := live' a ha
      rw [hman]
      simp only [List.mem_filter, List.contains_eq_mem, decide_eq_true_eq]
      have hm := h.allm a hl
      exact ⟨hm, markAll_complete m.heap m.managed roots hk hkr a (hra hm)⟩
    · intro v hv b hb
      exact keep b (hroots v hv b hb) (fun hmb => Reach.root v b hv hb hmb)

/-! ### the machine state -/

def ArrP (P : Value → Prop) (xs : Array Value) : Prop := ∀ v, v ∈ xs.toList → P v

section arr
variable {P : Value → Prop}

theorem arr_push {xs : Array Value} (h : ArrP P xs) (v : Value) (hv : P v) : ArrP P (xs.push v) := by
  intro w hw
  simp only [Array.toList_push, List.mem_append, List.mem_singleton] at hw
  rcases hw with hw | hw
  · exact h w hw
  · rw [hw]; exact hv

theorem arr_pop1 {xs : Array Value} (h : ArrP P xs) (v : Value) (st : Array Value) (hp : pop1 xs = some (v, st)) : P v ∧ ArrP P st := by
  unfold pop1 at hp
  split at hp
  · rename_i w hb
    injection hp with hp
    rw [← (Prod.mk.inj hp).1, ← (Prod.mk.inj hp).2]
    refine ⟨h w (Array.mem_toList_iff.2 (Array.mem_of_back? hb)), fun u hu => ?_⟩
    rw [Array.toList_pop] at hu
    exact h u (List.dropLast_subset _ hu)
  · cases hp

theorem arr_extract {xs : Array Value} (h : ArrP P xs) (a b : Nat) : ArrP P (xs.extract a b) := by
  intro v hv
  rw [Array.toList_extract, List.extract_eq_take_drop] at hv
  exact h v (List.mem_of_mem_drop (List.mem_of_mem_take hv))

theorem arr_popN {xs : Array Value} (h : ArrP P xs) (k : Nat) (vs : List Value) (st : Array Value) (hp : popN xs k = some (vs, st)) :
    (∀ v, v ∈ vs → P v) ∧ ArrP P st := by
  unfold popN at hp
  split at hp
  · injection hp with hp
    rw [← (Prod.mk.inj hp).1, ← (Prod.mk.inj hp).2]
    exact ⟨arr_extract h _ _, arr_extract h _ _⟩
  · cases hp

theorem arr_set {xs : Array Value} (h : ArrP P xs) (k : Nat) (v : Value) (hv : P v) : ArrP P (xs.setIfInBounds k v) := by
  intro w hw
  rw [Array.toList_setIfInBounds] at hw
  rcases List.mem_or_eq_of_mem_set hw with e | e
  · exact h w e
  · rw [e]; exact hv

theorem arr_pad {xs : Array Value} (h : ArrP P xs) (hn : P .null) (k : Nat) : ArrP P (xs ++ Array.replicate k .null) := by
  intro w hw
  simp only [Array.toList_append, Array.toList_replicate, List.mem_append, List.mem_replicate] at hw
  rcases hw with e | e
  · exact h w e
  · rw [e.2]; exact hn

theorem arr_getElem? {xs : Array Value} (h : ArrP P xs) (k : Nat) (v : Value) (hk : xs[k]? = some v) : P v :=
  h v (by rw [← Array.getElem?_toList] at hk; exact List.mem_of_getElem? hk)

theorem arr_getD {xs : Array Value} (h : ArrP P xs) (hn : P .null) (k : Nat) : P (xs.getD k .null) := by
  rw [Array.getD_eq_getD_getElem?]
  cases hk : xs[k]? with
  | none => exact hn
  | some w => exact arr_getElem? h k w hk
end arr

structure VMOK (s : VM) : Prop where
  hok : HOK s.mem
  stack : ArrP (LV s.mem.heap) s.stack
  globals : ArrP (LV s.mem.heap) s.globals
  cvals : ArrP (LV s.mem.heap) s.cvals
  last : LV s.mem.heap s.last

theorem lvnull (h : Heap) : LV h .null := lv_scalar rfl

theorem ArrP.ext {m m' : Mem} {xs : Array Value} (h : ArrP (LV m.heap) xs) (e : Ext m m') : ArrP (LV m'.heap) xs :=
  fun v hv => (h v hv).ext e

def StepOK : Step → Prop
  | .next s => VMOK s
  | .halt v s => VMOK s ∧ LV s.mem.heap v
  | .error _ s => VMOK s
  | .fault _ => True

theorem same_mem {s : VM} (h : VMOK s) (s' : VM) (hm : s'.mem = s.mem)
    (hst : ArrP (LV s.mem.heap) s'.stack) (hg : ArrP (LV s.mem.heap) s'.globals)
    (hc : s'.cvals = s.cvals) (hl : LV s.mem.heap s'.last) : VMOK s' :=
  ⟨by rw [hm]; exact h.hok, by rw [hm]; exact hst, by rw [hm]; exact hg, by rw [hm, hc]; exact h.cvals, by rw [hm]; exact hl⟩

theorem push_result {s : VM} (h : VMOK s) (m' : Mem) (v : Value) (hp : Post s.mem m' v) (st : Array Value)
    (hst : ArrP (LV s.mem.heap) st) (s' : VM) (hm : s'.mem = m') (hs : s'.stack = st.push v) (hg : s'.globals = s.globals)
    (hc : s'.cvals = s.cvals) (hl : s'.last = s.last) : VMOK s' := by
  refine ⟨by rw [hm]; exact hp.hok, ?_, ?_, ?_, ?_⟩
  · rw [hm, hs]; exact arr_push (hst.ext hp.ext) v hp.val
  · rw [hm, hg]; exact h.globals.ext hp.ext
  · rw [hm, hc]; exact h.cvals.ext hp.ext
  · rw [hm, hl]; exact h.last.ext hp.ext

/-- a return: the roots passed to the collector contain everything the machine holds afterwards -/
theorem doReturn_ok {s : VM} (h : VMOK s) (hwt : TI.WT s) (r : Value) (hr : LV s.mem.heap r)
    (extra : List Value) (hre : r.addr? = none ∨ r ∈ extra) (hle : s.last ∈ extra) (hex : ∀ v, v ∈ extra → LV s.mem.heap v ∧ KindOK s.mem.heap v) :
    StepOK (doReturn s r extra) := by
  unfold doReturn
  split
  · trivial
  · rename_i fr rest _
    split
    · trivial
    · simp only [StepOK]
      split
      · exact same_mem h _ rfl (arr_push (arr_extract h.stack _ _) r hr) h.globals rfl h.last
      · obtain ⟨hk, hheld⟩ := TI.wt_kinds hwt
        -- the roots
        have hroots : ∀ v, v ∈ VM.roots { s with stack := s.stack.extract 0 s.bp, frames := rest, depth := s.depth - 1, ip := fr.ip, bp := fr.bp } extra →
            LV s.mem.heap v ∧ KindOK s.mem.heap v := by
          intro v hv
          simp only [VM.roots, List.mem_append] at hv
          rcases hv with ((hv | hv) | hv) | hv
          · have hv' : v ∈ s.stack.toList := by
              rw [Array.toList_extract, List.extract_eq_take_drop] at hv
              exact List.mem_of_mem_drop (List.mem_of_mem_take hv)
            exact ⟨h.stack v hv', hheld v (by simp [hv'])⟩
          · exact ⟨h.cvals v hv, hheld v (by simp [hv])⟩
          · exact ⟨h.globals v hv, hheld v (by simp [hv])⟩
          · exact hex v hv
        obtain ⟨hok', hlv'⟩ := post_gc h.hok _ (fun v hv => (hroots v hv).1) hk (fun v hv => (hroots v hv).2)
        refine ⟨hok', ?_, ?_, ?_, ?_⟩
        · apply arr_push
          · intro v hv
            exact hlv' v (by simp only [VM.roots, List.mem_append]; exact .inl (.inl (.inl hv)))
          · rcases hre with e | e
            · exact lv_scalar e
            · exact hlv' r (by simp only [VM.roots, List.mem_append]; exact .inr e)
        · intro v hv
          exact hlv' v (by simp only [VM.roots, List.mem_append]; exact .inl (.inr hv))
        · intro v hv
          exact hlv' v (by simp only [VM.roots, List.mem_append]; exact .inl (.inl (.inr hv)))
        · exact hlv' _ (by simp only [VM.roots, List.mem_append]; exact .inr hle)

theorem exec_ok (i : Instr) (ip' : Nat) (s : VM) (h : VMOK s) (hwt : TI.WT s) : StepOK (exec i ip' s) := by
  have h' : VMOK { s with ip := ip' } := ⟨h.hok, h.stack, h.globals, h.cvals, h.last⟩
  have hn := lvnull s.mem.heap
  have hb : ∀ b, LV s.mem.heap (.bool b) := fun _ => lv_scalar rfl
  cases i <;> simp only [exec]
  case const k =>
    split
    · trivial
    · exact push_result h' _ _ (post_allocStr h.hok _) _ h.stack _ rfl rfl rfl rfl rfl
    · rename_i v _ hk
      exact same_mem h' _ rfl (arr_push h.stack v (arr_getElem? h.cvals _ v hk)) h.globals rfl h.last
  case setGlobal k =>
    split
    · trivial
    · rename_i v st hp
      obtain ⟨hv, hst⟩ := arr_pop1 h.stack v st hp
      refine same_mem h' _ rfl hst ?_ rfl h.last
      apply arr_set _ _ _ hv
      split
      · exact arr_pad h.globals hn _
      · exact h.globals
  case getGlobal k => exact same_mem h' _ rfl (arr_push h.stack _ (arr_getD h.globals hn k)) h.globals rfl h.last
  case setLocal k =>
    split
    · trivial
    · rename_i v st hp
      obtain ⟨hv, hst⟩ := arr_pop1 h.stack v st hp
      split
      · exact same_mem h' _ rfl (arr_set hst _ v hv) h.globals rfl h.last
      · trivial
  case getLocal k =>
    split
    · rename_i v hk
      exact same_mem h' _ rfl (arr_push h.stack v (arr_getElem? h.stack _ v hk)) h.globals rfl h.last
    · trivial
  case jump t => exact same_mem h' _ rfl h.stack h.globals rfl h.last
  case jumpIfFalse t =>
    split
    · trivial
    · rename_i b st hp
      exact same_mem h' _ rfl (arr_pop1 h.stack _ st hp).2 h.globals rfl h.last
    · rename_i v st _ hp
      exact same_mem h' _ rfl (arr_pop1 h.stack _ st hp).2 h.globals rfl h.last
  case pop =>
    split
    · trivial
    · rename_i v st hp
      obtain ⟨hv, hst⟩ := arr_pop1 h.stack v st hp
      exact same_mem h' _ rfl hst h.globals rfl hv
  case null => exact same_mem h' _ rfl (arr_push h.stack _ hn) h.globals rfl h.last
  case true_ => exact same_mem h' _ rfl (arr_push h.stack _ (hb _)) h.globals rfl h.last
  case false_ => exact same_mem h' _ rfl (arr_push h.stack _ (hb _)) h.globals rfl h.last
  case bin op =>
    split
    · trivial
    · rename_i r st1 hp1
      obtain ⟨hr, hst1⟩ := arr_pop1 h.stack r st1 hp1
      split
      · trivial
      · rename_i l st2 hp2
        obtain ⟨hl, hst2⟩ := arr_pop1 hst1 l st2 hp2
        split
        · rename_i v m he
          exact push_result h' m v (post_binop h.hok op l r hl v m he) st2 hst2 _ rfl rfl rfl rfl rfl
        · exact same_mem h' _ rfl hst2 h.globals rfl h.last
  case fused op loc k =>
    split
    · trivial
    · rename_i l hl
      split
      · trivial
      · rename_i r hr
        split
        · rename_i v m he
          exact push_result h' m v (post_binop h.hok op l r (arr_getElem? h.stack _ l hl) v m he) _ h.stack _ rfl rfl rfl rfl rfl
        · exact same_mem h' _ rfl h.stack h.globals rfl h.last
  case not =>
    split
    · trivial
    · rename_i b st hp
      exact same_mem h' _ rfl (arr_push (arr_pop1 h.stack _ st hp).2 _ (hb _)) h.globals rfl h.last
    · rename_i v st _ hp
      exact same_mem h' _ rfl (arr_pop1 h.stack _ st hp).2 h.globals rfl h.last
  case negate =>
    split
    · trivial
    · rename_i n st hp
      split
      · exact same_mem h' _ rfl (arr_push (arr_pop1 h.stack _ st hp).2 _ (lv_scalar rfl)) h.globals rfl h.last
      · exact same_mem h' _ rfl (arr_pop1 h.stack _ st hp).2 h.globals rfl h.last
    · rename_i a st hp
      exact push_result h' _ _ (post_allocFloat h.hok _) st (arr_pop1 h.stack _ st hp).2 _ rfl rfl rfl rfl rfl
    · rename_i v st _ _ hp
      exact same_mem h' _ rfl (arr_pop1 h.stack _ st hp).2 h.globals rfl h.last
  case call argc =>
    split
    · trivial
    · rename_i fip nl st hp
      have hst := (arr_pop1 h.stack _ st hp).2
      split
      · exact same_mem h' _ rfl hst h.globals rfl h.last
      · split
        · exact same_mem h' _ rfl hst h.globals rfl h.last
        · split
          · trivial
          · exact same_mem h' _ rfl (arr_pad hst hn _) h.globals rfl h.last
    · rename_i v st _ hp
      exact same_mem h' _ rfl (arr_pop1 h.stack _ st hp).2 h.globals rfl h.last
  case callBuiltin b argc =>
    split
    · trivial
    · rename_i args st hp
      obtain ⟨hargs, hst⟩ := arr_popN h.stack argc args st hp
      split
      · trivial
      · rename_i bi _
        split
        · rename_i v m out he
          have hpost := post_callBuiltin h.hok bi args hargs s.out v m out he
          exact ⟨hpost.hok, arr_push (hst.ext hpost.ext) v hpost.val, h.globals.ext hpost.ext, h.cvals.ext hpost.ext, h.last.ext hpost.ext⟩
        · exact same_mem h' _ rfl hst h.globals rfl h.last
  case retv =>
    split
    · trivial
    · rename_i v st hp
      obtain ⟨hv, hst⟩ := arr_pop1 h.stack v st hp
      obtain ⟨κ, hw⟩ := hwt
      obtain ⟨hvk, hstk⟩ := TI.arrOK_pop1 hw.stack v st hp
      have hw' : TI.VMWT κ { s with ip := ip', stack := st } := ⟨hw.heap, hstk, hw.globals, hw.cvals, hw.last⟩
      have hok' : VMOK { s with ip := ip', stack := st } := ⟨h.hok, hst, h.globals, h.cvals, h.last⟩
      refine doReturn_ok hok' ⟨κ, hw'⟩ v hv [s.last, v] (.inr (by simp)) (by simp) ?_
      intro x hx
      simp only [List.mem_cons, List.not_mem_nil, or_false] at hx
      rcases hx with e | e
      · rw [e]; exact ⟨h.last, TI.kindOK_of_valOK hw.heap _ hw.last⟩
      · rw [e]; exact ⟨hv, TI.kindOK_of_valOK hw.heap _ hvk⟩
  case ret =>
    obtain ⟨κ, hw⟩ := hwt
    have hw' : TI.VMWT κ { s with ip := ip' } := ⟨hw.heap, hw.stack, hw.globals, hw.cvals, hw.last⟩
    refine doReturn_ok h' ⟨κ, hw'⟩ .null hn [s.last] (.inl rfl) (by simp) ?_
    intro x hx
    simp only [List.mem_cons, List.not_mem_nil, or_false] at hx
    rw [hx]; exact ⟨h.last, TI.kindOK_of_valOK hw.heap _ hw.last⟩
  case array n =>
    split
    · trivial
    · rename_i vs st hp
      obtain ⟨hvs, hst⟩ := arr_popN h.stack n vs st hp
      exact push_result h' _ _ (post_allocArr h.hok vs hvs) st hst _ rfl rfl rfl rfl rfl
  case indexGet =>
    split
    · trivial
    · rename_i idx st1 hp1
      obtain ⟨_, hst1⟩ := arr_pop1 h.stack idx st1 hp1
      split
      · trivial
      · rename_i l st2 hp2
        obtain ⟨_, hst2⟩ := arr_pop1 hst1 l st2 hp2
        split
        · rename_i v m he
          exact push_result h' m v (post_indexGet h.hok l idx v m he) st2 hst2 _ rfl rfl rfl rfl rfl
        · exact same_mem h' _ rfl hst2 h.globals rfl h.last
  case indexSet =>
    split
    · trivial
    · rename_i x st1 hp1
      obtain ⟨hx, hst1⟩ := arr_pop1 h.stack x st1 hp1
      split
      · trivial
      · rename_i idx st2 hp2
        obtain ⟨_, hst2⟩ := arr_pop1 hst1 idx st2 hp2
        split
        · trivial
        · rename_i l st3 hp3
          obtain ⟨hl, hst3⟩ := arr_pop1 hst2 l st3 hp3
          split
          · rename_i v m he
            exact push_result h' m v (post_indexSet h.hok l idx x hl hx v m he) st3 hst3 _ rfl rfl rfl rfl rfl
          · exact same_mem h' _ rfl hst3 h.globals rfl h.last
  case halt => exact ⟨h', h.last⟩

/-- well-typed and without dangling references -/
def Safe (s : VM) : Prop := TI.WT s ∧ VMOK s

theorem step_safe (c : Code) (s s' : VM) (h : Safe s) (hs : step c s = .next s') : Safe s' := by
  have h1 := TI.step_wt c s h.1
  rw [hs] at h1
  refine ⟨h1, ?_⟩
  unfold step at hs
  split at hs
  · cases hs
  · rename_i i _
    have := exec_ok i (s.ip + i.size) s h.2 h.1
    rw [hs] at this
    exact this

theorem reachable_safe (c : Code) (s0 : VM) (h0 : Safe s0) (s : VM) (hr : TI.Reachable c s0 s) : Safe s := by
  induction hr with
  | start => exact h0
  | step s s' _ hs ih => exact step_safe c s s' ih hs

theorem loadConsts_ok : ∀ (cs : List Const) (m : Mem) (vs : Array Value), HOK m → ArrP (LV m.heap) vs →
    HOK (loadConsts cs (m, vs)).1 ∧ ArrP (LV (loadConsts cs (m, vs)).1.heap) (loadConsts cs (m, vs)).2 := by
  intro cs
  induction cs with
  | nil => intro m vs h hv; exact ⟨h, hv⟩
  | cons c cs ih =>
    intro m vs h hv
    cases c with
    | int i => exact ih m _ h (arr_push hv _ (lv_scalar rfl))
    | fn ip nl => exact ih m _ h (arr_push hv _ (lv_scalar rfl))
    | float b =>
      have p := post_allocFloat h b
      exact ih _ _ p.hok (arr_push (hv.ext p.ext) _ p.val)
    | str t =>
      have p := post_allocStr h t
      exact ih _ _ p.hok (arr_push (hv.ext p.ext) _ p.val)

/-- a fresh machine starts safe -/
theorem start_safe (bc : Bytecode) : Safe (({} : VM).start bc) := by
  refine ⟨TI.start_wt {} bc TI.wt_empty, ?_⟩
  have h0 : HOK { heap := ({} : VM).mem.heap, managed := [] } :=
    ⟨fun a vs hg => by simp [Heap.get] at hg, fun a ha => absurd (by simp [Heap.get]) ha, List.nodup_nil, fun a h => (by cases h)⟩
  obtain ⟨hok, hcv⟩ := loadConsts_ok bc.consts { heap := ({} : VM).mem.heap, managed := [] } #[] h0 (fun v hv => by simp at hv)
  refine ⟨?_, ?_, ?_, ?_, ?_⟩
  · simpa [VM.start] using hok
  · intro v hv; simp [VM.start] at hv
  · intro v hv; simp [VM.start] at hv
  · simpa [VM.start] using hcv
  · exact lv_scalar rfl

/-- a run that ends with a value passed through reachable states and stopped at a `Halt` -/
theorem runSteps_value (c : Code) : ∀ (n : Nat) (s0 s : VM) (v : Value), runSteps c n s0 = .value v s →
    ∃ s1, TI.Reachable c s0 s1 ∧ step c s1 = .halt v s := by
  intro n
  induction n with
  | zero => intro s0 s v h; simp [runSteps] at h
  | succ n ih =>
    intro s0 s v h
    simp only [runSteps] at h
    cases hs : step c s0 with
    | next s' =>
      rw [hs] at h
      obtain ⟨s1, hr, hh⟩ := ih s' s v h
      refine ⟨s1, ?_, hh⟩
      -- prepend the first step
      have pre : ∀ x, TI.Reachable c s' x → TI.Reachable c s0 x := by
        intro x hx
        induction hx with
        | start => exact .step s0 s' .start hs
        | step a b _ hab ih' => exact .step a b ih' hab
      exact pre s1 hr
    | halt v' s' =>
      rw [hs] at h
      injection h with h1 h2
      subst h1; subst h2
      exact ⟨s0, .start, hs⟩
    | error e s' => rw [hs] at h; cases h
    | fault site => rw [hs] at h; cases h

/-- the state and value a fresh-machine run halts with are safe -/
theorem halt_safe (bc : Bytecode) (n : Nat) (v : Value) (s : VM) (h : runSteps bc.code n (({} : VM).start bc) = .value v s) :
    VMOK s ∧ LV s.mem.heap v := by
  obtain ⟨s1, hr, hh⟩ := runSteps_value bc.code n _ s v h
  have hs := reachable_safe bc.code _ (start_safe bc) s1 hr
  unfold step at hh
  split at hh
  · cases hh
  · rename_i i _
    have := exec_ok i (s1.ip + i.size) s1 hs.2 hs.1
    rw [hh] at this
    exact this

end ND
end Nl
