/- `gcops` requests: collector operation sequences on the model collector (C03/C04). -/
import Nlmodel.Driver.Proto
import Nlmodel.Model.Pipeline
namespace Nl

def parseIds (s : String) : Option (List Nat) :=
  if s.isEmpty || s == "-" then some [] else (s.splitOn ",").mapM String.toNat?

structure GcSim where
  mem : Mem := {}
  objs : Array Value := #[]
  out : Array String := #[]

def GcSim.liveIds (g : GcSim) : List Nat :=
  (List.range g.objs.size).filter fun i => match g.objs[i]!.addr? with
    | some a => g.mem.heap.isLive a
    | none => false

def GcSim.manIds (g : GcSim) : List Nat :=
  (List.range g.objs.size).filter fun i => match g.objs[i]!.addr? with
    | some a => g.mem.managed.contains a
    | none => false

def showIds (l : List Nat) : String := ",".intercalate (l.map toString)

def GcSim.record (g : GcSim) : GcSim :=
  { g with out := g.out.push ("live={" ++ showIds g.liveIds ++ "}man={" ++ showIds g.manIds ++ "}") }

def GcSim.allLive (g : GcSim) (is : List Nat) : Bool :=
  is.all fun i => i < g.objs.size && (match g.objs[i]!.addr? with | some a => g.mem.heap.isLive a | none => false)

/-- one op; `none` = malformed, `some (g, false)` = an operand was already released -/
def gcStep (g : GcSim) (op : String) : Option (GcSim × Bool) :=
  let (head, rest) := match op.splitOn ":" with
    | [h] => (h, [])
    | h :: r => (h, r)
    | [] => ("", [])
  match head, rest with
  | "F", [] =>
    let (m, v) := g.mem.allocFloat (F64.ofInt g.objs.size)
    some (({ g with mem := m, objs := g.objs.push v }).record, true)
  | "S", [] =>
    let (m, v) := g.mem.allocStr ("s" ++ toString g.objs.size).toList
    some (({ g with mem := m, objs := g.objs.push v }).record, true)
  | "A", [l] =>
    match parseIds l with
    | none => none
    | some is =>
      if !g.allLive is then some (g, false) else
      let (m, v) := g.mem.allocArr (is.map fun i => g.objs[i]!)
      some (({ g with mem := m, objs := g.objs.push v }).record, true)
  | "A", [] =>
    let (m, v) := g.mem.allocArr []
    some (({ g with mem := m, objs := g.objs.push v }).record, true)
  | "L", [a, b] =>
    match a.toNat?, b.toNat? with
    | some a, some b =>
      if !g.allLive [a, b] then some (g, false) else
      match g.objs[a]! with
      | .arr addr =>
        let vs := g.mem.heap.arrAt addr
        some (({ g with mem := { g.mem with heap := g.mem.heap.set addr (.arr (vs ++ [g.objs[b]!])) } }).record, true)
      | _ => some (g, false)
    | _, _ => none
  | "R", l =>
    match parseIds (l.headD "") with
    | none => none
    | some is =>
      if !g.allLive is then some (g, false) else
      some (({ g with mem := GC.run g.mem (is.map fun i => g.objs[i]!) }).record, true)
  | "U", [i] =>
    match i.toNat? with
    | some i =>
      if !g.allLive [i] then some (g, false) else
      some (({ g with mem := { g.mem with managed := GC.untrace g.mem.heap (g.mem.managed.length + 1) g.mem.managed g.objs[i]! } }).record, true)
    | none => none
  | "D", [] => some (({ g with mem := GC.destroy g.mem }).record, true)
  | _, _ => none

def handleGcOps (ops : List String) : String :=
  let rec go (g : GcSim) : List String → String
    | [] =>
      let g1 := { g with mem := GC.destroy g.mem }
      let after := g1.liveIds.length
      " ".intercalate g.out.toList ++ " # afterdrop=" ++ toString after ++ " dfree=0 uaf=0 final=0"
    | op :: rest =>
      match gcStep g op with
      | none => "bad-op"
      | some (g', true) => go g' rest
      | some (g', false) => " ".intercalate g'.out.toList ++ " DEAD-OPERAND"
  go {} ops

end Nl
