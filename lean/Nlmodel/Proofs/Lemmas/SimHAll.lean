/- Stage 5: blocks in value position; the induction on fuel, all six statements together. -/
import Nlmodel.Proofs.Lemmas.SimHStmt
namespace Nl
namespace SimH
open Spec Sim

section
variable {s0 : VM} {CS : List Const} {C : Code}

theorem goalU5_then_null {Γ Γ1 : Gam} (d : Gam) (hd : Γ1 = d ++ Γ) {ab : Bool} {lp : LoopCtx} {μ : AMap} {pos : Nat}
    {stk g : Array Value} {l : Value} {m : Mem} {out : List Text} {e1 : Nat} {st : SState} {r : Res Unit}
    (h : GoalU5 s0 CS C Γ Γ1 ab lp μ pos stk g l m out e1 st r) (hnull : CodeAt C e1 [.null]) :
    GoalV5 s0 CS C Γ ab lp μ pos stk g l m out (e1 + 1) stk st (liftU r (fun st1 => .val .null st1)) := by
  subst hd
  cases r with
  | val u st1 =>
    obtain ⟨μ', m', hre⟩ := h
    exact ⟨.null, μ', m', trivial, (Reach5.then hre (fun g' l' out' => step_null hnull)).weaken d⟩
  | brk st' => exact h
  | cont st' => exact h
  | err er st' => exact h
  | ret _ _ => exact h
  | fuel => trivial
  | unspec _ => trivial

theorem pbv5_novalue (f : Nat) (ih : PAll5 s0 CS C f) {Γ Γ1 : Gam} {ab : Bool} (s : RStmt) (hs : HS Γ ab s Γ1) (hok : GamOK Γ)
    {μ : AMap} {st : SState} {pos : Nat} {lp : LoopCtx} {cs : List Const} {stk g : Array Value} {l : Value} {m : Mem} {out : List Text}
    (hinv : Inv5 s0 CS Γ μ st g l m out)
    (heval : evalBV (f + 1) (.cons s .nil) st = liftU (evalS f s st) (fun st1 => .val .null st1))
    (hasv : ∀ c, asValue (.cons s .nil) c = c ++ [.null])
    (hsz : sizeBV (.cons s .nil) = sizeS s + 1)
    (hcode : CodeAt C pos (asValue (.cons s .nil) (emitB (.cons s .nil) pos lp cs).1))
    (hext : Ext (emitB (.cons s .nil) pos lp cs).2 CS) :
    GoalV5 s0 CS C Γ ab lp μ pos stk g l m out (pos + sizeBV (.cons s .nil)) stk st (evalBV (f + 1) (.cons s .nil) st) := by
  rw [hasv] at hcode
  simp only [emitB, List.append_nil] at hcode hext
  obtain ⟨hc1, hc2⟩ := hcode.append
  rw [emitS_size] at hc2
  have h := ih.s Γ ab s Γ1 hs hok μ st pos lp cs stk g l m out hinv hc1 hext
  obtain ⟨_, d, hd⟩ := hs_scope hs hok
  rw [heval, hsz, ← Nat.add_assoc]
  exact goalU5_then_null d hd h hc2

theorem pbv5_succ (f : Nat) (ih : PAll5 s0 CS C f) : PBV5 s0 CS C (f + 1) := by
  intro Γ ab b Γ2 hx hok μ st pos lp cs stk g l m out hinv hcode hext
  cases hx with
  | nil _ _ =>
    simp only [asValue] at hcode
    simp only [evalBV]
    exact ⟨.null, μ, m, trivial, g, l, out, 1, execN_one C _ _ (step_null hcode), hinv, Grow.refl _ _ _⟩
  | cons _ _ Γ1 _ s rest hs hrest =>
    cases rest with
    | nil =>
      cases hrest
      cases hs with
      | expr _ _ e he =>
        have hcode' : CodeAt C pos (emitE e pos lp cs).1 := by
          simpa [asValue, RBlock.tailKind, emitB, emitS] using hcode
        have hext' : Ext (emitE e pos lp cs).2 CS := by simpa [emitB, emitS] using hext
        have h := ih.e Γ ab e he hok μ st pos lp cs stk g l m out hinv hcode' hext'
        have hsz : sizeBV (.cons (.expr e) .nil) = sizeE e := by
          simp [sizeBV, valSize, RBlock.tailKind, sizeB, sizeS]
        rw [hsz]
        simp only [evalBV]
        exact h
      | block _ _ b' Γ3 hb' =>
        cases b' with
        | nil =>
          exact pbv5_novalue f ih _ (.block _ _ _ _ hb') hok hinv (by simp only [evalBV]; exact liftU_eq _ _)
            (by intro c; simp [asValue, RBlock.tailKind]) (by simp [sizeBV, valSize, RBlock.tailKind, sizeB])
            hcode hext
        | cons s' b'' =>
          have hcode' : CodeAt C pos (asValue (.cons s' b'') (emitB (.cons s' b'') pos lp cs).1) := by
            have : (emitB (.cons (.block (.cons s' b'')) .nil) pos lp cs).1 = (emitB (.cons s' b'') pos lp cs).1 := by
              simp [emitB, emitS]
            rw [this] at hcode
            simpa [asValue, RBlock.tailKind] using hcode
          have hext' : Ext (emitB (.cons s' b'') pos lp cs).2 CS := by
            have : (emitB (.cons (.block (.cons s' b'')) .nil) pos lp cs).2 = (emitB (.cons s' b'') pos lp cs).2 := by
              simp [emitB, emitS]
            rw [this] at hext; exact hext
          have h := ih.bv Γ ab _ Γ3 hb' hok μ st pos lp cs stk g l m out hinv hcode' hext'
          have hsz : sizeBV (.cons (.block (.cons s' b'')) .nil) = sizeBV (.cons s' b'') := by
            simp [sizeBV, valSize, RBlock.tailKind, sizeB, sizeS]
          rw [hsz]
          simp only [evalBV]
          exact h
      | letS _ _ bb k e hf he =>
        exact pbv5_novalue f ih _ (.letS _ _ bb k e hf he) hok hinv (by simp only [evalBV]; exact liftU_eq _ _)
          (by intro c; simp [asValue, RBlock.tailKind]) (by simp [sizeBV, valSize, RBlock.tailKind, sizeB])
          hcode hext
      | brk _ =>
        exact pbv5_novalue f ih _ (.brk _) hok hinv (by simp only [evalBV]; exact liftU_eq _ _)
          (by intro c; simp [asValue, RBlock.tailKind]) (by simp [sizeBV, valSize, RBlock.tailKind, sizeB])
          hcode hext
      | cont _ =>
        exact pbv5_novalue f ih _ (.cont _) hok hinv (by simp only [evalBV]; exact liftU_eq _ _)
          (by intro c; simp [asValue, RBlock.tailKind]) (by simp [sizeBV, valSize, RBlock.tailKind, sizeB])
          hcode hext
    | cons s2 rest2 =>
      have e1 : (emitB (.cons s (.cons s2 rest2)) pos lp cs).1 =
          (emitS s pos lp cs).1 ++ (emitB (.cons s2 rest2) (pos + sizeS s) lp (emitS s pos lp cs).2).1 := by rw [emitB]
      have e2 : (emitB (.cons s (.cons s2 rest2)) pos lp cs).2 =
          (emitB (.cons s2 rest2) (pos + sizeS s) lp (emitS s pos lp cs).2).2 := by rw [emitB]
      have hcode' := hcode
      rw [e1, asValue_seq] at hcode'
      rw [e2] at hext
      obtain ⟨hc1, hc2⟩ := hcode'.append
      rw [emitS_size] at hc2
      have hext1 : Ext (emitS s pos lp cs).2 CS := (emitB_ext _ _ _ _).trans hext
      have h1 := ih.s Γ ab s Γ1 hs hok μ st pos lp cs stk g l m out hinv hc1 hext1
      obtain ⟨hok1, d, hd⟩ := hs_scope hs hok
      have heval : evalBV (f + 1) (.cons s (.cons s2 rest2)) st = liftU (evalS f s st) (fun st1 => evalBV f (.cons s2 rest2) st1) := by
        cases s <;> (simp only [evalBV]; exact liftU_eq _ _)
      rw [heval, sizeBV_seq]
      cases hr : evalS f s st with
      | val u st1 =>
        rw [hr] at h1
        obtain ⟨μ1, m1, g1, l1, out1, n, hn, hinv1, hg1⟩ := h1
        have h2 := ih.bv Γ1 ab (.cons s2 rest2) Γ2 hrest hok1 μ1 st1 (pos + sizeS s) lp _ stk g1 l1 m1 out1 hinv1 hc2 hext
        subst hd
        rw [← Nat.add_assoc]
        exact (h2.weaken d).prefix n hn hg1
      | err er st1 => rw [hr] at h1; exact h1
      | fuel => trivial
      | unspec _ => trivial
      | brk _ => rw [hr] at h1; exact h1
      | cont _ => rw [hr] at h1; exact h1
      | ret _ _ => rw [hr] at h1; exact h1

theorem pall5 : ∀ f, PAll5 s0 CS C f
  | 0 => ⟨by unfold PE5; intros; simp only [evalE]; trivial,
          by unfold PEs5; intros; simp only [evalEs]; trivial,
          by unfold PBV5; intros; simp only [evalBV]; trivial,
          by unfold PS5; intros; simp only [evalS]; trivial,
          by unfold PB5; intros; simp only [evalB]; trivial,
          by unfold PL5; intros; simp only [evalLoop]; trivial⟩
  | f + 1 =>
    have ih := pall5 f
    ⟨pe5_succ f ih, pes5_succ f ih, pbv5_succ f ih, ps5_succ f ih, pb5_succ f ih, pl5_succ f ih⟩

end
end SimH
end Nl
