import Nlmodel.Driver.Proto
import Nlmodel.Model.Pipeline
import Nlmodel.Driver.Instrumented
import Nlmodel.Driver.Tables
import Nlmodel.Driver.ObjOps
import Nlmodel.Driver.TreeGen
import Nlmodel.Model.Session
import Nlmodel.Driver.GcOps
import Nlmodel.Driver.Utf8Ops
import Nlmodel.Model.Verifier
import Nlmodel.Proofs.Lemmas.SimFnValidate
import Nlmodel.Proofs.Lemmas.SimHValidate
import Nlmodel.Proofs.Lemmas.ResolveHeap
import Nlmodel.Proofs.Lemmas.ResolveFn
import Nlmodel.Proofs.Lemmas.Resolve6Top
import Nlmodel.Proofs.Lemmas.Resolve7Top
import Nlmodel.Proofs.Lemmas.Sim8Check
open Nl

/-- character classes: loaded from the table dumped by the harness from Rust's std
    (lines `alpha <lo> <hi>` / `alnum <lo> <hi>`, inclusive code-point ranges, sorted) -/
structure Ranges where
  alpha : Array (Nat × Nat) := #[]
  alnum : Array (Nat × Nat) := #[]

def inRanges (rs : Array (Nat × Nat)) (c : Nat) : Bool := Id.run do
  let mut lo := 0
  let mut hi := rs.size
  while lo < hi do
    let mid := (lo + hi) / 2
    let (a, b) := rs[mid]!
    if c < a then hi := mid
    else if c > b then lo := mid + 1
    else return true
  return false

def loadRanges (path : String) : IO Ranges := do
  let txt ← IO.FS.readFile path
  let mut r : Ranges := {}
  for line in txt.splitOn "\n" do
    match line.trimAscii.toString.splitOn " " with
    | ["alpha", a, b] => r := { r with alpha := r.alpha.push (a.toNat!, b.toNat!) }
    | ["alnum", a, b] => r := { r with alnum := r.alnum.push (a.toNat!, b.toNat!) }
    | _ => pure ()
  return r

def mkCC (r : Ranges) : CharClass where
  alpha c := if c.toNat < 128 then c.isAlpha else inRanges r.alpha c.toNat
  alnum c := if c.toNat < 128 then c.isAlphanum else inRanges r.alnum c.toNat

def showCode (c : Code) : String :=
  c.foldl (fun acc b => acc ++ hexByte (UInt8.ofNat b)) "x"

def showConst : Const → String
  | .int i => "i:" ++ toString i
  | .float x => if F64.isNaN x then "f:nan" else "f:" ++ hex64 x
  | .str s => "s:" ++ hexText s
  | .fn ip nl => "fn:" ++ toString ip ++ ":" ++ toString nl

/-- print a tree under layout `layout` (0 = canonical: single blanks, every separator present) -/
def emitTree (r : TreeGen.R) (b : Block) (layout : Nat) : String :=
  let toks := printProgram b
  if layout = 0 then
    b.sexp ++ " | " ++ hexText (render toks (List.replicate (toks.length + 1) 1))
  else
    let r := TreeGen.mkR (r.s.toNat + layout)
    let (r, toks) := TreeGen.dropSeps r toks
    let (_, ks) := (List.range (toks.length + 1)).foldl
      (fun (acc : TreeGen.R × List Nat) _ => let (r, k) := acc.1.below 40; (r, (if k < sepTable.length then k else if k < 30 then 1 else 0) :: acc.2)) (r, [])
    b.sexp ++ " | " ++ hexText (render toks ks)

def parseConstTok (t : String) : Option Const :=
  match t.splitOn ":" with
  | ["i", v] => v.toInt?.map .int
  | ["f", "nan"] => some (.float F64.canonNaN)
  | ["f", hx] => (parseHex64 hx.toList).map .float
  | ["s", hx] => (unhexText hx).map .str
  | ["fn", a, b] => match a.toNat?, b.toNat? with
    | some x, some y => some (.fn x y)
    | _, _ => none
  | _ => none

/-- run the verified checker on REAL bytecode (bytes and constant pool as printed by the harness) -/
def verifyReal (code : String) (consts : List String) : String :=
  match code.toList with
  | 'x' :: r =>
    match unhexBytes r, (consts.filter (· ≠ "")).mapM parseConstTok with
    | some bs, some cs =>
      let bc : Bytecode := { code := (bs.map UInt8.toNat).toArray, consts := cs }
      let cert := Verifier.inferCert bc
      if Verifier.check bc cert then
        "ok certified=" ++ toString (cert.ent.foldl (fun n e => if e.isSome then n + 1 else n) 0)
      else "reject pc=" ++ toString (Verifier.firstFailure bc cert)
    | _, _ => "bad-request"
  | _ => "bad-request"

/-- run the machine model on REAL bytecode (lockstep tie of Model/VM to vm.rs, independent of the compiler model) -/
def runBytesReal (budget : String) (code : String) (consts : List String) : String :=
  match code.toList with
  | 'x' :: r =>
    match unhexBytes r, (consts.filter (· ≠ "")).mapM parseConstTok with
    | some bs, some cs => runBytesX budget.toNat! { code := (bs.map UInt8.toNat).toArray, consts := cs }
    | _, _ => "bad-request"
  | _ => "bad-request"

def handle (cc : CharClass) (line : String) : String :=
  match line.trimAscii.toString.splitOn " " with
  | ["lex", h] =>
    match unhexText h with
    | some t => "ok " ++ " ".intercalate ((lex cc t).map Token.show)
    | none => "bad-hex"
  | ["parse", h] =>
    match unhexText h with
    | some t =>
      match parse cc t with
      | .ok b => "ok " ++ b.sexp
      | .error e => "err " ++ e.name
    | none => "bad-hex"
  | ["compile", h] =>
    match unhexText h with
    | some t =>
      match parse cc t with
      | .error e => "err " ++ e.name
      | .ok ast =>
        match compileProgram ast with
        | .error e => "err " ++ e.name
        | .ok (_, bc) => "ok " ++ showCode bc.code ++ " | " ++ " ".intercalate (bc.consts.map showConst)
    | none => "bad-hex"
  | ["eval", b, h] =>
    match unhexText h with
    | some t => (evalText cc b.toNat! t).show
    | none => "bad-hex"
  | ["gentree", seed, depth, layout] =>
    let r := TreeGen.mkR seed.toNat!
    let (r, b) := TreeGen.genB r depth.toNat!
    emitTree r b layout.toNat!
  | ["enumtree", idx, layout] =>
    match TreeGen.enumTree idx.toNat! with
    | some e => emitTree (TreeGen.mkR (idx.toNat! + 7)) (.cons (.expr e) .nil) layout.toNat!
    | none => "none"
  | ["enumcount"] => toString TreeGen.enumCount
  | "rendertoks" :: ks :: toks =>
    -- ks: comma separated separator choices (one per token + trailing); missing ones are 0
    match toks.mapM Token.ofShow with
    | some ts => hexText (render ts ((ks.splitOn ",").map String.toNat!))
    | none => "bad-token"
  | ["escape", h] =>
    match unhexText h with
    | some t => hexText (escape t)
    | none => "bad-hex"
  | ["sepcount"] => toString sepTable.length
  | "session" :: b :: hs =>
    match hs.mapM unhexText with
    | some ls => " ;; ".intercalate ((Session.lines cc b.toNat! {} ls).map Obs.show)
    | none => "bad-hex"
  | "gcops" :: ops => handleGcOps ops
  | "verify" :: code :: "|" :: consts => verifyReal code consts
  | "runbytes" :: b :: code :: "|" :: consts => runBytesReal b code consts
  | ["tables"] => modelTables
  | "obj" :: rest => handleObj rest
  | "utf8" :: rest => handleUtf8 rest
  | ["evalx", b, h] =>
    match unhexText h with
    | some t => evalTextX cc b.toNat! t
    | none => "bad-hex"
  | ["spec", b, h] =>
    match unhexText h with
    | some t => (specText cc b.toNat! t).show
    | none => "bad-hex"
  | ["fragment", h] =>
    -- is the program inside the fragment the C01 simulation theorem covers (decided by the verified check `inFragment`)?
    match unhexText h with
    | some t =>
      match parse cc t with
      | .error _ => "noparse"
      | .ok ast =>
        match compileProgram ast with
        | .error _ => "nocompile"
        | .ok (r, _) =>
          -- `-r1`: the source tree is in a SYNTACTIC fragment for which the resolver part is a theorem too (no validation)
          if SimF.srcTop ast then "proved-r1"
          else if SimH.inSourceH ast then "proved-heap-r1"
          else if Sim6.src6Top ast then "proved-heapcalls-r1"
          else if Sim7.src7Top ast then "proved-nested-r1"
          else if SimF.inFragment r then "proved" else if SimH.inFragmentH r then "proved-heap"
          else if Sim6.inFragment6 r then "proved-heapcalls"
          else if Sim7.inFragment7 r then "proved-nested"
          else if Sim8.inFragment8 r then "proved-named" else "outside"
    | none => "bad-hex"
  | _ => "bad-request"

partial def loop (cc : CharClass) (h : IO.FS.Stream) (out : IO.FS.Stream) : IO Unit := do
  let line ← h.getLine
  if line.isEmpty then return ()
  out.putStrLn (handle cc line)
  loop cc h out

def main (args : List String) : IO Unit := do
  let r ← match args with
    | [p] => loadRanges p
    | _ => pure {}
  let out ← IO.getStdout
  loop (mkCC r) (← IO.getStdin) out
