/- C10 "top level or inside a function is unobservable": non-vacuity of `wrap_same_meaning` and of
   `wrap_same_behaviour` on `stel a = 2; stel b = a * 3; als b > 5 { a = a + b }; a`. -/
import Nlmodel.Proofs.Lemmas.WrapCorollary
namespace Nl
namespace Wrap
open Spec Sim

def exSrc : Text := ['s','t','e','l',' ','a',' ','=',' ','2',';',' ','s','t','e','l',' ','b',' ','=',' ','a',' ','*',' ','3',';',' ','a','l','s',' ','b',' ','>',' ','5',' ','{',' ','a',' ','=',' ','a',' ','+',' ','b',' ','}',';',' ','a']
def exSrcW : Text := ['f','u','n','c','t','i','e',' ','h','o','o','f','d','(',')',' ','{',' ','s','t','e','l',' ','a',' ','=',' ','2',';',' ','s','t','e','l',' ','b',' ','=',' ','a',' ','*',' ','3',';',' ','a','l','s',' ','b',' ','>',' ','5',' ','{',' ','a',' ','=',' ','a',' ','+',' ','b',' ','}',';',' ','a',' ','}',' ','h','o','o','f','d','(',')']

/-- `stel a = 2; stel b = a * 3; als b > 5 { a = a + b }; a` -/
def exAst : Block :=
  .cons (.letS ['a'] (.int 2))
  (.cons (.letS ['b'] (.infix (.ident ['a']) .mul (.int 3)))
  (.cons (.expr (.ifE (.infix (.ident ['b']) .gt (.int 5))
      (.cons (.expr (.assign (.ident ['a']) (.infix (.ident ['a']) .add (.ident ['b'])))) .nil) .none))
  (.cons (.expr (.ident ['a'])) .nil)))

/-- its resolved tree -/
def exR : RBlock :=
  .cons (.letS ⟨0, .global 0⟩ (.int 2))
  (.cons (.letS ⟨1, .global 1⟩ (.infix (.var ⟨0, .global 0⟩) .mul (.int 3)))
  (.cons (.expr (.ifE (.infix (.var ⟨1, .global 1⟩) .gt (.int 5))
      (.cons (.expr (.assignVar ⟨0, .global 0⟩ (.infix (.var ⟨0, .global 0⟩) .add (.var ⟨1, .global 1⟩)))) .nil) .none))
  (.cons (.expr (.var ⟨0, .global 0⟩)) .nil)))

/-- the texts parse to the tree and to the wrapped tree (`wrap` builds exactly what the parser builds) -/
theorem ex_parse : parse CharClass.ascii exSrc = .ok exAst := by rfl
theorem ex_parseW : parse CharClass.ascii exSrcW = .ok (wrap exAst) := by rfl

theorem exAst_sb : SB false exAst :=
  .cons _ _ _ (.letS _ _ _ (.int _ _))
  (.cons _ _ _ (.letS _ _ _ (.bin _ _ _ _ .mul rfl (.ident _ _) (.int _ _)))
  (.cons _ _ _ (.expr _ _ (.ifE _ _ _ _ (.bin _ _ _ _ .gt rfl (.ident _ _) (.int _ _))
      (.cons _ _ _ (.expr _ _ (.assign _ _ _ (.bin _ _ _ _ .add rfl (.ident _ _) (.ident _ _)))) (.nil _)) (.none _)))
  (.cons _ _ _ (.expr _ _ (.ident _ _)) (.nil _))))

theorem exAst_last : LastExpr exAst := .cons _ _ (.cons _ _ (.cons _ _ (.one _)))

theorem exAst_resolve : resolveProgram exAst = .ok exR := by rfl

theorem exR_eval : evalProgram 20 exR = .value (.int 8) [] := by rfl

/-- NON-VACUITY of `wrap_same_meaning`: its hypotheses hold for the example -/
example : ∃ r', resolveProgram (wrap exAst) = .ok r' ∧ ∀ F, ∃ F',
    match evalProgram F exR with
    | .value t out => evalProgram F' r' = .value t out
    | .error e out => evalProgram F' r' = .error e out
    | _ => True :=
  wrap_same_meaning exAst exAst_sb exAst_last exR exAst_resolve

/-- ... and its conclusion says something: the wrapped program has the value 8 with fuel 25 -/
example : ∃ r', resolveProgram (wrap exAst) = .ok r' ∧ evalProgram 25 r' = .value (.int 8) [] := by
  obtain ⟨r', h1, h2⟩ := wrap_same_meaning_as hoofd (by decide) (by decide) exAst exAst_sb exAst_last exR exAst_resolve
  have h := h2 20
  rw [exR_eval] at h
  exact ⟨r', h1, h⟩

theorem ex_specText : specText CharClass.ascii 20 exSrc = .value (.int 8) [] := by
  simp only [specText, ex_parse, exAst_resolve, exR_eval]

/-- NON-VACUITY of `wrap_same_behaviour`: both programs compile, so on the machine model both texts get the
    same answer for every large enough budget (or one of them hits the stack/frame limit) -/
example : TextHitsLimit CharClass.ascii exSrc ∨
    TextHitsLimit CharClass.ascii exSrcW ∨
    ∃ n, ∀ k, evalText CharClass.ascii (n + k) exSrc = evalText CharClass.ascii (n + k) exSrcW := by
  have d1 : (match compileProgram exAst with | .ok _ => true | .error _ => false) = true := by decide
  have d2 : (match compileProgram (wrap exAst) with | .ok _ => true | .error _ => false) = true := by decide
  cases hc1 : compileProgram exAst with
  | error e => rw [hc1] at d1; cases d1
  | ok q1 =>
    cases hc2 : compileProgram (wrap exAst) with
    | error e => rw [hc2] at d2; cases d2
    | ok q2 =>
      exact wrap_same_behaviour CharClass.ascii exSrc exSrcW exAst q1.1 q2.1 q1.2 q2.2 ex_parse ex_parseW exAst_sb exAst_last
        hc1 hc2 20 (.int 8) [] ex_specText

end Wrap
end Nl
