/-
  Alpha-equivalence, part 1: renaming of source trees, the image of a resolver state under a
  renaming, and the commutation of every symbol-table operation with it.
-/
import Nlmodel.Model.Resolve
namespace Nl
namespace Alpha

/-! ### renaming of source trees -/

mutual
def renE (f : Text → Text) : Expr → Expr
  | .infix l op r => .infix (renE f l) op (renE f r)
  | .pre op r => .pre op (renE f r)
  | .int v => .int v
  | .float b => .float b
  | .bool b => .bool b
  | .ifE c t e => .ifE (renE f c) (renB f t) (renO f e)
  | .ident n => .ident (f n)
  | .func name ps body => .func (f name) (ps.map f) (renB f body)
  | .call g as => .call (renE f g) (renEs f as)
  | .assign l r => .assign (renE f l) (renE f r)
  | .str s => .str s
  | .arr vs => .arr (renEs f vs)
  | .index l i => .index (renE f l) (renE f i)
  | .whileE c b => .whileE (renE f c) (renB f b)
def renS (f : Text → Text) : Stmt → Stmt
  | .letS n e => .letS (f n) (renE f e)
  | .ret e => .ret (renE f e)
  | .expr e => .expr (renE f e)
  | .block b => .block (renB f b)
  | .brk => .brk
  | .cont => .cont
def renB (f : Text → Text) : Block → Block
  | .nil => .nil
  | .cons s b => .cons (renS f s) (renB f b)
def renEs (f : Text → Text) : Exprs → Exprs
  | .nil => .nil
  | .cons e es => .cons (renE f e) (renEs f es)
def renO (f : Text → Text) : OptBlock → OptBlock
  | .none => .none
  | .some b => .some (renB f b)
end

/-- parameter lists are plain `List Text` in this model -/
def renNames (f : Text → Text) (ps : List Text) : List Text := ps.map f

/-! ### the hypothesis on the renaming -/

/-- What the resolver needs of a renaming: it is injective, it neither creates nor destroys a
    builtin callee name (`Builtin.resolve`, the project's only test of builtin-ness, consulted at
    call sites before the symbol table), and it keeps the empty name empty (the parser gives an
    anonymous function literal the empty name; `resolveE` tests `name.isEmpty`). -/
structure Renaming (f : Text → Text) : Prop where
  inj : ∀ a b, f a = f b → a = b
  builtin : ∀ n, Builtin.resolve (f n) = Builtin.resolve n
  empty : ∀ n, (f n).isEmpty = n.isEmpty

/-- the list of builtin names -/
def builtinNames : List Text :=
  ["print".toList, "type".toList, "int".toList, "float".toList, "bool".toList, "string".toList, "lengte".toList]

theorem resolve_isSome_iff (n : Text) : (Builtin.resolve n).isSome = true ↔ n ∈ builtinNames := by
  unfold Builtin.resolve builtinNames
  simp only [List.mem_cons, List.not_mem_nil, or_false]
  constructor
  · intro h
    repeat' split at h
    all_goals first | (simp_all; done) | cases h
  · intro h
    rcases h with h | h | h | h | h | h | h <;> subst h <;> decide

/-- the hypothesis in the form of the task description: injective, fixes the builtin names and
    the empty name -/
theorem Renaming.of_fixes (f : Text → Text) (hinj : ∀ a b, f a = f b → a = b)
    (hfix : ∀ n, n ∈ builtinNames → f n = n) (hempty : f [] = []) : Renaming f where
  inj := hinj
  builtin n := by
    by_cases hn : n ∈ builtinNames
    · rw [hfix n hn]
    · have h1 : Builtin.resolve n = none := by
        cases h : Builtin.resolve n with
        | none => rfl
        | some b => exact absurd ((resolve_isSome_iff n).1 (by rw [h]; rfl)) hn
      have h2 : f n ∉ builtinNames := by
        intro hm
        have := hinj _ _ (hfix (f n) hm)
        exact hn (this ▸ hm)
      cases h : Builtin.resolve (f n) with
      | none => rw [h1]
      | some b => exact absurd ((resolve_isSome_iff (f n)).1 (by rw [h]; rfl)) h2
  empty n := by
    cases n with
    | nil => rw [hempty]
    | cons c cs =>
      cases h : f (c :: cs) with
      | nil => exact absurd (hinj _ _ (h.trans hempty.symm)) (by simp)
      | cons d ds => rfl

/-! ### the image of a resolver state -/

def mapPair (f : Text → Text) (p : Text × Nat) : Text × Nat := (f p.1, p.2)

def mapCtx (f : Text → Text) (c : Ctx) : Ctx :=
  { c with scopes := c.scopes.map (List.map (mapPair f)) }

def mapSt (f : Text → Text) (st : RState) : RState :=
  { st with ctxs := st.ctxs.map (mapCtx f) }

/-- the image of a result of the resolver: same tree, same error, state mapped -/
def liftR {α : Type} (f : Text → Text) : Except Err (α × RState) → Except Err (α × RState)
  | .ok (r, st) => .ok (r, mapSt f st)
  | .error e => .error e

@[simp] theorem mapCtx_isGlobal (f : Text → Text) (c : Ctx) : (mapCtx f c).isGlobal = c.isGlobal := rfl
@[simp] theorem mapCtx_maxSize (f : Text → Text) (c : Ctx) : (mapCtx f c).maxSize = c.maxSize := rfl

theorem mapCtx_flat (f : Text → Text) (c : Ctx) : (mapCtx f c).flat = c.flat.map (mapPair f) := by
  simp only [Ctx.flat, mapCtx, List.map_flatten]

theorem mapCtx_totalLen (f : Text → Text) (c : Ctx) : (mapCtx f c).totalLen = c.totalLen := by
  simp only [Ctx.totalLen, mapCtx_flat, List.length_map]

theorem lookupFlat_map {f : Text → Text} (hf : Renaming f) (n : Text) :
    ∀ l : List (Text × Nat), lookupFlat (l.map (mapPair f)) (f n) = lookupFlat l n
  | [] => rfl
  | (m, bid) :: rest => by
    simp only [List.map_cons, mapPair, lookupFlat, List.length_map]
    by_cases h : m = n
    · simp only [h, ↓reduceIte]
    · have h' : ¬ f m = f n := fun e => h (hf.inj _ _ e)
      simp only [h, h', ↓reduceIte]
      exact lookupFlat_map hf n rest

theorem mapCtx_resolve {f : Text → Text} (hf : Renaming f) (c : Ctx) (n : Text) :
    (mapCtx f c).resolve (f n) = c.resolve n := by
  simp only [Ctx.resolve, mapCtx_flat, lookupFlat_map hf]

theorem getLast?_map_ctx (f : Text → Text) (cs : List Ctx) :
    (cs.map (mapCtx f)).getLast? = cs.getLast?.map (mapCtx f) := by
  simp only [List.getLast?_map]

/-- KEY LEMMA: looking the renamed name up in the renamed table finds the same binder and slot -/
theorem mapSt_resolve {f : Text → Text} (hf : Renaming f) (st : RState) (n : Text) :
    (mapSt f st).resolve (f n) = st.resolve n := by
  obtain ⟨ctxs, a, b, c, d⟩ := st
  cases ctxs with
  | nil => rfl
  | cons c cs =>
    simp only [RState.resolve, mapSt, List.map_cons, mapCtx_resolve hf, mapCtx_isGlobal,
      getLast?_map_ctx]
    cases c.resolve n with
    | some p => rfl
    | none =>
      simp only
      cases cs.getLast? with
      | none => rfl
      | some g => simp only [Option.map_some, mapCtx_resolve hf]

theorem mapCtx_define (f : Text → Text) (c : Ctx) (n : Text) (bid : Nat) :
    (mapCtx f c).define (f n) bid = (mapCtx f (c.define n bid).1, (c.define n bid).2) := by
  obtain ⟨g, m, scopes⟩ := c
  cases scopes with
  | nil => rfl
  | cons s ss =>
    simp only [Ctx.define, mapCtx, List.map_cons, mapPair]
    refine Prod.ext rfl ?_
    exact mapCtx_totalLen f ⟨g, m, s :: ss⟩

theorem mapSt_define (f : Text → Text) (st : RState) (n : Text) :
    (mapSt f st).define (f n) = (mapSt f (st.define n).1, (st.define n).2) := by
  obtain ⟨ctxs, a, b, c, d⟩ := st
  cases ctxs with
  | nil => rfl
  | cons c cs =>
    simp only [RState.define, mapSt, List.map_cons, mapCtx_define, mapCtx_isGlobal]

theorem mapSt_enterScope (f : Text → Text) (st : RState) :
    (mapSt f st).enterScope = mapSt f st.enterScope := by
  obtain ⟨ctxs, a, b, c, d⟩ := st
  cases ctxs with
  | nil => rfl
  | cons c cs => rfl

theorem mapSt_leaveScope (f : Text → Text) (st : RState) :
    (mapSt f st).leaveScope = mapSt f st.leaveScope := by
  obtain ⟨ctxs, a, b, c, d⟩ := st
  cases ctxs with
  | nil => rfl
  | cons c cs =>
    simp only [RState.leaveScope, mapSt, List.map_cons, mapCtx, List.map_tail]

theorem mapSt_defineParams (f : Text → Text) : ∀ (ps : List Text) (st : RState),
    defineParams (mapSt f st) (ps.map f) = (mapSt f (defineParams st ps).1, (defineParams st ps).2)
  | [], st => rfl
  | p :: ps, st => by
    simp only [List.map_cons, defineParams, mapSt_define, mapSt_defineParams f ps]

@[simp] theorem mapSt_loopDepth (f : Text → Text) (st : RState) : (mapSt f st).loopDepth = st.loopDepth := rfl
@[simp] theorem mapSt_funcDepth (f : Text → Text) (st : RState) : (mapSt f st).funcDepth = st.funcDepth := rfl
@[simp] theorem mapSt_nextId (f : Text → Text) (st : RState) : (mapSt f st).nextId = st.nextId := rfl
@[simp] theorem mapSt_nextFid (f : Text → Text) (st : RState) : (mapSt f st).nextFid = st.nextFid := rfl

theorem mapSt_empty (f : Text → Text) : mapSt f {} = {} := rfl

end Alpha
end Nl
