/- C08: every well-formed token is read back from its spelling. -/
import Nlmodel.Proofs.Lemmas.LexSep
namespace Nl
namespace LR

variable {cc : CharClass}

/-- tokens the renderer may be given: exactly those the tokenizer can produce, with the spelling it would read back -/
def WFTok (cc : CharClass) : Token → Prop
  | .ident s => (∃ c cs, s = c :: cs ∧ identStart cc c = true ∧ cs.all (identCont cc) = true) ∧ keywordOrIdent s = .ident s
  | .int s => (∃ c cs, s = c :: cs ∧ isDigit c = true ∧ cs.all isDigit = true)
  | .float s => ∃ c a b, s = c :: a ++ '.' :: b ∧ isDigit c = true ∧ a.all isDigit = true ∧ b.all isDigit = true
  | .str s => ∀ r, scanStr (s ++ '"' :: r) false = (s, '"' :: r)
  | .illegal => False
  | .eof => False
  | _ => True

/-- the character after a token must not extend it -/
def NoClash (cc : CharClass) (t : Token) (nx : Option Char) : Prop :=
  match nx with
  | none => True
  | some c =>
    (t.isWord = true → identCont cc c = false) ∧
    (t.isNum = true → isDigit c = false) ∧
    ((∃ s, t = .int s) → c ≠ '.') ∧
    ((t = .assign ∨ t = .bang ∨ t = .lt ∨ t = .gt) → c ≠ '=') ∧
    (t = .slash → c ≠ '/')

theorem takeWhile_all_append (p : Char → Bool) (cs r : Text) (hall : cs.all p = true) (hr : ∀ c, r.head? = some c → p c = false) :
    (cs ++ r).takeWhile p = cs ∧ (cs ++ r).dropWhile p = r := by
  induction cs with
  | nil =>
    cases r with
    | nil => simp
    | cons c r' => have := hr c rfl; simp [List.takeWhile, List.dropWhile, this]
  | cons c cs ih =>
    simp only [List.all_cons, Bool.and_eq_true] at hall
    simp [List.takeWhile, List.dropWhile, hall.1, ih hall.2]

/-- word tokens -/
theorem tok_word (h : CCWF cc) (c : Char) (cs r : Text) (hs : identStart cc c = true) (hall : cs.all (identCont cc) = true)
    (hr : ∀ d, r.head? = some d → identCont cc d = false) :
    tok cc (c :: cs ++ r) = some (keywordOrIdent (c :: cs), r) := by
  unfold tok
  simp only [List.cons_append, List.length_cons]
  rw [nextToken]
  obtain ⟨h1, h2⟩ := takeWhile_all_append (identCont cc) cs r hall hr
  simp [hs, h1, h2]

theorem scanNum_digits (ds r : Text) (d : Bool) (hall : ds.all isDigit = true)
    (hr : ∀ c, r.head? = some c → isDigit c = false ∧ (d = false → c ≠ '.')) :
    scanNum (ds ++ r) d = (ds, r, d) := by
  induction ds with
  | nil =>
    cases r with
    | nil => simp [scanNum]
    | cons c r' =>
      obtain ⟨h1, h2⟩ := hr c rfl
      simp only [List.nil_append, scanNum, h1, Bool.false_eq_true, ↓reduceIte]
      cases d with
      | false => simp [h2 rfl]
      | true => simp
  | cons c ds ih =>
    simp only [List.all_cons, Bool.and_eq_true] at hall
    simp only [List.cons_append, scanNum, hall.1, ↓reduceIte, ih hall.2]

theorem digit_facts (h : CCWF cc) (c : Char) (hd : isDigit c = true) : identStart cc c = false := by
  have h1 := h.digit_not_alpha c hd
  have h2 : c ≠ '_' := by
    intro e; subst e; revert hd; decide
  simp [identStart, h1, h2]

theorem tok_int (h : CCWF cc) (c : Char) (cs r : Text) (hc : isDigit c = true) (hall : cs.all isDigit = true)
    (hr : ∀ d, r.head? = some d → isDigit d = false ∧ d ≠ '.') :
    tok cc (c :: cs ++ r) = some (.int (c :: cs), r) := by
  unfold tok
  simp only [List.cons_append, List.length_cons]
  rw [nextToken]
  have := scanNum_digits cs r false hall (fun d hd => ⟨(hr d hd).1, fun _ => (hr d hd).2⟩)
  simp [digit_facts h c hc, hc, this]

theorem tok_float (h : CCWF cc) (c : Char) (a b r : Text) (hc : isDigit c = true) (ha : a.all isDigit = true) (hb : b.all isDigit = true)
    (hr : ∀ d, r.head? = some d → isDigit d = false) :
    tok cc (c :: a ++ '.' :: b ++ r) = some (.float (c :: a ++ '.' :: b), r) := by
  unfold tok
  simp only [List.cons_append, List.length_cons]
  rw [nextToken]
  have hb' := scanNum_digits b r true hb (fun d hd => ⟨hr d hd, fun e => by cases e⟩)
  have ha' : scanNum (a ++ '.' :: (b ++ r)) false = (a ++ '.' :: b, r, true) := by
    induction a with
    | nil => simp [scanNum, hb', show isDigit '.' = false by decide]
    | cons x a ih =>
      simp only [List.all_cons, Bool.and_eq_true] at ha
      simp only [List.cons_append, scanNum, ha.1, ↓reduceIte, ih ha.2]
  have e : a ++ '.' :: b ++ r = a ++ '.' :: (b ++ r) := by simp
  simp [digit_facts h c hc, hc, e, ha']

theorem tok_str (h : CCWF cc) (s r : Text) (hs : ∀ r, scanStr (s ++ '"' :: r) false = (s, '"' :: r)) :
    tok cc ('"' :: s ++ '"' :: r) = some (.str s, r) := by
  unfold tok
  simp only [List.cons_append, List.length_cons]
  rw [nextToken]
  have hq : cc.alnum '"' = false := h.punct_not '"' (by decide)
  have hal := not_alpha_of_not_alnum h '"' hq
  have h1 : identStart cc '"' = false := by simp [identStart, hal]
  have h2 : isDigit '"' = false := by decide
  simp [h1, h2, hs r]

theorem tok_punct (h : CCWF cc) (c : Char) (r : Text) (hc : c ∈ punctChars) (hq : c ≠ '"')
    (hcm : ¬ (c = '/' ∧ r.head? = some '/')) :
    tok cc (c :: r) = some ((punct c r.head?).1, if (punct c r.head?).2 then r.tail else r) := by
  have hal := not_alpha_of_not_alnum h c (h.punct_not c hc)
  have hfacts : c ≠ '_' ∧ isDigit c = false ∧ isWs c = false := by
    simp only [punctChars, List.mem_cons, List.not_mem_nil, or_false] at hc
    rcases hc with e | e | e | e | e | e | e | e | e | e | e | e | e | e | e | e | e | e | e | e | e | e | e <;> subst e <;> decide
  obtain ⟨f1, f2, f4⟩ := hfacts
  unfold tok
  simp only [List.length_cons]
  rw [nextToken]
  have h1 : identStart cc c = false := by simp [identStart, hal, f1]
  simp only [h1, f2, hq, f4, Bool.false_eq_true, ↓reduceIte, decide_false]
  split
  · rename_i hx
    simp only [Bool.and_eq_true, decide_eq_true_eq] at hx
    exact absurd hx hcm
  · rfl

theorem tok_kw (h : CCWF cc) (c : Char) (cs r : Text) (hc : c.isAlpha = true) (hall : cs.all Char.isAlpha = true)
    (hr : ∀ d, r.head? = some d → identCont cc d = false) :
    tok cc (c :: cs ++ r) = some (keywordOrIdent (c :: cs), r) := by
  apply tok_word h c cs r
  · simp [identStart, h.ascii_alpha c hc]
  · rw [List.all_eq_true] at hall ⊢
    intro x hx
    simp [identCont, h.alnum_of_alpha x (h.ascii_alpha x (hall x hx))]
  · exact hr

/-- every well-formed token is read back from its spelling, whatever follows that does not extend it -/
theorem tok_text (h : CCWF cc) (t : Token) (r : Text) (hw : WFTok cc t) (hn : NoClash cc t r.head?) :
    tok cc (t.text ++ r) = some (t, r) := by
  have hword : t.isWord = true → ∀ d, r.head? = some d → identCont cc d = false := by
    intro hw' d hd; rw [hd] at hn; exact hn.1 hw'
  have hne : ∀ (x : Char), (r.head? = some x → False) → ∀ d, r.head? = some d → d ≠ x := by
    intro x hx d hd e; subst e; exact hx hd
  cases t with
  | ident s =>
    obtain ⟨⟨c, cs, rfl, h1, h2⟩, hk⟩ := hw
    have := tok_word h c cs r h1 h2 (hword rfl)
    simp only [Token.text]; rw [this, hk]
  | int s =>
    obtain ⟨c, cs, rfl, h1, h2⟩ := hw
    simp only [Token.text]
    exact tok_int h c cs r h1 h2 (fun d hd => by rw [hd] at hn; exact ⟨hn.2.1 rfl, hn.2.2.1 ⟨_, rfl⟩⟩)
  | float s =>
    obtain ⟨c, a, b, rfl, h1, h2, h3⟩ := hw
    simp only [Token.text]
    exact tok_float h c a b r h1 h2 h3 (fun d hd => by rw [hd] at hn; exact hn.2.1 rfl)
  | str s =>
    simp only [Token.text]
    have := tok_str h s r hw
    simpa using this
  | kwIf => exact tok_kw h 'a' ['l', 's'] r (by decide) (by decide) (hword rfl)
  | kwElse => exact tok_kw h 'a' ['n', 'd', 'e', 'r', 's'] r (by decide) (by decide) (hword rfl)
  | kwReturn => exact tok_kw h 'a' ['n', 't', 'w', 'o', 'o', 'r', 'd'] r (by decide) (by decide) (hword rfl)
  | kwFunc => exact tok_kw h 'f' ['u', 'n', 'c', 't', 'i', 'e'] r (by decide) (by decide) (hword rfl)
  | kwWhile => exact tok_kw h 'z' ['o', 'l', 'a', 'n', 'g'] r (by decide) (by decide) (hword rfl)
  | kwDeclare => exact tok_kw h 's' ['t', 'e', 'l'] r (by decide) (by decide) (hword rfl)
  | kwTrue => exact tok_kw h 'j' ['a'] r (by decide) (by decide) (hword rfl)
  | kwFalse => exact tok_kw h 'n' ['e', 'e'] r (by decide) (by decide) (hword rfl)
  | kwBreak => exact tok_kw h 's' ['t', 'o', 'p'] r (by decide) (by decide) (hword rfl)
  | kwContinue => exact tok_kw h 'v' ['o', 'l', 'g', 'e', 'n', 'd', 'e'] r (by decide) (by decide) (hword rfl)
  | lte => have := tok_punct h '<' ('=' :: r) (by decide) (by decide) (by simp); simpa [punct, Token.text] using this
  | gte => have := tok_punct h '>' ('=' :: r) (by decide) (by decide) (by simp); simpa [punct, Token.text] using this
  | eq => have := tok_punct h '=' ('=' :: r) (by decide) (by decide) (by simp); simpa [punct, Token.text] using this
  | neq => have := tok_punct h '!' ('=' :: r) (by decide) (by decide) (by simp); simpa [punct, Token.text] using this
  | and => have := tok_punct h '&' ('&' :: r) (by decide) (by decide) (by simp); simpa [punct, Token.text] using this
  | or => have := tok_punct h '|' ('|' :: r) (by decide) (by decide) (by simp); simpa [punct, Token.text] using this
  | assign =>
    have hx : r.head? ≠ some '=' := by
      intro e; rw [e] at hn; exact hn.2.2.2.1 (.inl rfl) rfl
    have := tok_punct h '=' r (by decide) (by decide) (by simp)
    simpa [punct, hx, Token.text] using this
  | bang =>
    have hx : r.head? ≠ some '=' := by
      intro e; rw [e] at hn; exact hn.2.2.2.1 (.inr (.inl rfl)) rfl
    have := tok_punct h '!' r (by decide) (by decide) (by simp)
    simpa [punct, hx, Token.text] using this
  | lt =>
    have hx : r.head? ≠ some '=' := by
      intro e; rw [e] at hn; exact hn.2.2.2.1 (.inr (.inr (.inl rfl))) rfl
    have := tok_punct h '<' r (by decide) (by decide) (by simp)
    simpa [punct, hx, Token.text] using this
  | gt =>
    have hx : r.head? ≠ some '=' := by
      intro e; rw [e] at hn; exact hn.2.2.2.1 (.inr (.inr (.inr rfl))) rfl
    have := tok_punct h '>' r (by decide) (by decide) (by simp)
    simpa [punct, hx, Token.text] using this
  | slash =>
    have hx : r.head? ≠ some '/' := by
      intro e; rw [e] at hn; exact hn.2.2.2.2 rfl rfl
    have := tok_punct h '/' r (by decide) (by decide) (by simp [hx])
    simpa [punct, Token.text] using this
  | semi => have := tok_punct h ';' r (by decide) (by decide) (by simp); simpa [punct, Token.text] using this
  | comma => have := tok_punct h ',' r (by decide) (by decide) (by simp); simpa [punct, Token.text] using this
  | dot => have := tok_punct h '.' r (by decide) (by decide) (by simp); simpa [punct, Token.text] using this
  | lparen => have := tok_punct h '(' r (by decide) (by decide) (by simp); simpa [punct, Token.text] using this
  | rparen => have := tok_punct h ')' r (by decide) (by decide) (by simp); simpa [punct, Token.text] using this
  | lbrace => have := tok_punct h '{' r (by decide) (by decide) (by simp); simpa [punct, Token.text] using this
  | rbrace => have := tok_punct h '}' r (by decide) (by decide) (by simp); simpa [punct, Token.text] using this
  | lbracket => have := tok_punct h '[' r (by decide) (by decide) (by simp); simpa [punct, Token.text] using this
  | rbracket => have := tok_punct h ']' r (by decide) (by decide) (by simp); simpa [punct, Token.text] using this
  | minus => have := tok_punct h '-' r (by decide) (by decide) (by simp); simpa [punct, Token.text] using this
  | plus => have := tok_punct h '+' r (by decide) (by decide) (by simp); simpa [punct, Token.text] using this
  | star => have := tok_punct h '*' r (by decide) (by decide) (by simp); simpa [punct, Token.text] using this
  | caret => have := tok_punct h '^' r (by decide) (by decide) (by simp); simpa [punct, Token.text] using this
  | percent => have := tok_punct h '%' r (by decide) (by decide) (by simp); simpa [punct, Token.text] using this
  | illegal => exact hw.elim
  | eof => exact hw.elim

end LR
end Nl
