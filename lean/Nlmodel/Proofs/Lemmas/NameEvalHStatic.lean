/-
  The static rule `NameEvalH.declared` (on SOURCE trees, a stack of name lists) agrees with the resolver on the function-free
  stage-5 fragment `SimH.SHB` (heap values, builtins): the resolver accepts a program iff every identifier used as a variable is
  declared, and the only error it can give is the reference error (C09).
-/
import Nlmodel.Spec.NameEvalH
import Nlmodel.Proofs.Lemmas.NameEvalStatic
import Nlmodel.Proofs.Lemmas.ResolveHeap
namespace Nl
namespace NameEvalH
open Sim SimH
open NameEval (names resolve_none resolve_some enter_ld leave_ld define_ld Good good_ok good_error visible addName scopeAfter)

mutual
theorem sE : (e : Expr) → ∀ (ab : Bool) (scs : List (List (Text × Nat))) (st : RState),
    SHE ab e → Inv3 st scs → (ab = true → st.loopDepth ≠ 0) →
    Good (resolveE e st) (declE (names scs) e) (fun st' => Inv3 st' scs ∧ st'.loopDepth = st.loopDepth)
  | .int v, ab, scs, st, _, hinv, _ => by
    simp only [resolveE, declE]; exact ⟨rfl, hinv, rfl⟩
  | .bool b, ab, scs, st, _, hinv, _ => by
    simp only [resolveE, declE]; exact ⟨rfl, hinv, rfl⟩
  | .float x, ab, scs, st, _, hinv, _ => by
    simp only [resolveE, declE]; exact ⟨rfl, hinv, rfl⟩
  | .str s, ab, scs, st, _, hinv, _ => by
    simp only [resolveE, declE]; exact ⟨rfl, hinv, rfl⟩
  | .ident n, ab, scs, st, _, hinv, _ => by
    simp only [resolveE, declE]
    cases hr : st.resolve n with
    | none => exact ⟨rfl, (resolve_none st scs hinv n).1 hr⟩
    | some r => exact ⟨resolve_some st scs hinv n r hr, hinv, rfl⟩
  | .pre op r, ab, scs, st, hs, hinv, hl => by
    cases hs with
    | not _ _ hsr =>
      have ih := sE r ab scs st hsr hinv hl
      simp only [resolveE, declE]
      cases hr : resolveE r st with
      | error er => simp only [hr, good_error] at ih ⊢; exact ih
      | ok p =>
        obtain ⟨r1, st1⟩ := p
        simp only [hr, good_ok] at ih ⊢; exact ih
    | neg _ _ hsr =>
      have ih := sE r ab scs st hsr hinv hl
      simp only [resolveE, declE]
      cases hr : resolveE r st with
      | error er => simp only [hr, good_error] at ih ⊢; exact ih
      | ok p =>
        obtain ⟨r1, st1⟩ := p
        simp only [hr, good_ok] at ih ⊢; exact ih
    | negate _ _ hsr =>
      have ih := sE r ab scs st hsr hinv hl
      simp only [resolveE, declE]
      cases hr : resolveE r st with
      | error er => simp only [hr, good_error] at ih ⊢; exact ih
      | ok p =>
        obtain ⟨r1, st1⟩ := p
        simp only [hr, good_ok] at ih ⊢; exact ih
  | .assign (.ident n) r, ab, scs, st, hs, hinv, hl => by
    cases hs with
    | assign _ _ _ hsr =>
      have ih := sE r ab scs st hsr hinv hl
      simp only [resolveE, declE]
      cases hres : st.resolve n with
      | none =>
        exact ⟨rfl, by simp [(resolve_none st scs hinv n).1 hres]⟩
      | some ref =>
        have hv := resolve_some st scs hinv n ref hres
        simp only []
        cases hr : resolveE r st with
        | error er =>
          simp only [hr, good_error] at ih ⊢; exact ⟨ih.1, by simp [ih.2]⟩
        | ok p =>
          obtain ⟨r1, st1⟩ := p
          simp only [hr, good_ok] at ih ⊢
          exact ⟨by simp [hv, ih.1], ih.2⟩
  | .infix l op r, ab, scs, st, hs, hinv, hl => by
    cases hs with
    | bin _ _ _ _ bop hop hsl hsr =>
      have ihl := sE l ab scs st hsl hinv hl
      simp only [resolveE, declE]
      cases h1 : resolveE l st with
      | error er => simp only [h1, good_error] at ihl ⊢; exact ⟨ihl.1, by simp [ihl.2]⟩
      | ok p =>
        obtain ⟨l1, st1⟩ := p
        simp only [h1, good_ok] at ihl ⊢
        obtain ⟨hd1, hi1, hld1⟩ := ihl
        have ihr := sE r false scs st1 hsr hi1 (by simp)
        cases h2 : resolveE r st1 with
        | error er => simp only [h2, good_error] at ihr ⊢; exact ⟨ihr.1, by simp [ihr.2]⟩
        | ok q =>
          obtain ⟨r1, st2⟩ := q
          simp only [h2, hop, good_ok] at ihr ⊢
          exact ⟨by simp [hd1, ihr.1], ihr.2.1, by rw [ihr.2.2, hld1]⟩
  | .ifE c t e, ab, scs, st, hs, hinv, hl => by
    cases hs with
    | ifE _ _ _ _ hsc hst hse =>
      have ihc := sE c ab scs st hsc hinv hl
      simp only [resolveE, declE]
      cases h1 : resolveE c st with
      | error er => simp only [h1, good_error] at ihc ⊢; exact ⟨ihc.1, by simp [ihc.2]⟩
      | ok p =>
        obtain ⟨c1, st1⟩ := p
        simp only [h1, good_ok] at ihc ⊢
        obtain ⟨hd1, hi1, hld1⟩ := ihc
        have iht := sB t ab scs st1 hst hi1 (by rw [hld1]; exact hl)
        cases h2 : resolveB t st1 with
        | error er => simp only [h2, good_error] at iht ⊢; exact ⟨iht.1, by simp [iht.2]⟩
        | ok q =>
          obtain ⟨t1, st2⟩ := q
          simp only [h2, good_ok] at iht ⊢
          obtain ⟨hd2, hi2, hld2⟩ := iht
          have ihe := sO e ab scs st2 hse hi2 (by rw [hld2, hld1]; exact hl)
          cases h3 : resolveO e st2 with
          | error er => simp only [h3, good_error] at ihe ⊢; exact ⟨ihe.1, by simp [ihe.2]⟩
          | ok w =>
            obtain ⟨e1, st3⟩ := w
            simp only [h3, good_ok] at ihe ⊢
            exact ⟨by simp [hd1, hd2, ihe.1], ihe.2.1, by rw [ihe.2.2, hld2, hld1]⟩
  | .whileE c b, ab, scs, st, hs, hinv, hl => by
    cases hs with
    | whileE _ _ _ hsc hsb =>
      have ihc := sE c false scs { st with loopDepth := st.loopDepth + 1 } hsc
        (inv3_loop st scs _ hinv) (by simp)
      simp only [resolveE, declE]
      cases h1 : resolveE c { st with loopDepth := st.loopDepth + 1 } with
      | error er => simp only [h1, good_error] at ihc ⊢; exact ⟨ihc.1, by simp [ihc.2]⟩
      | ok p =>
        obtain ⟨c1, st1⟩ := p
        simp only [h1, good_ok] at ihc ⊢
        obtain ⟨hd1, hi1, hld1⟩ := ihc
        have ihb := sB b true scs st1 hsb hi1 (by intro _; rw [hld1]; simp)
        cases h2 : resolveB b st1 with
        | error er => simp only [h2, good_error] at ihb ⊢; exact ⟨ihb.1, by simp [ihb.2]⟩
        | ok q =>
          obtain ⟨b1, st2⟩ := q
          simp only [h2, good_ok] at ihb ⊢
          exact ⟨by simp [hd1, ihb.1], inv3_loop st2 scs _ ihb.2.1, by first | rfl | trivial⟩
  | .assign (.index a i) r, ab, scs, st, hs, hinv, hl => by
    cases hs with
    | assignIndex _ _ _ _ hsa hsi hsr =>
      have iha := sE a ab scs st hsa hinv hl
      simp only [resolveE, declE]
      cases h1 : resolveE a st with
      | error er => simp only [h1, good_error] at iha ⊢; exact ⟨iha.1, by simp [iha.2]⟩
      | ok p =>
        obtain ⟨a1, st1⟩ := p
        simp only [h1, good_ok] at iha ⊢
        obtain ⟨hd1, hi1, hld1⟩ := iha
        have ihi := sE i false scs st1 hsi hi1 (by simp)
        cases h2 : resolveE i st1 with
        | error er => simp only [h2, good_error] at ihi ⊢; exact ⟨ihi.1, by simp [ihi.2]⟩
        | ok q =>
          obtain ⟨i1, st2⟩ := q
          simp only [h2, good_ok] at ihi ⊢
          obtain ⟨hd2, hi2, hld2⟩ := ihi
          have ihr := sE r false scs st2 hsr hi2 (by simp)
          cases h3 : resolveE r st2 with
          | error er => simp only [h3, good_error] at ihr ⊢; exact ⟨ihr.1, by simp [ihr.2]⟩
          | ok w =>
            obtain ⟨r1, st3⟩ := w
            simp only [h3, good_ok] at ihr ⊢
            exact ⟨by simp [hd1, hd2, ihr.1], ihr.2.1, by rw [ihr.2.2, hld2, hld1]⟩
  | .index l i, ab, scs, st, hs, hinv, hl => by
    cases hs with
    | index _ _ _ hsl hsi =>
      have ihl := sE l ab scs st hsl hinv hl
      simp only [resolveE, declE]
      cases h1 : resolveE l st with
      | error er => simp only [h1, good_error] at ihl ⊢; exact ⟨ihl.1, by simp [ihl.2]⟩
      | ok p =>
        obtain ⟨l1, st1⟩ := p
        simp only [h1, good_ok] at ihl ⊢
        obtain ⟨hd1, hi1, hld1⟩ := ihl
        have ihr := sE i false scs st1 hsi hi1 (by simp)
        cases h2 : resolveE i st1 with
        | error er => simp only [h2, good_error] at ihr ⊢; exact ⟨ihr.1, by simp [ihr.2]⟩
        | ok q =>
          obtain ⟨i1, st2⟩ := q
          simp only [h2, good_ok] at ihr ⊢
          exact ⟨by simp [hd1, ihr.1], ihr.2.1, by rw [ihr.2.2, hld1]⟩
  | .arr vs, ab, scs, st, hs, hinv, hl => by
    cases hs with
    | arr _ _ hsv =>
      have ih := sEs vs scs st hsv hinv
      simp only [resolveE, declE]
      cases hr : resolveEs vs st with
      | error er => simp only [hr, good_error] at ih ⊢; exact ih
      | ok p =>
        obtain ⟨vs1, st1⟩ := p
        simp only [hr, good_ok] at ih ⊢; exact ih
  | .call f as, ab, scs, st, hs, hinv, hl => by
    cases hs with
    | builtin _ n _ b hb hsa =>
      have ih := sEs as scs st hsa hinv
      simp only [resolveE, declE, hb]
      cases hr : resolveEs as st with
      | error er => simp only [hr, good_error] at ih ⊢; exact ⟨ih.1, by simp [ih.2]⟩
      | ok p =>
        obtain ⟨as1, st1⟩ := p
        simp only [hr, good_ok] at ih ⊢
        exact ⟨by simp [ih.1], ih.2⟩
  | .func _ _ _, _, _, _, hs, _, _ => by cases hs
  | .assign (.infix _ _ _) _, _, _, _, hs, _, _ => by cases hs
  | .assign (.pre _ _) _, _, _, _, hs, _, _ => by cases hs
  | .assign (.int _) _, _, _, _, hs, _, _ => by cases hs
  | .assign (.float _) _, _, _, _, hs, _, _ => by cases hs
  | .assign (.bool _) _, _, _, _, hs, _, _ => by cases hs
  | .assign (.ifE _ _ _) _, _, _, _, hs, _, _ => by cases hs
  | .assign (.func _ _ _) _, _, _, _, hs, _, _ => by cases hs
  | .assign (.call _ _) _, _, _, _, hs, _, _ => by cases hs
  | .assign (.assign _ _) _, _, _, _, hs, _, _ => by cases hs
  | .assign (.str _) _, _, _, _, hs, _, _ => by cases hs
  | .assign (.arr _) _, _, _, _, hs, _, _ => by cases hs
  | .assign (.whileE _ _) _, _, _, _, hs, _, _ => by cases hs

theorem sEs : (es : Exprs) → ∀ (scs : List (List (Text × Nat))) (st : RState),
    SHEs es → Inv3 st scs →
    Good (resolveEs es st) (declEs (names scs) es) (fun st' => Inv3 st' scs ∧ st'.loopDepth = st.loopDepth)
  | .nil, scs, st, _, hinv => by
    simp only [resolveEs, declEs]; exact ⟨rfl, hinv, rfl⟩
  | .cons e es, scs, st, hs, hinv => by
    cases hs with
    | cons _ _ hse hses =>
      have ih1 := sE e false scs st hse hinv (by simp)
      simp only [resolveEs, declEs]
      cases h1 : resolveE e st with
      | error er => simp only [h1, good_error] at ih1 ⊢; exact ⟨ih1.1, by simp [ih1.2]⟩
      | ok p =>
        obtain ⟨e1, st1⟩ := p
        simp only [h1, good_ok] at ih1 ⊢
        obtain ⟨hd1, hi1, hld1⟩ := ih1
        have ih2 := sEs es scs st1 hses hi1
        cases h2 : resolveEs es st1 with
        | error er => simp only [h2, good_error] at ih2 ⊢; exact ⟨ih2.1, by simp [ih2.2]⟩
        | ok q =>
          obtain ⟨es1, st2⟩ := q
          simp only [h2, good_ok] at ih2 ⊢
          exact ⟨by simp [hd1, ih2.1], ih2.2.1, by rw [ih2.2.2, hld1]⟩

theorem sO : (o : OptBlock) → ∀ (ab : Bool) (scs : List (List (Text × Nat))) (st : RState),
    SHO ab o → Inv3 st scs → (ab = true → st.loopDepth ≠ 0) →
    Good (resolveO o st) (declO (names scs) o) (fun st' => Inv3 st' scs ∧ st'.loopDepth = st.loopDepth)
  | .none, ab, scs, st, _, hinv, _ => by
    simp only [resolveO, declO]; exact ⟨rfl, hinv, rfl⟩
  | .some b, ab, scs, st, hs, hinv, hl => by
    cases hs with
    | some _ _ hsb =>
      have ih := sB b ab scs st hsb hinv hl
      simp only [resolveO, declO]
      cases hb : resolveB b st with
      | error er => simp only [hb, good_error] at ih ⊢; exact ih
      | ok q =>
        obtain ⟨b1, st1⟩ := q
        simp only [hb, good_ok] at ih ⊢; exact ih

theorem sS : (s : Stmt) → ∀ (ab : Bool) (sc : List (Text × Nat)) (scs : List (List (Text × Nat))) (st : RState),
    SHS ab s → Inv3 st (sc :: scs) → (ab = true → st.loopDepth ≠ 0) →
    Good (resolveS s st) (declS (names (sc :: scs)) s)
      (fun st' => ∃ sc', Inv3 st' (sc' :: scs) ∧ names (sc' :: scs) = scopeAfter (names (sc :: scs)) s ∧
        st'.loopDepth = st.loopDepth)
  | .expr e, ab, sc, scs, st, hs, hinv, hl => by
    cases hs with
    | expr _ _ hse =>
      have ih := sE e ab (sc :: scs) st hse hinv hl
      simp only [resolveS, declS]
      cases hr : resolveE e st with
      | error er => simp only [hr, good_error] at ih ⊢; exact ih
      | ok p =>
        obtain ⟨e1, st1⟩ := p
        simp only [hr, good_ok] at ih ⊢
        exact ⟨ih.1, sc, ih.2.1, rfl, ih.2.2⟩
  | .letS n e, ab, sc, scs, st, hs, hinv, hl => by
    cases hs with
    | letS _ _ _ hse =>
      obtain ⟨_, hinv1⟩ := inv3_define st sc scs hinv n
      have hnm : names (((n, st.nextId) :: sc) :: scs) = addName (names (sc :: scs)) n := rfl
      have ih := sE e ab _ (st.define n).1 hse hinv1 (by rw [define_ld]; exact hl)
      rw [hnm, define_ld] at ih
      simp only [resolveS, declS]
      cases hr : resolveE e (st.define n).1 with
      | error er => simp only [hr, good_error] at ih ⊢; exact ih
      | ok p =>
        obtain ⟨e1, st1⟩ := p
        simp only [hr, good_ok] at ih ⊢
        exact ⟨ih.1, (n, st.nextId) :: sc, ih.2.1, rfl, ih.2.2⟩
  | .block b, ab, sc, scs, st, hs, hinv, hl => by
    cases hs with
    | block _ _ hsb =>
      have ih := sB b ab (sc :: scs) st hsb hinv hl
      simp only [resolveS, declS]
      cases hb : resolveB b st with
      | error er => simp only [hb, good_error] at ih ⊢; exact ih
      | ok q =>
        obtain ⟨b1, st1⟩ := q
        simp only [hb, good_ok] at ih ⊢
        exact ⟨ih.1, sc, ih.2.1, rfl, ih.2.2⟩
  | .brk, ab, sc, scs, st, hs, hinv, hl => by
    cases hs
    simp only [resolveS, declS, if_neg (hl rfl)]
    exact ⟨rfl, sc, hinv, rfl, rfl⟩
  | .cont, ab, sc, scs, st, hs, hinv, hl => by
    cases hs
    simp only [resolveS, declS, if_neg (hl rfl)]
    exact ⟨rfl, sc, hinv, rfl, rfl⟩
  | .ret _, _, _, _, _, hs, _, _ => by cases hs

theorem sSs : (b : Block) → ∀ (ab : Bool) (sc : List (Text × Nat)) (scs : List (List (Text × Nat))) (st : RState),
    SHB ab b → Inv3 st (sc :: scs) → (ab = true → st.loopDepth ≠ 0) →
    Good (resolveSs b st) (declSs (names (sc :: scs)) b)
      (fun st' => ∃ sc', Inv3 st' (sc' :: scs) ∧ st'.loopDepth = st.loopDepth)
  | .nil, ab, sc, scs, st, _, hinv, _ => by
    simp only [resolveSs, declSs]; exact ⟨rfl, sc, hinv, rfl⟩
  | .cons s rest, ab, sc, scs, st, hs, hinv, hl => by
    cases hs with
    | cons _ _ _ hss hsrest =>
      have ih1 := sS s ab sc scs st hss hinv hl
      simp only [resolveSs, declSs]
      cases hr : resolveS s st with
      | error er => simp only [hr, good_error] at ih1 ⊢; exact ⟨ih1.1, by simp [ih1.2]⟩
      | ok p =>
        obtain ⟨s1, st1⟩ := p
        simp only [hr, good_ok] at ih1 ⊢
        obtain ⟨hd1, sc1, hi1, hn1, hld1⟩ := ih1
        have ih2 := sSs rest ab sc1 scs st1 hsrest hi1 (by rw [hld1]; exact hl)
        rw [hn1] at ih2
        cases hr2 : resolveSs rest st1 with
        | error er => simp only [hr2, good_error] at ih2 ⊢; exact ⟨ih2.1, by simp [ih2.2]⟩
        | ok q =>
          obtain ⟨b1, st2⟩ := q
          simp only [hr2, good_ok] at ih2 ⊢
          obtain ⟨hd2, sc2, hi2, hld2⟩ := ih2
          exact ⟨by simp [hd1, hd2], sc2, hi2, by rw [hld2, hld1]⟩

theorem sB : (b : Block) → ∀ (ab : Bool) (scs : List (List (Text × Nat))) (st : RState),
    SHB ab b → Inv3 st scs → (ab = true → st.loopDepth ≠ 0) →
    Good (resolveB b st) (declSs ([] :: names scs) b) (fun st' => Inv3 st' scs ∧ st'.loopDepth = st.loopDepth)
  | .nil, ab, scs, st, _, hinv, _ => by
    simp only [resolveB, declSs]; exact ⟨rfl, hinv, rfl⟩
  | .cons s rest, ab, scs, st, hs, hinv, hl => by
    cases hs with
    | cons _ _ _ hss hsrest =>
      have hnm : names ([] :: scs) = [] :: names scs := rfl
      have ih1 := sS s ab [] scs st.enterScope hss (inv3_enter st scs hinv) (by rw [enter_ld]; exact hl)
      rw [hnm, enter_ld] at ih1
      simp only [resolveB, declSs]
      cases hr : resolveS s st.enterScope with
      | error er => simp only [hr, good_error] at ih1 ⊢; exact ⟨ih1.1, by simp [ih1.2]⟩
      | ok p =>
        obtain ⟨s1, st1⟩ := p
        simp only [hr, good_ok] at ih1 ⊢
        obtain ⟨hd1, sc1, hi1, hn1, hld1⟩ := ih1
        have ih2 := sSs rest ab sc1 scs st1 hsrest hi1 (by rw [hld1]; exact hl)
        rw [hn1] at ih2
        cases hr2 : resolveSs rest st1 with
        | error er => simp only [hr2, good_error] at ih2 ⊢; exact ⟨ih2.1, by simp [ih2.2]⟩
        | ok q =>
          obtain ⟨b1, st2⟩ := q
          simp only [hr2, good_ok] at ih2 ⊢
          obtain ⟨hd2, sc2, hi2, hld2⟩ := ih2
          exact ⟨by simp [hd1, hd2], inv3_leave st2 sc2 scs hi2, by rw [leave_ld, hld2, hld1]⟩
end

/-! ### the theorems about whole programs -/

/-- (a) for every program of the function-free stage-5 fragment (heap values): the resolver accepts it iff every identifier is declared,
    and the only error it can give is the reference error -/
theorem resolve_ok_iff_declared (ast : Block) (hs : SimH.SHB false ast) :
    (declared [[]] ast = true → ∃ r, resolveProgram ast = .ok r) ∧
    (declared [[]] ast = false → resolveProgram ast = .error .reference) := by
  have hinv : Inv3 ({} : RState) [[]] := ⟨⟨0, rfl⟩, by intro p hp; simp at hp⟩
  have h := sSs ast false [] [] {} hs hinv (by simp)
  have hnm : names [[]] = [[]] := rfl
  rw [hnm] at h
  unfold resolveProgram declared
  cases hr : resolveSs ast {} with
  | error er =>
    simp only [hr, good_error] at h ⊢
    obtain ⟨h1, h2⟩ := h
    subst h1
    exact ⟨(by intro h3; rw [h2] at h3; cases h3), fun _ => rfl⟩
  | ok q =>
    obtain ⟨b, st'⟩ := q
    simp only [hr, good_ok] at h ⊢
    exact ⟨fun _ => ⟨b, rfl⟩, by intro h3; rw [h.1] at h3; cases h3⟩

theorem resolve_error_iff_undeclared (ast : Block) (hs : SimH.SHB false ast) :
    (∃ e, resolveProgram ast = .error e) ↔ declared [[]] ast = false := by
  obtain ⟨h1, h2⟩ := resolve_ok_iff_declared ast hs
  constructor
  · rintro ⟨e, he⟩
    cases hd : declared [[]] ast with
    | false => rfl
    | true =>
      obtain ⟨r, hr⟩ := h1 hd
      rw [hr] at he; cases he
  · intro hd
    exact ⟨_, h2 hd⟩

theorem resolve_error_is_reference (ast : Block) (hs : SimH.SHB false ast) (e : Err)
    (h : resolveProgram ast = .error e) : e = .reference := by
  have hd := (resolve_error_iff_undeclared ast hs).1 ⟨e, h⟩
  have h2 := (resolve_ok_iff_declared ast hs).2 hd
  rw [h2] at h
  injection h with h
  exact h.symm

end NameEvalH
end Nl
