/- Stage 7, divergence preservation at program level: every function literal of a tree is less deep than the tree (so
   the depth of the program bounds the depth of every function body of its table), the top-level sequence, and the
   end-to-end statement for validated programs. -/
import Nlmodel.Proofs.Lemmas.Div7Stmt
import Nlmodel.Proofs.Lemmas.Sim7Check
namespace Nl
namespace Sim7
open Spec Sim Sim6
open SimH (AMap isStrCell isArrCell Grow PoolH MemOK sameKind LitF LitPool)
open SimF (FT FnInfo FTInj paramScope bigScope lookupD)

/-! ## literals are less deep than the tree they stand in -/

mutual
theorem lits_dE : (e : RExpr) → ∀ (Δ : Gam) (pos : Nat) (lp : LoopCtx) (cs : List Const) (q : Nat × FnInfo),
    q ∈ litsE Δ e pos lp cs → dB q.2.body < dE e
  | .int _, _, _, _, _, _, hq => by simp [litsE] at hq
  | .float _, _, _, _, _, _, hq => by simp [litsE] at hq
  | .str _, _, _, _, _, _, hq => by simp [litsE] at hq
  | .bool _, _, _, _, _, _, hq => by simp [litsE] at hq
  | .var _, _, _, _, _, _, hq => by simp [litsE] at hq
  | .not r, Δ, pos, lp, cs, q, hq => by
    simp only [litsE] at hq; have := lits_dE r _ _ _ _ q hq; simp only [dE]; omega
  | .neg r, Δ, pos, lp, cs, q, hq => by
    simp only [litsE] at hq; have := lits_dE r _ _ _ _ q hq; simp only [dE]; omega
  | .assignVar _ e, Δ, pos, lp, cs, q, hq => by
    simp only [litsE] at hq; have := lits_dE e _ _ _ _ q hq; simp only [dE]; omega
  | .assignIndex l i v, Δ, pos, lp, cs, q, hq => by
    simp only [litsE, List.mem_append] at hq
    rcases hq with h | h | h
    · have := lits_dE l _ _ _ _ q h; simp only [dE]; omega
    · have := lits_dE i _ _ _ _ q h; simp only [dE]; omega
    · have := lits_dE v _ _ _ _ q h; simp only [dE]; omega
  | .infix l op r, Δ, pos, lp, cs, q, hq => by
    simp only [litsE] at hq
    split at hq
    · simp at hq
    · rcases List.mem_append.mp hq with h | h
      · have := lits_dE l _ _ _ _ q h; simp only [dE]; omega
      · have := lits_dE r _ _ _ _ q h; simp only [dE]; omega
  | .ifE c t e, Δ, pos, lp, cs, q, hq => by
    simp only [litsE, List.mem_append] at hq
    rcases hq with h | h | h
    · have := lits_dE c _ _ _ _ q h; simp only [dE]; omega
    · have := lits_dB t _ _ _ _ q h; simp only [dE]; omega
    · have := lits_dO e _ _ _ _ q h; simp only [dE]; omega
  | .whileE c b, Δ, pos, lp, cs, q, hq => by
    simp only [litsE, List.mem_append] at hq
    rcases hq with h | h
    · have := lits_dE c _ _ _ _ q h; simp only [dE]; omega
    · have := lits_dB b _ _ _ _ q h; simp only [dE]; omega
  | .func fid _ ps nl body, Δ, pos, lp, cs, q, hq => by
    simp only [litsE, List.mem_cons] at hq
    rcases hq with h | h
    · subst h; simp only [dE]; omega
    · have := lits_dB body _ _ _ _ q h; simp only [dE]; omega
  | .call f as, Δ, pos, lp, cs, q, hq => by
    simp only [litsE, List.mem_append] at hq
    rcases hq with h | h
    · have := lits_dEs as _ _ _ _ q h; simp only [dE]; omega
    · have := lits_dE f _ _ _ _ q h; simp only [dE]; omega
  | .callBuiltin _ as, Δ, pos, lp, cs, q, hq => by
    simp only [litsE] at hq; have := lits_dEs as _ _ _ _ q hq; simp only [dE]; omega
  | .arr vs, Δ, pos, lp, cs, q, hq => by
    simp only [litsE] at hq; have := lits_dEs vs _ _ _ _ q hq; simp only [dE]; omega
  | .index l i, Δ, pos, lp, cs, q, hq => by
    simp only [litsE, List.mem_append] at hq
    rcases hq with h | h
    · have := lits_dE l _ _ _ _ q h; simp only [dE]; omega
    · have := lits_dE i _ _ _ _ q h; simp only [dE]; omega
theorem lits_dEs : (es : RExprs) → ∀ (Δ : Gam) (pos : Nat) (lp : LoopCtx) (cs : List Const) (q : Nat × FnInfo),
    q ∈ litsEs Δ es pos lp cs → dB q.2.body < dEs es
  | .nil, _, _, _, _, _, hq => by simp [litsEs] at hq
  | .cons e es, Δ, pos, lp, cs, q, hq => by
    simp only [litsEs, List.mem_append] at hq
    rcases hq with h | h
    · have := lits_dE e _ _ _ _ q h; simp only [dEs]; omega
    · have := lits_dEs es _ _ _ _ q h; simp only [dEs]; omega
theorem lits_dS : (s : RStmt) → ∀ (Δ : Gam) (pos : Nat) (lp : LoopCtx) (cs : List Const) (q : Nat × FnInfo),
    q ∈ litsS Δ s pos lp cs → dB q.2.body < dS s
  | .expr e, Δ, pos, lp, cs, q, hq => by
    simp only [litsS] at hq; have := lits_dE e _ _ _ _ q hq; simp only [dS]; omega
  | .letS _ e, Δ, pos, lp, cs, q, hq => by
    simp only [litsS] at hq; have := lits_dE e _ _ _ _ q hq; simp only [dS]; omega
  | .ret e, Δ, pos, lp, cs, q, hq => by
    simp only [litsS] at hq; have := lits_dE e _ _ _ _ q hq; simp only [dS]; omega
  | .block b, Δ, pos, lp, cs, q, hq => by
    simp only [litsS] at hq; have := lits_dB b _ _ _ _ q hq; simp only [dS]; omega
  | .brk, _, _, _, _, _, hq => by simp [litsS] at hq
  | .cont, _, _, _, _, _, hq => by simp [litsS] at hq
theorem lits_dB : (b : RBlock) → ∀ (Δ : Gam) (pos : Nat) (lp : LoopCtx) (cs : List Const) (q : Nat × FnInfo),
    q ∈ litsB Δ b pos lp cs → dB q.2.body < dB b
  | .nil, _, _, _, _, _, hq => by simp [litsB] at hq
  | .cons s b, Δ, pos, lp, cs, q, hq => by
    simp only [litsB, List.mem_append] at hq
    rcases hq with h | h
    · have := lits_dS s _ _ _ _ q h; simp only [dB]; omega
    · have := lits_dB b _ _ _ _ q h; simp only [dB]; omega
theorem lits_dO : (o : ROptBlock) → ∀ (Δ : Gam) (pos : Nat) (lp : LoopCtx) (cs : List Const) (q : Nat × FnInfo),
    q ∈ litsO Δ o pos lp cs → dB q.2.body < dO o
  | .none, _, _, _, _, _, hq => by simp [litsO] at hq
  | .some b, Δ, pos, lp, cs, q, hq => by
    simp only [litsO] at hq; have := lits_dB b _ _ _ _ q hq; simp only [dO]; omega
end

theorem litsTop_depth : (b : RBlock) → ∀ (Γ : Gam) (pos : Nat) (cs : List Const) (q : Nat × FnInfo),
    q ∈ litsTop Γ b pos cs → dB q.2.body < dB b
  | .nil, _, _, _, _, hq => by simp [litsTop] at hq
  | .cons s b, Γ, pos, cs, q, hq => by
    simp only [litsTop, List.mem_append] at hq
    rcases hq with h | h
    · have := lits_dS s _ _ _ _ q h; simp only [dB]; omega
    · have := litsTop_depth b _ _ _ q h; simp only [dB]; omega

/-! ## the top-level sequence -/

/-- one top-level statement that runs out of fuel -/
theorem dtop_step7 {W : World} {K : Nat} (hW : WOK7 W) (hK : KB W K) {Γ Γ2 : Gam} {s : RStmt} {rest : RBlock}
    (hy : ZTop7 Γ (.cons s rest) Γ2) (hok : GamOK Γ)
    {pos : Nat} {cs : List Const} (F : Nat) {μ : AMap} {st : SState} {g : Array Value} {l : Value} {m : Mem} {out : List Text}
    (hinv : Inv6 (W.at Γ) Γ [] 0 ⟨μ, st, pos, #[], #[], g, l, m, out⟩) (hwt : TI.WT (mk6 W.s0 pos #[] #[] #[] g l [] m out))
    (hcode : CodeAt W.C pos (emitS s pos none cs).1) (hext : Ext (emitS s pos none cs).2 W.CS) (hft : FtS W.ft (topDelta Γ s) s pos none cs)
    (hfuel : evalS F s st = .fuel) : DivG W.C (mk6 W.s0 pos #[] #[] #[] g l [] m out) (hb K F (dS s)) := by
  have hplain : ∀ {s : RStmt}, Z7S Γ 0 false Γ [] false s Γ [] → CodeAt W.C pos (emitS s pos none cs).1 → Ext (emitS s pos none cs).2 W.CS →
      FtS W.ft Γ s pos none cs → evalS F s st = .fuel → DivG W.C (mk6 W.s0 pos #[] #[] #[] g l [] m out) (hb K F (dS s)) := by
    intro s hs hcode hext hft hfuel
    have hsc : Sc7 (W.at Γ) Γ false Γ [] [] :=
      ⟨by simpa [bigScope] using hok, by simp [GamOK], by simp [bigScope], by intro p hp; simpa [bigScope, World.at] using hp,
       by intro p hp; simpa [World.at] using hp⟩
    exact (dall7 (hW.at Γ) (hK.at Γ) F).s 0 false Γ [] [] false s Γ [] hs ⟨μ, st, pos, #[], #[], g, l, m, out⟩ none cs #[] [] hsc
      (by simpa [bigScope] using hinv) hwt hcode hext hft hfuel
  cases hy with
  | exprS _ _ e _ he hr =>
    have hd := topDelta_expr he Γ
    rw [hd] at hft
    exact hplain (.expr _ _ _ e he) hcode hext hft hfuel
  | blockS _ _ b Γ1 Λ1 _ hb hr => exact hplain (.block _ _ _ b Γ1 Λ1 hb) hcode hext hft hfuel
  | letS _ _ b k e _ hf he hr =>
    cases F with
    | zero => rw [hb_zero (dS_pos _)]; exact DivG.zero _ _
    | succ F =>
      have hok' := gamOK_cons hok b k hf
      have hsub : ∀ p ∈ (W.at Γ).Γp, p ∈ (b, k) :: Γ := fun p hp => List.mem_cons_of_mem _ hp
      have hinv' : Inv6 (W.at ((b, k) :: Γ)) Γ [] 0 ⟨μ, st, pos, #[], #[], g, l, m, out⟩ := Inv6.grow (W := W.at Γ) hsub hinv
      have hinv0 := inv6_unbindG b k hf hinv' pos #[]
      have hsc : Sc7 (W.at ((b, k) :: Γ)) ((b, k) :: Γ) false ((b, k) :: Γ) [] [] :=
        ⟨by simpa [bigScope] using hok', by simp [GamOK], by simp [bigScope], by intro p hp; simpa [bigScope, World.at] using hp,
         by intro p hp; simpa [World.at] using hp⟩
      simp only [emitS, setVar] at hcode hext
      obtain ⟨hc1, hc2⟩ := hcode.append
      rw [evalS_let] at hfuel
      have hf0 := bindR_fuel_leaf (fun _ _ h => by cases h) hfuel
      have h1 := (dall7 (hW.at ((b, k) :: Γ)) (hK.at ((b, k) :: Γ)) F).e 0 false ((b, k) :: Γ) [] [] false e he
        ⟨μ, st.unbind ⟨b, .global k⟩, pos, #[], #[], g, l, m, out⟩ none cs #[] [] hsc (by simpa [bigScope] using hinv0) hwt hc1 hext hft.letS hf0
      exact h1.mono (hb_child (by simp only [dS]; omega))
  | fdef _ _ fid b k ps nlf body Γb Λb _ hf hb hpok hpsz hr =>
    have hF : F < 2 := by
      cases F with
      | zero => omega
      | succ F =>
        cases F with
        | zero => omega
        | succ F => simp [evalS, evalE] at hfuel
    rw [hb_lt (by simp only [dS, dE]; have := dB_pos body; omega)]; exact DivG.zero _ _

theorem dtop7 {W : World} {K : Nat} (hW : WOK7 W) (hK : KB W K) : ∀ (b : RBlock) {Γ Γ' : Gam}, ZTop7 Γ b Γ' → ∀ (pos : Nat) (cs : List Const),
    (∀ q ∈ litsTop Γ b pos cs, W.ft q.1 = some q.2) → GamOK Γ →
    ∀ (F : Nat) (μ : AMap) (st : SState) (g : Array Value) (l : Value) (m : Mem) (out : List Text),
    Inv6 (W.at Γ) Γ [] 0 ⟨μ, st, pos, #[], #[], g, l, m, out⟩ → TI.WT (mk6 W.s0 pos #[] #[] #[] g l [] m out) →
    CodeAt W.C pos (emitB b pos none cs).1 → Ext (emitB b pos none cs).2 W.CS →
    evalB F b st = .fuel → DivG W.C (mk6 W.s0 pos #[] #[] #[] g l [] m out) (hb K F (dB b))
  | .nil, Γ, _, hy, pos, cs, _, _, F, μ, st, g, l, m, out, hinv, _, _, _, hfuel => by
    cases F with
    | zero => rw [hb_zero (dB_pos _)]; exact DivG.zero _ _
    | succ F => simp [evalB] at hfuel
  | .cons s rest, Γ, Γ', hy, pos, cs, hD, hok, F, μ, st, g, l, m, out, hinv, hwt, hcode, hext, hfuel => by
    cases F with
    | zero => rw [hb_zero (dB_pos _)]; exact DivG.zero _ _
    | succ F =>
      obtain ⟨_, hr⟩ := ztop7_cons hy
      have hl := lay_b_cons hcode hext
      simp only [litsTop, List.forall_mem_append] at hD
      obtain ⟨h1, hok1⟩ := top_step hW hy hok F hinv hwt hl.1.1 hl.1.2 hD.1
      rw [evalB_cons] at hfuel
      cases hr1 : evalS F s st with
      | val u st1 =>
        rw [hr1] at h1 hfuel
        simp only [bindR] at hfuel
        rcases h1 with h1 | h1
        · exact .inl h1
        obtain ⟨μ1, g1, l1, m1, out1, n, hn, hinv1⟩ := h1
        have hwt1 := wt_execN n _ _ hwt hn
        have h2 := dtop7 hW hK rest hr _ _ hD.2 hok1 F μ1 st1 g1 l1 m1 out1 hinv1 hwt1 hl.2.1 hl.2.2 hfuel
        exact DivG.after hn (h2.mono (hb_child (by simp only [dB]; omega)))
      | fuel =>
        exact (dtop_step7 hW hK hy hok F hinv hwt hl.1.1 hl.1.2 hD.1 hr1).mono (hb_child (by simp only [dB]; omega))
      | err er st1 => rw [hr1] at hfuel; simp [bindR] at hfuel
      | unspec _ => rw [hr1] at hfuel; simp [bindR] at hfuel
      | brk _ => rw [hr1] at hfuel; simp [bindR] at hfuel
      | cont _ => rw [hr1] at hfuel; simp [bindR] at hfuel
      | ret _ _ => rw [hr1] at hfuel; simp [bindR] at hfuel

/-- DIVERGENCE PRESERVATION, stage 7, whole programs (same hypotheses as `top_program7`): with fuel `F` exhausted the
    machine makes at least `F / dB p` steps, or stops at its limit -/
theorem top_div7_steps (p : RBlock) (Γ' : Gam) (hy : ZTop7 [] p Γ')
    (hnd : (litsTop [] p 0 []).Pairwise (fun x y => x.1 ≠ y.1)) (bc : Bytecode) (hc : compileR p = .ok bc) (F : Nat)
    (hfuel : evalB F p {} = .fuel) : DivG bc.code (VM.start {} bc) (hb (dB p) F (dB p)) := by
  obtain ⟨hcode, hconsts, hwf⟩ := compile_general p bc hc
  have hall : CodeAt bc.code 0 ((emitB p 0 none []).1 ++ [.halt]) := ⟨hwf, [], [], by simp [hcode], rfl⟩
  obtain ⟨h1, hhalt⟩ := hall.append
  have hlit : LitPool bc.consts := by rw [hconsts]; exact ztop7_litpool p hy 0 [] (by intro k y hk; simp at hk)
  have hips : (litsTop [] p 0 []).Pairwise (fun x y => x.2.ip ≠ y.2.ip) := (ipsTop p [] 0 []).ne
  have hdep : ∀ q ∈ litsTop [] p 0 [], dB q.2.body ≤ dB p := fun q hq => Nat.le_of_lt (litsTop_depth p [] 0 [] q hq)
  generalize hDdef : litsTop [] p 0 [] = D at hnd hips hdep
  let W : World := { ft := lookupD D, Γp := [], C := bc.code, s0 := VM.start {} bc, CS := bc.consts }
  have hext : Ext (emitB p 0 none []).2 W.CS := by show Ext _ bc.consts; rw [hconsts]; exact Ext.refl _
  have hD : ∀ q ∈ D, W.ft q.1 = some q.2 := fun q hq => SimF.lookupD_of_mem D hnd q hq
  have hW : WOK7 W := by
    refine ⟨?_, ?_, (SimF.start_pool2 bc {}).2⟩
    · intro f1 f2 i1 i2 h1' h2' hip
      have m1 := SimF.lookupD_mem D f1 i1 h1'
      have m2 := SimF.lookupD_mem D f2 i2 h2'
      rcases List.mem_iff_getElem.mp m1 with ⟨a, ha, ea⟩
      rcases List.mem_iff_getElem.mp m2 with ⟨b, hb, eb⟩
      by_cases hab : a = b
      · subst hab; rw [ea] at eb; injection eb
      · exfalso
        rcases Nat.lt_or_gt_of_ne hab with hlt | hgt
        · have := (List.pairwise_iff_getElem.mp hips) a b ha hb hlt
          rw [ea, eb] at this; exact this hip
        · have := (List.pairwise_iff_getElem.mp hips) b a hb ha hgt
          rw [ea, eb] at this; exact this hip.symm
    · intro fid info hft
      have hall := ztop7_fnok (W := W) p hy 0 [] h1 hext (by rw [hDdef]; exact hD)
      rw [hDdef] at hall
      exact hall (fid, info) (SimF.lookupD_mem D fid info hft)
  have hK : KB W (dB p) := fun fid info hft => hdep (fid, info) (SimF.lookupD_mem D fid info hft)
  have hstart : mk6 W.s0 0 #[] #[] #[] #[] .null [] (VM.start {} bc).mem [] = VM.start {} bc := by
    simp [mk6, W, VM.start]
  have hinv0 : Inv6 (W.at []) [] [] 0 ⟨fun _ => none, {}, 0, #[], #[], #[], .null, (VM.start {} bc).mem, []⟩ :=
    ⟨fun _ _ hm => (by cases hm), fun _ _ hm => (by cases hm), trivial, rfl, rfl,
     ⟨⟨fun _ _ _ e => (by cases e), fun _ _ e => (by cases e), fun _ _ _ e => (by cases e), fun _ _ _ e => (by cases e)⟩,
      SimH.start_poolH bc hlit, SimH.start_mok bc⟩⟩
  have hwt0 : TI.WT (mk6 W.s0 0 #[] #[] #[] #[] .null [] (VM.start {} bc).mem []) := by
    rw [hstart]; exact TI.start_wt {} bc TI.wt_empty
  have hdiv := dtop7 hW hK p hy 0 [] (by rw [hDdef]; exact hD) (by simp [GamOK]) F (fun _ => none) {} #[] .null (VM.start {} bc).mem []
    hinv0 hwt0 h1 hext hfuel
  rw [hstart] at hdiv
  exact hdiv

/-- (T2, stage 7, on resolved programs) -/
theorem top_div7 (p : RBlock) (Γ' : Gam) (hy : ZTop7 [] p Γ')
    (hnd : (litsTop [] p 0 []).Pairwise (fun x y => x.1 ≠ y.1)) (bc : Bytecode) (hc : compileR p = .ok bc)
    (hdiv : ∀ F, evalB F p {} = .fuel) (n : Nat) : NoEnd bc n :=
  ((top_div7_steps p Γ' hy hnd bc hc (n * dB p + dB p) (hdiv _)).mono (hb_ge (Nat.le_refl _) (dB_pos p))).noEnd

/-- (T2, stage 7) DIVERGENCE PRESERVATION END TO END, nested function literals, by validation — the hypotheses of
    `C01_nested_functions_program`: if the definitional evaluation of the resolved program runs out of every fuel, then for
    every instruction budget `n` the run of the compiled program is over budget, or the machine stops at its stack/frame limit -/
theorem program_div7 (ast : Block) (r : RBlock) (bc : Bytecode) (hc : compileProgram ast = .ok (r, bc)) (hin : inFragment7 r = true)
    (hdiv : ∀ F, Spec.evalB F r {} = .fuel) (n : Nat) :
    (∃ s', runSteps bc.code n (VM.start {} bc) = .budget s') ∨
    HitsLimit bc := by
  obtain ⟨Γ', hy⟩ := inFragment7_sound r hin
  unfold compileProgram at hc
  cases hr : resolveProgram ast with
  | error e => simp [hr] at hc
  | ok r' =>
    simp only [hr] at hc
    cases hcr : compileR r' with
    | error e => simp [hcr] at hc
    | ok bc' =>
      simp only [hcr] at hc
      injection hc with hc; injection hc with h1 h2; subst h1; subst h2
      exact top_div7 r' Γ' hy (resolve_fids_distinct ast r' hr) bc' hcr hdiv n

end Sim7
end Nl
