/- Stage 7, property R1 of the resolver: whatever the resolver produces for a source program of the syntactic class `S7Top`
   (stage 6's class plus function literals in expression positions) is a stage-7 program (`ZTop7`). -/
import Nlmodel.Proofs.Lemmas.Resolve7Inv
namespace Nl
namespace Sim7
open Spec Sim Sim6
open SimH (LitF litFb litFb_sound)
open SimF (FT FnInfo paramScope paramScopeFrom LEq Scs lim gamOf lamOf msOf RefOK nonBuiltin fnEnter fnExit
  fusedCandidate_varL fusedCandidate_intL)

/-! ## helpers: the fragment only looks at the MEMBERS of the local scope; derived rules -/

mutual
theorem permE7 {Δ : Gam} (nl : Nat) (fn : Bool) : (e : RExpr) → ∀ (Γ Λ Λ' : Gam) (ab : Bool), LEq Λ Λ' → Z7E Δ nl fn Γ Λ ab e → Z7E Δ nl fn Γ Λ' ab e
  | .int v, Γ, Λ, Λ', ab, _, _ => .int _ _ _ v
  | .bool b, Γ, Λ, Λ', ab, _, _ => .bool _ _ _ b
  | .float x, Γ, Λ, Λ', ab, _, h => by cases h with | float _ _ _ _ hx => exact .float _ _ _ x hx
  | .str s, Γ, Λ, Λ', ab, _, _ => .str _ _ _ s
  | .not e, Γ, Λ, Λ', ab, hl, h => by
    cases h with
    | not _ _ _ _ he => exact .not _ _ _ e (permE7 nl fn e Γ Λ Λ' ab hl he)
  | .neg e, Γ, Λ, Λ', ab, hl, h => by
    cases h with
    | neg _ _ _ _ he => exact .neg _ _ _ e (permE7 nl fn e Γ Λ Λ' ab hl he)
  | .infix l op r, Γ, Λ, Λ', ab, hl, h => by
    cases h with
    | bin _ _ _ _ _ _ hfc h1 h2 => exact .bin _ _ _ l op r hfc (permE7 nl fn l Γ Λ Λ' ab hl h1) (permE7 nl fn r Γ Λ Λ' false hl h2)
    | fusedL _ _ _ b k _ v hm hk hfc => exact .fusedL _ _ _ b k op v ((hl _).1 hm) hk hfc
    | fusedR _ _ _ b k _ op' v hm hk hmo => exact .fusedR _ _ _ b k op op' v ((hl _).1 hm) hk hmo
  | .var r, Γ, Λ, Λ', ab, hl, h => by
    cases h with
    | varG _ _ _ b k hm => exact .varG _ _ _ b k hm
    | varL _ _ _ b k hm hk => exact .varL _ _ _ b k ((hl _).1 hm) hk
  | .assignVar r e, Γ, Λ, Λ', ab, hl, h => by
    cases h with
    | assignG _ _ _ b k _ hm he => exact .assignG _ _ _ b k e hm (permE7 nl fn e Γ Λ Λ' ab hl he)
    | assignL _ _ _ b k _ hm hk he => exact .assignL _ _ _ b k e ((hl _).1 hm) hk (permE7 nl fn e Γ Λ Λ' ab hl he)
  | .arr vs, Γ, Λ, Λ', ab, hl, h => by
    cases h with | arr _ _ _ _ hvs => exact .arr _ _ _ vs (permEs7 nl fn vs Γ Λ Λ' hl hvs)
  | .index l i, Γ, Λ, Λ', ab, hl, h => by
    cases h with
    | index _ _ _ _ _ h1 h2 => exact .index _ _ _ l i (permE7 nl fn l Γ Λ Λ' ab hl h1) (permE7 nl fn i Γ Λ Λ' false hl h2)
  | .assignIndex l i v, Γ, Λ, Λ', ab, hl, h => by
    cases h with
    | assignIndex _ _ _ _ _ _ h1 h2 h3 =>
      exact .assignIndex _ _ _ l i v (permE7 nl fn l Γ Λ Λ' ab hl h1) (permE7 nl fn i Γ Λ Λ' false hl h2) (permE7 nl fn v Γ Λ Λ' false hl h3)
  | .callBuiltin b as, Γ, Λ, Λ', ab, hl, h => by
    cases h with | builtin _ _ _ _ _ has => exact .builtin _ _ _ b as (permEs7 nl fn as Γ Λ Λ' hl has)
  | .ifE c t e, Γ, Λ, Λ', ab, hl, h => by
    cases h with
    | ifE _ _ _ _ _ _ Γ1 Λ1 hc ht he =>
      obtain ⟨Λ1', _, ht'⟩ := permB7 nl fn t Γ Λ Λ' ab Γ1 Λ1 hl ht
      exact .ifE _ _ _ c t e Γ1 Λ1' (permE7 nl fn c Γ Λ Λ' ab hl hc) ht' (permO7 nl fn e Γ Λ Λ' ab hl he)
  | .whileE c b, Γ, Λ, Λ', ab, hl, h => by
    cases h with
    | whileE _ _ _ _ _ Γ1 Λ1 hc hb =>
      obtain ⟨Λ1', _, hb'⟩ := permB7 nl fn b Γ Λ Λ' true Γ1 Λ1 hl hb
      exact .whileE _ _ _ c b Γ1 Λ1' (permE7 nl fn c Γ Λ Λ' false hl hc) hb'
  | .call f as, Γ, Λ, Λ', ab, hl, h => by
    cases h with
    | call _ _ _ _ _ has hf => exact .call _ _ _ f as (permEs7 nl fn as Γ Λ Λ' hl has) (permE7 nl fn f Γ Λ Λ' false hl hf)
  | .func fid self ps nlf body, Γ, Λ, Λ', ab, _, h => by
    cases h with
    | func _ _ _ _ _ _ _ Γb Λb hb hpok hpsz => exact .func _ _ _ fid ps nlf body Γb Λb hb hpok hpsz
theorem permEs7 {Δ : Gam} (nl : Nat) (fn : Bool) : (es : RExprs) → ∀ (Γ Λ Λ' : Gam), LEq Λ Λ' → Z7Es Δ nl fn Γ Λ es → Z7Es Δ nl fn Γ Λ' es
  | .nil, Γ, Λ, Λ', _, _ => .nil _ _
  | .cons e es, Γ, Λ, Λ', hl, h => by
    cases h with
    | cons _ _ _ _ he hes => exact .cons _ _ e es (permE7 nl fn e Γ Λ Λ' false hl he) (permEs7 nl fn es Γ Λ Λ' hl hes)
theorem permO7 {Δ : Gam} (nl : Nat) (fn : Bool) : (o : ROptBlock) → ∀ (Γ Λ Λ' : Gam) (ab : Bool), LEq Λ Λ' → Z7O Δ nl fn Γ Λ ab o → Z7O Δ nl fn Γ Λ' ab o
  | .none, Γ, Λ, Λ', ab, _, _ => .none _ _ _
  | .some b, Γ, Λ, Λ', ab, hl, h => by
    cases h with
    | some _ _ _ _ Γ1 Λ1 hb =>
      obtain ⟨Λ1', _, hb'⟩ := permB7 nl fn b Γ Λ Λ' ab Γ1 Λ1 hl hb
      exact .some _ _ _ b Γ1 Λ1' hb'
theorem permS7 {Δ : Gam} (nl : Nat) (fn : Bool) : (s : RStmt) → ∀ (Γ Λ Λ' : Gam) (ab : Bool) (Γ1 Λ1 : Gam), LEq Λ Λ' → Z7S Δ nl fn Γ Λ ab s Γ1 Λ1 →
    ∃ Λ1', LEq Λ1 Λ1' ∧ Z7S Δ nl fn Γ Λ' ab s Γ1 Λ1'
  | .expr e, Γ, Λ, Λ', ab, Γ1, Λ1, hl, h => by
    cases h with
    | expr _ _ _ _ he => exact ⟨Λ', hl, .expr _ _ _ e (permE7 nl fn e Γ Λ Λ' ab hl he)⟩
    | fdefG _ _ _ fid b k ps nlf body Γb Λb hfn hf hb hpok hpsz => exact ⟨Λ', hl, .fdefG _ _ _ fid b k ps nlf body Γb Λb hfn hf hb hpok hpsz⟩
    | fdefL _ _ _ fid b k ps nlf body Γb Λb hfn hf hk hb hpok hpsz =>
      exact ⟨(b, k) :: Λ', hl.cons _, .fdefL _ _ _ fid b k ps nlf body Γb Λb hfn (fun p hp => hf p ((hl p).2 hp)) hk hb hpok hpsz⟩
  | .letS r e, Γ, Λ, Λ', ab, Γ1, Λ1, hl, h => by
    cases h with
    | letG _ _ _ b k _ hfn hf he => exact ⟨Λ', hl, .letG _ _ _ b k e hfn hf (permE7 nl fn e _ Λ Λ' ab hl he)⟩
    | letL _ _ _ b k _ hfn hf hk he =>
      exact ⟨(b, k) :: Λ', hl.cons _, .letL _ _ _ b k e hfn (fun p hp => hf p ((hl p).2 hp)) hk
        (permE7 nl fn e Γ _ _ ab (hl.cons _) he)⟩
  | .block b, Γ, Λ, Λ', ab, Γ1, Λ1, hl, h => by
    cases h with
    | block _ _ _ _ Γ2 Λ2 hb =>
      obtain ⟨Λ2', _, hb'⟩ := permB7 nl fn b Γ Λ Λ' ab Γ2 Λ2 hl hb
      exact ⟨Λ', hl, .block _ _ _ b Γ2 Λ2' hb'⟩
  | .brk, Γ, Λ, Λ', ab, Γ1, Λ1, hl, h => by
    cases h with
    | brk => exact ⟨Λ', hl, .brk _ _⟩
  | .cont, Γ, Λ, Λ', ab, Γ1, Λ1, hl, h => by
    cases h with
    | cont => exact ⟨Λ', hl, .cont _ _⟩
  | .ret e, Γ, Λ, Λ', ab, Γ1, Λ1, hl, h => by
    cases h with
    | ret _ _ _ _ hfn he => exact ⟨Λ', hl, .ret _ _ _ e hfn (permE7 nl fn e Γ Λ Λ' ab hl he)⟩
theorem permB7 {Δ : Gam} (nl : Nat) (fn : Bool) : (b : RBlock) → ∀ (Γ Λ Λ' : Gam) (ab : Bool) (Γ1 Λ1 : Gam), LEq Λ Λ' → Z7B Δ nl fn Γ Λ ab b Γ1 Λ1 →
    ∃ Λ1', LEq Λ1 Λ1' ∧ Z7B Δ nl fn Γ Λ' ab b Γ1 Λ1'
  | .nil, Γ, Λ, Λ', ab, Γ1, Λ1, hl, h => by
    cases h with
    | nil => exact ⟨Λ', hl, .nil _ _ _⟩
  | .cons s b, Γ, Λ, Λ', ab, Γ1, Λ1, hl, h => by
    cases h with
    | cons _ _ _ Γ2 Λ2 _ _ _ _ hs hb =>
      obtain ⟨Λ2', hl2, hs'⟩ := permS7 nl fn s Γ Λ Λ' ab Γ2 Λ2 hl hs
      obtain ⟨Λ1', hl1, hb'⟩ := permB7 nl fn b Γ2 Λ2 Λ2' ab Γ1 Λ1 hl2 hb
      exact ⟨Λ1', hl1, .cons _ _ _ Γ2 Λ2' _ _ s b hs' hb'⟩
end

/-- derived rule: a binary operator on two expressions of the fragment is in the fragment, fused or not -/
theorem z7e_infix {Δ : Gam} {nl : Nat} {fn : Bool} {Γ Λ : Gam} {ab : Bool} (l : RExpr) (op : BinOp) (r : RExpr)
    (hl : Z7E Δ nl fn Γ Λ ab l) (hr : Z7E Δ nl fn Γ Λ false r) : Z7E Δ nl fn Γ Λ ab (.infix l op r) := by
  cases hfc : fusedCandidate l op r with
  | none => exact .bin _ _ _ l op r hfc hl hr
  | some p =>
    unfold fusedCandidate at hfc
    split at hfc
    · rename_i b k v
      cases hl with
      | varL _ _ _ _ _ hm hk =>
        have hfc' : fusedCandidate (.var ⟨b, .loc k⟩) op (.int v) = some p := by unfold fusedCandidate; exact hfc
        have hp := fusedCandidate_varL b k op v p hfc'
        subst hp
        exact .fusedL _ _ _ b k op v hm hk hfc'
    · rename_i v b k
      cases hr with
      | varL _ _ _ _ _ hm hk =>
        split at hfc
        · rename_i op' hmo; exact .fusedR _ _ _ b k op op' v hm hk hmo
        · cases hfc
    · cases hfc

/-! ## the source fragment of stage 7 -/

mutual
/-- source expressions of stage 7. `fn` = inside a function body; `lit` = a function literal may stand here (always inside a
    function body; at top level only outside blocks, where every visible global is persistent); `ab` as in `Z7E` -/
inductive S7E : Bool → Bool → Bool → Expr → Prop where
  | int {fn lit} (ab) (v : Int) : S7E fn lit ab (.int v)
  | bool {fn lit} (ab) (b : Bool) : S7E fn lit ab (.bool b)
  | float {fn lit} (ab) (x : UInt64) : LitF x → S7E fn lit ab (.float x)
  | str {fn lit} (ab) (s : Text) : S7E fn lit ab (.str s)
  | ident {fn lit} (ab) (n : Text) : S7E fn lit ab (.ident n)
  | not {fn lit} (ab) (e : Expr) : S7E fn lit ab e → S7E fn lit ab (.pre .not e)
  | neg {fn lit} (ab) (e : Expr) : S7E fn lit ab e → S7E fn lit ab (.pre .sub e)
  | negate {fn lit} (ab) (e : Expr) : S7E fn lit ab e → S7E fn lit ab (.pre .negate e)
  | bin {fn lit} (ab) (l : Expr) (op : Op) (r : Expr) (bop : BinOp) : opToBin op = some bop → S7E fn lit ab l → S7E fn lit false r → S7E fn lit ab (.infix l op r)
  | assign {fn lit} (ab) (n : Text) (e : Expr) : S7E fn lit ab e → S7E fn lit ab (.assign (.ident n) e)
  | assignIndex {fn lit} (ab) (a i v : Expr) : S7E fn lit ab a → S7E fn lit false i → S7E fn lit false v → S7E fn lit ab (.assign (.index a i) v)
  | arr {fn lit} (ab) (vs : Exprs) : S7Es fn lit vs → S7E fn lit ab (.arr vs)
  | index {fn lit} (ab) (l i : Expr) : S7E fn lit ab l → S7E fn lit false i → S7E fn lit ab (.index l i)
  /-- the resolver looks the NAME up among the builtins first, before any variable -/
  | builtin {fn lit} (ab) (n : Text) (as : Exprs) (b : Builtin) : Builtin.resolve n = some b → S7Es fn lit as → S7E fn lit ab (.call (.ident n) as)
  | call {fn lit} (ab) (f : Expr) (as : Exprs) : nonBuiltin f = true → S7Es fn lit as → S7E fn lit false f → S7E fn lit ab (.call f as)
  | ifE {fn lit} (ab) (c : Expr) (t : Block) (e : OptBlock) : S7E fn lit ab c → S7B fn ab t → S7O fn ab e → S7E fn lit ab (.ifE c t e)
  | whileE {fn lit} (ab) (c : Expr) (b : Block) : S7E fn lit false c → S7B fn true b → S7E fn lit ab (.whileE c b)
  /-- an ANONYMOUS function literal -/
  | func {fn lit} (ab) (ps : List Text) (body : Block) : (fn = true ∨ lit = true) → S7B true false body → S7E fn lit ab (.func [] ps body)
inductive S7Es : Bool → Bool → Exprs → Prop where
  | nil {fn lit} : S7Es fn lit .nil
  | cons {fn lit} (e : Expr) (es : Exprs) : S7E fn lit false e → S7Es fn lit es → S7Es fn lit (.cons e es)
inductive S7O : Bool → Bool → OptBlock → Prop where
  | none {fn} (ab) : S7O fn ab .none
  | some {fn} (ab) (b : Block) : S7B fn ab b → S7O fn ab (.some b)
/-- statements inside blocks and function bodies: function literals may stand in them iff we are in a function body -/
inductive S7S : Bool → Bool → Stmt → Prop where
  | expr {fn} (ab) (e : Expr) : S7E fn fn ab e → S7S fn ab (.expr e)
  | letS {fn} (ab) (n : Text) (e : Expr) : S7E fn fn ab e → S7S fn ab (.letS n e)
  | block {fn} (ab) (b : Block) : S7B fn ab b → S7S fn ab (.block b)
  | brk {fn} : S7S fn true .brk
  | cont {fn} : S7S fn true .cont
  | ret {fn} (ab) (e : Expr) : fn = true → S7E fn fn ab e → S7S fn ab (.ret e)
  /-- a NAMED function literal as a statement of a function body -/
  | fdef {fn} (ab) (name : Text) (ps : List Text) (body : Block) : fn = true → name.isEmpty = false → S7B true false body →
      S7S fn ab (.expr (.func name ps body))
inductive S7B : Bool → Bool → Block → Prop where
  | nil {fn} (ab) : S7B fn ab .nil
  | cons {fn} (ab) (s : Stmt) (b : Block) : S7S fn ab s → S7B fn ab b → S7B fn ab (.cons s b)
end

/-- source programs of stage 7: expression statements and `stel` with function literals anywhere outside blocks, blocks
    (no literals inside, unless inside a function body), `functie name(ps) { body }` -/
inductive S7Top : Block → Prop where
  | nil : S7Top .nil
  | exprS (e : Expr) (rest : Block) : S7E false true false e → S7Top rest → S7Top (.cons (.expr e) rest)
  | letS (n : Text) (e : Expr) (rest : Block) : S7E false true false e → S7Top rest → S7Top (.cons (.letS n e) rest)
  | blockS (b rest : Block) : S7B false false b → S7Top rest → S7Top (.cons (.block b) rest)
  | named (name : Text) (ps : List Text) (body rest : Block) : name.isEmpty = false → S7B true false body → S7Top rest →
      S7Top (.cons (.expr (.func name ps body)) rest)

/-- the persistent scope of the fragment is the global scope wherever a literal may stand -/
def DelOK (fn lit : Bool) (Δ : Gam) (gscs scs : Scs) : Prop := (fn = true → Δ = G gscs) ∧ (fn = false → lit = true → Δ = G scs)

theorem DelOK.ofFn {fn : Bool} {Δ : Gam} {gscs scs : Scs} (h : fn = true → Δ = G gscs) : DelOK fn fn Δ gscs scs :=
  ⟨h, fun h1 h2 => by rw [h1] at h2; cases h2⟩

/-- the conclusion for an expression: invariant kept, more slots handed out, tree in the fragment for every final slot count -/
def RPE7 (mid : List Ctx) (Δ : Gam) (fn ab : Bool) (scs gscs : Scs) (st : RState) (e' : RExpr) (st' : RState) : Prop :=
  RInv7 mid fn st' scs gscs ∧ lim fn st ≤ lim fn st' ∧ ∀ nl, lim fn st' ≤ nl → Z7E Δ nl fn (gamOf fn gscs scs) (lamOf fn scs) ab e'

theorem resolveE_anon (ps : List Text) (body : Block) (st : RState) :
    resolveE (.func [] ps body) st =
      match resolveB body (defineParams (fnEnter st) ps).1 with
      | .ok (b', st4) => .ok (.func st.nextFid none (defineParams (fnEnter st) ps).2 (msOf st4) b', fnExit st4 st)
      | .error e => .error e := by
  simp only [resolveE, List.isEmpty_nil, ↓reduceIte, fnEnter, fnExit]
  generalize resolveB body _ = x
  cases x <;> rfl

/-- entering and leaving a function literal, from a context of any depth: given what the resolver does on the body (the
    recursive call), the literal's body is a function body of the fragment over the persistent scope, and the state
    afterwards is the state before (with newer ids) -/
theorem func_exit7 {mid : List Ctx} {Δ : Gam} {fn lit : Bool} {scs gscs : Scs} {st1 : RState}
    (hinv : RInv7 mid fn st1 scs gscs) (hΔ : DelOK fn lit Δ gscs scs) (hcond : fn = true ∨ lit = true)
    (ps : List Text) (body : Block) (b' : RBlock) (st4 : RState)
    (ih : ∀ (mid' : List Ctx) (gscs' : Scs) (psc : List (Text × Nat)), RInv7 mid' true (defineParams (fnEnter st1) ps).1 [psc] gscs' → Δ = G gscs' →
      RInv7 mid' true st4 [psc] gscs' ∧ lim true (defineParams (fnEnter st1) ps).1 ≤ lim true st4 ∧
        ∀ nl, lim true st4 ≤ nl → ∃ Γ1 Λ1, Z7B Δ nl true (gamOf true gscs' [psc]) (lamOf true [psc]) false b' Γ1 Λ1) :
    (∃ Γb Λb, Z7B Δ (msOf st4) true Δ (paramScope (defineParams (fnEnter st1) ps).2) false b' Γb Λb) ∧
    GamOK (paramScope (defineParams (fnEnter st1) ps).2) ∧
    (∀ p ∈ paramScope (defineParams (fnEnter st1) ps).2, p.2 < msOf st4) ∧
    RInv7 mid fn (fnExit st4 st1) scs gscs ∧ lim fn (fnExit st4 st1) = lim fn st1 := by
  -- the inner context stack and global scopes
  have key : ∃ (mid' : List Ctx) (gscs' : Scs), RInv7 mid' true (fnEnter st1) [[]] gscs' ∧ Δ = G gscs' ∧
      (∀ (psc : List (Text × Nat)) (st4 : RState), RInv7 mid' true st4 [psc] gscs' →
        RInv7 mid fn (fnExit st4 st1) scs gscs ∧ lim fn (fnExit st4 st1) = lim fn st1) := by
    cases fn with
    | false =>
      obtain ⟨gms, hs⟩ := hinv.shapeF rfl
      have hlit : lit = true := by
        rcases hcond with h | h
        · cases h
        · exact h
      refine ⟨[], scs, ?_, hΔ.2 rfl hlit, ?_⟩
      · refine ⟨(fun hc => by cases hc), fun _ => ⟨0, gms, (by simp [fnEnter, hs]), (by simp), ?_⟩, (by simp), (by simp)⟩
        intro p hp
        exact hinv.fresh p hp
      · intro psc st4 h4
        obtain ⟨ms4, gms4, hs4, _, hg4⟩ := h4.shapeT rfl
        refine ⟨⟨fun _ => ⟨gms4, (by simp [fnExit, hs4])⟩, (fun hc => by cases hc), ?_, (fun hc => by cases hc)⟩, rfl⟩
        intro p hp; exact hg4 p hp
    | true =>
      obtain ⟨ms, gms, hs, hle, hg⟩ := hinv.shapeT rfl
      refine ⟨{ isGlobal := false, maxSize := ms, scopes := scs } :: mid, gscs, ?_, hΔ.1 rfl, ?_⟩
      · refine ⟨(fun hc => by cases hc), fun _ => ⟨0, gms, (by simp [fnEnter, hs]), (by simp), ?_⟩, (by simp), ?_⟩
        · intro p hp; exact hg p hp
        · intro _ c hc p hp
          rcases List.mem_cons.mp hc with rfl | hc
          · exact hinv.fresh p hp
          · exact hinv.midf rfl c hc p hp
      · intro psc st4 h4
        obtain ⟨ms4, gms4, hs4, _, hg4⟩ := h4.shapeT rfl
        refine ⟨⟨(fun hc => by cases hc), fun _ => ⟨ms, gms4, (by simp [fnExit, hs4]), hle, hg4⟩, ?_, ?_⟩, by simp [lim, msOf, fnExit, hs4, hs]⟩
        · intro p hp
          exact h4.midf rfl _ List.mem_cons_self p hp
        · intro _ c hc p hp
          exact h4.midf rfl c (List.mem_cons_of_mem _ hc) p hp
  obtain ⟨mid', gscs', h2, hd, hexit⟩ := key
  obtain ⟨psc, h3, hleq, hlen, hok, hbd⟩ := rinv7_params ps (fnEnter st1) [] gscs' h2
  obtain ⟨h4, hle, hyb⟩ := ih mid' gscs' psc h3 hd
  obtain ⟨Γ1, Λ1, hy⟩ := hyb (msOf st4) (Nat.le_refl _)
  have hleq' : LEq (lamOf true [psc]) (paramScope (defineParams (fnEnter st1) ps).2) := by
    intro q
    have := hleq q
    simpa [lamOf, paramScope, G, slotsOf] using this
  obtain ⟨Λ1', _, hy'⟩ := permB7 (msOf st4) true b' (gamOf true gscs' [psc]) _ _ false Γ1 Λ1 hleq' hy
  have hgam : gamOf true gscs' [psc] = Δ := by rw [hd]; rfl
  rw [hgam] at hy'
  refine ⟨⟨Γ1, Λ1', hy'⟩, hok, ?_, hexit psc st4 h4⟩
  intro q hq
  have h1 := (hbd q hq).2.1
  obtain ⟨ms3, gms3, hs3, hle3, _⟩ := h3.shapeT rfl
  have : lim true (defineParams (fnEnter st1) ps).1 = ms3 := by simp [lim, msOf, hs3]
  have hle' : ms3 ≤ msOf st4 := by rw [← this]; exact hle
  simp only [List.flatten_cons, List.flatten_nil, List.append_nil] at hle3
  simp only [List.length_nil] at h1 hlen
  omega

/-! ## R1 for expressions, statements, blocks -/

/- by induction on a bound of the size of the source tree (one step lemma per statement) -/

def Q7E (n : Nat) : Prop := ∀ (e : Expr), sizeOf e ≤ n → ∀ (mid : List Ctx) (Δ : Gam) (fn lit ab : Bool) (scs gscs : Scs) (st : RState) (e' : RExpr) (st' : RState),
    S7E fn lit ab e → DelOK fn lit Δ gscs scs → RInv7 mid fn st scs gscs → resolveE e st = .ok (e', st') → RPE7 mid Δ fn ab scs gscs st e' st'

def Q7Es (n : Nat) : Prop := ∀ (es : Exprs), sizeOf es ≤ n → ∀ (mid : List Ctx) (Δ : Gam) (fn lit : Bool) (scs gscs : Scs) (st : RState) (es' : RExprs) (st' : RState),
    S7Es fn lit es → DelOK fn lit Δ gscs scs → RInv7 mid fn st scs gscs → resolveEs es st = .ok (es', st') →
    RInv7 mid fn st' scs gscs ∧ lim fn st ≤ lim fn st' ∧ ∀ nl, lim fn st' ≤ nl → Z7Es Δ nl fn (gamOf fn gscs scs) (lamOf fn scs) es'

def Q7O (n : Nat) : Prop := ∀ (o : OptBlock), sizeOf o ≤ n → ∀ (mid : List Ctx) (Δ : Gam) (fn ab : Bool) (scs gscs : Scs) (st : RState) (o' : ROptBlock) (st' : RState),
    S7O fn ab o → (fn = true → Δ = G gscs) → RInv7 mid fn st scs gscs → resolveO o st = .ok (o', st') →
    RInv7 mid fn st' scs gscs ∧ lim fn st ≤ lim fn st' ∧ ∀ nl, lim fn st' ≤ nl → Z7O Δ nl fn (gamOf fn gscs scs) (lamOf fn scs) ab o'

def Q7S (n : Nat) : Prop := ∀ (s : Stmt), sizeOf s ≤ n → ∀ (mid : List Ctx) (Δ : Gam) (fn ab : Bool) (sc : List (Text × Nat)) (scs gscs : Scs) (st : RState) (s' : RStmt) (st' : RState),
    S7S fn ab s → (fn = true → Δ = G gscs) → RInv7 mid fn st (sc :: scs) gscs → resolveS s st = .ok (s', st') →
    ∃ sc', RInv7 mid fn st' (sc' :: scs) gscs ∧ lim fn st ≤ lim fn st' ∧
      ∀ nl, lim fn st' ≤ nl → Z7S Δ nl fn (gamOf fn gscs (sc :: scs)) (lamOf fn (sc :: scs)) ab s' (gamOf fn gscs (sc' :: scs)) (lamOf fn (sc' :: scs))

def Q7Ss (n : Nat) : Prop := ∀ (b : Block), sizeOf b ≤ n → ∀ (mid : List Ctx) (Δ : Gam) (fn ab : Bool) (sc : List (Text × Nat)) (scs gscs : Scs) (st : RState) (b' : RBlock) (st' : RState),
    S7B fn ab b → (fn = true → Δ = G gscs) → RInv7 mid fn st (sc :: scs) gscs → resolveSs b st = .ok (b', st') →
    ∃ sc', RInv7 mid fn st' (sc' :: scs) gscs ∧ lim fn st ≤ lim fn st' ∧
      ∀ nl, lim fn st' ≤ nl → Z7B Δ nl fn (gamOf fn gscs (sc :: scs)) (lamOf fn (sc :: scs)) ab b' (gamOf fn gscs (sc' :: scs)) (lamOf fn (sc' :: scs))

def Q7B (n : Nat) : Prop := ∀ (b : Block), sizeOf b ≤ n → ∀ (mid : List Ctx) (Δ : Gam) (fn ab : Bool) (scs gscs : Scs) (st : RState) (b' : RBlock) (st' : RState),
    S7B fn ab b → (fn = true → Δ = G gscs) → RInv7 mid fn st scs gscs → resolveB b st = .ok (b', st') →
    RInv7 mid fn st' scs gscs ∧ lim fn st ≤ lim fn st' ∧
      ∀ nl, lim fn st' ≤ nl → ∃ Γ1 Λ1, Z7B Δ nl fn (gamOf fn gscs scs) (lamOf fn scs) ab b' Γ1 Λ1

structure R7All (n : Nat) : Prop where
  e : Q7E n
  es : Q7Es n
  o : Q7O n
  s : Q7S n
  ss : Q7Ss n
  b : Q7B n

theorem r7E_succ {n : Nat} (ih : R7All n) : Q7E (n + 1)
  | .int v, hsz, mid, Δ, fn, lit, ab, scs, gscs, st, e', st', _, hΔ, hinv, h => by
    simp only [resolveE] at h; injection h with h; injection h with h1 h2; subst h1; subst h2
    exact ⟨hinv, Nat.le_refl _, fun nl _ => .int _ _ _ v⟩
  | .bool b, hsz, mid, Δ, fn, lit, ab, scs, gscs, st, e', st', _, hΔ, hinv, h => by
    simp only [resolveE] at h; injection h with h; injection h with h1 h2; subst h1; subst h2
    exact ⟨hinv, Nat.le_refl _, fun nl _ => .bool _ _ _ b⟩
  | .float x, hsz, mid, Δ, fn, lit, ab, scs, gscs, st, e', st', hs, hΔ, hinv, h => by
    simp only [resolveE] at h; injection h with h; injection h with h1 h2; subst h1; subst h2
    cases hs with
    | float _ _ hl => exact ⟨hinv, Nat.le_refl _, fun nl _ => .float _ _ _ x hl⟩
  | .str s, hsz, mid, Δ, fn, lit, ab, scs, gscs, st, e', st', _, hΔ, hinv, h => by
    simp only [resolveE] at h; injection h with h; injection h with h1 h2; subst h1; subst h2
    exact ⟨hinv, Nat.le_refl _, fun nl _ => .str _ _ _ s⟩
  | .ident n, hsz, mid, Δ, fn, lit, ab, scs, gscs, st, e', st', _, hΔ, hinv, h => by
    simp only [resolveE] at h
    cases hr : st.resolve n with
    | none => simp [hr] at h
    | some r =>
      simp only [hr] at h
      injection h with h; injection h with h1 h2; subst h1; subst h2
      exact ⟨hinv, Nat.le_refl _, fun nl hnl => z7e_var r (rinv7_resolve fn st scs gscs hinv n r hr nl hnl)⟩
  | .pre op r, hsz, mid, Δ, fn, lit, ab, scs, gscs, st, e', st', hs, hΔ, hinv, h => by
    simp only [resolveE] at h
    cases hr : resolveE r st with
    | error er => simp [hr] at h
    | ok p =>
      obtain ⟨r1, st1⟩ := p
      simp only [hr] at h
      cases hs with
      | not _ _ hsr =>
        injection h with h; injection h with h1 h2; subst h1; subst h2
        obtain ⟨hi, hle, hx⟩ := ih.e r (by simp at hsz; omega) mid Δ fn lit ab scs gscs st r1 st1 hsr hΔ hinv hr
        exact ⟨hi, hle, fun nl hnl => .not _ _ _ r1 (hx nl hnl)⟩
      | neg _ _ hsr =>
        injection h with h; injection h with h1 h2; subst h1; subst h2
        obtain ⟨hi, hle, hx⟩ := ih.e r (by simp at hsz; omega) mid Δ fn lit ab scs gscs st r1 st1 hsr hΔ hinv hr
        exact ⟨hi, hle, fun nl hnl => .neg _ _ _ r1 (hx nl hnl)⟩
      | negate _ _ hsr =>
        injection h with h; injection h with h1 h2; subst h1; subst h2
        obtain ⟨hi, hle, hx⟩ := ih.e r (by simp at hsz; omega) mid Δ fn lit ab scs gscs st r1 st1 hsr hΔ hinv hr
        exact ⟨hi, hle, fun nl hnl => .neg _ _ _ r1 (hx nl hnl)⟩
  | .assign (.ident n) r, hsz, mid, Δ, fn, lit, ab, scs, gscs, st, e', st', hs, hΔ, hinv, h => by
    cases hs with
    | assign _ _ _ hsr =>
      simp only [resolveE] at h
      cases hres : st.resolve n with
      | none => simp [hres] at h
      | some ref =>
        simp only [hres] at h
        cases hr : resolveE r st with
        | error er => simp [hr] at h
        | ok p =>
          obtain ⟨r1, st1⟩ := p
          simp only [hr] at h
          injection h with h; injection h with h1 h2; subst h1; subst h2
          obtain ⟨hi, hle, hx⟩ := ih.e r (by simp at hsz; omega) mid Δ fn lit ab scs gscs st r1 st1 hsr hΔ hinv hr
          exact ⟨hi, hle, fun nl hnl => z7e_assign ref r1 (rinv7_resolve fn st scs gscs hinv n ref hres nl (Nat.le_trans hle hnl)) (hx nl hnl)⟩
  | .assign (.index a i) r, hsz, mid, Δ, fn, lit, ab, scs, gscs, st, e', st', hs, hΔ, hinv, h => by
    cases hs with
    | assignIndex _ _ _ _ hsa hsi hsr =>
      simp only [resolveE] at h
      cases ha : resolveE a st with
      | error er => simp [ha] at h
      | ok p =>
        obtain ⟨a1, st1⟩ := p
        simp only [ha] at h
        obtain ⟨hi1, hle1, hxa⟩ := ih.e a (by simp at hsz; omega) mid Δ fn lit ab scs gscs st a1 st1 hsa hΔ hinv ha
        cases hi : resolveE i st1 with
        | error er => simp [hi] at h
        | ok q =>
          obtain ⟨i1, st2⟩ := q
          simp only [hi] at h
          obtain ⟨hi2, hle2, hxi⟩ := ih.e i (by simp at hsz; omega) mid Δ fn lit false scs gscs st1 i1 st2 hsi hΔ hi1 hi
          cases hr : resolveE r st2 with
          | error er => simp [hr] at h
          | ok w =>
            obtain ⟨r1, st3⟩ := w
            simp only [hr] at h
            injection h with h; injection h with h1 h2; subst h1; subst h2
            obtain ⟨hi3, hle3, hxr⟩ := ih.e r (by simp at hsz; omega) mid Δ fn lit false scs gscs st2 r1 st3 hsr hΔ hi2 hr
            exact ⟨hi3, Nat.le_trans hle1 (Nat.le_trans hle2 hle3), fun nl hnl =>
              .assignIndex _ _ _ a1 i1 r1 (hxa nl (Nat.le_trans hle2 (Nat.le_trans hle3 hnl))) (hxi nl (Nat.le_trans hle3 hnl)) (hxr nl hnl)⟩
  | .infix l op r, hsz, mid, Δ, fn, lit, ab, scs, gscs, st, e', st', hs, hΔ, hinv, h => by
    cases hs with
    | bin _ _ _ _ bop hop hsl hsr =>
      simp only [resolveE] at h
      cases hl : resolveE l st with
      | error er => simp [hl] at h
      | ok p =>
        obtain ⟨l1, st1⟩ := p
        simp only [hl] at h
        obtain ⟨hi1, hle1, hxl⟩ := ih.e l (by simp at hsz; omega) mid Δ fn lit ab scs gscs st l1 st1 hsl hΔ hinv hl
        cases hr : resolveE r st1 with
        | error er => simp [hr] at h
        | ok q =>
          obtain ⟨r1, st2⟩ := q
          simp only [hr, hop] at h
          injection h with h; injection h with h1 h2; subst h1; subst h2
          obtain ⟨hi2, hle2, hxr⟩ := ih.e r (by simp at hsz; omega) mid Δ fn lit false scs gscs st1 r1 st2 hsr hΔ hi1 hr
          exact ⟨hi2, Nat.le_trans hle1 hle2, fun nl hnl => z7e_infix l1 bop r1 (hxl nl (Nat.le_trans hle2 hnl)) (hxr nl hnl)⟩
  | .arr vs, hsz, mid, Δ, fn, lit, ab, scs, gscs, st, e', st', hs, hΔ, hinv, h => by
    cases hs with
    | arr _ _ hsv =>
      simp only [resolveE] at h
      cases hv : resolveEs vs st with
      | error er => simp [hv] at h
      | ok p =>
        obtain ⟨vs1, st1⟩ := p
        simp only [hv] at h
        injection h with h; injection h with h1 h2; subst h1; subst h2
        obtain ⟨hi, hle, hx⟩ := ih.es vs (by simp at hsz; omega) mid Δ fn lit scs gscs st vs1 st1 hsv hΔ hinv hv
        exact ⟨hi, hle, fun nl hnl => .arr _ _ _ vs1 (hx nl hnl)⟩
  | .index l i, hsz, mid, Δ, fn, lit, ab, scs, gscs, st, e', st', hs, hΔ, hinv, h => by
    cases hs with
    | index _ _ _ hsl hsi =>
      simp only [resolveE] at h
      cases hl : resolveE l st with
      | error er => simp [hl] at h
      | ok p =>
        obtain ⟨l1, st1⟩ := p
        simp only [hl] at h
        obtain ⟨hi1, hle1, hxl⟩ := ih.e l (by simp at hsz; omega) mid Δ fn lit ab scs gscs st l1 st1 hsl hΔ hinv hl
        cases hr : resolveE i st1 with
        | error er => simp [hr] at h
        | ok q =>
          obtain ⟨i1, st2⟩ := q
          simp only [hr] at h
          injection h with h; injection h with h1 h2; subst h1; subst h2
          obtain ⟨hi2, hle2, hxi⟩ := ih.e i (by simp at hsz; omega) mid Δ fn lit false scs gscs st1 i1 st2 hsi hΔ hi1 hr
          exact ⟨hi2, Nat.le_trans hle1 hle2, fun nl hnl => .index _ _ _ l1 i1 (hxl nl (Nat.le_trans hle2 hnl)) (hxi nl hnl)⟩
  | .ifE c t e, hsz, mid, Δ, fn, lit, ab, scs, gscs, st, e', st', hs, hΔ, hinv, h => by
    cases hs with
    | ifE _ _ _ _ hsc hst hse =>
      simp only [resolveE] at h
      cases hc : resolveE c st with
      | error er => simp [hc] at h
      | ok p =>
        obtain ⟨c1, st1⟩ := p
        simp only [hc] at h
        obtain ⟨hi1, hle1, hxc⟩ := ih.e c (by simp at hsz; omega) mid Δ fn lit ab scs gscs st c1 st1 hsc hΔ hinv hc
        cases ht : resolveB t st1 with
        | error er => simp [ht] at h
        | ok q =>
          obtain ⟨t1, st2⟩ := q
          simp only [ht] at h
          obtain ⟨hi2, hle2, hxt⟩ := ih.b t (by simp at hsz; omega) mid Δ fn ab scs gscs st1 t1 st2 hst hΔ.1 hi1 ht
          cases he : resolveO e st2 with
          | error er => simp [he] at h
          | ok w =>
            obtain ⟨e1, st3⟩ := w
            simp only [he] at h
            injection h with h; injection h with h1 h2; subst h1; subst h2
            obtain ⟨hi3, hle3, hxe⟩ := ih.o e (by simp at hsz; omega) mid Δ fn ab scs gscs st2 e1 st3 hse hΔ.1 hi2 he
            refine ⟨hi3, Nat.le_trans hle1 (Nat.le_trans hle2 hle3), fun nl hnl => ?_⟩
            obtain ⟨Γ1, Λ1, hb⟩ := hxt nl (Nat.le_trans hle3 hnl)
            exact .ifE _ _ _ c1 t1 e1 Γ1 Λ1 (hxc nl (Nat.le_trans hle2 (Nat.le_trans hle3 hnl))) hb (hxe nl hnl)
  | .whileE c b, hsz, mid, Δ, fn, lit, ab, scs, gscs, st, e', st', hs, hΔ, hinv, h => by
    cases hs with
    | whileE _ _ _ hsc hsb =>
      simp only [resolveE] at h
      cases hc : resolveE c { st with loopDepth := st.loopDepth + 1 } with
      | error er => simp [hc] at h
      | ok p =>
        obtain ⟨c1, st1⟩ := p
        simp only [hc] at h
        obtain ⟨hi1, hle1, hxc⟩ := ih.e c (by simp at hsz; omega) mid Δ fn lit false scs gscs _ c1 st1 hsc hΔ (rinv7_loop fn st scs gscs _ hinv) hc
        rw [SimF.lim_loop] at hle1
        cases hb : resolveB b st1 with
        | error er => simp [hb] at h
        | ok q =>
          obtain ⟨b1, st2⟩ := q
          simp only [hb] at h
          injection h with h; injection h with h1 h2; subst h1; subst h2
          obtain ⟨hi2, hle2, hxb⟩ := ih.b b (by simp at hsz; omega) mid Δ fn true scs gscs st1 b1 st2 hsb hΔ.1 hi1 hb
          refine ⟨rinv7_loop fn st2 scs gscs _ hi2, by rw [SimF.lim_loop]; exact Nat.le_trans hle1 hle2, fun nl hnl => ?_⟩
          rw [SimF.lim_loop] at hnl
          obtain ⟨Γ1, Λ1, hbb⟩ := hxb nl hnl
          exact .whileE _ _ _ c1 b1 Γ1 Λ1 (hxc nl (Nat.le_trans hle2 hnl)) hbb
  | .call f as, hsz, mid, Δ, fn, lit, ab, scs, gscs, st, e', st', hs, hΔ, hinv, h => by
    cases hs with
    | builtin _ n _ b hb hsa =>
      simp only [resolveE] at h
      cases ha : resolveEs as st with
      | error er => simp [ha] at h
      | ok p =>
        obtain ⟨as1, st1⟩ := p
        simp only [ha, hb] at h
        injection h with h; injection h with h1 h2; subst h1; subst h2
        obtain ⟨hi, hle, hx⟩ := ih.es as (by simp at hsz; omega) mid Δ fn lit scs gscs st as1 st1 hsa hΔ hinv ha
        exact ⟨hi, hle, fun nl hnl => .builtin _ _ _ b as1 (hx nl hnl)⟩
    | call _ _ _ hnb hsas hsf =>
      rw [SimF.resolveE_call f as st hnb] at h
      cases has : resolveEs as st with
      | error er => simp [has] at h
      | ok p =>
        obtain ⟨as1, st1⟩ := p
        simp only [has] at h
        obtain ⟨hi1, hle1, hxas⟩ := ih.es as (by simp at hsz; omega) mid Δ fn lit scs gscs st as1 st1 hsas hΔ hinv has
        cases hf : resolveE f st1 with
        | error er => simp [hf] at h
        | ok q =>
          obtain ⟨f1, st2⟩ := q
          simp only [hf] at h
          injection h with h; injection h with h1 h2; subst h1; subst h2
          obtain ⟨hi2, hle2, hxf⟩ := ih.e f (by simp at hsz; omega) mid Δ fn lit false scs gscs st1 f1 st2 hsf hΔ hi1 hf
          exact ⟨hi2, Nat.le_trans hle1 hle2, fun nl hnl => .call _ _ _ f1 as1 (hxas nl (Nat.le_trans hle2 hnl)) (hxf nl hnl)⟩
  | .func name ps body, hsz, mid, Δ, fn, lit, ab, scs, gscs, st, e', st', hs, hΔ, hinv, h => by
    cases hs with
    | func _ _ _ hcond hsb =>
      rw [resolveE_anon] at h
      cases hb : resolveB body (defineParams (fnEnter st) ps).1 with
      | error er => simp [hb] at h
      | ok p =>
        obtain ⟨b1, st4⟩ := p
        simp only [hb] at h
        injection h with h; injection h with h1 h2; subst h1; subst h2
        obtain ⟨⟨Γb, Λb, hyb⟩, hok, hbd, hinv2, hlim⟩ := func_exit7 hinv hΔ hcond ps body b1 st4
          (fun mid' gscs' psc h3 hd => ih.b body (by simp at hsz; omega) mid' Δ true false [psc] gscs' _ b1 st4 hsb (fun _ => hd) h3 hb)
        exact ⟨hinv2, by rw [hlim]; exact Nat.le_refl _, fun nl _ => .func _ _ _ st.nextFid _ (msOf st4) b1 Γb Λb hyb hok hbd⟩
  | .assign (.infix _ _ _) _, hsz, _, _, _, _, _, _, _, _, _, _, hs, _, _, _ => by cases hs
  | .assign (.pre _ _) _, hsz, _, _, _, _, _, _, _, _, _, _, hs, _, _, _ => by cases hs
  | .assign (.int _) _, hsz, _, _, _, _, _, _, _, _, _, _, hs, _, _, _ => by cases hs
  | .assign (.float _) _, hsz, _, _, _, _, _, _, _, _, _, _, hs, _, _, _ => by cases hs
  | .assign (.bool _) _, hsz, _, _, _, _, _, _, _, _, _, _, hs, _, _, _ => by cases hs
  | .assign (.ifE _ _ _) _, hsz, _, _, _, _, _, _, _, _, _, _, hs, _, _, _ => by cases hs
  | .assign (.func _ _ _) _, hsz, _, _, _, _, _, _, _, _, _, _, hs, _, _, _ => by cases hs
  | .assign (.call _ _) _, hsz, _, _, _, _, _, _, _, _, _, _, hs, _, _, _ => by cases hs
  | .assign (.assign _ _) _, hsz, _, _, _, _, _, _, _, _, _, _, hs, _, _, _ => by cases hs
  | .assign (.str _) _, hsz, _, _, _, _, _, _, _, _, _, _, hs, _, _, _ => by cases hs
  | .assign (.arr _) _, hsz, _, _, _, _, _, _, _, _, _, _, hs, _, _, _ => by cases hs
  | .assign (.whileE _ _) _, hsz, _, _, _, _, _, _, _, _, _, _, hs, _, _, _ => by cases hs



theorem r7Es_succ {n : Nat} (ih : R7All n) : Q7Es (n + 1)
  | .nil, hsz, mid, Δ, fn, lit, scs, gscs, st, es', st', _, hΔ, hinv, h => by
    simp only [resolveEs] at h; injection h with h; injection h with h1 h2; subst h1; subst h2
    exact ⟨hinv, Nat.le_refl _, fun nl _ => .nil _ _⟩
  | .cons e es, hsz, mid, Δ, fn, lit, scs, gscs, st, es', st', hs, hΔ, hinv, h => by
    cases hs with
    | cons _ _ hse hses =>
      simp only [resolveEs] at h
      cases he : resolveE e st with
      | error er => simp [he] at h
      | ok p =>
        obtain ⟨e1, st1⟩ := p
        simp only [he] at h
        obtain ⟨hi1, hle1, hxe⟩ := ih.e e (by simp at hsz; omega) mid Δ fn lit false scs gscs st e1 st1 hse hΔ hinv he
        cases hes : resolveEs es st1 with
        | error er => simp [hes] at h
        | ok q =>
          obtain ⟨es1, st2⟩ := q
          simp only [hes] at h
          injection h with h; injection h with h1 h2; subst h1; subst h2
          obtain ⟨hi2, hle2, hxes⟩ := ih.es es (by simp at hsz; omega) mid Δ fn lit scs gscs st1 es1 st2 hses hΔ hi1 hes
          exact ⟨hi2, Nat.le_trans hle1 hle2, fun nl hnl => .cons _ _ e1 es1 (hxe nl (Nat.le_trans hle2 hnl)) (hxes nl hnl)⟩



theorem r7O_succ {n : Nat} (ih : R7All n) : Q7O (n + 1)
  | .none, hsz, mid, Δ, fn, ab, scs, gscs, st, o', st', _, hΔ, hinv, h => by
    simp only [resolveO] at h; injection h with h; injection h with h1 h2; subst h1; subst h2
    exact ⟨hinv, Nat.le_refl _, fun nl _ => .none _ _ _⟩
  | .some b, hsz, mid, Δ, fn, ab, scs, gscs, st, o', st', hs, hΔ, hinv, h => by
    cases hs with
    | some _ _ hsb =>
      simp only [resolveO] at h
      cases hb : resolveB b st with
      | error er => simp [hb] at h
      | ok q =>
        obtain ⟨b1, st1⟩ := q
        simp only [hb] at h
        injection h with h; injection h with h1 h2; subst h1; subst h2
        obtain ⟨hi, hle, hxb⟩ := ih.b b (by simp at hsz; omega) mid Δ fn ab scs gscs st b1 st1 hsb hΔ hinv hb
        refine ⟨hi, hle, fun nl hnl => ?_⟩
        obtain ⟨Γ1, Λ1, hbb⟩ := hxb nl hnl
        exact .some _ _ _ b1 Γ1 Λ1 hbb



theorem r7S_succ {n : Nat} (ih : R7All n) : Q7S (n + 1)
  | .expr e, hsz, mid, Δ, fn, ab, sc, scs, gscs, st, s', st', hs, hΔ, hinv, h => by
    cases hs with
    | fdef _ name ps body hfn hname hsb =>
      subst hfn
      rw [SimF.resolveS_named name ps body st hname] at h
      have hinv1 := rinv7_define true st sc scs gscs hinv name
      obtain ⟨href, _⟩ := rinv7_define_refT st sc scs gscs hinv name
      have hfs := rinv7_fresh_slot true st sc scs gscs hinv
      cases hb : resolveB body (defineParams (fnEnter (st.define name).1) ps).1 with
      | error er => simp [hb] at h
      | ok p =>
        obtain ⟨b1, st4⟩ := p
        simp only [hb] at h
        injection h with h; injection h with h1 h2; subst h1; subst h2
        obtain ⟨⟨Γb, Λb, hyb⟩, hok, hbd, hinv2, hlim⟩ := func_exit7 (lit := true) hinv1 (DelOK.ofFn hΔ) (.inl rfl) ps body b1 st4
          (fun mid' gscs' psc h3 hd => ih.b body (by simp at hsz; omega) mid' Δ true false [psc] gscs' _ b1 st4 hsb (fun _ => hd) h3 hb)
        refine ⟨(name, st.nextId) :: sc, hinv2, by rw [hlim]; exact SimF.lim_define_le true st name, fun nl hnl => ?_⟩
        rw [href]
        obtain ⟨ms1, gms1, hs1, hle1, _⟩ := hinv1.shapeT rfl
        have hk : (sc :: scs).flatten.length < nl := by
          rw [hlim] at hnl
          simp only [lim, msOf, hs1] at hnl
          simp only [List.flatten_cons, List.cons_append, List.length_cons, List.length_append] at hle1 ⊢; omega
        have := Z7S.fdefL (Δ := Δ) (nl := nl) (G gscs) (G (sc :: scs)) ab (st.define name).1.nextFid st.nextId (sc :: scs).flatten.length
          (defineParams (fnEnter (st.define name).1) ps).2 (msOf st4) b1 Γb Λb rfl hfs hk hyb hok hbd
        simpa [gamOf, lamOf, G, slotsOf] using this
    | expr _ _ hse =>
      simp only [resolveS] at h
      cases hr : resolveE e st with
      | error er => simp [hr] at h
      | ok p =>
        obtain ⟨e1, st1⟩ := p
        simp only [hr] at h
        injection h with h; injection h with h1 h2; subst h1; subst h2
        obtain ⟨hi, hle, hx⟩ := ih.e e (by simp at hsz; omega) mid Δ fn fn ab _ gscs st e1 st1 hse (DelOK.ofFn hΔ) hinv hr
        exact ⟨sc, hi, hle, fun nl hnl => .expr _ _ _ e1 (hx nl hnl)⟩
  | .letS n e, hsz, mid, Δ, fn, ab, sc, scs, gscs, st, s', st', hs, hΔ, hinv, h => by
    cases hs with
    | letS _ _ _ hse =>
      simp only [resolveS] at h
      have hinv1 := rinv7_define fn st sc scs gscs hinv n
      have hlet := rinv7_define_rule fn st sc scs gscs hinv n Δ
      cases hr : resolveE e (st.define n).1 with
      | error er => simp [hr] at h
      | ok p =>
        obtain ⟨e1, st1⟩ := p
        simp only [hr] at h
        injection h with h; injection h with h1 h2; subst h1; subst h2
        obtain ⟨hi, hle, hx⟩ := ih.e e (by simp at hsz; omega) mid Δ fn fn ab _ gscs _ e1 st1 hse (DelOK.ofFn hΔ) hinv1 hr
        exact ⟨(n, st.nextId) :: sc, hi, Nat.le_trans (SimF.lim_define_le fn st n) hle,
          fun nl hnl => hlet nl ab e1 (Nat.le_trans hle hnl) (hx nl hnl)⟩
  | .block b, hsz, mid, Δ, fn, ab, sc, scs, gscs, st, s', st', hs, hΔ, hinv, h => by
    cases hs with
    | block _ _ hsb =>
      simp only [resolveS] at h
      cases hb : resolveB b st with
      | error er => simp [hb] at h
      | ok q =>
        obtain ⟨b1, st1⟩ := q
        simp only [hb] at h
        injection h with h; injection h with h1 h2; subst h1; subst h2
        obtain ⟨hi, hle, hxb⟩ := ih.b b (by simp at hsz; omega) mid Δ fn ab _ gscs st b1 st1 hsb hΔ hinv hb
        refine ⟨sc, hi, hle, fun nl hnl => ?_⟩
        obtain ⟨Γ1, Λ1, hbb⟩ := hxb nl hnl
        exact .block _ _ _ b1 Γ1 Λ1 hbb
  | .brk, hsz, mid, Δ, fn, ab, sc, scs, gscs, st, s', st', hs, hΔ, hinv, h => by
    cases hs
    simp only [resolveS] at h
    split at h
    · cases h
    · injection h with h; injection h with h1 h2; subst h1; subst h2
      exact ⟨sc, hinv, Nat.le_refl _, fun nl _ => .brk _ _⟩
  | .cont, hsz, mid, Δ, fn, ab, sc, scs, gscs, st, s', st', hs, hΔ, hinv, h => by
    cases hs
    simp only [resolveS] at h
    split at h
    · cases h
    · injection h with h; injection h with h1 h2; subst h1; subst h2
      exact ⟨sc, hinv, Nat.le_refl _, fun nl _ => .cont _ _⟩
  | .ret e, hsz, mid, Δ, fn, ab, sc, scs, gscs, st, s', st', hs, hΔ, hinv, h => by
    cases hs with
    | ret _ _ hfn hse =>
      simp only [resolveS] at h
      split at h
      · cases h
      · cases hr : resolveE e st with
        | error er => simp [hr] at h
        | ok p =>
          obtain ⟨e1, st1⟩ := p
          simp only [hr] at h
          injection h with h; injection h with h1 h2; subst h1; subst h2
          obtain ⟨hi, hle, hx⟩ := ih.e e (by simp at hsz; omega) mid Δ fn fn ab _ gscs st e1 st1 hse (DelOK.ofFn hΔ) hinv hr
          exact ⟨sc, hi, hle, fun nl hnl => .ret _ _ _ e1 hfn (hx nl hnl)⟩



theorem r7Ss_succ {n : Nat} (ih : R7All n) : Q7Ss (n + 1)
  | .nil, hsz, mid, Δ, fn, ab, sc, scs, gscs, st, b', st', _, hΔ, hinv, h => by
    simp only [resolveSs] at h; injection h with h; injection h with h1 h2; subst h1; subst h2
    exact ⟨sc, hinv, Nat.le_refl _, fun nl _ => .nil _ _ _⟩
  | .cons s rest, hsz, mid, Δ, fn, ab, sc, scs, gscs, st, b', st', hs, hΔ, hinv, h => by
    cases hs with
    | cons _ _ _ hss hsrest =>
      simp only [resolveSs] at h
      cases hr : resolveS s st with
      | error er => simp [hr] at h
      | ok p =>
        obtain ⟨s1, st1⟩ := p
        simp only [hr] at h
        obtain ⟨sc1, hi1, hle1, hx1⟩ := ih.s s (by simp at hsz; omega) mid Δ fn ab sc scs gscs st s1 st1 hss hΔ hinv hr
        cases hr2 : resolveSs rest st1 with
        | error er => simp [hr2] at h
        | ok q =>
          obtain ⟨b1, st2⟩ := q
          simp only [hr2] at h
          injection h with h; injection h with h1 h2; subst h1; subst h2
          obtain ⟨sc2, hi2, hle2, hx2⟩ := ih.ss rest (by simp at hsz; omega) mid Δ fn ab sc1 scs gscs st1 b1 st2 hsrest hΔ hi1 hr2
          exact ⟨sc2, hi2, Nat.le_trans hle1 hle2, fun nl hnl => .cons _ _ _ _ _ _ _ _ _ (hx1 nl (Nat.le_trans hle2 hnl)) (hx2 nl hnl)⟩



theorem r7B_succ {n : Nat} (ih : R7All n) : Q7B (n + 1)
  | .nil, hsz, mid, Δ, fn, ab, scs, gscs, st, b', st', _, hΔ, hinv, h => by
    simp only [resolveB] at h; injection h with h; injection h with h1 h2; subst h1; subst h2
    exact ⟨hinv, Nat.le_refl _, fun nl _ => ⟨_, _, .nil _ _ _⟩⟩
  | .cons s rest, hsz, mid, Δ, fn, ab, scs, gscs, st, b', st', hs, hΔ, hinv, h => by
    cases hs with
    | cons _ _ _ hss hsrest =>
      simp only [resolveB] at h
      obtain ⟨hinv0, hl0⟩ := rinv7_enter fn st scs gscs hinv
      cases hr : resolveS s st.enterScope with
      | error er => simp [hr] at h
      | ok p =>
        obtain ⟨s1, st1⟩ := p
        simp only [hr] at h
        obtain ⟨sc1, hi1, hle1, hx1⟩ := ih.s s (by simp at hsz; omega) mid Δ fn ab [] scs gscs st.enterScope s1 st1 hss hΔ hinv0 hr
        cases hr2 : resolveSs rest st1 with
        | error er => simp [hr2] at h
        | ok q =>
          obtain ⟨b1, st2⟩ := q
          simp only [hr2] at h
          injection h with h; injection h with h1 h2; subst h1; subst h2
          obtain ⟨sc2, hi2, hle2, hx2⟩ := ih.ss rest (by simp at hsz; omega) mid Δ fn ab sc1 scs gscs st1 b1 st2 hsrest hΔ hi1 hr2
          obtain ⟨hi3, hl3⟩ := rinv7_leave fn st2 sc2 scs gscs hi2
          refine ⟨hi3, by rw [hl3, ← hl0]; exact Nat.le_trans hle1 hle2, fun nl hnl => ?_⟩
          rw [hl3] at hnl
          have h1 := hx1 nl (Nat.le_trans hle2 hnl)
          rw [SimF.gamOf_enter, SimF.lamOf_enter] at h1
          exact ⟨_, _, .cons _ _ _ _ _ _ _ _ _ h1 (hx2 nl hnl)⟩

theorem r7all : ∀ n, R7All n
  | 0 => ⟨fun e h => by cases e <;> simp at h, fun e h => by cases e <;> simp at h, fun e h => by cases e <;> simp at h,
          fun e h => by cases e <;> simp at h, fun e h => by cases e <;> simp at h, fun e h => by cases e <;> simp at h⟩
  | n + 1 =>
    have ih := r7all n
    ⟨r7E_succ ih, r7Es_succ ih, r7O_succ ih, r7S_succ ih, r7Ss_succ ih, r7B_succ ih⟩

end Sim7
end Nl
