-- DESIGN NOTE, NOT PART OF THE MACHINERY.
-- Feasibility prototype written during the design round (see DESIGN.md section 2.4):
-- a miniature of the C01 forward-simulation proof. It has the three ingredients that make the real
-- compiler awkward to verify: absolute (position-dependent) jump targets, the "delete the trailing Pop to
-- recover the value of a block" peephole, and a fuel-indexed big-step specification with a `last` register.
-- Checked with Lean 4.33.0 core only: `lean feasibility_simulation_proof.lean`; axioms of Mini.sim: [propext, Quot.sound].

namespace Mini

mutual
inductive Expr where
  | int (n : Int)
  | add (a b : Expr)
  | getg (k : Nat)
  | ife (c : Expr) (t : Block) (e : Block)
inductive Stmt where
  | expr (e : Expr)
  | setg (k : Nat) (e : Expr)
inductive Block where
  | nil
  | cons (s : Stmt) (b : Block)
end

inductive Instr where
  | const (n : Int) | add | pop | null | getg (k : Nat) | setg (k : Nat)
  | jump (t : Nat) | jif (t : Nat)
  deriving Repr, DecidableEq

def Instr.size : Instr → Nat
  | .const _ | .getg _ | .setg _ | .jump _ | .jif _ => 3
  | _ => 1

def csize : List Instr → Nat
  | [] => 0
  | i :: is => i.size + csize is

theorem csize_append (a b : List Instr) : csize (a ++ b) = csize a + csize b := by
  induction a with
  | nil => simp [csize]
  | cons i is ih => simp [csize, ih]; omega

/-- drop a trailing pop, else push null (value of a block) -/
def blockValue (c : List Instr) : List Instr :=
  match c.getLast? with
  | some .pop => c.dropLast
  | _ => c ++ [.null]

mutual
def compE (pos : Nat) : Expr → List Instr
  | .int n => [.const n]
  | .add a b =>
    let ca := compE pos a
    let cb := compE (pos + csize ca) b
    ca ++ cb ++ [.add]
  | .getg k => [.getg k]
  | .ife c t e =>
    let cc := compE pos c
    let p1 := pos + csize cc + 3
    let ct := blockValue (compB p1 t)
    let p2 := p1 + csize ct + 3
    let ce := blockValue (compB p2 e)
    cc ++ [.jif p2] ++ ct ++ [.jump (p2 + csize ce)] ++ ce
def compS (pos : Nat) : Stmt → List Instr
  | .expr e => compE pos e ++ [.pop]
  | .setg k e => compE pos e ++ [.setg k]
def compB (pos : Nat) : Block → List Instr
  | .nil => []
  | .cons s b =>
    let cs := compS pos s
    cs ++ compB (pos + csize cs) b
end

inductive Val where | int (n : Int) | null
  deriving Repr, DecidableEq

structure St where
  pc : Nat
  stk : List Val
  g : List Val
  last : Val

def instrAt : List Instr → Nat → Option Instr
  | [], _ => none
  | i :: is, pc => if pc = 0 then some i else if pc < i.size then none else instrAt is (pc - i.size)

def truthy : Val → Bool
  | .int n => n != 0
  | .null => false

def step (C : List Instr) (s : St) : Option St :=
  match instrAt C s.pc with
  | none => none
  | some i =>
    match i, s.stk with
    | .const n, stk => some { s with pc := s.pc + 3, stk := .int n :: stk }
    | .null, stk => some { s with pc := s.pc + 1, stk := .null :: stk }
    | .add, .int b :: .int a :: stk => some { s with pc := s.pc + 1, stk := .int (a + b) :: stk }
    | .pop, v :: stk => some { s with pc := s.pc + 1, stk := stk, last := v }
    | .getg k, stk => some { s with pc := s.pc + 3, stk := (s.g.getD k .null) :: stk }
    | .setg k, v :: stk => some { s with pc := s.pc + 3, stk := stk, g := s.g.set k v }
    | .jump t, stk => some { s with pc := t, stk := stk }
    | .jif t, v :: stk => some { s with pc := if truthy v then s.pc + 3 else t, stk := stk }
    | _, _ => none

inductive Steps (C : List Instr) : St → St → Prop where
  | refl (s) : Steps C s s
  | cons {s s' s''} : step C s = some s' → Steps C s' s'' → Steps C s s''

theorem Steps.trans {C s1 s2 s3} (h1 : Steps C s1 s2) (h2 : Steps C s2 s3) : Steps C s1 s3 := by
  induction h1 with
  | refl => exact h2
  | cons h _ ih => exact .cons h (ih h2)

theorem Steps.one {C s s'} (h : step C s = some s') : Steps C s s' := .cons h (.refl _)

def codeAt (C : List Instr) (pos : Nat) (is : List Instr) : Prop :=
  ∃ pre post, C = pre ++ is ++ post ∧ csize pre = pos

theorem instrAt_app (pre : List Instr) (i : Instr) (post : List Instr) :
    instrAt (pre ++ i :: post) (csize pre) = some i := by
  induction pre with
  | nil => simp [instrAt, csize]
  | cons j js ih =>
    have : 0 < j.size := by cases j <;> simp [Instr.size]
    simp only [List.cons_append, instrAt, csize]
    rw [if_neg (by omega), if_neg (by omega)]
    have : j.size + csize js - j.size = csize js := by omega
    rw [this]; exact ih

theorem codeAt_head {C pos i is} (h : codeAt C pos (i :: is)) : instrAt C pos = some i := by
  obtain ⟨pre, post, rfl, rfl⟩ := h
  simp only [List.append_assoc, List.cons_append]
  exact instrAt_app _ _ _

theorem codeAt_tail {C pos i is} (h : codeAt C pos (i :: is)) : codeAt C (pos + i.size) is := by
  obtain ⟨pre, post, rfl, rfl⟩ := h
  exact ⟨pre ++ [i], post, by simp, by simp [csize_append, csize]⟩

theorem codeAt_app_left {C pos a b} (h : codeAt C pos (a ++ b)) : codeAt C pos a := by
  obtain ⟨pre, post, rfl, rfl⟩ := h
  exact ⟨pre, b ++ post, by simp, rfl⟩

theorem codeAt_app_right {C pos a b} (h : codeAt C pos (a ++ b)) : codeAt C (pos + csize a) b := by
  obtain ⟨pre, post, rfl, rfl⟩ := h
  exact ⟨pre ++ a, post, by simp, by simp [csize_append]⟩

-- spec evaluator
mutual
def evalE : Nat → Expr → List Val → Val → Option (Val × List Val × Val)
  | 0, _, _, _ => none
  | n+1, .int k, g, l => some (.int k, g, l)
  | n+1, .getg k, g, l => some (g.getD k .null, g, l)
  | n+1, .add a b, g, l =>
    match evalE n a g l with
    | some (.int x, g1, l1) =>
      match evalE n b g1 l1 with
      | some (.int y, g2, l2) => some (.int (x + y), g2, l2)
      | _ => none
    | _ => none
  | n+1, .ife c t e, g, l =>
    match evalE n c g l with
    | some (v, g1, l1) => if truthy v then evalBV n t g1 l1 else evalBV n e g1 l1
    | none => none
/-- block in value position: value of last stmt if it's an expression stmt, else null -/
def evalBV : Nat → Block → List Val → Val → Option (Val × List Val × Val)
  | 0, _, _, _ => none
  | n+1, .nil, g, l => some (.null, g, l)
  | n+1, .cons (.expr e) .nil, g, l => evalE n e g l
  | n+1, .cons s b, g, l =>
    match evalS n s g l with
    | some (g1, l1) => evalBV n b g1 l1
    | none => none
def evalS : Nat → Stmt → List Val → Val → Option (List Val × Val)
  | 0, _, _, _ => none
  | n+1, .expr e, g, l =>
    match evalE n e g l with
    | some (v, g1, _) => some (g1, v)
    | none => none
  | n+1, .setg k e, g, l =>
    match evalE n e g l with
    | some (v, g1, l1) => some (g1.set k v, l1)
    | none => none
end


theorem compS_ne_nil (pos s) : compS pos s ≠ [] := by
  cases s <;> simp [compS]

theorem compB_cons_ne_nil (pos s b) : compB pos (.cons s b) ≠ [] := by
  simp [compB, compS_ne_nil]

theorem blockValue_append (a b : List Instr) (hb : b ≠ []) : blockValue (a ++ b) = a ++ blockValue b := by
  unfold blockValue
  rw [List.getLast?_append]
  cases h : b.getLast? with
  | none => simp [List.getLast?_eq_none_iff] at h; exact absurd h hb
  | some i =>
    cases i <;> simp [List.dropLast_append_of_ne_nil hb]

theorem blockValue_expr_last (c : List Instr) : blockValue (c ++ [.pop]) = c := by
  simp [blockValue]

def PE (n : Nat) : Prop := ∀ e g l v g' l' C pos stk,
  evalE n e g l = some (v, g', l') → codeAt C pos (compE pos e) →
  Steps C ⟨pos, stk, g, l⟩ ⟨pos + csize (compE pos e), v :: stk, g', l'⟩
def PS (n : Nat) : Prop := ∀ s g l g' l' C pos stk,
  evalS n s g l = some (g', l') → codeAt C pos (compS pos s) →
  Steps C ⟨pos, stk, g, l⟩ ⟨pos + csize (compS pos s), stk, g', l'⟩
def PB (n : Nat) : Prop := ∀ b g l v g' l' C pos stk,
  evalBV n b g l = some (v, g', l') → codeAt C pos (blockValue (compB pos b)) →
  Steps C ⟨pos, stk, g, l⟩ ⟨pos + csize (blockValue (compB pos b)), v :: stk, g', l'⟩

theorem step_lemma {C pos i rest} (h : codeAt C pos (i :: rest)) (s : St) (hs : s.pc = pos) :
    instrAt C s.pc = some i := by rw [hs]; exact codeAt_head h

theorem sim : ∀ n, PE n ∧ PS n ∧ PB n := by
  intro n
  induction n with
  | zero =>
    refine ⟨?_, ?_, ?_⟩
    · intro e g l v g' l' C pos stk h; simp [evalE] at h
    · intro s g l g' l' C pos stk h; simp [evalS] at h
    · intro b g l v g' l' C pos stk h; simp [evalBV] at h
  | succ n ih =>
    obtain ⟨ihE, ihS, ihB⟩ := ih
    refine ⟨?_, ?_, ?_⟩
    · intro e g l v g' l' C pos stk h hc
      cases e with
      | int k =>
        simp [evalE] at h; obtain ⟨rfl, rfl, rfl⟩ := h
        simp only [compE] at hc ⊢
        apply Steps.one
        simp [step, codeAt_head hc, csize, Instr.size]
      | getg k =>
        simp [evalE] at h; obtain ⟨rfl, rfl, rfl⟩ := h
        simp only [compE] at hc ⊢
        apply Steps.one
        simp [step, codeAt_head hc, csize, Instr.size]
      | add a b =>
        simp only [evalE] at h
        split at h <;> try contradiction
        rename_i x g1 l1 ha
        split at h <;> try contradiction
        rename_i y g2 l2 hb
        simp at h; obtain ⟨rfl, rfl, rfl⟩ := h
        simp only [compE] at hc ⊢
        have hca := codeAt_app_left (codeAt_app_left hc)
        have hcb := codeAt_app_right (codeAt_app_left hc)
        have hcadd := codeAt_app_right hc
        refine (ihE _ _ _ _ _ _ _ _ stk ha hca).trans ?_
        refine (ihE _ _ _ _ _ _ _ _ _ hb hcb).trans ?_
        apply Steps.one
        simp only [csize_append, ← Nat.add_assoc] at hcadd ⊢
        simp [step, codeAt_head hcadd, csize, Instr.size]
      | ife c t e =>
        simp only [evalE] at h
        split at h <;> try contradiction
        rename_i v0 g1 l1 hcnd
        simp only [compE] at hc ⊢
        -- layout
        generalize hcc : compE pos c = cc at hc ⊢
        generalize hct : blockValue (compB (pos + csize cc + 3) t) = ct at hc ⊢
        generalize hce : blockValue (compB (pos + csize cc + 3 + csize ct + 3) e) = ce at hc ⊢
        have h1 : codeAt C pos cc := by
          have := hc; simp only [List.append_assoc] at this; exact codeAt_app_left this
        have h2 : codeAt C (pos + csize cc) (.jif (pos + csize cc + 3 + csize ct + 3) :: (ct ++ [.jump (pos + csize cc + 3 + csize ct + 3 + csize ce)] ++ ce)) := by
          have := hc; simp only [List.append_assoc, List.singleton_append] at this
          have := codeAt_app_right this
          simpa using this
        have h3 := codeAt_tail h2
        simp only [Instr.size] at h3
        have h4 : codeAt C (pos + csize cc + 3) ct := by
          simp only [List.append_assoc] at h3; exact codeAt_app_left h3
        have h5 : codeAt C (pos + csize cc + 3 + csize ct) (.jump (pos + csize cc + 3 + csize ct + 3 + csize ce) :: ce) := by
          simp only [List.append_assoc, List.singleton_append] at h3; exact codeAt_app_right h3
        have h6 := codeAt_tail h5
        simp only [Instr.size] at h6
        have hcond := ihE _ _ _ _ _ _ _ _ stk hcnd (hcc ▸ h1)
        rw [hcc] at hcond
        refine hcond.trans ?_
        by_cases htr : truthy v0
        · simp [htr] at h
          have hb := ihB _ _ _ _ _ _ _ _ stk h (hct ▸ h4)
          rw [hct] at hb
          refine (Steps.cons (s' := ⟨pos + csize cc + 3, stk, g1, l1⟩) ?_ hb).trans ?_
          · simp [step, codeAt_head h2, htr]
          · apply Steps.one
            simp [step, codeAt_head h5, csize_append, csize, Instr.size]
            omega
        · simp [htr] at h
          have hb := ihB _ _ _ _ _ _ _ _ stk h (hce ▸ h6)
          rw [hce] at hb
          refine (Steps.cons (s' := ⟨pos + csize cc + 3 + csize ct + 3, stk, g1, l1⟩) ?_ ?_)
          · simp [step, codeAt_head h2, htr]
          · have : pos + csize (cc ++ [Instr.jif (pos + csize cc + 3 + csize ct + 3)] ++ ct ++ [Instr.jump (pos + csize cc + 3 + csize ct + 3 + csize ce)] ++ ce) = pos + csize cc + 3 + csize ct + 3 + csize ce := by
              simp [csize_append, csize, Instr.size]; omega
            rw [this]; exact hb
    · intro s g l g' l' C pos stk h hc
      cases s with
      | expr e =>
        simp only [evalS] at h
        split at h <;> try contradiction
        rename_i v g1 l1 he
        simp at h; obtain ⟨rfl, rfl⟩ := h
        simp only [compS] at hc ⊢
        refine (ihE _ _ _ _ _ _ _ _ stk he (codeAt_app_left hc)).trans ?_
        apply Steps.one
        have := codeAt_app_right hc
        simp [step, codeAt_head this, csize_append, csize, Instr.size]
        omega
      | setg k e =>
        simp only [evalS] at h
        split at h <;> try contradiction
        rename_i v g1 l1 he
        simp at h; obtain ⟨rfl, rfl⟩ := h
        simp only [compS] at hc ⊢
        refine (ihE _ _ _ _ _ _ _ _ stk he (codeAt_app_left hc)).trans ?_
        apply Steps.one
        have := codeAt_app_right hc
        simp [step, codeAt_head this, csize_append, csize, Instr.size]
        omega
    · intro b g l v g' l' C pos stk h hc
      cases b with
      | nil =>
        simp [evalBV] at h; obtain ⟨rfl, rfl, rfl⟩ := h
        simp only [compB, blockValue] at hc ⊢
        apply Steps.one
        simp at hc
        simp [step, codeAt_head hc, csize, Instr.size]
      | cons s b =>
        cases b with
        | nil =>
          cases s with
          | expr e =>
            simp only [evalBV] at h
            have hcode : blockValue (compB pos (.cons (.expr e) .nil)) = compE pos e := by
              simp [compB, compS, blockValue]
            rw [hcode] at hc ⊢
            exact ihE _ _ _ _ _ _ _ _ stk h hc
          | setg k e =>
            simp only [evalBV] at h
            split at h <;> try contradiction
            rename_i g1 l1 hs
            cases n with
            | zero => simp [evalBV] at h
            | succ m =>
              simp [evalBV] at h; obtain ⟨rfl, rfl, rfl⟩ := h
              have hcode : blockValue (compB pos (.cons (.setg k e) .nil)) = compS pos (.setg k e) ++ [.null] := by
                simp [compB, compS, blockValue]
              rw [hcode] at hc ⊢
              refine (ihS _ _ _ _ _ _ _ stk hs (codeAt_app_left hc)).trans ?_
              apply Steps.one
              have := codeAt_app_right hc
              simp [step, codeAt_head this, csize_append, csize, Instr.size]
              omega
        | cons s2 b2 =>
          have hev : evalBV (n+1) (.cons s (.cons s2 b2)) g l =
              match evalS n s g l with
              | some (g1, l1) => evalBV n (.cons s2 b2) g1 l1
              | none => none := by
            cases s <;> simp [evalBV]
          rw [hev] at h
          split at h <;> try contradiction
          rename_i g1 l1 hs
          have hcode : blockValue (compB pos (.cons s (.cons s2 b2))) =
              compS pos s ++ blockValue (compB (pos + csize (compS pos s)) (.cons s2 b2)) := by
            rw [compB]; exact blockValue_append _ _ (compB_cons_ne_nil _ _ _)
          rw [hcode] at hc ⊢
          refine (ihS _ _ _ _ _ _ _ stk hs (codeAt_app_left hc)).trans ?_
          have := ihB _ _ _ _ _ _ _ _ stk h (codeAt_app_right hc)
          simpa [csize_append, Nat.add_assoc] using this

end Mini

#print axioms Mini.sim
