import Nlmodel.Proofs.Lemmas.NameEvalFnRel
namespace Nl
namespace NameEvalFn
open Spec SimF Sim
open NameEval (All2 findBid bids)

/-! ### All2 algebra -/

theorem all2_lengthT {α β : Type} {R : α → β → Prop} {l : List α} {l' : List β} (h : All2 R l l') :
    l.length = l'.length := by
  induction h with
  | nil => rfl
  | cons _ _ ih => simp [ih]

theorem all2_splitT {α β : Type} {R : α → β → Prop} (d s : List β) :
    ∀ {l : List α}, All2 R l (d ++ s) → ∃ l1 l2, l = l1 ++ l2 ∧ All2 R l1 d ∧ All2 R l2 s := by
  induction d with
  | nil => intro l h; exact ⟨[], l, rfl, .nil, h⟩
  | cons x d ih =>
    intro l h
    cases h with
    | cons hd htl =>
      obtain ⟨l1, l2, he, h1, h2⟩ := ih htl
      exact ⟨_ :: l1, l2, by rw [he]; rfl, .cons hd h1, h2⟩

theorem all2_appendT {α β : Type} {R : α → β → Prop} {l1 : List α} {d : List β} (h1 : All2 R l1 d)
    {l2 : List α} {s : List β} (h2 : All2 R l2 s) : All2 R (l1 ++ l2) (d ++ s) := by
  induction h1 with
  | nil => exact h2
  | cons hd _ ih => exact .cons hd ih

/-! ### scope level -/

theorem relSc_congrT {G : List (Text × Nat)} {g g' : List (Nat × SVal)} {sc : Scope} {sc' : List (Text × Nat)}
    (h : RelSc G g sc sc') (hg : ∀ q ∈ sc', envGet g' q.2 = envGet g q.2) : RelSc G g' sc sc' := by
  induction h with
  | nil => exact .nil
  | cons hd _ ih =>
    refine .cons ⟨hd.1, ?_⟩ (ih fun q hq => hg q (List.mem_cons_of_mem _ hq))
    rw [hg _ List.mem_cons_self]; exact hd.2

theorem relS_congrT {G : List (Text × Nat)} {g g' : List (Nat × SVal)} {ρs : List Scope} {scs : Scs}
    (h : RelS G g ρs scs) (hg : ∀ b ∈ bids scs, envGet g' b = envGet g b) : RelS G g' ρs scs := by
  induction h with
  | nil => exact .nil
  | @cons sc sc' _ scs' hd _ ih =>
    refine .cons (relSc_congrT hd fun q hq => hg q.2 ?_) (ih fun b hb => hg b ?_)
    · simp only [bids, List.flatten_cons, List.map_append, List.mem_append, List.mem_map]
      exact Or.inl ⟨q, hq, rfl⟩
    · simp only [bids, List.flatten_cons, List.map_append, List.mem_append]
      exact Or.inr hb

theorem lookupScope_relT {G : List (Text × Nat)} {g : List (Nat × SVal)} {sc : Scope} {sc' : List (Text × Nat)}
    (h : RelSc G g sc sc') (n : Text) :
    match findBid sc' n with
    | none => lookupScope sc n = none
    | some b => ∃ ov, lookupScope sc n = some ov ∧ ORel G (envGet g b) ov := by
  induction h with
  | nil => simp only [findBid, lookupScope]
  | @cons p q _ _ hd _ ih =>
    obtain ⟨m, w⟩ := p
    obtain ⟨m', b⟩ := q
    obtain ⟨h1, h2⟩ := hd
    simp only at h1 h2
    subst h1
    simp only [lookupScope, findBid]
    by_cases hm : m = n
    · simp only [hm, ↓reduceIte]
      exact ⟨w, rfl, h2⟩
    · simp only [hm, ↓reduceIte]
      exact ih

theorem updateScope_relT {G : List (Text × Nat)} {g : List (Nat × SVal)} {sc : Scope} {sc' : List (Text × Nat)}
    (h : RelSc G g sc sc') (n : Text) (v : NVal) (w : SVal) (hv : VRel G v w)
    (hnd : (sc'.map Prod.snd).Nodup) :
    (findBid sc' n = none → updateScope sc n v = none) ∧
    (∀ b, findBid sc' n = some b → ∃ sc2, updateScope sc n v = some sc2 ∧ RelSc G (envSet g b w) sc2 sc') := by
  induction h with
  | nil => exact ⟨fun _ => rfl, fun b hb => by simp [findBid] at hb⟩
  | @cons p q l l' hd htl ih =>
    obtain ⟨m, w0⟩ := p
    obtain ⟨m', b'⟩ := q
    obtain ⟨h1, h2⟩ := hd
    simp only at h1 h2
    subst h1
    simp only [List.map_cons, List.nodup_cons] at hnd
    obtain ⟨hni, hnd'⟩ := hnd
    obtain ⟨ih1, ih2⟩ := ih hnd'
    simp only [updateScope, findBid]
    by_cases hm : m = n
    · simp only [hm, ↓reduceIte]
      refine ⟨fun h => (nomatch h), fun b hb => ?_⟩
      simp only [Option.some.injEq] at hb
      subst hb
      refine ⟨_, rfl, .cons ⟨rfl, ?_⟩ (relSc_congrT htl fun q hq => ?_)⟩
      · simp only [envGet_envSet_same]
        exact hv
      · exact envGet_envSet_other _ _ _ _ (fun he => hni (by rw [← he]; exact List.mem_map_of_mem hq))
    · simp only [hm, ↓reduceIte]
      refine ⟨fun h => by rw [ih1 h], fun b hb => ?_⟩
      obtain ⟨sc2, hsc2, hr⟩ := ih2 b hb
      rw [hsc2]
      refine ⟨_, rfl, .cons ⟨rfl, ?_⟩ hr⟩
      simp only
      rw [envGet_envSet_other _ _ _ _ (fun he => hni (by rw [he]; exact NameEval.findBid_mem _ _ _ hb))]
      exact h2

/-! ### the top-level scope -/

theorem visPart_appendT (l1 l2 : Scope) (k : Nat) (hk : l2.length = k) : visPart k (l1 ++ l2) = l2 := by
  unfold visPart
  apply List.drop_left'
  simp only [List.length_append]; omega

theorem hidPart_appendT (l1 l2 : Scope) (k : Nat) (hk : l2.length = k) : hidPart k (l1 ++ l2) = l1 := by
  unfold hidPart
  apply List.take_left'
  simp only [List.length_append]; omega

theorem topScope_relT {G : List (Text × Nat)} {env : List (Nat × SVal)} {gs : List Scope} {T : Scs}
    (h : RelS G env gs T) : RelSc G env (topScope gs) (topOf T) := by
  induction h with
  | nil => exact .nil
  | @cons g t gs' T' hd htl ih =>
    cases htl with
    | nil => simpa only [topScope, topOf] using hd
    | cons hd' htl' => simpa only [topScope, topOf] using ih

theorem topOf_subT : ∀ (T : Scs) (q : Text × Nat), q ∈ topOf T → q ∈ T.flatten
  | [], q, h => by simp [topOf] at h
  | [g], q, h => by simpa [topOf] using h
  | g :: g' :: T, q, h => by
    simp only [topOf] at h
    have := topOf_subT (g' :: T) q h
    simp only [List.flatten_cons, List.mem_append] at this ⊢
    exact Or.inr this

theorem updateTop_auxT {G : List (Text × Nat)} {env : List (Nat × SVal)} {gs : List Scope} {T : Scs}
    (h : RelS G env gs T) (hnd : (bids T).Nodup)
    (d gsc : List (Text × Nat)) (hT : topOf T = d ++ gsc) (n : Text) (v : NVal) (w : SVal) (hv : VRel G v w) :
    (findBid gsc n = none → updateTop gsc.length gs n v = none) ∧
    (∀ b, findBid gsc n = some b → ∃ gs2, updateTop gsc.length gs n v = some gs2 ∧ RelS G (envSet env b w) gs2 T) := by
  induction h with
  | nil =>
    refine ⟨fun _ => rfl, fun b hb => ?_⟩
    simp only [topOf] at hT
    have : gsc = [] := by
      cases gsc with
      | nil => rfl
      | cons x xs => simp at hT
    subst this
    simp [findBid] at hb
  | @cons g t gs' T' hd htl ih =>
    cases htl with
    | nil =>
      simp only [topOf] at hT
      subst hT
      obtain ⟨l1, l2, he, h1, h2⟩ := all2_splitT d gsc hd
      subst he
      have hlen : l2.length = gsc.length := all2_lengthT h2
      simp only [bids, List.flatten_cons, List.flatten_nil, List.append_nil, List.map_append] at hnd
      obtain ⟨hnd1, hnd2, hdis⟩ := List.nodup_append.mp hnd
      obtain ⟨u1, u2⟩ := updateScope_relT h2 n v w hv hnd2
      simp only [updateTop, visPart_appendT l1 l2 _ hlen, hidPart_appendT l1 l2 _ hlen]
      refine ⟨fun hf => by rw [u1 hf], fun b hb => ?_⟩
      obtain ⟨sc2, hsc2, hr⟩ := u2 b hb
      rw [hsc2]
      refine ⟨_, rfl, .cons (all2_appendT (relSc_congrT h1 fun q hq => ?_) hr) .nil⟩
      exact envGet_envSet_other _ _ _ _ (fun he =>
        hdis q.2 (List.mem_map_of_mem hq) b (NameEval.findBid_mem _ _ _ hb) he)
    | @cons g' t' gs'' T'' hd' htl' =>
      simp only [topOf] at hT
      simp only [bids, List.flatten_cons, List.map_append] at hnd
      obtain ⟨hnd1, hnd2, hdis⟩ := List.nodup_append.mp hnd
      have hnd2' : (bids (t' :: T'')).Nodup := by
        simpa only [bids, List.flatten_cons, List.map_append] using hnd2
      obtain ⟨ih1, ih2⟩ := ih hnd2' hT
      simp only [updateTop]
      refine ⟨fun hf => by rw [ih1 hf], fun b hb => ?_⟩
      obtain ⟨gs2, h2, hr⟩ := ih2 b hb
      rw [h2]
      refine ⟨_, rfl, .cons (relSc_congrT hd fun q hq => ?_) hr⟩
      have hbm : b ∈ (gsc.map Prod.snd) := NameEval.findBid_mem _ _ _ hb
      obtain ⟨q', hq', hqb⟩ := List.mem_map.mp hbm
      have hq'T : q' ∈ topOf (t' :: T'') := by rw [hT]; exact List.mem_append_right _ hq'
      have hq'F := topOf_subT _ _ hq'T
      have hbF : b ∈ (t' ++ T''.flatten).map Prod.snd := by
        rw [← hqb]
        simp only [List.flatten_cons] at hq'F
        exact List.mem_map_of_mem hq'F
      rw [List.map_append] at hbF
      exact envGet_envSet_other _ _ _ _ (fun he =>
        hdis q.2 (List.mem_map_of_mem hq) b hbF he)

/-! E2 -/
theorem lookupTop_rel {T : Scs} {env : List (Nat × SVal)} {gs : List Scope} (h : RelS (topOf T) env gs T)
    (gsc : List (Text × Nat)) (hsuf : gsc <:+ topOf T) (n : Text) :
    match findBid gsc n with
    | none => lookupScope (visPart gsc.length (topScope gs)) n = none
    | some b => ∃ ov, lookupScope (visPart gsc.length (topScope gs)) n = some ov ∧ ORel (topOf T) (envGet env b) ov := by
  obtain ⟨d, hd⟩ := hsuf
  have ht := topScope_relT h
  generalize hG : topOf T = G at ht ⊢
  rw [← hd] at hG
  subst hG
  obtain ⟨l1, l2, he, h1, h2⟩ := all2_splitT d gsc ht
  rw [he, visPart_appendT l1 l2 _ (all2_lengthT h2)]
  exact lookupScope_relT h2 n

theorem updateTop_rel {T : Scs} {env : List (Nat × SVal)} {gs : List Scope} (h : RelS (topOf T) env gs T) (hnd : (bids T).Nodup)
    (gsc : List (Text × Nat)) (hsuf : gsc <:+ topOf T) (n : Text) (v : NVal) (w : SVal) (hv : VRel (topOf T) v w) :
    (findBid gsc n = none → updateTop gsc.length gs n v = none) ∧
    (∀ b, findBid gsc n = some b → ∃ gs2, updateTop gsc.length gs n v = some gs2 ∧ RelS (topOf T) (envSet env b w) gs2 T) := by
  obtain ⟨d, hd⟩ := hsuf
  exact updateTop_auxT h hnd d gsc hd.symm n v w hv

end NameEvalFn
end Nl
