/- Every program the compiler model accepts passes the bytecode checker, hence never faults. -/
import Nlmodel.Proofs.Lemmas.EmitCheck
import Nlmodel.Proofs.Lemmas.PoolFun
import Nlmodel.Proofs.Lemmas.CertOf
import Nlmodel.Proofs.Lemmas.ResolveWF
import Nlmodel.Proofs.Lemmas.VerifierSound
namespace Nl
namespace CV
open Verifier Sim

/-- the annotated code of a whole program -/
def progAnn (r : RBlock) : List AI := annB false r 0 none [] 0 0 ++ [(.halt, 0, 0)]

/-- the certificate of a compiled program -/
def progCert (r : RBlock) : Cert := certOf (progAnn r)

theorem progAnn_map (r : RBlock) : (progAnn r).map (·.1) = (emitB r 0 none []).1 ++ [.halt] := by
  simp [progAnn, mapB, trim_false]

theorem progAnn_starts (r : RBlock) : Starts 0 0 (progAnn r) := by
  unfold progAnn
  rcases headB r false 0 none [] 0 0 with ⟨h1, _⟩ | h1
  · rw [h1]; exact .cons _ _ _ _
  · exact h1.append _

theorem progAnn_seg (r : RBlock) : Seg (progCert r) 0 (progAnn r) := by
  have := certOf_seg (progAnn r) []
  simpa [progCert] using this

theorem progAnn_chk (r : RBlock) (hwf : WfB false 0 false r) (hF : FnTab (emitB r 0 none []).2) :
    Chk (progCert r) (fnTable (emitB r 0 none []).2) (emitB r 0 none []).2.length 0 (progAnn r) := by
  have hseg := progAnn_seg r
  unfold progAnn at hseg ⊢
  rw [Seg_append] at hseg
  rw [Chk_append]
  refine ⟨?_, ?_⟩
  · refine ckB _ _ hF r false 0 none [] 0 0 false 0 false hseg.1 (.inr ?_) (fun hb => by cases hb) hwf
      ⟨fun hb => (by cases hb), Nat.zero_le _⟩ (Ext.refl _)
    rw [hOut_false]
    exact succOK_of_get hseg.2.1 (Nat.le_refl _)
  · simp [Chk, checkInstr]

theorem compileR_checkable (r : RBlock) (bc : Bytecode) (hwf : WfB false 0 false r) (hc : compileR r = .ok bc) :
    check bc (progCert r) = true := by
  unfold compileR at hc
  simp only at hc
  split at hc
  · rename_i hfit
    injection hc with hc
    subst hc
    simp only [Bool.and_eq_true, List.all_eq_true] at hfit
    have hfun : Fun (emitB r 0 none []).2 :=
      funB r 0 none [] (fun _ _ _ h => by cases h) (fun _ _ h => by cases h)
    have hF := fnTab_of_fun _ hfun
    have hseg := progAnn_seg r
    have hchk := progAnn_chk r hwf hF
    have hmap := progAnn_map r
    have hwfI : ∀ j ∈ (progAnn r).map (·.1), j.wf := by
      intro j hj; rw [hmap] at hj; exact fits_wf j (hfit.1 j hj)
    unfold check
    simp only [Bool.and_eq_true, List.all_eq_true, decide_eq_true_eq, beq_iff_eq, bne_iff_ne, ne_eq, List.mem_range]
    refine ⟨⟨⟨?_, ?_⟩, ?_⟩, ?_⟩
    · rw [progCert, certOf_size, asize_eq, hmap, List.size_toArray, encodeAll_length]
      exact Nat.le_refl _
    · exact Seg_starts hseg (progAnn_starts r)
    · intro p hp
      unfold fnTable at hp
      rw [List.mem_filterMap] at hp
      obtain ⟨x, hx, hxe⟩ := hp
      cases x with
      | fn ip nl =>
        simp only [Option.some.injEq] at hxe
        subst hxe
        rcases poolB r 0 none [] ip nl hx with h | h
        · cases h
        · refine ⟨⟨?_, ?_⟩, hF ip nl hx⟩
          · have := h.1; simp only; omega
          · refine h.2.2 _ ⟨false, 0, 0, ?_⟩
            unfold progAnn at hseg
            rw [Seg_append] at hseg
            exact hseg.1
      | int _ => simp at hxe
      | float _ => simp at hxe
      | str _ => simp at hxe
    · intro pc _
      cases hg : (progCert r).get pc with
      | none => rfl
      | some q =>
        obtain ⟨o, h⟩ := q
        obtain ⟨A, i, B, hL, hA⟩ := certOf_get_some _ _ _ _ hg
        have hdec : decodeAt (encodeAll ((emitB r 0 none []).1 ++ [.halt])).toArray pc = some i := by
          rw [← hmap, hL, ← hA]
          exact decode_at A B i o h (by rw [← hL]; exact hwfI)
        simp only [hdec]
        rw [hL, Chk_append] at hchk
        have := hchk.2.1
        rw [Nat.zero_add, hA] at this
        exact this
  · cases hc

/-- every program the compiler model accepts passes the bytecode checker -/
theorem compile_checkable (ast : Block) (r : RBlock) (bc : Bytecode)
    (hc : compileProgram ast = .ok (r, bc)) : ∃ c : Verifier.Cert, Verifier.check bc c = true := by
  unfold compileProgram at hc
  cases hr : resolveProgram ast with
  | error e => simp [hr] at hc
  | ok r' =>
    simp only [hr] at hc
    cases hb : compileR r' with
    | error e => simp [hb] at hc
    | ok bc' =>
      simp only [hb] at hc
      injection hc with hc
      injection hc with h1 h2
      subst h1; subst h2
      exact ⟨progCert r', compileR_checkable r' bc' (resolveProgram_wf ast r' hr) hb⟩

end CV
end Nl
