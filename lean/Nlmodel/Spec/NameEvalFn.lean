/-
  A resolver-INDEPENDENT definitional semantics of names WITH FUNCTIONS (property C09, stage-4 source fragment:
  integers, booleans, operators, globals, blocks, `als`, `zolang`, `stop`/`volgende`, named and anonymous function
  literals as whole top-level statements, calls, parameters, locals, `antwoord`, recursion; no heap values).

  It works DIRECTLY ON THE SOURCE TREE.  No resolver, no binder id, no slot in this file.
    * a function value is CLOSURE-FREE: `fn id vis params body` = the parameter NAMES and the body's SOURCE block,
      plus two static attributes of the literal:
        `id`  = the ordinal of the literal (observable only through `==`/`!=` on function values, as `SVal.fn`'s `fid`);
        `vis` = how many top-level declarations precede the body (the literal's own name included): the globals
                VISIBLE AT THE LITERAL.  No value is captured.
    * the environment is: the GLOBAL scope stack `globals` (innermost first; its last element is the top-level
      scope) + the CURRENT ACTIVATION's scope stack `locals` (`vis = none`, `locals = []` at top level).
    * lookup/assignment inside a body: the activation's scopes first (innermost first), then the globals visible at
      the literal = the OLDEST `vis` bindings of the top-level scope.  (Function literals of the fragment stand at top
      level OUTSIDE blocks, where the global stack is exactly the top-level scope, and top-level declarations are never
      removed: so "the oldest `vis` bindings of the top-level scope" IS "the global scopes as they were when the literal
      was read", with the CURRENT values.  This is the resolver's lexical rule; a dynamic lookup at call time would also
      see later top-level re-declarations and the block locals of a top-level caller - it would be dynamic scoping.
      A literal anywhere else - inside a block (U1, DESIGN 4.3) or inside a body - is outside the fragment: `.unspec`.)
    * a call evaluates the arguments left to right, then the callee; more arguments than parameters + declarations
      of the body (`nlocals`, a syntactic attribute, U3) is an argument error; a FRESH activation binds the parameters
      by position (missing ones null); the body is a block in value position; `antwoord v` ends the call with `v`;
      afterwards the caller's activation is put back UNCHANGED.
    * `stel` inside a body declares in the activation's innermost scope.
  Fuel is spent exactly as in `Spec.evalE/evalS/evalBV/evalLoop`.
-/
import Nlmodel.Spec.Eval
namespace Nl
namespace NameEvalFn

/-- values of the fragment (no heap values) -/
inductive NVal where
  | null
  | bool (b : Bool)
  | int (i : Int)
  | float (bits : UInt64)
  | fn (id : Nat) (vis : Nat) (params : List Text) (body : Block)

instance : Inhabited NVal := ⟨.null⟩

/-- one scope: (name, value), newest first; `none` = declared, its initialiser is still running -/
abbrev Scope := List (Text × Option NVal)

structure FState where
  /-- the global scope stack, innermost first; the last one is the top-level scope -/
  globals : List Scope := [[]]
  /-- the current activation's scope stack (empty at top level) -/
  locals : List Scope := []
  /-- `none`: top-level code.  `some k`: code of a function body, which sees the oldest `k` top-level bindings -/
  vis : Option Nat := none
  /-- the register `last` -/
  last : NVal := .null
  out : List Text := []
  /-- number of function literals evaluated so far -/
  nfun : Nat := 0
  deriving Inhabited

inductive FRes (α : Type) where
  | val (a : α) (st : FState)
  | brk (st : FState)
  | cont (st : FState)
  | ret (v : NVal) (st : FState)
  | err (e : Err) (st : FState)
  | unspec (st : FState)
  | fuel

/-! ### values -/

def viewN : NVal → View
  | .null => .null
  | .bool b => .bool b
  | .int i => .int i
  | .float x => .float x
  | .fn id _ _ _ => .fn (id, 0)

def treeN : NVal → Tree
  | .null => .null
  | .bool b => .bool b
  | .int i => .int i
  | .float x => .float x
  | .fn .. => .fn

/-- the result of an operator as a value; strings are outside the fragment -/
def boxN : PRes → Option NVal
  | .null => some .null
  | .bool b => some (.bool b)
  | .int i => some (.int i)
  | .float x => some (.float x)
  | .str _ => none
  | .same => none

/-! ### the environment -/

def lookupScope : Scope → Text → Option (Option NVal)
  | [], _ => none
  | (m, v) :: rest, n => if m = n then some v else lookupScope rest n

/-- first match in the innermost scope that has one -/
def lookup : List Scope → Text → Option (Option NVal)
  | [], _ => none
  | sc :: scs, n =>
    match lookupScope sc n with
    | some v => some v
    | none => lookup scs n

def updateScope : Scope → Text → NVal → Option Scope
  | [], _, _ => none
  | (m, w) :: rest, n, v =>
    if m = n then some ((m, some v) :: rest)
    else
      match updateScope rest n v with
      | some rest' => some ((m, w) :: rest')
      | none => none

/-- assignment updates the binding that `lookup` finds -/
def update : List Scope → Text → NVal → Option (List Scope)
  | [], _, _ => none
  | sc :: scs, n, v =>
    match updateScope sc n v with
    | some sc' => some (sc' :: scs)
    | none =>
      match update scs n v with
      | some scs' => some (sc :: scs')
      | none => none

/-- the oldest `k` bindings of a scope -/
def visPart (k : Nat) (g : Scope) : Scope := g.drop (g.length - k)
def hidPart (k : Nat) (g : Scope) : Scope := g.take (g.length - k)

/-- the top-level scope = the last scope of the global stack -/
def topScope : List Scope → Scope
  | [] => []
  | [g] => g
  | _ :: gs => topScope gs

/-- update inside the visible part of the top-level scope -/
def updateTop (k : Nat) : List Scope → Text → NVal → Option (List Scope)
  | [], _, _ => none
  | [g], n, v =>
    match updateScope (visPart k g) n v with
    | some g' => some [hidPart k g ++ g']
    | none => none
  | g :: gs, n, v =>
    match updateTop k gs n v with
    | some gs' => some (g :: gs')
    | none => none

/-- what a name means: at top level the global scopes; in a body the activation's scopes, then the globals visible
    at the literal -/
def FState.lookup (s : FState) (n : Text) : Option (Option NVal) :=
  match s.vis with
  | none => NameEvalFn.lookup s.globals n
  | some k =>
    match NameEvalFn.lookup s.locals n with
    | some v => some v
    | none => lookupScope (visPart k (topScope s.globals)) n

def FState.assign (s : FState) (n : Text) (v : NVal) : Option FState :=
  match s.vis with
  | none =>
    match update s.globals n v with
    | some gs => some { s with globals := gs }
    | none => none
  | some k =>
    match update s.locals n v with
    | some ls => some { s with locals := ls }
    | none =>
      match updateTop k s.globals n v with
      | some gs => some { s with globals := gs }
      | none => none

/-- the scope stack the running code declares in -/
def FState.cur (s : FState) : List Scope :=
  match s.vis with
  | none => s.globals
  | some _ => s.locals

def FState.setCur (s : FState) (scs : List Scope) : FState :=
  match s.vis with
  | none => { s with globals := scs }
  | some _ => { s with locals := scs }

def FState.push (s : FState) : FState := s.setCur ([] :: s.cur)
def FState.pop (s : FState) : FState := s.setCur s.cur.tail

/-- `stel n`: a new binding in the innermost scope of the running code, no value yet -/
def FState.declare (s : FState) (n : Text) : FState :=
  match s.cur with
  | [] => s.setCur [[(n, none)]]
  | sc :: scs => s.setCur (((n, none) :: sc) :: scs)

/-- leaving a block: whatever the outcome, the block's scope is gone -/
def popRes {α : Type} : FRes α → FRes α
  | .val a st => .val a st.pop
  | .brk st => .brk st.pop
  | .cont st => .cont st.pop
  | .ret v st => .ret v st.pop
  | .err e st => .err e st.pop
  | .unspec st => .unspec st.pop
  | .fuel => .fuel

def binOf : Op → Option BinOp
  | .add => some .add | .sub => some .sub | .mul => some .mul | .div => some .div
  | .mod => some .mod | .gt => some .gt | .gte => some .gte | .lt => some .lt | .lte => some .lte
  | .eq => some .eq | .neq => some .neq | .and => some .and | .or => some .or
  | _ => none

/-- the callee is written as the name of a builtin: outside the fragment -/
def builtinCallee : Expr → Bool
  | .ident n => (Builtin.resolve n).isSome
  | _ => false

/-! ### functions -/

/-- the parameter scope of a fresh activation: by position, missing arguments are null, surplus ones are dropped;
    newest first, as if the parameters had been declared one after the other -/
def bindN : Scope → List Text → List NVal → Scope
  | sc, [], _ => sc
  | sc, p :: ps, [] => bindN ((p, some .null) :: sc) ps []
  | sc, p :: ps, a :: as => bindN ((p, some a) :: sc) ps as

mutual
/-- number of declarations (`stel`) in a piece of body text -/
def letsE : Expr → Nat
  | .infix l _ r => letsE l + letsE r
  | .pre _ r => letsE r
  | .ifE c t e => letsE c + letsB t + letsO e
  | .call f as => letsEs as + letsE f
  | .assign l r => letsE l + letsE r
  | .arr vs => letsEs vs
  | .index l i => letsE l + letsE i
  | .whileE c b => letsE c + letsB b
  | _ => 0
def letsEs : Exprs → Nat
  | .nil => 0
  | .cons e es => letsE e + letsEs es
def letsO : OptBlock → Nat
  | .none => 0
  | .some b => letsB b
def letsS : Stmt → Nat
  | .letS _ e => 1 + letsE e
  | .ret e => letsE e
  | .expr e => letsE e
  | .block b => letsB b
  | .brk => 0
  | .cont => 0
def letsB : Block → Nat
  | .nil => 0
  | .cons s b => letsS s + letsB b
end

/-- the number of variables of a function: parameters + declarations in its body (a syntactic attribute, U3) -/
def nlocals (ps : List Text) (body : Block) : Nat := ps.length + letsB body

/-- the end of a call: the result of the body becomes the value of the call, the CALLER's activation
    (`saved.locals`, `saved.vis`) is put back -/
def finishCall (saved : FState) : FRes NVal → FRes NVal
  | .val v st => .val v { st with locals := saved.locals, vis := saved.vis }
  | .ret v st => .val v { st with locals := saved.locals, vis := saved.vis }
  | .brk st => .unspec st                -- excluded by the static rules
  | .cont st => .unspec st
  | .err e st => .err e st
  | .unspec st => .unspec st
  | .fuel => .fuel

/-- the start of a call: a fresh activation whose only scope holds the parameters -/
def enterCall (st : FState) (vis : Nat) (ps : List Text) (xs : List NVal) : FState :=
  { st with locals := [bindN [] ps xs], vis := some vis }

mutual
def evalE : Nat → Expr → FState → FRes NVal
  | 0, _, _ => .fuel
  | f + 1, e, st =>
    match e with
    | .int v => .val (.int v) st
    | .bool b => .val (.bool b) st
    | .ident n =>
      match st.lookup n with
      | some (some v) => .val v st
      | some none => .unspec st        -- U2: read in its own initialiser
      | none => .unspec st             -- excluded by `declaredFn`
    | .pre .not r =>
      match evalE f r st with
      | .val (.bool b) st1 => .val (.bool (!b)) st1
      | .val _ st1 => .err .type st1
      | o => o
    | .pre .sub r =>
      match evalE f r st with
      | .val (.int i) st1 => if inRange (-i) then .val (.int (-i)) st1 else .err .type st1
      | .val (.float x) st1 => .val (.float (F64.neg x)) st1
      | .val _ st1 => .err .type st1
      | o => o
    | .pre .negate r =>
      match evalE f r st with
      | .val (.int i) st1 => if inRange (-i) then .val (.int (-i)) st1 else .err .type st1
      | .val (.float x) st1 => .val (.float (F64.neg x)) st1
      | .val _ st1 => .err .type st1
      | o => o
    | .infix l op r =>
      match binOf op with
      | none => .unspec st
      | some bop =>
        match evalE f l st with
        | .val a st1 =>
          match evalE f r st1 with
          | .val b st2 =>
            match binopCore bop (viewN a) (viewN b) with
            | .ok p =>
              match boxN p with
              | some v => .val v st2
              | none => .unspec st2      -- strings: outside the fragment
            | .error e => .err e st2
          | o => o
        | o => o
    | .assign (.ident n) e =>
      match evalE f e st with
      | .val v st1 =>
        match st1.assign n v with
        | some st2 => .val v st2
        | none => .unspec st1          -- excluded by `declaredFn`
      | o => o
    | .ifE c t e =>
      match evalE f c st with
      | .val (.bool true) st1 => popRes (evalBVs f t st1.push)
      | .val (.bool false) st1 =>
        match e with
        | .none => .val .null st1
        | .some b => popRes (evalBVs f b st1.push)
      | .val _ st1 => .err .type st1
      | o => o
    | .whileE c b => evalLoop f c b .null st
    | .func name ps body =>
      match st.vis, st.globals with
      | none, [g] =>
        -- a literal at top level, outside blocks.  A named literal declares its name in the scope where it
        -- stands BEFORE its body (the body sees the name) and binds it to the function.
        if name.isEmpty then
          .val (.fn st.nfun g.length ps body) { st with nfun := st.nfun + 1 }
        else
          .val (.fn st.nfun (g.length + 1) ps body)
            { st with globals := [(name, some (.fn st.nfun (g.length + 1) ps body)) :: g], nfun := st.nfun + 1 }
      | _, _ => .unspec st             -- inside a block (U1) or inside a body: outside the fragment
    | .call fe as =>
      if builtinCallee fe then .unspec st else
      -- arguments first (left to right), then the callee
      match evalEs f as st with
      | .val xs st1 =>
        match evalE f fe st1 with
        | .val (.fn _ vis ps body) st2 =>
          if xs.length > nlocals ps body then .err .argument st2
          else finishCall st2 (popRes (evalBVs f body (enterCall st2 vis ps xs).push))
        | .val _ st2 => .err .type st2
        | o => o
      | .brk s => .brk s | .cont s => .cont s | .ret v s => .ret v s
      | .err e s => .err e s | .unspec s => .unspec s | .fuel => .fuel
    | _ => .unspec st                  -- outside the fragment

def evalEs : Nat → Exprs → FState → FRes (List NVal)
  | 0, _, _ => .fuel
  | f + 1, es, st =>
    match es with
    | .nil => .val [] st
    | .cons e rest =>
      match evalE f e st with
      | .val v st1 =>
        match evalEs f rest st1 with
        | .val vs st2 => .val (v :: vs) st2
        | o => o
      | .brk s => .brk s | .cont s => .cont s | .ret v s => .ret v s
      | .err e s => .err e s | .unspec s => .unspec s | .fuel => .fuel

/-- `zolang`, as `Spec.evalLoop`; the body is a block: its scope is pushed and popped every iteration -/
def evalLoop : Nat → Expr → Block → NVal → FState → FRes NVal
  | 0, _, _, _, _ => .fuel
  | f + 1, c, b, acc, st =>
    match evalE f c st with
    | .val (.bool false) st1 => .val acc st1
    | .val (.bool true) st1 =>
      match popRes (evalBVs f b ({ st1 with last := acc } : FState).push) with
      | .val v st2 => evalLoop f c b v st2
      | .brk st2 => .val .null st2
      | .cont st2 => evalLoop f c b .null st2
      | o => o
    | .val _ st1 => .err .type st1
    | .brk st1 => .val .null st1
    | .cont st1 => evalLoop f c b .null st1
    | o => o

def evalS : Nat → Stmt → FState → FRes Unit
  | 0, _, _ => .fuel
  | f + 1, s, st =>
    match s with
    | .expr e =>
      match evalE f e st with
      | .val v st1 => .val () { st1 with last := v }
      | .brk s => .brk s | .cont s => .cont s | .ret v s => .ret v s
      | .err e s => .err e s | .unspec s => .unspec s | .fuel => .fuel
    | .letS n e =>
      match evalE f e (st.declare n) with
      | .val v st1 =>
        match st1.assign n v with
        | some st2 => .val () st2
        | none => .unspec st1          -- impossible: `n` was just declared
      | .brk s => .brk s | .cont s => .cont s | .ret v s => .ret v s
      | .err e s => .err e s | .unspec s => .unspec s | .fuel => .fuel
    | .ret e =>
      match evalE f e st with
      | .val v st1 => .ret v st1
      | .brk s => .brk s | .cont s => .cont s | .ret v s => .ret v s
      | .err e s => .err e s | .unspec s => .unspec s | .fuel => .fuel
    | .block b => popRes (evalSs f b st.push)
    | .brk => .brk st
    | .cont => .cont st

/-- statements in sequence in the current scope (statement position) -/
def evalSs : Nat → Block → FState → FRes Unit
  | 0, _, _ => .fuel
  | f + 1, b, st =>
    match b with
    | .nil => .val () st
    | .cons s rest =>
      match evalS f s st with
      | .val () st1 => evalSs f rest st1
      | o => o

/-- statements in sequence in the current scope, in value position (as `Spec.evalBV`) -/
def evalBVs : Nat → Block → FState → FRes NVal
  | 0, _, _ => .fuel
  | f + 1, b, st =>
    match b with
    | .nil => .val .null st
    | .cons (.expr e) .nil => evalE f e st
    | .cons (.block (.cons s b')) .nil => popRes (evalBVs f (.cons s b') st.push)
    | .cons s .nil =>
      match evalS f s st with
      | .val () st1 => .val .null st1
      | .brk s => .brk s | .cont s => .cont s | .ret v s => .ret v s
      | .err e s => .err e s | .unspec s => .unspec s | .fuel => .fuel
    | .cons s rest =>
      match evalS f s st with
      | .val () st1 => evalBVs f rest st1
      | .brk s => .brk s | .cont s => .cont s | .ret v s => .ret v s
      | .err e s => .err e s | .unspec s => .unspec s | .fuel => .fuel
end

/-- a whole program: the top level is one scope -/
def evalProgram (fuel : Nat) (p : Block) : Spec.Outcome :=
  match evalSs fuel p {} with
  | .val () st => .value (treeN st.last) st.out
  | .err e st => .error e st.out
  | .unspec _ => .unspec
  | .fuel => .fuel
  | .brk _ | .cont _ | .ret _ _ => .unspec

/-! ### the static rule with functions (`declaredFn`)

  `g = none`: top-level code, `sc` = the global scopes.
  `g = some names`: code of a function body, `sc` = the scopes OF THE BODY (parameters, then its blocks), `names` = the
  globals visible at the literal.  Nothing else is consulted: in particular no scope of an enclosing function or of a
  caller exists in the rule. -/

def visible (sc : List (List Text)) (n : Text) : Bool := sc.any (fun s => s.contains n)

def visibleFn (g : Option (List Text)) (sc : List (List Text)) (n : Text) : Bool :=
  visible sc n || (match g with | some names => names.contains n | none => false)

def addName (sc : List (List Text)) (n : Text) : List (List Text) :=
  match sc with
  | [] => [[n]]
  | s :: ss => (n :: s) :: ss

/-- the scopes after a statement: `stel` adds a name, and so does a named function literal standing as a statement -/
def scopeAfter (sc : List (List Text)) : Stmt → List (List Text)
  | .letS n _ => addName sc n
  | .expr (.func name _ _) => if name.isEmpty then sc else addName sc name
  | _ => sc

mutual
def declE (g : Option (List Text)) (sc : List (List Text)) : Expr → Bool
  | .int _ => true
  | .bool _ => true
  | .ident n => visibleFn g sc n
  | .pre _ r => declE g sc r
  | .infix l _ r => declE g sc l && declE g sc r
  | .assign (.ident n) e => visibleFn g sc n && declE g sc e
  | .ifE c t e => declE g sc c && declSs g ([] :: sc) t && declO g sc e
  | .whileE c b => declE g sc c && declSs g ([] :: sc) b
  | .call f as => !builtinCallee f && declEs g sc as && declE g sc f
  | .func name ps body =>
    -- only at top level outside blocks; the body sees: its parameters, its own declarations, and the top-level names
    -- declared so far (its own name included)
    match g, sc with
    | none, [top] => declSs (some (if name.isEmpty then top else name :: top)) [[], ps.reverse] body
    | _, _ => false
  | _ => false                         -- outside the fragment
def declEs (g : Option (List Text)) (sc : List (List Text)) : Exprs → Bool
  | .nil => true
  | .cons e es => declE g sc e && declEs g sc es
def declO (g : Option (List Text)) (sc : List (List Text)) : OptBlock → Bool
  | .none => true
  | .some b => declSs g ([] :: sc) b
def declS (g : Option (List Text)) (sc : List (List Text)) : Stmt → Bool
  | .expr e => declE g sc e
  | .letS n e => declE g (addName sc n) e
  | .ret e => declE g sc e
  | .block b => declSs g ([] :: sc) b
  | .brk => true
  | .cont => true
/-- statements in sequence in the current scope -/
def declSs (g : Option (List Text)) (sc : List (List Text)) : Block → Bool
  | .nil => true
  | .cons s b => declS g sc s && declSs g (scopeAfter sc s) b
end

/-- `declaredFn p`: in the program text `p` every use of a name is in the scope of a declaration of that name, where a
    function body sees its parameters, its own declarations made before in an enclosing block OF THE BODY, and the
    globals visible at the literal -/
def declaredFn (p : Block) : Bool := declSs none [[]] p

end NameEvalFn
end Nl
