/- C07 extras, common part: determinism of the parser in its fuel, program-level transfer to the
   fuel `parse` supplies, statement prefixes, single loop steps. -/
import Nlmodel.Proofs.Lemmas.RoundTrip
namespace Nl
namespace C07X
open RT RTF

/-! ### the result does not depend on the fuel -/

theorem expr_det {f g p : Nat} {ts : List Token} {R R' : Expr × List Token}
    (h : parseExpr f p ts = .ok R) (h' : parseExpr g p ts = .ok R') : R = R' :=
  Except.ok.inj ((expr_le (Nat.le_max_left f g) h).symm.trans (expr_le (Nat.le_max_right f g) h'))

theorem pre_det {f g : Nat} {ts : List Token} {R R' : Expr × List Token}
    (h : parsePrefix f ts = .ok R) (h' : parsePrefix g ts = .ok R') : R = R' :=
  Except.ok.inj ((pre_le (Nat.le_max_left f g) h).symm.trans (pre_le (Nat.le_max_right f g) h'))

theorem stmt_det {f g : Nat} {ts : List Token} {R R' : Stmt × List Token}
    (h : parseStatement f ts = .ok R) (h' : parseStatement g ts = .ok R') : R = R' :=
  Except.ok.inj ((stmt_le (Nat.le_max_left f g) h).symm.trans (stmt_le (Nat.le_max_right f g) h'))

/-- from SOME fuel to the fuel `parse` supplies -/
theorem parseTokens_of_stmts {ts : List Token} {b : Block} {rest : List Token} {f : Nat}
    (h : parseStmts f false ts = .ok (b, rest)) : parseTokens ts = .ok b := by
  unfold parseTokens
  have hgood := (PF.all (parseFuel ts)).stmts false ts (by unfold parseFuel; omega)
  have key : parseStmts (parseFuel ts) false ts = .ok (b, rest) := by
    by_cases hle : f ≤ parseFuel ts
    · exact stmts_le hle h
    · have hne : parseStmts (parseFuel ts) false ts ≠ .error .fuel := by
        intro he; rw [he] at hgood; exact hgood rfl
      have := PSt.stmts_stable_le (Nat.le_of_lt (Nat.lt_of_not_le hle)) false ts _ rfl hne
      rw [h] at this
      exact this.symm
  rw [key]

/-- one iteration of the statement loop -/
theorem stmts_step {f1 f2 : Nat} {ib : Bool} {ts ts1 rest : List Token} {s : Stmt} {b : Block}
    (hc1 : cur ts ≠ .eof) (hc2 : cur ts ≠ .rbrace)
    (h1 : parseStatement f1 ts = .ok (s, ts1)) (h2 : parseStmts f2 ib ts1 = .ok (b, rest)) :
    parseStmts (max f1 f2 + 1) ib ts = .ok (.cons s b, rest) := by
  rw [parseStmts]
  have hcond : (decide (cur ts = Token.eof) || ib && decide (cur ts = Token.rbrace)) = false := by
    simp [hc1, hc2]
  simp only [hcond, Bool.false_eq_true, ↓reduceIte]
  rw [stmt_le (Nat.le_max_left f1 f2) h1]
  simp only
  rw [stmts_le (Nat.le_max_right f1 f2) h2]

/-- printed statements in front of ANY token list that parses as a statement sequence -/
theorem stmts_prefix : (b1 : Block) → WB b1 → ∀ (ib : Bool) (X : List Token) (b2 : Block) (rest : List Token),
    (∃ f, parseStmts f ib X = .ok (b2, rest)) → ∃ f, parseStmts f ib (printStmts b1 ++ X) = .ok (b1.append b2, rest)
  | .nil, _, ib, X, b2, rest, h => by simpa [printStmts, Block.append] using h
  | .cons s b, .cons _ _ hs hb, ib, X, b2, rest, h => by
    obtain ⟨f2, h2⟩ := stmts_prefix b hb ib X b2 rest h
    obtain ⟨f1, h1⟩ := gS s hs (printStmts b ++ X)
    obtain ⟨c1, c2⟩ := cur_stmt s hs (printStmts b ++ X)
    have hts : printStmts (.cons s b) ++ X = printS s ++ (printStmts b ++ X) := by simp [printStmts, List.append_assoc]
    rw [hts]
    exact ⟨_, by simpa [Block.append] using stmts_step c1 c2 h1 h2⟩

/-- the end of a program -/
theorem stmts_end (ib : Bool) (rest : List Token) (h : cur rest = .eof ∨ (ib = true ∧ cur rest = .rbrace)) :
    parseStmts 1 ib rest = .ok (.nil, rest) := by
  rw [parseStmts]
  rcases h with h | ⟨h1, h2⟩
  · simp [h]
  · simp [h1, h2]

/-! ### single steps of `parse_expr` -/

theorem ident_prefix (k : Nat) (a : Text) (X : List Token) : parsePrefix (k + 1) (.ident a :: X) = .ok (.ident a, X) := by
  rw [parsePrefix]; rfl

/-- the loop at `=` -/
theorem loop_assign (g p : Nat) (l : Expr) (ha : assignable l = true) (hp : p = 0) (ts1 : List Token) :
    parseLoop (g + 1) p l (.assign :: ts1) =
      (match parseExpr g 1 ts1 with
       | .ok (r, ts2) => parseLoop g p (.assign l r) ts2
       | .error e => .error e) := by
  subst hp
  rw [parseLoop]
  have hsemi : ¬ (Token.assign = Token.semi) := by decide
  have hcc : (!assignable l) = false := by simp [ha]
  simp only [cur, adv, hsemi, hcc, Token.binop, ↓reduceIte, Bool.false_eq_true]
  cases parseExpr g 1 ts1 with
  | error e => rfl
  | ok pr => obtain ⟨r, ts2⟩ := pr; rfl

/-- the loop at a binary operator directly followed by `=` with a NAME on the left: `parse_op_assign_expression` -/
theorem loop_compound (g p : Nat) (a : Text) (op : Op) (hop : isBin op) (ts1 : List Token) (hp : p < docLevel op) :
    parseLoop (g + 1) p (.ident a) (opToken op :: .assign :: ts1) =
      (match parseExpr g 0 ts1 with
       | .ok (r, ts2) => parseLoop g p (.assign (.ident a) (.infix (.ident a) op r)) ts2
       | .error e => .error e) := by
  obtain ⟨h1, h2, _, _, h5, _⟩ := op_facts op hop
  rw [parseLoop]
  have c1 : cur (opToken op :: .assign :: ts1) = opToken op := rfl
  have a1 : adv (opToken op :: .assign :: ts1) = .assign :: ts1 := rfl
  have c2 : cur (Token.assign :: ts1) = .assign := rfl
  have a2 : adv (Token.assign :: ts1) = ts1 := rfl
  have d1 : (!decide (p < docLevel op)) = false := by simp [hp]
  simp only [c1, a1, c2, a2, h5, ↓reduceIte, Bool.false_eq_true, h2, h1, d1, isFunc, isIdent, decide_true, Bool.and_self]
  cases parseExpr g 0 ts1 with
  | error e => rfl
  | ok pr => obtain ⟨r, ts2⟩ := pr; rfl

/-- a printed expression in a top position: caller level 0, followed by something that stops every expression -/
theorem top_ok (e : Expr) (he : WE e) (rest : List Token) (hne : NoElse rest) (hs : Stops 0 rest) :
    ∃ f, parseExpr f 0 (printE e ++ rest) = .ok (e, rest) :=
  gE e he 0 rest (e, rest) (ctx_top e he rest hne hs) ⟨1, loop_stop hs⟩

end C07X
end Nl
