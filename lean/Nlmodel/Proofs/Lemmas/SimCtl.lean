/- Forward simulation, stage 3 (C01, C11): `als`/`anders`, `zolang`, `stop`, `volgende`, nested blocks
   with their scopes, over global scalar variables.  One induction on the fuel of the definitional
   semantics proves the five statements `PE/PBV/PS/PB/PL` together. -/
import Nlmodel.Proofs.Lemmas.SimCtlBase
namespace Nl
namespace Sim
open Spec

/-! ### composition -/

theorem Reach.prefix {Γ : Gam} {C : Code} {s0 : VM} {ip : Nat} {stk g : Array Value} {l : Value}
    {ip1 : Nat} {stk1 g1 : Array Value} {l1 : Value} {ip2 : Nat} {stk2 : Array Value} {st st1 st2 : SState} (n : Nat)
    (hpre : execN C n (setv s0 ip stk g l) = some (setv s0 ip1 stk1 g1 l1))
    (ho : st1.out = st.out) (hle : st1.lenv = st.lenv)
    (h : Reach Γ C s0 ip1 stk1 g1 l1 ip2 stk2 st1 st2) : Reach Γ C s0 ip stk g l ip2 stk2 st st2 := by
  obtain ⟨g', l', m, hm, hr, hl, ho2, hle2⟩ := h
  exact ⟨g', l', n + m, execN_add C n m _ _ _ hpre hm, hr, hl, by rw [ho2, ho], by rw [hle2, hle]⟩

theorem GoalV.prefix {Γ : Gam} {ab : Bool} {lp : LoopCtx} {C : Code} {s0 : VM} {ip : Nat} {stk g : Array Value} {l : Value}
    {ip1 : Nat} {stk1 g1 : Array Value} {l1 : Value} {endIp : Nat} {base : Array Value} {st st1 : SState} {r : Res SVal}
    (n : Nat) (hpre : execN C n (setv s0 ip stk g l) = some (setv s0 ip1 stk1 g1 l1))
    (ho : st1.out = st.out) (hle : st1.lenv = st.lenv)
    (h : GoalV Γ ab lp C s0 ip1 stk1 g1 l1 endIp base st1 r) : GoalV Γ ab lp C s0 ip stk g l endIp base st r := by
  cases r with
  | val v st' => obtain ⟨mv, hmv, hre⟩ := h; exact ⟨mv, hmv, hre.prefix n hpre ho hle⟩
  | brk st' => exact ⟨h.1, h.2.prefix n hpre ho hle⟩
  | cont st' => exact ⟨h.1, h.2.prefix n hpre ho hle⟩
  | err er st' => exact Fails.after n hpre h
  | ret _ _ => exact h
  | fuel => trivial
  | unspec _ => trivial

theorem GoalU.prefix {Γ Γ' : Gam} {ab : Bool} {lp : LoopCtx} {C : Code} {s0 : VM} {ip : Nat} {stk g : Array Value} {l : Value}
    {ip1 : Nat} {g1 : Array Value} {l1 : Value} {endIp : Nat} {st st1 : SState} {r : Res Unit}
    (n : Nat) (hpre : execN C n (setv s0 ip stk g l) = some (setv s0 ip1 stk g1 l1))
    (ho : st1.out = st.out) (hle : st1.lenv = st.lenv)
    (h : GoalU Γ Γ' ab lp C s0 ip1 stk g1 l1 endIp st1 r) : GoalU Γ Γ' ab lp C s0 ip stk g l endIp st r := by
  cases r with
  | val v st' => exact Reach.prefix n hpre ho hle h
  | brk st' => exact ⟨h.1, h.2.prefix n hpre ho hle⟩
  | cont st' => exact ⟨h.1, h.2.prefix n hpre ho hle⟩
  | err er st' => exact Fails.after n hpre h
  | ret _ _ => exact h
  | fuel => trivial
  | unspec _ => trivial

/-- a step that touches neither globals nor `last`, appended to a `Reach` -/
theorem Reach.then {Γ : Gam} {C : Code} {s0 : VM} {ip : Nat} {stk g : Array Value} {l : Value}
    {ip1 : Nat} {stk1 : Array Value} {ip2 : Nat} {stk2 : Array Value} {st st' : SState}
    (h : Reach Γ C s0 ip stk g l ip1 stk1 st st')
    (hs : ∀ g' l', step C (setv s0 ip1 stk1 g' l') = .next (setv s0 ip2 stk2 g' l')) :
    Reach Γ C s0 ip stk g l ip2 stk2 st st' := by
  obtain ⟨g', l', n, hn, hr, hl, ho, hle⟩ := h
  exact ⟨g', l', n + 1, execN_step C n _ _ _ hn (hs g' l'), hr, hl, ho, hle⟩

/-! ### the five statements -/

def PE (f : Nat) : Prop := ∀ (Γ : Gam) (ab : Bool) (e : RExpr), XE Γ ab e → GamOK Γ →
  ∀ (st : SState) (pos : Nat) (lp : LoopCtx) (cs : List Const) (C : Code) (s0 : VM) (stk g : Array Value) (l : Value),
  CodeAt C pos (emitE e pos lp cs).1 → PoolOK s0.cvals (emitE e pos lp cs).2 → Rel Γ st g → LastRel st l →
  GoalV Γ ab lp C s0 pos stk g l (pos + sizeE e) stk st (evalE f e st)

def PBV (f : Nat) : Prop := ∀ (Γ : Gam) (ab : Bool) (b : RBlock) (Γ1 : Gam), XB Γ ab b Γ1 → GamOK Γ →
  ∀ (st : SState) (pos : Nat) (lp : LoopCtx) (cs : List Const) (C : Code) (s0 : VM) (stk g : Array Value) (l : Value),
  CodeAt C pos (asValue b (emitB b pos lp cs).1) → PoolOK s0.cvals (emitB b pos lp cs).2 → Rel Γ st g → LastRel st l →
  GoalV Γ ab lp C s0 pos stk g l (pos + sizeBV b) stk st (evalBV f b st)

def PS (f : Nat) : Prop := ∀ (Γ : Gam) (ab : Bool) (s : RStmt) (Γ1 : Gam), XS Γ ab s Γ1 → GamOK Γ →
  ∀ (st : SState) (pos : Nat) (lp : LoopCtx) (cs : List Const) (C : Code) (s0 : VM) (stk g : Array Value) (l : Value),
  CodeAt C pos (emitS s pos lp cs).1 → PoolOK s0.cvals (emitS s pos lp cs).2 → Rel Γ st g → LastRel st l →
  GoalU Γ Γ1 ab lp C s0 pos stk g l (pos + sizeS s) st (evalS f s st)

def PB (f : Nat) : Prop := ∀ (Γ : Gam) (ab : Bool) (b : RBlock) (Γ1 : Gam), XB Γ ab b Γ1 → GamOK Γ →
  ∀ (st : SState) (pos : Nat) (lp : LoopCtx) (cs : List Const) (C : Code) (s0 : VM) (stk g : Array Value) (l : Value),
  CodeAt C pos (emitB b pos lp cs).1 → PoolOK s0.cvals (emitB b pos lp cs).2 → Rel Γ st g → LastRel st l →
  GoalU Γ Γ1 ab lp C s0 pos stk g l (pos + sizeB b) st (evalB f b st)

def PL (f : Nat) : Prop := ∀ (Γ : Gam) (ab : Bool) (c : RExpr) (b : RBlock) (Γ1 : Gam), XE Γ false c → XB Γ true b Γ1 → GamOK Γ →
  ∀ (st : SState) (pos : Nat) (lp : LoopCtx) (cs : List Const) (C : Code) (s0 : VM) (stk g : Array Value) (l : Value)
    (acc : SVal) (accv : Value), toVal acc = some accv →
  CodeAt C pos (emitE (.whileE c b) pos lp cs).1 → PoolOK s0.cvals (emitE (.whileE c b) pos lp cs).2 → Rel Γ st g → LastRel st l →
  GoalV Γ ab lp C s0 (pos + 1) (stk.push accv) g l (pos + sizeE (.whileE c b)) stk st (evalLoop f c b acc st)

structure PAll (f : Nat) : Prop where
  e : PE f
  bv : PBV f
  s : PS f
  b : PB f
  l : PL f

/-! ### expressions -/

/-- unary operators share their shape: evaluate the operand, then one instruction -/
theorem goalV_unary {Γ : Gam} {ab : Bool} {lp : LoopCtx} {C : Code} {s0 : VM} {pos : Nat} {stk g : Array Value} {l : Value}
    {st : SState} {sz : Nat} (ins : Instr) (hsz : ins.size = 1) (r : Res SVal) (post : SVal → SState → Res SVal)
    (hc2 : CodeAt C (pos + sz) [ins])
    (h : GoalV Γ ab lp C s0 pos stk g l (pos + sz) stk st r)
    (hpost : ∀ v st1 mv, toVal v = some mv →
      (∃ w mw, post v st1 = .val w st1 ∧ toVal w = some mw ∧
        ∀ g1 l1, exec ins (pos + sz + 1) (setv s0 (pos + sz) (stk.push mv) g1 l1) = .next (setv s0 (pos + sz + 1) (stk.push mw) g1 l1)) ∨
      (∃ er, post v st1 = .err er st1 ∧ ∀ g1 l1, ∃ s2, exec ins (pos + sz + 1) (setv s0 (pos + sz) (stk.push mv) g1 l1) = .error er s2)) :
    GoalV Γ ab lp C s0 pos stk g l (pos + (sz + 1)) stk st
      (match (generalizing := false) r with | .val v st1 => post v st1 | o => o) := by
  cases r with
  | val v st1 =>
    obtain ⟨mv, hmv, g1, l1, n, hn, hrel1, hl1, ho1, hle1⟩ := h
    simp only
    rcases hpost v st1 mv hmv with ⟨w, mw, hp, hmw, hex⟩ | ⟨er, hp, hex⟩
    · rw [hp]
      refine ⟨mw, hmw, g1, l1, n + 1, ?_, hrel1, hl1, ho1, hle1⟩
      apply execN_step C n _ _ _ hn
      rw [step_exec hc2, hsz, hex g1 l1, Nat.add_assoc]
    · rw [hp]
      obtain ⟨s2, hs2⟩ := hex g1 l1
      exact ⟨n, _, s2, hn, by rw [step_exec hc2, hsz, hs2]⟩
  | brk st' => exact h
  | cont st' => exact h
  | err er st' => exact h
  | ret _ _ => exact h
  | fuel => trivial
  | unspec _ => trivial

theorem pe_int (f : Nat) {Γ ab} (v : Int) {st : SState} {pos : Nat} {lp : LoopCtx} {cs : List Const} {C : Code} {s0 : VM} {stk g : Array Value} {l : Value}
    (hcode : CodeAt C pos (emitE (.int v) pos lp cs).1) (hpool : PoolOK s0.cvals (emitE (.int v) pos lp cs).2)
    (hrel : Rel Γ st g) (hlast : LastRel st l) :
    GoalV Γ ab lp C s0 pos stk g l (pos + sizeE (.int v)) stk st (evalE (f + 1) (.int v) st) := by
  simp only [evalE, GoalV, emitE] at hcode hpool ⊢
  have hk := hpool _ v (addConst_int_index cs v)
  exact ⟨.int v, rfl, g, l, 1, execN_one C _ _ (step_const_int hcode hk), hrel, hlast, rfl, rfl⟩

theorem pe_bool (f : Nat) {Γ ab} (b : Bool) {st : SState} {pos : Nat} {lp : LoopCtx} {cs : List Const} {C : Code} {s0 : VM} {stk g : Array Value} {l : Value}
    (hcode : CodeAt C pos (emitE (.bool b) pos lp cs).1)
    (hrel : Rel Γ st g) (hlast : LastRel st l) :
    GoalV Γ ab lp C s0 pos stk g l (pos + sizeE (.bool b)) stk st (evalE (f + 1) (.bool b) st) := by
  simp only [evalE, GoalV, emitE] at hcode ⊢
  refine ⟨.bool b, rfl, g, l, 1, ?_, hrel, hlast, rfl, rfl⟩
  cases b
  · exact execN_one C _ _ (step_false hcode)
  · exact execN_one C _ _ (step_true hcode)

theorem pe_var (f : Nat) {Γ ab} (b k : Nat) (hm : (b, k) ∈ Γ) {st : SState} {pos : Nat} {lp : LoopCtx} {cs : List Const} {C : Code} {s0 : VM} {stk g : Array Value} {l : Value}
    (hcode : CodeAt C pos (emitE (.var ⟨b, .global k⟩) pos lp cs).1)
    (hrel : Rel Γ st g) (hlast : LastRel st l) :
    GoalV Γ ab lp C s0 pos stk g l (pos + sizeE (.var ⟨b, .global k⟩)) stk st (evalE (f + 1) (.var ⟨b, .global k⟩) st) := by
  simp only [evalE, emitE, getVar] at hcode ⊢
  simp only [SState.lookup, isGlobalSlot, ↓reduceIte]
  cases hl : envGet st.genv b with
  | none => simp [GoalV]
  | some v =>
    obtain ⟨mv, hmv, hg⟩ := hrel b k hm v hl
    simp only [GoalV]
    refine ⟨mv, hmv, g, l, 1, ?_, hrel, hlast, rfl, rfl⟩
    rw [← hg]
    exact execN_one C _ _ (step_getGlobal hcode)

theorem pe_not (f : Nat) (ih : PE f) {Γ ab} (e1 : RExpr) (h1 : XE Γ ab e1) (hok : GamOK Γ) {st : SState} {pos : Nat} {lp : LoopCtx} {cs : List Const} {C : Code} {s0 : VM} {stk g : Array Value} {l : Value}
    (hcode : CodeAt C pos (emitE (.not e1) pos lp cs).1) (hpool : PoolOK s0.cvals (emitE (.not e1) pos lp cs).2)
    (hrel : Rel Γ st g) (hlast : LastRel st l) :
    GoalV Γ ab lp C s0 pos stk g l (pos + sizeE (.not e1)) stk st (evalE (f + 1) (.not e1) st) := by
  simp only [emitE] at hcode hpool
  obtain ⟨hc1, hc2⟩ := hcode.append
  rw [emitE_size] at hc2
  have h := ih Γ ab e1 h1 hok st pos lp cs C s0 stk g l hc1 hpool hrel hlast
  have e : evalE (f + 1) (.not e1) st = (match evalE f e1 st with
      | .val v st1 => (match v with | .bool b => Res.val (.bool (!b)) st1 | _ => .err .type st1) | o => o) := by
    simp only [evalE]
    cases evalE f e1 st with
    | val v st1 => cases v <;> rfl
    | _ => rfl
  rw [e]
  simp only [sizeE]
  exact goalV_unary (ins := .not) rfl (evalE f e1 st)
    (fun v st1 => match v with | .bool b => .val (.bool (!b)) st1 | _ => .err .type st1) hc2 h
    (by
      intro v st1 mv hmv
      cases v <;> simp [toVal] at hmv <;> subst hmv
      · exact .inr ⟨.type, rfl, fun g1 l1 => ⟨_, by simp only [exec, setv_stack, pop1_push]; rfl⟩⟩
      · rename_i bb
        exact .inl ⟨.bool (!bb), .bool (!bb), rfl, rfl, fun g1 l1 => by simp [exec, pop1_push, setv]⟩
      · exact .inr ⟨.type, rfl, fun g1 l1 => ⟨_, by simp only [exec, setv_stack, pop1_push]; rfl⟩⟩)

theorem pe_neg (f : Nat) (ih : PE f) {Γ ab} (e1 : RExpr) (h1 : XE Γ ab e1) (hok : GamOK Γ) {st : SState} {pos : Nat} {lp : LoopCtx} {cs : List Const} {C : Code} {s0 : VM} {stk g : Array Value} {l : Value}
    (hcode : CodeAt C pos (emitE (.neg e1) pos lp cs).1) (hpool : PoolOK s0.cvals (emitE (.neg e1) pos lp cs).2)
    (hrel : Rel Γ st g) (hlast : LastRel st l) :
    GoalV Γ ab lp C s0 pos stk g l (pos + sizeE (.neg e1)) stk st (evalE (f + 1) (.neg e1) st) := by
  simp only [emitE] at hcode hpool
  obtain ⟨hc1, hc2⟩ := hcode.append
  rw [emitE_size] at hc2
  have h := ih Γ ab e1 h1 hok st pos lp cs C s0 stk g l hc1 hpool hrel hlast
  have e : evalE (f + 1) (.neg e1) st = (match evalE f e1 st with
      | .val v st1 => (match v with
        | .int i => if inRange (-i) then Res.val (.int (-i)) st1 else .err .type st1
        | .float x => .val (.float (F64.neg x)) st1
        | _ => .err .type st1) | o => o) := by
    simp only [evalE]
    cases evalE f e1 st with
    | val v st1 => cases v <;> rfl
    | _ => rfl
  rw [e]
  simp only [sizeE]
  exact goalV_unary (ins := .negate) rfl (evalE f e1 st)
    (fun v st1 => match v with
        | .int i => if inRange (-i) then Res.val (.int (-i)) st1 else .err .type st1
        | .float x => .val (.float (F64.neg x)) st1
        | _ => .err .type st1) hc2 h
    (by
      intro v st1 mv hmv
      cases v <;> simp [toVal] at hmv <;> subst hmv
      · exact .inr ⟨.type, rfl, fun g1 l1 => ⟨_, by simp only [exec, setv_stack, pop1_push]; rfl⟩⟩
      · exact .inr ⟨.type, rfl, fun g1 l1 => ⟨_, by simp only [exec, setv_stack, pop1_push]; rfl⟩⟩
      · rename_i i
        by_cases hin : inRange (-i) = true
        · exact .inl ⟨.int (-i), .int (-i), by simp [hin], rfl, fun g1 l1 => by simp [exec, pop1_push, setv, hin]⟩
        · exact .inr ⟨.type, by simp [hin], fun g1 l1 => ⟨_, by simp only [exec, setv_stack, pop1_push, hin]; rfl⟩⟩)

theorem pe_assign (f : Nat) (ih : PE f) {Γ ab} (b k : Nat) (hm : (b, k) ∈ Γ) (e1 : RExpr) (h1 : XE Γ ab e1) (hok : GamOK Γ) {st : SState} {pos : Nat} {lp : LoopCtx} {cs : List Const} {C : Code} {s0 : VM} {stk g : Array Value} {l : Value}
    (hcode : CodeAt C pos (emitE (.assignVar ⟨b, .global k⟩ e1) pos lp cs).1) (hpool : PoolOK s0.cvals (emitE (.assignVar ⟨b, .global k⟩ e1) pos lp cs).2)
    (hrel : Rel Γ st g) (hlast : LastRel st l) :
    GoalV Γ ab lp C s0 pos stk g l (pos + sizeE (.assignVar ⟨b, .global k⟩ e1)) stk st (evalE (f + 1) (.assignVar ⟨b, .global k⟩ e1) st) := by
  simp only [emitE, getVar, setVar] at hcode hpool
  obtain ⟨hc1, hc2⟩ := hcode.append
  rw [emitE_size] at hc2
  have h := ih Γ ab e1 h1 hok st pos lp cs C s0 stk g l hc1 hpool hrel hlast
  simp only [evalE, sizeE]
  cases hr : evalE f e1 st with
  | val v st1 =>
    rw [hr] at h
    obtain ⟨mv, hmv, g1, l1, n, hn, hrel1, hl1, ho1, hle1⟩ := h
    refine ⟨mv, hmv, setGlobalArr g1 k mv, l1, n + 2, ?_, rel_bind hok st1 g1 b k hm v mv hmv hrel1, ?_, ?_, ?_⟩
    · have h2 := execN_step C n _ _ _ hn (step_setGlobal hc2)
      have h3 := execN_step C (n + 1) _ _ _ h2 (step_getGlobal (by simpa [Instr.size] using hc2.tail))
      rw [setGlobalArr_same] at h3
      rw [h3]; congr 2
    · simpa [LastRel, SState.bind, isGlobalSlot] using hl1
    · simp [SState.bind, isGlobalSlot, ho1]
    · simp [SState.bind, isGlobalSlot, hle1]
  | err er st1 => rw [hr] at h; exact h
  | fuel => trivial
  | unspec _ => trivial
  | brk _ => rw [hr] at h; exact h
  | cont _ => rw [hr] at h; exact h
  | ret _ _ => rw [hr] at h; exact h

theorem pe_bin (f : Nat) (ih : PE f) {Γ ab} (el : RExpr) (op : BinOp) (er : RExpr) (hl : XE Γ ab el) (hr : XE Γ false er) (hok : GamOK Γ) {st : SState} {pos : Nat} {lp : LoopCtx} {cs : List Const} {C : Code} {s0 : VM} {stk g : Array Value} {l : Value}
    (hcode : CodeAt C pos (emitE (.infix el op er) pos lp cs).1) (hpool : PoolOK s0.cvals (emitE (.infix el op er) pos lp cs).2)
    (hrel : Rel Γ st g) (hlast : LastRel st l) :
    GoalV Γ ab lp C s0 pos stk g l (pos + sizeE (.infix el op er)) stk st (evalE (f + 1) (.infix el op er) st) := by
  have hnf := xe_not_fused el er op hl hr
  simp only [emitE, hnf] at hcode hpool
  obtain ⟨hc12, hc3⟩ := hcode.append
  obtain ⟨hc1, hc2⟩ := hc12.append
  rw [emitE_size] at hc2
  simp only [codeSize_append, emitE_size, ← Nat.add_assoc] at hc3
  have hpool1 : PoolOK s0.cvals (emitE el pos lp cs).2 := hpool.mono (emitE_ext er _ _ _)
  have ihl := ih Γ ab el hl hok st pos lp cs C s0 stk g l hc1 hpool1 hrel hlast
  simp only [evalE, sizeE, hnf]
  cases hrl : evalE f el st with
  | val a st1 =>
    rw [hrl] at ihl
    obtain ⟨ma, hma, g1, l1, n1, hn1, hrel1, hl1, ho1, hle1⟩ := ihl
    have ihr := ih Γ false er hr hok st1 (pos + sizeE el) lp (emitE el pos lp cs).2 C s0 (stk.push ma) g1 l1 hc2 hpool hrel1 hl1
    simp only
    cases hrr : evalE f er st1 with
    | val b st2 =>
      rw [hrr] at ihr
      obtain ⟨mb, hmb, g2, l2, n2, hn2, hrel2, hl2, ho2, hle2⟩ := ihr
      have hn12 := execN_add C n1 n2 _ _ _ hn1 hn2
      have hstep := step_exec (s0 := s0) (stk := (stk.push ma).push mb) (g := g2) (l := l2) hc3
      have hview : binopCore op (s0.mem.heap.view ma) (s0.mem.heap.view mb) = binopCore op (st2.view a) (st2.view b) := by
        rw [view_scalar _ a ma st2 hma, view_scalar _ b mb st2 hmb]
      simp only
      cases hcore : binopCore op (st2.view a) (st2.view b) with
      | error e =>
        simp only [GoalV]
        refine ⟨n1 + n2, _, ?_, hn12, ?_⟩
        rotate_left
        · rw [hstep]; simp only [exec, setv_stack, pop1_push, binop, setv_mem, hview, hcore]; rfl
      | ok p =>
        have hp := binopCore_scalar op a b ma mb st2 p hma hmb hcore
        obtain ⟨mv, hbox, hmv, hst⟩ := box_scalar s0.mem ma st2 a p hp
        simp only [GoalV]
        generalize hsb : st2.box a p = sb at hmv hst ⊢
        obtain ⟨v, st3⟩ := sb
        simp only at hmv hst ⊢
        subst hst
        refine ⟨mv, hmv, g2, l2, n1 + n2 + 1, ?_, hrel2, hl2, by rw [ho2, ho1], by rw [hle2, hle1]⟩
        apply execN_step C (n1 + n2) _ _ _ hn12
        rw [hstep]; simp only [exec, setv_stack, pop1_push, binop, setv_mem, hview, hcore, hbox, Instr.size]
        simp only [setv]
        congr 2 <;> omega
    | err e st2 => rw [hrr] at ihr; exact Fails.after n1 hn1 ihr
    | fuel => trivial
    | unspec _ => trivial
    | brk _ => rw [hrr] at ihr; exact absurd ihr.1 (by simp)
    | cont _ => rw [hrr] at ihr; exact absurd ihr.1 (by simp)
    | ret _ _ => rw [hrr] at ihr; exact ihr
  | err e st1 => rw [hrl] at ihl; exact ihl
  | fuel => trivial
  | unspec _ => trivial
  | brk _ => rw [hrl] at ihl; exact ihl
  | cont _ => rw [hrl] at ihl; exact ihl
  | ret _ _ => rw [hrl] at ihl; exact ihl

theorem codeSize_asValue (t : RBlock) (pos : Nat) (lp : LoopCtx) (cs : List Const) :
    codeSize (asValue t (emitB t pos lp cs).1) = sizeBV t := by
  rw [asValue_size t _ _ lp _ rfl, emitB_size]; rfl

theorem CodeAt.cast {C : Code} {a b : Nat} {is : List Instr} (h : CodeAt C a is) (e : a = b) : CodeAt C b is := e ▸ h

/-- a step after the value that touches neither globals nor `last` (the `Jump` closing a branch) -/
theorem GoalV.then_val {Γ : Gam} {ab : Bool} {lp : LoopCtx} {C : Code} {s0 : VM} {ip : Nat} {stk g : Array Value} {l : Value}
    {e1 e2 : Nat} {base : Array Value} {st : SState} {r : Res SVal}
    (h : GoalV Γ ab lp C s0 ip stk g l e1 base st r)
    (hs : ∀ mv g' l', step C (setv s0 e1 (base.push mv) g' l') = .next (setv s0 e2 (base.push mv) g' l')) :
    GoalV Γ ab lp C s0 ip stk g l e2 base st r := by
  cases r with
  | val v st' => obtain ⟨mv, hmv, hre⟩ := h; exact ⟨mv, hmv, hre.then (hs mv)⟩
  | brk st' => exact h
  | cont st' => exact h
  | err er st' => exact h
  | ret _ _ => exact h
  | fuel => trivial
  | unspec _ => trivial

theorem pe_if (f : Nat) (ih : PAll f) {Γ ab} (c : RExpr) (t : RBlock) (e : ROptBlock) (Γ1 : Gam)
    (hc : XE Γ ab c) (ht : XB Γ ab t Γ1) (he : XO Γ ab e) (hok : GamOK Γ)
    {st : SState} {pos : Nat} {lp : LoopCtx} {cs : List Const} {C : Code} {s0 : VM} {stk g : Array Value} {l : Value}
    (hcode : CodeAt C pos (emitE (.ifE c t e) pos lp cs).1) (hpool : PoolOK s0.cvals (emitE (.ifE c t e) pos lp cs).2)
    (hrel : Rel Γ st g) (hlast : LastRel st l) :
    GoalV Γ ab lp C s0 pos stk g l (pos + sizeE (.ifE c t e)) stk st (evalE (f + 1) (.ifE c t e) st) := by
  simp only [emitE] at hcode hpool
  obtain ⟨hc1234, hce⟩ := hcode.append
  obtain ⟨hc123, hcj⟩ := hc1234.append
  obtain ⟨hc12, hct⟩ := hc123.append
  obtain ⟨hcc, hcjif⟩ := hc12.append
  have hsz : sizeE (.ifE c t e) = sizeE c + 3 + sizeBV t + 3 + sizeO e := by simp only [sizeE]; rfl
  have hcjif := hcjif.cast (b := pos + sizeE c) (by simp [emitE_size])
  have hct := hct.cast (b := pos + sizeE c + 3) (by simp [emitE_size, Instr.size]; omega)
  have hcj := hcj.cast (b := pos + sizeE c + 3 + sizeBV t) (by simp [emitE_size, Instr.size, codeSize_asValue]; omega)
  have hce := hce.cast (b := pos + sizeE c + 3 + sizeBV t + 3) (by simp [emitE_size, Instr.size, codeSize_asValue]; omega)
  have hpoolc : PoolOK s0.cvals (emitE c pos lp cs).2 := hpool.mono ((emitB_ext t _ _ _).trans (emitO_ext e _ _ _))
  have hpoolt : PoolOK s0.cvals (emitB t (pos + sizeE c + 3) lp (emitE c pos lp cs).2).2 := hpool.mono (emitO_ext e _ _ _)
  have ihc := ih.e Γ ab c hc hok st pos lp cs C s0 stk g l hcc hpoolc hrel hlast
  rw [hsz]
  simp only [evalE]
  cases hrc : evalE f c st with
  | val v st1 =>
    rw [hrc] at ihc
    obtain ⟨mv, hmv, g1, l1, n, hn, hrel1, hl1, ho1, hle1⟩ := ihc
    have herr : (∀ b, mv ≠ .bool b) → Fails C (setv s0 pos stk g l) .type := by
      intro hnb
      obtain ⟨s2, hs2⟩ := step_jif_err (s0 := s0) (stk := stk) (g := g1) (l := l1) hcjif hnb
      exact ⟨n, _, s2, hn, hs2⟩
    cases v with
    | bool bb =>
      simp only [toVal, Option.some.injEq] at hmv
      subst hmv
      have hj := execN_step C n _ _ _ hn (step_jif hcjif)
      cases bb with
      | true =>
        simp only [↓reduceIte] at hj
        have iht := ih.bv Γ ab t Γ1 ht hok st1 (pos + sizeE c + 3) lp _ C s0 stk g1 l1 hct hpoolt hrel1 hl1
        have iht2 := iht.then_val (e2 := pos + (sizeE c + 3 + sizeBV t + 3 + sizeO e)) (fun mv g' l' => by
          rw [step_jump hcj]; congr 2 <;> omega)
        exact iht2.prefix (n + 1) hj ho1 hle1
      | false =>
        simp only [Bool.false_eq_true, ↓reduceIte] at hj
        cases he with
        | none _ _ =>
          simp only [emitO] at hce
          simp only [GoalV]
          refine ⟨.null, rfl, g1, l1, n + 1 + 1, ?_, hrel1, hl1, ho1, hle1⟩
          have := execN_step C (n + 1) _ _ _ hj (step_null hce)
          rw [this]; simp only [sizeO]; congr 2; omega
        | some _ _ b Γ2 hb =>
          simp only [emitO] at hce hpool
          have ihb := ih.bv Γ ab b Γ2 hb hok st1 (pos + sizeE c + 3 + sizeBV t + 3) lp _ C s0 stk g1 l1 hce hpool hrel1 hl1
          have : pos + sizeE c + 3 + sizeBV t + 3 + sizeBV b = pos + (sizeE c + 3 + sizeBV t + 3 + sizeO (.some b)) := by
            simp only [sizeO]; unfold sizeBV; omega
          rw [this] at ihb
          exact ihb.prefix (n + 1) hj ho1 hle1
    | null => simp only [toVal, Option.some.injEq] at hmv; subst hmv; exact herr (by simp)
    | int i => simp only [toVal, Option.some.injEq] at hmv; subst hmv; exact herr (by simp)
    | float x => simp [toVal] at hmv
    | str a => simp [toVal] at hmv
    | arr a => simp [toVal] at hmv
    | fn a b c d => simp [toVal] at hmv
  | err er st1 => rw [hrc] at ihc; exact ihc
  | fuel => trivial
  | unspec _ => trivial
  | brk _ => rw [hrc] at ihc; exact ihc
  | cont _ => rw [hrc] at ihc; exact ihc
  | ret _ _ => rw [hrc] at ihc; exact ihc

theorem while_layout {C : Code} {pos : Nat} {lp : LoopCtx} {cs : List Const} (c : RExpr) (b : RBlock)
    (hcode : CodeAt C pos (emitE (.whileE c b) pos lp cs).1) :
    let lp' : LoopCtx := some (pos + 1, pos + 1 + sizeE c + 4 + sizeBV b + 3)
    CodeAt C pos [.null] ∧ CodeAt C (pos + 1) (emitE c (pos + 1) lp' cs).1 ∧
    CodeAt C (pos + 1 + sizeE c) [.jumpIfFalse (pos + 1 + sizeE c + 4 + sizeBV b + 3), .pop] ∧
    CodeAt C (pos + 1 + sizeE c + 4) (asValue b (emitB b (pos + 1 + sizeE c + 4) lp' (emitE c (pos + 1) lp' cs).2).1) ∧
    CodeAt C (pos + 1 + sizeE c + 4 + sizeBV b) [.jump (pos + 1)] ∧
    sizeE (.whileE c b) = 1 + sizeE c + 4 + sizeBV b + 3 := by
  simp only [emitE] at hcode
  obtain ⟨h1234, h5⟩ := hcode.append
  obtain ⟨h123, h4⟩ := h1234.append
  obtain ⟨h12, h3⟩ := h123.append
  obtain ⟨h1, h2⟩ := h12.append
  refine ⟨h1, h2.cast (by simp [Instr.size]), h3.cast (by simp [Instr.size, emitE_size]; omega),
    h4.cast (by simp [Instr.size, emitE_size]; omega),
    h5.cast (by simp [Instr.size, emitE_size, codeSize_asValue]; omega), ?_⟩
  simp only [sizeE]; unfold sizeBV; omega

theorem pl_succ (f : Nat) (ih : PAll f) : PL (f + 1) := by
  intro Γ ab c b Γ1 hc hb hok st pos lp cs C s0 stk g l acc accv hacc hcode hpool hrel hlast
  obtain ⟨_, hcc, hjif, hcb, hjmp, hsz⟩ := while_layout c b hcode
  simp only [emitE] at hpool
  generalize hlp : (some (pos + 1, pos + 1 + sizeE c + 4 + sizeBV b + 3) : LoopCtx) = lp' at hcc hcb hpool
  have hpoolc : PoolOK s0.cvals (emitE c (pos + 1) lp' cs).2 := hpool.mono (emitB_ext b _ _ _)
  have ihc := ih.e Γ false c hc hok st (pos + 1) lp' cs C s0 (stk.push accv) g l hcc hpoolc hrel hlast
  rw [hsz]
  simp only [evalLoop]
  cases hrc : evalE f c st with
  | val v st1 =>
    rw [hrc] at ihc
    obtain ⟨mv, hmv, g1, l1, n, hn, hrel1, hl1, ho1, hle1⟩ := ihc
    have herr : (∀ b, mv ≠ .bool b) → Fails C (setv s0 (pos + 1) (stk.push accv) g l) .type := by
      intro hnb
      obtain ⟨s2, hs2⟩ := step_jif_err (s0 := s0) (stk := stk.push accv) (g := g1) (l := l1) hjif hnb
      exact ⟨n, _, s2, hn, hs2⟩
    cases v with
    | bool bb =>
      simp only [toVal, Option.some.injEq] at hmv
      subst hmv
      have hj := execN_step C n _ _ _ hn (step_jif hjif)
      cases bb with
      | false =>
        simp only [Bool.false_eq_true, ↓reduceIte] at hj
        simp only [GoalV]
        refine ⟨accv, hacc, g1, l1, n + 1, ?_, hrel1, hl1, ho1, hle1⟩
        rw [hj]; congr 2; omega
      | true =>
        simp only [↓reduceIte] at hj
        have hp := execN_step C (n + 1) _ _ _ hj (step_pop (by simpa [Instr.size] using hjif.tail))
        have hp : execN C (n + 1 + 1) (setv s0 (pos + 1) (stk.push accv) g l) = some (setv s0 (pos + 1 + sizeE c + 4) stk g1 accv) := by
          rw [hp]
        have ihb := ih.bv Γ true b Γ1 hb hok { st1 with last := acc } (pos + 1 + sizeE c + 4) lp' _ C s0 stk g1 accv hcb hpool
          hrel1 hacc
        simp only
        cases hrb : evalBV f b { st1 with last := acc } with
        | val w st2 =>
          rw [hrb] at ihb
          obtain ⟨mw, hmw, g2, l2, n2, hn2, hrel2, hl2, ho2, hle2⟩ := ihb
          have hjm := execN_step C n2 _ _ _ hn2 (step_jump hjmp)
          have ihl := ih.l Γ ab c b Γ1 hc hb hok st2 pos lp cs C s0 stk g2 l2 w mw hmw hcode
            (by simp only [emitE]; rw [hlp]; exact hpool) hrel2 hl2
          rw [hsz] at ihl
          exact (ihl.prefix (n2 + 1) hjm ho2 hle2).prefix (n + 1 + 1) hp ho1 hle1
        | brk st2 =>
          rw [hrb] at ihb
          obtain ⟨_, g2, l2, n2, hn2, hrel2, hl2, ho2, hle2⟩ := ihb
          simp only [GoalV]
          refine ⟨.null, rfl, g2, l2, n + 1 + 1 + n2, ?_, hrel2, hl2, by rw [ho2]; exact ho1, by rw [hle2]; exact hle1⟩
          rw [execN_add C _ _ _ _ _ hp hn2, ← hlp]; simp only [brkT]; congr 2; omega
        | cont st2 =>
          rw [hrb] at ihb
          obtain ⟨_, g2, l2, n2, hn2, hrel2, hl2, ho2, hle2⟩ := ihb
          have hn2' : execN C n2 (setv s0 (pos + 1 + sizeE c + 4) stk g1 accv) = some (setv s0 (pos + 1) (stk.push .null) g2 l2) := by
            rw [hn2, ← hlp]; rfl
          have ihl := ih.l Γ ab c b Γ1 hc hb hok st2 pos lp cs C s0 stk g2 l2 .null .null rfl hcode
            (by simp only [emitE]; rw [hlp]; exact hpool) hrel2 hl2
          rw [hsz] at ihl
          exact (ihl.prefix n2 hn2' ho2 hle2).prefix (n + 1 + 1) hp ho1 hle1
        | err er st2 => rw [hrb] at ihb; exact Fails.after (n + 1 + 1) hp ihb
        | ret _ _ => rw [hrb] at ihb; exact ihb
        | fuel => trivial
        | unspec _ => trivial
    | null => simp only [toVal, Option.some.injEq] at hmv; subst hmv; exact herr (by simp)
    | int i => simp only [toVal, Option.some.injEq] at hmv; subst hmv; exact herr (by simp)
    | float x => simp [toVal] at hmv
    | str a => simp [toVal] at hmv
    | arr a => simp [toVal] at hmv
    | fn a b c d => simp [toVal] at hmv
  | err er st1 => rw [hrc] at ihc; exact ihc
  | fuel => trivial
  | unspec _ => trivial
  | brk _ => rw [hrc] at ihc; exact absurd ihc.1 (by simp)
  | cont _ => rw [hrc] at ihc; exact absurd ihc.1 (by simp)
  | ret _ _ => rw [hrc] at ihc; exact ihc

theorem pe_succ (f : Nat) (ih : PAll f) : PE (f + 1) := by
  intro Γ ab e hx hok st pos lp cs C s0 stk g l hcode hpool hrel hlast
  cases hx with
  | int _ _ v => exact pe_int f v hcode hpool hrel hlast
  | bool _ _ b => exact pe_bool f b hcode hrel hlast
  | var _ _ b k hm => exact pe_var f b k hm hcode hrel hlast
  | not _ _ e1 h1 => exact pe_not f ih.e e1 h1 hok hcode hpool hrel hlast
  | neg _ _ e1 h1 => exact pe_neg f ih.e e1 h1 hok hcode hpool hrel hlast
  | assign _ _ b k e1 hm h1 => exact pe_assign f ih.e b k hm e1 h1 hok hcode hpool hrel hlast
  | bin _ _ el op er hl hr => exact pe_bin f ih.e el op er hl hr hok hcode hpool hrel hlast
  | ifE _ _ c t e Γ1 hc ht he => exact pe_if f ih c t e Γ1 hc ht he hok hcode hpool hrel hlast
  | whileE _ _ c b Γ1 hc hb =>
    obtain ⟨hnull, _⟩ := while_layout c b hcode
    have h1 := execN_one C _ _ (step_null (s0 := s0) (stk := stk) (g := g) (l := l) hnull)
    have ihl := ih.l Γ ab c b Γ1 hc hb hok st pos lp cs C s0 stk g l .null .null rfl hcode hpool hrel hlast
    simp only [evalE]
    exact ihl.prefix 1 h1 rfl rfl

end Sim
end Nl
