/-
  UTF-8 refinement, part 7: the decoder is STRICT.
    (D1) `decodeFirst_sound`: whatever `decodeFirst` accepts is exactly the encoding of the
         character it returns (no overlong forms, surrogates, values above 0x10FFFF, truncated
         sequences, stray continuation bytes)
    (D2) `decode_sound : decode bs = some cs → encode cs = bs`
    (D3) `decode_eq_some_iff`, `valid_iff`: the byte strings of the form `encode cs` are exactly
         the byte strings the strict decoder accepts
    (D4) rejection tests by `decide`
-/
import Nlmodel.Proofs.Lemmas.Utf8Decode
namespace Nl
namespace Utf8

/-! ### small facts -/

theorem toNat_ofNat_valid (n : Nat) (h : n.isValidChar) : (Char.ofNat n).toNat = n := by
  simp only [Char.ofNat, dif_pos h, Char.ofNatAux, Char.toNat]
  rfl

/-- `mkChar` returns the character with that number -/
theorem mkChar_some {n : Nat} {c : Char} (h : mkChar n = some c) : c.toNat = n := by
  unfold mkChar at h
  by_cases hv : n.isValidChar
  · rw [if_pos hv] at h
    injection h with h
    rw [← h]; exact toNat_ofNat_valid n hv
  · rw [if_neg hv] at h; cases h

theorem map_pair_some {n k : Nat} {c : Char} {w : Nat}
    (h : (mkChar n).map (·, k) = some (c, w)) : c.toNat = n ∧ w = k := by
  cases hm : mkChar n with
  | none => rw [hm] at h; cases h
  | some c' =>
    rw [hm] at h
    simp only [Option.map_some, Option.some.injEq, Prod.mk.injEq] at h
    obtain ⟨rfl, rfl⟩ := h
    exact ⟨mkChar_some hm, rfl⟩

theorem contBits_of_isCont {b : UInt8} (h : isCont b = true) :
    128 ≤ b.toNat ∧ b.toNat < 192 ∧ contBits b = b.toNat - 128 :=
  ⟨((isCont_iff b).1 h).1, ((isCont_iff b).1 h).2, rfl⟩

/-! ### inversion of `decodeFirst`: the four accepted shapes -/

/-- everything `decodeFirst` accepts has one of four shapes, with the value of the character -/
theorem decodeFirst_inv {bs : List UInt8} {c : Char} {w : Nat} (h : decodeFirst bs = some (c, w)) :
    (∃ b0 r, bs = b0 :: r ∧ w = 1 ∧ b0.toNat < 0x80 ∧ c.toNat = b0.toNat) ∨
    (∃ b0 b1 r, bs = b0 :: b1 :: r ∧ w = 2 ∧ 0xC0 ≤ b0.toNat ∧ b0.toNat < 0xE0 ∧
      isCont b1 = true ∧ 0x80 ≤ c.toNat ∧ c.toNat = (b0.toNat - 0xC0) * 64 + contBits b1) ∨
    (∃ b0 b1 b2 r, bs = b0 :: b1 :: b2 :: r ∧ w = 3 ∧ 0xE0 ≤ b0.toNat ∧ b0.toNat < 0xF0 ∧
      isCont b1 = true ∧ isCont b2 = true ∧ 0x800 ≤ c.toNat ∧
      c.toNat = (b0.toNat - 0xE0) * 4096 + contBits b1 * 64 + contBits b2) ∨
    (∃ b0 b1 b2 b3 r, bs = b0 :: b1 :: b2 :: b3 :: r ∧ w = 4 ∧ 0xF0 ≤ b0.toNat ∧
      b0.toNat < 0xF8 ∧ isCont b1 = true ∧ isCont b2 = true ∧ isCont b3 = true ∧
      0x10000 ≤ c.toNat ∧
      c.toNat = (b0.toNat - 0xF0) * 262144 + contBits b1 * 4096 + contBits b2 * 64 + contBits b3) := by
  cases bs with
  | nil => simp only [decodeFirst] at h; cases h
  | cons b0 r =>
    simp only [decodeFirst] at h
    by_cases h1 : b0.toNat < 0x80
    · rw [if_pos h1] at h
      obtain ⟨hc, hw⟩ := map_pair_some h
      exact Or.inl ⟨b0, r, rfl, hw, h1, hc⟩
    rw [if_neg h1] at h
    by_cases h2 : b0.toNat < 0xC0
    · rw [if_pos h2] at h; cases h
    rw [if_neg h2] at h
    by_cases h3 : b0.toNat < 0xE0
    · rw [if_pos h3] at h
      right; left
      cases r with
      | nil => cases h
      | cons b1 r =>
        simp only at h
        by_cases c1 : isCont b1 = true
        · rw [if_pos c1] at h
          by_cases hn : 0x80 ≤ (b0.toNat - 0xC0) * 64 + contBits b1
          · rw [if_pos hn] at h
            obtain ⟨hc, hw⟩ := map_pair_some h
            exact ⟨b0, b1, r, rfl, hw, by omega, h3, c1, by omega, hc⟩
          · rw [if_neg hn] at h; cases h
        · rw [if_neg c1] at h; cases h
    rw [if_neg h3] at h
    by_cases h4 : b0.toNat < 0xF0
    · rw [if_pos h4] at h
      right; right; left
      match r, h with
      | [], h => cases h
      | [_], h => cases h
      | b1 :: b2 :: r, h =>
        simp only at h
        by_cases c12 : (isCont b1 && isCont b2) = true
        · rw [if_pos c12] at h
          have c1 : isCont b1 = true := by revert c12; cases isCont b1 <;> simp
          have c2 : isCont b2 = true := by revert c12; cases isCont b2 <;> simp
          by_cases hn : 0x800 ≤ (b0.toNat - 0xE0) * 4096 + contBits b1 * 64 + contBits b2
          · rw [if_pos hn] at h
            obtain ⟨hc, hw⟩ := map_pair_some h
            exact ⟨b0, b1, b2, r, rfl, hw, by omega, h4, c1, c2, by omega, hc⟩
          · rw [if_neg hn] at h; cases h
        · rw [if_neg c12] at h; cases h
    rw [if_neg h4] at h
    by_cases h5 : b0.toNat < 0xF8
    · rw [if_pos h5] at h
      right; right; right
      match r, h with
      | [], h => cases h
      | [_], h => cases h
      | [_, _], h => cases h
      | b1 :: b2 :: b3 :: r, h =>
        simp only at h
        by_cases c123 : (isCont b1 && isCont b2 && isCont b3) = true
        · rw [if_pos c123] at h
          have c1 : isCont b1 = true := by revert c123; cases isCont b1 <;> simp
          have c2 : isCont b2 = true := by revert c123; cases isCont b2 <;> simp
          have c3 : isCont b3 = true := by revert c123; cases isCont b3 <;> simp
          by_cases hn : 0x10000 ≤
              (b0.toNat - 0xF0) * 262144 + contBits b1 * 4096 + contBits b2 * 64 + contBits b3
          · rw [if_pos hn] at h
            obtain ⟨hc, hw⟩ := map_pair_some h
            exact ⟨b0, b1, b2, b3, r, rfl, hw, by omega, h5, c1, c2, c3, by omega, hc⟩
          · rw [if_neg hn] at h; cases h
        · rw [if_neg c123] at h; cases h
    · rw [if_neg h5] at h; cases h

/-! ### the accepted shapes are encodings -/

theorem encodeChar_eq_w1 {c : Char} {b0 : UInt8} (h : b0.toNat < 0x80) (hc : c.toNat = b0.toNat) :
    encodeChar c = [b0] := by
  rcases encodeChar_cases c with ⟨_, a0, e, v0⟩ | ⟨_, _, _⟩ | ⟨_, _, _⟩ | ⟨_, _, _⟩
  · have q0 : a0 = b0 := UInt8.toNat_inj.1 (by omega)
    rw [e, q0]
  all_goals omega

theorem encodeChar_eq_w2 {c : Char} {b0 b1 : UInt8} (h0 : 0xC0 ≤ b0.toNat) (h0' : b0.toNat < 0xE0)
    (c1 : isCont b1 = true) (hlo : 0x80 ≤ c.toNat)
    (hc : c.toNat = (b0.toNat - 0xC0) * 64 + contBits b1) : encodeChar c = [b0, b1] := by
  obtain ⟨l1, u1, e1⟩ := contBits_of_isCont c1
  rw [e1] at hc
  rcases encodeChar_cases c with ⟨_, _, _⟩ | ⟨_, _, a0, a1, e, v0, v1⟩ | ⟨_, _, _⟩ | ⟨_, _, _⟩
  · omega
  · have q0 : a0 = b0 := UInt8.toNat_inj.1 (by omega)
    have q1 : a1 = b1 := UInt8.toNat_inj.1 (by omega)
    rw [e, q0, q1]
  all_goals omega

theorem encodeChar_eq_w3 {c : Char} {b0 b1 b2 : UInt8} (h0 : 0xE0 ≤ b0.toNat)
    (h0' : b0.toNat < 0xF0) (c1 : isCont b1 = true) (c2 : isCont b2 = true)
    (hlo : 0x800 ≤ c.toNat)
    (hc : c.toNat = (b0.toNat - 0xE0) * 4096 + contBits b1 * 64 + contBits b2) :
    encodeChar c = [b0, b1, b2] := by
  obtain ⟨l1, u1, e1⟩ := contBits_of_isCont c1
  obtain ⟨l2, u2, e2⟩ := contBits_of_isCont c2
  rw [e1, e2] at hc
  rcases encodeChar_cases c with ⟨_, _, _⟩ | ⟨_, _, _⟩ | ⟨_, _, a0, a1, a2, e, v0, v1, v2⟩ | ⟨_, _, _⟩
  · omega
  · omega
  · have q0 : a0 = b0 := UInt8.toNat_inj.1 (by omega)
    have q1 : a1 = b1 := UInt8.toNat_inj.1 (by omega)
    have q2 : a2 = b2 := UInt8.toNat_inj.1 (by omega)
    rw [e, q0, q1, q2]
  · omega

theorem encodeChar_eq_w4 {c : Char} {b0 b1 b2 b3 : UInt8} (h0 : 0xF0 ≤ b0.toNat)
    (h0' : b0.toNat < 0xF8) (c1 : isCont b1 = true) (c2 : isCont b2 = true)
    (c3 : isCont b3 = true) (hlo : 0x10000 ≤ c.toNat)
    (hc : c.toNat = (b0.toNat - 0xF0) * 262144 + contBits b1 * 4096 + contBits b2 * 64 + contBits b3) :
    encodeChar c = [b0, b1, b2, b3] := by
  obtain ⟨l1, u1, e1⟩ := contBits_of_isCont c1
  obtain ⟨l2, u2, e2⟩ := contBits_of_isCont c2
  obtain ⟨l3, u3, e3⟩ := contBits_of_isCont c3
  rw [e1, e2, e3] at hc
  rcases encodeChar_cases c with ⟨_, _, _⟩ | ⟨_, _, _⟩ | ⟨_, _, _⟩ |
    ⟨_, _, a0, a1, a2, a3, e, v0, v1, v2, v3⟩
  · omega
  · omega
  · omega
  · have q0 : a0 = b0 := UInt8.toNat_inj.1 (by omega)
    have q1 : a1 = b1 := UInt8.toNat_inj.1 (by omega)
    have q2 : a2 = b2 := UInt8.toNat_inj.1 (by omega)
    have q3 : a3 = b3 := UInt8.toNat_inj.1 (by omega)
    rw [e, q0, q1, q2, q3]

/-! ### (D1) -/

/-- what `decodeFirst` accepts is `encodeChar c` followed by the rest -/
theorem decodeFirst_split {bs : List UInt8} {c : Char} {w : Nat} (h : decodeFirst bs = some (c, w)) :
    ∃ rest, bs = encodeChar c ++ rest ∧ w = (encodeChar c).length := by
  rcases decodeFirst_inv h with ⟨b0, r, rfl, rfl, h0, hc⟩ |
      ⟨b0, b1, r, rfl, rfl, h0, h0', c1, hlo, hc⟩ |
      ⟨b0, b1, b2, r, rfl, rfl, h0, h0', c1, c2, hlo, hc⟩ |
      ⟨b0, b1, b2, b3, r, rfl, rfl, h0, h0', c1, c2, c3, hlo, hc⟩
  · exact ⟨r, by rw [encodeChar_eq_w1 h0 hc]; rfl, by rw [encodeChar_eq_w1 h0 hc]; rfl⟩
  · have e := encodeChar_eq_w2 h0 h0' c1 hlo hc
    exact ⟨r, by rw [e]; rfl, by rw [e]; rfl⟩
  · have e := encodeChar_eq_w3 h0 h0' c1 c2 hlo hc
    exact ⟨r, by rw [e]; rfl, by rw [e]; rfl⟩
  · have e := encodeChar_eq_w4 h0 h0' c1 c2 c3 hlo hc
    exact ⟨r, by rw [e]; rfl, by rw [e]; rfl⟩

/-- (D1) whatever the decoder accepts as a first character is exactly the encoding of that
    character -/
theorem decodeFirst_sound {bs : List UInt8} {c : Char} {w : Nat}
    (h : decodeFirst bs = some (c, w)) :
    bs.take w = encodeChar c ∧ w = (encodeChar c).length ∧ 0 < w ∧ w ≤ bs.length := by
  obtain ⟨rest, rfl, rfl⟩ := decodeFirst_split h
  refine ⟨List.take_left, rfl, encodeChar_length_pos c, ?_⟩
  rw [List.length_append]; omega

/-- (D1, as an equivalence) `decodeFirst` accepts exactly the byte strings that start with an
    encoded character -/
theorem decodeFirst_eq_some_iff (bs : List UInt8) (c : Char) (w : Nat) :
    decodeFirst bs = some (c, w) ↔ ∃ rest, bs = encodeChar c ++ rest ∧ w = (encodeChar c).length :=
  ⟨decodeFirst_split, fun ⟨rest, e, ew⟩ => by rw [e, ew]; exact decodeFirst_encodeChar_append c rest⟩

/-! ### (D2) -/

theorem decodeFuel_sound (f : Nat) : ∀ (bs : List UInt8) (cs : List Char),
    decodeFuel f bs = some cs → encode cs = bs := by
  induction f with
  | zero =>
    intro bs cs h
    cases bs with
    | nil => simp only [decodeFuel] at h; injection h with h; rw [← h]; rfl
    | cons b bs => simp only [decodeFuel] at h; cases h
  | succ f ih =>
    intro bs cs h
    cases bs with
    | nil => simp only [decodeFuel] at h; injection h with h; rw [← h]; rfl
    | cons b bs =>
      simp only [decodeFuel] at h
      cases hd : decodeFirst (b :: bs) with
      | none => rw [hd] at h; cases h
      | some p =>
        obtain ⟨c, w⟩ := p
        rw [hd] at h
        simp only at h
        obtain ⟨rest, e, ew⟩ := decodeFirst_split hd
        cases ht : decodeFuel f (List.drop w (b :: bs)) with
        | none => rw [ht] at h; cases h
        | some tl =>
          rw [ht] at h
          simp only [Option.map_some, Option.some.injEq] at h
          have := ih _ _ ht
          rw [e, ew, List.drop_left] at this
          rw [← h, encode_cons, this, e]

/-- (D2) the strict decoder only accepts encodings, and returns the encoded text -/
theorem decode_sound {bs : List UInt8} {cs : List Char} (h : decode bs = some cs) :
    encode cs = bs :=
  decodeFuel_sound _ bs cs h

/-! ### (D3) -/

/-- (D3) `decode` accepts `bs` with text `cs` exactly when `bs` is the encoding of `cs` -/
theorem decode_eq_some_iff (bs : List UInt8) (cs : List Char) :
    decode bs = some cs ↔ bs = encode cs :=
  ⟨fun h => (decode_sound h).symm, fun h => by rw [h]; exact decode_encode cs⟩

/-- (D3) the byte strings `encode cs` are EXACTLY the byte strings that are well-formed UTF-8
    according to the strict decoder -/
theorem valid_iff (bs : List UInt8) : (∃ cs, decode bs = some cs) ↔ ∃ cs, bs = encode cs :=
  ⟨fun ⟨cs, h⟩ => ⟨cs, (decode_eq_some_iff bs cs).1 h⟩,
   fun ⟨cs, h⟩ => ⟨cs, (decode_eq_some_iff bs cs).2 h⟩⟩

/-- consequence: no text encodes to a byte string the decoder rejects -/
theorem not_encode_of_decode_none {bs : List UInt8} (h : decode bs = none) (cs : List Char) :
    bs ≠ encode cs := by
  intro e
  rw [(decode_eq_some_iff bs cs).2 e] at h; cases h

/-! ### (D4) TESTS: the decoder rejects the classical ill-formed sequences -/

/-- TEST overlong encoding of U+0000 -/
example : decode [0xC0, 0x80] = none := by decide
/-- TEST overlong encoding of '/' (0x2F) in two and three bytes -/
example : decode [0xC0, 0xAF] = none := by decide
example : decode [0xE0, 0x80, 0xAF] = none := by decide
/-- TEST surrogate U+D800 -/
example : decode [0xED, 0xA0, 0x80] = none := by decide
/-- TEST above U+10FFFF -/
example : decode [0xF4, 0x90, 0x80, 0x80] = none := by decide
/-- TEST truncated three-byte sequence -/
example : decode [0xE2, 0x82] = none := by decide
/-- TEST stray continuation byte -/
example : decode [0x80] = none := by decide
/-- TEST five-byte form -/
example : decode [0xF8, 0x88, 0x80, 0x80, 0x80] = none := by decide
/-- TEST the same on `decodeFirst` -/
example : decodeFirst [0xC0, 0x80] = none := by decide
example : decodeFirst [0xED, 0xA0, 0x80] = none := by decide
example : decodeFirst [0xF4, 0x90, 0x80, 0x80] = none := by decide
example : decodeFirst [0xE2, 0x82] = none := by decide
example : decodeFirst [0x80] = none := by decide
example : decodeFirst [0xF8, 0x88, 0x80, 0x80, 0x80] = none := by decide
/-- TEST a bad sequence after good ones is rejected as a whole -/
example : decode [0x61, 0xE2, 0x82, 0xAC, 0x80] = none := by decide
/-- TEST (non-vacuity) well-formed input is accepted: "a€" and U+10FFFF -/
example : decode [0x61, 0xE2, 0x82, 0xAC] = some ['a', '€'] := by decide
example : decode [0xF4, 0x8F, 0xBF, 0xBF] = some [Char.ofNat 0x10FFFF] := by decide
/-- TEST by the theorem: none of the rejected strings is the encoding of a text -/
example (cs : List Char) : [0xC0, 0x80] ≠ encode cs :=
  not_encode_of_decode_none (by decide) cs

end Utf8
end Nl
