/- C07 extras, X4 for `,`: optional commas between/after call arguments and list elements. -/
import Nlmodel.Proofs.Lemmas.C07ExtraSep
namespace Nl
namespace C07X
open RT RTF

/-- a `,` may be left out before `t` iff `t` does not continue an expression, is not itself `,` and is not `anders` -/
def commaFree (t : Token) : Bool := t.prec == 0 && t != .comma && t != .kwElse

/-- among the tokens that can begin an element, EXACTLY `(`, `[` and `-` need the `,` before them; the closing token needs none -/
theorem commaFree_iff (t : Token) (h : exprStart t = true) : commaFree t = true ↔ (t ≠ .lparen ∧ t ≠ .lbracket ∧ t ≠ .minus) := by
  cases t <;> simp_all [exprStart, commaFree, Token.prec]
theorem commaFree_close : commaFree .rparen = true ∧ commaFree .rbracket = true := ⟨rfl, rfl⟩

/-- an element list where the k-th `,` is written iff `ks[k]` (default: written), followed by `rest` -/
def printArgsSeq : Exprs → List Bool → List Token → List Token
  | .nil, _, rest => rest
  | .cons e es, ks, rest => printE e ++ (if ks.headD true then .comma :: printArgsSeq es ks.tail rest else printArgsSeq es ks.tail rest)

def ArgsOK : Exprs → List Bool → List Token → Prop
  | .nil, _, _ => True
  | .cons _ es, ks, rest => (ks.headD true = false → commaFree (cur (printArgsSeq es ks.tail rest)) = true) ∧ ArgsOK es ks.tail rest

theorem printArgsSeq_all : (es : Exprs) → (rest : List Token) → printArgsSeq es [] rest = printArgs es ++ rest ∧ ArgsOK es [] rest
  | .nil, rest => ⟨rfl, trivial⟩
  | .cons e es, rest => by
    have ih := printArgsSeq_all es rest
    refine ⟨?_, by simp [ArgsOK, ih.2]⟩
    simp [printArgsSeq, printArgs, ih.1, List.append_assoc]

/-- (X4a for `,`) OPTIONAL COMMAS: any subset of the commas — including the trailing one — left out, each before a
    `commaFree` token: the same element list -/
theorem X4_elems : (es : Exprs) → WEs es → ∀ (ks : List Bool) (close : Token) (rest : List Token),
    (close = .rparen ∨ close = .rbracket) → ArgsOK es ks (close :: rest) →
    ∃ f, parseElems f close (printArgsSeq es ks (close :: rest)) = .ok (es, close :: rest)
  | .nil, _, ks, close, rest, _, _ => by
    refine ⟨1, ?_⟩
    simp only [printArgsSeq]
    rw [parseElems]
    simp [cur]
  | .cons e es, .cons _ _ he hes, ks, close, rest, hclose, hok => by
    obtain ⟨f2, h2⟩ := X4_elems es hes ks.tail close rest hclose hok.2
    have step : ∀ (Y Z : List Token) (f1 : Nat), parseExpr f1 0 (printE e ++ Y) = .ok (e, Y) → skipOpt .comma Y = Z →
        parseElems f2 close Z = .ok (es, close :: rest) →
        parseElems (max f1 f2 + 1) close (printE e ++ Y) = .ok (.cons e es, close :: rest) := by
      intro Y Z f1 h1 hZ hes'
      rw [parseElems]
      have hne : ¬ (cur (printE e ++ Y) = close) := by
        intro hc
        have := cur_expr e he Y
        rw [hc] at this
        rcases hclose with rfl | rfl <;> simp [exprStart] at this
      simp only [hne, ↓reduceIte]
      rw [expr_le (Nat.le_max_left f1 f2) h1]
      simp only [hZ]
      rw [elems_le (Nat.le_max_right f1 f2) hes']
    cases hk : ks.headD true with
    | true =>
      have hstop : Stops 0 (.comma :: printArgsSeq es ks.tail (close :: rest)) := .inr (by simp [cur, Token.prec])
      obtain ⟨f1, h1⟩ := top_ok e he _ (by simp [NoElse, cur]) hstop
      have hts : printArgsSeq (.cons e es) ks (close :: rest) = printE e ++ (.comma :: printArgsSeq es ks.tail (close :: rest)) := by
        rw [printArgsSeq, hk]; simp
      rw [hts]
      exact ⟨_, step _ _ f1 h1 (by simp [skipOpt, cur, adv]) h2⟩
    | false =>
      have hfree := hok.1 hk
      simp only [commaFree, Bool.and_eq_true, beq_iff_eq, bne_iff_ne] at hfree
      obtain ⟨f1, h1⟩ := top_ok e he (printArgsSeq es ks.tail (close :: rest)) hfree.2 (.inr (by omega))
      have hts : printArgsSeq (.cons e es) ks (close :: rest) = printE e ++ printArgsSeq es ks.tail (close :: rest) := by
        rw [printArgsSeq, hk]; simp
      rw [hts]
      exact ⟨_, step _ _ f1 h1 (by simp [skipOpt, hfree.1.2]) h2⟩

/-- list literals: `[a, b]`, `[a, b,]`, `[a b]` -/
theorem X4_arr (vs : Exprs) (hvs : WEs vs) (ks : List Bool) (rest : List Token) (hok : ArgsOK vs ks (.rbracket :: rest)) :
    ∃ f, parsePrefix f (.lbracket :: printArgsSeq vs ks (.rbracket :: rest)) = .ok (.arr vs, rest) := by
  obtain ⟨f, h⟩ := X4_elems vs hvs ks .rbracket rest (.inr rfl) hok
  refine ⟨f + 1, ?_⟩
  rw [parsePrefix]
  simp only [cur, adv]
  rw [h]
  simp [skipTok, cur, adv]

/-- calls: `f(a, b)`, `f(a, b,)`, `f(a b)` — in every context in which the printed call stands -/
theorem X4_call (fe : Expr) (as : Exprs) (hc : callable fe = true) (hf : WE fe) (has : WEs as) (ks : List Bool)
    (p : Nat) (rest : List Token) (R : Expr × List Token) (hok : ArgsOK as ks (.rparen :: rest))
    (hctx : RTF.Ctx (.call fe as) p rest) (hR : ∃ f, parseLoop f p (.call fe as) rest = .ok R) :
    ∃ f, parseExpr f p (printE fe ++ .lparen :: printArgsSeq as ks (.rparen :: rest)) = .ok R := by
  obtain ⟨f1, h1⟩ := hR
  have hp : p ≤ 6 := hctx.2
  obtain ⟨f2, h2⟩ := X4_elems as has ks .rparen rest (.inl rfl) hok
  apply gE fe hf p _ R
  · refine ⟨by simp [NoElse, cur], ?_⟩
    cases fe <;> simp_all [callable]
  · refine ⟨max f1 f2 + 1, ?_⟩
    rw [parseLoop]
    have hsemi : ¬ (Token.lparen = Token.semi) := by decide
    have hcc : (!callable fe) = false := by simp [hc]
    simp only [cur, adv, hcc, hsemi, Token.binop, ↓reduceIte, Bool.false_eq_true]
    rw [elems_le (Nat.le_max_right f1 f2) h2]
    split
    · rename_i hcond
      have : Token.prec .lparen = 8 := rfl
      simp [this] at hcond; omega
    · exact loop_le (Nat.le_max_left f1 f2) h1

/-- the condition is needed: `[a, (b)]` has two elements, `[a (b)]` is one call; `[a, -b]` / `[a -b]` -/
theorem X4_comma_condition_needed :
    parseTokens [.lbracket, .ident ['a'], .comma, .lparen, .ident ['b'], .rparen, .rbracket]
      = .ok (.cons (.expr (.arr (.cons (.ident ['a']) (.cons (.ident ['b']) .nil)))) .nil) ∧
    parseTokens [.lbracket, .ident ['a'], .lparen, .ident ['b'], .rparen, .rbracket]
      = .ok (.cons (.expr (.arr (.cons (.call (.ident ['a']) (.cons (.ident ['b']) .nil)) .nil))) .nil) ∧
    parseTokens [.lbracket, .ident ['a'], .comma, .minus, .ident ['b'], .rbracket]
      = .ok (.cons (.expr (.arr (.cons (.ident ['a']) (.cons (.pre .sub (.ident ['b'])) .nil)))) .nil) ∧
    parseTokens [.lbracket, .ident ['a'], .minus, .ident ['b'], .rbracket]
      = .ok (.cons (.expr (.arr (.cons (.infix (.ident ['a']) .sub (.ident ['b'])) .nil))) .nil) :=
  ⟨rfl, rfl, rfl, rfl⟩

/-- non-vacuity: `f(a b,)`, no comma between, trailing comma -/
example : parseTokens [.ident ['f'], .lparen, .ident ['a'], .ident ['b'], .comma, .rparen]
    = .ok (.cons (.expr (.call (.ident ['f']) (.cons (.ident ['a']) (.cons (.ident ['b']) .nil)))) .nil) := by rfl

end C07X
end Nl
