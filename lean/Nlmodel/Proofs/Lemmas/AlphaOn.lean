/-
  Alpha-equivalence under the WEAK hypothesis, part 1: the renaming only has to behave on a set `S`
  of names that contains the identifiers of the program.  The names of a tree, the invariant
  "every name in the symbol table is in `S`", and the conditional lookup lemma.
-/
import Nlmodel.Proofs.Lemmas.AlphaResolve
namespace Nl
namespace Alpha

/-! ### the identifiers occurring in a tree -/

mutual
def namesE : Expr → List Text
  | .infix l _ r => namesE l ++ namesE r
  | .pre _ r => namesE r
  | .int _ => []
  | .float _ => []
  | .bool _ => []
  | .str _ => []
  | .ifE c t e => namesE c ++ (namesB t ++ namesO e)
  | .ident n => [n]
  | .func name ps body => name :: (ps ++ namesB body)
  | .call g as => namesE g ++ namesEs as
  | .assign l r => namesE l ++ namesE r
  | .arr vs => namesEs vs
  | .index l i => namesE l ++ namesE i
  | .whileE c b => namesE c ++ namesB b
def namesS : Stmt → List Text
  | .letS n e => n :: namesE e
  | .ret e => namesE e
  | .expr e => namesE e
  | .block b => namesB b
  | .brk => []
  | .cont => []
def namesB : Block → List Text
  | .nil => []
  | .cons s b => namesS s ++ namesB b
def namesEs : Exprs → List Text
  | .nil => []
  | .cons e es => namesE e ++ namesEs es
def namesO : OptBlock → List Text
  | .none => []
  | .some b => namesB b
end

theorem sub_left {S : Text → Prop} {a b : List Text} (h : ∀ n ∈ a ++ b, S n) : ∀ n ∈ a, S n :=
  fun n hn => h n (List.mem_append_left _ hn)
theorem sub_right {S : Text → Prop} {a b : List Text} (h : ∀ n ∈ a ++ b, S n) : ∀ n ∈ b, S n :=
  fun n hn => h n (List.mem_append_right _ hn)
theorem sub_head {S : Text → Prop} {a : Text} {b : List Text} (h : ∀ n ∈ a :: b, S n) : S a :=
  h a List.mem_cons_self
theorem sub_tail {S : Text → Prop} {a : Text} {b : List Text} (h : ∀ n ∈ a :: b, S n) : ∀ n ∈ b, S n :=
  fun n hn => h n (List.mem_cons_of_mem _ hn)

/-! ### the weak hypothesis -/

/-- the renaming behaves on the names in `S`: injective there, does not change the builtin-ness of a
    name of `S`, keeps the emptiness of a name of `S` -/
structure RenamingOn (f : Text → Text) (S : Text → Prop) : Prop where
  inj : ∀ a b, S a → S b → f a = f b → a = b
  builtin : ∀ n, S n → Builtin.resolve (f n) = Builtin.resolve n
  empty : ∀ n, S n → (f n).isEmpty = n.isEmpty

theorem Renaming.on {f : Text → Text} (hf : Renaming f) (S : Text → Prop) : RenamingOn f S :=
  ⟨fun a b _ _ => hf.inj a b, fun n _ => hf.builtin n, fun n _ => hf.empty n⟩

/-- the hypothesis in the form of the task description: injective on the names of `S` plus the
    builtin names plus the empty name, and these extra names are fixed -/
theorem RenamingOn.of_fixes (f : Text → Text) (S : Text → Prop)
    (hinj : ∀ a b, (S a ∨ a ∈ builtinNames ∨ a = []) → (S b ∨ b ∈ builtinNames ∨ b = []) → f a = f b → a = b)
    (hfix : ∀ n, n ∈ builtinNames → f n = n) (hempty : f [] = []) : RenamingOn f S where
  inj a b ha hb := hinj a b (Or.inl ha) (Or.inl hb)
  builtin n hS := by
    by_cases hn : n ∈ builtinNames
    · rw [hfix n hn]
    · have h1 : Builtin.resolve n = none := by
        cases h : Builtin.resolve n with
        | none => rfl
        | some b => exact absurd ((resolve_isSome_iff n).1 (by rw [h]; rfl)) hn
      have h2 : f n ∉ builtinNames := by
        intro hm
        have := hinj _ _ (Or.inr (Or.inl hm)) (Or.inl hS) (hfix (f n) hm)
        exact hn (this ▸ hm)
      cases h : Builtin.resolve (f n) with
      | none => rw [h1]
      | some b => exact absurd ((resolve_isSome_iff (f n)).1 (by rw [h]; rfl)) h2
  empty n hS := by
    cases n with
    | nil => rw [hempty]
    | cons c cs =>
      cases h : f (c :: cs) with
      | nil => exact absurd (hinj _ _ (Or.inl hS) (Or.inr (Or.inr rfl)) (h.trans hempty.symm)) (by simp)
      | cons d ds => rfl

/-! ### the invariant: every name of the symbol table is in `S` -/

def AllIn (S : Text → Prop) (st : RState) : Prop :=
  ∀ c ∈ st.ctxs, ∀ sc ∈ c.scopes, ∀ p ∈ sc, S p.1

/-- the invariant on the final state of a result -/
def okIn (S : Text → Prop) {α : Type} : Except Err (α × RState) → Prop
  | .ok (_, st) => AllIn S st
  | .error _ => True

theorem allIn_empty (S : Text → Prop) : AllIn S {} := by
  intro c hc sc hsc p hp
  simp only [List.mem_cons, List.not_mem_nil, or_false] at hc
  subst hc
  simp only [List.mem_cons, List.not_mem_nil, or_false] at hsc
  subst hsc
  cases hp

theorem allIn_flat {S : Text → Prop} {st : RState} (h : AllIn S st) (c : Ctx) (hc : c ∈ st.ctxs) :
    ∀ p ∈ c.flat, S p.1 := by
  intro p hp
  obtain ⟨sc, hsc, hp⟩ := List.mem_flatten.1 hp
  exact h c hc sc hsc p hp

theorem allIn_define {S : Text → Prop} {st : RState} (h : AllIn S st) {n : Text} (hn : S n) :
    AllIn S (st.define n).1 := by
  obtain ⟨ctxs, a, b, c, d⟩ := st
  cases ctxs with
  | nil => exact h
  | cons c cs =>
    obtain ⟨g, m, scopes⟩ := c
    intro c' hc'
    simp only [RState.define, List.mem_cons] at hc'
    rcases hc' with hc' | hc'
    · subst hc'
      cases scopes with
      | nil =>
        intro sc hsc p hp
        simp only [Ctx.define, List.mem_cons, List.not_mem_nil, or_false] at hsc
        subst hsc
        simp only [List.mem_cons, List.not_mem_nil, or_false] at hp
        subst hp; exact hn
      | cons s ss =>
        intro sc hsc p hp
        simp only [Ctx.define, List.mem_cons] at hsc
        rcases hsc with hsc | hsc
        · subst hsc
          simp only [List.mem_cons] at hp
          rcases hp with hp | hp
          · subst hp; exact hn
          · exact h _ List.mem_cons_self s List.mem_cons_self p hp
        · exact h _ List.mem_cons_self sc (List.mem_cons_of_mem _ hsc) p hp
    · exact h c' (List.mem_cons_of_mem _ hc')

theorem allIn_enterScope {S : Text → Prop} {st : RState} (h : AllIn S st) : AllIn S st.enterScope := by
  obtain ⟨ctxs, a, b, c, d⟩ := st
  cases ctxs with
  | nil => exact h
  | cons c cs =>
    intro c' hc'
    simp only [RState.enterScope, List.mem_cons] at hc'
    rcases hc' with hc' | hc'
    · subst hc'
      intro sc hsc p hp
      simp only [List.mem_cons] at hsc
      rcases hsc with hsc | hsc
      · subst hsc; cases hp
      · exact h c List.mem_cons_self sc hsc p hp
    · exact h c' (List.mem_cons_of_mem _ hc')

theorem allIn_leaveScope {S : Text → Prop} {st : RState} (h : AllIn S st) : AllIn S st.leaveScope := by
  obtain ⟨ctxs, a, b, c, d⟩ := st
  cases ctxs with
  | nil => exact h
  | cons c cs =>
    intro c' hc'
    simp only [RState.leaveScope, List.mem_cons] at hc'
    rcases hc' with hc' | hc'
    · subst hc'
      intro sc hsc p hp
      exact h c List.mem_cons_self sc (List.mem_of_mem_tail hsc) p hp
    · exact h c' (List.mem_cons_of_mem _ hc')

theorem allIn_defineParams {S : Text → Prop} : ∀ (ps : List Text) {st : RState}, AllIn S st →
    (∀ p ∈ ps, S p) → AllIn S (defineParams st ps).1
  | [], st, h, _ => h
  | p :: ps, st, h, hp => by
    simp only [defineParams]
    exact allIn_defineParams ps (allIn_define h (sub_head hp)) (sub_tail hp)

theorem allIn_fnPre {S : Text → Prop} {st : RState} (h : AllIn S st) {n : Text} (hn : S n) :
    AllIn S (fnPre st n).1 := by
  unfold fnPre
  by_cases he : n.isEmpty = true
  · simp only [he, ↓reduceIte]; exact h
  · simp only [he, Bool.false_eq_true, ↓reduceIte]; exact allIn_define h hn

theorem allIn_fnEnter {S : Text → Prop} {st : RState} (h : AllIn S st) : AllIn S (fnEnter st) := by
  intro c hc
  simp only [fnEnter, List.mem_cons] at hc
  rcases hc with hc | hc
  · subst hc
    intro sc hsc p hp
    simp only [List.mem_cons, List.not_mem_nil, or_false] at hsc
    subst hsc; cases hp
  · exact h c hc

theorem allIn_fnExit {S : Text → Prop} (st1 : RState) {st4 : RState} (h : AllIn S st4) :
    AllIn S (fnExit st1 st4) :=
  fun c hc => h c (List.mem_of_mem_tail hc)

theorem allIn_withLoop {S : Text → Prop} {st : RState} (h : AllIn S st) (k : Nat) :
    AllIn S { st with loopDepth := k } := h

/-! ### the conditional lookup lemma -/

theorem lookupFlat_map_on {f : Text → Text} {S : Text → Prop} (hf : RenamingOn f S) (n : Text) (hn : S n) :
    ∀ l : List (Text × Nat), (∀ p ∈ l, S p.1) → lookupFlat (l.map (mapPair f)) (f n) = lookupFlat l n
  | [], _ => rfl
  | (m, bid) :: rest, hl => by
    simp only [List.map_cons, mapPair, lookupFlat, List.length_map]
    by_cases h : m = n
    · simp only [h, ↓reduceIte]
    · have h' : ¬ f m = f n := fun e => h (hf.inj _ _ (hl (m, bid) List.mem_cons_self) hn e)
      simp only [h, h', ↓reduceIte]
      exact lookupFlat_map_on hf n hn rest (fun p hp => hl p (List.mem_cons_of_mem _ hp))

theorem mapCtx_resolve_on {f : Text → Text} {S : Text → Prop} (hf : RenamingOn f S) (c : Ctx) (n : Text)
    (hn : S n) (hc : ∀ p ∈ c.flat, S p.1) : (mapCtx f c).resolve (f n) = c.resolve n := by
  simp only [Ctx.resolve, mapCtx_flat, lookupFlat_map_on hf n hn c.flat hc]

/-- KEY LEMMA (weak form): looking the renamed name up in the renamed table finds the same binder
    and slot, as soon as the renaming is injective on the names of the table and the name -/
theorem mapSt_resolve_on {f : Text → Text} {S : Text → Prop} (hf : RenamingOn f S) (st : RState) (n : Text)
    (hst : AllIn S st) (hn : S n) : (mapSt f st).resolve (f n) = st.resolve n := by
  obtain ⟨ctxs, a, b, c, d⟩ := st
  cases ctxs with
  | nil => rfl
  | cons c cs =>
    simp only [RState.resolve, mapSt, List.map_cons, mapCtx_isGlobal, getLast?_map_ctx,
      mapCtx_resolve_on hf c n hn (allIn_flat hst c List.mem_cons_self)]
    cases c.resolve n with
    | some p => rfl
    | none =>
      simp only
      cases hg : cs.getLast? with
      | none => rfl
      | some g =>
        simp only [Option.map_some,
          mapCtx_resolve_on hf g n hn (allIn_flat hst g (List.mem_cons_of_mem _ (List.mem_of_getLast? hg)))]

theorem mapSt_fnPre_on {f : Text → Text} {S : Text → Prop} (hf : RenamingOn f S) (st : RState) (name : Text)
    (hn : S name) : fnPre (mapSt f st) (f name) = (mapSt f (fnPre st name).1, (fnPre st name).2) := by
  unfold fnPre
  rw [hf.empty name hn]
  by_cases he : name.isEmpty = true
  · simp only [he, ↓reduceIte]
  · simp only [he, Bool.false_eq_true, ↓reduceIte, mapSt_define]

theorem calleeBi_ren_on {f : Text → Text} {S : Text → Prop} (hf : RenamingOn f S) (g : Expr)
    (hg : ∀ n ∈ namesE g, S n) : calleeBi (renE f g) = calleeBi g := by
  cases g <;> simp only [renE, calleeBi]
  rename_i n
  exact hf.builtin n (hg n (by simp only [namesE, List.mem_singleton]))

end Alpha
end Nl
