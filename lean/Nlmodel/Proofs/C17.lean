/-
  C17 — a retained session behaves like one growing program.
-/
import Nlmodel.Model.Session
import Nlmodel.Proofs.Lemmas.SimCtlSession
import Nlmodel.Proofs.Lemmas.SessionConcat
namespace Nl
namespace C17

/-- a line that fails to parse has no influence at all on the session -/
theorem C17_failed_line_parse (cc : CharClass) (b : Nat) (s : Session) (src : Text) (e : Err)
    (h : parse cc src = .error e) : s.line cc b src = (s, .error e []) := by
  simp [Session.line, h]

/-- a line that fails to compile (undeclared name, misplaced stop/volgende/antwoord, program too
    big) has no influence at all on the session: no symbol, no code, no constant survives (F23) -/
theorem C17_failed_line_compile (cc : CharClass) (b : Nat) (s : Session) (src : Text) (ast : Block) (e : Err)
    (hp : parse cc src = .ok ast)
    (hr : resolveSs ast { s.rs with loopDepth := 0, funcDepth := 0 } = .error e) :
    s.line cc b src = (s, .error e []) := by
  simp [Session.line, hp, hr]

/-- every run starts with an empty stack and no suspended frames (F22), and sees exactly the
    globals the previous lines left -/
theorem C17_run_sees_globals (prev : VM) (bc : Bytecode) :
    (prev.start bc).globals = prev.globals ∧ (prev.start bc).stack = #[] ∧ (prev.start bc).frames = [] := by
  simp [VM.start]

/-- a line that fails at run time keeps the session usable: the next line starts from the symbol
    table of the failed line (its declarations stay declared — finding K1) and from the globals as
    the failed run left them (the assignments it completed) -/
theorem C17_failed_line_run (cc : CharClass) (b : Nat) (s : Session) (src : Text) (ast : Block)
    (r : RBlock) (rs' : RState) (bc : Bytecode) (e : Err) (vm' : VM)
    (hp : parse cc src = .ok ast)
    (hr : resolveSs ast { s.rs with loopDepth := 0, funcDepth := 0 } = .ok (r, rs'))
    (hc : compileR r = .ok bc) (hv : VM.run s.vm bc b = .error e vm') :
    (s.line cc b src).1 = { rs := rs', vm := vm' } := by
  simp [Session.line, hp, hr, hc, hv]

/-- a successful line leaves the symbol table of the compiler after that line and the machine
    after that run: exactly what the next line starts from -/
theorem C17_successful_line (cc : CharClass) (b : Nat) (s : Session) (src : Text) (ast : Block)
    (r : RBlock) (rs' : RState) (bc : Bytecode) (v : Value) (vm' : VM)
    (hp : parse cc src = .ok ast)
    (hr : resolveSs ast { s.rs with loopDepth := 0, funcDepth := 0 } = .ok (r, rs'))
    (hc : compileR r = .ok bc) (hv : VM.run s.vm bc b = .value v vm') :
    (s.line cc b src).1 = { rs := rs', vm := vm' } := by
  simp [Session.line, hp, hr, hc, hv]

/-- compiling the lines one after the other on the retained symbol table resolves every name exactly
    as compiling their concatenation as one program does (slots and binders included) -/
theorem C17_resolve_concat : (a : Block) → ∀ (b : Block) (st : RState),
    resolveSs (a.append b) st =
      (match resolveSs a st with
       | .error e => .error e
       | .ok (ra, st1) =>
         match resolveSs b st1 with
         | .error e => .error e
         | .ok (rb, st2) => .ok (RBlock.append ra rb, st2))
  | .nil, b, st => by
    simp only [Block.append, resolveSs]
    cases resolveSs b st with
    | error e => rfl
    | ok p => obtain ⟨rb, st2⟩ := p; rfl
  | .cons s a, b, st => by
    simp only [Block.append, resolveSs]
    cases resolveS s st with
    | error e => rfl
    | ok p =>
      obtain ⟨s', st1⟩ := p
      simp only
      rw [C17_resolve_concat a b st1]
      cases resolveSs a st1 with
      | error e => rfl
      | ok q =>
        obtain ⟨ra, st2⟩ := q
        simp only
        cases resolveSs b st2 with
        | error e => rfl
        | ok r => obtain ⟨rb, st3⟩ := r; rfl

/-! ### a session refines the definitional semantics, line by line (control-flow fragment) -/

/-- ONE LINE: for a session whose symbol table, machine globals and definitional state are linked by
    `Sim.SInv` (true of the empty session, `Sim.sinv_start`, and re-established by every successful
    line), a line of the control-flow fragment (global scalar variables, `stel`, assignment,
    operators, `als`/`zolang` as statements and values, `stop`/`volgende`, nested blocks) answers
    with the value the definitional semantics gives on the carried state — the names of earlier
    lines resolved to the slots they got then, their values found in the retained globals — and an
    error of the semantics is the session's error.  Instance of the stage-3 simulation started from
    the retained machine (`Sim.ctl_line`) and of R1 on the retained symbol table (`Sim.rSs`). -/
theorem C17_line_refines_semantics (cc : CharClass) (s : Session) (st : Spec.SState) (sc : List (Text × Nat)) (hs : Sim.SInv s st sc)
    (src : Text) (ast : Block) (hp : parse cc src = .ok ast) (hsb : Sim.SB false ast)
    (r : RBlock) (rs' : RState) (hres : resolveSs ast { s.rs with loopDepth := 0, funcDepth := 0 } = .ok (r, rs'))
    (bc : Bytecode) (hc : compileR r = .ok bc) (F : Nat) :
    match Spec.evalB F r { st with last := .null } with
    | .val () st' => ∃ n sc' s', s'.rs = rs' ∧ Sim.SInv s' st' sc' ∧ ∀ k, s.line cc (n + k) src = (s', .value (st'.tree treeDepth [] st'.last) [])
    | .err er _ => ∃ n, ∀ k, ∃ s' out, s.line cc (n + k) src = (s', .error er out)
    | .brk _ => False
    | .cont _ => False
    | .ret _ _ => False
    | _ => True :=
  Sim.session_line cc s st sc hs src ast hp hsb r rs' hres bc hc F

/-- A WHOLE SESSION of any length: whatever values the definitional session (`Sim.SpecRun`: each line
    parsed, resolved on the carried symbol table, evaluated by the definitional semantics on the
    carried state) gives, the real session — one retained compiler, one retained machine, a fresh
    collector and fresh code per line — gives exactly those values, for every large enough budget -/
theorem C17_session_refines_semantics (cc : CharClass) (F : Nat) (srcs : List Text) (asts : List Block) (rbs : List RBlock)
    (stEnd : Spec.SState) (ts : List Tree) (h : Sim.SpecRun cc F {} {} srcs asts rbs stEnd ts) :
    ∃ n, ∀ k, Session.lines cc (n + k) {} srcs = ts.map (fun t => Obs.value t []) :=
  Sim.session_lines cc F {} {} srcs asts rbs stEnd ts h {} [] rfl Sim.sinv_start

/-- A SESSION BEHAVES LIKE ONE GROWING PROGRAM (control-flow fragment): the answer the real session gives
    to its last line is the value the definitional semantics gives the SINGLE PROGRAM made of all the
    lines (`SC.joinB asts`: the lines' trees one after the other), whenever the last line ends in an
    expression statement.  Three results meet here: the session refines the definitional session
    (`C17_session_refines_semantics`); the definitional session is the single program
    (`SC.session_is_one_program`: the resolver on the retained table resolves as on the concatenation,
    `C17_resolve_concat`; a block followed by a block evaluates as one after the other,
    `SC.evalB_append`; the `last` register is write-only for the evaluator, `SL.all`, so clearing it
    between lines is unobservable when the last line sets it; the resolver leaves its nesting counters
    as it found them, `RD.dSs`); and `eval` of that single program gives the same value by
    `C01_control_flow_program`. -/
theorem C17_session_is_one_growing_program (cc : CharClass) (F : Nat) (srcs : List Text) (asts : List Block) (rbs : List RBlock)
    (stEnd : Spec.SState) (ts : List Tree) (h : Sim.SpecRun cc F {} {} srcs asts rbs stEnd ts) (hne : rbs ≠ [])
    (hexpr : ∀ rb, rbs.getLast? = some rb → SC.endsInExpr rb = true) :
    ∃ t, (∃ n, ∀ k, (Session.lines cc (n + k) {} srcs).getLast? = some (Obs.value t [])) ∧
      ∃ rAll F' out, resolveProgram (SC.joinB asts) = .ok rAll ∧ Spec.evalProgram F' rAll = .value t out := by
  obtain ⟨rAll, F', t, out, h1, h2, h3⟩ := SC.session_is_one_program cc F srcs asts rbs stEnd ts h hne hexpr
  obtain ⟨n, hn⟩ := C17_session_refines_semantics cc F srcs asts rbs stEnd ts h
  refine ⟨t, ⟨n, fun k => ?_⟩, rAll, F', out, h1, h2⟩
  rw [hn k, List.getLast?_map, h3]
  rfl

/-- non-vacuity: the definitional session of `stel a = 2` / `a = a * 3` / `zolang a < 9 { a = a + 1 }; a + 1`
    (a loop over a variable of an earlier line) exists and has the values null, 6, 10 — so by
    `C17_session_refines_semantics` the real session answers exactly that -/
def exLine1 : Text := ['s','t','e','l',' ','a',' ','=',' ','2']
def exLine2 : Text := ['a',' ','=',' ','a',' ','*',' ','3']
def exLine3 : Text := ['z','o','l','a','n','g',' ','a',' ','<',' ','9',' ','{',' ','a',' ','=',' ','a',' ','+',' ','1',' ','}',';',' ','a',' ','+',' ','1']

example : ∃ asts rbs stEnd ts, Sim.SpecRun CharClass.ascii 60 {} {} [exLine1, exLine2, exLine3] asts rbs stEnd ts ∧ ts = [.null, .int 6, .int 10] := by
  refine ⟨_, _, _, _, .cons _ _ _ _ _ _ _ _ _ _ _ _ _ rfl ?_ rfl rfl rfl
    (.cons _ _ _ _ _ _ _ _ _ _ _ _ _ rfl ?_ rfl rfl rfl
      (.cons _ _ _ _ _ _ _ _ _ _ _ _ _ rfl ?_ rfl rfl rfl (.nil _ _))), rfl⟩
  all_goals (repeat (first | constructor | rfl | decide))

end C17
end Nl
