/-
  C08 — tokenisation and literals are faithful to the text.
-/
import Nlmodel.Model.Printer
import Nlmodel.Proofs.Lemmas.LexAscii
import Nlmodel.Proofs.Lemmas.LexCover
namespace Nl
namespace C08

/-- a string literal denotes precisely the characters written: decoding the escaped spelling of
    ANY text gives that text back -/
theorem C08_unescape_escape (s : Text) : unescape (escape s) = s := by
  induction s with
  | nil => rfl
  | cons c r ih =>
    by_cases h1 : c = '"'
    · subst h1; simp [escape, unescape, ih]
    · by_cases h2 : c = '\\'
      · subst h2; simp [escape, unescape, ih]
      · by_cases h3 : c = '\n'
        · subst h3; simp [escape, unescape, ih]
        · by_cases h4 : c = '\t'
          · subst h4; simp [escape, unescape, ih]
          · have he : escape (c :: r) = c :: escape r := by
              rw [escape.eq_def]
              split <;> simp_all
            rw [he]
            have hu : unescape (c :: escape r) = c :: unescape (escape r) := by
              rw [unescape.eq_def]
              split <;> simp_all
            rw [hu, ih]

/-- TOKENISATION IS FAITHFUL: for every list of well-formed tokens (identifiers that are not keywords,
    digit strings, `digits.digits`, string bodies whose closing quote is the first unescaped one,
    keywords, operators, punctuation) and EVERY choice of separators — nothing where the
    maximal-munch rule allows it, blanks, tabs, newlines, CRLF, Unicode whitespace, line comments
    (also containing quotes), before, between and after the tokens — tokenizing the rendered text gives
    exactly that token list.  `cc` is any character classification satisfying `LR.CCWF` (the facts
    the check compares with the running Rust `std`: letters/digits/whitespace/punctuation classes). -/
theorem C08_lex_render (cc : CharClass) (h : LR.CCWF cc) (ts : List Token) (ks : List Nat) (hw : ∀ t ∈ ts, LR.WFTok cc t) :
    lex cc (render ts ks) = ts :=
  LR.lex_render h ts none ks hw

/-- a string literal written as `"` + escape(s) + `"` is one token whose body is escape(s), for ANY
    text s (quotes, backslashes, newlines, any Unicode) and whatever follows; with
    `C08_unescape_escape` the literal therefore denotes exactly s -/
theorem C08_string_literal_token (cc : CharClass) (h : LR.CCWF cc) (s r : Text) :
    LR.tok cc ('"' :: escape s ++ '"' :: r) = some (.str (escape s), r) :=
  LR.tok_str h (escape s) r (fun r' => LR.scanStr_escape s r')

/-- the assumptions on the character classes are satisfiable: the ASCII classification meets them -/
theorem C08_ascii_class_wf : LR.CCWF CharClass.ascii := LR.ascii_wf

/-- non-vacuity: `stel x1 = "a\"b" // c` as tokens is well formed -/
example : ∀ t ∈ [Token.kwDeclare, .ident ['x', '1'], .assign, .str (escape ['a', '"', 'b']), .slash, .int ['4', '2'], .lte, .float ['1', '.', '5']],
    LR.WFTok CharClass.ascii t := by
  intro t ht
  simp only [List.mem_cons, List.not_mem_nil, or_false] at ht
  rcases ht with rfl | rfl | rfl | rfl | rfl | rfl | rfl | rfl
  · trivial
  · exact ⟨⟨'x', ['1'], rfl, by decide, by decide⟩, by decide⟩
  · trivial
  · exact fun r => LR.scanStr_escape _ r
  · trivial
  · exact ⟨'4', ['2'], rfl, by decide, by decide⟩
  · trivial
  · exact ⟨'1', [], ['5'], rfl, by decide, by decide, by decide⟩

/-! ### nothing is dropped, for ARBITRARY text (`Lemmas/LexCover*.lean`)

  `LC.lexSpans cc src` is the decomposition the tokenizer induces on any text: spans that are a whitespace character,
  a `//` comment up to the line end, or the exact source text of one token. -/

/-- NO PART OF THE INPUT IS SILENTLY DROPPED: for every text, the spans in order concatenate to the text itself — nothing
    skipped, reordered or duplicated — and the token spans in order are exactly the tokens the tokenizer returns -/
theorem C08_nothing_dropped (cc : CharClass) (src : Text) :
    (LC.lexSpans cc src).flatMap LC.Span.raw = src ∧ LC.tokensOf (LC.lexSpans cc src) = lex cc src :=
  ⟨LC.lexSpans_concat cc src, LC.tokensOf_lexSpans cc src⟩

/-- EVERY CHARACTER IS ACCOUNTED FOR: position `i` of any text lies in exactly one span, and that span is clean — a
    whitespace character, a comment without a line break, or the spelling `raw = t.text` of a well-formed token — or it is
    the illegal token (an unknown character or an unterminated string), which then appears in the token stream -/
theorem C08_every_character_accounted (cc : CharClass) (src : Text) (i : Nat) (hi : i < src.length) :
    ∃ A s B, LC.lexSpans cc src = A ++ s :: B ∧
      (A.flatMap LC.Span.raw).length ≤ i ∧ i < (A.flatMap LC.Span.raw).length + s.raw.length ∧
      (s.Clean cc ∨ ((∃ raw, s = .tok .illegal raw) ∧ Token.illegal ∈ lex cc src)) :=
  LC.char_accounted cc src i hi

/-- WHAT CANNOT BE READ IS REJECTED, NEVER DROPPED: a text whose token stream contains the illegal token is never accepted
    by the parser; the answer is a syntax error, or the type error the tokens BEFORE the unreadable piece already are on
    their own whatever follows them (the parser reports the first error it meets: `ja = 1 @`, `LC.type_error_first`) -/
theorem C08_unreadable_text_is_rejected (cc : CharClass) (src : Text) (pre rest : List Token)
    (h : lex cc src = pre ++ .illegal :: rest) :
    (∀ b, parse cc src ≠ .ok b) ∧
    (parse cc src = .error .syntax ∨
     (parse cc src = .error .type ∧ ∀ rest', parseTokens (pre ++ rest') = .error .type)) :=
  ⟨fun b => LC.parse_illegal_not_ok cc src (by rw [h]; simp) b, LC.parse_illegal_sharp cc src pre rest h⟩

/-- conversely an ACCEPTED text consists of whitespace, comments and spellings of well-formed tokens only -/
theorem C08_accepted_text_is_clean (cc : CharClass) (src : Text) (b : Block) (h : parse cc src = .ok b) :
    Token.illegal ∉ lex cc src ∧ ∀ s ∈ LC.lexSpans cc src, s.Clean cc :=
  LC.parse_ok_clean cc src b h

/-- KEYWORDS ONLY AS WHOLE WORDS, identifiers and numbers keep their exact spelling (maximal munch on arbitrary text): the
    span of a word token (identifier or keyword) IS its text and the character after it cannot continue a word; the span
    of a number IS its text and is not followed by a digit (an integer not by a `.`) -/
theorem C08_words_and_numbers_are_maximal (cc : CharClass) (src : Text) (A : List LC.Span) (t : Token) (raw : Text) (B : List LC.Span)
    (h : LC.lexSpans cc src = A ++ .tok t raw :: B) :
    (t.isWord = true → raw = t.text ∧ ∀ x, (B.flatMap LC.Span.raw).head? = some x → identCont cc x = false) ∧
    (t.isNum = true → raw = t.text ∧ ∀ x, (B.flatMap LC.Span.raw).head? = some x → isDigit x = false ∧ ((∃ s, t = .int s) → x ≠ '.')) :=
  ⟨fun hw => let r := LC.word_span_maximal cc src A t raw B h hw; ⟨r.2.1, r.2.2⟩,
   fun hn => LC.num_span_maximal cc src A t raw B h hn⟩

end C08
end Nl
