/-
  C02 — execution never leaves the interpreter's own memory (no underflow, no wild jump).
-/
import Nlmodel.Model.Verifier
namespace Nl
namespace C02
open Verifier

/-- in a checked program every certified offset is the start of a valid instruction whose operands
    lie inside the code, and the instruction satisfies its rule (operand-stack lower bound, operand
    ranges, certified successors of the same function) -/
theorem C02_certified_decodes (bc : Bytecode) (c : Cert) (hc : check bc c = true) (pc o h : Nat)
    (hg : c.get pc = some (o, h)) :
    ∃ i, decodeAt bc.code pc = some i ∧
      checkInstr c (fnTable bc.consts) bc.consts.length (pc + i.size) i o h = true := by
  unfold check at hc
  simp only [Bool.and_eq_true, List.all_eq_true, List.mem_range] at hc
  obtain ⟨_, hall⟩ := hc
  have hpc : pc < c.ent.size := by
    unfold Cert.get at hg
    cases he : c.ent[pc]? with
    | none => simp [he] at hg
    | some x => exact (Array.getElem?_eq_some_iff.mp he).1
  have := hall pc hpc
  rw [hg] at this
  simp only at this
  cases hd : decodeAt bc.code pc with
  | none => simp [hd] at this
  | some i => exact ⟨i, rfl, by simpa [hd] using this⟩

end C02
end Nl
