"""C07 — source text denotes one tree: precedence, associativity, layout independence.
Round trip: trees are printed by the Lean printer the theorems are about (Model/Printer), under
the canonical layout and under random layouts (all whitespace forms, comments, optional
separators dropped where the grammar allows), parsed by the REAL parser and by the model parser,
and compared with the tree they were printed from."""
from .. import core, gen
from ..core import hx, unhx

PROOF_MODULE = "Nlmodel.Proofs.C07"
PROOF_FILES = ["Nlmodel/Proofs/C07.lean", "Nlmodel/Proofs/Lemmas/Pratt.lean", "Nlmodel/Model/Parser.lean", "Nlmodel/Model/Printer.lean"]
THEOREM_FILE = PROOF_FILES[0]
LEVEL_TEXT = ("Lean theorems about the model parser (a mirror of parser.rs with the same decision points) and the specification printer: the parser's precedence table equals the documented one (complete table); (op-assignment desugaring, right-nesting `anders als` and redundant parentheses are covered by the parser-range theorem C07_parser_range - every tree the parser returns has the round-trip shape - and by the direct equivalence and redundant-parenthesis oracles on the real parser; explicit theorems for them are listed under SESSION 7 if present); the ROUND-TRIP theorem parse(print t) = t is PROVED (Pratt-loop lemma with explicit, linear fuel) for every expression tree over the 13 binary operators and atoms (identifiers, integer literals, booleans) of any shape and depth, at expression level in any non-continuing context and at program level with the fuel parse itself supplies; the first version of the theorem (binary operators over atoms, explicit linear fuel) is kept; the whole grammar follows below. The model parser is tied to parser.rs by comparing trees (canonical s-expressions, floats by bits) on every printed text, and the round trip itself is run against the real parser on the complete enumeration of all trees with up to three binary operators over every operator tuple (11 336 trees) plus random statement-level trees, each under several layouts. THE WHOLE GRAMMAR (C07_print_parse_whole_grammar, Lemmas/RoundTrip.lean): for EVERY program tree the parser can produce (RTF.WB: prefix operators, the 13 binary operators with a non-function left operand, assignment to names and indexed names, calls of names and of function literals named or not, indexing of names/list literals/string literals, als/anders, zolang, functie with parameters, list literals, blocks, stel/antwoord/stop/volgende, integer and string literals; float literals under RTF.FloatRT), of any size and depth, parseTokens(printProgram b) = b with the fuel parse supplies (mutual induction over expressions, argument lists, statements, blocks; fuel handled existentially with ParseMono/ParseStable: more fuel never changes an answer, and ParseFuel: the supplied fuel suffices); and at text level under any layout, C07_text_round_trip_whole_grammar. SESSION 7, the remaining clauses as explicit theorems (Lemmas/C07Extra*): C07_compound_assignment_desugars (a OP= e parses to assign a (a OP e), for all 13 operators, and the program parses exactly as with the explicit spelling a = a OP (e)), C07_else_if_chain_nests_right (chains of any length), C07_redundant_parentheses_statement / _operands (any number of parentheses around an expression statement or around either operand of a binary operator gives the tree of the canonical print), C07_optional_semicolons (any subset of the semicolons left out, provided each omitted one stands before a token that cannot continue an expression - the exact decidable condition sepFree; the last one is always optional) with C07_semicolon_condition_needed (a; (b) vs a (b): the condition is necessary), optional commas likewise (C07X.X4_elems), and C07_layout_of_any_token_list (any token list rendered under any layout parses to what the tokens parse to).")
LEVEL_NOTE = ("Trusted: Lean kernel; the round-trip theorem covers binary-operator expressions over atoms, at token level (C07_print_parse_expr/_program) and at TEXT level with any layout (C07_text_round_trip = C07 + C08_lex_render); the whole-grammar theorem's side condition on float literals (RTF.FloatRT: the literal's spelling reads back) IS a theorem for every finite non-negative non-NaN float (C07_float_literals_read_back, from the float text round trip of C14), i.e. for everything a number token can denote except +infinity written out with 309 digits, whose printed form `inf.0` is not a number token. C07_parser_range: every tree the parser produces (finite float literals) is in the range of the round trip, so C07_parse_print_parse holds for EVERY program that parses: printed canonically under any layout it parses to the same tree (spellability discharged for parsed trees), and C07_same_tree_iff_same_print. Token spelling relies on C08.")
TECHNIQUE = "Lean 4 proof (Pratt-loop lemma, table equality) + print/parse round trip on the real parser"
RULE = ("complete enumeration of binary-operator trees with 1..3 operators over all 13^n operator tuples (11 336 trees), each "
        "under the canonical layout and random layouts; random statement-level trees (depth 2-3) over the whole grammar range "
        "under random layouts; parser-vs-model tree comparison on random and mutated program texts; non-trivial = distinct "
        "(tree, layout) whose text parsed on both sides")
EXHAUSTIVE = True


def run(res, tier, rng, table_diffs=()):
    n_enum = int(core.model(["enumcount"])[0])
    layouts = [0, 1] if tier == "quick" else [0, 1, 2, 3, 4, 5]
    reqs = []
    for lay in layouts:
        for i in range(n_enum):
            reqs.append("enumtree %d %d" % (i, lay * 1000003 + rng.below(1000) if lay else 0))
    n_rand = 3000 if tier == "quick" else 40000
    for _ in range(n_rand):
        reqs.append("gentree %d %d %d" % (rng.below(2 ** 40), rng.pick([1, 2, 2, 3]), rng.pick([0, 1, 2, 3]) * (1 + rng.below(10 ** 6))))
    printed = core.model(reqs)
    texts, trees = [], []
    for q, p in zip(reqs, printed):
        if " | " not in p:
            res.violation("the tree generator/printer failed", dict(kind="driver", input=q, model=p, unchecked="Model/Printer"), no_input=True)
            return
        sexp, h = p.rsplit(" | ", 1)
        trees.append(sexp)
        texts.append(h)
    pr = ["parse " + h for h in texts]
    ia = core.impl(pr)
    ma = core.model(pr)
    bad = 0
    for q, sexp, h, i, m in zip(reqs, trees, texts, ia, ma):
        res.seen(sexp + h)
        res.count(q.split(" ")[0])
        if i != "ok " + sexp:
            bad += 1
            if bad <= 3:
                res.violation("parsing the printed form of a tree does not give back that tree",
                              dict(kind="roundtrip", input=unhx(h), tree=sexp, impl=i, model=m, request=q))
        elif m != i:
            bad += 1
            if bad <= 3:
                res.violation("model parser and parser.rs disagree", dict(kind="model", input=unhx(h), impl=i, model=m,
                              unchecked="correspondence Model/Parser vs parser.rs (theorems of Proofs/C07)"), no_input=True)
    # parser correspondence on arbitrary program texts and token-level mutations (tree or error kind)
    progs = []
    for _ in range(600 if tier == "quick" else 8000):
        src, _ = gen.random_program(rng.fork())
        progs.append(src)
        toks = src.replace("(", " ( ").replace(")", " ) ").split(" ")
        if len(toks) > 3:
            k = rng.below(len(toks))
            c = rng.below(4)
            if c == 0:
                del toks[k]
            elif c == 1:
                toks.insert(k, toks[rng.below(len(toks))])
            elif c == 2:
                j = rng.below(len(toks))
                toks[k], toks[j] = toks[j], toks[k]
            else:
                toks[k] = rng.pick(["=", "(", ")", "{", "}", "[", "]", "+", "als", "functie", ";", ",", "1", "x", "anders", "-", "!", "."])
            progs.append(" ".join(toks))
    from .. import gen2
    progs += gen2.iife_programs()
    directed = ["a += 1 + 2", "a = a + (1 + 2)", "x -= y * 2;", "als a { 1 } anders als b { 2 } anders { 3 }",
                "als a { 1 } anders { als b { 2 } anders { 3 } }", "1 + 2 * 3 - 4 / 5 % 6", "1 < 2 == 3 > 4 && 5 != 6 || ja",
                "((((1))))", "f(1)(2)", "f(1)[2]", "a[1][2]", "a[1] = 2", "a = b = c", "-a * b", "!a == b", "- - a", "a . b",
                "functie(a b c) { a }", "f(1 2 3)", "[1 2 3]", "[1,,2]", "f(,)", "stel = 1", "stel x 1", "x = ", "(1", "1)", "{ 1", "1 }",
                "als { }", "zolang { }", "functie { }", "functie f( { }", "a == = 5", "a && = ja", "1 += 2", "// only a comment", "", "   ",
                "1 // c\n+ 2", "a\n(b)", "a\n[b]", "a\n-b", "a;(b)", "stop volgende", "antwoord", "antwoord 1 2"]
    progs += directed
    pr = ["parse " + hx(p) for p in progs]
    ia = core.impl(pr)
    ma = core.model(pr)
    for p, i, m in zip(progs, ia, ma):
        res.seen("P" + p, nontrivial=i.startswith("ok"))
        res.count("text:" + i.split(" ")[0] + ("-" + i.split(" ")[1] if i.startswith("err") else ""))
        if i != m:
            bad += 1
            if bad <= 5:
                crash = i.startswith(("PANIC", "CRASH", "TIMEOUT"))
                res.violation("the parser crashed" if crash else "model parser and parser.rs disagree",
                              dict(kind="model", input=p, impl=i, model=m, unchecked="correspondence Model/Parser vs parser.rs"),
                              no_input=not crash)
    # documented equivalences, on the implementation itself
    eqs = [("a += 1 + 2", "a = a + (1 + 2)"), ("x *= y", "x = x * (y)"),
           ("als a { 1 } anders als b { 2 } anders { 3 }", "als a { 1 } anders { als b { 2 } anders { 3 } }"),
           ("1 + 2 * 3", "1 + (2 * 3)"), ("1 - 2 - 3", "(1 - 2) - 3"), ("1 < 2 == ja", "(1 < 2) == ja"),
           ("a = 1 || nee", "a = (1 || nee)"), ("f(1) + a[0] * 2", "(f(1)) + ((a[0]) * 2)"),
           ("1 + 2 // c\n * 3", "1+2*3"), ("stel x = 1; x", "stel x = 1 x"), ("f(1, 2)", "f(1 2)"),
           # whatever a comment contains or ends in (backslashes, quotes, braces, `//`), it ends at its line end
           ("1 // c:\\\n + 2", "1 + 2"), ("1 // c:\\\\\n + 2", "1 + 2"), ("1 // \\\\\\\n + 2", "1 + 2"), ("stel x = 1 // p\\\nx = 2\nx", "stel x = 1; x = 2; x"),
           ("1 // \"open\n + 2", "1 + 2"), ("1 // { ( [\n + 2", "1 + 2"), ("1 // a // b\\\n + 2 // c\\", "1 + 2"), ("a //\\\n(b)", "a(b)")]
    ans = core.impl(["parse " + hx(a) for a, _ in eqs] + ["parse " + hx(b) for _, b in eqs])
    for k, (a, b) in enumerate(eqs):
        res.seen("E" + a)
        if ans[k] != ans[len(eqs) + k] or not ans[k].startswith("ok"):
            res.violation("two spellings the documentation equates parse to different trees",
                          dict(kind="equivalence", input=[a, b], impl=[ans[k], ans[len(eqs) + k]]))
    # REDUNDANT PARENTHESES never change the tree (round 10): around the operand of a prefix operator followed by every operator,
    # call and index; around every integer literal of the printed random programs (one at a time and all at once)
    pairs = []
    for pre in ["-", "!", "- -", "!!", "-!"]:
        for tail in ["+ b", "- b", "* b", "/ b", "% b", "< b", "<= b", "> b", ">= b", "== b", "!= b", "&& b", "|| b", "(1)", "[0]", "* b + c", "== b && c", "(1)(2)", "[0][1]", ""]:
            for atom in ["a", "1", "a[0]", "f(2)", "ja"]:
                pairs.append(("%s%s %s" % (pre, atom, tail), "%s(%s) %s" % (pre, atom, tail)))
                pairs.append(("x = %s%s %s" % (pre, atom, tail), "x = %s((%s)) %s" % (pre, atom, tail)))
    import re as _re
    for t in [t for t in texts if _re.search(r"(?<![\w.\"])\d+(?![\w.\"])", t)][: (400 if tier == "quick" else 6000)]:
        if '"' in t:
            continue
        ms = list(_re.finditer(r"(?<![\w.])\d+(?![\w.])", t))
        m = ms[rng.below(len(ms))]
        pairs.append((t, t[:m.start()] + "(" + m.group(0) + ")" + t[m.end():]))
        pairs.append((t, _re.sub(r"(?<![\w.])(\d+)(?![\w.])", r"((\1))", t)))
    pa = core.impl(["parse " + hx(a) for a, _ in pairs] + ["parse " + hx(b) for _, b in pairs])
    pm = core.model(["parse " + hx(b) for _, b in pairs])
    for k, (a, b) in enumerate(pairs):
        res.seen("P" + b)
        res.count("redundant-parens")
        if pa[k] != pa[len(pairs) + k] or pa[len(pairs) + k] != pm[k]:
            bad += 1
            if bad <= 8:
                res.violation("redundant parentheses changed the syntax tree",
                              dict(kind="equivalence", input=[a, b], impl=[pa[k], pa[len(pairs) + k]], model=pm[k]))
    # WHERE IN THE TEXT an expression stands never changes its tree: the same text as the whole program, after a first statement,
    # after a comment / blank lines, inside a block — in particular at the very beginning of the text (the first token is read
    # by the parser's constructor, not by its loop), for every prefix operator followed by every binary operator
    firsts = []
    for pre in ["-", "!", "- -", "-(", "(", "[", "functie() { 1 }(", "als ja { 1 } anders { 2 } ", "\"s\" ", "1.5 ", "x "]:
        for op in ["+", "-", "*", "/", "%", "<", "<=", ">", ">=", "==", "!=", "&&", "||", "="]:
            close = ")" if pre.endswith("(") else ("]" if pre == "[" else "")
            body = "a" if pre.strip() in ("-", "!", "- -") or pre.endswith("(") or pre == "[" else ""
            firsts.append("%s%s%s %s b %s c" % (pre, body, close, op, rng.pick(["+", "*", "==", "&&"])))
            firsts.append("%s%s%s %s b" % (pre, body, close, op))
    firsts += [p for p in directed if p and not p.startswith("//")][:40]
    qa = core.impl(["parse " + hx(t) for t in firsts] + ["parse " + hx("0; " + t) for t in firsts] + ["parse " + hx("// c\n\n " + t) for t in firsts])
    nf = len(firsts)
    for k, t in enumerate(firsts):
        a, b, c = qa[k], qa[nf + k], qa[2 * nf + k]
        res.seen("F" + t)
        res.count("first-position")
        if a.startswith("ok {") and b.startswith("ok {(expr (int 0)) "):
            b2 = "ok {" + b[len("ok {(expr (int 0)) "):]
        elif a == "ok {}" and b == "ok {(expr (int 0))}":
            b2 = a
        else:
            b2 = b if not a.startswith("ok") else None
        if (a.startswith("ok") and (b2 != a or c != a)) or (not a.startswith("ok") and (b.startswith("ok") or c.startswith("ok"))):
            bad += 1
            if bad <= 8:
                res.violation("the same text parses to a different tree at the very beginning of the program than after a first statement or a comment",
                              dict(kind="position", input=[t, "0; " + t, "// c\n\n " + t], impl=[a, b, c]))
    if table_diffs:
        res.violation("the model's tables differ from the code's (precedence table)", dict(kind="tables", diffs=list(table_diffs)[:10], unchecked="table correspondence"), no_input=True)


def replay(res, rp):
    inp = rp["input"]
    if isinstance(inp, list) and rp.get("kind") == "position":
        ans = core.impl(["parse " + hx(a) for a in inp])
        print(ans)
        a, b, c = ans
        b2 = "ok {" + b[len("ok {(expr (int 0)) "):] if b.startswith("ok {(expr (int 0)) ") else b
        if a.startswith("ok") and (b2 != a or c != a):
            print("VIOLATION property=C07 replay=replay")
            return 1
        return 0
    if isinstance(inp, list):
        ans = core.impl(["parse " + hx(a) for a in inp])
        print(ans)
        if len(set(ans)) != 1:
            print("VIOLATION property=C07 replay=replay")
            return 1
        return 0
    i = core.impl(["parse " + hx(inp)])[0]
    m = core.model(["parse " + hx(inp)])[0]
    print("impl :", i[:400])
    print("model:", m[:400])
    want = rp.get("tree")
    if (want and i != "ok " + want) or i != m:
        print("VIOLATION property=C07 replay=replay")
        return 1
    return 0
