/- Stage 5: how the invariant moves along allocations and mutations. -/
import Nlmodel.Proofs.Lemmas.SimHStep
namespace Nl
namespace SimH
open Spec Sim

/-! ### how the invariant moves along allocations and mutations -/

theorem heap_str_lt (h : Heap) (a : Nat) (s : Text) (hx : h.get a = .str s) : a < h.cells.size := by
  unfold Heap.get at hx
  by_cases hlt : a < h.cells.size
  · exact hlt
  · have : h.cells[a]? = none := by simp; omega
    simp [Array.getD_eq_getD_getElem?, this] at hx

theorem pool_machine_alloc {cvals : Array Value} {cs : List Const} {h : Heap} {μ : AMap} (hp : PoolH cvals cs h μ) (c : Cell) :
    PoolH cvals cs (h.alloc c).1 μ :=
  ⟨hp.ints, fun k x hk => by
      obtain ⟨a0, h1, h2⟩ := hp.floats k x hk
      exact ⟨a0, h1, by rw [heap_push_get_old h c a0 (heap_get_live_lt h a0 x h2)]; exact h2⟩,
    fun k s hk => by
      obtain ⟨a0, h1, h2, h3⟩ := hp.strs k s hk
      exact ⟨a0, h1, by rw [heap_push_get_old h c a0 (heap_str_lt h a0 s h2)]; exact h2, h3⟩, hp.lits⟩

theorem pool_both_alloc {cvals : Array Value} {cs : List Const} {h : Heap} {μ : AMap} (hp : PoolH cvals cs h μ) (c : Cell) (a : Nat) :
    PoolH cvals cs (h.alloc c).1 (μ.ext a h.cells.size) := by
  have := pool_machine_alloc hp c
  refine ⟨this.ints, this.floats, fun k s hk => ?_, hp.lits⟩
  obtain ⟨a0, h1, h2, h3⟩ := hp.strs k s hk
  obtain ⟨a1, h1', h2', _⟩ := this.strs k s hk
  rw [h1] at h1'; injection h1' with e; injection e with e; subst e
  refine ⟨a0, h1, h2', fun x => ?_⟩
  simp only [AMap.ext]
  split
  · intro e; injection e with e
    have := heap_str_lt h a0 s h2; omega
  · exact h3 x

theorem pool_set {cvals : Array Value} {cs : List Const} {h : Heap} {μ : AMap} (hp : PoolH cvals cs h μ) (a a' : Nat) (hm : μ a = some a')
    (c : Cell) (hnf : ∀ x, h.get a' ≠ .float x) : PoolH cvals cs (h.set a' c) μ :=
  ⟨hp.ints, fun k x hk => by
      obtain ⟨a0, h1, h2⟩ := hp.floats k x hk
      have : a0 ≠ a' := by intro e; subst e; exact hnf x h2
      exact ⟨a0, h1, by rw [heap_set_get_other h a' a0 c this]; exact h2⟩,
    fun k s hk => by
      obtain ⟨a0, h1, h2, h3⟩ := hp.strs k s hk
      have : a0 ≠ a' := by intro e; subst e; exact h3 a hm
      exact ⟨a0, h1, by rw [heap_set_get_other h a' a0 c this]; exact h2, h3⟩, hp.lits⟩

/-! ### the managed list -/

theorem heap_arr_lt (h : Heap) (a : Nat) (mvs : List Value) (hx : h.get a = .arr mvs) : a < h.cells.size := by
  unfold Heap.get at hx
  by_cases hlt : a < h.cells.size
  · exact hlt
  · have : h.cells[a]? = none := by simp; omega
    simp [Array.getD_eq_getD_getElem?, this] at hx

/-- allocation of a cell on the machine; `hμ` covers the case where the new cell is an array -/
theorem mok_alloc {μ μ' : AMap} {m : Mem} (hm : MemOK μ m) (c : Cell) (hmap : ∀ a a', μ a = some a' → μ' a = some a')
    (hnew : ∀ mvs, c = .arr mvs → ∃ a0, μ' a0 = some m.heap.cells.size) :
    MemOK μ' { heap := (m.heap.alloc c).1, managed := m.heap.cells.size :: m.managed } := by
  refine ⟨?_, ?_, ?_⟩
  · refine List.nodup_cons.2 ⟨fun hin => ?_, hm.nd⟩
    have := hm.lt _ hin; omega
  · intro a ha
    have : (m.heap.alloc c).1.cells.size = m.heap.cells.size + 1 := by simp [Heap.alloc]
    show a < (m.heap.alloc c).1.cells.size
    rw [this]
    cases List.mem_cons.1 ha with
    | inl e => omega
    | inr e => have := hm.lt a e; omega
  · intro a mvs hg
    by_cases hlt : a < m.heap.cells.size
    · rw [heap_push_get_old m.heap c a hlt] at hg
      obtain ⟨h1, a0, h2⟩ := hm.arrs a mvs hg
      exact ⟨List.mem_cons_of_mem _ h1, a0, hmap _ _ h2⟩
    · have hlt' : a < (m.heap.alloc c).1.cells.size := heap_arr_lt _ a mvs hg
      have : (m.heap.alloc c).1.cells.size = m.heap.cells.size + 1 := by simp [Heap.alloc]
      have e : a = m.heap.cells.size := by omega
      subst e
      rw [heap_push_get_new] at hg
      exact ⟨List.mem_cons_self, hnew mvs hg⟩

theorem heap_set_size (h : Heap) (a : Nat) (c : Cell) : (h.set a c).cells.size = h.cells.size := by simp [Heap.set]

theorem heap_set_get_self (h : Heap) (a : Nat) (c : Cell) (ha : a < h.cells.size) : (h.set a c).get a = c := by
  simp [Heap.set, Heap.get, Array.getD_eq_getD_getElem?, ha]

/-- a cell replaced at a mapped address whose old cell was managed -/
theorem mok_set {μ : AMap} {m : Mem} (hm : MemOK μ m) (a0 a' : Nat) (hμ : μ a0 = some a') (c : Cell) (hman : ∀ mvs, c = .arr mvs → a' ∈ m.managed) :
    MemOK μ { m with heap := m.heap.set a' c } := by
  refine ⟨hm.nd, fun a ha => by rw [heap_set_size]; exact hm.lt a ha, ?_⟩
  intro a mvs hg
  by_cases e : a = a'
  · subst e
    have hlt : a < m.heap.cells.size := by have := heap_arr_lt _ a mvs hg; rwa [heap_set_size] at this
    rw [heap_set_get_self _ _ _ hlt] at hg
    exact ⟨hman mvs hg, a0, hμ⟩
  · rw [heap_set_get_other _ _ _ _ e] at hg; exact hm.arrs a mvs hg

section inv
variable {s0 : VM} {CS : List Const} {Γ : Gam} {μ : AMap} {st : SState} {g : Array Value} {l : Value} {m : Mem} {out : List Text}

/-- the invariant after a step that grew the state, given the new heap relation and pool facts -/
theorem Inv5.move {μ' : AMap} {st' : SState} {m' : Mem} (hinv : Inv5 s0 CS Γ μ st g l m out) (hg : Grow μ st m.heap μ' st' m'.heap)
    (hgenv : st'.genv = st.genv) (hlast : st'.last = st.last) (hout : st'.out = st.out)
    (hr : HR μ' st' m'.heap) (hp : PoolH s0.cvals CS m'.heap μ') (hmok : MemOK μ' m') : Inv5 s0 CS Γ μ' st' g l m' out :=
  ⟨fun b k hm v hv => by
      rw [hgenv] at hv
      obtain ⟨mv, h1, h2⟩ := hinv.relG b k hm v hv
      exact ⟨mv, h1.grow hg, h2⟩,
   by rw [hlast]; exact hinv.last.grow hg, hr, by rw [hout]; exact hinv.out, hp, hmok⟩

/-- a float result is boxed on the machine only -/
theorem inv_alloc_float (hinv : Inv5 s0 CS Γ μ st g l m out) (x : UInt64) :
    Inv5 s0 CS Γ μ st g l (m.allocFloat x).1 out ∧ Grow μ st m.heap μ st (m.allocFloat x).1.heap ∧
    VRh μ st (m.allocFloat x).1.heap (.float x) (m.allocFloat x).2 := by
  have hg := grow_machine_alloc μ st m.heap (.float x)
  refine ⟨hinv.move hg rfl rfl rfl (hr_machine_alloc hinv.hr _) (pool_machine_alloc hinv.pool _)
    (mok_alloc hinv.mok (.float x) (fun _ _ h => h) (fun mvs e => by cases e)), hg, ?_⟩
  simp only [Mem.allocFloat, VRh]
  exact heap_push_get_new m.heap (.float x)

/-- a new string on both sides -/
theorem inv_alloc_str (hinv : Inv5 s0 CS Γ μ st g l m out) (s : Text) :
    Inv5 s0 CS Γ (μ.ext st.store.size m.heap.cells.size) (st.alloc (.str s)).1 g l (m.allocStr s).1 out ∧
    Grow μ st m.heap (μ.ext st.store.size m.heap.cells.size) (st.alloc (.str s)).1 (m.allocStr s).1.heap ∧
    VRh (μ.ext st.store.size m.heap.cells.size) (st.alloc (.str s)).1 (m.allocStr s).1.heap (.str (st.alloc (.str s)).2) (m.allocStr s).2 := by
  have hg := grow_both_alloc hinv.hr (.str s) (.str s)
  have hr' := hr_both_alloc hinv.hr (.str s) (.str s) ⟨fun s' e => (by injection e with e; rw [e]), fun vs e => (by cases e)⟩
  refine ⟨hinv.move hg rfl rfl rfl hr' (pool_both_alloc hinv.pool _ _)
    (mok_alloc hinv.mok (.str s) hg.map (fun mvs e => by cases e)), hg, ?_⟩
  simp [Mem.allocStr, SState.alloc, Heap.alloc, VRh, AMap.ext, isStrCell]

/-- a new array on both sides -/
theorem inv_alloc_arr (hinv : Inv5 s0 CS Γ μ st g l m out) (vs : List SVal) (ms : List Value) (hl : VRL μ st m.heap vs ms) :
    Inv5 s0 CS Γ (μ.ext st.store.size m.heap.cells.size) (st.alloc (.arr vs)).1 g l (m.allocArr ms).1 out ∧
    Grow μ st m.heap (μ.ext st.store.size m.heap.cells.size) (st.alloc (.arr vs)).1 (m.allocArr ms).1.heap ∧
    VRh (μ.ext st.store.size m.heap.cells.size) (st.alloc (.arr vs)).1 (m.allocArr ms).1.heap (.arr (st.alloc (.arr vs)).2) (m.allocArr ms).2 := by
  have hg := grow_both_alloc hinv.hr (.arr vs) (.arr ms)
  have hr' := hr_both_alloc hinv.hr (.arr vs) (.arr ms) ⟨fun s' e => (by cases e), fun vs' e => (by injection e with e; subst e; exact ⟨ms, rfl, hl⟩)⟩
  refine ⟨hinv.move hg rfl rfl rfl hr' (pool_both_alloc hinv.pool _ _)
    (mok_alloc hinv.mok (.arr ms) hg.map (fun mvs e => ⟨st.store.size, by simp [AMap.ext]⟩)), hg, ?_⟩
  simp [Mem.allocArr, SState.alloc, Heap.alloc, VRh, AMap.ext, isArrCell]
/-- a cell replaced on both sides (index assignment) -/
theorem inv_set (hinv : Inv5 s0 CS Γ μ st g l m out) (a a' : Nat) (hm : μ a = some a') (sc0 sc : SCell) (c : Cell)
    (h0 : st.store[a]? = some sc0) (hk : sameKind sc0 sc) (hnf : ∀ x, m.heap.get a' ≠ .float x)
    (hnew : (∀ s, sc = .str s → c = .str s) ∧ (∀ vs, sc = .arr vs → ∃ mvs, c = .arr mvs ∧ VRL μ st m.heap vs mvs)) :
    Inv5 s0 CS Γ μ { st with store := st.store.setIfInBounds a sc } g l { m with heap := m.heap.set a' c } out ∧
    Grow μ st m.heap μ { st with store := st.store.setIfInBounds a sc } (m.heap.set a' c) := by
  have hg := grow_set hinv.hr a a' hm sc0 sc c h0 hk hnf
  exact ⟨hinv.move (m' := { m with heap := m.heap.set a' c }) hg rfl rfl rfl (hr_set hinv.hr a a' hm sc0 sc c h0 hk hnf hnew)
    (pool_set hinv.pool a a' hm c hnf) (mok_set hinv.mok a a' hm c (fun mvs e => by
      subst e
      cases sc with
      | str s => have := hnew.1 s rfl; cases this
      | arr vs =>
        cases sc0 with
        | str s0 => simp [sameKind] at hk
        | arr vs0 =>
          obtain ⟨mvs0, h1, _⟩ := hinv.hr.arr a a' vs0 hm h0
          exact (hinv.mok.arrs a' mvs0 h1).1)), hg⟩
end inv

end SimH
end Nl
