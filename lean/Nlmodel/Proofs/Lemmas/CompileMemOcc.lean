/-
  (a) The occurrence lists `occE/..` of Model/CompileMem are faithful to the code generator: the
  float/string part of the pool `emitE/..` computes is `add_constant` of the occurrences, in order,
  applied to the float/string part of the pool it started from - for every tree, position, loop
  context and initial pool (the FULL code generator, not a skeleton).
-/
import Nlmodel.Model.CompileMem
namespace Nl
namespace CompileMem

theorem addConst_fst (cs : List Const) (c : Const) :
    (addConst cs c).1 = if cs.any (Const.same · c) then cs else cs ++ [c] := by
  unfold addConst
  cases h : cs.findIdx? (Const.same · c) with
  | none =>
    have : cs.any (Const.same · c) = false := by
      rw [List.findIdx?_eq_none_iff] at h
      rw [List.any_eq_false]
      intro x hx; simpa using h x hx
    simp [this]
  | some i =>
    have : cs.any (Const.same · c) = true := by
      have hs : (cs.findIdx? (Const.same · c)).isSome = true := by simp [h]
      rw [List.findIdx?_isSome] at hs
      exact hs
    simp [this]

theorem same_heap {x c : Const} (h : Const.same x c = true) (hc : isHeap c = true) : isHeap x = true := by
  cases x <;> cases c <;> simp_all [Const.same, isHeap]

theorem same_imm {x c : Const} (h : Const.same x c = true) (hc : isHeap c = false) : isHeap x = false := by
  cases x <;> cases c <;> simp_all [Const.same, isHeap]

theorem any_filter_heap (cs : List Const) (c : Const) (hc : isHeap c = true) :
    (cs.filter isHeap).any (Const.same · c) = cs.any (Const.same · c) := by
  induction cs with
  | nil => rfl
  | cons x cs ih =>
    by_cases hx : isHeap x = true
    · simp [hx, ih]
    · have : Const.same x c = false := by
        cases hs : Const.same x c with
        | false => rfl
        | true => exact absurd (same_heap hs hc) hx
      simp [hx, ih, this]

/-- a float/string constant: `add_constant` commutes with the restriction to float/string entries -/
theorem filter_addConst_heap (cs : List Const) (c : Const) (hc : isHeap c = true) :
    (addConst cs c).1.filter isHeap = (addConst (cs.filter isHeap) c).1 := by
  rw [addConst_fst, addConst_fst, any_filter_heap cs c hc]
  by_cases h : cs.any (Const.same · c) = true
  · simp [h]
  · simp [h, List.filter_append, hc]

/-- an immediate constant does not change the float/string part of the pool -/
theorem filter_addConst_imm (cs : List Const) (c : Const) (hc : isHeap c = false) :
    (addConst cs c).1.filter isHeap = cs.filter isHeap := by
  rw [addConst_fst]
  by_cases h : cs.any (Const.same · c) = true
  · simp [h]
  · simp [h, List.filter_append, hc]

@[simp] theorem addConsts_nil (cs : List Const) : addConsts cs [] = cs := rfl
theorem addConsts_cons (cs : List Const) (c : Const) (occ : List Const) :
    addConsts cs (c :: occ) = addConsts (addConst cs c).1 occ := rfl
theorem addConsts_append (cs : List Const) (o1 o2 : List Const) :
    addConsts cs (o1 ++ o2) = addConsts (addConsts cs o1) o2 := by
  simp [addConsts, List.foldl_append]

/-- a fused `local op int` candidate has no float/string literal among its operands -/
theorem fused_occ {l : RExpr} {op : BinOp} {r : RExpr} {x : BinOp × Nat × Int}
    (h : fusedCandidate l op r = some x) : occE l = [] ∧ occE r = [] := by
  unfold fusedCandidate at h
  split at h
  · simp [occE]
  · simp [occE]
  · cases h

/-- the statement proved for each of the five mutually recursive emitters -/
abbrev Faithful (out : List Instr × List Const) (cs : List Const) (occ : List Const) : Prop :=
  out.2.filter isHeap = addConsts (cs.filter isHeap) occ

mutual
theorem occE_faithful : (e : RExpr) → ∀ pos lp cs, Faithful (emitE e pos lp cs) cs (occE e)
  | .int v, _, _, cs => by
    simp only [Faithful, emitE, occE, addConsts_nil]
    exact filter_addConst_imm cs _ rfl
  | .float x, _, _, cs => by
    simp only [Faithful, emitE, occE, addConsts_cons, addConsts_nil]
    exact filter_addConst_heap cs _ rfl
  | .str s, _, _, cs => by
    simp only [Faithful, emitE, occE, addConsts_cons, addConsts_nil]
    exact filter_addConst_heap cs _ rfl
  | .bool b, _, _, _ => by simp [Faithful, emitE, occE]
  | .var r, _, _, _ => by simp [Faithful, emitE, occE]
  | .not r, pos, lp, cs => by
    have := occE_faithful r pos lp cs
    simpa [Faithful, emitE, occE] using this
  | .neg r, pos, lp, cs => by
    have := occE_faithful r pos lp cs
    simpa [Faithful, emitE, occE] using this
  | .assignVar r e, pos, lp, cs => by
    have := occE_faithful e pos lp cs
    simpa [Faithful, emitE, occE] using this
  | .assignIndex l i v, pos, lp, cs => by
    have h1 := occE_faithful l pos lp cs
    have h2 := occE_faithful i (pos + sizeE l) lp (emitE l pos lp cs).2
    have h3 := occE_faithful v (pos + sizeE l + sizeE i) lp (emitE i (pos + sizeE l) lp (emitE l pos lp cs).2).2
    simp only [Faithful] at h1 h2 h3
    simp only [Faithful, emitE, occE, addConsts_append]
    rw [h3, h2, h1]
  | .infix l op r, pos, lp, cs => by
    simp only [Faithful, emitE, occE]
    cases hf : fusedCandidate l op r with
    | some x =>
      obtain ⟨op', k, v⟩ := x
      obtain ⟨hl, hr⟩ := fused_occ hf
      simp only [hl, hr, List.append_nil, addConsts_nil]
      exact filter_addConst_imm cs _ rfl
    | none =>
      have h1 := occE_faithful l pos lp cs
      have h2 := occE_faithful r (pos + sizeE l) lp (emitE l pos lp cs).2
      simp only [Faithful] at h1 h2
      simp only [addConsts_append]
      rw [h2, h1]
  | .ifE c t e, pos, lp, cs => by
    have h1 := occE_faithful c pos lp cs
    have h2 := occB_faithful t (pos + sizeE c + 3) lp (emitE c pos lp cs).2
    have h3 := occO_faithful e (pos + sizeE c + 3 + sizeBV t + 3) lp
      (emitB t (pos + sizeE c + 3) lp (emitE c pos lp cs).2).2
    simp only [Faithful] at h1 h2 h3
    simp only [Faithful, emitE, occE, addConsts_append]
    rw [h3, h2, h1]
  | .whileE c b, pos, lp, cs => by
    have h1 := occE_faithful c (pos + 1) (some (pos + 1, pos + 1 + sizeE c + 4 + sizeBV b + 3)) cs
    have h2 := occB_faithful b (pos + 1 + sizeE c + 4) (some (pos + 1, pos + 1 + sizeE c + 4 + sizeBV b + 3))
      (emitE c (pos + 1) (some (pos + 1, pos + 1 + sizeE c + 4 + sizeBV b + 3)) cs).2
    simp only [Faithful] at h1 h2
    simp only [Faithful, emitE, occE, addConsts_append]
    rw [h2, h1]
  | .func fid self ps nl body, pos, lp, cs => by
    have h1 := occB_faithful body (pos + 3) none cs
    simp only [Faithful] at h1
    simp only [Faithful, emitE, occE]
    rw [filter_addConst_imm _ _ rfl, h1]
  | .call f as, pos, lp, cs => by
    have h1 := occEs_faithful as pos lp cs
    have h2 := occE_faithful f (pos + sizeEs as) lp (emitEs as pos lp cs).2
    simp only [Faithful] at h1 h2
    simp only [Faithful, emitE, occE, addConsts_append]
    rw [h2, h1]
  | .callBuiltin b as, pos, lp, cs => by
    have h1 := occEs_faithful as pos lp cs
    simpa [Faithful, emitE, occE] using h1
  | .arr vs, pos, lp, cs => by
    have h1 := occEs_faithful vs pos lp cs
    simpa [Faithful, emitE, occE] using h1
  | .index l i, pos, lp, cs => by
    have h1 := occE_faithful l pos lp cs
    have h2 := occE_faithful i (pos + sizeE l) lp (emitE l pos lp cs).2
    simp only [Faithful] at h1 h2
    simp only [Faithful, emitE, occE, addConsts_append]
    rw [h2, h1]

theorem occEs_faithful : (es : RExprs) → ∀ pos lp cs, Faithful (emitEs es pos lp cs) cs (occEs es)
  | .nil, _, _, _ => by simp [Faithful, emitEs, occEs]
  | .cons e es, pos, lp, cs => by
    have h1 := occE_faithful e pos lp cs
    have h2 := occEs_faithful es (pos + sizeE e) lp (emitE e pos lp cs).2
    simp only [Faithful] at h1 h2
    simp only [Faithful, emitEs, occEs, addConsts_append]
    rw [h2, h1]

theorem occS_faithful : (s : RStmt) → ∀ pos lp cs, Faithful (emitS s pos lp cs) cs (occS s)
  | .expr e, pos, lp, cs => by
    have := occE_faithful e pos lp cs
    simpa [Faithful, emitS, occS] using this
  | .letS r e, pos, lp, cs => by
    have := occE_faithful e pos lp cs
    simpa [Faithful, emitS, occS] using this
  | .ret e, pos, lp, cs => by
    have := occE_faithful e pos lp cs
    simpa [Faithful, emitS, occS] using this
  | .block b, pos, lp, cs => by
    have := occB_faithful b pos lp cs
    simpa [Faithful, emitS, occS] using this
  | .brk, _, _, _ => by simp [Faithful, emitS, occS]
  | .cont, _, _, _ => by simp [Faithful, emitS, occS]

theorem occB_faithful : (b : RBlock) → ∀ pos lp cs, Faithful (emitB b pos lp cs) cs (occB b)
  | .nil, _, _, _ => by simp [Faithful, emitB, occB]
  | .cons s b, pos, lp, cs => by
    have h1 := occS_faithful s pos lp cs
    have h2 := occB_faithful b (pos + sizeS s) lp (emitS s pos lp cs).2
    simp only [Faithful] at h1 h2
    simp only [Faithful, emitB, occB, addConsts_append]
    rw [h2, h1]

theorem occO_faithful : (o : ROptBlock) → ∀ pos lp cs, Faithful (emitO o pos lp cs) cs (occO o)
  | .none, _, _, _ => by simp [Faithful, emitO, occO]
  | .some b, pos, lp, cs => by
    have := occB_faithful b pos lp cs
    simpa [Faithful, emitO, occO] using this
end

/-! ### the machine's pool is `add_constant` of the occurrences -/

/-- pool threading of the machine, on constants only -/
def stepP (cs : List Const) (c : Const) : List Const := if isHeap c then (addConst cs c).1 else cs

theorem filter_addConst (cs : List Const) (c : Const) :
    (addConst cs c).1.filter isHeap = stepP (cs.filter isHeap) c := by
  unfold stepP
  cases hc : isHeap c with
  | true => simpa using filter_addConst_heap cs c hc
  | false => simpa using filter_addConst_imm cs c hc

theorem filter_addConsts (occ : List Const) : ∀ cs : List Const,
    (addConsts cs occ).filter isHeap = occ.foldl stepP (cs.filter isHeap) := by
  induction occ with
  | nil => intro cs; rfl
  | cons c occ ih =>
    intro cs
    rw [addConsts_cons, ih, filter_addConst, List.foldl_cons]

theorem findIdx_isSome_any {α : Type} (p : α → Bool) (l : List α) : (l.findIdx? p).isSome = l.any p := by
  rw [List.findIdx?_isSome]

theorem step_pool (w : CM) (c : Const) : (step w c).pool.map Prod.fst = stepP (w.pool.map Prod.fst) c := by
  unfold step stepP
  cases hc : isHeap c with
  | false => simp
  | true =>
    simp only [if_true]
    rw [addConst_fst, List.any_map]
    have hk := findIdx_isSome_any (fun e : Const × Nat => Const.same e.1 c) w.pool
    cases hf : w.pool.findIdx? (fun e => Const.same e.1 c) with
    | some i =>
      rw [hf] at hk
      have : (w.pool.any ((fun x => Const.same x c) ∘ Prod.fst)) = true := by
        simpa [Function.comp_def] using hk.symm
      simp [this]
    | none =>
      rw [hf] at hk
      have : (w.pool.any ((fun x => Const.same x c) ∘ Prod.fst)) = false := by
        simpa [Function.comp_def] using hk.symm
      simp [this]

theorem compileAllocFrom_pool (occ : List Const) : ∀ w : CM,
    (compileAllocFrom w occ).pool.map Prod.fst = occ.foldl stepP (w.pool.map Prod.fst) := by
  induction occ with
  | nil => intro w; rfl
  | cons c occ ih =>
    intro w
    simp only [compileAllocFrom, List.foldl_cons] at ih ⊢
    rw [ih, step_pool]

/-- the machine's pool (constants, in order) is the float/string part of `add_constant` of the
    occurrences: for ANY occurrence list and any starting pool -/
theorem compileAllocFrom_pool_eq (occ : List Const) (w : CM) (cs : List Const)
    (hw : w.pool.map Prod.fst = cs.filter isHeap) :
    (compileAllocFrom w occ).pool.map Prod.fst = (addConsts cs occ).filter isHeap := by
  rw [compileAllocFrom_pool, filter_addConsts, hw]

/-- (a), general form: any block, any code position, loop context and initial pool `cs`; the machine starts
    from any state whose pool is the float/string part of `cs` -/
theorem occ_faithful_from (p : RBlock) (pos : Nat) (lp : LoopCtx) (cs : List Const) (w : CM)
    (hw : w.pool.map Prod.fst = cs.filter isHeap) :
    (compileAllocFrom w (occB p)).pool.map Prod.fst = (emitB p pos lp cs).2.filter isHeap := by
  have h := occB_faithful p pos lp cs
  simp only [Faithful] at h
  have h3 := filter_addConsts (occB p) (cs.filter isHeap)
  have h4 : (cs.filter isHeap).filter isHeap = cs.filter isHeap := by simp
  rw [h4, ← h] at h3
  rw [compileAllocFrom_pool, hw, ← h3]
  simp

/-- (a) OCCURRENCES ARE FAITHFUL TO THE CODE GENERATOR: the constant pool the compile-phase memory machine
    builds from the occurrence list of a program (constants, in pool order) is exactly the float/string part
    of the pool the code generator `emitB` computes for that program on a fresh compiler -/
theorem occ_faithful (p : RBlock) :
    (compileAlloc (occB p)).pool.map Prod.fst = (emitB p 0 none []).2.filter isHeap :=
  occ_faithful_from p 0 none [] {} rfl

/-- ... hence of the pool of the `Bytecode` that `compile_ast` returns -/
theorem occ_faithful_compileR (p : RBlock) (bc : Bytecode) (h : compileR p = .ok bc) :
    (compileAlloc (occB p)).pool.map Prod.fst = bc.consts.filter isHeap := by
  rw [occ_faithful]
  unfold compileR at h
  simp only at h
  split at h
  · cases h; rfl
  · cases h

end CompileMem
end Nl
