/-
  Run-time values, the heap store, the operators of `object.rs` (`impl_arith!`, `impl_cmp!`,
  `impl_logical!`, after repairs F1/F2/F3/F18) and the seven builtins of `builtins.rs`
  (after F19/F28/F29).  Values are the *decoded* view of the tagged words of Model/Object;
  Proofs/C15 shows the encoding is lossless, which is what justifies working on this view.
-/
import Nlmodel.Model.Parser
import Nlmodel.Model.Object
namespace Nl

/-- a value on the VM stack: immediates, or the address of a heap box -/
inductive Value where
  | null
  | bool (b : Bool)
  | int (i : Int)
  | fn (ip : Nat) (nl : Nat)
  | float (a : Nat)
  | str (a : Nat)
  | arr (a : Nat)
  deriving DecidableEq, Repr, Inhabited

/-- a heap box (`Float`, `String`, `Array` of object.rs) or a released one -/
inductive Cell where
  | float (bits : UInt64)
  | str (s : Text)
  | arr (vs : List Value)
  | freed
  deriving Repr, Inhabited

/-- the heap store. `alloc` always returns a fresh address (allocator reuse is below the model). -/
structure Heap where
  cells : Array Cell := #[]
  deriving Inhabited

def Heap.get (h : Heap) (a : Nat) : Cell := h.cells.getD a .freed
def Heap.alloc (h : Heap) (c : Cell) : Heap × Nat := ({ cells := h.cells.push c }, h.cells.size)
def Heap.set (h : Heap) (a : Nat) (c : Cell) : Heap := { cells := h.cells.setIfInBounds a c }
def Heap.free (h : Heap) (a : Nat) : Heap := h.set a .freed
def Heap.isLive (h : Heap) (a : Nat) : Bool := match h.get a with | .freed => false | _ => true

def Value.addr? : Value → Option Nat
  | .float a => some a | .str a => some a | .arr a => some a | _ => none

def Value.isHeap (v : Value) : Bool := v.addr?.isSome

def Value.ty : Value → Obj.Ty
  | .null => .null | .bool _ => .bool | .int _ => .int | .fn .. => .function
  | .float _ => .float | .str _ => .string | .arr _ => .array

/-- the 13 binary operators -/
inductive BinOp where
  | add | sub | mul | div | mod | gt | gte | lt | lte | eq | neq | and | or
  deriving DecidableEq, Repr, Inhabited

def BinOp.isArith : BinOp → Bool
  | .add | .sub | .mul | .div | .mod => true | _ => false
def BinOp.isOrder : BinOp → Bool
  | .gt | .gte | .lt | .lte => true | _ => false

/-- the allocator interface the operators need: where new boxes get traced.  `managed` is the
    collector's object list (`GC::objects`). -/
structure Mem where
  heap : Heap := {}
  managed : List Nat := []
  deriving Inhabited

/-- `Object::float(v, gc)` / `Object::string(..)` / `Object::array(..)`: allocate and trace -/
def Mem.allocFloat (m : Mem) (b : UInt64) : Mem × Value :=
  let (h, a) := m.heap.alloc (.float b)
  ({ heap := h, managed := a :: m.managed }, .float a)
def Mem.allocStr (m : Mem) (s : Text) : Mem × Value :=
  let (h, a) := m.heap.alloc (.str s)
  ({ heap := h, managed := a :: m.managed }, .str a)
def Mem.allocArr (m : Mem) (vs : List Value) : Mem × Value :=
  let (h, a) := m.heap.alloc (.arr vs)
  ({ heap := h, managed := a :: m.managed }, .arr a)

def Heap.floatAt (h : Heap) (a : Nat) : UInt64 := match h.get a with | .float b => b | _ => 0
def Heap.strAt (h : Heap) (a : Nat) : Text := match h.get a with | .str s => s | _ => []
def Heap.arrAt (h : Heap) (a : Nat) : List Value := match h.get a with | .arr vs => vs | _ => []

/-- shallow view of a value: what the operators and the unary builtins look at.  Shared by the
    machine (Model/VM) and the definitional semantics (Spec/Eval), which differ only in how they
    obtain the view (boxed vs. immediate floats) and where they put a new box. -/
inductive View where
  | null
  | bool (b : Bool)
  | int (i : Int)
  | float (bits : UInt64)
  | str (s : Text)
  | fn (id : Nat × Nat)
  | arr (len : Nat)
  deriving Repr, Inhabited, DecidableEq

def View.ty : View → Obj.Ty
  | .null => .null | .bool _ => .bool | .int _ => .int | .fn _ => .function
  | .float _ => .float | .str _ => .string | .arr _ => .array

/-- result of an operator / builtin before boxing -/
inductive PRes where
  | null
  | bool (b : Bool)
  | int (i : Int)
  | float (bits : UInt64)     -- a new float box
  | str (s : Text)            -- a new string box
  | same                      -- the (first) argument itself
  deriving Repr, Inhabited, DecidableEq

/-- integer arithmetic of the repaired `impl_arith!`: exact or a type error -/
def intArith (op : BinOp) (a b : Int) : Except Err Int :=
  let r : Option Int := match op with
    | .add => some (a + b)
    | .sub => some (a - b)
    | .mul => some (a * b)
    | .div => if b = 0 then none else some (Int.tdiv a b)
    | .mod => if b = 0 then none else some (Int.tmod a b)
    | _ => none
  match r with
  | some v => if inRange v then .ok v else .error .type
  | none => .error .type

def floatArith (op : BinOp) (a b : UInt64) : UInt64 :=
  match op with
  | .add => F64.add a b | .sub => F64.sub a b | .mul => F64.mul a b
  | .div => F64.div a b | .mod => F64.rem a b | _ => 0

/-- lexicographic order on code points = Rust's `str` ordering (UTF-8 byte order agrees with
    code-point order) -/
def textLt : Text → Text → Bool
  | [], [] => false
  | [], _ :: _ => true
  | _ :: _, [] => false
  | a :: as, b :: bs => if a.val < b.val then true else if a.val > b.val then false else textLt as bs

def cmpBy (op : BinOp) (lt eq : Bool) : Bool :=
  match op with
  | .lt => lt | .lte => lt || eq | .gt => !lt && !eq | .gte => !lt
  | .eq => eq | .neq => !eq | _ => false

/-- float comparisons are not derived from one `lt`: NaN makes all of < <= > >= false -/
def floatCmp (op : BinOp) (a b : UInt64) : Bool :=
  match op with
  | .lt => F64.lt a b | .lte => F64.le a b | .gt => F64.lt b a | .gte => F64.le b a
  | .eq => F64.eq a b | .neq => !F64.eq a b | _ => false

/-- `left.$op(right, gc)` on views: one binary operator -/
def binopCore (op : BinOp) (l r : View) : Except Err PRes :=
  match op with
  | .and | .or =>
    match l, r with
    | .bool a, .bool b => .ok (.bool (if op = .and then a && b else a || b))
    | _, _ => .error .type
  | _ =>
    if l.ty ≠ r.ty then .error .type
    else if op.isArith then
      match l, r with
      | .int a, .int b =>
        match intArith op a b with
        | .ok v => .ok (.int v)
        | .error e => .error e
      | .float a, .float b => .ok (.float (floatArith op a b))
      | _, _ => .error .type
    else
      -- comparisons (`impl_cmp!`)
      match l, r with
      | .null, .null => .ok (.bool (cmpBy op false true))
      | .bool a, .bool b => .ok (.bool (cmpBy op (!a && b) (a == b)))
      | .int a, .int b => .ok (.bool (cmpBy op (a < b) (a == b)))
      | .float a, .float b => .ok (.bool (floatCmp op a b))
      | .str x, .str y => .ok (.bool (cmpBy op (textLt x y) (x == y)))
      | .fn i, .fn j =>
        if op.isOrder then .error .type else .ok (.bool (cmpBy op false (i == j)))
      | _, _ => .error .type      -- arrays: no equality, no order (F18)

/-! ### text of values (`Display for Object`) -/

/-- decimal spelling of a natural number (most significant digit first) -/
def natToDec (n : Nat) : Text :=
  if h : n < 10 then [Char.ofNat (48 + n)]
  else natToDec (n / 10) ++ [Char.ofNat (48 + n % 10)]
termination_by n
decreasing_by omega

/-- `isize::to_string` -/
def intToText (i : Int) : Text :=
  if i < 0 then '-' :: natToDec i.natAbs else natToDec i.natAbs

/-- deep view of a value: what `print`, `Display` and the canonical observation look at -/
inductive Tree where
  | null
  | bool (b : Bool)
  | int (i : Int)
  | float (bits : UInt64)
  | str (s : Text)
  | fn
  | arr (elems : List Tree)
  | cycle (up : Nat)        -- back-reference to the `up`-th enclosing array (0 = innermost)
  deriving Repr, Inhabited

mutual
/-- `Display for Object` (F29: an array already being printed shows as `[...]`) -/
def Tree.show : Tree → Text
  | .null => []
  | .bool b => if b then "ja".toList else "nee".toList
  | .int i => intToText i
  | .float x => F64.toDecimal x
  | .str s => s
  | .fn => "functie".toList
  | .arr es => '[' :: Tree.showList es ++ [']']
  | .cycle _ => "[...]".toList
def Tree.showList : List Tree → Text
  | [] => []
  | [t] => t.show
  | t :: ts => t.show ++ ", ".toList ++ Tree.showList ts
end

def escText (t : Text) : String := hexText t

mutual
/-- canonical observation (DESIGN §4.2) -/
def Tree.canon : Tree → String
  | .null => "null"
  | .bool b => if b then "b:ja" else "b:nee"
  | .int i => "i:" ++ toString i
  | .float x => if F64.isNaN x then "f:nan" else "f:" ++ hex64 x
  | .str s => "s:" ++ escText s
  | .fn => "fn"
  | .arr es => "a:[" ++ Tree.canonList es ++ "]"
  | .cycle k => "^" ++ toString k
def Tree.canonList : List Tree → String
  | [] => ""
  | [t] => t.canon
  | t :: ts => t.canon ++ " " ++ Tree.canonList ts
end

/-! ### builtins -/

inductive Builtin where
  | print | type | bool | float | int | string | length
  deriving DecidableEq, Repr, Inhabited

def Builtin.id : Builtin → Nat
  | .print => 0 | .type => 1 | .bool => 2 | .float => 3 | .int => 4 | .string => 5 | .length => 6

def Builtin.ofId : Nat → Option Builtin
  | 0 => some .print | 1 => some .type | 2 => some .bool | 3 => some .float | 4 => some .int
  | 5 => some .string | 6 => some .length | _ => none

/-- `builtins::resolve` -/
def Builtin.resolve (n : Text) : Option Builtin :=
  if n = "print".toList then some .print
  else if n = "type".toList then some .type
  else if n = "int".toList then some .int
  else if n = "float".toList then some .float
  else if n = "bool".toList then some .bool
  else if n = "string".toList then some .string
  else if n = "lengte".toList then some .length
  else none

/-- `char::is_whitespace` (Unicode White_Space), used by `str::trim` -/
def isUniSpace (c : Char) : Bool :=
  let v := c.toNat
  (0x09 ≤ v && v ≤ 0x0D) || v = 0x20 || v = 0x85 || v = 0xA0 || v = 0x1680
  || (0x2000 ≤ v && v ≤ 0x200A) || v = 0x2028 || v = 0x2029 || v = 0x202F || v = 0x205F || v = 0x3000

def trimText (s : Text) : Text :=
  ((s.dropWhile isUniSpace).reverse.dropWhile isUniSpace).reverse

/-- optional sign of a decimal number -/
def splitSign : Text → Bool × Text
  | '-' :: r => (true, r)
  | '+' :: r => (false, r)
  | s => (false, s)

/-- `str::parse::<isize>()`: optional sign, at least one ASCII digit, must fit 64 bits -/
def parseIntText (s : Text) : Option Int :=
  let (neg, ds) := splitSign s
  if ds.isEmpty || !ds.all Char.isDigit then none
  else
    let n : Int := F64.digitsToNat ds
    let v := if neg then -n else n
    if -(2 ^ 63) ≤ v && v < 2 ^ 63 then some v else none

/-- print formatting (F28): the k-th `{}` of the format text is replaced by the k-th argument -/
def formatPrint : Text → List Text → Text
  | [], _ => []
  | '{' :: '}' :: r, a :: as => a ++ formatPrint r as
  | c :: r, as => c :: formatPrint r as

/-- the text `print(args)` writes (without the final newline) -/
def printLine : List Tree → Text
  | [] => []
  | f :: rest => formatPrint f.show (rest.map Tree.show)

/-- the six unary builtins on the view of their argument -/
def builtinCore (b : Builtin) (v : View) : Except Err PRes :=
  match b with
  | .print => .error .argument      -- not unary; handled by the caller
  | .type => .ok (.str v.ty.name.toList)
  | .string =>
    match v with
    | .null => .ok (.str [])
    | .bool x => .ok (.str (if x then "true".toList else "false".toList))
    | .float x => .ok (.str (F64.toDecimal x))
    | .int i => .ok (.str (intToText i))
    | .str _ => .ok .same
    | _ => .error .argument
  | .bool =>
    match v with
    | .null => .ok (.bool false)
    | .bool _ => .ok .same
    | .float x => .ok (.bool (F64.lt (F64.zero false) x))
    | .int i => .ok (.bool (i > 0))
    | .str s => .ok (.bool (!s.isEmpty))
    | .arr n => .ok (.bool (n != 0))
    | .fn _ => .error .argument
  | .int =>
    let fin (i : Int) : Except Err PRes := if inRange i then .ok (.int i) else .error .argument
    match v with
    | .null => .ok (.int 0)
    | .bool x => .ok (.int (if x then 1 else 0))
    | .float x => if F64.isFinite x then fin (F64.truncToInt x) else .error .argument
    | .int _ => .ok .same
    | .str s =>
      match parseIntText (trimText s) with
      | some i => fin i
      | none => .error .argument
    | _ => .error .argument
  | .float =>
    match v with
    | .null => .ok (.float (F64.zero false))
    | .bool x => .ok (.float (if x then F64.ofInt 1 else F64.zero false))
    | .float _ => .ok .same
    | .int i => .ok (.float (F64.ofInt i))
    | .str s =>
      match F64.parseDec (trimText s) with
      | some x => .ok (.float x)
      | none => .error .argument
    | _ => .error .argument
  | .length =>
    match v with
    | .str s => .ok (.int s.length)
    | .arr n => .ok (.int n)
    | _ => .error .type

/-- index normalisation of `index_get_*`/`index_set_*` -/
def normIndex (len : Nat) (i : Int) : Option Nat :=
  let j := if i < 0 then i + len else i
  if 0 ≤ j && j < len then some j.toNat else none

/-! ### the machine's side: views and trees of boxed values -/

def Heap.view (h : Heap) : Value → View
  | .null => .null
  | .bool b => .bool b
  | .int i => .int i
  | .fn ip nl => .fn (ip, nl)
  | .float a => .float (h.floatAt a)
  | .str a => .str (h.strAt a)
  | .arr a => .arr (h.arrAt a).length

/-- deep view; `path` = addresses of the enclosing arrays, innermost first -/
def Heap.tree (h : Heap) : Nat → List Nat → Value → Tree
  | 0, _, _ => .null
  | f + 1, path, v =>
    match v with
    | .null => .null
    | .bool b => .bool b
    | .int i => .int i
    | .fn .. => .fn
    | .float a => .float (h.floatAt a)
    | .str a => .str (h.strAt a)
    | .arr a =>
      match path.idxOf? a with
      | some k => .cycle k
      | none => .arr ((h.arrAt a).map (h.tree f (a :: path)))

def treeDepth : Nat := 100000

/-- box a primitive result -/
def Mem.box (m : Mem) (arg : Value) : PRes → Value × Mem
  | .null => (.null, m)
  | .bool b => (.bool b, m)
  | .int i => (.int i, m)
  | .float x => let (m', v) := m.allocFloat x; (v, m')
  | .str s => let (m', v) := m.allocStr s; (v, m')
  | .same => (arg, m)

def binop (op : BinOp) (l r : Value) (m : Mem) : Except Err (Value × Mem) :=
  match binopCore op (m.heap.view l) (m.heap.view r) with
  | .ok p => .ok (m.box l p)
  | .error e => .error e

/-- `builtins::call`; output chunks are appended to `out` -/
def callBuiltin (b : Builtin) (args : List Value) (m : Mem) (out : List Text) :
    Except Err (Value × Mem × List Text) :=
  match b with
  | .print => .ok (.null, m, out ++ [printLine (args.map (m.heap.tree treeDepth []))])
  | _ =>
    match args with
    | [v] =>
      match builtinCore b (m.heap.view v) with
      | .ok p => let (r, m') := m.box v p; .ok (r, m', out)
      | .error e => .error e
    | _ => .error .argument

end Nl
